(** Executable model of DcmMetaExtension.check_valid and what it calls
    (src/dcmstack/dcmmeta.py: get_valid_classes 212-235, get_multiplicity 237-275, check_valid 277-337,
    from_json 508-513, from_runtime_repr 564-575, NiftiWrapper.__init__ 1268-1294), statement by
    statement, on the RAW content dictionary [c : jv] (see Content/PyVal.v for the reading of jv).
    Python exceptions are [Err]: InvalidExtensionError = EInvalidExt, KeyError = EKey,
    TypeError = EType, ValueError = EValue, IndexError = EIndex, AttributeError = EAttr,
    MissingExtensionError = EMissingExt.  "Accept" = [Ok tt].

    The tables come from Generated/T_content.v (translated from the sources on every run).

    EXACT on (accept/reject and exception class), established by the correspondence run:
      any content (dict or not) in which
      - the shape entries that the code looks at are ints or bools (a float entry makes Python
        compute with floats, a str/None/list entry raises TypeError somewhere later: the model says
        [Err EType] for all of them; float entries are therefore OUTSIDE the domain);
      - dcmmeta_slice_dim is not a float (a float in [0,3) passes the range test and raises
        TypeError when it is used as an index; the model says [Err EType] at once: still a
        rejection, possibly another class);
      - every classification entry that is present (content[base], content[base][sub]) is a dict
        (the uniqueness loop would build [set(x)] of a list or str; the model says [Err EType]);
      - np.array(affine).shape: nested lists of anything, depth <= 4 checked against numpy
        (ragged -> ValueError). *)
From Coq Require Import List Bool ZArith NArith QArith Lia.
From DV Require Import Common.Res Common.Str Common.Jv Generated.T_content Content.PyVal.
Import ListNotations.
Open Scope Z_scope.
Open Scope res_scope.

(** ** Small Python pieces *)

(** [_req_base_keys_map[version]]: TypeError for an unhashable key (list, dict), KeyError when no
    table key equals it. *)
Definition req_keys (ver : jv) : res (list str) :=
  match ver with
  | JArr _ | JObj _ => Err EType
  | _ => match find (fun e => num_eq_key ver (fst e)) req_base_keys_map with
         | Some e => Ok (snd e)
         | None => Err EKey
         end
  end.

(** [set(self._content)] and [req <= keys]. *)
Definition content_keys (c : jv) : list str :=
  match c with JObj o => map fst o | _ => [] end.
Definition subsetb (a b : list str) : bool :=
  forallb (fun k => existsb (str_eqb k) b) a.

(** [np.array(x).shape] for a JSON value: a non-list is a 0-d scalar; a list of n items that all
    have the same shape s has shape n :: s; [] has shape [0]; anything ragged raises ValueError
    (numpy >= 1.24). *)
Fixpoint np_shape (v : jv) : res (list nat) :=
  match v with
  | JArr l =>
      match l with
      | [] => Ok [0%nat]
      | x :: xs =>
          match np_shape x with
          | Err e => Err e
          | Ok s =>
              (fix go (ys : list jv) : res (list nat) :=
                 match ys with
                 | [] => Ok (length l :: s)
                 | y :: ys' => match np_shape y with
                               | Err e => Err e
                               | Ok s' => if nats_eqb s s' then go ys' else Err EValue
                               end
                 end) xs
          end
      end
  | _ => Ok []
  end.

(** [self.shape] = [tuple(self._content['dcmmeta_shape'])]: a list gives its items, a str its
    characters, a dict its keys; None and numbers are not iterable. *)
Definition shape_of (c : jv) : res (list jv) :=
  do v <- getitem c K_shape;
  match v with
  | JArr l => Ok l
  | JStr s => Ok (map (fun ch => JStr [ch]) s)
  | JObj o => Ok (map (fun kv => JStr (fst kv)) o)
  | _ => Err EType
  end.

(** [t[i]] on a tuple with a Python int index (negative counts from the end). *)
Definition py_index (l : list jv) (i : Z) : res jv :=
  let n := Z.of_nat (length l) in
  let j := if i <? 0 then i + n else i in
  if (j <? 0) || (n <=? j) then Err EIndex
  else match nth_error l (Z.to_nat j) with Some v => Ok v | None => Err EIndex end.

(** A shape entry used as a number. *)
Definition ent_int (v : jv) : res Z :=
  match as_int v with Some z => Ok z | None => Err EType end.
Definition ent (sh : list jv) (i : Z) : res Z :=
  do v <- py_index sh i; ent_int v.

Fixpoint mul_all (n : Z) (l : list jv) : res Z :=
  match l with
  | [] => Ok n
  | v :: r => do z <- ent_int v; mul_all (n * z) r
  end.

Definition lastn {A} (n : nat) (l : list A) : list A := skipn (length l - n) l.

(** ** get_valid_classes *)
Definition is_one (v : jv) : bool :=
  match as_int v with Some 1 => true | _ => false end.

Definition get_valid_classes (c : jv) : res (list cname) :=
  do sh <- shape_of c;
  match length sh with
  | 3%nat => Ok (firstn vc_take_3d classifications)
  | 4%nat => Ok (firstn vc_take_4d classifications)
  | 5%nat => if is_one (nth 3 sh JNull)
             then Ok (firstn vc_take_5d classifications ++ lastn vc_last_5d classifications)
             else Ok classifications
  | _ => Err EValue
  end.

(** ** n_slices and get_multiplicity *)
Definition n_slices (c : jv) : res (option Z) :=
  do sd <- getitem c K_slice_dim;
  match sd with
  | JNull => Ok None
  | _ => do sh <- shape_of c;
         match as_int sd with
         | Some i => do z <- ent sh i; Ok (Some z)
         | None => Err EType
         end
  end.

Definition get_multiplicity (c : jv) (cl : cname) : res Z :=
  do vc <- get_valid_classes c;
  (* `raise ValueError("Invalid classification: %s" % (classification,))` (fix ead4ac2; before it the operand of %
     was the 2-tuple itself and the formatting raised TypeError) *)
  if negb (existsb (cname_eqb cl) vc) then Err EValue else
  let base := fst cl in
  let sub := snd cl in
  do sh <- shape_of c;
  if str_eqb sub N_slices then
    do ns <- n_slices c;
    match ns with
    | None => Ok 0
    | Some n =>
        if str_eqb base N_vector then (do d <- ent sh 3; Ok (n * d))
        else if str_eqb base N_global then mul_all n (skipn 3 sh)
        else Ok n
    end
  else if str_eqb sub N_samples then
    if str_eqb base N_time then
      do d3 <- ent sh 3;
      if Nat.eqb (length sh) 5 then (do d4 <- ent sh 4; Ok (d3 * d4)) else Ok d3
    else if str_eqb base N_vector then ent sh 4
    else Ok 1
  else Ok 1.

(** ** check_valid *)

(** [name in container]: key test for a dict, element test for a list, substring test for a str. *)
Definition py_contains (container : jv) (name : str) : res bool :=
  match container with
  | JObj o => Ok (has_key name o)
  | JArr l => Ok (existsb (fun e => jv_eqb e (JStr name)) l)
  | JStr s => Ok (containsb name s)
  | _ => Err EType
  end.

(** The slice-dimension test of lines 294-297. *)
Definition check_slice_dim (sd : jv) : res unit :=
  match sd with
  | JNull => Ok tt
  | _ => match as_int sd with
         | Some z => if (0 <=? z) && (z <? 3) then Ok tt else Err EInvalidExt
         | None => Err EType
         end
  end.

(** [for key, vals in iteritems(cls_meta): if len(vals) != cls_mult: raise]. *)
Fixpoint check_vals (vals : list jv) (m : Z) : res unit :=
  match vals with
  | [] => Ok tt
  | v :: r => do n <- py_len v;
              if Z.of_nat n =? m then check_vals r m else Err EInvalidExt
  end.

(** Body of the first loop (lines 304-325) for one classification. *)
Definition check_class (c : jv) (cl : cname) : res unit :=
  let base := fst cl in
  let sub := snd cl in
  do hb <- py_contains c base;
  if negb hb then Err EInvalidExt else
  do b <- getitem c base;
  do hs <- py_contains b sub;
  if negb hs then Err EInvalidExt else
  do cm <- getitem b sub;
  do m <- get_multiplicity c cl;
  if m =? 0 then
    (do n <- py_len cm; if Nat.eqb n 0 then Ok tt else Err EInvalidExt)
  else if 1 <? m then
    match cm with
    | JObj d => check_vals (map snd d) m
    | _ => Err EAttr
    end
  else Ok tt.

Fixpoint forM_ {A} (f : A -> res unit) (l : list A) : res unit :=
  match l with
  | [] => Ok tt
  | x :: r => do _ <- f x; forM_ f r
  end.

(** [set(self.get_class_dict(classes))] (a non-dict entry is outside the exact domain). *)
Definition class_keys (c : jv) (cl : cname) : res (list str) :=
  do b <- getitem c (fst cl);
  do d <- getitem b (snd cl);
  match d with
  | JObj o => Ok (map fst o)
  | _ => Err EType
  end.

Definition intersects (a b : list str) : bool :=
  existsb (fun k => existsb (str_eqb k) b) a.

(** Second loop (lines 328-337). *)
Fixpoint uniq_inner (c : jv) (cl : cname) (others : list cname) : res unit :=
  match others with
  | [] => Ok tt
  | o :: r =>
      if cname_eqb cl o then uniq_inner c cl r
      else do k1 <- class_keys c cl;
           do k2 <- class_keys c o;
           if intersects k1 k2 then Err EInvalidExt else uniq_inner c cl r
  end.

Definition check_unique (c : jv) (vc : list cname) : res unit :=
  forM_ (fun cl => uniq_inner c cl vc) vc.

Definition check_valid (c : jv) : res unit :=
  do ver <- getitem c K_version;
  do req <- req_keys ver;
  if negb (subsetb req (content_keys c)) then Err EInvalidExt else
  do a <- getitem c K_affine;
  do ash <- np_shape a;
  if negb (nats_eqb ash [4%nat; 4%nat]) then Err EInvalidExt else
  do sd <- getitem c K_slice_dim;
  do _ <- check_slice_dim sd;
  do sh <- shape_of c;
  if negb ((3 <=? length sh)%nat && (length sh <? 6)%nat) then Err EInvalidExt else
  do vc <- get_valid_classes c;
  do _ <- forM_ (check_class c) vc;
  check_unique c vc.

(** ** The two gates *)

Section FromJson.
  (** [json.loads] with the OrderedDict hook (external code). *)
  Variable parse : str -> res jv.
  Definition from_json (s : str) : res jv :=
    do c <- parse s; do _ <- check_valid c; Ok c.
End FromJson.

Definition from_runtime_repr (c : jv) : res jv :=
  do _ <- check_valid c; Ok c.

(** NiftiWrapper.__init__: [exts] = the header extensions as (ecode, content); the result is the
    position of the adopted extension ([None] = a fresh empty one was made) and its content.
    [empty] is what DcmMetaExtension.make_empty returns for this image (external to this model). *)
Fixpoint screen (exts : list (Z * jv)) (idx : nat) (found : option (nat * jv)) : res (option (nat * jv)) :=
  match exts with
  | [] => Ok found
  | (code, c) :: r =>
      if code =? dcm_meta_ecode then
        match check_valid c with
        | Err EInvalidExt => screen r (S idx) found
        | Err e => Err e
        | Ok _ => match found with
                  | Some _ => Err EValue
                  | None => screen r (S idx) (Some (idx, c))
                  end
        end
      else screen r (S idx) found
  end.

Definition wrapper_init (exts : list (Z * jv)) (make_empty : bool) (empty : jv) : res (option nat * jv) :=
  do f <- screen exts 0%nat None;
  do chosen <- match f with
               | Some (i, c) => Ok (Some i, c)
               | None => if make_empty then Ok (None, empty) else Err EMissingExt
               end;
  do _ <- check_valid (snd chosen);
  Ok chosen.
