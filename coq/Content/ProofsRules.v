(** C10 proofs, part 7: the literal rules (Content/Rules.v) against what the code checks
    (Content/Spec.v): everything the rules admit is accepted, and what is accepted beyond the
    rules is exactly the list of blind spots [gap]. *)
From Coq Require Import List Bool ZArith NArith QArith Lia.
From DV Require Import Common.Res Common.Str Common.Jv Generated.T_content
  Content.PyVal Content.Model Content.Spec Content.Rules Content.ProofsBasic Content.ProofsClasses
  Content.ProofsLoops Content.ProofsMain.
Import ListNotations.
Open Scope Z_scope.

Lemma valid_rules_clauses (o : obj) :
  valid_rules (JObj o) = true <->
  rule_required o = true /\ lit_affine o = true /\ rule_slice_dim o = true /\ lit_shape o = true /\
  rule_class_dicts o = true /\ lit_counts o = true /\ rule_no_slice_data o = true /\
  lit_unique o = true.
Proof. unfold valid_rules. rewrite !andb_true_iff. tauto. Qed.

(** ** Clause by clause: literal implies checked *)

Lemma lit_shape_ndim o : lit_shape o = true -> rule_ndim o = true.
Proof.
  unfold lit_shape, rule_ndim. destruct (shape_value o) as [l|]; [|discriminate].
  rewrite !andb_true_iff. tauto.
Qed.

Lemma is_list_of_count m kv : is_list_of m (snd kv) = true -> value_count_ok m kv = true.
Proof.
  unfold is_list_of, value_count_ok, n_values. destruct (snd kv); try discriminate. simpl. auto.
Qed.

Lemma forallb_impl {A} (f g : A -> bool) l :
  (forall x, f x = true -> g x = true) -> forallb f l = true -> forallb g l = true.
Proof. intros H. rewrite !forallb_forall. intros Hf x Hx. apply H, Hf, Hx. Qed.

Lemma lit_counts_counts o : lit_counts o = true -> rule_counts o = true.
Proof.
  unfold lit_counts, rule_counts.
  destruct (shape_value o) as [l|]; [|reflexivity]. destruct (slice_dim_value o) as [sd|]; [|reflexivity].
  rewrite !forallb_forall. intros H cl Hin. specialize (H cl Hin).
  destruct (decode cl) as [[b s]|]; [|reflexivity]. destruct (class_dict o cl) as [d|]; [|reflexivity].
  cbv zeta. destruct (1 <? n_expected l sd b s) eqn:E; [|reflexivity].
  destruct s.
  - simpl in E. discriminate.
  - cbv zeta in H. apply Z.ltb_lt in E.
    assert (E1 : (1 <=? n_expected l sd b Slices) = true) by (apply Z.leb_le; lia).
    rewrite E1 in H. revert H. apply forallb_impl. intros kv. apply is_list_of_count.
  - cbv zeta in H. apply Z.ltb_lt in E.
    assert (E1 : (1 <=? n_expected l sd b Samples) = true) by (apply Z.leb_le; lia).
    rewrite E1 in H. revert H. apply forallb_impl. intros kv. apply is_list_of_count.
Qed.

Lemma filter_filter_length {A} (f g : A -> bool) l :
  (length (filter f (filter g l)) <= length (filter f l))%nat.
Proof.
  induction l as [|x l IH]; simpl; [lia|].
  destruct (g x); simpl; destruct (f x); simpl; lia.
Qed.

Lemma lit_unique_unique o : lit_unique o = true -> rule_unique o = true.
Proof.
  unfold lit_unique, rule_unique. destruct (shape_value o) as [l|]; [|reflexivity].
  rewrite !forallb_forall. intros H k Hk.
  assert (Hk' : In k (flat_map (class_keys_spec o) classifications)).
  { apply in_flat_map in Hk. destruct Hk as [cl [Hcl Hin]]. apply in_flat_map. exists cl.
    split; [apply (valid_classes_incl _ _ Hcl) | exact Hin]. }
  specialize (H k Hk'). apply Nat.leb_le in H. apply Nat.leb_le.
  unfold holders in *. unfold valid_classes_spec.
  eapply Nat.le_trans; [apply filter_filter_length | exact H].
Qed.

Theorem rules_accept_spec c : valid_rules c = true -> valid_spec c = true.
Proof.
  destruct c as [| | | | | | o]; try discriminate.
  rewrite valid_rules_clauses, valid_spec_rules.
  intros (R1 & R2 & R3 & R4 & R5 & R6 & R7 & R8).
  unfold lit_affine in R2. apply andb_true_iff in R2.
  repeat split; try assumption; try tauto.
  - apply lit_shape_ndim; assumption.
  - apply lit_counts_counts; assumption.
  - apply lit_unique_unique; assumption.
Qed.

(** Everything the rules admit lies in the domain of the equivalence theorem. *)
Theorem rules_wf c : valid_rules c = true -> wf_domain c = true.
Proof.
  destruct c as [| | | | | | o]; try discriminate.
  rewrite valid_rules_clauses. intros (_ & _ & _ & R4 & R5 & _).
  unfold wf_domain. unfold lit_shape, rule_class_dicts, shape_value in *.
  destruct (jassoc K_shape o) as [[| | | | | l |]|]; try discriminate.
  rewrite !andb_true_iff in R4. destruct R4 as [_ Hp].
  apply andb_true_iff. split.
  - revert Hp. apply forallb_impl. intros v. unfold pos_entry, shape_entry_ok.
    destruct v; try discriminate. intros H. apply Z.leb_le in H. apply negb_true_iff. apply Z.eqb_neq. lia.
  - revert R5. apply forallb_impl. intros cl. unfold class_dict, class_entry_ok.
    destruct (jassoc (fst cl) o) as [[| | | | | | bo]|]; try discriminate.
    destruct (jassoc (snd cl) bo) as [[| | | | | | d]|]; try discriminate. reflexivity.
Qed.

(** The property's rules are sufficient: such a content is accepted. *)
Theorem rules_accepted c : valid_rules c = true -> check_valid c = Ok tt.
Proof.
  intros H. apply (check_valid_iff_spec c (rules_wf c H)). apply rules_accept_spec. exact H.
Qed.

(** ** What is accepted beyond the rules is a blind spot *)

Lemma negb_existsb {A} (f : A -> bool) l :
  existsb f l = false -> forallb (fun x => negb (f x)) l = true.
Proof.
  induction l as [|x l IH]; simpl; [reflexivity|].
  intros H. apply orb_false_iff in H. destruct H as [H1 H2]. rewrite H1, (IH H2). reflexivity.
Qed.

Lemma counts_no_gap o :
  rule_counts o = true -> gap_degenerate o = false -> gap_sized o = false -> lit_counts o = true.
Proof.
  unfold rule_counts, gap_degenerate, gap_sized, lit_counts.
  destruct (shape_value o) as [l|]; [|reflexivity]. destruct (slice_dim_value o) as [sd|]; [|reflexivity].
  intros Hc Hd Hs. apply negb_existsb in Hd, Hs.
  rewrite forallb_forall in *. intros cl Hin.
  specialize (Hc cl Hin). specialize (Hd cl Hin). specialize (Hs cl Hin).
  destruct (decode cl) as [[b s]|]; [|reflexivity]. destruct (class_dict o cl) as [d|]; [|reflexivity].
  cbv zeta in Hc.
  assert (Hgen : forall s', s = s' -> s' <> Const ->
            negb ((n_expected l sd b s' =? 1) && existsb (fun kv => negb (is_list_of 1 (snd kv))) d) = true ->
            negb ((1 <? n_expected l sd b s') && existsb (fun kv => negb (is_list (snd kv))) d) = true ->
            (if 1 <=? n_expected l sd b s' then forallb (fun kv => is_list_of (n_expected l sd b s') (snd kv)) d else true) = true).
  { intros s' -> _ H1 Hm. set (m := n_expected l sd b s') in *.
    destruct (1 <=? m) eqn:E; [|reflexivity]. apply Z.leb_le in E.
    destruct (m =? 1) eqn:E1.
    - apply Z.eqb_eq in E1. rewrite E1 in *. simpl in H1. apply negb_true_iff in H1.
      apply negb_existsb in H1. revert H1. apply forallb_impl. intros kv H. apply negb_true_iff in H.
      apply negb_false_iff in H. exact H.
    - apply Z.eqb_neq in E1. assert (E2 : (1 <? m) = true) by (apply Z.ltb_lt; lia).
      rewrite E2 in Hm, Hc. simpl in Hm. apply negb_true_iff in Hm. apply negb_existsb in Hm.
      rewrite forallb_forall in *. intros kv Hkv. specialize (Hm kv Hkv). specialize (Hc kv Hkv).
      apply negb_true_iff in Hm. apply negb_false_iff in Hm.
      unfold is_list in Hm. unfold value_count_ok, n_values in Hc. unfold is_list_of.
      destruct (snd kv); try discriminate. simpl in Hc. exact Hc. }
  destruct s; [reflexivity | |]; cbv zeta; apply Hgen; auto; discriminate.
Qed.

Theorem spec_gap c : valid_spec c = true -> gap c = false -> valid_rules c = true.
Proof.
  destruct c as [| | | | | | o]; try discriminate.
  rewrite valid_spec_rules, valid_rules_clauses. unfold gap.
  intros (R1 & R2 & R3 & R4 & R5 & R6 & R7 & R8) Hg.
  rewrite !orb_false_iff in Hg. destruct Hg as [[[[G1 G2] G3] G4] G5].
  repeat split; try assumption.
  - unfold lit_affine. unfold gap_affine in G2. rewrite R2 in *. simpl in *.
    apply negb_false_iff in G2. exact G2.
  - unfold lit_shape, gap_nonpositive, rule_ndim in *.
    destruct (shape_value o) as [l|]; [|discriminate]. apply negb_false_iff in G1. rewrite R4, G1. reflexivity.
  - apply counts_no_gap; assumption.
  - unfold gap_stale in G5. apply negb_false_iff in G5. exact G5.
Qed.

(** The exact characterisation: accepted by the code's rules but not by the property's rules = a
    blind spot. *)
Theorem gap_exact c : valid_spec c = true -> valid_rules c = false -> gap c = true.
Proof.
  intros Hs Hr. destruct (gap c) eqn:E; [reflexivity|].
  rewrite (spec_gap c Hs E) in Hr. discriminate.
Qed.

Theorem check_valid_iff_rules c :
  wf_domain c = true -> gap c = false -> (check_valid c = Ok tt <-> valid_rules c = true).
Proof.
  intros Hwf Hg. split.
  - intros H. apply spec_gap; [|exact Hg]. apply (check_valid_iff_spec c Hwf). exact H.
  - apply rules_accepted.
Qed.
