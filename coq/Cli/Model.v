(** Model of the two command-line tools (property C19).

    dcmstack_cli.main  (src/dcmstack/dcmstack_cli.py:53-360)  and  nitool_cli.*  (nitool_cli.py:112-255).

    * Module-level defaults are an EXPLICIT [globals] value that every invocation receives and returns.
      Python's list aliasing is modelled where the code touches the module lists: the locals
      [include_regexes] / [exclude_regexes] are either a copy of the module list or the module list
      itself, and are then extended in place ([init_extend]); which of the two the source does is read
      from the AST by the translator ([T_cli.incl_copied], [T_cli.excl_copied]).
    * The library (parse_and_group, stack_group, DicomStack.to_nifti, NiftiWrapper.split, ...) is NOT
      modelled here: the tool's behaviour is the list of API calls it makes, with their arguments
      ([group_call], [stack_call], [nifti_call]), and the names of the files it writes.  What the
      environment answers (glob, order files, the groups found, whether a conversion raises) is the
      [inputs] record.
    * The output naming loop (dcmstack_cli.py:254-330) is modelled exactly: [name_loop] for one set of
      names, [group_loop] / [dir_loop] for how the set is kept per source directory or, with
      --dest-dir, shared by all source directories.
    * argparse itself is not modelled: [args] is the parsed namespace. *)
From Coq Require Import List Bool Arith ZArith NArith Lia.
From DV Require Import Common.Res Common.Str Common.F64 Common.PyNum Filter.Model.
From DV Require Import Generated.T_cli Generated.T_filter Generated.T_group Generated.T_extract.
Import ListNotations.
Local Open Scope nat_scope.

(** ------------------------------------------------------------------ small string library *)

Definition nonempty (s : str) : bool := match s with [] => false | _ => true end.
(** truthiness of an optional string option ([if args.x:]): None and '' are false *)
Definition truthy (o : option str) : option str :=
  match o with Some (c :: r) => Some (c :: r) | _ => None end.

Definition mem_str (s : str) (l : list str) : bool := existsb (str_eqb s) l.

(** Python [s.split(c)] for a one-character separator: never empty *)
Fixpoint split_on (sep : N) (s : str) : list str :=
  match s with
  | [] => [[]]
  | c :: r =>
      if N.eqb c sep then [] :: split_on sep r
      else match split_on sep r with
           | [] => [[c]]            (* unreachable *)
           | h :: t => (c :: h) :: t
           end
  end.

(** Python [sep.join(l)] *)
Fixpoint join_with (sep : str) (l : list str) : str :=
  match l with
  | [] => []
  | [x] => x
  | x :: r => x ++ sep ++ join_with sep r
  end.

Definition slash : N := 47%N.
Definition ends_with_slash (s : str) : bool :=
  match rev s with c :: _ => N.eqb c slash | [] => false end.
Definition starts_with_slash (s : str) : bool :=
  match s with c :: _ => N.eqb c slash | [] => false end.

(** posixpath.join(a, b) *)
Definition path_join (a b : str) : str :=
  if starts_with_slash b then b
  else if negb (nonempty a) || ends_with_slash a then a ++ b
  else a ++ slash :: b.

Fixpoint drop_while (f : N -> bool) (s : str) : str :=
  match s with c :: r => if f c then drop_while f r else s | [] => [] end.
Fixpoint take_while (f : N -> bool) (s : str) : str :=
  match s with c :: r => if f c then c :: take_while f r else [] | [] => [] end.

(** posixpath.split(p) = (dirname, basename) *)
Definition path_split (p : str) : str * str :=
  let r := rev p in
  let tail := rev (take_while (fun c => negb (N.eqb c slash)) r) in
  let head := rev (drop_while (fun c => negb (N.eqb c slash)) r) in
  let head' := if forallb (N.eqb slash) head then head
               else rev (drop_while (N.eqb slash) (rev head)) in
  (head', tail).

(** '%[0]<w>d' % n *)
Definition pad_left (zero : bool) (w : nat) (s : str) : str :=
  repeat (if zero then 48%N else 32%N) (w - length s) ++ s.
Definition fmt_nat (zero : bool) (w : nat) (n : nat) : str := pad_left zero w (dec_of_N (N.of_nat n)).
Definition fmt_Z (zero : bool) (w : nat) (z : Z) : str :=
  match z with
  | Zneg p => if zero then 45%N :: pad_left true (w - 1) (dec_of_N (Npos p))
              else pad_left false w (45%N :: dec_of_N (Npos p))
  | _ => pad_left zero w (dec_of_N (Z.to_N z))
  end.

(** ------------------------------------------------------------------ module-level state *)

Definition translator := (str * (N * N))%type.      (* name, tag *)

Inductive extractor :=
| XMinimal                                                  (* extract.minimal_extractor *)
| XMeta (ignore_rules : list str) (translators : list translator).   (* extract.MetaExtractor(ignore_rules, translators) *)

Record globals := {
  g_excl : list str;            (* dcmstack.default_key_excl_res   (a list: mutable) *)
  g_incl : list str;            (* dcmstack.default_key_incl_res   (a list: mutable) *)
  g_group_keys : list str;      (* dcmstack.default_group_keys     (a tuple) *)
  g_ignore_rules : list str;    (* extract.default_ignore_rules    (a tuple of functions, by name) *)
  g_translators : list translator;   (* extract.default_translators (a tuple) *)
  g_default_extractor : extractor;   (* extract.default_extractor: a shared MetaExtractor OBJECT whose attributes
                                        .ignore_rules / .translators can be assigned; used by every API call
                                        that is not given an extractor *)
  g_version : str }.            (* info.__version__ *)

(** the state right after import, regenerated from the sources *)
Definition initial_globals (version : str) : globals :=
  {| g_excl := default_key_excl_res; g_incl := default_key_incl_res;
     g_group_keys := default_group_keys;
     g_ignore_rules := default_ignore_rule_names;
     g_translators := map (fun t => (fst (fst (fst t)), snd (fst (fst t)))) default_translator_table;
     g_default_extractor := XMeta default_ignore_rule_names
                                  (map (fun t => (fst (fst (fst t)), snd (fst (fst t)))) default_translator_table);
     g_version := version |}.

Definition set_lists (g : globals) (excl incl : list str) : globals :=
  {| g_excl := excl; g_incl := incl; g_group_keys := g_group_keys g;
     g_ignore_rules := g_ignore_rules g; g_translators := g_translators g;
     g_default_extractor := g_default_extractor g; g_version := g_version g |}.

Definition set_default_extractor (g : globals) (x : extractor) : globals :=
  {| g_excl := g_excl g; g_incl := g_incl g; g_group_keys := g_group_keys g;
     g_ignore_rules := g_ignore_rules g; g_translators := g_translators g;
     g_default_extractor := x; g_version := g_version g |}.

(** [x = list(G)] (copied) or [x = G] (alias), then [x += extra]:
    returns (value of x, value of the module list G afterwards) *)
Definition init_extend (copied : bool) (glob extra : list str) : list str * list str :=
  let x := glob ++ extra in
  if copied then (x, glob) else (x, x).

(** ------------------------------------------------------------------ parsed options *)

Record args := {
  a_src_dirs : list str;
  a_force_read : bool;
  a_file_ext : str;
  a_dest_dir : option str;
  a_output_name : option str;
  a_output_ext : str;
  a_dump_meta : bool;
  a_embed_meta : bool;
  a_group_by : option str;
  a_voxel_order : str;
  a_time_var : option str;
  a_vector_var : option str;
  a_time_order : option str;
  a_vector_order : option str;
  a_list_translators : bool;
  a_disable_translator : option str;
  a_extract_private : bool;
  a_include_regex : list str;       (* argparse 'append': None is [] *)
  a_exclude_regex : list str;
  a_default_regexes : bool;
  a_verbose : bool;
  a_strict : bool;
  a_version : bool }.

(** what argparse yields for an empty command line plus the positional arguments *)
Definition default_args (src_dirs : list str) : args :=
  {| a_src_dirs := src_dirs; a_force_read := false; a_file_ext := dflt_file_ext; a_dest_dir := None;
     a_output_name := None; a_output_ext := dflt_output_ext; a_dump_meta := false; a_embed_meta := false;
     a_group_by := None; a_voxel_order := dflt_voxel_order; a_time_var := None; a_vector_var := None;
     a_time_order := None; a_vector_order := None; a_list_translators := false;
     a_disable_translator := None; a_extract_private := false; a_include_regex := [];
     a_exclude_regex := []; a_default_regexes := false; a_verbose := false; a_strict := false;
     a_version := false |}.

(** ------------------------------------------------------------------ the API calls *)

Record ordering := { o_key : str; o_abs : option (list str); o_abs_as_str : bool }.   (* DicomOrdering(key, abs, as_str) *)

Record group_call := {          (* parse_and_group(src_paths, group_by, extractor, force, warn_on_except) *)
  gc_paths : list str; gc_group_by : list str; gc_extractor : extractor; gc_force : bool; gc_warn : bool }.

Record stack_call := {          (* stack_group(group, warn_on_except=, time_order=, vector_order=, meta_filter=) *)
  sc_dir : str; sc_group : nat; sc_warn : bool;
  sc_time_order : option ordering; sc_vector_order : option ordering;
  sc_excl : list str; sc_incl : list str }.    (* meta_filter = make_key_regex_filter(sc_excl, sc_incl) *)

Record nifti_call := { nc_voxel_order : str; nc_embed : bool }.    (* stack.to_nifti(voxel_order, embed_meta) *)

(** the filter a stack is built with *)
Definition filter_of (matches : str -> str -> bool) (sc : stack_call) : str -> bool :=
  key_regex_filter matches (sc_excl sc) (Some (sc_incl sc)).

(** ------------------------------------------------------------------ environment *)

Inductive mval := MInt (z : Z) | MStr (s : str).

Record group_info := {
  gi_meta : str -> option mval;      (* meta of the first file of the group: the keys the default name format reads *)
  gi_custom : str -> res str }.      (* [fmt % meta] for a user supplied --output-name *)

Record inputs := {
  i_glob : str -> list str;
  i_lines : str -> res (list str);                    (* open(path).readlines() *)
  i_groups : group_call -> res (list group_info);     (* parse_and_group: the groups in dict order *)
  i_stack : stack_call -> res unit;                   (* stack_group raising (only with --strict) *)
  i_nifti : stack_call -> nifti_call -> res unit }.   (* to_nifti raising (InvalidStackError ...) *)

(** ------------------------------------------------------------------ outputs *)

Record file_out := {
  fo_stack : stack_call; fo_nifti : nifti_call;
  fo_name : str;                   (* file name inside the destination directory *)
  fo_path : str;
  fo_json_path : option str;       (* --dump-meta: the JSON of the extension of the to_nifti result goes here *)
  fo_strip_ext : bool }.           (* the extension is removed before the NIfTI is written *)

Record dir_out := { do_glob : str; do_group_call : group_call; do_files : list file_out }.

Inductive outputs :=
| OVersion (v : str)
| OTranslators (ts : list translator)
| ORegexes (excl incl : list str)
| OUsage                                               (* arg_parser.error: SystemExit(2) *)
| ORun (dirs : list dir_out) (raised : option err).    (* None: return 0 *)

(** ------------------------------------------------------------------ extractor construction *)

Definition parse_tag (s : str) : option (N * N) :=
  match split_on 95%N s with
  | [a; b] =>
      match py_int16 a, py_int16 b with
      | Ok x, Ok y =>
          if ((0 <=? x) && (x <=? 65535) && (0 <=? y) && (y <=? 65535))%Z
          then Some (Z.to_N x, Z.to_N y) else None
      | _, _ => None
      end
  | _ => None
  end.

Fixpoint parse_tags_list (l : list str) : option (list (N * N)) :=
  match l with
  | [] => Some []
  | s :: r => match parse_tag s, parse_tags_list r with
              | Some t, Some ts => Some (t :: ts)
              | _, _ => None
              end
  end.
Definition parse_tags (s : str) : option (list (N * N)) := parse_tags_list (split_on 44%N s).

Definition tag_eqb (a b : N * N) : bool := N.eqb (fst a) (fst b) && N.eqb (snd a) (snd b).

Definition str_all : str := [97; 108; 108]%N.

(** None = arg_parser.error *)
Definition build_extractor (g : globals) (a : args) : option extractor :=
  if a_embed_meta a || a_dump_meta a then
    let trans :=
      match truthy (a_disable_translator a) with
      | None => Some (g_translators g)
      | Some s =>
          if str_eqb (lower_str s) str_all then Some []
          else match parse_tags s with
               | None => None
               | Some tags => Some (filter (fun t => negb (existsb (tag_eqb (snd t)) tags)) (g_translators g))
               end
      end in
    match trans with
    | None => None
    | Some ts => Some (XMeta (if a_extract_private a then private_ignore_rule_names else g_ignore_rules g) ts)
    end
  else Some XMinimal.

(** time / vector ordering *)
Definition build_order (i : inputs) (var file : option str) : res (option ordering) :=
  match truthy var with
  | None => Ok None
  | Some v =>
      match truthy file with
      | None => Ok (Some {| o_key := v; o_abs := None; o_abs_as_str := false |})
      | Some f =>
          match i_lines i f with
          | Err e => Err e
          | Ok ls => Ok (Some {| o_key := v; o_abs := Some (map py_strip ls); o_abs_as_str := true |})
          end
      end
  end.

(** ------------------------------------------------------------------ output names *)

Definition is_ascii_letter (c : N) : bool :=
  ((65 <=? c) && (c <=? 90) || (97 <=? c) && (c <=? 122))%N.
Definition keep_char (c : N) : bool := is_ascii_letter c || is_digit c || existsb (N.eqb c) sanitize_extra.
Definition sanitize_path_comp (s : str) : str := map (fun c => if keep_char c then c else sanitize_repl) s.

(** the default format string applied to the meta data of the group's first file *)
Definition default_name (gi : group_info) : res str :=
  match (match gi_meta gi name_num_key with
         | None => Ok []
         | Some (MInt z) => Ok [fmt_Z name_num_zero name_num_width z]
         | Some (MStr _) => Err EType              (* '%03d' % 'text' *)
         end) with
  | Err e => Err e
  | Ok num =>
      let txt (v : mval) := match v with MStr s => s | MInt z => dec_of_Z z end in
      let nm := match gi_meta gi name_key1 with
                | Some v => txt v
                | None => match gi_meta gi name_key2 with
                          | Some v => txt v
                          | None => name_fallback
                          end
                end in
      Ok (join_with name_sep (num ++ [nm]))
  end.

Definition natural_name (a : args) (gi : group_info) : res str :=
  match a_output_name a with
  | None => default_name gi
  | Some f => gi_custom gi f
  end.

Definition suffix (idx : nat) : str := sfx_prefix ++ fmt_nat sfx_zero sfx_width idx ++ sfx_tail.

(** [while out_fn in generated_outs: sfx_idx += 1; ...]; the fuel is the number of further candidates
    that may be tried (never exhausted: see Proofs.find_suffix_ok) *)
Fixpoint find_suffix (fuel : nat) (gen : list str) (base : str) (idx : nat) : res str :=
  let cand := base ++ suffix idx in
  if mem_str cand gen then
    match fuel with
    | O => Err ECrash
    | S f => find_suffix f gen base (S idx)
    end
  else Ok cand.

(** one pass of lines 312-321: the unique name for the sanitized natural name [fn] *)
Definition unique_name (gen : list str) (out_idx : nat) (fn : str) : res str :=
  if mem_str fn gen then
    if sfx_retry then find_suffix (length gen) gen fn out_idx
    else Ok (fn ++ suffix out_idx)
  else Ok fn.

(** the names produced for a list of natural names (before the extension is appended) *)
Fixpoint name_loop (gen : list str) (out_idx : nat) (names : list str) : res (list str) :=
  match names with
  | [] => Ok []
  | n :: r =>
      match unique_name gen out_idx (sanitize_path_comp n) with
      | Err e => Err e
      | Ok out => match name_loop (out :: gen) (S out_idx) r with
                  | Err e => Err e
                  | Ok outs => Ok (out :: outs)
                  end
      end
  end.
Definition output_names (names : list str) : res (list str) := name_loop [] 0 names.

(** lines 334-341: the path of the JSON dump *)
Definition str_gz : str := [103; 122]%N.
Definition str_nii : str := [110; 105; 105]%N.
Definition str_json : str := [106; 115; 111; 110]%N.
Definition last_is (l : list str) (s : str) : res bool :=
  match rev l with [] => Err EIndex | x :: _ => Ok (str_eqb x s) end.
Definition meta_path (out_path : str) : res str :=
  let t0 := split_on 46%N out_path in
  match last_is t0 str_gz with
  | Err e => Err e
  | Ok b1 =>
      let t1 := if b1 then removelast t0 else t0 in
      match last_is t1 str_nii with
      | Err e => Err e
      | Ok b2 =>
          let t2 := if b2 then removelast t1 else t1 in
          Ok (join_with [46%N] (t2 ++ [str_json]))
      end
  end.

(** ------------------------------------------------------------------ the per-directory loop *)

Section Run.
  Variable a : args.
  Variable i : inputs.
  Variable excl incl : list str.
  Variable time_order vector_order : option ordering.

  Definition gen_meta : bool := a_embed_meta a || a_dump_meta a.

  (** the loop over the groups of one directory: files written so far, the exception if any, and the
      set of generated names afterwards *)
  Fixpoint group_loop (src_dir : str) (gen : list str) (out_idx gidx : nat) (groups : list group_info)
    : list file_out * option err * list str :=
    match groups with
    | [] => ([], None, gen)
    | gi :: rest =>
        let sc := {| sc_dir := src_dir; sc_group := gidx; sc_warn := negb (a_strict a);
                     sc_time_order := time_order; sc_vector_order := vector_order;
                     sc_excl := excl; sc_incl := incl |} in
        let nc := {| nc_voxel_order := a_voxel_order a; nc_embed := gen_meta |} in
        match i_stack i sc with
        | Err e => ([], Some e, gen)
        | Ok _ =>
        match natural_name a gi with
        | Err e => ([], Some e, gen)
        | Ok nat_name =>
        match unique_name gen out_idx (sanitize_path_comp nat_name) with
        | Err e => ([], Some e, gen)
        | Ok out =>
            let fname := out ++ a_output_ext a in
            let path := path_join (match truthy (a_dest_dir a) with Some d => d | None => src_dir end) fname in
            match i_nifti i sc nc with
            | Err e => ([], Some e, out :: gen)
            | Ok _ =>
            match (if a_dump_meta a then match meta_path path with Ok p => Ok (Some p) | Err e => Err e end
                   else Ok None) with
            | Err e => ([], Some e, out :: gen)
            | Ok jp =>
                let fo := {| fo_stack := sc; fo_nifti := nc; fo_name := fname; fo_path := path;
                             fo_json_path := jp;
                             fo_strip_ext := a_dump_meta a && negb (a_embed_meta a) |} in
                let '(fs, e, gen') := group_loop src_dir (out :: gen) (S out_idx) (S gidx) rest in
                (fo :: fs, e, gen')
            end
            end
        end
        end
        end
    end.

  Definition glob_pattern (src_dir : str) : str :=
    path_join src_dir [42%N] ++ (if nonempty (a_file_ext a) then a_file_ext a else []).

  (** does this invocation keep ONE set of generated names for all source directories?
      (with --dest-dir, since the fix for the shared-destination collisions) *)
  Definition shares_names : bool :=
    names_shared_dest && match truthy (a_dest_dir a) with Some _ => true | None => false end.

  (** [shared] is dest_dir_outs: the names generated so far by earlier source directories *)
  Fixpoint dir_loop (group_by : list str) (x : extractor) (shared : list str) (dirs : list str)
    : list dir_out * option err :=
    match dirs with
    | [] => ([], None)
    | d :: rest =>
        let pat := glob_pattern d in
        let gc := {| gc_paths := i_glob i pat; gc_group_by := group_by; gc_extractor := x;
                     gc_force := a_force_read a; gc_warn := negb (a_strict a) |} in
        match i_groups i gc with
        | Err e => ([], Some e)
        | Ok groups =>
            let '(files, e, gen') := group_loop d (if shares_names then shared else []) 0 0 groups in
            let this := {| do_glob := pat; do_group_call := gc; do_files := files |} in
            match e with
            | Some _ => ([this], e)
            | None => let '(ds, e') := dir_loop group_by x (if shares_names then gen' else shared) rest in
                      (this :: ds, e')
            end
        end
    end.
End Run.

(** the extractor handed to parse_and_group is either a NEW MetaExtractor(ignore_rules, translators)
    ([T_cli.extractor_fresh], what the source does) or the shared extract.default_extractor object
    re-configured in place -- in which case the module state changes *)
Definition after_extractor (g : globals) (x : extractor) : globals :=
  if extractor_fresh then g
  else match x with XMeta _ _ => set_default_extractor g x | XMinimal => g end.

(** ------------------------------------------------------------------ dcmstack main *)

Definition dcmstack_main (g : globals) (a : args) (i : inputs) : globals * outputs :=
  if a_version a then (g, OVersion (g_version g))
  else if a_list_translators a then (g, OTranslators (g_translators g))
  else if a_default_regexes a then (g, ORegexes (g_excl g) (g_incl g))
  else
    match build_extractor g a with
    | None => (g, OUsage)
    | Some x =>
        let g0 := after_extractor g x in
        let '(incl, gi') := init_extend incl_copied (g_incl g0) (a_include_regex a) in
        let '(excl, ge') := init_extend excl_copied (g_excl g0) (a_exclude_regex a) in
        let g' := set_lists g0 ge' gi' in
        match build_order i (a_time_var a) (a_time_order a) with
        | Err e => (g', ORun [] (Some e))
        | Ok t_ord =>
        match build_order i (a_vector_var a) (a_vector_order a) with
        | Err e => (g', ORun [] (Some e))
        | Ok v_ord =>
            match a_src_dirs a with
            | [] => (g', OUsage)
            | _ =>
                let group_by := match a_group_by a with
                                | Some s => split_on 44%N s
                                | None => g_group_keys g'
                                end in
                let '(ds, e) := dir_loop a i excl incl t_ord v_ord group_by x [] (a_src_dirs a) in
                (g', ORun ds e)
            end
        end
        end
    end.

(** ================================================================== nitool *)

(** values injected by [nitool inject]: convert_values (nitool_cli.py:212-228) *)
Inductive ival := IVInt (z : Z) | IVFloat (f : fval) | IVStr (s : str).
Inductive stored := SScalar (v : ival) | SList (l : list ival).

Definition str_int : str := [105; 110; 116]%N.
Definition str_float : str := [102; 108; 111; 97; 116]%N.
Definition str_str : str := [115; 116; 114]%N.

Definition conv_int (s : str) : res ival := match py_int s with Ok z => Ok (IVInt z) | Err e => Err e end.
Definition conv_float (s : str) : res ival := match py_float s with Ok f => Ok (IVFloat f) | Err e => Err e end.

Definition convert_values (values : list str) (type_str : option str) : res stored :=
  let finish (l : list ival) := match l with [v] => SScalar v | _ => SList l end in
  match type_str with
  | None =>
      match mapM conv_int values with
      | Ok l => Ok (finish l)
      | Err _ => match mapM conv_float values with
                 | Ok l => Ok (finish l)
                 | Err _ => Ok (finish (map IVStr values))
                 end
      end
  | Some t =>
      if str_eqb t str_str then Ok (finish (map IVStr values))
      else if str_eqb t str_int then rmap finish (mapM conv_int values)
      else if str_eqb t str_float then rmap finish (mapM conv_float values)
      else Err EValue
  end.

(** the part of a DcmMetaExtension that inject consults: valid classifications, multiplicity, and the
    class dictionaries (insertion ordered association lists).  Classifications are the two strings
    given on the command line. *)
Definition clsn := (str * str)%type.
Definition clsn_eqb (x y : clsn) : bool := str_eqb (fst x) (fst y) && str_eqb (snd x) (snd y).

Section Inject.
  Variable V : Type.
  Variable of_stored : stored -> V.

  Record mext := { x_valid : list clsn; x_mult : clsn -> nat; x_dict : clsn -> list (str * V) }.

  Fixpoint dict_get (k : str) (d : list (str * V)) : option V :=
    match d with
    | [] => None
    | (k', v) :: r => if str_eqb k k' then Some v else dict_get k r
    end.
  Fixpoint dict_del (k : str) (d : list (str * V)) : list (str * V) :=
    match d with
    | [] => []
    | (k', v) :: r => if str_eqb k k' then dict_del k r else (k', v) :: dict_del k r
    end.
  (** d[k] = v : replaces in place, or appends *)
  Fixpoint dict_set (k : str) (v : V) (d : list (str * V)) : list (str * V) :=
    match d with
    | [] => [(k, v)]
    | (k', v') :: r => if str_eqb k k' then (k', v) :: r else (k', v') :: dict_set k v r
    end.
  Definition dict_has (k : str) (d : list (str * V)) : bool :=
    match dict_get k d with Some _ => true | None => false end.

  Definition valid_class (e : mext) (c : clsn) : bool := existsb (clsn_eqb c) (x_valid e).
  (** get_keys / get_classification look at the valid classes only, in order *)
  Definition has_key (e : mext) (k : str) : bool := existsb (fun c => dict_has k (x_dict e c)) (x_valid e).
  Definition classification (e : mext) (k : str) : option clsn := find (fun c => dict_has k (x_dict e c)) (x_valid e).

  Definition upd_dict (e : mext) (c : clsn) (d : list (str * V)) : mext :=
    {| x_valid := x_valid e; x_mult := x_mult e;
       x_dict := fun c' => if clsn_eqb c' c then d else x_dict e c' |}.

  (** (exit status, Some e' when the file is saved with extension e') *)
  Definition inject (e : mext) (c : clsn) (key : str) (values : list str) (type_str : option str) (force : bool)
    : res (Z * option mext) :=
    if negb (valid_class e c) then Ok (1%Z, None)
    else if negb (Nat.eqb (length values) (x_mult e c)) then Ok (1%Z, None)
    else
      let cleared :=
        if has_key e key then
          if force then
            match classification e key with
            | Some cc => Some (upd_dict e cc (dict_del key (x_dict e cc)))
            | None => Some e
            end
          else None
        else Some e in
      match cleared with
      | None => Ok (1%Z, None)
      | Some e1 =>
          match convert_values values type_str with
          | Err er => Err er
          | Ok v => Ok (0%Z, Some (upd_dict e1 c (dict_set key (of_stored v) (x_dict e1 c))))
          end
      end.
End Inject.

Arguments x_valid {V}. Arguments x_mult {V}. Arguments x_dict {V}.
Arguments dict_get {V}. Arguments dict_del {V}. Arguments dict_set {V}. Arguments dict_has {V}.
Arguments valid_class {V}. Arguments has_key {V}. Arguments classification {V}. Arguments upd_dict {V}.
Arguments inject {V}.

(** stable insertion sort by an integer key ([list.sort(key=...)]) *)
Fixpoint insert_by {A} (key : A -> Z) (x : A) (l : list A) : list A :=
  match l with
  | [] => [x]
  | y :: r => if (key y <=? key x)%Z then y :: insert_by key x r else x :: l
  end.
Definition sort_by {A} (key : A -> Z) (l : list A) : list A :=
  fold_left (fun acc x => insert_by key x acc) l [].

(** nitool sub-commands over an abstract library.  [nii] is an image object (data, header, extensions). *)
Section Nitool.
  Variable nii : Type.
  (* filesystem / terminal *)
  Variable fs_load : str -> res nii.                     (* nb.load *)
  Variable fs_read : option str -> res str.              (* text of src_json (None = stdin) *)
  Variable confirm : bool.                               (* answer to check_overwrite() *)
  (* library *)
  Variable has_ext : nii -> bool.                        (* NiftiWrapper(nii) does not raise MissingExtensionError *)
  Variable with_empty : nii -> nii.                      (* NiftiWrapper(nii, make_empty=True) on an image without extension *)
  Variable api_split : nii -> option Z -> res (list nii).        (* list(wrp.split(dim)) *)
  Variable api_merge : list nii -> option Z -> res nii.          (* NiftiWrapper.from_sequence(seq, dim) *)
  Variable api_clear_slices : nii -> nii.                        (* meta_ext.clear_slice_meta() *)
  Variable api_const_fmt : str -> nii -> res str.                (* fmt % meta_ext.get_class_dict(('global','const')) *)
  Variable api_to_json : nii -> str.                             (* meta_ext.to_json() *)
  Variable api_remove_ext : nii -> nii.                          (* remove_extension() *)
  Variable api_append_json : nii -> str -> res nii.              (* hdr.extensions.append(DcmMetaExtension.from_json(text)) *)
  Variable api_get_meta : nii -> str -> option (list Z) -> res (option str).   (* str(get_meta(key, index)) or None *)
  Variable api_sort_val : nii -> str -> res (option Z).          (* get_meta(key) used as sort key *)
  Variable V : Type.
  Variable of_stored : stored -> V.
  Variable api_ext : nii -> mext V.                              (* the extension as inject sees it *)
  Variable api_set_ext : nii -> mext V -> nii.

  Inductive nargs :=
  | NSplit (src : str) (dim : option Z) (out_fmt : option str)
  | NMerge (out : str) (srcs : list str) (dim : option Z) (sort : option str) (clear_slices : bool)
  | NDump (src : str) (dest : option str) (make_empty remove : bool)
  | NEmbed (src_json : option str) (dest : str) (force : bool)
  | NLookup (key : str) (src : str) (index : option str)
  | NInject (dest : str) (c : clsn) (key : str) (values : list str) (force : bool) (type_str : option str).

  Record noutputs := {
    no_writes : list (str * nii);            (* NIfTI files written (path, object) in order *)
    no_text : list (option str * str);       (* text written: (file or None = stdout, content) *)
    no_status : res (option Z) }.            (* return value of main (None = `return` without value), or the exception *)

  Definition nfail (e : err) : noutputs := {| no_writes := []; no_text := []; no_status := Err e |}.

  (** try NiftiWrapper(nii) except MissingExtensionError: NiftiWrapper(nii, make_empty=True) *)
  Definition wrap_or_empty (n : nii) : nii := if has_ext n then n else with_empty n.

  Fixpoint split_names (src_dir src_fn : str) (out_fmt : option str) (idx : nat) (parts : list nii) : res (list (str * nii)) :=
    match parts with
    | [] => Ok []
    | p :: r =>
        match (match truthy out_fmt with
               | Some f => api_const_fmt f p
               | None => Ok (path_join src_dir (fmt_nat split_zero split_width idx ++ split_sep ++ src_fn))
               end) with
        | Err e => Err e
        | Ok nm => match split_names src_dir src_fn out_fmt (S idx) r with
                   | Err e => Err e
                   | Ok rest => Ok ((nm, p) :: rest)
                   end
        end
    end.

  Fixpoint load_all (paths : list str) : res (list nii) :=
    match paths with
    | [] => Ok []
    | p :: r => match fs_load p with
                | Err e => Err e
                | Ok n => match load_all r with Err e => Err e | Ok ns => Ok (wrap_or_empty n :: ns) end
                end
    end.

  (** keys for --sort: a missing key makes make_key_func raise (TypeError, by the misplaced `%`) *)
  Fixpoint sort_keys (key : str) (l : list nii) : res (list (nii * Z)) :=
    match l with
    | [] => Ok []
    | n :: r => match api_sort_val n key with
                | Err e => Err e
                | Ok None => Err EType
                | Ok (Some z) => match sort_keys key r with Err e => Err e | Ok t => Ok ((n, z) :: t) end
                end
    end.

  Definition parse_index (s : str) : res (list Z) := mapM py_int (split_on 44%N s).

  Definition nitool_cmd (a : nargs) : noutputs :=
    match a with
    | NSplit src dim out_fmt =>
        let '(src_dir, src_fn) := path_split src in
        match fs_load src with
        | Err e => nfail e
        | Ok n =>
            match api_split (wrap_or_empty n) dim with
            | Err e => nfail e
            | Ok parts =>
                match split_names src_dir src_fn out_fmt 0 parts with
                | Err e => nfail e      (* files before the failing name were written; not tracked *)
                | Ok ws => {| no_writes := ws; no_text := []; no_status := Ok (Some 0%Z) |}
                end
            end
        end
    | NMerge out srcs dim sort clear =>
        match load_all srcs with
        | Err e => nfail e
        | Ok ns =>
            match (match truthy sort with
                   | None => Ok ns
                   | Some k => match sort_keys k ns with
                               | Err e => Err e
                               | Ok kl => Ok (map fst (sort_by snd kl))
                               end
                   end) with
            | Err e => nfail e
            | Ok seq =>
                match api_merge seq dim with
                | Err e => nfail e
                | Ok m =>
                    let m' := if clear then api_clear_slices m else m in
                    match api_const_fmt out m' with
                    | Err e => nfail e
                    | Ok nm => {| no_writes := [(nm, m')]; no_text := []; no_status := Ok (Some 0%Z) |}
                    end
                end
            end
        end
    | NDump src dest make_empty remove =>
        match fs_load src with
        | Err e => nfail e
        | Ok n =>
            if negb (has_ext n) && negb make_empty then nfail EMissingExt
            else
              let w := if has_ext n then n else with_empty n in
              {| no_writes := if remove then [(src, api_remove_ext w)] else [];
                 no_text := [(dest, api_to_json w); (dest, [10%N])];
                 no_status := Ok (Some 0%Z) |}
        end
    | NEmbed src_json dest force =>
        match fs_load dest with
        | Err e => nfail e
        | Ok n =>
            if has_ext n && negb force && negb confirm
            then {| no_writes := []; no_text := []; no_status := Ok None |}
            else
              let n1 := if has_ext n then api_remove_ext n else n in
              match fs_read src_json with
              | Err e => nfail e
              | Ok txt => match api_append_json n1 txt with
                          | Err e => nfail e
                          | Ok n2 => {| no_writes := [(dest, n2)]; no_text := []; no_status := Ok (Some 0%Z) |}
                          end
              end
        end
    | NLookup key src index =>
        match fs_load src with
        | Err e => nfail e
        | Ok n =>
            if negb (has_ext n) then nfail EMissingExt
            else
              match (match truthy index with
                     | None => Ok None
                     | Some s => match parse_index s with Ok l => Ok (Some l) | Err e => Err e end
                     end) with
              | Err e => nfail e
              | Ok idx =>
                  match api_get_meta n key idx with
                  | Err e => nfail e
                  | Ok None => {| no_writes := []; no_text := []; no_status := Ok (Some 0%Z) |}
                  | Ok (Some s) => {| no_writes := []; no_text := [(None, s); (None, [10%N])]; no_status := Ok (Some 0%Z) |}
                  end
              end
        end
    | NInject dest c key values force type_str =>
        match fs_load dest with
        | Err e => nfail e
        | Ok n =>
            let w := wrap_or_empty n in
            match inject of_stored (api_ext w) c key values type_str force with
            | Err e => nfail e
            | Ok (rc, None) => {| no_writes := []; no_text := []; no_status := Ok (Some rc) |}
            | Ok (rc, Some e') => {| no_writes := [(dest, api_set_ext w e')]; no_text := []; no_status := Ok (Some rc) |}
            end
        end
    end.

  (** nitool has no module-level defaults of its own; the shared globals pass through *)
  Definition nitool_main (g : globals) (a : nargs) : globals * noutputs := (g, nitool_cmd a).
End Nitool.
