(** Output naming of dcmstack (dcmstack_cli.py:285-322): the names produced inside one source
    directory are pairwise distinct, for every list of natural names (finding F13 repaired). *)
From Coq Require Import List Bool Arith ZArith NArith Lia.
From DV Require Import Common.Res Common.Str Common.PyNum Common.PyNumFacts Generated.T_cli Cli.Model.
Import ListNotations.
Local Open Scope nat_scope.

(** ------------------------------------------------------------------ facts about the generated table
    (re-checked whenever the source literals change) *)
Lemma sfx_zero_true : sfx_zero = true.
Proof. reflexivity. Qed.
Lemma sfx_retry_true : sfx_retry = true.
Proof. reflexivity. Qed.
Lemma names_shared_dest_true : names_shared_dest = true.
Proof. reflexivity. Qed.
Lemma split_zero_true : split_zero = true.
Proof. reflexivity. Qed.
Lemma slash_not_kept : keep_char slash = false.
Proof. vm_compute. reflexivity. Qed.
Lemma repl_not_slash : N.eqb sanitize_repl slash = false.
Proof. vm_compute. reflexivity. Qed.
Lemma sfx_prefix_no_slash : match sfx_prefix with c :: _ => N.eqb c slash = false | [] => False end.
Proof. vm_compute. reflexivity. Qed.

(** ------------------------------------------------------------------ '%0<w>d' is injective *)

Lemma mem_str_In s l : mem_str s l = true <-> In s l.
Proof.
  unfold mem_str. rewrite existsb_exists. split.
  - intros [x [Hin Heq]]. apply str_eqb_eq in Heq. subst x. exact Hin.
  - intros Hin. exists s. split; [exact Hin | apply str_eqb_refl].
Qed.

Lemma mem_str_false s l : mem_str s l = false <-> ~ In s l.
Proof.
  rewrite <- mem_str_In. destruct (mem_str s l); split; intros H; try congruence;
    try (exfalso; apply H; reflexivity).
Qed.

Lemma dvalue_zeros k ds : dvalue dec_val 10 (repeat 48%N k ++ ds) 0 = dvalue dec_val 10 ds 0.
Proof.
  induction k as [|k IH]; cbn [repeat app]; [reflexivity|].
  unfold dvalue in *. cbn [fold_left]. change (dstep dec_val 10 0 48%N) with 0%Z. exact IH.
Qed.

Lemma dec_of_N_value n : dvalue dec_val 10 (dec_of_N n) 0 = Z.of_N n.
Proof. destruct (dec_of_N_spec n) as [ds [H1 [_ [_ H4]]]]. rewrite H1. exact H4. Qed.

Lemma fmt_nat_zero_inj w i j : fmt_nat true w i = fmt_nat true w j -> i = j.
Proof.
  unfold fmt_nat, pad_left. intros H.
  apply (f_equal (fun s => dvalue dec_val 10 s 0)) in H.
  rewrite !dvalue_zeros, !dec_of_N_value in H. lia.
Qed.

Lemma suffix_inj i j : suffix i = suffix j -> i = j.
Proof.
  unfold suffix. rewrite sfx_zero_true. intros H.
  apply app_inv_head in H. apply app_inv_tail in H. exact (fmt_nat_zero_inj _ _ _ H).
Qed.

(** ------------------------------------------------------------------ the suffix search terminates
    with the first free candidate *)

Lemma find_suffix_ok gen base : forall fuel idx tried,
  NoDup tried -> incl tried gen ->
  (forall t, In t tried -> exists k, k < idx /\ t = base ++ suffix k) ->
  length gen <= length tried + fuel ->
  exists k, find_suffix fuel gen base idx = Ok (base ++ suffix k) /\ idx <= k /\
            ~ In (base ++ suffix k) gen /\
            (forall k', idx <= k' < k -> In (base ++ suffix k') gen).
Proof.
  induction fuel as [|f IH]; intros idx tried Hnd Hincl Htried Hlen; cbn [find_suffix];
    destruct (mem_str (base ++ suffix idx) gen) eqn:Hm.
  - (* no fuel, candidate taken: impossible by counting *)
    apply mem_str_In in Hm.
    assert (Hnew : ~ In (base ++ suffix idx) tried).
    { intros Hin. destruct (Htried _ Hin) as [k [Hk Heq]].
      apply app_inv_head in Heq. apply suffix_inj in Heq. lia. }
    assert (Hnd' : NoDup ((base ++ suffix idx) :: tried)) by (constructor; assumption).
    assert (Hincl' : incl ((base ++ suffix idx) :: tried) gen).
    { intros x [Hx | Hx]; [subst x; exact Hm | apply Hincl; exact Hx]. }
    pose proof (NoDup_incl_length Hnd' Hincl') as Hl. cbn [length] in Hl. lia.
  - exists idx. apply mem_str_false in Hm. repeat split; [lia | exact Hm | intros k' Hk'; lia].
  - apply mem_str_In in Hm.
    assert (Hnew : ~ In (base ++ suffix idx) tried).
    { intros Hin. destruct (Htried _ Hin) as [k [Hk Heq]].
      apply app_inv_head in Heq. apply suffix_inj in Heq. lia. }
    assert (Hnd' : NoDup ((base ++ suffix idx) :: tried)) by (constructor; assumption).
    assert (Hincl' : incl ((base ++ suffix idx) :: tried) gen).
    { intros x [Hx | Hx]; [subst x; exact Hm | apply Hincl; exact Hx]. }
    assert (Htr' : forall t, In t ((base ++ suffix idx) :: tried) -> exists k, k < S idx /\ t = base ++ suffix k).
    { intros t [Ht | Ht]; [exists idx; split; [lia | congruence]|].
      destruct (Htried _ Ht) as [k [Hk Heq]]. exists k. split; [lia | exact Heq]. }
    assert (Hlen' : length gen <= length ((base ++ suffix idx) :: tried) + f) by (cbn [length]; lia).
    destruct (IH (S idx) ((base ++ suffix idx) :: tried) Hnd' Hincl' Htr' Hlen') as [k [H1 [H2 [H3 H4]]]].
    exists k. repeat split; [exact H1 | lia | exact H3|].
    intros k' Hk'. destruct (Nat.eq_dec k' idx) as [-> | Hne]; [exact Hm | apply H4; lia].
  - exists idx. apply mem_str_false in Hm. repeat split; [lia | exact Hm | intros k' Hk'; lia].
Qed.

(** what one pass of the uniqueness code returns: the sanitized name itself when it is free, otherwise
    the first free  name-kkk  with kkk >= out_idx *)
Definition unique_spec (gen : list str) (out_idx : nat) (fn out : str) : Prop :=
  ~ In out gen /\
  ((~ In fn gen /\ out = fn) \/
   (In fn gen /\ exists k, out = fn ++ suffix k /\ out_idx <= k /\
                           forall k', out_idx <= k' < k -> In (fn ++ suffix k') gen)).

Lemma unique_name_ok gen out_idx fn : exists out, unique_name gen out_idx fn = Ok out /\ unique_spec gen out_idx fn out.
Proof.
  unfold unique_name, unique_spec. destruct (mem_str fn gen) eqn:Hm.
  - rewrite sfx_retry_true. apply mem_str_In in Hm.
    destruct (find_suffix_ok gen fn (length gen) out_idx [] (NoDup_nil _) (incl_nil_l _)
                (fun t (H : In t []) => match H with end) (le_n _)) as [k [H1 [H2 [H3 H4]]]].
    exists (fn ++ suffix k). split; [exact H1|]. split; [exact H3|]. right. split; [exact Hm|].
    exists k. repeat split; assumption.
  - apply mem_str_false in Hm. exists fn. split; [reflexivity|]. split; [exact Hm|]. left. split; [exact Hm | reflexivity].
Qed.

(** ------------------------------------------------------------------ the loop *)

Lemma name_loop_ok : forall names gen out_idx,
  exists outs, name_loop gen out_idx names = Ok outs /\ length outs = length names /\
               NoDup outs /\ (forall o, In o outs -> ~ In o gen).
Proof.
  induction names as [|n r IH]; intros gen out_idx; cbn [name_loop].
  - exists []. repeat split; [constructor | intros o []].
  - destruct (unique_name_ok gen out_idx (sanitize_path_comp n)) as [out [H1 [H2 _]]]. rewrite H1.
    destruct (IH (out :: gen) (S out_idx)) as [outs [E [Hl [Hnd Hfresh]]]]. rewrite E.
    exists (out :: outs). repeat split.
    + cbn [length]. rewrite Hl. reflexivity.
    + constructor; [|exact Hnd]. intros Hin. apply (Hfresh _ Hin). left. reflexivity.
    + intros o [Ho | Ho]; [subst o; exact H2|]. intros Hg. apply (Hfresh _ Ho). right. exact Hg.
Qed.

Lemma NoDup_map_inj {A B} (f : A -> B) l :
  (forall x y, In x l -> In y l -> f x = f y -> x = y) -> NoDup l -> NoDup (map f l).
Proof.
  intros Hinj Hnd. induction Hnd as [|x l Hx Hnd IH]; cbn [map]; constructor.
  - intros Hin. apply in_map_iff in Hin as [y [Hy Hin]].
    assert (y = x) by (apply Hinj; [right; exact Hin | left; reflexivity | exact Hy]). subst y. contradiction.
  - apply IH. intros a b Ha Hb. apply Hinj; right; assumption.
Qed.

(** as many names as natural names, pairwise distinct, also with the extension appended *)
Lemma output_names_distinct names ext :
  exists outs, output_names names = Ok outs /\ length outs = length names /\ NoDup outs /\
               NoDup (map (fun o => o ++ ext) outs).
Proof.
  destruct (name_loop_ok names [] 0) as [outs [E [Hl [Hnd _]]]]. exists outs. repeat split; try assumption.
  apply NoDup_map_inj; [|exact Hnd]. intros x y _ _ H. exact (app_inv_tail _ _ _ H).
Qed.

(** a name that was already produced (or a natural name equal to an earlier one) gets a suffix *)
Lemma output_names_first names n : exists outs, output_names (n :: names) = Ok (sanitize_path_comp n :: outs).
Proof.
  unfold output_names. cbn [name_loop unique_name mem_str existsb].
  destruct (name_loop_ok names [sanitize_path_comp n] 1) as [outs [E _]]. rewrite E. exists outs. reflexivity.
Qed.

(** ------------------------------------------------------------------ the loop inside main *)

Section Loop.
  Variable a : args.
  Variable i : inputs.
  Variable excl incl : list str.
  Variable t_ord v_ord : option ordering.

  Lemma group_loop_names : forall groups d gen out_idx gidx files e gen',
    group_loop a i excl incl t_ord v_ord d gen out_idx gidx groups = (files, e, gen') ->
    exists outs, map fo_name files = map (fun o => o ++ a_output_ext a) outs /\ NoDup outs /\
                 (forall o, In o outs -> ~ In o gen) /\
                 (e = None -> length files = length groups) /\
                 (forall o, In o gen -> In o gen') /\ (forall o, In o outs -> In o gen').
  Proof.
    induction groups as [|gi rest IH]; intros d gen out_idx gidx files e gen' H; cbn [group_loop] in H.
    - injection H as <- <- <-. exists []. repeat split; [constructor | intros o [] | intros o Ho; exact Ho | intros o []].
    - assert (Hstop : forall er g0, ([] : list file_out, Some er, g0) = (files, e, gen') -> (forall o, In o gen -> In o g0) ->
                exists outs, map fo_name files = map (fun o => o ++ a_output_ext a) outs /\ NoDup outs /\
                  (forall o, In o outs -> ~ In o gen) /\ (e = None -> length files = length (gi :: rest)) /\
                  (forall o, In o gen -> In o gen') /\ (forall o, In o outs -> In o gen')).
      { intros er g0 H0 Hg. injection H0 as <- <- <-. exists [].
        repeat split; [constructor | intros o [] | discriminate | exact Hg | intros o []]. }
      destruct (i_stack i _) as [u|er]; [|exact (Hstop _ _ H (fun o Ho => Ho))].
      destruct (natural_name a gi) as [nn|er]; [|exact (Hstop _ _ H (fun o Ho => Ho))].
      destruct (unique_name_ok gen out_idx (sanitize_path_comp nn)) as [out [H1 [H2 _]]]. rewrite H1 in H.
      destruct (i_nifti i _ _) as [u'|er]; [|exact (Hstop _ _ H (fun o Ho => or_intror Ho))].
      destruct (if a_dump_meta a then _ else _) as [jp|er]; [|exact (Hstop _ _ H (fun o Ho => or_intror Ho))].
      destruct (group_loop a i excl incl t_ord v_ord d (out :: gen) (S out_idx) (S gidx) rest) as [[fs e'] g1] eqn:E.
      injection H as <- <- <-.
      destruct (IH _ _ _ _ _ _ _ E) as [outs [Hm [Hnd [Hfresh [Hlen [Hmono Hin]]]]]].
      exists (out :: outs). cbn [map fo_name]. repeat split.
      + rewrite Hm. reflexivity.
      + constructor; [|exact Hnd]. intros Ho. apply (Hfresh _ Ho). left. reflexivity.
      + intros o [Ho | Ho]; [subst o; exact H2|]. intros Hg. apply (Hfresh _ Ho). right. exact Hg.
      + intros He. cbn [length]. rewrite (Hlen He). reflexivity.
      + intros o Ho. apply Hmono. right. exact Ho.
      + intros o [Ho | Ho]; [subst o; apply Hmono; left; reflexivity | exact (Hin _ Ho)].
  Qed.

  Lemma group_loop_names_distinct groups d gen files e gen' :
    group_loop a i excl incl t_ord v_ord d gen 0 0 groups = (files, e, gen') -> NoDup (map fo_name files).
  Proof.
    intros H. destruct (group_loop_names _ _ _ _ _ _ _ _ H) as [outs [Hm [Hnd _]]]. rewrite Hm.
    apply NoDup_map_inj; [|exact Hnd]. intros x y _ _ Hxy. exact (app_inv_tail _ _ _ Hxy).
  Qed.

  Lemma dir_loop_names : forall dirs group_by x shared ds e,
    dir_loop a i excl incl t_ord v_ord group_by x shared dirs = (ds, e) ->
    forall d, In d ds -> NoDup (map fo_name (do_files d)).
  Proof.
    induction dirs as [|d0 rest IH]; intros group_by x shared ds e H d Hd; cbn [dir_loop] in H.
    - injection H as <- <-. destruct Hd.
    - destruct (i_groups i _) as [groups|er]; [|injection H as <- <-; destruct Hd].
      destruct (group_loop a i excl incl t_ord v_ord d0 _ 0 0 groups) as [[files e0] g1] eqn:E.
      destruct e0 as [er|].
      + injection H as <- <-. destruct Hd as [<- | []]. cbn [do_files]. exact (group_loop_names_distinct _ _ _ _ _ _ E).
      + destruct (dir_loop a i excl incl t_ord v_ord group_by x _ rest) as [ds' e'] eqn:E'.
        injection H as <- <-. destruct Hd as [<- | Hd].
        * cbn [do_files]. exact (group_loop_names_distinct _ _ _ _ _ _ E).
        * exact (IH _ _ _ _ _ E' d Hd).
  Qed.

  Lemma NoDup_app_disjoint {A} (l1 l2 : list A) :
    NoDup l1 -> NoDup l2 -> (forall x, In x l1 -> ~ In x l2) -> NoDup (l1 ++ l2).
  Proof.
    intros H1 H2 Hd. induction H1 as [|x l Hx Hnd IH]; cbn [app]; [exact H2|].
    constructor.
    - intros Hin. apply in_app_or in Hin as [Hin | Hin]; [contradiction | exact (Hd x (or_introl eq_refl) Hin)].
    - apply IH. intros y Hy. apply Hd. right. exact Hy.
  Qed.

  (** one set of names for the whole invocation (--dest-dir): the names of ALL directories are distinct *)
  Lemma dir_loop_names_shared : shares_names a = true -> forall dirs group_by x shared ds e,
    dir_loop a i excl incl t_ord v_ord group_by x shared dirs = (ds, e) ->
    exists outs, concat (map (fun d => map fo_name (do_files d)) ds) = map (fun o => o ++ a_output_ext a) outs /\
                 NoDup outs /\ (forall o, In o outs -> ~ In o shared).
  Proof.
    intros Hsh. induction dirs as [|d0 rest IH]; intros group_by x shared ds e H; cbn [dir_loop] in H.
    - injection H as <- <-. exists []. repeat split; [constructor | intros o []].
    - destruct (i_groups i _) as [groups|er]; [|injection H as <- <-; exists []; repeat split; [constructor | intros o []]].
      rewrite Hsh in H.
      destruct (group_loop a i excl incl t_ord v_ord d0 shared 0 0 groups) as [[files e0] g1] eqn:E.
      destruct (group_loop_names _ _ _ _ _ _ _ _ E) as [outs1 [Hm1 [Hnd1 [Hf1 [_ [Hmono Hin1]]]]]].
      destruct e0 as [er|].
      + injection H as <- <-. exists outs1. cbn [map concat do_files]. rewrite app_nil_r. repeat split; assumption.
      + destruct (dir_loop a i excl incl t_ord v_ord group_by x g1 rest) as [ds' e'] eqn:E'.
        injection H as <- <-. destruct (IH _ _ _ _ _ E') as [outs2 [Hm2 [Hnd2 Hf2]]].
        exists (outs1 ++ outs2). cbn [map concat do_files]. rewrite Hm1, Hm2, map_app. repeat split.
        * apply NoDup_app_disjoint; [exact Hnd1 | exact Hnd2|]. intros o Ho1 Ho2. exact (Hf2 _ Ho2 (Hin1 _ Ho1)).
        * intros o Ho. apply in_app_or in Ho as [Ho | Ho]; [exact (Hf1 _ Ho)|].
          intros Hs. exact (Hf2 _ Ho (Hmono _ Hs)).
  Qed.
End Loop.

(** ------------------------------------------------------------------ nitool split: default names *)

Lemma split_default_name_inj dir fn i j :
  path_join dir (fmt_nat split_zero split_width i ++ split_sep ++ fn) =
  path_join dir (fmt_nat split_zero split_width j ++ split_sep ++ fn) -> i = j.
Proof.
  rewrite split_zero_true. unfold path_join.
  assert (Hns : forall k, starts_with_slash (fmt_nat true split_width k ++ split_sep ++ fn) = false).
  { intros k. unfold fmt_nat, pad_left.
    destruct (dec_of_N_spec (N.of_nat k)) as [ds [H1 [H2 [H3 _]]]]. rewrite H1.
    destruct (split_width - length ds) as [|m]; cbn [repeat app starts_with_slash]; [|reflexivity].
    destruct ds as [|c r]; [congruence|]. cbn [app starts_with_slash].
    cbn [all_dig forallb] in H3. apply andb_true_iff in H3 as [Hc _].
    destruct (dec_val c) eqn:Ec; [|discriminate]. apply dec_val_digit, is_digit_cases in Ec.
    repeat (destruct Ec as [-> | Ec]; [reflexivity|]). subst c. reflexivity. }
  rewrite !Hns. intros H.
  assert (H' : fmt_nat true split_width i ++ split_sep ++ fn = fmt_nat true split_width j ++ split_sep ++ fn).
  { destruct (negb (nonempty dir) || ends_with_slash dir).
    - exact (app_inv_head _ _ _ H).
    - apply app_inv_head in H. injection H as H. exact H. }
  rewrite !app_assoc in H'. apply app_inv_tail in H'. apply app_inv_tail in H'.
  exact (fmt_nat_zero_inj _ _ _ H').
Qed.
