(** nitool: inject changes the extension exactly when it should and then adds exactly the given
    values; the other sub-commands are the API calls with the stated arguments. *)
From Coq Require Import List Bool Arith ZArith NArith Lia Permutation Sorted.
From DV Require Import Common.Res Common.Str Common.PyNum Generated.T_cli Cli.Model Cli.ProofsNames.
Import ListNotations.
Local Open Scope nat_scope.

Lemma clsn_eqb_eq x y : clsn_eqb x y = true <-> x = y.
Proof.
  destruct x as [x1 x2], y as [y1 y2]. unfold clsn_eqb. cbn [fst snd].
  rewrite andb_true_iff, !str_eqb_eq. split; [intros [-> ->]; reflexivity | intros H; injection H as -> ->; split; reflexivity].
Qed.
Lemma clsn_eqb_refl x : clsn_eqb x x = true.
Proof. apply clsn_eqb_eq. reflexivity. Qed.
Lemma clsn_eqb_neq x y : x <> y -> clsn_eqb x y = false.
Proof. intros H. destruct (clsn_eqb x y) eqn:E; [apply clsn_eqb_eq in E; contradiction | reflexivity]. Qed.

Section Dict.
  Variable V : Type.
  Implicit Types d : list (str * V).

  Lemma dict_get_set_same k v d : dict_get k (dict_set k v d) = Some v.
  Proof.
    induction d as [|[k' v'] r IH]; cbn [dict_set dict_get]; [rewrite str_eqb_refl; reflexivity|].
    destruct (str_eqb k k') eqn:E; cbn [dict_get]; rewrite E; [reflexivity | exact IH].
  Qed.

  Lemma dict_get_set_other k k0 v d : k0 <> k -> dict_get k0 (dict_set k v d) = dict_get k0 d.
  Proof.
    intros Hne. induction d as [|[k' v'] r IH]; cbn [dict_set dict_get].
    - destruct (str_eqb k0 k) eqn:E; [apply str_eqb_eq in E; contradiction | reflexivity].
    - destruct (str_eqb k k') eqn:E; cbn [dict_get].
      + apply str_eqb_eq in E. subst k'. destruct (str_eqb k0 k) eqn:E2; [apply str_eqb_eq in E2; contradiction | reflexivity].
      + rewrite IH. reflexivity.
  Qed.

  Lemma dict_get_del_same k d : dict_get k (dict_del k d) = None.
  Proof.
    induction d as [|[k' v'] r IH]; cbn [dict_del dict_get]; [reflexivity|].
    destruct (str_eqb k k') eqn:E; [exact IH | cbn [dict_get]; rewrite E; exact IH].
  Qed.

  Lemma dict_get_del_other k k0 d : k0 <> k -> dict_get k0 (dict_del k d) = dict_get k0 d.
  Proof.
    intros Hne. induction d as [|[k' v'] r IH]; cbn [dict_del dict_get]; [reflexivity|].
    destruct (str_eqb k k') eqn:E.
    - apply str_eqb_eq in E. subst k'. rewrite IH.
      destruct (str_eqb k0 k) eqn:E2; [apply str_eqb_eq in E2; contradiction | reflexivity].
    - cbn [dict_get]. rewrite IH. reflexivity.
  Qed.
End Dict.

Section InjectProofs.
  Variable V : Type.
  Variable of_stored : stored -> V.
  Implicit Types e : mext V.

  (** the condition under which the command changes the file *)
  Definition inject_cond e (c : clsn) (key : str) (values : list str) (force : bool) : Prop :=
    valid_class e c = true /\ length values = x_mult e c /\ (has_key e key = false \/ force = true).

  (** the state after the optional removal of the old entry *)
  Definition cleared e (key : str) : mext V :=
    if has_key e key then
      match classification e key with
      | Some cc => upd_dict e cc (dict_del key (x_dict e cc))
      | None => e
      end
    else e.

  Lemma inject_refuses e c key values ty force :
    ~ inject_cond e c key values force -> inject of_stored e c key values ty force = Ok (1%Z, None).
  Proof.
    unfold inject_cond, inject. intros H.
    destruct (valid_class e c); cbn [negb]; [|reflexivity].
    destruct (Nat.eqb_spec (length values) (x_mult e c)) as [El|El]; cbn [negb]; [|reflexivity].
    destruct (has_key e key) eqn:Hk.
    - destruct force; [|reflexivity]. exfalso. apply H. repeat split; [exact El | right; reflexivity].
    - exfalso. apply H. repeat split; [exact El | left; reflexivity].
  Qed.

  Lemma inject_accepts e c key values ty force :
    inject_cond e c key values force ->
    inject of_stored e c key values ty force =
      match convert_values values ty with
      | Err er => Err er
      | Ok v => let e1 := cleared e key in
                Ok (0%Z, Some (upd_dict e1 c (dict_set key (of_stored v) (x_dict e1 c))))
      end.
  Proof.
    unfold inject_cond, inject, cleared. intros [Hv [Hl Hk]]. rewrite Hv. cbn [negb].
    rewrite Hl, Nat.eqb_refl. cbn [negb].
    destruct (has_key e key) eqn:Hh.
    - destruct Hk as [Hk | ->]; [discriminate|]. destruct (classification e key); reflexivity.
    - reflexivity.
  Qed.

  (** the file is changed iff the classification is valid, the count is the multiplicity, the key is new
      or overwriting is forced -- and the values convert (only relevant with an explicit --type) *)
  Lemma inject_changes_iff e c key values ty force :
    (exists rc e', inject of_stored e c key values ty force = Ok (rc, Some e')) <->
    inject_cond e c key values force /\ exists v, convert_values values ty = Ok v.
  Proof.
    split.
    - intros [rc [e' H]].
      assert (Hc : inject_cond e c key values force).
      { unfold inject_cond. destruct (valid_class e c) eqn:Hv.
        2:{ unfold inject in H. rewrite Hv in H. discriminate. }
        destruct (Nat.eqb_spec (length values) (x_mult e c)) as [El|El].
        2:{ unfold inject in H. rewrite Hv in H. cbn [negb] in H.
            destruct (Nat.eqb_spec (length values) (x_mult e c)); [contradiction | discriminate]. }
        destruct (has_key e key) eqn:Hk; [|repeat split; [exact El | left; reflexivity]].
        destruct force; [repeat split; [exact El | right; reflexivity]|].
        unfold inject in H. rewrite Hv, Hk in H. cbn [negb] in H.
        destruct (Nat.eqb_spec (length values) (x_mult e c)); [discriminate | contradiction]. }
      split; [exact Hc|]. rewrite (inject_accepts _ _ _ _ _ _ Hc) in H.
      destruct (convert_values values ty) as [v|er]; [exists v; reflexivity | discriminate].
    - intros [Hc [v Hv]]. rewrite (inject_accepts _ _ _ _ _ _ Hc), Hv. eexists. eexists. reflexivity.
  Qed.

  Lemma inject_iff_and_refusal e c key values ty force :
    ((exists rc e', inject of_stored e c key values ty force = Ok (rc, Some e')) <->
     (valid_class e c = true /\ length values = x_mult e c /\ (has_key e key = false \/ force = true)) /\
     exists v, convert_values values ty = Ok v) /\
    (~ (valid_class e c = true /\ length values = x_mult e c /\ (has_key e key = false \/ force = true)) ->
     inject of_stored e c key values ty force = Ok (1%Z, None)).
  Proof. split; [exact (inject_changes_iff e c key values ty force) | exact (inject_refuses e c key values ty force)]. Qed.

  Lemma has_key_classification e key : has_key e key = true -> exists cc, classification e key = Some cc.
  Proof.
    unfold has_key, classification. intros H. apply existsb_exists in H as [x [Hin Hx]].
    destruct (find _ (x_valid e)) as [cc|] eqn:E; [exists cc; reflexivity|].
    rewrite (find_none _ _ E x Hin) in Hx. discriminate.
  Qed.

  (** what the accepted command writes *)
  Lemma inject_effect e c key values ty force rc e' :
    inject of_stored e c key values ty force = Ok (rc, Some e') ->
    rc = 0%Z /\ exists v, convert_values values ty = Ok v /\
      x_valid e' = x_valid e /\ (forall c', x_mult e' c' = x_mult e c') /\
      (* exactly the given values, under the given key and classification *)
      dict_get key (x_dict e' c) = Some (of_stored v) /\
      (* every other key is untouched, in every classification *)
      (forall c' k, k <> key -> dict_get k (x_dict e' c') = dict_get k (x_dict e c')) /\
      (* the key itself, elsewhere: the old entry (first valid classification holding it) is removed, nothing else *)
      (forall c', c' <> c ->
         dict_get key (x_dict e' c') =
           if has_key e key then
             match classification e key with
             | Some cc => if clsn_eqb c' cc then None else dict_get key (x_dict e c')
             | None => dict_get key (x_dict e c')
             end
           else dict_get key (x_dict e c')).
  Proof.
    intros H.
    assert (Hex : exists rc e', inject of_stored e c key values ty force = Ok (rc, Some e')) by (eexists; eexists; exact H).
    apply inject_changes_iff in Hex as [Hc [v Hv]].
    rewrite (inject_accepts _ _ _ _ _ _ Hc), Hv in H. cbv zeta in H. injection H as <- <-.
    split; [reflexivity|]. exists v. split; [exact Hv|].
    assert (Hval : x_valid (cleared e key) = x_valid e).
    { unfold cleared. destruct (has_key e key); [destruct (classification e key)|]; reflexivity. }
    assert (Hmul : forall c', x_mult (cleared e key) c' = x_mult e c').
    { intros c'. unfold cleared. destruct (has_key e key); [destruct (classification e key)|]; reflexivity. }
    assert (Hoth : forall c' k, k <> key -> dict_get k (x_dict (cleared e key) c') = dict_get k (x_dict e c')).
    { intros c' k Hk. unfold cleared. destruct (has_key e key); [|reflexivity].
      destruct (classification e key) as [cc|]; [|reflexivity]. cbn [upd_dict x_dict].
      destruct (clsn_eqb c' cc) eqn:E; [|reflexivity]. apply clsn_eqb_eq in E. subst cc.
      apply dict_get_del_other. exact Hk. }
    split; [exact Hval|]. split; [exact Hmul|].
    split; [cbn [upd_dict x_dict]; rewrite clsn_eqb_refl; apply dict_get_set_same|].
    split.
    - intros c' k Hk. cbn [upd_dict x_dict]. destruct (clsn_eqb c' c) eqn:E.
      + apply clsn_eqb_eq in E. subst c'. rewrite dict_get_set_other by exact Hk. apply Hoth. exact Hk.
      + apply Hoth. exact Hk.
    - intros c' Hne. cbn [upd_dict x_dict]. rewrite (clsn_eqb_neq _ _ Hne).
      unfold cleared. destruct (has_key e key); [|reflexivity].
      destruct (classification e key) as [cc|]; [|reflexivity]. cbn [upd_dict x_dict].
      destruct (clsn_eqb c' cc) eqn:E; [|reflexivity]. apply clsn_eqb_eq in E. subst cc. apply dict_get_del_same.
  Qed.

  (** for an extension in which a key has at most one valid classification (DcmMetaExtension.check_valid),
      after an accepted inject the key is classified as requested and nowhere else *)
  Definition uniquely_classified e (key : str) : Prop :=
    forall c1 c2, In c1 (x_valid e) -> In c2 (x_valid e) ->
      dict_has key (x_dict e c1) = true -> dict_has key (x_dict e c2) = true -> c1 = c2.

  Lemma inject_only_there e c key values ty force rc e' :
    uniquely_classified e key ->
    inject of_stored e c key values ty force = Ok (rc, Some e') ->
    forall c', In c' (x_valid e') -> c' <> c -> dict_get key (x_dict e' c') = None.
  Proof.
    intros Hu H c' Hin Hne. destruct (inject_effect _ _ _ _ _ _ _ _ H) as [_ [v [_ [Hval [_ [_ [_ Hk]]]]]]].
    rewrite Hval in Hin. rewrite (Hk c' Hne).
    assert (Hnone : dict_has key (x_dict e c') = false -> dict_get key (x_dict e c') = None).
    { unfold dict_has. destruct (dict_get key (x_dict e c')); [discriminate | reflexivity]. }
    destruct (has_key e key) eqn:Hh.
    - destruct (has_key_classification _ _ Hh) as [cc Hcc]. rewrite Hcc.
      destruct (clsn_eqb c' cc) eqn:E; [reflexivity|]. apply Hnone.
      destruct (dict_has key (x_dict e c')) eqn:Hd; [|reflexivity]. exfalso.
      unfold classification in Hcc. apply find_some in Hcc as [Hcin Hcd].
      rewrite (Hu c' cc Hin Hcin Hd Hcd), clsn_eqb_refl in E. discriminate.
    - apply Hnone. unfold has_key in Hh.
      destruct (dict_has key (x_dict e c')) eqn:Hd; [|reflexivity].
      assert (existsb (fun c0 => dict_has key (x_dict e c0)) (x_valid e) = true); [|congruence].
      apply existsb_exists. exists c'. split; assumption.
  Qed.
End InjectProofs.

(** ------------------------------------------------------------------ --sort: a stable insertion sort *)

Section Sort.
  Variable A : Type.
  Variable key : A -> Z.
  Definition key_le (x y : A) : Prop := (key x <= key y)%Z.

  Lemma insert_by_perm x l : Permutation (insert_by key x l) (x :: l).
  Proof.
    induction l as [|y r IH]; cbn [insert_by]; [apply Permutation_refl|].
    destruct (key y <=? key x)%Z; [|apply Permutation_refl].
    apply perm_trans with (y :: x :: r); [apply perm_skip; exact IH | apply perm_swap].
  Qed.

  Lemma insert_by_hdrel a x l : key_le a x -> HdRel key_le a l -> HdRel key_le a (insert_by key x l).
  Proof.
    intros Hax Hl. destruct l as [|y r]; cbn [insert_by]; [constructor; exact Hax|].
    destruct (key y <=? key x)%Z; constructor; [inversion Hl; assumption | exact Hax].
  Qed.

  Lemma insert_by_sorted x l : Sorted key_le l -> Sorted key_le (insert_by key x l).
  Proof.
    induction l as [|y r IH]; intros Hs; cbn [insert_by]; [repeat constructor|].
    destruct (key y <=? key x)%Z eqn:E.
    - inversion Hs as [|? ? Hr Hh]; subst. constructor; [apply IH; exact Hr|].
      apply insert_by_hdrel; [unfold key_le; lia | exact Hh].
    - constructor; [exact Hs|]. constructor. unfold key_le. lia.
  Qed.

  Lemma sort_by_spec l : Permutation (sort_by key l) l /\ Sorted key_le (sort_by key l).
  Proof.
    unfold sort_by.
    assert (H : forall acc, Sorted key_le acc ->
              Permutation (fold_left (fun acc x => insert_by key x acc) l acc) (acc ++ l) /\
              Sorted key_le (fold_left (fun acc x => insert_by key x acc) l acc)).
    { induction l as [|x r IH]; intros acc Hs; cbn [fold_left].
      - rewrite app_nil_r. split; [apply Permutation_refl | exact Hs].
      - destruct (IH (insert_by key x acc) (insert_by_sorted x acc Hs)) as [Hp Hs']. split; [|exact Hs'].
        apply perm_trans with (insert_by key x acc ++ r); [exact Hp|].
        apply perm_trans with ((x :: acc) ++ r); [apply Permutation_app_tail, insert_by_perm|].
        cbn [app]. apply Permutation_middle. }
    destruct (H [] (Sorted_nil _)) as [Hp Hs]. split; [exact Hp | exact Hs].
  Qed.
End Sort.

(** ------------------------------------------------------------------ the thin wrappers *)

Section Wrappers.
  Variable nii : Type.
  Variable fs_load : str -> res nii.
  Variable fs_read : option str -> res str.
  Variable confirm : bool.
  Variable has_ext : nii -> bool.
  Variable with_empty : nii -> nii.
  Variable api_split : nii -> option Z -> res (list nii).
  Variable api_merge : list nii -> option Z -> res nii.
  Variable api_clear_slices : nii -> nii.
  Variable api_const_fmt : str -> nii -> res str.
  Variable api_to_json : nii -> str.
  Variable api_remove_ext : nii -> nii.
  Variable api_append_json : nii -> str -> res nii.
  Variable api_get_meta : nii -> str -> option (list Z) -> res (option str).
  Variable api_sort_val : nii -> str -> res (option Z).
  Variable V : Type.
  Variable of_stored : stored -> V.
  Variable api_ext : nii -> mext V.
  Variable api_set_ext : nii -> mext V -> nii.

  Let cmd := nitool_cmd nii fs_load fs_read confirm has_ext with_empty api_split api_merge api_clear_slices
                        api_const_fmt api_to_json api_remove_ext api_append_json api_get_meta api_sort_val
                        V of_stored api_ext api_set_ext.
  Let wrap := wrap_or_empty nii has_ext with_empty.

  (** split with default names: the i-th result of the API split is written to  dir/00i-name ; the
      names are pairwise distinct *)
  Lemma split_names_default dir fn : forall parts idx,
    exists names, split_names nii api_const_fmt dir fn None idx parts = Ok (combine names parts) /\
                  length names = length parts /\
                  forall k, k < length parts ->
                    nth k names [] = path_join dir (fmt_nat split_zero split_width (idx + k) ++ split_sep ++ fn).
  Proof.
    induction parts as [|p r IH]; intros idx; cbn [split_names truthy].
    - exists []. repeat split. intros k Hk. cbn [length] in Hk. lia.
    - destruct (IH (S idx)) as [names [E [Hl Hn]]]. rewrite E.
      exists (path_join dir (fmt_nat split_zero split_width idx ++ split_sep ++ fn) :: names).
      split; [reflexivity|]. split; [cbn [length]; rewrite Hl; reflexivity|].
      intros [|k] Hk; cbn [nth].
      + rewrite Nat.add_0_r. reflexivity.
      + cbn [length] in Hk. rewrite (Hn k) by lia. replace (S idx + k) with (idx + S k) by lia. reflexivity.
  Qed.

  Lemma nitool_split_default src dim n parts :
    fs_load src = Ok n -> api_split (wrap n) dim = Ok parts ->
    exists names, no_writes nii (cmd (NSplit src dim None)) = combine names parts /\
                  no_status nii (cmd (NSplit src dim None)) = Ok (Some 0%Z) /\
                  length names = length parts /\ NoDup names /\
                  forall k, k < length parts ->
                    nth k names [] = path_join (fst (path_split src))
                                       (fmt_nat split_zero split_width k ++ split_sep ++ snd (path_split src)).
  Proof.
    intros Hl Hs. subst cmd wrap. cbn [nitool_cmd]. destruct (path_split src) as [dir fn]. cbn [fst snd].
    rewrite Hl, Hs. destruct (split_names_default dir fn parts 0) as [names [E [Hlen Hn]]]. rewrite E.
    exists names. cbn [no_writes no_status]. repeat split; try assumption.
    apply (proj2 (NoDup_nth names ([] : str))). intros i j Hi Hj Hij. rewrite Hlen in Hi, Hj.
    rewrite (Hn i Hi), (Hn j Hj) in Hij. cbn [Nat.add] in Hij. exact (split_default_name_inj _ _ _ _ Hij).
  Qed.

  (** merge: the API is called with the loaded images (an empty extension is made where missing), in
      command-line order or sorted by the requested key; its result is written once *)
  Lemma nitool_merge out srcs dim sort (clear : bool) ns :
    load_all nii fs_load has_ext with_empty srcs = Ok ns ->
    forall seq, (match truthy sort with
                 | None => seq = ns
                 | Some k => exists kl, sort_keys nii api_sort_val k ns = Ok kl /\ seq = map fst (sort_by snd kl)
                 end) ->
    forall m nm, api_merge seq dim = Ok m ->
      api_const_fmt out (if clear then api_clear_slices m else m) = Ok nm ->
      no_writes nii (cmd (NMerge out srcs dim sort clear)) = [(nm, if clear then api_clear_slices m else m)] /\
      no_status nii (cmd (NMerge out srcs dim sort clear)) = Ok (Some 0%Z).
  Proof.
    intros Hl seq Hseq m nm Hm Hn. subst cmd. cbn [nitool_cmd]. rewrite Hl.
    destruct (truthy sort) as [k|].
    - destruct Hseq as [kl [Hk ->]]. rewrite Hk, Hm, Hn. split; reflexivity.
    - subst seq. rewrite Hm, Hn. split; reflexivity.
  Qed.

  (** the sorted sequence is a permutation of the inputs in non-decreasing key order *)
  Lemma merge_sorted_sequence k ns kl :
    sort_keys nii api_sort_val k ns = Ok kl ->
    map fst kl = ns /\ Permutation (sort_by snd kl) kl /\ Sorted (key_le _ snd) (sort_by snd kl).
  Proof.
    intros H. split; [|apply sort_by_spec].
    revert kl H. induction ns as [|n r IH]; intros kl H; cbn [sort_keys] in H.
    - injection H as <-. reflexivity.
    - destruct (api_sort_val n k) as [[z|]|e]; try discriminate.
      destruct (sort_keys nii api_sort_val k r) as [t|e]; [|discriminate]. injection H as <-.
      cbn [map fst]. rewrite (IH t eq_refl). reflexivity.
  Qed.

  (** dump prints the JSON of the extension (made empty on request), embed installs the text it reads *)
  Lemma nitool_dump src dest make_empty remove n :
    fs_load src = Ok n -> (has_ext n = true \/ make_empty = true) ->
    let w := if has_ext n then n else with_empty n in
    no_text nii (cmd (NDump src dest make_empty remove)) = [(dest, api_to_json w); (dest, [10%N])] /\
    no_writes nii (cmd (NDump src dest make_empty remove)) = (if remove then [(src, api_remove_ext w)] else []).
  Proof.
    intros Hl Hc. subst cmd. cbn [nitool_cmd]. rewrite Hl.
    destruct (has_ext n); cbn [negb andb]; [split; reflexivity|].
    destruct Hc as [Hc | ->]; [discriminate|]. cbn [negb]. split; reflexivity.
  Qed.

  Lemma nitool_embed src_json dest force n txt n2 :
    fs_load dest = Ok n -> (has_ext n = false \/ force = true \/ confirm = true) ->
    fs_read src_json = Ok txt ->
    api_append_json (if has_ext n then api_remove_ext n else n) txt = Ok n2 ->
    no_writes nii (cmd (NEmbed src_json dest force)) = [(dest, n2)].
  Proof.
    intros Hl Hc Hr Ha. subst cmd. cbn [nitool_cmd]. rewrite Hl.
    assert (Hb : has_ext n && negb force && negb confirm = false).
    { destruct (has_ext n) eqn:E; [|reflexivity]. destruct force; [reflexivity|]. destruct confirm; [reflexivity|].
      destruct Hc as [Hc | [Hc | Hc]]; congruence. }
    rewrite Hb, Hr, Ha. reflexivity.
  Qed.

  (** dump followed by embed --force-overwrite of the dumped text puts back what the library reads
      from that text; with a library whose JSON codec round-trips (C09) the file is unchanged *)
  Lemma nitool_dump_embed p j n :
    fs_load p = Ok n -> has_ext n = true ->
    (* the JSON file holds what dump wrote *)
    fs_read (Some j) = Ok (concat (map snd (no_text nii (cmd (NDump p (Some j) false false))))) ->
    (* round trip of the library's codec on this image *)
    api_append_json (api_remove_ext n) (api_to_json n ++ [10%N]) = Ok n ->
    no_writes nii (cmd (NDump p (Some j) false false)) = [] /\
    no_writes nii (cmd (NEmbed (Some j) p true)) = [(p, n)].
  Proof.
    intros Hl He Hr Hrt.
    destruct (nitool_dump p (Some j) false false n Hl (or_introl He)) as [Ht Hw].
    rewrite Ht in Hr. rewrite He in Hr. cbn [map snd concat] in Hr. rewrite app_nil_r in Hr.
    split; [exact Hw|].
    apply (nitool_embed (Some j) p true n _ n Hl (or_intror (or_introl eq_refl)) Hr).
    rewrite He. exact Hrt.
  Qed.

  (** lookup prints what get_meta returns (and nothing when it returns None) *)
  Lemma nitool_lookup key src n :
    fs_load src = Ok n -> has_ext n = true ->
    forall r, api_get_meta n key None = Ok r ->
    no_text nii (cmd (NLookup key src None)) =
      match r with Some s => [(None, s); (None, [10%N])] | None => [] end /\
    no_writes nii (cmd (NLookup key src None)) = [].
  Proof.
    intros Hl He r Hr. subst cmd. cbn [nitool_cmd truthy]. rewrite Hl, He. cbn [negb]. rewrite Hr.
    destruct r; split; reflexivity.
  Qed.

  (** inject writes the file exactly when [inject] yields an extension *)
  Lemma nitool_inject dest c key values force ty n :
    fs_load dest = Ok n ->
    no_writes nii (cmd (NInject dest c key values force ty)) =
      match inject of_stored (api_ext (wrap n)) c key values ty force with
      | Ok (_, Some e') => [(dest, api_set_ext (wrap n) e')]
      | _ => []
      end.
  Proof.
    intros Hl. subst cmd wrap. cbn [nitool_cmd]. rewrite Hl.
    destruct (inject _ _ _ _ _ _ _) as [[rc [e'|]]|er]; reflexivity.
  Qed.
End Wrappers.
