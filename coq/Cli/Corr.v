(** Correspondence glue for C19: cases carry the parsed options, what the environment answered
    (recorded while the real tools ran) and what the real tools did; [check_*] run the model on the
    same options and environment and compare. *)
From Coq Require Import List Bool Arith ZArith NArith QArith.
From DV Require Import Common.Res Common.Str Common.F64 Common.PyNum Generated.T_cli Generated.T_group Generated.T_extract.
From DV Require Import Cli.Model Cli.Spec.
Import ListNotations.
Local Open Scope nat_scope.

(** ------------------------------------------------------------------ equality tests *)

Fixpoint list_eqb {A B} (eqb : A -> B -> bool) (x : list A) (y : list B) : bool :=
  match x, y with
  | [], [] => true
  | a :: r, b :: s => eqb a b && list_eqb eqb r s
  | _, _ => false
  end.
Definition opt_eqb {A} (eqb : A -> A -> bool) (x y : option A) : bool :=
  match x, y with Some a, Some b => eqb a b | None, None => true | _, _ => false end.
Definition strs_eqb := list_eqb str_eqb.

Definition ordering_eqb (x y : ordering) : bool :=
  str_eqb (o_key x) (o_key y) && opt_eqb strs_eqb (o_abs x) (o_abs y) && Bool.eqb (o_abs_as_str x) (o_abs_as_str y).
Definition translator_eqb (x y : translator) : bool := str_eqb (fst x) (fst y) && tag_eqb (snd x) (snd y).
Definition extractor_eqb (x y : extractor) : bool :=
  match x, y with
  | XMinimal, XMinimal => true
  | XMeta i1 t1, XMeta i2 t2 => strs_eqb i1 i2 && list_eqb translator_eqb t1 t2
  | _, _ => false
  end.

(** ================================================================== part "names" *)

(** the meta data of the first file of each group, in group order, as the real run saw it *)
Record gobs := { gm_num : option mval; gm_name1 : option mval; gm_name2 : option mval; gm_custom : res str }.

Definition ginfo_of (o : gobs) : group_info :=
  {| gi_meta := fun k => if str_eqb k name_num_key then gm_num o
                         else if str_eqb k name_key1 then gm_name1 o
                         else if str_eqb k name_key2 then gm_name2 o else None;
     gi_custom := fun _ => gm_custom o |}.

Record names_case := {
  n_custom : bool;               (* --output-name given *)
  n_ext : str;                   (* --output-ext *)
  n_groups : list gobs;
  n_obs : list str }.            (* the file names the real tool wrote, in order *)

Definition natural_names (custom : bool) (gs : list gobs) : res (list str) :=
  mapM (fun o => if custom then gm_custom o else default_name (ginfo_of o)) gs.

Definition model_names (c : names_case) : res (list str) :=
  match natural_names (n_custom c) (n_groups c) with
  | Err e => Err e
  | Ok nn => match output_names nn with
             | Err e => Err e
             | Ok outs => Ok (map (fun o => o ++ n_ext c) outs)
             end
  end.

Definition check_names (c : names_case) : bool :=
  match model_names c with
  | Ok l => strs_eqb l (n_obs c)
  | Err _ => false
  end.
Definition show_names (c : names_case) := model_names c.

(** ================================================================== part "state" *)

Record file_obs := {
  fb_group : nat; fb_excl : list str; fb_incl : list str;
  fb_time : option ordering; fb_vec : option ordering; fb_warn : bool;
  fb_vo : str; fb_embed : bool;
  fb_path : str; fb_json : option str; fb_has_ext : bool }.

Record dir_obs := {
  db_glob : str; db_paths : list str; db_group_by : list str; db_extractor : extractor;
  db_force : bool; db_warn : bool;
  db_groups : res (list gobs);          (* what parse_and_group returned (or raised) *)
  db_files : list file_obs }.

Inductive out_obs :=
| BVersion
| BTranslators (names : list str)
| BRegexes (pats : list str)                        (* the patterns printed by --default-regexes, headings dropped *)
| BUsage
| BRun (dirs : list dir_obs) (raised : option err).

Record inv_obs := {
  v_args : args;
  v_lines : list (str * list str);                 (* order files: path -> lines *)
  v_stack_err : list (str * nat * err);            (* stack_group raised for (dir, group) *)
  v_nifti_err : list (str * nat * err);            (* to_nifti raised for (dir, group) *)
  v_before : list str * list str;                  (* module exclude / include lists before the call *)
  v_after : list str * list str;
  v_dx_before : extractor;                         (* extract.default_extractor (.ignore_rules, .translators) before / after *)
  v_dx_after : extractor;
  v_out : out_obs }.

Record state_case := { s_invs : list inv_obs }.

Fixpoint assoc_str {A} (k : str) (l : list (str * A)) : option A :=
  match l with
  | [] => None
  | (k', v) :: r => if str_eqb k k' then Some v else assoc_str k r
  end.

Definition dirs_of (o : out_obs) : list dir_obs := match o with BRun ds _ => ds | _ => [] end.

Definition err_for (l : list (str * nat * err)) (d : str) (g : nat) : res unit :=
  match find (fun x => str_eqb (fst (fst x)) d && Nat.eqb (snd (fst x)) g) l with
  | Some (_, e) => Err e
  | None => Ok tt
  end.

Definition inputs_of (v : inv_obs) : inputs :=
  {| i_glob := fun pat => match find (fun d => str_eqb (db_glob d) pat) (dirs_of (v_out v)) with
                          | Some d => db_paths d
                          | None => []
                          end;
     i_lines := fun p => match assoc_str p (v_lines v) with Some l => Ok l | None => Err ECrash end;
     i_groups := fun gc => match find (fun d => strs_eqb (db_paths d) (gc_paths gc)) (dirs_of (v_out v)) with
                           | Some d => match db_groups d with Ok gs => Ok (map ginfo_of gs) | Err e => Err e end
                           | None => Ok []
                           end;
     i_stack := fun sc => err_for (v_stack_err v) (sc_dir sc) (sc_group sc);
     i_nifti := fun sc _ => err_for (v_nifti_err v) (sc_dir sc) (sc_group sc) |}.

Definition file_matches (m : file_out) (o : file_obs) : bool :=
  let sc := fo_stack m in let nc := fo_nifti m in
  Nat.eqb (sc_group sc) (fb_group o) && strs_eqb (sc_excl sc) (fb_excl o) && strs_eqb (sc_incl sc) (fb_incl o)
  && opt_eqb ordering_eqb (sc_time_order sc) (fb_time o) && opt_eqb ordering_eqb (sc_vector_order sc) (fb_vec o)
  && Bool.eqb (sc_warn sc) (fb_warn o)
  && str_eqb (nc_voxel_order nc) (fb_vo o) && Bool.eqb (nc_embed nc) (fb_embed o)
  && str_eqb (fo_path m) (fb_path o) && opt_eqb str_eqb (fo_json_path m) (fb_json o)
  && Bool.eqb (nc_embed nc && negb (fo_strip_ext m)) (fb_has_ext o).

Definition dir_matches (m : dir_out) (o : dir_obs) : bool :=
  let gc := do_group_call m in
  str_eqb (do_glob m) (db_glob o) && strs_eqb (gc_paths gc) (db_paths o) && strs_eqb (gc_group_by gc) (db_group_by o)
  && extractor_eqb (gc_extractor gc) (db_extractor o) && Bool.eqb (gc_force gc) (db_force o)
  && Bool.eqb (gc_warn gc) (db_warn o)
  && list_eqb file_matches (do_files m) (db_files o).

Definition out_matches (m : outputs) (o : out_obs) : bool :=
  match m, o with
  | OVersion _, BVersion => true
  | OTranslators ts, BTranslators names => strs_eqb (map fst ts) names
  | ORegexes e i, BRegexes l => strs_eqb (e ++ i) l || strs_eqb (i ++ e) l
  | OUsage, BUsage => true
  | ORun ds r, BRun ds' r' =>
      (* a directory whose parse_and_group call raised is part of the environment (it answers i_glob / i_groups) but
         yields no directory record in the model: the run stops there *)
      list_eqb dir_matches ds (filter (fun d => match db_groups d with Ok _ => true | Err _ => false end) ds')
      && opt_eqb err_eqb r r'
  | _, _ => false
  end.

Definition lists_match (g : globals) (l : list str * list str) : bool :=
  strs_eqb (g_excl g) (fst l) && strs_eqb (g_incl g) (snd l).
Definition state_match (g : globals) (l : list str * list str) (dx : extractor) : bool :=
  lists_match g l && extractor_eqb (g_default_extractor g) dx.

(** the invocations run one after the other from the state observed before the first one *)
Fixpoint run_check (g : globals) (l : list inv_obs) : bool :=
  match l with
  | [] => true
  | v :: r =>
      let '(g', out) := dcmstack_main g (v_args v) (inputs_of v) in
      state_match g (v_before v) (v_dx_before v) && out_matches out (v_out v)
      && state_match g' (v_after v) (v_dx_after v) && run_check g' r
  end.

Definition start_globals (l : list inv_obs) : globals :=
  match l with
  | v :: _ => set_default_extractor (set_lists (initial_globals []) (fst (v_before v)) (snd (v_before v))) (v_dx_before v)
  | [] => initial_globals []
  end.

Definition check_state (c : state_case) : bool := run_check (start_globals (s_invs c)) (s_invs c).

Fixpoint run_show (g : globals) (l : list inv_obs) : list (list str * list str * extractor * outputs) :=
  match l with
  | [] => []
  | v :: r => let '(g', out) := dcmstack_main g (v_args v) (inputs_of v) in
              (g_excl g', g_incl g', g_default_extractor g', out) :: run_show g' r
  end.
Definition show_state (c : state_case) := run_show (start_globals (s_invs c)) (s_invs c).

(** ================================================================== part "nitool" *)

(** values of an extension as inject sees them: opaque old entries, or what inject stored *)
Inductive xval := XOpaque (id : nat) | XStored (s : stored).

Definition ival_eqb (x y : ival) : bool :=
  match x, y with
  | IVInt a, IVInt b => Z.eqb a b
  | IVFloat a, IVFloat b => fval_eqb a b
  | IVStr a, IVStr b => str_eqb a b
  | _, _ => false
  end.
Definition stored_eqb (x y : stored) : bool :=
  match x, y with
  | SScalar a, SScalar b => ival_eqb a b
  | SList a, SList b => list_eqb ival_eqb a b
  | _, _ => false
  end.

Record inject_case := {
  j_valid : list clsn;
  j_mult : list (clsn * nat);
  j_keys : list (clsn * list str);        (* keys of every valid class dictionary, in order, before *)
  j_cls : clsn; j_key : str; j_values : list str; j_type : option str; j_force : bool;
  (* observation *)
  j_refused : bool;                        (* non-zero exit status or an exception (the property names neither) *)
  j_saved : bool;                          (* the file was rewritten *)
  j_keys_after : list (clsn * list str);
  j_value_after : option stored }.         (* the value found under (class, key) afterwards, when it is one inject can store *)

Fixpoint assoc_cls {A} (c : clsn) (l : list (clsn * A)) : option A :=
  match l with
  | [] => None
  | (c', v) :: r => if clsn_eqb c c' then Some v else assoc_cls c r
  end.

Definition ext_of (c : inject_case) : mext xval :=
  {| x_valid := j_valid c;
     x_mult := fun k => match assoc_cls k (j_mult c) with Some n => n | None => 0 end;
     x_dict := fun k => match assoc_cls k (j_keys c) with
                        | Some ks => map (fun key => (key, XOpaque 0)) ks
                        | None => []
                        end |}.

Definition keys_of (e : mext xval) : list (clsn * list str) := map (fun c => (c, map fst (x_dict e c))) (x_valid e).
(** class dictionaries are compared as maps: same classes in order, same key SETS *)
Definition same_keys (a b : list str) : bool :=
  forallb (fun k => existsb (str_eqb k) b) a && forallb (fun k => existsb (str_eqb k) a) b.
Definition keys_eqb := list_eqb (fun (x y : clsn * list str) => clsn_eqb (fst x) (fst y) && same_keys (snd x) (snd y)).

Definition check_inject (c : inject_case) : bool :=
  match inject XStored (ext_of c) (j_cls c) (j_key c) (j_values c) (j_type c) (j_force c) with
  | Ok (0%Z, Some e') =>
      negb (j_refused c) && j_saved c && keys_eqb (keys_of e') (j_keys_after c)
      && match dict_get (j_key c) (x_dict e' (j_cls c)), j_value_after c with
         | Some (XStored s), Some s' => stored_eqb s s'
         | _, _ => false
         end
  | _ => j_refused c && negb (j_saved c) && keys_eqb (keys_of (ext_of c)) (j_keys_after c)
  end.

Inductive nitool_case :=
| NCInject (c : inject_case)
| NCSplitNames (src : str) (n : nat) (obs : list str)          (* default names of n parts *)
| NCMergeOrder (sorted : bool) (keys : list Z) (obs : list nat)  (* the order in which the inputs were merged (--sort or not) *)
| NCLookup (index : option str) (r : option str) (out : str)   (* get_meta returned r (None, or Some (str value)); captured stdout *)
| NCOracleOnly.                                                 (* dump/embed, file equality: judged by the oracle *)

Fixpoint default_split_names (dir fn : str) (idx n : nat) : list str :=
  match n with
  | O => []
  | S m => path_join dir (fmt_nat split_zero split_width idx ++ split_sep ++ fn) :: default_split_names dir fn (S idx) m
  end.

Fixpoint number_from {A} (i : nat) (l : list A) : list (nat * A) :=
  match l with [] => [] | x :: r => (i, x) :: number_from (S i) r end.

(** what `nitool lookup` writes to stdout when the library's get_meta answers [r]: the model's lookup
    sub-command over a one-point image type *)
Definition lookup_stdout (index : option str) (r : option str) : res str :=
  let o := nitool_cmd unit (fun _ => Ok tt) (fun _ => Err ECrash) false (fun _ => true) (fun n => n)
             (fun _ _ => Err ECrash) (fun _ _ => Err ECrash) (fun n => n) (fun _ _ => Err ECrash) (fun _ => []) (fun n => n)
             (fun _ _ => Err ECrash) (fun _ _ _ => Ok r) (fun _ _ => Err ECrash) xval XStored
             (fun _ => {| x_valid := []; x_mult := fun _ => 0; x_dict := fun _ => [] |}) (fun n _ => n)
             (NLookup [] [] index) in
  match no_status unit o with
  | Ok _ => Ok (concat (map snd (no_text unit o)))
  | Err e => Err e
  end.

Definition check_nitool (c : nitool_case) : bool :=
  match c with
  | NCInject j => check_inject j
  | NCSplitNames src n obs =>
      let '(dir, fn) := path_split src in strs_eqb (default_split_names dir fn 0 n) obs
  | NCMergeOrder sorted keys obs =>
      list_eqb Nat.eqb (map fst (if sorted then sort_by snd (number_from 0 keys) else number_from 0 keys)) obs
  | NCLookup index r out => match lookup_stdout index r with Ok s => str_eqb s out | Err _ => false end
  | NCOracleOnly => true
  end.

Definition show_nitool (c : nitool_case) :=
  match c with
  | NCInject j =>
      match inject XStored (ext_of j) (j_cls j) (j_key j) (j_values j) (j_type j) (j_force j) with
      | Ok (rc, Some e') => (Ok rc, keys_of e', dict_get (j_key j) (x_dict e' (j_cls j)), @nil str, @nil nat)
      | Ok (rc, None) => (Ok rc, keys_of (ext_of j), None, [], [])
      | Err e => (Err e, [], None, [], [])
      end
  | NCSplitNames src n _ => let '(dir, fn) := path_split src in (Ok 0%Z, [], None, default_split_names dir fn 0 n, [])
  | NCMergeOrder sorted keys _ => (Ok 0%Z, [], None, [], map fst (if sorted then sort_by snd (number_from 0 keys) else number_from 0 keys))
  | NCLookup index r _ => (Ok 0%Z, [], None, match lookup_stdout index r with Ok s => [s] | Err _ => [] end, [])
  | NCOracleOnly => (Ok 0%Z, [], None, [], [])
  end.
