(** dcmstack main: no hidden state, the API arguments are the stated functions of the options,
    invocations in one process are independent. *)
From Coq Require Import List Bool Arith ZArith NArith Lia.
From DV Require Import Common.Res Common.Str Common.PyNum Filter.Model Generated.T_cli Cli.Model Cli.Spec Cli.ProofsNames.
Import ListNotations.
Local Open Scope nat_scope.

(** how the source derives the regex lists from the module lists (translated from the AST):
    these two facts are what finding F10 violated *)
Lemma incl_copied_true : incl_copied = true.
Proof. reflexivity. Qed.
Lemma excl_copied_true : excl_copied = true.
Proof. reflexivity. Qed.

Lemma set_lists_id g : set_lists g (g_excl g) (g_incl g) = g.
Proof. destruct g; reflexivity. Qed.

(** ------------------------------------------------------------------ no state *)

Lemma dcmstack_no_state g a i : fst (dcmstack_main g a i) = g.
Proof.
  unfold dcmstack_main.
  destruct (a_version a); [reflexivity|].
  destruct (a_list_translators a); [reflexivity|].
  destruct (a_default_regexes a); [reflexivity|].
  destruct (build_extractor g a) as [x|]; [|reflexivity].
  unfold init_extend. rewrite incl_copied_true, excl_copied_true. cbv beta iota zeta.
  rewrite set_lists_id.
  destruct (build_order i (a_time_var a) (a_time_order a)) as [t_ord|e1]; [|reflexivity].
  destruct (build_order i (a_vector_var a) (a_vector_order a)) as [v_ord|e2]; [|reflexivity].
  destruct (a_src_dirs a) as [|d ds]; [reflexivity|].
  destruct (dir_loop _ _ _ _ _ _ _ _ _) as [dd e]. reflexivity.
Qed.

Lemma nitool_no_state {nii V} (env : nenv nii V) g a : fst (nitool_run env g a) = g.
Proof. reflexivity. Qed.

Lemma run1_no_state {nii V} g (inv : invocation nii V) : fst (run1 g inv) = g.
Proof.
  destruct inv as [a i | env a]; cbn [run1].
  - pose proof (dcmstack_no_state g a i) as H. destruct (dcmstack_main g a i) as [g' o]. exact H.
  - pose proof (nitool_no_state env g a) as H. destruct (nitool_run env g a) as [g' o]. exact H.
Qed.

(** every invocation of a sequence produces what it produces when run alone from the initial state *)
Lemma run_seq_independent {nii V} g (l : list (invocation nii V)) :
  fst (run_seq g l) = g /\ snd (run_seq g l) = map (fun inv => snd (run1 g inv)) l.
Proof.
  induction l as [|inv r IH]; cbn [run_seq map]; [split; reflexivity|].
  pose proof (run1_no_state g inv) as H1. destruct (run1 g inv) as [g1 o]. cbn [fst snd] in *. subst g1.
  destruct (run_seq g r) as [g2 os]. cbn [fst snd] in *. destruct IH as [-> ->]. split; reflexivity.
Qed.

(** ------------------------------------------------------------------ option -> API argument *)

Lemma build_order_spec i var file o : build_order i var file = Ok o -> order_spec i var file o.
Proof.
  unfold build_order, order_spec. destruct (truthy var) as [v|]; [|intros H; injection H as <-; reflexivity].
  destruct (truthy file) as [f|].
  - destruct (i_lines i f) as [ls|e] eqn:El; [|discriminate]. intros H. injection H as <-.
    eexists. split; [reflexivity|]. split; [reflexivity|]. exists ls. repeat split.
  - intros H. injection H as <-. eexists. repeat split.
Qed.

Lemma tag_eqb_eq x y : tag_eqb x y = true <-> x = y.
Proof.
  destruct x as [x1 x2], y as [y1 y2]. unfold tag_eqb. cbn [fst snd].
  rewrite andb_true_iff, !N.eqb_eq. split; [intros [-> ->]; reflexivity | intros H; injection H as -> ->; split; reflexivity].
Qed.

Lemma build_extractor_spec g a x : build_extractor g a = Some x -> extractor_spec g a x.
Proof.
  unfold build_extractor, extractor_spec. destruct (a_embed_meta a || a_dump_meta a); [|intros H; injection H as <-; reflexivity].
  destruct (truthy (a_disable_translator a)) as [s|].
  - destruct (str_eqb (lower_str s) str_all).
    + intros H. injection H as <-. eexists. split; reflexivity.
    + destruct (parse_tags s) as [tags|]; [|discriminate]. intros H. injection H as <-.
      eexists. split; [reflexivity|]. exists tags. split; [reflexivity|]. intros t.
      rewrite filter_In, negb_true_iff. split; intros [H1 H2]; (split; [exact H1|]).
      * intros Hin. assert (existsb (tag_eqb (snd t)) tags = true); [|congruence].
        apply existsb_exists. exists (snd t). split; [exact Hin | apply tag_eqb_eq; reflexivity].
      * destruct (existsb (tag_eqb (snd t)) tags) eqn:E; [|reflexivity]. exfalso. apply H2.
        apply existsb_exists in E as [y [Hy Heq]]. apply tag_eqb_eq in Heq. subst y. exact Hy.
  - intros H. injection H as <-. eexists. split; reflexivity.
Qed.

Section Fields.
  Variable a : args.
  Variable i : inputs.
  Variable excl incl : list str.
  Variable t_ord v_ord : option ordering.

  Definition file_ok (d : str) (f : file_out) : Prop :=
    sc_excl (fo_stack f) = excl /\ sc_incl (fo_stack f) = incl /\
    sc_time_order (fo_stack f) = t_ord /\ sc_vector_order (fo_stack f) = v_ord /\
    sc_warn (fo_stack f) = negb (a_strict a) /\ sc_dir (fo_stack f) = d /\
    nc_voxel_order (fo_nifti f) = a_voxel_order a /\
    nc_embed (fo_nifti f) = (a_embed_meta a || a_dump_meta a) /\
    fo_strip_ext f = (a_dump_meta a && negb (a_embed_meta a)) /\
    fo_path f = path_join (match truthy (a_dest_dir a) with Some dd => dd | None => d end) (fo_name f) /\
    (if a_dump_meta a then exists p, meta_path (fo_path f) = Ok p /\ fo_json_path f = Some p
     else fo_json_path f = None).

  Lemma group_loop_fields : forall groups d gen out_idx gidx files e,
    group_loop a i excl incl t_ord v_ord d gen out_idx gidx groups = (files, e) ->
    forall f, In f files -> file_ok d f.
  Proof.
    induction groups as [|gi rest IH]; intros d gen out_idx gidx files e H f Hf; cbn [group_loop] in H.
    - injection H as <- <-. destruct Hf.
    - destruct (i_stack i _) as [u|er]; [|injection H as <- <-; destruct Hf].
      destruct (natural_name a gi) as [nn|er]; [|injection H as <- <-; destruct Hf].
      destruct (unique_name gen out_idx (sanitize_path_comp nn)) as [out|er]; [|injection H as <- <-; destruct Hf].
      destruct (i_nifti i _ _) as [u'|er]; [|injection H as <- <-; destruct Hf].
      destruct (if a_dump_meta a then _ else _) as [jp|er] eqn:Ej; [|injection H as <- <-; destruct Hf].
      destruct (group_loop a i excl incl t_ord v_ord d (out :: gen) (S out_idx) (S gidx) rest) as [fs e'] eqn:E.
      injection H as <- <-. destruct Hf as [<- | Hf]; [|exact (IH _ _ _ _ _ _ E f Hf)].
      unfold file_ok. cbn [fo_stack fo_nifti fo_name fo_path fo_json_path fo_strip_ext sc_excl sc_incl
                           sc_time_order sc_vector_order sc_warn sc_dir nc_voxel_order nc_embed].
      repeat (split; [reflexivity|]).
      destruct (a_dump_meta a).
      + destruct (meta_path _) as [p|er] eqn:Ep; [|discriminate]. injection Ej as <-. exists p. split; reflexivity.
      + injection Ej as <-. reflexivity.
  Qed.

  Lemma dir_loop_fields : forall dirs group_by x ds e,
    dir_loop a i excl incl t_ord v_ord group_by x dirs = (ds, e) ->
    forall d, In d ds ->
      exists src, In src dirs /\ do_glob d = glob_pattern a src /\
        gc_paths (do_group_call d) = i_glob i (do_glob d) /\
        gc_group_by (do_group_call d) = group_by /\ gc_extractor (do_group_call d) = x /\
        gc_force (do_group_call d) = a_force_read a /\ gc_warn (do_group_call d) = negb (a_strict a) /\
        forall f, In f (do_files d) -> file_ok src f.
  Proof.
    induction dirs as [|d0 rest IH]; intros group_by x ds e H d Hd; cbn [dir_loop] in H.
    - injection H as <- <-. destruct Hd.
    - destruct (i_groups i _) as [groups|er]; [|injection H as <- <-; destruct Hd].
      destruct (group_loop a i excl incl t_ord v_ord d0 [] 0 0 groups) as [files e0] eqn:E.
      assert (Hthis : forall dd, dd = {| do_glob := glob_pattern a d0;
                                         do_group_call := {| gc_paths := i_glob i (glob_pattern a d0); gc_group_by := group_by;
                                                             gc_extractor := x; gc_force := a_force_read a;
                                                             gc_warn := negb (a_strict a) |};
                                         do_files := files |} ->
                exists src, In src (d0 :: rest) /\ do_glob dd = glob_pattern a src /\
                  gc_paths (do_group_call dd) = i_glob i (do_glob dd) /\
                  gc_group_by (do_group_call dd) = group_by /\ gc_extractor (do_group_call dd) = x /\
                  gc_force (do_group_call dd) = a_force_read a /\ gc_warn (do_group_call dd) = negb (a_strict a) /\
                  forall f, In f (do_files dd) -> file_ok src f).
      { intros dd ->. exists d0. cbn [do_glob do_group_call do_files gc_paths gc_group_by gc_extractor gc_force gc_warn].
        split; [left; reflexivity|]. repeat (split; [reflexivity|]). exact (group_loop_fields _ _ _ _ _ _ _ E). }
      destruct e0 as [er|].
      + injection H as <- <-. destruct Hd as [<- | []]. apply Hthis. reflexivity.
      + destruct (dir_loop a i excl incl t_ord v_ord group_by x rest) as [ds' e'] eqn:E'.
        injection H as <- <-. destruct Hd as [<- | Hd]; [apply Hthis; reflexivity|].
        destruct (IH _ _ _ _ E' d Hd) as [src [Hin Hrest]]. exists src. split; [right; exact Hin | exact Hrest].
  Qed.
End Fields.

Lemma dcmstack_args g a i ds e d f :
  snd (dcmstack_main g a i) = ORun ds e -> In d ds -> In f (do_files d) -> args_spec g a i d f.
Proof.
  unfold dcmstack_main.
  destruct (a_version a); [discriminate|].
  destruct (a_list_translators a); [discriminate|].
  destruct (a_default_regexes a); [discriminate|].
  destruct (build_extractor g a) as [x|] eqn:Ex; [|discriminate].
  unfold init_extend. rewrite incl_copied_true, excl_copied_true. cbv beta iota zeta.
  rewrite set_lists_id.
  destruct (build_order i (a_time_var a) (a_time_order a)) as [t_ord|e1] eqn:Et;
    [|cbn [snd]; intros H; injection H as <- <-; intros []].
  destruct (build_order i (a_vector_var a) (a_vector_order a)) as [v_ord|e2] eqn:Ev;
    [|cbn [snd]; intros H; injection H as <- <-; intros []].
  destruct (a_src_dirs a) as [|d0 dirs] eqn:Ed; [discriminate|].
  destruct (dir_loop _ _ _ _ _ _ _ _ _) as [dd e'] eqn:El. cbn [snd]. intros H Hd Hf. injection H as -> ->.
  destruct (dir_loop_fields _ _ _ _ _ _ _ _ _ _ _ El d Hd) as [src [Hsrc [Hg [Hp [Hgb [Hx [Hfo [Hw Hfiles]]]]]]]].
  destruct (Hfiles f Hf) as [F1 [F2 [F3 [F4 [F5 [F6 [F7 [F8 [F9 [F10 F11]]]]]]]]]].
  unfold args_spec. cbv zeta.
  split; [exact F1|]. split; [exact F2|].
  split; [intros m k; unfold filter_of, cli_filter; rewrite F1, F2; reflexivity|].
  split; [rewrite F3; exact (build_order_spec _ _ _ _ Et)|].
  split; [rewrite F4; exact (build_order_spec _ _ _ _ Ev)|].
  split; [exact Hgb|].
  split; [rewrite Hx; exact (build_extractor_spec _ _ _ Ex)|].
  split; [exact Hfo|]. split; [exact Hw|]. split; [exact F5|]. split; [exact Hp|].
  split; [exists src; rewrite Ed; split; [exact Hsrc|]; split; [exact F6|]; split; [exact Hg | exact F10]|].
  split; [exact F7|]. split; [exact F8|]. split; [exact F9|]. exact F11.
Qed.

(** the other exits read the module state but write nothing *)
Lemma dcmstack_default_regexes g a i :
  a_version a = false -> a_list_translators a = false -> a_default_regexes a = true ->
  snd (dcmstack_main g a i) = ORegexes (g_excl g) (g_incl g).
Proof. intros H1 H2 H3. unfold dcmstack_main. rewrite H1, H2, H3. reflexivity. Qed.

(** within one source directory the file names (hence, in one destination, the paths) are distinct *)
Lemma path_join_inj dir x y :
  starts_with_slash x = false -> starts_with_slash y = false -> path_join dir x = path_join dir y -> x = y.
Proof.
  unfold path_join. intros -> ->. destruct (negb (nonempty dir) || ends_with_slash dir); intros H.
  - exact (app_inv_head _ _ _ H).
  - apply app_inv_head in H. injection H as H. exact H.
Qed.

(** inversion of a run: either nothing was attempted, or the directory loop ran with these arguments *)
Lemma dcmstack_run_inv g a i ds e :
  snd (dcmstack_main g a i) = ORun ds e ->
  ds = [] \/
  exists x t_ord v_ord,
    build_extractor g a = Some x /\
    build_order i (a_time_var a) (a_time_order a) = Ok t_ord /\
    build_order i (a_vector_var a) (a_vector_order a) = Ok v_ord /\
    dir_loop a i (g_excl g ++ a_exclude_regex a) (g_incl g ++ a_include_regex a) t_ord v_ord
             (match a_group_by a with Some s => split_on 44%N s | None => g_group_keys g end) x (a_src_dirs a) = (ds, e).
Proof.
  unfold dcmstack_main.
  destruct (a_version a); [discriminate|].
  destruct (a_list_translators a); [discriminate|].
  destruct (a_default_regexes a); [discriminate|].
  destruct (build_extractor g a) as [x|] eqn:Ex; [|discriminate].
  unfold init_extend. rewrite incl_copied_true, excl_copied_true. cbv beta iota zeta.
  rewrite set_lists_id.
  destruct (build_order i (a_time_var a) (a_time_order a)) as [t_ord|e1] eqn:Et;
    [|cbn [snd]; intros H; injection H as <- <-; left; reflexivity].
  destruct (build_order i (a_vector_var a) (a_vector_order a)) as [v_ord|e2] eqn:Ev;
    [|cbn [snd]; intros H; injection H as <- <-; left; reflexivity].
  destruct (a_src_dirs a) as [|d0 dirs] eqn:Ed; [discriminate|].
  destruct (dir_loop _ _ _ _ _ _ _ _ _) as [dd e'] eqn:El. cbn [snd]. intros H. injection H as -> ->.
  right. exists x, t_ord, v_ord. repeat split. exact El.
Qed.

(** the names written for one source directory are pairwise distinct (from ProofsNames) *)
Lemma dcmstack_names_distinct g a i ds e d :
  snd (dcmstack_main g a i) = ORun ds e -> In d ds -> NoDup (map fo_name (do_files d)).
Proof.
  intros H Hd. destruct (dcmstack_run_inv _ _ _ _ _ H) as [-> | [x [t_ord [v_ord [_ [_ [_ El]]]]]]]; [destruct Hd|].
  exact (ProofsNames.dir_loop_names _ _ _ _ _ _ _ _ _ _ _ El d Hd).
Qed.

(** ... and so are the paths, when the extension does not begin with '/' *)
Lemma sanitize_no_slash s : forallb (fun c => negb (N.eqb c slash)) (sanitize_path_comp s) = true.
Proof.
  unfold sanitize_path_comp. induction s as [|c r IH]; cbn [map forallb]; [reflexivity|]. rewrite IH, andb_true_r.
  destruct (keep_char c) eqn:E.
  - destruct (N.eqb_spec c slash) as [->|Hne]; [rewrite ProofsNames.slash_not_kept in E; discriminate | reflexivity].
  - rewrite ProofsNames.repl_not_slash. reflexivity.
Qed.

Lemma starts_with_slash_app x y :
  starts_with_slash (x ++ y) = match x with [] => starts_with_slash y | _ => starts_with_slash x end.
Proof. destruct x; reflexivity. Qed.

Lemma suffix_no_lead_slash k : starts_with_slash (suffix k) = false.
Proof.
  unfold suffix. pose proof ProofsNames.sfx_prefix_no_slash as H.
  destruct sfx_prefix as [|c r]; [destruct H|]. cbn [app starts_with_slash]. exact H.
Qed.

Lemma unique_no_lead_slash gen out_idx nn out :
  unique_name gen out_idx (sanitize_path_comp nn) = Ok out -> starts_with_slash out = false.
Proof.
  intros H. destruct (ProofsNames.unique_name_ok gen out_idx (sanitize_path_comp nn)) as [out' [H1 [_ H2]]].
  rewrite H in H1. injection H1 as <-.
  assert (Hfn : starts_with_slash (sanitize_path_comp nn) = false).
  { pose proof (sanitize_no_slash nn) as Hs. destruct (sanitize_path_comp nn) as [|c r]; [reflexivity|].
    cbn [forallb] in Hs. apply andb_true_iff in Hs as [Hc _]. cbn [starts_with_slash].
    destruct (N.eqb c slash); [discriminate | reflexivity]. }
  destruct H2 as [[_ ->] | [_ [k [-> _]]]]; [exact Hfn|].
  rewrite starts_with_slash_app. destruct (sanitize_path_comp nn); [apply suffix_no_lead_slash | exact Hfn].
Qed.

Section Paths.
  Variable a : args.
  Variable i : inputs.
  Variable excl incl : list str.
  Variable t_ord v_ord : option ordering.
  Hypothesis ext_ok : starts_with_slash (a_output_ext a) = false.

  Lemma group_loop_no_lead_slash : forall groups d gen out_idx gidx files e,
    group_loop a i excl incl t_ord v_ord d gen out_idx gidx groups = (files, e) ->
    forall f, In f files -> starts_with_slash (fo_name f) = false.
  Proof.
    induction groups as [|gi rest IH]; intros d gen out_idx gidx files e H f Hf; cbn [group_loop] in H.
    - injection H as <- <-. destruct Hf.
    - destruct (i_stack i _) as [u|er]; [|injection H as <- <-; destruct Hf].
      destruct (natural_name a gi) as [nn|er]; [|injection H as <- <-; destruct Hf].
      destruct (unique_name gen out_idx (sanitize_path_comp nn)) as [out|er] eqn:Eu; [|injection H as <- <-; destruct Hf].
      destruct (i_nifti i _ _) as [u'|er]; [|injection H as <- <-; destruct Hf].
      destruct (if a_dump_meta a then _ else _) as [jp|er]; [|injection H as <- <-; destruct Hf].
      destruct (group_loop a i excl incl t_ord v_ord d (out :: gen) (S out_idx) (S gidx) rest) as [fs e'] eqn:E.
      injection H as <- <-. destruct Hf as [<- | Hf]; [|exact (IH _ _ _ _ _ _ E f Hf)].
      cbn [fo_name]. rewrite starts_with_slash_app. pose proof (unique_no_lead_slash _ _ _ _ Eu) as Ho.
      destruct out; [exact ext_ok | exact Ho].
  Qed.

  Lemma group_loop_paths_distinct groups d files e :
    group_loop a i excl incl t_ord v_ord d [] 0 0 groups = (files, e) -> NoDup (map fo_path files).
  Proof.
    intros H.
    pose proof (ProofsNames.group_loop_names_distinct _ _ _ _ _ _ _ _ _ _ H) as Hnd.
    pose proof (group_loop_fields _ _ _ _ _ _ _ _ _ _ _ _ _ H) as Hf.
    pose proof (group_loop_no_lead_slash _ _ _ _ _ _ _ H) as Hs.
    assert (Hm : map fo_path files =
                 map (fun f => path_join (match truthy (a_dest_dir a) with Some dd => dd | None => d end) (fo_name f)) files).
    { apply map_ext_in. intros f Hin. destruct (Hf f Hin) as [_ [_ [_ [_ [_ [_ [_ [_ [_ [Hp _]]]]]]]]]]. exact Hp. }
    rewrite Hm, <- (map_map fo_name (path_join _)).
    apply ProofsNames.NoDup_map_inj; [|exact Hnd].
    intros x y Hx Hy. apply in_map_iff in Hx as [fx [<- Hfx]]. apply in_map_iff in Hy as [fy [<- Hfy]].
    apply path_join_inj; [exact (Hs fx Hfx) | exact (Hs fy Hfy)].
  Qed.

  Lemma dir_loop_paths_distinct : forall dirs group_by x ds e,
    dir_loop a i excl incl t_ord v_ord group_by x dirs = (ds, e) ->
    forall d, In d ds -> NoDup (map fo_path (do_files d)).
  Proof.
    induction dirs as [|d0 rest IH]; intros group_by x ds e H d Hd; cbn [dir_loop] in H.
    - injection H as <- <-. destruct Hd.
    - destruct (i_groups i _) as [groups|er]; [|injection H as <- <-; destruct Hd].
      destruct (group_loop a i excl incl t_ord v_ord d0 [] 0 0 groups) as [files e0] eqn:E.
      destruct e0 as [er|].
      + injection H as <- <-. destruct Hd as [<- | []]. cbn [do_files]. exact (group_loop_paths_distinct _ _ _ _ E).
      + destruct (dir_loop a i excl incl t_ord v_ord group_by x rest) as [ds' e'] eqn:E'.
        injection H as <- <-. destruct Hd as [<- | Hd].
        * cbn [do_files]. exact (group_loop_paths_distinct _ _ _ _ E).
        * exact (IH _ _ _ _ E' d Hd).
  Qed.
End Paths.

Lemma dcmstack_paths_distinct g a i ds e d :
  starts_with_slash (a_output_ext a) = false ->
  snd (dcmstack_main g a i) = ORun ds e -> In d ds -> NoDup (map fo_path (do_files d)).
Proof.
  intros Hext H Hd. destruct (dcmstack_run_inv _ _ _ _ _ H) as [-> | [x [t_ord [v_ord [_ [_ [_ El]]]]]]]; [destruct Hd|].
  exact (dir_loop_paths_distinct _ _ _ _ _ _ Hext _ _ _ _ _ El d Hd).
Qed.

(** as many files as groups when nothing raised *)
Lemma dcmstack_one_per_group g a i ds d :
  snd (dcmstack_main g a i) = ORun ds None -> In d ds ->
  exists groups, i_groups i (do_group_call d) = Ok groups /\ length (do_files d) = length groups.
Proof.
  intros H Hd. destruct (dcmstack_run_inv _ _ _ _ _ H) as [-> | [x [t_ord [v_ord [_ [_ [_ El]]]]]]]; [destruct Hd|].
  clear H. revert El d Hd. generalize (a_src_dirs a) as dl.
  generalize (match a_group_by a with Some s => split_on 44%N s | None => g_group_keys g end) as gb.
  intros gb dl. revert ds. induction dl as [|d0 rest IH]; intros ds El d Hd; cbn [dir_loop] in El.
  - injection El as <-. destruct Hd.
  - destruct (i_groups i _) as [groups|er] eqn:Eg; [|discriminate].
    destruct (group_loop _ _ _ _ _ _ d0 [] 0 0 groups) as [files e0] eqn:E.
    destruct e0 as [er|]; [discriminate|].
    destruct (dir_loop _ _ _ _ _ _ gb x rest) as [ds' e'] eqn:E'.
    injection El as <- ->. destruct Hd as [<- | Hd].
    + exists groups. cbn [do_group_call do_files]. split; [exact Eg|].
      destruct (ProofsNames.group_loop_names _ _ _ _ _ _ _ _ _ _ _ _ _ E) as [outs [_ [_ [_ Hl]]]]. exact (Hl eq_refl).
    + exact (IH _ eq_refl d Hd).
Qed.
