(** dcmstack main: no hidden state, the API arguments are the stated functions of the options,
    invocations in one process are independent. *)
From Coq Require Import List Bool Arith ZArith NArith Lia.
From DV Require Import Common.Res Common.Str Common.PyNum Filter.Model Filter.Proofs Generated.T_cli Cli.Model Cli.Spec Cli.ProofsNames.
Import ListNotations.
Local Open Scope nat_scope.

(** how the source derives the regex lists from the module lists (translated from the AST):
    these two facts are what finding F10 violated *)
Lemma incl_copied_true : incl_copied = true.
Proof. reflexivity. Qed.
Lemma excl_copied_true : excl_copied = true.
Proof. reflexivity. Qed.

Lemma extractor_fresh_true : extractor_fresh = true.
Proof. reflexivity. Qed.

Lemma set_lists_id g : set_lists g (g_excl g) (g_incl g) = g.
Proof. destruct g; reflexivity. Qed.

(** main builds its own MetaExtractor: the shared default extractor is left alone *)
Lemma after_extractor_id g x : after_extractor g x = g.
Proof. unfold after_extractor. rewrite extractor_fresh_true. reflexivity. Qed.

(** ------------------------------------------------------------------ no state *)

Lemma dcmstack_no_state g a i : fst (dcmstack_main g a i) = g.
Proof.
  unfold dcmstack_main.
  destruct (a_version a); [reflexivity|].
  destruct (a_list_translators a); [reflexivity|].
  destruct (a_default_regexes a); [reflexivity|].
  destruct (build_extractor g a) as [x|]; [|reflexivity].
  rewrite after_extractor_id. unfold init_extend. rewrite incl_copied_true, excl_copied_true. cbv beta iota zeta.
  rewrite set_lists_id.
  destruct (build_order i (a_time_var a) (a_time_order a)) as [t_ord|e1]; [|reflexivity].
  destruct (build_order i (a_vector_var a) (a_vector_order a)) as [v_ord|e2]; [|reflexivity].
  destruct (a_src_dirs a) as [|d ds]; [reflexivity|].
  destruct (dir_loop _ _ _ _ _ _ _ _ _ _) as [dd e]. reflexivity.
Qed.

Lemma nitool_no_state {nii V} (env : nenv nii V) g a : fst (nitool_run env g a) = g.
Proof. reflexivity. Qed.

Lemma run1_no_state {nii V} g (inv : invocation nii V) : fst (run1 g inv) = g.
Proof.
  destruct inv as [a i | env a]; cbn [run1].
  - pose proof (dcmstack_no_state g a i) as H. destruct (dcmstack_main g a i) as [g' o]. exact H.
  - pose proof (nitool_no_state env g a) as H. destruct (nitool_run env g a) as [g' o]. exact H.
Qed.

(** every invocation of a sequence produces what it produces when run alone from the initial state *)
Lemma run_seq_independent {nii V} g (l : list (invocation nii V)) :
  fst (run_seq g l) = g /\ snd (run_seq g l) = map (fun inv => snd (run1 g inv)) l.
Proof.
  induction l as [|inv r IH]; cbn [run_seq map]; [split; reflexivity|].
  pose proof (run1_no_state g inv) as H1. destruct (run1 g inv) as [g1 o]. cbn [fst snd] in *. subst g1.
  destruct (run_seq g r) as [g2 os]. cbn [fst snd] in *. destruct IH as [-> ->]. split; reflexivity.
Qed.

(** ------------------------------------------------------------------ option -> API argument *)

Lemma build_order_spec i var file o : build_order i var file = Ok o -> order_spec i var file o.
Proof.
  unfold build_order, order_spec. destruct (truthy var) as [v|]; [|intros H; injection H as <-; reflexivity].
  destruct (truthy file) as [f|].
  - destruct (i_lines i f) as [ls|e] eqn:El; [|discriminate]. intros H. injection H as <-.
    eexists. split; [reflexivity|]. split; [reflexivity|]. exists ls. repeat split.
  - intros H. injection H as <-. eexists. repeat split.
Qed.

Lemma tag_eqb_eq x y : tag_eqb x y = true <-> x = y.
Proof.
  destruct x as [x1 x2], y as [y1 y2]. unfold tag_eqb. cbn [fst snd].
  rewrite andb_true_iff, !N.eqb_eq. split; [intros [-> ->]; reflexivity | intros H; injection H as -> ->; split; reflexivity].
Qed.

Lemma build_extractor_spec g a x : build_extractor g a = Some x -> extractor_spec g a x.
Proof.
  unfold build_extractor, extractor_spec. destruct (a_embed_meta a || a_dump_meta a); [|intros H; injection H as <-; reflexivity].
  destruct (truthy (a_disable_translator a)) as [s|].
  - destruct (str_eqb (lower_str s) str_all).
    + intros H. injection H as <-. eexists. split; reflexivity.
    + destruct (parse_tags s) as [tags|]; [|discriminate]. intros H. injection H as <-.
      eexists. split; [reflexivity|]. exists tags. split; [reflexivity|]. intros t.
      rewrite filter_In, negb_true_iff. split; intros [H1 H2]; (split; [exact H1|]).
      * intros Hin. assert (existsb (tag_eqb (snd t)) tags = true); [|congruence].
        apply existsb_exists. exists (snd t). split; [exact Hin | apply tag_eqb_eq; reflexivity].
      * destruct (existsb (tag_eqb (snd t)) tags) eqn:E; [|reflexivity]. exfalso. apply H2.
        apply existsb_exists in E as [y [Hy Heq]]. apply tag_eqb_eq in Heq. subst y. exact Hy.
  - intros H. injection H as <-. eexists. split; reflexivity.
Qed.

Section Fields.
  Variable a : args.
  Variable i : inputs.
  Variable excl incl : list str.
  Variable t_ord v_ord : option ordering.

  Definition file_ok (d : str) (f : file_out) : Prop :=
    sc_excl (fo_stack f) = excl /\ sc_incl (fo_stack f) = incl /\
    sc_time_order (fo_stack f) = t_ord /\ sc_vector_order (fo_stack f) = v_ord /\
    sc_warn (fo_stack f) = negb (a_strict a) /\ sc_dir (fo_stack f) = d /\
    nc_voxel_order (fo_nifti f) = a_voxel_order a /\
    nc_embed (fo_nifti f) = (a_embed_meta a || a_dump_meta a) /\
    fo_strip_ext f = (a_dump_meta a && negb (a_embed_meta a)) /\
    fo_path f = path_join (match truthy (a_dest_dir a) with Some dd => dd | None => d end) (fo_name f) /\
    (if a_dump_meta a then exists p, meta_path (fo_path f) = Ok p /\ fo_json_path f = Some p
     else fo_json_path f = None).

  Lemma group_loop_fields : forall groups d gen out_idx gidx files e gen',
    group_loop a i excl incl t_ord v_ord d gen out_idx gidx groups = (files, e, gen') ->
    forall f, In f files -> file_ok d f.
  Proof.
    induction groups as [|gi rest IH]; intros d gen out_idx gidx files e gen' H f Hf; cbn [group_loop] in H.
    - injection H as <- <- <-. destruct Hf.
    - destruct (i_stack i _) as [u|er]; [|injection H as <- <- <-; destruct Hf].
      destruct (natural_name a gi) as [nn|er]; [|injection H as <- <- <-; destruct Hf].
      destruct (unique_name gen out_idx (sanitize_path_comp nn)) as [out|er]; [|injection H as <- <- <-; destruct Hf].
      destruct (i_nifti i _ _) as [u'|er]; [|injection H as <- <- <-; destruct Hf].
      destruct (if a_dump_meta a then _ else _) as [jp|er] eqn:Ej; [|injection H as <- <- <-; destruct Hf].
      destruct (group_loop a i excl incl t_ord v_ord d (out :: gen) (S out_idx) (S gidx) rest) as [[fs e'] g1] eqn:E.
      injection H as <- <- <-. destruct Hf as [<- | Hf]; [|exact (IH _ _ _ _ _ _ _ E f Hf)].
      unfold file_ok. cbn [fo_stack fo_nifti fo_name fo_path fo_json_path fo_strip_ext sc_excl sc_incl
                           sc_time_order sc_vector_order sc_warn sc_dir nc_voxel_order nc_embed].
      repeat (split; [reflexivity|]).
      destruct (a_dump_meta a).
      + destruct (meta_path _) as [p|er] eqn:Ep; [|discriminate]. injection Ej as <-. exists p. split; reflexivity.
      + injection Ej as <-. reflexivity.
  Qed.

  Lemma dir_loop_fields : forall dirs group_by x shared ds e,
    dir_loop a i excl incl t_ord v_ord group_by x shared dirs = (ds, e) ->
    forall d, In d ds ->
      exists src, In src dirs /\ do_glob d = glob_pattern a src /\
        gc_paths (do_group_call d) = i_glob i (do_glob d) /\
        gc_group_by (do_group_call d) = group_by /\ gc_extractor (do_group_call d) = x /\
        gc_force (do_group_call d) = a_force_read a /\ gc_warn (do_group_call d) = negb (a_strict a) /\
        forall f, In f (do_files d) -> file_ok src f.
  Proof.
    induction dirs as [|d0 rest IH]; intros group_by x shared ds e H d Hd; cbn [dir_loop] in H.
    - injection H as <- <-. destruct Hd.
    - destruct (i_groups i _) as [groups|er]; [|injection H as <- <-; destruct Hd].
      destruct (group_loop a i excl incl t_ord v_ord d0 _ 0 0 groups) as [[files e0] g1] eqn:E.
      assert (Hthis : forall dd, dd = {| do_glob := glob_pattern a d0;
                                         do_group_call := {| gc_paths := i_glob i (glob_pattern a d0); gc_group_by := group_by;
                                                             gc_extractor := x; gc_force := a_force_read a;
                                                             gc_warn := negb (a_strict a) |};
                                         do_files := files |} ->
                exists src, In src (d0 :: rest) /\ do_glob dd = glob_pattern a src /\
                  gc_paths (do_group_call dd) = i_glob i (do_glob dd) /\
                  gc_group_by (do_group_call dd) = group_by /\ gc_extractor (do_group_call dd) = x /\
                  gc_force (do_group_call dd) = a_force_read a /\ gc_warn (do_group_call dd) = negb (a_strict a) /\
                  forall f, In f (do_files dd) -> file_ok src f).
      { intros dd ->. exists d0. cbn [do_glob do_group_call do_files gc_paths gc_group_by gc_extractor gc_force gc_warn].
        split; [left; reflexivity|]. repeat (split; [reflexivity|]). exact (group_loop_fields _ _ _ _ _ _ _ _ E). }
      destruct e0 as [er|].
      + injection H as <- <-. destruct Hd as [<- | []]. apply Hthis. reflexivity.
      + destruct (dir_loop a i excl incl t_ord v_ord group_by x _ rest) as [ds' e'] eqn:E'.
        injection H as <- <-. destruct Hd as [<- | Hd]; [apply Hthis; reflexivity|].
        destruct (IH _ _ _ _ _ E' d Hd) as [src [Hin Hrest]]. exists src. split; [right; exact Hin | exact Hrest].
  Qed.
End Fields.

Lemma dcmstack_args g a i ds e d f :
  snd (dcmstack_main g a i) = ORun ds e -> In d ds -> In f (do_files d) -> args_spec g a i d f.
Proof.
  unfold dcmstack_main.
  destruct (a_version a); [discriminate|].
  destruct (a_list_translators a); [discriminate|].
  destruct (a_default_regexes a); [discriminate|].
  destruct (build_extractor g a) as [x|] eqn:Ex; [|discriminate].
  rewrite after_extractor_id. unfold init_extend. rewrite incl_copied_true, excl_copied_true. cbv beta iota zeta.
  rewrite set_lists_id.
  destruct (build_order i (a_time_var a) (a_time_order a)) as [t_ord|e1] eqn:Et;
    [|cbn [snd]; intros H; injection H as <- <-; intros []].
  destruct (build_order i (a_vector_var a) (a_vector_order a)) as [v_ord|e2] eqn:Ev;
    [|cbn [snd]; intros H; injection H as <- <-; intros []].
  destruct (a_src_dirs a) as [|d0 dirs] eqn:Ed; [discriminate|].
  destruct (dir_loop _ _ _ _ _ _ _ _ _ _) as [dd e'] eqn:El. cbn [snd]. intros H Hd Hf. injection H as -> ->.
  destruct (dir_loop_fields _ _ _ _ _ _ _ _ _ _ _ _ El d Hd) as [src [Hsrc [Hg [Hp [Hgb [Hx [Hfo [Hw Hfiles]]]]]]]].
  destruct (Hfiles f Hf) as [F1 [F2 [F3 [F4 [F5 [F6 [F7 [F8 [F9 [F10 F11]]]]]]]]]].
  unfold args_spec. cbv zeta.
  split; [exact F1|]. split; [exact F2|].
  split; [intros m k; unfold filter_of, cli_filter; rewrite F1, F2; reflexivity|].
  split; [rewrite F3; exact (build_order_spec _ _ _ _ Et)|].
  split; [rewrite F4; exact (build_order_spec _ _ _ _ Ev)|].
  split; [exact Hgb|].
  split; [rewrite Hx; exact (build_extractor_spec _ _ _ Ex)|].
  split; [exact Hfo|]. split; [exact Hw|]. split; [exact F5|]. split; [exact Hp|].
  split; [exists src; rewrite Ed; split; [exact Hsrc|]; split; [exact F6|]; split; [exact Hg | exact F10]|].
  split; [exact F7|]. split; [exact F8|]. split; [exact F9|]. exact F11.
Qed.

(** the filter every stack is built with is exclude-unless-included over defaults plus options *)
Lemma dcmstack_filter_sem (matches : str -> str -> bool) g a i ds e d f key :
  snd (dcmstack_main g a i) = ORun ds e -> In d ds -> In f (do_files d) ->
  g_excl g <> [] -> g_incl g <> [] ->
  (filter_of matches (fo_stack f) key = true <->
   (exists p, (In p (g_excl g) \/ In p (a_exclude_regex a)) /\ matches p key = true) /\
   ~ (exists p, (In p (g_incl g) \/ In p (a_include_regex a)) /\ matches p key = true)).
Proof.
  intros H Hd Hf He Hi.
  destruct (dcmstack_args g a i ds e d f H Hd Hf) as [_ [_ [Hfil _]]]. rewrite Hfil.
  exact (Filter.Proofs.cli_filter_sem matches _ _ _ _ key He Hi).
Qed.

(** the other exits read the module state but write nothing *)
Lemma dcmstack_default_regexes g a i :
  a_version a = false -> a_list_translators a = false -> a_default_regexes a = true ->
  snd (dcmstack_main g a i) = ORegexes (g_excl g) (g_incl g).
Proof. intros H1 H2 H3. unfold dcmstack_main. rewrite H1, H2, H3. reflexivity. Qed.

(** within one source directory the file names (hence, in one destination, the paths) are distinct *)
Lemma path_join_inj dir x y :
  starts_with_slash x = false -> starts_with_slash y = false -> path_join dir x = path_join dir y -> x = y.
Proof.
  unfold path_join. intros -> ->. destruct (negb (nonempty dir) || ends_with_slash dir); intros H.
  - exact (app_inv_head _ _ _ H).
  - apply app_inv_head in H. injection H as H. exact H.
Qed.

(** inversion of a run: either nothing was attempted, or the directory loop ran with these arguments *)
Lemma dcmstack_run_inv g a i ds e :
  snd (dcmstack_main g a i) = ORun ds e ->
  ds = [] \/
  exists x t_ord v_ord,
    build_extractor g a = Some x /\
    build_order i (a_time_var a) (a_time_order a) = Ok t_ord /\
    build_order i (a_vector_var a) (a_vector_order a) = Ok v_ord /\
    dir_loop a i (g_excl g ++ a_exclude_regex a) (g_incl g ++ a_include_regex a) t_ord v_ord
             (match a_group_by a with Some s => split_on 44%N s | None => g_group_keys g end) x [] (a_src_dirs a) = (ds, e).
Proof.
  unfold dcmstack_main.
  destruct (a_version a); [discriminate|].
  destruct (a_list_translators a); [discriminate|].
  destruct (a_default_regexes a); [discriminate|].
  destruct (build_extractor g a) as [x|] eqn:Ex; [|discriminate].
  rewrite after_extractor_id. unfold init_extend. rewrite incl_copied_true, excl_copied_true. cbv beta iota zeta.
  rewrite set_lists_id.
  destruct (build_order i (a_time_var a) (a_time_order a)) as [t_ord|e1] eqn:Et;
    [|cbn [snd]; intros H; injection H as <- <-; left; reflexivity].
  destruct (build_order i (a_vector_var a) (a_vector_order a)) as [v_ord|e2] eqn:Ev;
    [|cbn [snd]; intros H; injection H as <- <-; left; reflexivity].
  destruct (a_src_dirs a) as [|d0 dirs] eqn:Ed; [discriminate|].
  destruct (dir_loop _ _ _ _ _ _ _ _ _ _) as [dd e'] eqn:El. cbn [snd]. intros H. injection H as -> ->.
  right. exists x, t_ord, v_ord. repeat split. exact El.
Qed.

(** the names written for one source directory are pairwise distinct (from ProofsNames) *)
Lemma dcmstack_names_distinct g a i ds e d :
  snd (dcmstack_main g a i) = ORun ds e -> In d ds -> NoDup (map fo_name (do_files d)).
Proof.
  intros H Hd. destruct (dcmstack_run_inv _ _ _ _ _ H) as [-> | [x [t_ord [v_ord [_ [_ [_ El]]]]]]]; [destruct Hd|].
  exact (ProofsNames.dir_loop_names _ _ _ _ _ _ _ _ _ _ _ _ El d Hd).
Qed.

(** ... and so are the paths, when the extension does not begin with '/' *)
Lemma sanitize_no_slash s : forallb (fun c => negb (N.eqb c slash)) (sanitize_path_comp s) = true.
Proof.
  unfold sanitize_path_comp. induction s as [|c r IH]; cbn [map forallb]; [reflexivity|]. rewrite IH, andb_true_r.
  destruct (keep_char c) eqn:E.
  - destruct (N.eqb_spec c slash) as [->|Hne]; [rewrite ProofsNames.slash_not_kept in E; discriminate | reflexivity].
  - rewrite ProofsNames.repl_not_slash. reflexivity.
Qed.

Lemma starts_with_slash_app x y :
  starts_with_slash (x ++ y) = match x with [] => starts_with_slash y | _ => starts_with_slash x end.
Proof. destruct x; reflexivity. Qed.

Lemma suffix_no_lead_slash k : starts_with_slash (suffix k) = false.
Proof.
  unfold suffix. pose proof ProofsNames.sfx_prefix_no_slash as H.
  destruct sfx_prefix as [|c r]; [destruct H|]. cbn [app starts_with_slash]. exact H.
Qed.

Lemma unique_no_lead_slash gen out_idx nn out :
  unique_name gen out_idx (sanitize_path_comp nn) = Ok out -> starts_with_slash out = false.
Proof.
  intros H. destruct (ProofsNames.unique_name_ok gen out_idx (sanitize_path_comp nn)) as [out' [H1 [_ H2]]].
  rewrite H in H1. injection H1 as <-.
  assert (Hfn : starts_with_slash (sanitize_path_comp nn) = false).
  { pose proof (sanitize_no_slash nn) as Hs. destruct (sanitize_path_comp nn) as [|c r]; [reflexivity|].
    cbn [forallb] in Hs. apply andb_true_iff in Hs as [Hc _]. cbn [starts_with_slash].
    destruct (N.eqb c slash); [discriminate | reflexivity]. }
  destruct H2 as [[_ ->] | [_ [k [-> _]]]]; [exact Hfn|].
  rewrite starts_with_slash_app. destruct (sanitize_path_comp nn); [apply suffix_no_lead_slash | exact Hfn].
Qed.

Section Paths.
  Variable a : args.
  Variable i : inputs.
  Variable excl incl : list str.
  Variable t_ord v_ord : option ordering.
  Hypothesis ext_ok : starts_with_slash (a_output_ext a) = false.

  Lemma group_loop_no_lead_slash : forall groups d gen out_idx gidx files e gen',
    group_loop a i excl incl t_ord v_ord d gen out_idx gidx groups = (files, e, gen') ->
    forall f, In f files -> starts_with_slash (fo_name f) = false.
  Proof.
    induction groups as [|gi rest IH]; intros d gen out_idx gidx files e gen' H f Hf; cbn [group_loop] in H.
    - injection H as <- <- <-. destruct Hf.
    - destruct (i_stack i _) as [u|er]; [|injection H as <- <- <-; destruct Hf].
      destruct (natural_name a gi) as [nn|er]; [|injection H as <- <- <-; destruct Hf].
      destruct (unique_name gen out_idx (sanitize_path_comp nn)) as [out|er] eqn:Eu; [|injection H as <- <- <-; destruct Hf].
      destruct (i_nifti i _ _) as [u'|er]; [|injection H as <- <- <-; destruct Hf].
      destruct (if a_dump_meta a then _ else _) as [jp|er]; [|injection H as <- <- <-; destruct Hf].
      destruct (group_loop a i excl incl t_ord v_ord d (out :: gen) (S out_idx) (S gidx) rest) as [[fs e'] g1] eqn:E.
      injection H as <- <- <-. destruct Hf as [<- | Hf]; [|exact (IH _ _ _ _ _ _ _ E f Hf)].
      cbn [fo_name]. rewrite starts_with_slash_app. pose proof (unique_no_lead_slash _ _ _ _ Eu) as Ho.
      destruct out; [exact ext_ok | exact Ho].
  Qed.

  Lemma group_loop_paths_distinct groups d gen files e gen' :
    group_loop a i excl incl t_ord v_ord d gen 0 0 groups = (files, e, gen') -> NoDup (map fo_path files).
  Proof.
    intros H.
    pose proof (ProofsNames.group_loop_names_distinct _ _ _ _ _ _ _ _ _ _ _ _ H) as Hnd.
    pose proof (group_loop_fields _ _ _ _ _ _ _ _ _ _ _ _ _ _ H) as Hf.
    pose proof (group_loop_no_lead_slash _ _ _ _ _ _ _ _ H) as Hs.
    assert (Hm : map fo_path files =
                 map (fun f => path_join (match truthy (a_dest_dir a) with Some dd => dd | None => d end) (fo_name f)) files).
    { apply map_ext_in. intros f Hin. destruct (Hf f Hin) as [_ [_ [_ [_ [_ [_ [_ [_ [_ [Hp _]]]]]]]]]]. exact Hp. }
    rewrite Hm, <- (map_map fo_name (path_join _)).
    apply ProofsNames.NoDup_map_inj; [|exact Hnd].
    intros x y Hx Hy. apply in_map_iff in Hx as [fx [<- Hfx]]. apply in_map_iff in Hy as [fy [<- Hfy]].
    apply path_join_inj; [exact (Hs fx Hfx) | exact (Hs fy Hfy)].
  Qed.

  Lemma dir_loop_paths_distinct : forall dirs group_by x shared ds e,
    dir_loop a i excl incl t_ord v_ord group_by x shared dirs = (ds, e) ->
    forall d, In d ds -> NoDup (map fo_path (do_files d)).
  Proof.
    induction dirs as [|d0 rest IH]; intros group_by x shared ds e H d Hd; cbn [dir_loop] in H.
    - injection H as <- <-. destruct Hd.
    - destruct (i_groups i _) as [groups|er]; [|injection H as <- <-; destruct Hd].
      destruct (group_loop a i excl incl t_ord v_ord d0 _ 0 0 groups) as [[files e0] g1] eqn:E.
      destruct e0 as [er|].
      + injection H as <- <-. destruct Hd as [<- | []]. cbn [do_files]. exact (group_loop_paths_distinct _ _ _ _ _ _ E).
      + destruct (dir_loop a i excl incl t_ord v_ord group_by x _ rest) as [ds' e'] eqn:E'.
        injection H as <- <-. destruct Hd as [<- | Hd].
        * cbn [do_files]. exact (group_loop_paths_distinct _ _ _ _ _ _ E).
        * exact (IH _ _ _ _ _ E' d Hd).
  Qed.
End Paths.

Lemma dcmstack_paths_distinct g a i ds e d :
  starts_with_slash (a_output_ext a) = false ->
  snd (dcmstack_main g a i) = ORun ds e -> In d ds -> NoDup (map fo_path (do_files d)).
Proof.
  intros Hext H Hd. destruct (dcmstack_run_inv _ _ _ _ _ H) as [-> | [x [t_ord [v_ord [_ [_ [_ El]]]]]]]; [destruct Hd|].
  exact (dir_loop_paths_distinct _ _ _ _ _ _ Hext _ _ _ _ _ _ El d Hd).
Qed.

(** as many files as groups when nothing raised *)
Lemma dcmstack_one_per_group g a i ds d :
  snd (dcmstack_main g a i) = ORun ds None -> In d ds ->
  exists groups, i_groups i (do_group_call d) = Ok groups /\ length (do_files d) = length groups.
Proof.
  intros H Hd. destruct (dcmstack_run_inv _ _ _ _ _ H) as [-> | [x [t_ord [v_ord [_ [_ [_ El]]]]]]]; [destruct Hd|].
  clear H. revert El d Hd. generalize (a_src_dirs a) as dl. generalize (@nil str) as shared.
  generalize (match a_group_by a with Some s => split_on 44%N s | None => g_group_keys g end) as gb.
  intros gb shared dl. revert shared ds. induction dl as [|d0 rest IH]; intros shared ds El d Hd; cbn [dir_loop] in El.
  - injection El as <-. destruct Hd.
  - destruct (i_groups i _) as [groups|er] eqn:Eg; [|discriminate].
    destruct (group_loop _ _ _ _ _ _ d0 _ 0 0 groups) as [[files e0] g1] eqn:E.
    destruct e0 as [er|]; [discriminate|].
    destruct (dir_loop _ _ _ _ _ _ gb x _ rest) as [ds' e'] eqn:E'.
    injection El as <- ->. destruct Hd as [<- | Hd].
    + exists groups. cbn [do_group_call do_files]. split; [exact Eg|].
      destruct (ProofsNames.group_loop_names _ _ _ _ _ _ _ _ _ _ _ _ _ _ E) as [outs [_ [_ [_ [Hl _]]]]]. exact (Hl eq_refl).
    + exact (IH _ _ E' d Hd).
Qed.

(** ------------------------------------------------------------------ uniqueness over the whole invocation *)

Definition nonslash (c : N) : bool := negb (N.eqb c slash).
Definition slash_free (s : str) : bool := forallb nonslash s.

(** the directory prefix every name of a source directory is appended to by [path_join] *)
Definition dir_prefix (d : str) : str := path_join d [].

Lemma sfx_parts_slash_free : slash_free sfx_prefix && slash_free sfx_tail = true.
Proof. vm_compute. reflexivity. Qed.

Lemma slash_free_app x y : slash_free (x ++ y) = slash_free x && slash_free y.
Proof. apply forallb_app. Qed.

Lemma dec_of_N_slash_free n : slash_free (dec_of_N n) = true.
Proof.
  destruct (PyNumFacts.dec_of_N_spec n) as [ds [H1 [_ [H3 _]]]]. rewrite H1. clear H1.
  unfold slash_free. apply forallb_forall. intros c Hc.
  unfold PyNumFacts.all_dig in H3. rewrite forallb_forall in H3. specialize (H3 c Hc).
  destruct (dec_val c) eqn:E; [|discriminate]. apply PyNumFacts.dec_val_digit, PyNumFacts.is_digit_cases in E.
  repeat (destruct E as [-> | E]; [reflexivity|]). subst c. reflexivity.
Qed.

Lemma fmt_nat_slash_free z w k : slash_free (fmt_nat z w k) = true.
Proof.
  unfold fmt_nat, pad_left. rewrite slash_free_app, dec_of_N_slash_free, andb_true_r.
  unfold slash_free. apply forallb_forall. intros c Hc. apply repeat_spec in Hc. subst c. destruct z; reflexivity.
Qed.

Lemma suffix_slash_free k : slash_free (suffix k) = true.
Proof.
  unfold suffix. pose proof sfx_parts_slash_free as H. apply andb_true_iff in H as [H1 H2].
  rewrite !slash_free_app, H1, H2, fmt_nat_slash_free. reflexivity.
Qed.

Lemma unique_slash_free gen out_idx nn out :
  unique_name gen out_idx (sanitize_path_comp nn) = Ok out -> slash_free out = true.
Proof.
  intros H. destruct (ProofsNames.unique_name_ok gen out_idx (sanitize_path_comp nn)) as [out' [H1 [_ H2]]].
  rewrite H in H1. injection H1 as <-.
  destruct H2 as [[_ ->] | [_ [k [-> _]]]]; [exact (sanitize_no_slash nn)|].
  rewrite slash_free_app, suffix_slash_free. rewrite andb_true_r. exact (sanitize_no_slash nn).
Qed.

Lemma slash_free_no_lead s : slash_free s = true -> starts_with_slash s = false.
Proof.
  destruct s as [|c r]; [reflexivity|]. cbn [slash_free forallb starts_with_slash]. unfold nonslash.
  intros H. apply andb_true_iff in H as [H _]. destruct (N.eqb c slash); [discriminate | reflexivity].
Qed.

Lemma path_join_prefix d x : starts_with_slash x = false -> path_join d x = dir_prefix d ++ x.
Proof.
  intros Hx. unfold dir_prefix, path_join. rewrite Hx. cbn [starts_with_slash].
  destruct (negb (nonempty d) || ends_with_slash d).
  - rewrite app_nil_r. reflexivity.
  - change (d ++ slash :: x) with (d ++ [slash] ++ x). rewrite app_assoc. reflexivity.
Qed.

Lemma dir_prefix_shape d : dir_prefix d = [] \/ ends_with_slash (dir_prefix d) = true.
Proof.
  unfold dir_prefix, path_join. cbn [starts_with_slash].
  destruct d as [|c r]; [left; reflexivity|]. cbn [nonempty negb orb].
  destruct (ends_with_slash (c :: r)) eqn:E; right.
  - rewrite app_nil_r. exact E.
  - unfold ends_with_slash. rewrite rev_app_distr. cbn [rev app]. apply N.eqb_refl.
Qed.

Lemma drop_while_app_all f a b : forallb f a = true -> drop_while f (a ++ b) = drop_while f b.
Proof.
  induction a as [|c r IH]; cbn [app forallb drop_while]; [reflexivity|].
  intros H. apply andb_true_iff in H as [Hc Hr]. rewrite Hc. exact (IH Hr).
Qed.

Lemma forallb_rev {A} (f : A -> bool) l : forallb f l = true -> forallb f (rev l) = true.
Proof. rewrite !forallb_forall. intros H x Hx. apply H. apply in_rev. exact Hx. Qed.

(** a prefix (empty or ending in '/') followed by a slash-free name can be split in one way only *)
Lemma prefix_name_split P x :
  (P = [] \/ ends_with_slash P = true) -> slash_free x = true ->
  rev (drop_while nonslash (rev (P ++ x))) = P.
Proof.
  intros HP Hx. rewrite rev_app_distr, (drop_while_app_all nonslash (rev x) (rev P) (forallb_rev _ _ Hx)).
  destruct HP as [-> | HP]; [reflexivity|].
  unfold ends_with_slash in HP. destruct (rev P) as [|c r] eqn:E; [discriminate|].
  cbn [drop_while]. unfold nonslash. rewrite HP. cbn [negb]. rewrite <- E. apply rev_involutive.
Qed.

Lemma prefix_name_inj d1 d2 x y :
  slash_free x = true -> slash_free y = true -> dir_prefix d1 ++ x = dir_prefix d2 ++ y -> dir_prefix d1 = dir_prefix d2.
Proof.
  intros Hx Hy H.
  rewrite <- (prefix_name_split (dir_prefix d1) x (dir_prefix_shape d1) Hx).
  rewrite <- (prefix_name_split (dir_prefix d2) y (dir_prefix_shape d2) Hy). rewrite H. reflexivity.
Qed.

Lemma NoDup_app_left {A} (l l' : list A) : NoDup (l ++ l') -> NoDup l.
Proof.
  induction l as [|x r IH]; cbn [app]; intros H; [constructor|].
  inversion H as [|y t Hnotin Hnd]. subst. constructor; [|exact (IH Hnd)].
  intros Hin. apply Hnotin. apply in_or_app. left. exact Hin.
Qed.

Section Global.
  Variable a : args.
  Variable i : inputs.
  Variable excl incl : list str.
  Variable t_ord v_ord : option ordering.
  Hypothesis ext_ok : slash_free (a_output_ext a) = true.

  Lemma group_loop_slash_free : forall groups d gen out_idx gidx files e gen',
    group_loop a i excl incl t_ord v_ord d gen out_idx gidx groups = (files, e, gen') ->
    forall f, In f files -> slash_free (fo_name f) = true.
  Proof.
    induction groups as [|gi rest IH]; intros d gen out_idx gidx files e gen' H f Hf; cbn [group_loop] in H.
    - injection H as <- <- <-. destruct Hf.
    - destruct (i_stack i _) as [u|er]; [|injection H as <- <- <-; destruct Hf].
      destruct (natural_name a gi) as [nn|er]; [|injection H as <- <- <-; destruct Hf].
      destruct (unique_name gen out_idx (sanitize_path_comp nn)) as [out|er] eqn:Eu; [|injection H as <- <- <-; destruct Hf].
      destruct (i_nifti i _ _) as [u'|er]; [|injection H as <- <- <-; destruct Hf].
      destruct (if a_dump_meta a then _ else _) as [jp|er]; [|injection H as <- <- <-; destruct Hf].
      destruct (group_loop a i excl incl t_ord v_ord d (out :: gen) (S out_idx) (S gidx) rest) as [[fs e'] g1] eqn:E.
      injection H as <- <- <-. destruct Hf as [<- | Hf]; [|exact (IH _ _ _ _ _ _ _ E f Hf)].
      cbn [fo_name]. rewrite slash_free_app, (unique_slash_free _ _ _ _ Eu), ext_ok. reflexivity.
  Qed.

  (** every directory record belongs to its own source directory, in order; every path is the
      directory prefix (of the destination, or of that source directory) followed by a slash-free name *)
  Definition dir_rel (src : str) (d : dir_out) : Prop :=
    forall f, In f (do_files d) ->
      slash_free (fo_name f) = true /\
      fo_path f = dir_prefix (match truthy (a_dest_dir a) with Some dd => dd | None => src end) ++ fo_name f.

  Lemma dir_loop_rel : forall dirs group_by x shared ds e,
    dir_loop a i excl incl t_ord v_ord group_by x shared dirs = (ds, e) ->
    exists srcs tl, dirs = srcs ++ tl /\ Forall2 dir_rel srcs ds.
  Proof.
    induction dirs as [|d0 rest IH]; intros group_by x shared ds e H; cbn [dir_loop] in H.
    - injection H as <- <-. exists [], []. split; [reflexivity | constructor].
    - destruct (i_groups i _) as [groups|er]; [|injection H as <- <-; exists [], (d0 :: rest); split; [reflexivity | constructor]].
      destruct (group_loop a i excl incl t_ord v_ord d0 _ 0 0 groups) as [[files e0] g1] eqn:E.
      assert (Hrel : dir_rel d0 {| do_glob := glob_pattern a d0;
                                   do_group_call := {| gc_paths := i_glob i (glob_pattern a d0); gc_group_by := group_by;
                                                       gc_extractor := x; gc_force := a_force_read a;
                                                       gc_warn := negb (a_strict a) |};
                                   do_files := files |}).
      { intros f Hf. cbn [do_files] in Hf.
        pose proof (group_loop_slash_free _ _ _ _ _ _ _ _ E f Hf) as Hs. split; [exact Hs|].
        destruct (group_loop_fields _ _ _ _ _ _ _ _ _ _ _ _ _ _ E f Hf) as [_ [_ [_ [_ [_ [_ [_ [_ [_ [Hp _]]]]]]]]]].
        rewrite Hp. apply path_join_prefix. exact (slash_free_no_lead _ Hs). }
      destruct e0 as [er|].
      + injection H as <- <-. exists [d0], rest. split; [reflexivity|]. constructor; [exact Hrel | constructor].
      + destruct (dir_loop a i excl incl t_ord v_ord group_by x _ rest) as [ds' e'] eqn:E'.
        injection H as <- <-. destruct (IH _ _ _ _ _ E') as [srcs [tl [-> HF]]].
        exists (d0 :: srcs), tl. split; [reflexivity|]. constructor; assumption.
  Qed.
End Global.

(** with --dest-dir: ALL output names of one invocation are pairwise distinct *)
Lemma dcmstack_names_global g a i ds e :
  truthy (a_dest_dir a) <> None ->
  snd (dcmstack_main g a i) = ORun ds e ->
  NoDup (concat (map (fun d => map fo_name (do_files d)) ds)).
Proof.
  intros Hdest H. destruct (dcmstack_run_inv _ _ _ _ _ H) as [-> | [x [t_ord [v_ord [_ [_ [_ El]]]]]]]; [constructor|].
  assert (Hsh : shares_names a = true).
  { unfold shares_names. rewrite ProofsNames.names_shared_dest_true. destruct (truthy (a_dest_dir a)); [reflexivity | congruence]. }
  destruct (ProofsNames.dir_loop_names_shared _ _ _ _ _ _ Hsh _ _ _ _ _ _ El) as [outs [Hm [Hnd _]]].
  rewrite Hm. apply ProofsNames.NoDup_map_inj; [|exact Hnd]. intros p q _ _ Hpq. exact (app_inv_tail _ _ _ Hpq).
Qed.

(** all output PATHS of one invocation are pairwise distinct: in a common destination because the
    names are, otherwise because the source directories are different directories *)
Lemma dcmstack_paths_global g a i ds e :
  slash_free (a_output_ext a) = true ->
  (truthy (a_dest_dir a) = None -> NoDup (map dir_prefix (a_src_dirs a))) ->
  snd (dcmstack_main g a i) = ORun ds e ->
  NoDup (concat (map (fun d => map fo_path (do_files d)) ds)).
Proof.
  intros Hext Hdirs H.
  pose proof H as Hrun.
  destruct (dcmstack_run_inv _ _ _ _ _ H) as [-> | [x [t_ord [v_ord [_ [_ [_ El]]]]]]]; [constructor|].
  destruct (dir_loop_rel a i _ _ t_ord v_ord Hext _ _ _ _ _ _ El) as [srcs [tl [Hsplit HF]]].
  destruct (truthy (a_dest_dir a)) as [dd|] eqn:Ed.
  - (* common destination: paths = prefix dd ++ name, names distinct *)
    assert (Hnames : NoDup (concat (map (fun d => map fo_name (do_files d)) ds))).
    { apply (dcmstack_names_global g a i ds e); [rewrite Ed; discriminate | exact Hrun]. }
    assert (Hmap : concat (map (fun d => map fo_path (do_files d)) ds) =
                   map (fun n => dir_prefix dd ++ n) (concat (map (fun d => map fo_name (do_files d)) ds))).
    { clear -HF Ed. induction HF as [|src d srcs' ds' Hr HF IH]; [reflexivity|].
      cbn [map concat]. rewrite map_app, IH. f_equal. rewrite map_map. apply map_ext_in.
      intros f Hf. destruct (Hr f Hf) as [_ Hp]. rewrite Ed in Hp. exact Hp. }
    rewrite Hmap. apply ProofsNames.NoDup_map_inj; [|exact Hnames]. intros p q _ _ Hpq. exact (app_inv_head _ _ _ Hpq).
  - (* no common destination: each directory's paths are distinct, and different directories have different prefixes *)
    specialize (Hdirs eq_refl). rewrite Hsplit, map_app in Hdirs. apply NoDup_app_left in Hdirs.
    assert (Hper : forall d, In d ds -> NoDup (map fo_path (do_files d))).
    { intros d Hd. apply (dcmstack_paths_distinct g a i ds e d); [exact (slash_free_no_lead _ Hext) | exact Hrun | exact Hd]. }
    clear -HF Hdirs Hper Ed. induction HF as [|src d srcs' ds' Hr HF IH]; [constructor|].
    cbn [map concat]. cbn [map] in Hdirs. inversion Hdirs as [|p l Hnotin Hnd]. subst.
    apply ProofsNames.NoDup_app_disjoint.
    + apply Hper. left. reflexivity.
    + apply IH; [exact Hnd | intros d' Hd'; apply Hper; right; exact Hd'].
    + intros p Hp1 Hp2. apply in_map_iff in Hp1 as [f [<- Hf]]. destruct (Hr f Hf) as [Hs1 Hp1].
      rewrite Ed in Hp1. apply Hnotin. clear -HF Hp2 Hs1 Hp1 Ed.
      induction HF as [|src' d' srcs'' ds'' Hr' HF' IH']; [destruct Hp2|].
      cbn [map concat] in Hp2. apply in_app_or in Hp2 as [Hp2 | Hp2].
      * apply in_map_iff in Hp2 as [f' [Heq Hf']]. destruct (Hr' f' Hf') as [Hs2 Hp2]. left.
        rewrite Ed in Hp2. rewrite Hp1, Hp2 in Heq. exact (prefix_name_inj _ _ _ _ Hs2 Hs1 Heq).
      * right. exact (IH' Hp2).
Qed.
