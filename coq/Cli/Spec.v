(** Declarative statements the C19 theorems are phrased with: what each API argument must be as a
    function of the options, and sequences of invocations in one process. *)
From Coq Require Import List Bool Arith ZArith NArith.
From DV Require Import Common.Res Common.Str Common.PyNum Filter.Model Generated.T_cli Cli.Model.
Import ListNotations.

(** the ordering object built from --time-var/--time-order (resp. --vector-var/--vector-order) *)
Definition order_spec (i : inputs) (var file : option str) (o : option ordering) : Prop :=
  match truthy var with
  | None => o = None
  | Some v =>
      exists ord, o = Some ord /\ o_key ord = v /\
        match truthy file with
        | None => o_abs ord = None /\ o_abs_as_str ord = false
        | Some f => exists ls, i_lines i f = Ok ls /\ o_abs ord = Some (map py_strip ls) /\ o_abs_as_str ord = true
        end
  end.

(** the extractor: minimal unless meta data is generated; otherwise a MetaExtractor whose ignore
    rules are the module defaults (or the three --extract-private rules) and whose translators are
    the module defaults minus the disabled ones *)
Definition extractor_spec (g : globals) (a : args) (x : extractor) : Prop :=
  if a_embed_meta a || a_dump_meta a then
    exists ts, x = XMeta (if a_extract_private a then private_ignore_rule_names else g_ignore_rules g) ts /\
      match truthy (a_disable_translator a) with
      | None => ts = g_translators g
      | Some s =>
          if str_eqb (lower_str s) str_all then ts = []
          else exists tags, parse_tags s = Some tags /\
                 forall t, In t ts <-> In t (g_translators g) /\ ~ In (snd t) tags
      end
  else x = XMinimal.

(** everything one written file and its directory record must satisfy *)
Definition args_spec (g : globals) (a : args) (i : inputs) (d : dir_out) (f : file_out) : Prop :=
  let sc := fo_stack f in let nc := fo_nifti f in let gc := do_group_call d in
  (* the filter *)
  sc_excl sc = g_excl g ++ a_exclude_regex a /\
  sc_incl sc = g_incl g ++ a_include_regex a /\
  (forall matches key, filter_of matches sc key =
                       cli_filter matches (g_excl g) (g_incl g) (a_exclude_regex a) (a_include_regex a) key) /\
  (* orderings *)
  order_spec i (a_time_var a) (a_time_order a) (sc_time_order sc) /\
  order_spec i (a_vector_var a) (a_vector_order a) (sc_vector_order sc) /\
  (* grouping *)
  gc_group_by gc = match a_group_by a with Some s => split_on 44%N s | None => g_group_keys g end /\
  extractor_spec g a (gc_extractor gc) /\
  gc_force gc = a_force_read a /\
  gc_warn gc = negb (a_strict a) /\
  sc_warn sc = negb (a_strict a) /\
  gc_paths gc = i_glob i (do_glob d) /\
  (exists src, In src (a_src_dirs a) /\ sc_dir sc = src /\ do_glob d = glob_pattern a src /\
               fo_path f = path_join (match truthy (a_dest_dir a) with Some dd => dd | None => src end) (fo_name f)) /\
  (* conversion and what is written *)
  nc_voxel_order nc = a_voxel_order a /\
  nc_embed nc = (a_embed_meta a || a_dump_meta a) /\
  fo_strip_ext f = (a_dump_meta a && negb (a_embed_meta a)) /\
  (if a_dump_meta a then exists p, meta_path (fo_path f) = Ok p /\ fo_json_path f = Some p
   else fo_json_path f = None).

(** ------------------------------------------------------------------ sequences of invocations *)

(** the environment of one nitool invocation (filesystem, terminal and library) *)
Record nenv (nii V : Type) := {
  ne_load : str -> res nii;
  ne_read : option str -> res str;
  ne_confirm : bool;
  ne_has_ext : nii -> bool;
  ne_with_empty : nii -> nii;
  ne_split : nii -> option Z -> res (list nii);
  ne_merge : list nii -> option Z -> res nii;
  ne_clear_slices : nii -> nii;
  ne_const_fmt : str -> nii -> res str;
  ne_to_json : nii -> str;
  ne_remove_ext : nii -> nii;
  ne_append_json : nii -> str -> res nii;
  ne_get_meta : nii -> str -> option (list Z) -> res (option str);
  ne_sort_val : nii -> str -> res (option Z);
  ne_of_stored : stored -> V;
  ne_ext : nii -> mext V;
  ne_set_ext : nii -> mext V -> nii }.

Arguments ne_load {nii V}. Arguments ne_read {nii V}. Arguments ne_confirm {nii V}.
Arguments ne_has_ext {nii V}. Arguments ne_with_empty {nii V}. Arguments ne_split {nii V}.
Arguments ne_merge {nii V}. Arguments ne_clear_slices {nii V}. Arguments ne_const_fmt {nii V}.
Arguments ne_to_json {nii V}. Arguments ne_remove_ext {nii V}. Arguments ne_append_json {nii V}.
Arguments ne_get_meta {nii V}. Arguments ne_sort_val {nii V}. Arguments ne_of_stored {nii V}.
Arguments ne_ext {nii V}. Arguments ne_set_ext {nii V}.

Definition nitool_run {nii V} (env : nenv nii V) (g : globals) (a : nargs) : globals * noutputs nii :=
  nitool_main nii (ne_load env) (ne_read env) (ne_confirm env) (ne_has_ext env) (ne_with_empty env)
    (ne_split env) (ne_merge env) (ne_clear_slices env) (ne_const_fmt env) (ne_to_json env)
    (ne_remove_ext env) (ne_append_json env) (ne_get_meta env) (ne_sort_val env) V (ne_of_stored env)
    (ne_ext env) (ne_set_ext env) g a.

Inductive invocation (nii V : Type) :=
| IDcmstack (a : args) (i : inputs)
| INitool (env : nenv nii V) (a : nargs).
Arguments IDcmstack {nii V}. Arguments INitool {nii V}.

Inductive output (nii : Type) := ODcmstack (o : outputs) | ONitool (o : noutputs nii).
Arguments ODcmstack {nii}. Arguments ONitool {nii}.

Definition run1 {nii V} (g : globals) (inv : invocation nii V) : globals * output nii :=
  match inv with
  | IDcmstack a i => let '(g', o) := dcmstack_main g a i in (g', ODcmstack o)
  | INitool env a => let '(g', o) := nitool_run env g a in (g', ONitool o)
  end.

(** one process: the globals left by an invocation are the globals the next one starts from *)
Fixpoint run_seq {nii V} (g : globals) (l : list (invocation nii V)) : globals * list (output nii) :=
  match l with
  | [] => (g, [])
  | inv :: r => let '(g1, o) := run1 g inv in
                let '(g2, os) := run_seq g1 r in (g2, o :: os)
  end.
