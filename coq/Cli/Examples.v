(** Concrete inputs for the non-vacuity examples of Props/C19.v. *)
From Coq Require Import List Bool Arith ZArith NArith String Ascii.
From DV Require Import Common.Res Common.Str Common.PyNum Generated.T_cli Generated.T_filter Cli.Model Cli.Spec.
Import ListNotations.

Definition L (s : string) : str := map N_of_ascii (list_ascii_of_string s).

Definition ex_g : globals := initial_globals (L "0.9").

(** dcmstack --embed-meta -e Foo --output-name '%(ProtocolName)s' d *)
Definition ex_args1 : args :=
  {| a_src_dirs := [L "d"]; a_force_read := false; a_file_ext := dflt_file_ext; a_dest_dir := None;
     a_output_name := Some (L "%(ProtocolName)s"); a_output_ext := dflt_output_ext; a_dump_meta := false;
     a_embed_meta := true; a_group_by := None; a_voxel_order := dflt_voxel_order; a_time_var := None;
     a_vector_var := None; a_time_order := None; a_vector_order := None; a_list_translators := false;
     a_disable_translator := None; a_extract_private := false; a_include_regex := [];
     a_exclude_regex := [L "Foo"]; a_default_regexes := false; a_verbose := false; a_strict := false;
     a_version := false |}.

(** dcmstack --voxel-order RAS -t EchoTime --time-order order.txt d *)
Definition ex_args2 : args :=
  {| a_src_dirs := [L "d"]; a_force_read := false; a_file_ext := dflt_file_ext; a_dest_dir := None;
     a_output_name := None; a_output_ext := dflt_output_ext; a_dump_meta := false;
     a_embed_meta := false; a_group_by := None; a_voxel_order := L "RAS"; a_time_var := Some (L "EchoTime");
     a_vector_var := None; a_time_order := Some (L "order.txt"); a_vector_order := None; a_list_translators := false;
     a_disable_translator := None; a_extract_private := false; a_include_regex := [];
     a_exclude_regex := []; a_default_regexes := false; a_verbose := false; a_strict := false;
     a_version := false |}.

Definition ex_group (series : Z) (proto : string) : group_info :=
  {| gi_meta := fun k => if str_eqb k name_num_key then Some (MInt series)
                         else if str_eqb k name_key1 then Some (MStr (L proto)) else None;
     gi_custom := fun _ => Ok (L proto) |}.

(** three series whose protocol names are a-002, a, a  (the F13 input) *)
Definition ex_inputs : inputs :=
  {| i_glob := fun _ => [L "d/1.dcm"; L "d/2.dcm"; L "d/3.dcm"];
     i_lines := fun p => if str_eqb p (L "order.txt") then Ok [L "20
"; L " 10 "] else Err ECrash;
     i_groups := fun _ => Ok [ex_group 1 "a-002"; ex_group 2 "a"; ex_group 3 "a"];
     i_stack := fun _ => Ok tt;
     i_nifti := fun _ _ => Ok tt |}.

Definition ex_seq : list (invocation unit unit) :=
  [IDcmstack ex_args1 ex_inputs; IDcmstack ex_args2 ex_inputs].

Definition excl_of_outputs (o : output unit) : list (list str) :=
  match o with
  | ODcmstack (ORun ds _) => List.concat (map (fun d => map (fun f => sc_excl (fo_stack f)) (do_files d)) ds)
  | _ => []
  end.
Definition names_of_outputs (o : outputs) : list str :=
  match o with ORun ds _ => List.concat (map (fun d => map fo_name (do_files d)) ds) | _ => [] end.

(** an extension of a 3-slice image: K is a global constant, P is per slice *)
Definition GC : clsn := (L "global", L "const").
Definition GS : clsn := (L "global", L "slices").
Definition ex_ext : mext stored :=
  {| x_valid := [GC; GS];
     x_mult := fun c => if clsn_eqb c GS then 3 else 1;
     x_dict := fun c => if clsn_eqb c GC then [(L "K", SScalar (IVInt 7))]
                        else if clsn_eqb c GS then [(L "P", SList [IVInt 1; IVInt 2; IVInt 3])] else [] |}.
Definition ex_inject := inject (fun s : stored => s) ex_ext.

(** dcmstack --dest-dir out d0 d1  where both directories hold a series 8 / "b c" *)
Definition ex_args3 : args :=
  {| a_src_dirs := [L "d0"; L "d1"]; a_force_read := false; a_file_ext := dflt_file_ext; a_dest_dir := Some (L "out");
     a_output_name := None; a_output_ext := dflt_output_ext; a_dump_meta := false;
     a_embed_meta := false; a_group_by := None; a_voxel_order := dflt_voxel_order; a_time_var := None;
     a_vector_var := None; a_time_order := None; a_vector_order := None; a_list_translators := false;
     a_disable_translator := None; a_extract_private := false; a_include_regex := [];
     a_exclude_regex := []; a_default_regexes := false; a_verbose := false; a_strict := false;
     a_version := false |}.
Definition ex_inputs3 : inputs :=
  {| i_glob := fun p => [p];
     i_lines := fun _ => Err ECrash;
     i_groups := fun _ => Ok [ex_group 8 "b c"];
     i_stack := fun _ => Ok tt;
     i_nifti := fun _ _ => Ok tt |}.
Definition all_paths (o : outputs) : list str :=
  match o with ORun ds _ => List.concat (map (fun d => map fo_path (do_files d)) ds) | _ => [] end.
