(** C05, part 2: split then merge is the identity on canonical extensions; merge then split returns the inputs'
    lookups; chains of round trips.

    [split_all e dim]  = [get_subset e dim i] for every index of axis [dim], in order;
    [roundtrip e dim a sd] = [from_sequence (split_all e dim) dim a sd].

    Proof of the identity: the merged result denotes what [e] denotes (C04 [subset_den] composed with C03
    [merge_den]), it is valid, nondegenerate (C07 closure) and every key sits at its canonical class (C06
    [merge_canonical_axis]); uniqueness of the canonical form (Ext/ProofsUnique.v) concludes.

    Domain ([rt_dom], [rt_axis]): valid, nondegenerate, no trailing singleton dimension (open findings N2/N4), a
    slice dimension is recorded (N3), the axis is the slice, time or vector axis and has at least two positions. *)
From Coq Require Import List Bool Arith QArith Qabs Lia Lqa.
From DV Require Import Common.Res Common.Str Ext.Types Ext.Classes Ext.Seq Ext.Model Ext.Spec
     Ext.ValidFacts Ext.ProofsValidBase Ext.ProofsValidSimplify Ext.ProofsValidSubset Ext.ProofsValidMerge
     Ext.ProofsSimplifyLayout Ext.ProofsSimplifyCanon Ext.ProofsSubset Ext.ProofsCanonSubset
     Ext.ProofsMergeDen Ext.ProofsMergeStep Ext.ProofsMergeFrame Ext.ProofsMergeKey Ext.ProofsMerge
     Ext.ProofsCanonMerge Ext.ProofsLocal Ext.ProofsUnique.
Import ListNotations.
Local Open Scope nat_scope.
Local Open Scope res_scope.

(** * Shapes: what splitting along [dim] removes, merging along [dim] restores *)

Lemma nth_default_irrelevant (l : list nat) i : i < length l -> nth i l 1 = nth i l 0.
Proof. intros H. apply nth_indep. exact H. Qed.

Lemma split_merge_shape (sh sh1 : list nat) dim :
  3 <= length sh <= 5 -> Forall (fun n => 1 <= n) sh -> no_trailing1 sh = true -> dim < length sh ->
  set_nth dim 1 sh = Some sh1 ->
  set_nth dim (nth dim sh 0) (pad_to (S dim) (trim_ones sh1)) = Some sh /\
  nth dim (trim_ones sh1) 1 = 1 /\
  ~ (dim = 4 /\ length (trim_ones sh1) = 4 /\ nth 3 (trim_ones sh1) 1 = 1).
Proof.
  intros Hn Hpos Hnt Hdim Es. unfold no_trailing1 in Hnt.
  destruct sh as [|x [|y [|z [|t [|v [|w r]]]]]]; cbn [length] in Hn, Hdim; try lia.
  - destruct dim as [|[|[|dim]]]; try lia; cbn [set_nth option_map] in Es; injection Es as <-;
      rewrite trim_ones_3; cbn; (split; [reflexivity|]); (split; [reflexivity|]); intros [? _]; lia.
  - cbn [length Nat.leb orb last] in Hnt. apply negb_true_iff in Hnt.
    destruct dim as [|[|[|[|dim]]]]; try lia; cbn [set_nth option_map] in Es; injection Es as <-;
      rewrite trim_ones_4; rewrite ?Hnt; cbn; (split; [reflexivity|]); (split; [reflexivity|]); intros [? _]; lia.
  - cbn [length Nat.leb orb last] in Hnt. apply negb_true_iff in Hnt.
    destruct dim as [|[|[|[|[|dim]]]]]; try lia; cbn [set_nth option_map] in Es; injection Es as <-;
      rewrite trim_ones_5; rewrite ?Hnt; cbn [Nat.eqb].
    + cbn. (split; [reflexivity|]); (split; [reflexivity|]); intros [? _]; lia.
    + cbn. (split; [reflexivity|]); (split; [reflexivity|]); intros [? _]; lia.
    + cbn. (split; [reflexivity|]); (split; [reflexivity|]); intros [? _]; lia.
    + cbn. (split; [reflexivity|]); (split; [reflexivity|]); intros [? _]; lia.
    + destruct (t =? 1) eqn:Et.
      * apply Nat.eqb_eq in Et. subst t. cbn. (split; [reflexivity|]); (split; [reflexivity|]).
        intros [_ [H _]]. discriminate H.
      * cbn. (split; [reflexivity|]); (split; [reflexivity|]). intros [_ [_ H]]. subst t. discriminate Et.
Qed.

Lemma trailing_flags sh : no_trailing1 sh = true -> trailing1b sh = false.
Proof.
  unfold no_trailing1, trailing1b. intros H. apply orb_true_iff in H as [H|H].
  - apply Nat.leb_le in H. destruct (Nat.ltb_spec 3 (length sh)); [lia | reflexivity].
  - apply negb_true_iff in H. rewrite H. apply andb_false_r.
Qed.

(** * [np.allclose(x, x)] *)
Lemma allclose_refl l : allclose rtol_default atol_default l l = true.
Proof.
  unfold allclose. rewrite Nat.eqb_refl. cbn [andb].
  induction l as [|x r IH]; [reflexivity|]. cbn [combine forallb fst snd]. rewrite IH, andb_true_r.
  apply Qle_bool_iff. setoid_replace (x - x)%Q with 0%Q by ring.
  pose proof (Qabs_nonneg x) as H. unfold atol_default, rtol_default. cbn [Qabs Z.abs]. lra.
Qed.

Lemma use_slices_same_hdr (h1 h2 : hdr) :
  sdim h1 = sdim h2 -> sdim h1 <> None -> aff h1 = aff h2 -> use_slices h1 h2 = true.
Proof.
  intros Hs Hn Ha. unfold use_slices, slice_normal. rewrite <- Hs, <- Ha.
  destruct (sdim h1) as [d|]; [|contradiction]. apply allclose_refl.
Qed.

(** * The merge axis and the subset axis address the same grid coordinate *)
Lemma axes_agree (h : hdr) dim ax (p : pos) :
  ProofsMergeFrame.axis_of (sdim h) dim = Some ax ->
  set_axis (ProofsSubset.axis_of h dim) (coord ax p) (set_coord ax p 0) = p.
Proof.
  unfold ProofsMergeFrame.axis_of, ProofsSubset.axis_of. destruct p as [[s t] v].
  destruct (odim_is (sdim h) dim).
  - intros H. injection H as <-. reflexivity.
  - destruct (Nat.eqb_spec dim 3) as [->|H3].
    + intros H. injection H as <-. reflexivity.
    + destruct (Nat.eqb_spec dim 4) as [->|H4]; [|discriminate].
      intros H. injection H as <-. reflexivity.
Qed.

Lemma axis_sub_dims (h : hdr) dim ax (p : pos) :
  ProofsMergeFrame.axis_of (sdim h) dim = Some ax -> dim < ndim h ->
  in_dims (dims h) p ->
  in_dims (sub_dims h dim) (set_coord ax p 0) /\ coord ax p < nth dim (shape h) 0.
Proof.
  unfold ProofsMergeFrame.axis_of, sub_dims, ndim. intros Hax Hdim Hp.
  assert (Hd : dims h = (match sdim h with Some d => nth d (shape h) 1 | None => 1 end, nth 3 (shape h) 1, nth 4 (shape h) 1))
    by reflexivity.
  destruct (dims h) as [[nS nT] nV]. injection Hd as HS HT HV. destruct p as [[s t] v]. cbn [in_dims] in Hp.
  destruct (odim_is (sdim h) dim) eqn:Eo.
  - injection Hax as <-. cbn [set_coord coord in_dims]. split; [lia|].
    unfold odim_is in Eo. destruct (sdim h) as [d|]; [|discriminate]. apply Nat.eqb_eq in Eo. subst d.
    rewrite <- (nth_default_irrelevant _ _ Hdim), <- HS. lia.
  - destruct (Nat.eqb_spec dim 3) as [->|H3].
    + injection Hax as <-. cbn [set_coord coord in_dims Nat.ltb Nat.leb]. split; [lia|].
      rewrite <- (nth_default_irrelevant _ _ Hdim), <- HT. lia.
    + destruct (Nat.eqb_spec dim 4) as [->|H4]; [|discriminate].
      injection Hax as <-. cbn [set_coord coord in_dims Nat.ltb Nat.leb]. split; [lia|].
      rewrite <- (nth_default_irrelevant _ _ Hdim), <- HV. lia.
Qed.

Lemma axis_sub_dims_inv (h : hdr) dim ax (p : pos) i :
  ProofsMergeFrame.axis_of (sdim h) dim = Some ax -> dim < ndim h ->
  in_dims (sub_dims h dim) p -> i < nth dim (shape h) 0 ->
  let q := set_axis (ProofsSubset.axis_of h dim) i p in
  in_dims (dims h) q /\ coord ax q = i /\ set_coord ax q 0 = p.
Proof.
  unfold ProofsMergeFrame.axis_of, ProofsSubset.axis_of, sub_dims, ndim. intros Hax Hdim Hp Hi.
  assert (Hd : dims h = (match sdim h with Some d => nth d (shape h) 1 | None => 1 end, nth 3 (shape h) 1, nth 4 (shape h) 1))
    by reflexivity.
  destruct (dims h) as [[nS nT] nV]. injection Hd as HS HT HV. destruct p as [[s t] v].
  destruct (odim_is (sdim h) dim) eqn:Eo.
  - injection Hax as <-. cbn [set_axis set_coord coord in_dims] in *.
    unfold odim_is in Eo. destruct (sdim h) as [d|]; [|discriminate]. apply Nat.eqb_eq in Eo. subst d.
    rewrite <- (nth_default_irrelevant _ _ Hdim), <- HS in Hi.
    split; [lia|]. split; [reflexivity|]. f_equal. f_equal. lia.
  - destruct (Nat.eqb_spec dim 3) as [->|H3].
    + injection Hax as <-. cbn [set_axis set_coord coord in_dims Nat.ltb Nat.leb] in *.
      rewrite <- (nth_default_irrelevant _ _ Hdim), <- HT in Hi.
      split; [lia|]. split; [reflexivity|]. f_equal. f_equal. lia.
    + destruct (Nat.eqb_spec dim 4) as [->|H4]; [|discriminate].
      injection Hax as <-. cbn [set_axis set_coord coord in_dims Nat.ltb Nat.leb] in *.
      rewrite <- (nth_default_irrelevant _ _ Hdim), <- HV in Hi.
      split; [lia|]. split; [reflexivity|]. f_equal. lia.
Qed.

Lemma set_nth_lt {A} i (v : A) : forall l l', set_nth i v l = Some l' -> i < length l'.
Proof.
  induction i as [|i IH]; intros [|x r] l' H; cbn [set_nth] in H; try discriminate.
  - injection H as <-. cbn [length]. lia.
  - destruct (set_nth i v r) as [r'|] eqn:E; [|discriminate]. cbn [option_map] in H. injection H as <-.
    cbn [length]. specialize (IH r r' E). lia.
Qed.

Lemma set_nth_get {A} i (v : A) : forall l l' d, set_nth i v l = Some l' -> nth i l' d = v.
Proof.
  induction i as [|i IH]; intros [|x r] l' d H; cbn [set_nth] in H; try discriminate.
  - injection H as <-. reflexivity.
  - destruct (set_nth i v r) as [r'|] eqn:E; [|discriminate]. cbn [option_map] in H. injection H as <-.
    cbn [nth]. apply (IH r r' d E).
Qed.

(** the pieces of a merged shape have the inputs' shape, up to the trimming of trailing singleton dims *)
Lemma merge_split_shape (ish shr sh1 : list nat) dim N :
  3 <= length ish <= 5 -> dim < 5 -> nth dim ish 1 = 1 ->
  set_nth dim N (pad_to (S dim) ish) = Some shr -> set_nth dim 1 shr = Some sh1 ->
  trim_ones sh1 = trim_ones ish.
Proof.
  intros Hn Hdim Hsing Hs Hs1.
  destruct ish as [|x [|y [|z [|t [|v [|w r]]]]]]; cbn [length] in Hn; try lia;
    destruct dim as [|[|[|[|[|dim]]]]]; try lia;
    cbn [nth] in Hsing; try subst;
    cbn [pad_to set_nth option_map] in Hs; injection Hs as <-;
    cbn [set_nth option_map] in Hs1; injection Hs1 as <-;
    rewrite ?trim_ones_3, ?trim_ones_4, ?trim_ones_5; cbn [Nat.eqb]; reflexivity.
Qed.

Section WithV.
  Context {V : Type} (veqb : V -> V -> bool) (vnone : V).
  Hypothesis veqb_spec : forall a b, reflect (a = b) (veqb a b).

  Notation ext := (ext V).
  Notation den := (den vnone).
  Notation canonical_mod_none := (canonical_mod_none vnone).
  Notation equiv_mod_none := (equiv_mod_none vnone).
  Notation get_subset := (get_subset veqb vnone).
  Notation from_sequence := (from_sequence veqb vnone).

  Lemma veqb_refl v : veqb v v = true.
  Proof. destruct (veqb_spec v v) as [_|H]; [reflexivity | contradiction H; reflexivity]. Qed.

  (** * Definitions *)

  (** every piece along [dim], in index order ([NiftiWrapper.split] at the extension level) *)
  Definition split_all (e : ext) (dim : nat) : res (list ext) :=
    mapM (get_subset e dim) (seq 0 (nth dim (shape (hdr_of e)) 0)).

  Definition roundtrip (e : ext) (dim : nat) (a : option (list (list Q))) (sd : option nat) : res ext :=
    do ps <- split_all e dim; from_sequence ps dim a sd.

  (** the domain: outside the regions of the open findings N2 / N4 (trailing singleton) and N3 (no slice dim) *)
  Definition rt_dom (e : ext) : Prop :=
    valid e /\ nondegenerate e /\ no_trailing1 (shape (hdr_of e)) = true /\ sdim (hdr_of e) <> None.

  (** the slice, time or vector axis, with at least two positions *)
  Definition rt_axis (e : ext) (dim : nat) : Prop :=
    (sdim (hdr_of e) = Some dim \/ dim = 3 \/ dim = 4) /\ dim < ndim (hdr_of e) /\ 2 <= nth dim (shape (hdr_of e)) 0.

  (** optional arguments of [from_sequence]: left out, or the parent's own affine / slice dim *)
  Definition arg_same {A} (o : option A) (x : A) : Prop := o = None \/ o = Some x.
  Definition sd_same (o : option nat) (x : option nat) : Prop := o = None \/ o = x.

  Lemma rt_axis_of (e : ext) dim :
    rt_axis e dim -> exists ax, ProofsMergeFrame.axis_of (sdim (hdr_of e)) dim = Some ax.
  Proof.
    intros [[H|[-> | ->]] _]; unfold ProofsMergeFrame.axis_of.
    - rewrite H. unfold odim_is. rewrite Nat.eqb_refl. eauto.
    - destruct (odim_is _ 3); eexists; reflexivity.
    - destruct (odim_is _ 4); eexists; reflexivity.
  Qed.

  (** * The pieces *)
  Record piece_facts (e : ext) (dim i : nat) (r : ext) : Prop := {
    pf_run : get_subset e dim i = Ok r;
    pf_valid : valid r;
    pf_nondeg : nondegenerate r;
    pf_shape : exists sh1, set_nth dim 1 (shape (hdr_of e)) = Some sh1 /\ shape (hdr_of r) = trim_ones sh1;
    pf_sdim : sdim (hdr_of r) = sdim (hdr_of e);
    pf_aff : aff (hdr_of r) = aff (hdr_of e);
    pf_dims : dims (hdr_of r) = sub_dims (hdr_of e) dim;
    pf_den : forall k p, in_dims (dims (hdr_of r)) p ->
               den r k p = den e k (set_axis (ProofsSubset.axis_of (hdr_of e) dim) i p);
    pf_keys : forall k, In k (keys_e r) -> In k (keys_e e) }.

  Lemma get_subset_keys (e r : ext) dim i k :
    get_subset e dim i = Ok r -> In k (keys_e r) -> In k (keys_e e).
  Proof.
    unfold Model.get_subset. intros H Hin.
    apply bind_ok in H as [hr [_ H]]. apply bind_ok in H as [u [_ H]]. apply bind_ok in H as [ents [Hents H]].
    injection H as <-. unfold keys_e in Hin. cbn [entries] in Hin.
    apply in_map_iff in Hin as [[k' x] [<- Hin]]. cbn [fst].
    destruct (map_keys_In _ _ _ _ _ Hents Hin) as [Hk _]. apply dk_out in Hk. exact Hk.
  Qed.

  Lemma piece_ok (e r : ext) dim i :
    valid e -> nondegenerate e -> no_trailing1 (shape (hdr_of e)) = true ->
    dim < ndim (hdr_of e) -> i < nth dim (shape (hdr_of e)) 0 ->
    get_subset e dim i = Ok r -> piece_facts e dim i r.
  Proof.
    intros Hv Hnd Hnt Hdim Hi H.
    destruct (get_subset_valid veqb vnone veqb_refl e r dim i Hv Hnd Hdim Hi H) as [Hvr Hndr].
    destruct (subset_shape_law veqb vnone e r dim i H) as [sh1 [Es [Hsh [Hsd Haff]]]].
    constructor; try assumption.
    - exists sh1. split; assumption.
    - pose proof H as H'. unfold Model.get_subset in H'.
      apply bind_ok in H' as [hr [Hhr H']]. apply bind_ok in H' as [u [_ H']]. apply bind_ok in H' as [ents [_ H']].
      injection H' as <-. cbn [hdr_of].
      destruct (subset_hdr_facts _ _ _ (hdr_wf_shape_wf _ (proj1 Hv)) Hhr Hdim) as [_ [_ [_ [_ [Hd _]]]]]. exact Hd.
    - exact (subset_den veqb vnone veqb_spec e r dim i Hv Hnt Hdim Hi H).
    - intros k. apply (get_subset_keys e r dim i k H).
  Qed.

  Lemma split_all_pieces (e : ext) dim ps :
    valid e -> nondegenerate e -> no_trailing1 (shape (hdr_of e)) = true -> dim < ndim (hdr_of e) ->
    split_all e dim = Ok ps ->
    length ps = nth dim (shape (hdr_of e)) 0 /\
    forall i d, i < length ps -> piece_facts e dim i (nth i ps d).
  Proof.
    intros Hv Hnd Hnt Hdim H. unfold split_all in H.
    destruct (mapM_inv _ _ _ H) as [Hl Hn]. rewrite seq_length in Hl, Hn. split; [exact Hl|].
    intros i d Hi. rewrite Hl in Hi. specialize (Hn i 0 d Hi). rewrite seq_nth in Hn by exact Hi. cbn [plus] in Hn.
    apply piece_ok; assumption.
  Qed.

  (** the pieces exist whenever every single [get_subset] succeeds (totality of [get_subset] itself is tied to the
      code by the correspondence, not proved) *)
  Lemma split_all_ok (e : ext) dim :
    (forall i, i < nth dim (shape (hdr_of e)) 0 -> exists r, get_subset e dim i = Ok r) ->
    exists ps, split_all e dim = Ok ps.
  Proof.
    intros H. unfold split_all. apply mapM_ok. intros i Hi. apply in_seq in Hi. apply H. lia.
  Qed.

  (** * Split then merge *)

  Lemma from_sequence_keys_incl (es : list ext) dim a sd r k :
    from_sequence es dim a sd = Ok r -> In k (keys_e r) -> exists x, In x es /\ In k (keys_e x).
  Proof.
    unfold Model.from_sequence. intros H Hin.
    apply bind_ok in H as [hfull [_ H]]. apply bind_ok in H as [ents [Hents H]]. injection H as <-.
    unfold keys_e in Hin. cbn [entries] in Hin. apply in_map_iff in Hin as [[k' x] [<- Hin]]. cbn [fst].
    destruct (map_keys_In _ _ _ _ _ Hents Hin) as [Hk _]. apply dk_out in Hk.
    apply in_flat_map in Hk. exact Hk.
  Qed.

  Theorem split_merge_law (e : ext) dim a sd ps :
    rt_dom e -> canonical_mod_none e -> rt_axis e dim ->
    arg_same a (aff (hdr_of e)) -> sd_same sd (sdim (hdr_of e)) ->
    split_all e dim = Ok ps ->
    exists e', from_sequence ps dim a sd = Ok e' /\
      shape (hdr_of e') = shape (hdr_of e) /\ sdim (hdr_of e') = sdim (hdr_of e) /\ aff (hdr_of e') = aff (hdr_of e) /\
      hdr_tight (hdr_of e') /\
      rt_dom e' /\ canonical_mod_none e' /\
      (forall k p, in_dims (dims (hdr_of e)) p -> den e' k p = den e k p) /\
      (forall k, In k (keys_e e') -> In k (keys_e e)) /\
      equiv_mod_none e e'.
  Proof.
    intros [Hv [Hnd [Hnt Hsdn]]] Hcan [Hwhich [Hdim Hn2]] Ha Hsd Hsplit.
    pose proof Hv as [Hw _]. pose proof Hw as [Hnd3 [Hpos [Hsd3 _]]].
    destruct (split_all_pieces e dim ps Hv Hnd Hnt Hdim Hsplit) as [Hlen Hpieces].
    destruct (rt_axis_of e dim (conj Hwhich (conj Hdim Hn2))) as [ax Hax].
    (* the first piece *)
    destruct ps as [|e0 rest] eqn:Eps; [cbn [length] in Hlen; lia|]. rewrite <- Eps in *.
    assert (Hhd : hd_error ps = Some e0) by (rewrite Eps; reflexivity).
    assert (Hnth : forall x, In x ps -> exists i, i < length ps /\ piece_facts e dim i x).
    { intros x Hx. destruct (In_nth _ _ e0 Hx) as [i [Hi <-]]. exists i. split; [exact Hi | apply Hpieces; exact Hi]. }
    assert (P0 : piece_facts e dim 0 e0).
    { pose proof (Hpieces 0 e0 ltac:(lia)) as P. rewrite Eps in P. exact P. }
    destruct (pf_shape _ _ _ _ P0) as [sh1 [Es Hsh0]].
    unfold ndim in Hdim, Hnd3.
    destruct (split_merge_shape _ _ dim Hnd3 Hpos Hnt Hdim Es) as [Hback [Hsing Hn1]].
    (* slice dim / affine of the result *)
    assert (Hosd : out_sdim sd e0 = sdim (hdr_of e)).
    { unfold out_sdim. destruct Hsd as [->| ->]; [apply (pf_sdim _ _ _ _ P0)|].
      destruct (sdim (hdr_of e)); [reflexivity | contradiction]. }
    assert (Hin : inputs_ok ps e0 sd).
    { split; [exact Hhd|]. split; [lia|]. intros x Hx. destruct (Hnth x Hx) as [i [_ P]].
      split; [apply (pf_valid _ _ _ _ P)|]. split.
      - destruct (pf_shape _ _ _ _ P) as [sh1' [Es' Hsh']]. rewrite Es in Es'. injection Es' as <-. congruence.
      - rewrite Hosd. apply (pf_sdim _ _ _ _ P). }
    assert (Hargs : args_ok a sd).
    { split.
      - destruct Ha as [->| ->]; [exact I|]. apply Hw.
      - destruct Hsd as [->| ->]; [exact I|]. destruct (sdim (hdr_of e)) as [d|] eqn:E; [apply Hsd3; reflexivity | exact I]. }
    assert (Hdim5 : dim < 5) by lia.
    assert (Hout : forall sh, set_nth dim (length ps) (pad_to (S dim) (shape (hdr_of e0))) = Some sh -> sh = shape (hdr_of e)).
    { intros sh Hs. rewrite Hlen, Hsh0, Hback in Hs. injection Hs as <-. reflexivity. }
    destruct (merge_total veqb vnone veqb_spec ps e0 dim a sd Hin Hargs Hdim5) as [e' Hm].
    { rewrite Hsh0. exact Hsing. }
    { rewrite Hsh0. exact Hn1. }
    { intros _. rewrite Hosd. exact Hsdn. }
    { intros sh Hs. rewrite (Hout sh Hs). apply trailing_flags. exact Hnt. }
    exists e'. split; [exact Hm|].
    pose proof (from_sequence_shape veqb vnone e0 rest dim a sd e') as Hshape.
    rewrite <- Eps in Hshape. specialize (Hshape Hm). destruct Hshape as [Hs1 _].
    assert (Hlen' : S (length rest) = length ps) by (rewrite Eps; reflexivity). rewrite Hlen' in Hs1.
    assert (Hshape : shape (hdr_of e') = shape (hdr_of e)) by (apply Hout; exact Hs1).
    assert (Htr : trailing1b (shape (hdr_of e')) = false) by (rewrite Hshape; apply trailing_flags; exact Hnt).
    assert (Hax' : ProofsMergeFrame.axis_of (out_sdim sd e0) dim = Some ax) by (rewrite Hosd; exact Hax).
    assert (Hn3 : 3 <= dim -> out_sdim sd e0 <> None) by (intros _; rewrite Hosd; exact Hsdn).
    destruct (merge_den veqb vnone veqb_spec ps e0 dim a sd e' ax Hin Hm Hax' Hn3 Htr)
      as [_ [Hsd' [Haff' [Hv' Hden']]]].
    rewrite Hosd in Hsd'.
    assert (Haff : aff (hdr_of e') = aff (hdr_of e)).
    { rewrite Haff'. destruct Ha as [->| ->]; [apply (pf_aff _ _ _ _ P0) | reflexivity]. }
    destruct (merge_setup veqb vnone ps e0 dim a sd e' Hin Hm) as [_ [_ [F _]]].
    assert (Htight : hdr_tight (hdr_of e')) by (intros c; apply (fr_bases _ _ _ _ F)).
    (* closure: valid, nondegenerate *)
    assert (Hall : forall x, In x ps -> valid x /\ nondegenerate x).
    { intros x Hx. destruct (Hnth x Hx) as [i [_ P]]. split; [apply (pf_valid _ _ _ _ P) | apply (pf_nondeg _ _ _ _ P)]. }
    assert (Hmd : merge_dom ps sd).
    { rewrite Eps. cbn [merge_dom]. split.
      - unfold res_sdim. pose proof (pf_sdim _ _ _ _ P0) as Q0. destruct Hsd as [->| ->]; [reflexivity|].
        rewrite Q0. destruct (sdim (hdr_of e)); reflexivity.
      - intros x Hx. rewrite <- Eps in Hx. destruct (Hnth x Hx) as [i [_ P]]. split.
        + destruct (pf_shape _ _ _ _ P) as [sh1' [Es' Hsh']]. rewrite Es in Es'. injection Es' as <-. congruence.
        + rewrite (pf_sdim _ _ _ _ P), (pf_sdim _ _ _ _ P0). reflexivity. }
    destruct (from_sequence_valid veqb vnone veqb_refl ps dim a sd e' Hall Hmd Hm) as [_ Hnd'].
    (* canonical *)
    assert (Hcan' : canonical_mod_none e').
    { apply (merge_canonical_axis veqb vnone veqb_spec ps e0 rest dim a sd ax e' Eps).
      - rewrite Eps in Hlen. cbn [length] in Hlen. lia.
      - intros x Hx. destruct (Hin) as [_ [_ Hi]]. destruct (Hi x Hx) as [Hvx [Hsx Hdx]].
        split; [exact Hvx|]. split; [apply (Hall x Hx)|]. split; [exact Hsx | exact Hdx].
      - exact Hax'.
      - exact Hn3.
      - exact Hm. }
    (* denotation *)
    assert (Hd : dims (hdr_of e') = dims (hdr_of e)) by (apply dims_same; assumption).
    assert (Hden : forall k p, in_dims (dims (hdr_of e)) p -> den e' k p = den e k p).
    { intros k p Hp. rewrite <- Hd in Hp. rewrite (Hden' k p Hp). rewrite Hd in Hp.
      destruct (axis_sub_dims (hdr_of e) dim ax p Hax Hdim Hp) as [Hq Hc].
      assert (Hi : coord ax p < length ps) by (rewrite Hlen; exact Hc).
      pose proof (Hpieces _ e0 Hi) as P. set (x := nth (coord ax p) ps e0) in *.
      rewrite den_in_use.
      - rewrite (pf_den _ _ _ _ P k (set_coord ax p 0)) by (rewrite (pf_dims _ _ _ _ P); exact Hq).
        rewrite (axes_agree (hdr_of e) dim ax p Hax). reflexivity.
      - apply use_slices_same_hdr.
        + rewrite Hsd', (pf_sdim _ _ _ _ P). reflexivity.
        + rewrite Hsd'. exact Hsdn.
        + rewrite Haff, (pf_aff _ _ _ _ P). reflexivity. }
    assert (Hkeys : forall k, In k (keys_e e') -> In k (keys_e e)).
    { intros k Hk. destruct (from_sequence_keys_incl ps dim a sd e' k Hm Hk) as [x [Hx Hkx]].
      destruct (Hnth x Hx) as [i [_ P]]. apply (pf_keys _ _ _ _ P). exact Hkx. }
    split; [exact Hshape|]. split; [exact Hsd'|]. split; [exact Haff|]. split; [exact Htight|].
    split; [split; [exact Hv'|]; split; [exact Hnd'|]; split; [rewrite Hshape; exact Hnt | rewrite Hsd'; exact Hsdn]|].
    split; [exact Hcan'|]. split; [exact Hden|]. split; [exact Hkeys|].
    apply canonical_unique; try assumption; try (symmetry; assumption).
    intros k p Hp. symmetry. apply Hden. exact Hp.
  Qed.

  (** equal as unordered maps when [e] is canonical in the literal sense (no all-None key) *)
  Theorem split_merge_strict (e : ext) dim a sd ps :
    rt_dom e -> canonical vnone e -> hdr_tight (hdr_of e) -> rt_axis e dim ->
    arg_same a (aff (hdr_of e)) -> sd_same sd (sdim (hdr_of e)) ->
    split_all e dim = Ok ps ->
    exists e', from_sequence ps dim a sd = Ok e' /\ ext_equiv e e' /\ rt_dom e' /\ canonical vnone e'.
  Proof.
    intros Hdom Hcan Ht Hax Ha Hsd Hsplit.
    pose proof (canonical_canonical_mod_none vnone e Hcan) as Hcm.
    destruct (split_merge_law e dim a sd ps Hdom Hcm Hax Ha Hsd Hsplit)
      as [e' [Hm [Hsh [Hsd' [Haff [Ht' [Hdom' [Hcan' [Hden [Hkeys _]]]]]]]]]].
    exists e'. split; [exact Hm|].
    assert (Hl : forall k, lookup_e e k = lookup_e e' k).
    { apply (canonical_unique_strict vnone e e' Hcan Hcan'); try (symmetry; assumption); [|exact Hkeys].
      intros k p Hp. symmetry. apply Hden. exact Hp. }
    assert (Hh : hdr_of e = hdr_of e').
    { pose proof (Ht TSamples) as H1. pose proof (Ht VSamples) as H2.
      pose proof (Ht' TSamples) as H1'. pose proof (Ht' VSamples) as H2'.
      cbn [base_of has_base] in H1, H2, H1', H2'. rewrite Hsh in H1', H2'.
      destruct (hdr_of e) as [s1 d1 a1 t1 v1], (hdr_of e') as [s2 d2 a2 t2 v2]. cbn [shape sdim aff has_time has_vec] in *.
      congruence. }
    split; [split; [exact Hh | exact Hl]|]. split; [exact Hdom'|].
    (* literal canonicity transfers along equality of lookups *)
    destruct Hcan' as [Hv' Hc']. split; [exact Hv'|]. intros k c vs Hin. split; [apply (Hc' k c vs Hin)|].
    destruct Hv' as [_ [Hnd' _]]. pose proof (In_lookup _ _ _ Hnd' Hin) as El. rewrite <- Hl in El.
    destruct Hcan as [_ Hc]. destruct (Hc _ _ _ (lookup_In _ _ _ El)) as [_ [p [Hp Hne]]].
    exists p. rewrite <- Hh. split; [exact Hp|]. rewrite (Hden k p Hp). exact Hne.
  Qed.

  (** * Merge then split *)

  (** every piece of a merged extension reads, at every position, what the input at that place contributes
      ([den_in]: the input's own lookup; without its per-slice classes when its slice normal differs from the
      result's), has the inputs' shape (trailing singleton dimensions trimmed, as [get_subset] does) and slice
      dimension, and is valid and nondegenerate *)
  Theorem merge_split_law (es : list ext) (e0 : ext) dim a sd r ax :
    inputs_ok es e0 sd -> (forall x, In x es -> nondegenerate x) ->
    from_sequence es dim a sd = Ok r ->
    ProofsMergeFrame.axis_of (out_sdim sd e0) dim = Some ax ->
    (3 <= dim -> out_sdim sd e0 <> None) ->
    trailing1b (shape (hdr_of r)) = false ->
    forall i piece, i < length es -> get_subset r dim i = Ok piece ->
      shape (hdr_of piece) = trim_ones (shape (hdr_of e0)) /\
      sdim (hdr_of piece) = out_sdim sd e0 /\
      valid piece /\ nondegenerate piece /\
      forall k p, in_dims (dims (hdr_of piece)) p ->
        den piece k p = den_in vnone (hdr_of r) (nth i es e0) k p.
  Proof.
    intros Hin Hndg Hm Hax Hn3 Htr i piece Hi Hs.
    destruct (merge_den veqb vnone veqb_spec es e0 dim a sd r ax Hin Hm Hax Hn3 Htr) as [Hsh [Hsd [_ [Hv Hden]]]].
    destruct (merge_setup veqb vnone es e0 dim a sd r Hin Hm) as [_ [_ [F _]]].
    pose proof Hin as [Hhd [HN Hall]].
    assert (Hnt : no_trailing1 (shape (hdr_of r)) = true).
    { unfold trailing1b in Htr. unfold no_trailing1. apply andb_false_iff in Htr as [H|H].
      - apply Nat.ltb_ge in H. apply orb_true_iff. left. apply Nat.leb_le. exact H.
      - rewrite H. apply orb_true_r. }
    assert (Hmd : merge_dom es sd).
    { destruct es as [|x0 rest]; [discriminate|]. cbn [hd_error] in Hhd. injection Hhd as ->. cbn [merge_dom].
      destruct (Hall e0 (or_introl eq_refl)) as [_ [_ H0]]. split.
      - unfold res_sdim, out_sdim in *. destruct sd; [symmetry; exact H0 | reflexivity].
      - intros x Hx. destruct (Hall x Hx) as [_ [H1 H2]]. split; [exact H1 | congruence]. }
    destruct (from_sequence_valid veqb vnone veqb_refl es dim a sd r (fun x Hx => conj (proj1 (Hall x Hx)) (Hndg x Hx)) Hmd Hm)
      as [_ Hndr].
    assert (Hdimr : dim < ndim (hdr_of r)) by (unfold ndim; apply (set_nth_lt _ _ _ _ Hsh)).
    assert (Hir : i < nth dim (shape (hdr_of r)) 0) by (rewrite (set_nth_get _ _ _ _ 0 Hsh); exact Hi).
    destruct (piece_ok r piece dim i Hv Hndr Hnt Hdimr Hir Hs) as [_ Hvp Hndp [sh1 [Es Hshp]] Hsdp _ Hdp Hdenp _].
    split.
    - rewrite Hshp.
      apply (merge_split_shape (shape (hdr_of e0)) (shape (hdr_of r)) sh1 dim (length es));
        [apply (fr_nd _ _ _ _ F) | apply (fr_dim _ _ _ _ F) | apply (fr_sing _ _ _ _ F) | exact Hsh | exact Es].
    - split; [rewrite Hsdp; exact Hsd|]. split; [exact Hvp|]. split; [exact Hndp|].
      intros k p Hp. rewrite (Hdenp k p Hp).
      assert (Haxr : ProofsMergeFrame.axis_of (sdim (hdr_of r)) dim = Some ax) by (rewrite Hsd; exact Hax).
      rewrite Hdp in Hp.
      destruct (axis_sub_dims_inv (hdr_of r) dim ax p i Haxr Hdimr Hp Hir) as [Hq [Hc Hz]].
      rewrite (Hden k _ Hq), Hc, Hz. reflexivity.
  Qed.

  (** ... which is the input's own lookup when its slice normal is the result's *)
  Corollary merge_split_same_normal (es : list ext) (e0 : ext) dim a sd r ax :
    inputs_ok es e0 sd -> (forall x, In x es -> nondegenerate x) ->
    from_sequence es dim a sd = Ok r ->
    ProofsMergeFrame.axis_of (out_sdim sd e0) dim = Some ax ->
    (3 <= dim -> out_sdim sd e0 <> None) ->
    trailing1b (shape (hdr_of r)) = false ->
    forall i piece, i < length es -> get_subset r dim i = Ok piece ->
      use_slices (hdr_of r) (hdr_of (nth i es e0)) = true ->
      forall k p, in_dims (dims (hdr_of piece)) p -> den piece k p = den (nth i es e0) k p.
  Proof.
    intros Hin Hndg Hm Hax Hn3 Htr i piece Hi Hs Hu k p Hp.
    destruct (merge_split_law es e0 dim a sd r ax Hin Hndg Hm Hax Hn3 Htr i piece Hi Hs) as [_ [_ [_ [_ H]]]].
    rewrite (H k p Hp). apply den_in_use. exact Hu.
  Qed.

  (** * Chains: split along a, merge, split along b, merge, ... *)

  (** one round trip; the flags say whether [from_sequence] gets the parent's affine / slice dim as arguments
      (as [NiftiWrapper.from_sequence] passes them) or leaves them out *)
  Inductive step := Step (dim : nat) (with_aff with_sd : bool).
  Definition step_dim (s : step) : nat := let '(Step d _ _) := s in d.

  Definition run_step (e : ext) (s : step) : res ext :=
    let '(Step d wa ws) := s in
    roundtrip e d (if wa then Some (aff (hdr_of e)) else None) (if ws then sdim (hdr_of e) else None).

  (** every intermediate merged result, in order *)
  Fixpoint run_chain (e : ext) (steps : list step) : res (list ext) :=
    match steps with
    | [] => Ok []
    | s :: r => do e' <- run_step e s; do l <- run_chain e' r; Ok (e' :: l)
    end.

  Lemma ext_equiv_sym (a b : ext) : ext_equiv a b -> ext_equiv b a.
  Proof. intros [H1 H2]. split; [symmetry; exact H1 | intros k; symmetry; apply H2]. Qed.

  Lemma ext_equiv_trans (a b c : ext) : ext_equiv a b -> ext_equiv b c -> ext_equiv a c.
  Proof. intros [H1 H2] [H1' H2']. split; [congruence | intros k; rewrite H2; apply H2']. Qed.

  Lemma rt_axis_equiv (a b : ext) dim : ext_equiv a b -> rt_axis a dim -> rt_axis b dim.
  Proof. intros [Hh _]. unfold rt_axis. rewrite Hh. tauto. Qed.

  (** the only way a round trip can fail on the domain is a failing [get_subset] *)
  Theorem step_law (e : ext) (s : step) :
    rt_dom e -> canonical vnone e -> hdr_tight (hdr_of e) -> rt_axis e (step_dim s) ->
    (forall i, i < nth (step_dim s) (shape (hdr_of e)) 0 -> exists r, get_subset e (step_dim s) i = Ok r) ->
    exists e', run_step e s = Ok e' /\ ext_equiv e e' /\ rt_dom e' /\ canonical vnone e' /\ hdr_tight (hdr_of e').
  Proof.
    destruct s as [d wa ws]. cbn [step_dim run_step]. intros Hdom Hcan Ht Hax Hsub.
    destruct (split_all_ok e d Hsub) as [ps Hps].
    destruct (split_merge_strict e d (if wa then Some (aff (hdr_of e)) else None) (if ws then sdim (hdr_of e) else None) ps
                Hdom Hcan Ht Hax) as [e' [Hm [Heq [Hdom' Hcan']]]].
    - destruct wa; [right | left]; reflexivity.
    - destruct ws; [right | left]; reflexivity.
    - exact Hps.
    - exists e'. unfold roundtrip. rewrite Hps. cbn [bind]. split; [exact Hm|]. split; [exact Heq|].
      split; [exact Hdom'|]. split; [exact Hcan'|]. destruct Heq as [<- _]. exact Ht.
  Qed.

  (** every finite chain: if each [get_subset] of the STARTING extension along the dims of the chain succeeds,
      the whole chain runs, and every intermediate merged result equals the starting extension as an unordered map *)
  Theorem chain_law (steps : list step) : forall (e : ext),
    rt_dom e -> canonical vnone e -> hdr_tight (hdr_of e) ->
    (forall s, In s steps -> rt_axis e (step_dim s)) ->
    (forall s i, In s steps -> i < nth (step_dim s) (shape (hdr_of e)) 0 -> exists r, get_subset e (step_dim s) i = Ok r) ->
    exists l, run_chain e steps = Ok l /\ length l = length steps /\
              forall e', In e' l -> ext_equiv e e' /\ rt_dom e' /\ canonical vnone e'.
  Proof.
    induction steps as [|s rest IH]; intros e Hdom Hcan Ht Hax Hsub.
    - exists []. split; [reflexivity|]. split; [reflexivity|]. intros e' [].
    - destruct (step_law e s Hdom Hcan Ht (Hax s (or_introl eq_refl)) (fun i Hi => Hsub s i (or_introl eq_refl) Hi))
        as [e1 [H1 [Heq [Hdom1 [Hcan1 Ht1]]]]].
      destruct (IH e1 Hdom1 Hcan1 Ht1) as [l [Hl [Hlen Hall]]].
      + intros s' Hs'. apply (rt_axis_equiv e e1 _ Heq). apply Hax. right. exact Hs'.
      + intros s' i Hs' Hi. destruct Heq as [Hh Hlk]. rewrite <- Hh in Hi.
        destruct (Hsub s' i (or_intror Hs') Hi) as [r Hr].
        destruct (subset_equiv veqb vnone e e1 r (step_dim s') i (conj Hh Hlk) Hr) as [r' [Hr' _]]. eauto.
      + exists (e1 :: l). cbn [run_chain]. rewrite H1. cbn [bind]. rewrite Hl. cbn [bind].
        split; [reflexivity|]. split; [cbn [length]; rewrite Hlen; reflexivity|].
        intros e' [<-|Hin]; [split; [exact Heq|]; split; assumption|].
        destruct (Hall e' Hin) as [Heq' [Hd' Hc']]. split; [eapply ext_equiv_trans; eassumption|]. split; assumption.
  Qed.

  (** partial-correctness form: whatever a chain returns, every intermediate result is the starting extension *)
  Theorem chain_partial_correct (steps : list step) : forall (e : ext) l,
    rt_dom e -> canonical vnone e -> hdr_tight (hdr_of e) ->
    (forall s, In s steps -> rt_axis e (step_dim s)) ->
    run_chain e steps = Ok l ->
    length l = length steps /\ forall e', In e' l -> ext_equiv e e' /\ rt_dom e' /\ canonical vnone e'.
  Proof.
    induction steps as [|s rest IH]; intros e l Hdom Hcan Ht Hax H; cbn [run_chain] in H.
    - injection H as <-. split; [reflexivity | intros e' []].
    - apply bind_ok in H as [e1 [H1 H]]. apply bind_ok in H as [l1 [Hl H]]. injection H as <-.
      destruct s as [d wa ws]. cbn [run_step] in H1. unfold roundtrip in H1. apply bind_ok in H1 as [ps [Hps Hm]].
      assert (Ha : arg_same (if wa then Some (aff (hdr_of e)) else None) (aff (hdr_of e)))
        by (destruct wa; [right | left]; reflexivity).
      assert (Hs : sd_same (if ws then sdim (hdr_of e) else None) (sdim (hdr_of e)))
        by (destruct ws; [right | left]; reflexivity).
      destruct (split_merge_strict e d _ _ ps Hdom Hcan Ht (Hax _ (or_introl eq_refl)) Ha Hs Hps)
        as [e1' [Hm' [Heq [Hdom1 Hcan1]]]].
      rewrite Hm in Hm'. injection Hm' as <-.
      assert (Ht1 : hdr_tight (hdr_of e1)) by (destruct Heq as [<- _]; exact Ht).
      destruct (IH e1 l1 Hdom1 Hcan1 Ht1) as [Hlen Hall]; [|exact Hl|].
      + intros s' Hs'. apply (rt_axis_equiv e e1 _ Heq). apply Hax. right. exact Hs'.
      + split; [cbn [length]; rewrite Hlen; reflexivity|].
        intros e' [<-|Hin]; [split; [exact Heq|]; split; assumption|].
        destruct (Hall e' Hin) as [Heq' [Hd' Hc']]. split; [eapply ext_equiv_trans; eassumption|]. split; assumption.
  Qed.
End WithV.
