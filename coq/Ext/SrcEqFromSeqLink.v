From Coq Require Import List Bool Arith NArith ZArith QArith Lia.
From DV Require Import Common.Res Common.Str Common.Jv Common.PyOps2 Common.PyOps2Dyn Generated.T_classes Generated.T_src_ext
     Generated.T_src_state Ext.Types Ext.Classes Ext.Seq Ext.SeqFacts Ext.Model Ext.TableFacts Ext.SrcEq Ext.SrcEqAlg Ext.SrcEqState
     Ext.SrcEqSubset Ext.SrcEqSample Ext.SrcEqGetSubset Ext.SrcEqInsert Ext.SrcEqInsertAll Ext.SrcEqFromSeq
     Ext.ProofsValidBase Link.Abs Link.ProofsTo Ext.SrcEqStateLink.
Import ListNotations.
Local Open Scope nat_scope.

(** from_sequence at the extension level: when the hand model's [from_sequence es dim None sd] succeeds with [r], the translated
    class method run on the contents of the extensions (Link/Abs.v [to_content]) returns a content that holds exactly
    [lookup_e r], for the header merge_hdr computes. *)

Lemma insert_all_none (hfull : hdr) (dim : nat) (l : list hdr) : forall j,
  insert_all_k jv_eqb JNull hfull dim j (map (fun h => (h, @None (cls * list jv))) l) None = Ok None.
Proof.
  induction l as [|h r IH]; intros j; [reflexivity|]. cbn [map insert_all_k]. rewrite insert_k_unfold. cbn. apply IH.
Qed.

(** an extension with its slice-normal token as an input of the translation *)
Definition ext_input (qtok : Q -> str) (en : ext jv * option nat) : input :=
  (hdr_of (fst en), to_members qtok (fst en), lookup_e (fst en), snd en).

Theorem from_sequence_ext_ref (qtok : Q -> str) (mk : list nat -> option nat -> res jv) (mkn : option nat -> res (option nat))
    (en0 : ext jv * option nat) (ens : list (ext jv * option nat)) (dim : nat) (sd : option nat) (r : ext jv)
    (oe : obj) (rn : option nat) :
  let es := map fst (en0 :: ens) in
  let hfull := hdr_of r in
  from_sequence jv_eqb JNull es dim None sd = Ok r ->
  (forall en, In en (en0 :: ens) -> NoDup (keys_e (fst en)) /\ ndim_ok (hdr_of (fst en)) = true /\ bases_ok (hdr_of (fst en)) /\
      (forall k, visible (hdr_of (fst en)) (lookup_e (fst en) k) = lookup_e (fst en) k) /\
      (forall k, kst_storable (hdr_of (fst en)) (lookup_e (fst en) k)) /\
      tok_eq rn (snd en) = use_slices hfull (hdr_of (fst en))) ->
  mk (shape hfull) (sdim hfull) = Ok (JObj oe) -> Holds oe hfull (fun _ => None) -> mkn (sdim hfull) = Ok rn ->
  (odim_is (sdim hfull) dim = true -> prod_list (skipn 3 (shape hfull)) <> 0) ->
  (forall k, traj_ok hfull dim 1 (map (fun en => (hdr_of (fst en), lookup_e (fst en) k)) ens)
                     (init_k hfull (hdr_of (fst en0)) (lookup_e (fst en0) k))) ->
  (forall k ks, insert_all_k jv_eqb JNull hfull dim 1 (map (fun en => (hdr_of (fst en), lookup_e (fst en) k)) ens)
                             (init_k hfull (hdr_of (fst en0)) (lookup_e (fst en0) k)) = Ok ks -> final_ok hfull ks) ->
  merge_hdr (map (@hdr_of jv) es) dim None sd = Ok hfull /\
  exists o', from_sequence_st mk mkn classifications None preserving_changes (okeys const_tests) (okeys repeat_tests) JNull
                              (map to_inst (map (ext_input qtok) (en0 :: ens))) dim None sd = Ok (JObj o') /\
             Holds o' hfull (lookup_e r).
Proof.
  intros es hfull Hfs Hgood Hmk Hoe Hmkn Hnv Htraj Hfin. unfold from_sequence in Hfs.
  destruct (merge_hdr (map (@hdr_of jv) es) dim None sd) as [hf|] eqn:Emh; [|discriminate Hfs]. cbn [bind] in Hfs.
  destruct (map_keys _ _) as [ents|] eqn:Emk; [|discriminate Hfs]. cbn [bind] in Hfs. injection Hfs as <-.
  assert (Ehf : hfull = hf) by reflexivity. split; [rewrite Ehf; reflexivity|].
  assert (Hmap : forall (l : list (ext jv * option nat)) (k : key),
            map (fun i => (in_hdr i, in_fn i k)) (map (ext_input qtok) l) = map (fun en => (hdr_of (fst en), lookup_e (fst en) k)) l).
  { intros l k. rewrite map_map. reflexivity. }
  apply (from_sequence_st_ref mk mkn (ext_input qtok en0) (map (ext_input qtok) ens) dim sd hfull oe rn (lookup_e (mk_ext hf ents))).
  - change (ext_input qtok en0 :: map (ext_input qtok) ens) with (map (ext_input qtok) (en0 :: ens)).
    rewrite map_map. unfold es in Emh. rewrite map_map in Emh. exact Emh.
  - intros i Hi. change (ext_input qtok en0 :: map (ext_input qtok) ens) with (map (ext_input qtok) (en0 :: ens)) in Hi.
    apply in_map_iff in Hi. destruct Hi as [en [<- Hen]]. destruct (Hgood en Hen) as (Hnd & Hok & Hb & Hv & Hs & Ht).
    unfold ext_input, good_input. split; [exact (to_content_holds qtok (fst en) Hnd)|]. repeat split; assumption.
  - exact Hmk.
  - exact Hoe.
  - exact Hmkn.
  - exact Hnv.
  - intros k. rewrite Hmap. exact (Htraj k).
  - intros k ks. rewrite Hmap. exact (Hfin k ks).
  - intros k. change (ext_input qtok en0 :: map (ext_input qtok) ens) with (map (ext_input qtok) (en0 :: ens)). rewrite Hmap.
    change (lookup_e (mk_ext hf ents) k) with (assoc k ents).
    destruct (map_keys_assoc _ _ _ k Emk (dedup_keys_NoDup [] (flat_map (@keys_e jv) es))) as [H1 H2].
    destruct (in_dec (fun a b => match str_eqb_spec a b with ReflectT _ p => left p | ReflectF _ p => right p end) k
                     (dedup_keys [] (flat_map (@keys_e jv) es))) as [Hin|Hni].
    + pose proof (H1 Hin) as Hk. unfold es in Hk. rewrite map_map in Hk. exact Hk.
    + rewrite (H2 Hni).
      assert (Hnone : forall en, In en (en0 :: ens) -> lookup_e (fst en) k = None).
      { intros en Hen. unfold lookup_e. apply assoc_None. intros Hk. apply Hni. apply dedup_keys_nil_In. apply in_flat_map.
        exists (fst en). split; [unfold es; apply in_map; exact Hen | exact Hk]. }
      replace (map (fun en => (hdr_of (fst en), lookup_e (fst en) k)) (en0 :: ens))
        with (map (fun h => (h, @None (cls * list jv))) (map (fun en : ext jv * option nat => hdr_of (fst en)) (en0 :: ens))).
      2:{ rewrite map_map. apply map_ext_in. intros en Hen. rewrite (Hnone en Hen). reflexivity. }
      cbn [map merge_k]. unfold init_k, visible. rewrite (insert_all_none hf dim _ 1). reflexivity.
Qed.
