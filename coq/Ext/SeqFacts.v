(** [nth]-level laws of the list operations of Ext/Seq.v (layout lemmas). *)
From Coq Require Import List Bool Arith Lia.
From DV Require Import Common.Res Ext.Seq.
Import ListNotations.
Local Open Scope nat_scope.

Lemma nth_skipn' {A} k i (l : list A) d : nth i (skipn k l) d = nth (k + i) l d.
Proof.
  revert l. induction k as [|k IH]; intros l; [reflexivity|].
  destruct l as [|x r]; [destruct i; reflexivity|]. cbn [skipn Nat.add nth]. apply IH.
Qed.

Lemma nth_firstn' {A} n i (l : list A) d : i < n -> nth i (firstn n l) d = nth i l d.
Proof.
  revert i l. induction n as [|n IH]; intros i l Hi; [lia|].
  destruct l as [|x r]; [destruct i; reflexivity|]. destruct i; [reflexivity|]. cbn [firstn nth]. apply IH. lia.
Qed.

(** ** strided slices *)
Lemma every_nth_fuel_nth {A} fuel stride (l : list A) i d :
  1 <= stride -> length l <= fuel -> nth i (every_nth_fuel fuel stride l) d = nth (i * stride) l d.
Proof.
  intros Hs. revert l i. induction fuel as [|f IH]; intros l i Hl.
  - destruct l; [|cbn in Hl; lia]. cbn. destruct i; destruct (_ * _); reflexivity.
  - destruct l as [|x r]; [cbn; destruct i; destruct (_ * _); reflexivity|].
    cbn [every_nth_fuel]. destruct i as [|j]; [reflexivity|].
    change (nth (S j) (x :: every_nth_fuel f stride (skipn stride (x :: r))) d)
      with (nth j (every_nth_fuel f stride (skipn stride (x :: r))) d).
    rewrite IH.
    + rewrite nth_skipn'. f_equal; nia.
    + rewrite skipn_length. cbn [length] in *. lia.
Qed.

Lemma every_nth_nth {A} idx stride (l : list A) i d :
  1 <= stride -> nth i (every_nth idx stride l) d = nth (idx + i * stride) l d.
Proof.
  intros Hs. unfold every_nth. rewrite every_nth_fuel_nth; [apply nth_skipn' | exact Hs|].
  rewrite skipn_length. lia.
Qed.

Lemma every_nth_fuel_length {A} stride n : 1 <= stride ->
  forall fuel (l : list A), length l <= fuel ->
    ((n = 0 /\ length l = 0) \/ (1 <= n /\ stride * (n - 1) < length l <= stride * n)) ->
    length (every_nth_fuel fuel stride l) = n.
Proof.
  intros Hs. induction n as [|m IH]; intros fuel l Hf Hc.
  - destruct Hc as [[_ H0]|[H1 _]]; [|lia]. destruct l; [|discriminate]. destruct fuel; reflexivity.
  - destruct Hc as [[H0 _]|[_ Hr]]; [lia|].
    destruct l as [|x r]; [cbn in Hr; lia|]. destruct fuel as [|f]; [cbn in Hf; lia|].
    cbn [every_nth_fuel length]. f_equal. apply IH.
    + rewrite skipn_length. cbn [length] in *. lia.
    + rewrite skipn_length. replace (S m - 1) with m in Hr by lia. cbn [length] in *.
      destruct m as [|m']; [left; split; [reflexivity|lia]|].
      right. split; [lia|]. replace (S m' - 1) with m' by lia. nia.
Qed.

Lemma every_nth_length {A} idx stride n (l : list A) :
  1 <= stride -> idx < stride -> length l = stride * n -> length (every_nth idx stride l) = n.
Proof.
  intros Hs Hi Hl. unfold every_nth. apply every_nth_fuel_length; [exact Hs | rewrite skipn_length; lia|].
  rewrite skipn_length, Hl. destruct n as [|m]; [left; split; [reflexivity|lia]|].
  right. split; [lia|]. replace (S m - 1) with m by lia. nia.
Qed.

(** ** contiguous slices *)
Lemma py_slice_nth {A} a b (l : list A) i d : i < b - a -> nth i (py_slice a b l) d = nth (a + i) l d.
Proof. intros Hi. unfold py_slice. rewrite nth_firstn' by exact Hi. apply nth_skipn'. Qed.

Lemma py_slice_length {A} a b (l : list A) : b <= length l -> length (py_slice a b l) = b - a.
Proof. intros Hb. unfold py_slice. rewrite firstn_length, skipn_length. lia. Qed.

(** ** replication *)
Lemma rep_list_length {A} n (l : list A) : length (rep_list n l) = n * length l.
Proof.
  unfold rep_list. induction n as [|n IH]; [reflexivity|]. cbn [repeat concat]. rewrite app_length, IH. lia.
Qed.

Lemma rep_list_nth {A} n (l : list A) i d :
  i < n * length l -> nth i (rep_list n l) d = nth (i mod length l) l d.
Proof.
  unfold rep_list. revert i. induction n as [|n IH]; intros i Hi; [lia|].
  cbn [repeat concat]. assert (Hm : length l <> 0) by (intros E; rewrite E in Hi; lia).
  destruct (Nat.lt_ge_cases i (length l)) as [Hlt|Hge].
  - rewrite app_nth1 by exact Hlt. rewrite Nat.mod_small by exact Hlt. reflexivity.
  - rewrite app_nth2 by exact Hge. rewrite IH by lia. f_equal.
    replace i with ((i - length l) + 1 * length l) at 2 by lia. rewrite Nat.mod_add by exact Hm. reflexivity.
Qed.

Lemma nth_repeat_lt {A} (x d : A) n i : i < n -> nth i (repeat x n) d = x.
Proof. revert i. induction n as [|n IH]; intros i Hi; [lia|]. destruct i; [reflexivity|]. cbn [repeat nth]. apply IH. lia. Qed.

Lemma rep_each_length {A} n (l : list A) : length (rep_each n l) = length l * n.
Proof.
  unfold rep_each. induction l as [|x r IH]; [reflexivity|]. cbn [flat_map]. rewrite app_length, repeat_length, IH.
  cbn [length]. lia.
Qed.

Lemma rep_each_nth {A} n (l : list A) i d :
  i < length l * n -> nth i (rep_each n l) d = nth (i / n) l d.
Proof.
  unfold rep_each. revert i. induction l as [|x r IH]; intros i Hi; [cbn in Hi; lia|].
  cbn [flat_map]. assert (Hn : n <> 0) by (intros E; rewrite E in Hi; lia).
  destruct (Nat.lt_ge_cases i n) as [Hlt|Hge].
  - rewrite app_nth1 by (rewrite repeat_length; exact Hlt). rewrite Nat.div_small by exact Hlt.
    cbn [nth]. apply nth_repeat_lt. exact Hlt.
  - rewrite app_nth2 by (rewrite repeat_length; exact Hge). rewrite repeat_length.
    rewrite IH by (cbn [length] in Hi; lia).
    replace i with ((i - n) + 1 * n) at 2 by lia. rewrite Nat.div_add by exact Hn.
    replace (((i - n) / n) + 1) with (S ((i - n) / n)) by lia. reflexivity.
Qed.

(** ** blocks of equal length under [flat_map] over [seq] *)
Lemma flat_map_blocks_nth {A} (f : nat -> list A) m n j i d :
  (forall x, x < n -> length (f x) = m) -> j < n -> i < m ->
  nth (j * m + i) (flat_map f (seq 0 n)) d = nth i (f j) d.
Proof.
  intros Hlen. revert j. 
  assert (G : forall s n j, (forall x, s <= x < s + n -> length (f x) = m) -> j < n -> i < m ->
              nth (j * m + i) (flat_map f (seq s n)) d = nth i (f (s + j)) d).
  { clear Hlen n. intros s n. revert s. induction n as [|n IH]; intros s j Hl Hj Hi; [lia|].
    cbn [seq flat_map]. destruct j as [|j].
    - rewrite app_nth1 by (rewrite Hl by lia; lia). rewrite Nat.add_0_r. reflexivity.
    - rewrite app_nth2 by (rewrite Hl by lia; nia). rewrite Hl by lia.
      replace (S j * m + i - m) with (j * m + i) by nia.
      rewrite IH; [f_equal; f_equal; lia | intros x Hx; apply Hl; lia | lia | exact Hi]. }
  intros j Hj Hi. rewrite G; [reflexivity | intros x Hx; apply Hlen; lia | exact Hj | exact Hi].
Qed.

Lemma flat_map_blocks_length {A} (f : nat -> list A) m n :
  (forall x, x < n -> length (f x) = m) -> length (flat_map f (seq 0 n)) = n * m.
Proof.
  assert (G : forall s k, (forall x, s <= x < s + k -> length (f x) = m) -> length (flat_map f (seq s k)) = k * m).
  { intros s k. revert s. induction k as [|k IH]; intros s Hl; [reflexivity|].
    cbn [seq flat_map]. rewrite app_length, Hl by lia. rewrite IH; [lia | intros x Hx; apply Hl; lia]. }
  intros H. apply G. intros x Hx. apply H. lia.
Qed.

(** ** chunks, is_constant, is_repeating *)
Lemma skipn_skipn' {A} a b (l : list A) : skipn a (skipn b l) = skipn (b + a) l.
Proof.
  revert l. induction b as [|b IH]; intros l; [reflexivity|].
  destruct l as [|x r]; [destruct a; reflexivity|]. cbn [skipn Nat.add]. apply IH.
Qed.

Lemma chunks_nth {A} n p (l : list A) j : j < n -> nth j (chunks n p l) [] = firstn p (skipn (j * p) l).
Proof.
  revert l j. induction n as [|n IH]; intros l j Hj; [lia|].
  cbn [chunks]. destruct j as [|j]; [reflexivity|]. cbn [nth]. rewrite IH by lia.
  rewrite skipn_skipn'. f_equal; f_equal; lia.
Qed.

Lemma chunks_length {A} n p (l : list A) : length (chunks n p l) = n.
Proof. revert l. induction n as [|n IH]; intros l; [reflexivity|]. cbn [chunks length]. f_equal. apply IH. Qed.

Section WithV.
  Context {V : Type} (veqb : V -> V -> bool).
  Hypothesis veqb_spec : forall a b, reflect (a = b) (veqb a b).

  Lemma list_eqb_eq (a b : list V) : list_eqb veqb a b = true <-> a = b.
  Proof.
    revert b. induction a as [|x xs IH]; intros [|y ys]; cbn [list_eqb]; try (split; [discriminate|congruence]).
    - split; reflexivity.
    - rewrite andb_true_iff, IH. destruct (veqb_spec x y) as [->|Hn].
      + split; [intros [_ ->]; reflexivity | intros H; injection H as ->; auto].
      + split; [intros [H _]; discriminate | intros H; injection H as -> _; contradiction].
  Qed.

  Lemma all_eq_first_nth (l : list V) d i : all_eq_first veqb l = true -> i < length l -> nth i l d = nth 0 l d.
  Proof.
    destruct l as [|x r]; [cbn; lia|]. unfold all_eq_first. rewrite forallb_forall. intros H Hi.
    specialize (H (nth i (x :: r) d) (nth_In _ _ Hi)). destruct (veqb_spec (nth i (x :: r) d) x); [assumption|discriminate].
  Qed.

  Lemma is_constant_none_nth (l : list V) d i :
    is_constant veqb l None = Ok true -> i < length l -> nth i l d = nth 0 l d.
  Proof. cbn. intros H. injection H as H. apply all_eq_first_nth. exact H. Qed.

  (** constant over every period of length [p] *)
  Lemma is_constant_period_nth (l : list V) p d i :
    is_constant veqb l (Some p) = Ok true -> i < length l -> nth i l d = nth (i / p * p) l d.
  Proof.
    cbn [is_constant]. destruct (p <=? 1) eqn:Ep; [discriminate|]. apply Nat.leb_gt in Ep.
    destruct (length l mod p =? 0) eqn:Em; cbn [negb]; [|discriminate]. apply Nat.eqb_eq in Em.
    intros H Hi. injection H as H. rewrite forallb_forall in H.
    assert (Hp : p <> 0) by lia.
    assert (Hlen : length l = p * (length l / p)) by (apply Nat.div_exact; assumption).
    set (j := i / p). assert (Hj : j < length l / p).
    { apply Nat.div_lt_upper_bound; [exact Hp | lia]. }
    assert (Hin : In (nth j (chunks (length l / p) p l) []) (chunks (length l / p) p l)).
    { apply nth_In. rewrite chunks_length. exact Hj. }
    specialize (H _ Hin). rewrite chunks_nth in H by exact Hj.
    pose proof (Nat.div_mod i p Hp) as Hdm. fold j in Hdm.
    assert (Hr : i mod p < p) by (apply Nat.mod_upper_bound; exact Hp).
    assert (Hcl : length (firstn p (skipn (j * p) l)) = p).
    { rewrite firstn_length, skipn_length. nia. }
    pose proof (all_eq_first_nth _ d (i mod p) H ltac:(lia)) as E.
    rewrite !nth_firstn' in E by lia. rewrite !nth_skipn' in E.
    replace (j * p + i mod p) with i in E by lia. replace (j * p + 0) with (j * p) in E by lia. exact E.
  Qed.

  (** repeating with period [m] *)
  Lemma is_repeating_nth (l : list V) m d i :
    is_repeating veqb l m = Ok true -> i < length l -> nth i l d = nth (i mod m) l d.
  Proof.
    unfold is_repeating. destruct ((m <=? 1) || (length l <=? m)) eqn:E1; [discriminate|].
    apply orb_false_iff in E1 as [Ea Eb]. apply Nat.leb_gt in Ea. apply Nat.leb_gt in Eb.
    destruct (length l mod m =? 0) eqn:Em; cbn [negb]; [|discriminate]. apply Nat.eqb_eq in Em.
    intros H Hi. injection H as H. rewrite forallb_forall in H.
    assert (Hp : m <> 0) by lia.
    assert (Hlen : length l = m * (length l / m)) by (apply Nat.div_exact; assumption).
    set (j := i / m). assert (Hj : j < length l / m) by (apply Nat.div_lt_upper_bound; [exact Hp | lia]).
    pose proof (Nat.div_mod i m Hp) as Hdm. fold j in Hdm.
    assert (Hr : i mod m < m) by (apply Nat.mod_upper_bound; exact Hp).
    destruct j as [|j'] eqn:Ej.
    - replace (i mod m) with i by lia. reflexivity.
    - assert (Hin : In (nth j (chunks (length l / m) m l) []) (tl (chunks (length l / m) m l))).
      { destruct (length l / m) as [|q] eqn:Eq; [lia|]. cbn [chunks tl]. rewrite Ej. cbn [nth].
        apply nth_In. rewrite chunks_length. lia. }
      specialize (H _ Hin). rewrite chunks_nth in H by lia. apply list_eqb_eq in H.
      assert (E : nth (i mod m) (firstn m (skipn (j * m) l)) d = nth (i mod m) (firstn m l) d) by (rewrite H; reflexivity).
      rewrite !nth_firstn' in E by lia. rewrite nth_skipn' in E.
      replace (j * m + i mod m) with i in E by lia. exact E.
  Qed.
End WithV.
