(** C05 correspondence glue (no proofs): cases carry the inputs as literals AND what the real code returned;
    [check_*] = the model returns exactly that.  Values are [jv], the missing value is [JNull].

    [ert_case]     extension level: [DcmMetaExtension.get_subset] for every index of one axis, then
                  [DcmMetaExtension.from_sequence] over the pieces ([ProofsRoundtrip.run_step]).
    [chain_case]  image level: a chain  w.split(d1) -> from_sequence -> split(d1) (again) -> split(d2) -> ...  through
                  [NiftiWrapper.split] / [NiftiWrapper.from_sequence] (model: Wrapper/Model.v [split_w],
                  [from_sequence_w] with the exact rational square roots of Wrapper/Corr.v). *)
From Coq Require Import List Bool Arith NArith ZArith QArith.
From DV Require Import Common.Res Common.Str Common.Jv Ext.Types Ext.Classes Ext.Seq Ext.Model Ext.Corr
     Ext.ProofsSubset Ext.ProofsRoundtrip Orient.Model Wrapper.Model Wrapper.Corr.
Import ListNotations.
Local Open Scope nat_scope.

(** * extension level *)
Record ert_case := mk_ert_case {
  er_ext : jext; er_dim : nat;
  er_with_aff : bool;            (* from_sequence(pieces, dim, affine=parent's affine) or affine left out *)
  er_with_sd : bool;             (* ... slice_dim=parent's slice dim, or left out *)
  er_obs : res jext }.           (* the merged extension, or the first exception *)

Definition run_ert (c : ert_case) : res jext :=
  run_step jv_eqb JNull (er_ext c) (Step (er_dim c) (er_with_aff c) (er_with_sd c)).

(** the domain of the theorems, executable: valid, nondegenerate, no trailing singleton dim, a slice dim is recorded,
    the axis is the slice / time / vector axis and has at least two positions *)
Definition rt_domb (e : jext) (dim : nat) : bool :=
  validb e && nondegenerateb e && no_trailing1 (shape (hdr_of e))
  && match sdim (hdr_of e) with Some d => (d =? dim) || (dim =? 3) || (dim =? 4) | None => false end
  && (dim <? ndim (hdr_of e)) && (2 <=? nth dim (shape (hdr_of e)) 0).

(** what the correspondence needs: a valid nondegenerate extension and an existing axis with at least two positions.
    The corpus cases of the open findings (trailing singleton shape, no slice dimension) lie outside [rt_domb]; the
    model must reproduce the implementation there too. *)
Definition ert_inputs_ok (e : jext) (dim : nat) : bool :=
  validb e && nondegenerateb e && (dim <? ndim (hdr_of e)) && (2 <=? nth dim (shape (hdr_of e)) 0).

Definition check_ert (c : ert_case) : bool :=
  ert_inputs_ok (er_ext c) (er_dim c) && res_eqb ext_eqb (run_ert c) (er_obs c).

Definition show_ert (c : ert_case) := (rt_domb (er_ext c) (er_dim c), run_ert c).

(** * image level: chains *)
Record chain_case := mk_chain_case {
  cc_w : jwrapper; cc_dims : list nat;
  cc_obs : list (wobs * lobs);   (* per step: the merged wrapper, and the pieces of splitting it again along the same dim *)
  cc_untouched : bool }.         (* the starting image / extension unchanged by the whole chain *)

Definition chain_step (w : jwrapper) (d : nat) : res jwrapper :=
  match split_w jv_eqb JNull w (Some d) with
  | Ok ps => from_sequence_w jv_eqb JNull unit_exact ps (Some d)
  | Err e => Err e
  end.

(** every vector the step normalises has a rational norm (only spatial axes are normalised) *)
Definition chain_step_dom (w : jwrapper) (d : nat) : bool :=
  wf_imgb (fst w) && ((3 <=? d) || rational_norm (col3 (iaff (fst w)) d)).

Fixpoint check_chain_steps (w : jwrapper) (dims : list nat) (obs : list (wobs * lobs)) : bool :=
  match dims, obs with
  | [], [] => true
  | d :: ds, (om, ol) :: os =>
      chain_step_dom w d &&
      match chain_step w d, om with
      | Ok w', WOk _ _ _ _ _ =>
          w_matches w' om && list_matches (split_w jv_eqb JNull w' (Some d)) ol && check_chain_steps w' ds os
      | Err e, WErr e' => err_eqb e e' && match os with [] => true | _ => false end
      | _, _ => false
      end
  | _, _ => false
  end.

Definition check_chain (c : chain_case) : bool :=
  check_chain_steps (cc_w c) (cc_dims c) (cc_obs c) && cc_untouched c.

Fixpoint show_chain_steps (w : jwrapper) (dims : list nat) :=
  match dims with
  | [] => []
  | d :: ds =>
      match chain_step w d with
      | Ok w' => (chain_step_dom w d, rmap show_w (Ok w'), rmap (map show_w) (split_w jv_eqb JNull w' (Some d)))
                 :: show_chain_steps w' ds
      | Err e => [(chain_step_dom w d, Err e, Err e)]
      end
  end.
Definition show_chain (c : chain_case) := show_chain_steps (cc_w c) (cc_dims c).

(** * image level: nested histories  split a -> split every piece along b -> merge b -> merge a *)
Record nested_case := mk_nested_case {
  nc_w : jwrapper; nc_a : nat; nc_b : nat;
  nc_inner : list wobs;          (* every piece of the split along a, after its own round trip along b *)
  nc_final : wobs;               (* the merge of those along a; [WErr] (with [nc_inner = []]) when anything raised *)
  nc_untouched : bool }.

Definition run_nested_inner (w : jwrapper) (a b : nat) : res (list jwrapper) :=
  match split_w jv_eqb JNull w (Some a) with
  | Ok ps => mapM (fun p => chain_step p b) ps
  | Err e => Err e
  end.

Definition run_nested (w : jwrapper) (a b : nat) : res (list jwrapper * jwrapper) :=
  match run_nested_inner w a b with
  | Ok ps2 => match from_sequence_w jv_eqb JNull unit_exact ps2 (Some a) with
              | Ok r => Ok (ps2, r)
              | Err e => Err e
              end
  | Err e => Err e
  end.

Definition nested_dom (w : jwrapper) (a b : nat) : bool :=
  chain_step_dom w a &&
  match split_w jv_eqb JNull w (Some a) with
  | Ok ps => forallb (fun p => chain_step_dom p b) ps
  | Err _ => true
  end.

Definition check_nested (c : nested_case) : bool :=
  nested_dom (nc_w c) (nc_a c) (nc_b c) &&
  match run_nested (nc_w c) (nc_a c) (nc_b c), nc_final c with
  | Ok (ps2, r), WOk _ _ _ _ _ => all2 w_matches ps2 (nc_inner c) && w_matches r (nc_final c)
  | Err e, WErr e' => err_eqb e e'
  | _, _ => false
  end && nc_untouched c.

Definition show_nested (c : nested_case) :=
  (nested_dom (nc_w c) (nc_a c) (nc_b c),
   rmap (fun pr => (map show_w (fst pr), show_w (snd pr))) (run_nested (nc_w c) (nc_a c) (nc_b c))).

(** * extension level: merge then split (inputs need not be canonical) *)
Record ems_case := mk_ems_case {
  em_exts : list jext; em_dim : nat;
  em_obs : res (list jext) }.    (* [get_subset (from_sequence exts dim) dim i] for every i, or the first exception *)

Definition run_ems (c : ems_case) : res (list jext) :=
  match from_sequence jv_eqb JNull (em_exts c) (em_dim c) None None with
  | Ok r => mapM (fun i => get_subset jv_eqb JNull r (em_dim c) i) (seq 0 (length (em_exts c)))
  | Err e => Err e
  end.

Fixpoint exts_eqb (a b : list jext) : bool :=
  match a, b with
  | [], [] => true
  | x :: xs, y :: ys => ext_eqb x y && exts_eqb xs ys
  | _, _ => false
  end.

Definition check_ems (c : ems_case) : bool :=
  Ext.Corr.inputs_ok (em_exts c) && res_eqb exts_eqb (run_ems c) (em_obs c).
Definition show_ems (c : ems_case) := run_ems c.
