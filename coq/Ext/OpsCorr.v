(** Correspondence glue for C07 (operation sequences) and C13 (projections): cases carry the inputs as
    literals AND the implementation's observations; [check_*] = the model reproduces them.
    Values are [jv], the missing value is [JNull]. *)
From Coq Require Import List Bool Arith NArith ZArith QArith.
From DV Require Import Common.Res Common.Str Common.Jv Ext.Types Ext.Classes Ext.Seq Ext.Model Ext.Corr Ext.Ops
     Ext.ProofsLocal.
Import ListNotations.
Local Open Scope nat_scope.

(** first-order description of an operation (the filter predicate is "the key is in this list") *)
Inductive jop :=
| JSubset (dim idx : nat)
| JMerge (before after : list jext) (dim : nat) (affine : option (list (list Q))) (slice_dim : option nat)
| JFilter (keys : list key)
| JClear
| JInject (c : cls) (k : key) (values : list jv) (force : bool).

Definition to_op (j : jop) : op jv :=
  match j with
  | JSubset d i => OSubset d i
  | JMerge b a d af sd => OMerge b a d af sd
  | JFilter ks => OFilter (fun k _ => mem_key k ks)
  | JClear => OClearSlices
  | JInject c k vs f => OInject c k vs f
  end.

Definition partners (j : jop) : list jext :=
  match j with JMerge b a _ _ _ => b ++ a | _ => [] end.

(** one observation per executed step: the produced extension with the verdict of check_valid, or the error
    that stopped the history *)
Record ops_case := mk_ops_case {
  oc_ext : jext; oc_ops : list jop; oc_obs : list (res (jext * bool)) }.

Fixpoint check_steps (e : jext) (ops : list jop) (obs : list (res (jext * bool))) : bool :=
  match ops, obs with
  | [], [] => true
  | o :: r, ob :: obr =>
      match apply jv_eqb JNull (to_op o) e, ob with
      | Ok e', Ok (eo, vo) => ext_eqb e' eo && Bool.eqb (validb e') vo && check_steps e' r obr
      | Err a, Err b => err_eqb a b && match obr with [] => true | _ => false end
      | _, _ => false
      end
  | _, _ => false
  end.

(** the generator promises a valid nondegenerate start and valid nondegenerate merge partners *)
Definition check_ops (c : ops_case) : bool :=
  inputs_ok (oc_ext c :: flat_map partners (oc_ops c)) && check_steps (oc_ext c) (oc_ops c) (oc_obs c).

(** what the model computes, for replay files *)
Fixpoint show_steps (e : jext) (ops : list jop) : list (res (jext * bool)) :=
  match ops with
  | [] => []
  | o :: r => match apply jv_eqb JNull (to_op o) e with
              | Ok e' => Ok (e', validb e') :: show_steps e' r
              | Err a => [Err a]
              end
  end.
Definition show_ops (c : ops_case) := show_steps (oc_ext c) (oc_ops c).

(** * C13: a merge / subset together with the same operation on the inputs projected to single keys *)
Record local_merge_case := mk_local_merge_case {
  lm_case : merge_case;                          (* inputs + observation of the full merge *)
  lm_proj : list (key * res jext);               (* per key: observation of the merge of the projected inputs *)
  lm_shuf : list jext * res jext }.              (* the inputs in another key order + observation *)

Definition check_local_merge (c : local_merge_case) : bool :=
  let m := lm_case c in
  check_merge_dom m
  && forallb (fun kp => res_eqb ext_eqb
                          (from_sequence jv_eqb JNull (map (proj (fst kp)) (mc_exts m)) (mc_dim m) (mc_aff m) (mc_sdim m))
                          (snd kp)) (lm_proj c)
  && res_eqb ext_eqb (from_sequence jv_eqb JNull (fst (lm_shuf c)) (mc_dim m) (mc_aff m) (mc_sdim m)) (snd (lm_shuf c)).

Definition show_local_merge (c : local_merge_case) :=
  (run_merge (lm_case c),
   map (fun kp => from_sequence jv_eqb JNull (map (proj (fst kp)) (mc_exts (lm_case c))) (mc_dim (lm_case c)) (mc_aff (lm_case c)) (mc_sdim (lm_case c))) (lm_proj c)).

Record local_subset_case := mk_local_subset_case {
  ls_case : subset_case;
  ls_proj : list (key * res jext);
  ls_shuf : jext * res jext }.

Definition check_local_subset (c : local_subset_case) : bool :=
  let s := ls_case c in
  check_subset_dom s
  && forallb (fun kp => res_eqb ext_eqb (get_subset jv_eqb JNull (proj (fst kp) (sc_ext s)) (sc_dim s) (sc_idx s)) (snd kp))
             (ls_proj c)
  && res_eqb ext_eqb (get_subset jv_eqb JNull (fst (ls_shuf c)) (sc_dim s) (sc_idx s)) (snd (ls_shuf c)).

Definition show_local_subset (c : local_subset_case) :=
  (run_subset (ls_case c),
   map (fun kp => get_subset jv_eqb JNull (proj (fst kp) (sc_ext (ls_case c))) (sc_dim (ls_case c)) (sc_idx (ls_case c))) (ls_proj c)).
