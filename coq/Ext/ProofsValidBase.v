(** C07 / C13 groundwork: list-length lemmas for the list operations of Ext/Seq.v, facts about
    [mapM] / [map_keys] / [dedup_keys] / [assoc], the per-key reading of [Spec.valid] ([kvalid]),
    numeric facts about well-formed headers, and [validb e = true <-> valid e]. *)
From Coq Require Import List Bool Arith Lia.
From DV Require Import Common.Res Common.Str Ext.Types Ext.Classes Ext.Seq Ext.Model Ext.Spec
     Ext.TableFacts Ext.ValidFacts.
Import ListNotations.
Local Open Scope nat_scope.

(** * A. Lengths of the list operations *)

Section Lists.
  Context {A : Type}.

  Lemma every_nth_fuel_len (p : nat) : 1 <= p ->
    forall n r (l : list A) f, r < p -> length l = n * p - r -> length l <= f ->
      length (every_nth_fuel f p l) = n.
  Proof.
    intros Hp. induction n as [|n IH]; intros r l f Hr Hl Hf.
    - assert (length l = 0) by lia. destruct l; [|discriminate]. destruct f; reflexivity.
    - assert (Hpos : 1 <= length l) by (rewrite Hl, Nat.mul_succ_l; lia).
      destruct l as [|x l']; [cbn [length] in Hpos; lia|].
      destruct f as [|f]; [cbn [length] in Hf; lia|].
      cbn [every_nth_fuel length]. f_equal.
      apply (IH r).
      + exact Hr.
      + rewrite skipn_length. rewrite Hl, Nat.mul_succ_l. lia.
      + rewrite skipn_length. cbn [length] in Hf |- *. lia.
  Qed.

  (** [l[idx::p]] of a list of [n] periods has [n] elements *)
  Lemma every_nth_len (idx p n : nat) (l : list A) :
    1 <= p -> idx < p -> length l = n * p -> length (every_nth idx p l) = n.
  Proof.
    intros Hp Hi Hl. unfold every_nth.
    apply (every_nth_fuel_len p Hp n idx); [exact Hi | rewrite skipn_length; lia | rewrite skipn_length; lia].
  Qed.

  Lemma every_nth_one (l : list A) : every_nth 0 1 l = l.
  Proof.
    unfold every_nth. cbn [skipn].
    assert (H : forall f (m : list A), length m <= f -> every_nth_fuel f 1 m = m).
    { induction f as [|f IH]; intros m Hm.
      - destruct m; [reflexivity | cbn [length] in Hm; lia].
      - destruct m as [|x m']; [reflexivity|]. cbn [every_nth_fuel skipn]. f_equal. apply IH.
        cbn [length] in Hm. lia. }
    apply H. lia.
  Qed.

  Lemma py_slice_len (a b : nat) (l : list A) : length (py_slice a b l) = Nat.min (b - a) (length l - a).
  Proof. unfold py_slice. rewrite firstn_length, skipn_length. reflexivity. Qed.

  Lemma py_slice_len_in (a n : nat) (l : list A) : a + n <= length l -> length (py_slice a (a + n) l) = n.
  Proof. intros H. rewrite py_slice_len. lia. Qed.

  Lemma rep_list_len (n : nat) (l : list A) : length (rep_list n l) = n * length l.
  Proof.
    unfold rep_list. induction n as [|n IH]; [reflexivity|].
    cbn [repeat concat]. rewrite app_length, IH. lia.
  Qed.

  Lemma rep_each_len (n : nat) (l : list A) : length (rep_each n l) = length l * n.
  Proof.
    unfold rep_each. induction l as [|x l IH]; [reflexivity|].
    cbn [flat_map length]. rewrite app_length, repeat_length, IH. lia.
  Qed.

  Lemma flat_map_len_const {B} (f : B -> list A) (c : nat) (l : list B) :
    (forall x, In x l -> length (f x) = c) -> length (flat_map f l) = length l * c.
  Proof.
    induction l as [|x l IH]; intros H; [reflexivity|].
    cbn [flat_map length]. rewrite app_length, IH, (H x); [lia | left; reflexivity | intros y Hy; apply H; right; exact Hy].
  Qed.

  Lemma interleave_len (n m nvol : nat) (l1 l2 : list A) :
    nvol * n <= length l1 -> nvol * m <= length l2 -> length (interleave n m nvol l1 l2) = nvol * (n + m).
  Proof.
    intros H1 H2. unfold interleave.
    rewrite (flat_map_len_const _ (n + m)); [rewrite seq_length; reflexivity|].
    intros vol Hv. apply in_seq in Hv. rewrite app_length.
    rewrite !py_slice_len_in; [reflexivity | nia | nia].
  Qed.

  Lemma chunks_one (p : nat) (l : list A) : chunks 1 p l = [firstn p l].
  Proof. reflexivity. Qed.
End Lists.

(** * B. [mapM], [collect], [map_keys], [dedup_keys], [assoc] *)

Lemma mapM_Forall2 {A B} (f : A -> res B) (l : list A) (r : list B) :
  mapM f l = Ok r -> Forall2 (fun x y => f x = Ok y) l r.
Proof.
  revert r; induction l as [|x l IH]; intros r H; cbn [mapM] in H.
  - injection H as <-. constructor.
  - destruct (f x) as [y|] eqn:Ef; [|discriminate].
    destruct (mapM f l) as [ys|] eqn:El; [|discriminate].
    injection H as <-. constructor; [exact Ef | apply IH; reflexivity].
Qed.

Lemma Forall2_mapM {A B} (f : A -> res B) (l : list A) (r : list B) :
  Forall2 (fun x y => f x = Ok y) l r -> mapM f l = Ok r.
Proof.
  induction 1 as [|x y l r Hxy _ IH]; cbn [mapM]; [reflexivity|]. rewrite Hxy, IH. reflexivity.
Qed.

Lemma mapM_ext_in {A B} (f g : A -> res B) (l : list A) :
  (forall x, In x l -> f x = g x) -> mapM f l = mapM g l.
Proof.
  induction l as [|x l IH]; intros H; cbn [mapM]; [reflexivity|].
  rewrite (H x (or_introl eq_refl)), IH; [reflexivity | intros y Hy; apply H; right; exact Hy].
Qed.

Lemma key_eqb_eq a b : key_eqb a b = true <-> a = b.
Proof. unfold key_eqb. apply str_eqb_eq. Qed.
Lemma key_eqb_refl a : key_eqb a a = true.
Proof. apply key_eqb_eq. reflexivity. Qed.
Lemma key_eqb_neq a b : a <> b -> key_eqb a b = false.
Proof. intros H. destruct (key_eqb a b) eqn:E; [apply key_eqb_eq in E; contradiction | reflexivity]. Qed.

Lemma mem_key_false k l : mem_key k l = false <-> ~ In k l.
Proof.
  split; intros H.
  - intros Hin. apply mem_key_In in Hin. congruence.
  - destruct (mem_key k l) eqn:E; [apply mem_key_In in E; contradiction | reflexivity].
Qed.

Lemma NoDup_nodup_keys l : NoDup l -> nodup_keys l = true.
Proof.
  induction 1 as [|k r Hn _ IH]; [reflexivity|]. cbn [nodup_keys].
  apply mem_key_false in Hn. rewrite Hn, IH. reflexivity.
Qed.

Lemma dedup_keys_In k seen l : In k (dedup_keys seen l) <-> In k l /\ ~ In k seen.
Proof.
  revert seen; induction l as [|x l IH]; intros seen; cbn [dedup_keys].
  - split; [intros [] | intros [[] _]].
  - destruct (mem_key x seen) eqn:Em.
    + apply mem_key_In in Em. rewrite IH. split.
      * intros [H1 H2]. split; [right; exact H1 | exact H2].
      * intros [[->|H1] H2]; [contradiction | split; assumption].
    + apply mem_key_false in Em. cbn [In]. rewrite IH. cbn [In]. split.
      * intros [->|[H1 H2]]; [split; [left; reflexivity | exact Em] | split; [right; exact H1 | tauto]].
      * intros [[->|H1] H2]; [left; reflexivity|].
        destruct (str_eqb_spec x k) as [->|Hne]; [left; reflexivity | right; split; [exact H1 | intros [?|?]; [contradiction | contradiction]]].
Qed.

Lemma dedup_keys_NoDup seen l : NoDup (dedup_keys seen l).
Proof.
  revert seen; induction l as [|x l IH]; intros seen; cbn [dedup_keys]; [constructor|].
  destruct (mem_key x seen); [apply IH|].
  constructor; [|apply IH]. rewrite dedup_keys_In. cbn [In]. tauto.
Qed.

Lemma dedup_keys_nil_In k l : In k (dedup_keys [] l) <-> In k l.
Proof. rewrite dedup_keys_In. cbn [In]. tauto. Qed.

Section Maps.
  Context {V : Type}.
  Notation kst := (kst V).
  Notation ext := (ext V).
  Notation entry := (key * (cls * list V))%type.

  Lemma assoc_In k x (l : list entry) : assoc k l = Some x -> In (k, x) l.
  Proof.
    induction l as [|[k' y] l IH]; cbn [assoc]; [discriminate|].
    destruct (key_eqb k k') eqn:E.
    - apply key_eqb_eq in E. subst. intros H; injection H as ->. left; reflexivity.
    - intros H. right. apply IH. exact H.
  Qed.

  Lemma assoc_None k (l : list entry) : assoc k l = None <-> ~ In k (map fst l).
  Proof.
    induction l as [|[k' y] l IH]; cbn [assoc map fst In]; [tauto|].
    destruct (key_eqb k k') eqn:E.
    - apply key_eqb_eq in E. subst. split; [discriminate | intros H; exfalso; apply H; left; reflexivity].
    - rewrite IH. split; [intros H [->|H']; [rewrite key_eqb_refl in E; discriminate | contradiction] | tauto].
  Qed.

  Lemma In_assoc k x (l : list entry) : NoDup (map fst l) -> In (k, x) l -> assoc k l = Some x.
  Proof.
    induction l as [|[k' y] l IH]; cbn [assoc map fst]; intros Hnd Hin; [destruct Hin|].
    inversion Hnd as [|? ? Hn Hnd']; subst.
    destruct Hin as [Heq|Hin].
    - injection Heq as -> ->. rewrite key_eqb_refl. reflexivity.
    - destruct (key_eqb k k') eqn:E.
      + apply key_eqb_eq in E. subst. exfalso. apply Hn. apply in_map_iff. exists (k', x). split; [reflexivity | exact Hin].
      + apply IH; assumption.
  Qed.

  Lemma lookup_In (e : ext) k x : lookup_e e k = Some x -> In (k, x) (entries e).
  Proof. apply assoc_In. Qed.

  Lemma In_lookup (e : ext) k x : NoDup (keys_e e) -> In (k, x) (entries e) -> lookup_e e k = Some x.
  Proof. apply In_assoc. Qed.

  Lemma lookup_None (e : ext) k : lookup_e e k = None <-> ~ In k (keys_e e).
  Proof. apply assoc_None. Qed.

  (** [collect] keeps exactly the present keys, in order *)
  Lemma collect_In k x (l : list (key * kst)) : In (k, x) (collect l) <-> In (k, Some x) l.
  Proof.
    induction l as [|[k' [y|]] l IH]; cbn [collect].
    - cbn [In]. tauto.
    - split; intros [H|H].
      + left. injection H as -> ->. reflexivity.
      + right. apply IH. exact H.
      + left. injection H as -> ->. reflexivity.
      + right. apply IH. exact H.
    - split; [intros H; right; apply IH; exact H | intros [H|H]; [discriminate | apply IH; exact H]].
  Qed.

  Lemma collect_keys_incl (l : list (key * kst)) k : In k (map fst (collect l)) -> In k (map fst l).
  Proof.
    induction l as [|[k' [y|]] l IH]; cbn [collect map fst In]; [tauto | |]; intros H.
    - destruct H as [H|H]; [left; exact H | right; apply IH; exact H].
    - right. apply IH. exact H.
  Qed.

  Lemma collect_NoDup (l : list (key * kst)) : NoDup (map fst l) -> NoDup (map fst (collect l)).
  Proof.
    induction l as [|[k' [y|]] l IH]; cbn [collect map fst]; intros H; [constructor | |];
      inversion H as [|? ? Hn Hnd]; subst.
    - constructor; [intros Hin; apply Hn; apply collect_keys_incl; exact Hin | apply IH; exact Hnd].
    - apply IH. exact Hnd.
  Qed.

  Lemma assoc_collect k (l : list (key * kst)) :
    NoDup (map fst l) ->
    assoc k (collect l) = match find (fun p => key_eqb k (fst p)) l with Some (_, s) => s | None => None end.
  Proof.
    induction l as [|[k' [y|]] l IH]; cbn [collect map fst assoc find]; intros Hnd; [reflexivity | |];
      inversion Hnd as [|? ? Hn Hnd']; subst.
    - destruct (key_eqb k k'); [reflexivity | apply IH; exact Hnd'].
    - destruct (key_eqb k k') eqn:E; [|apply IH; exact Hnd'].
      apply key_eqb_eq in E. subst. apply assoc_None.
      intros Hin. apply Hn. apply collect_keys_incl. exact Hin.
  Qed.

  Lemma mapM_keys_fst (f : key -> res kst) keys l :
    mapM (fun k => bind (f k) (fun s => Ok (k, s))) keys = Ok l ->
    map fst l = keys /\ Forall (fun p => f (fst p) = Ok (snd p)) l.
  Proof.
    revert l; induction keys as [|k keys IH]; intros l H; cbn [mapM] in H.
    - injection H as <-. split; [reflexivity | constructor].
    - destruct (f k) as [s|] eqn:Ef; cbn [bind] in H; [|discriminate].
      destruct (mapM _ keys) as [l'|] eqn:El; [|discriminate].
      injection H as <-. destruct (IH l' eq_refl) as [H1 H2].
      cbn [map fst]. split; [f_equal; exact H1 | constructor; [exact Ef | exact H2]].
  Qed.

  (** what [map_keys] returns: every entry comes from its own key alone *)
  Lemma map_keys_In (f : key -> res kst) keys ents k x :
    map_keys f keys = Ok ents -> In (k, x) ents -> In k keys /\ f k = Ok (Some x).
  Proof.
    unfold map_keys. intros H Hin. apply bind_ok in H as [l [Hl H]]. injection H as <-.
    apply mapM_keys_fst in Hl as [Hk Hf]. apply collect_In in Hin.
    rewrite Forall_forall in Hf. split.
    - rewrite <- Hk. apply in_map_iff. exists (k, Some x). split; [reflexivity | exact Hin].
    - apply (Hf _ Hin).
  Qed.

  Lemma map_keys_NoDup (f : key -> res kst) keys ents :
    map_keys f keys = Ok ents -> NoDup keys -> NoDup (map fst ents).
  Proof.
    unfold map_keys. intros H Hnd. apply bind_ok in H as [l [Hl H]]. injection H as <-.
    apply mapM_keys_fst in Hl as [Hk _]. apply collect_NoDup. rewrite Hk. exact Hnd.
  Qed.

  Lemma map_keys_all_ok (f : key -> res kst) keys ents k :
    map_keys f keys = Ok ents -> In k keys -> exists s, f k = Ok s.
  Proof.
    unfold map_keys. intros H Hin. apply bind_ok in H as [l [Hl H]].
    apply mapM_keys_fst in Hl as [Hk Hf]. rewrite <- Hk in Hin. apply in_map_iff in Hin as [[k' s] [Hk' Hin]].
    cbn [fst] in Hk'. subst k'. rewrite Forall_forall in Hf. exists s. apply (Hf _ Hin).
  Qed.

  (** the result as a map: lookup after [map_keys] *)
  Lemma map_keys_assoc (f : key -> res kst) keys ents k :
    map_keys f keys = Ok ents -> NoDup keys ->
    (In k keys -> f k = Ok (assoc k ents)) /\ (~ In k keys -> assoc k ents = None).
  Proof.
    intros H Hnd. pose proof (map_keys_NoDup _ _ _ H Hnd) as Hnd'. split.
    - intros Hin. destruct (map_keys_all_ok _ _ _ _ H Hin) as [s Hs]. rewrite Hs. f_equal.
      destruct s as [x|].
      + symmetry. apply In_assoc; [exact Hnd'|].
        unfold map_keys in H. apply bind_ok in H as [l [Hl H]]. injection H as <-.
        apply collect_In. apply mapM_keys_fst in Hl as [Hk Hf].
        rewrite <- Hk in Hin. apply in_map_iff in Hin as [[k' s'] [Hk' Hin]]. cbn [fst] in Hk'. subst k'.
        rewrite Forall_forall in Hf. pose proof (Hf _ Hin) as Hf'. cbn [fst snd] in Hf'.
        rewrite Hs in Hf'. injection Hf' as <-. exact Hin.
      + symmetry. apply assoc_None. intros Hin'. apply in_map_iff in Hin' as [[k' x] [Hk' Hin']].
        cbn [fst] in Hk'. subst k'. apply (map_keys_In _ _ _ _ _ H) in Hin' as [_ Hf]. congruence.
    - intros Hnin. apply assoc_None. intros Hin'. apply in_map_iff in Hin' as [[k' x] [Hk' Hin']].
      cbn [fst] in Hk'. subst k'. apply (map_keys_In _ _ _ _ _ H) in Hin' as [Hin _]. contradiction.
  Qed.

  (** * C. Per-key reading of [Spec.valid] *)

  Definition kvalid (h : hdr) (s : kst) : Prop :=
    match s with
    | None => True
    | Some (c, vs) =>
        class_ok (shape h) c = true /\ (is_slices c = true -> sdim h <> None) /\
        length vs = mult_spec (dims h) c
    end.

  Definition knondeg (h : hdr) (s : kst) : Prop :=
    match s with
    | None => True
    | Some (c, _) => c <> GConst -> mult_spec (dims h) c <> 1
    end.

  Lemma valid_kvalid (e : ext) k : valid e -> kvalid (hdr_of e) (lookup_e e k).
  Proof.
    intros [_ [_ H]]. destruct (lookup_e e k) as [[c vs]|] eqn:E; [|exact I].
    apply lookup_In in E. exact (H _ _ _ E).
  Qed.

  Lemma nondegenerate_knondeg (e : ext) k : nondegenerate e -> knondeg (hdr_of e) (lookup_e e k).
  Proof.
    intros H. destruct (lookup_e e k) as [[c vs]|] eqn:E; [|exact I].
    apply lookup_In in E. exact (H _ _ _ E).
  Qed.

  Lemma valid_of_kvalid (e : ext) :
    hdr_wf (hdr_of e) -> NoDup (keys_e e) ->
    (forall k x, In (k, x) (entries e) -> kvalid (hdr_of e) (Some x)) -> valid e.
  Proof.
    intros Hh Hn H. split; [exact Hh|]. split; [exact Hn|].
    intros k c vs Hin. exact (H _ _ Hin).
  Qed.

  Lemma nondegenerate_of_knondeg (e : ext) :
    (forall k x, In (k, x) (entries e) -> knondeg (hdr_of e) (Some x)) -> nondegenerate e.
  Proof. intros H k c vs Hin. exact (H _ _ Hin). Qed.
End Maps.

(** * D. Numeric facts about headers *)

(** the part of [hdr_wf] that does not mention the base-dictionary flags *)
Definition shape_wf (h : hdr) : Prop :=
  3 <= ndim h <= 5 /\ Forall (fun n => 1 <= n) (shape h) /\ (forall d, sdim h = Some d -> d < 3).

Lemma hdr_wf_shape_wf h : hdr_wf h -> shape_wf h.
Proof. intros [H1 [H2 [H3 _]]]. repeat split; try assumption; lia. Qed.

(** the three possible forms of a well-formed shape *)
Lemma shape_wf_cases h : shape_wf h ->
  (exists x y z, shape h = [x; y; z] /\ 1 <= x /\ 1 <= y /\ 1 <= z) \/
  (exists x y z t, shape h = [x; y; z; t] /\ 1 <= x /\ 1 <= y /\ 1 <= z /\ 1 <= t) \/
  (exists x y z t v, shape h = [x; y; z; t; v] /\ 1 <= x /\ 1 <= y /\ 1 <= z /\ 1 <= t /\ 1 <= v).
Proof.
  intros [Hn [Hp _]]. unfold ndim in Hn.
  destruct (shape h) as [|x [|y [|z [|t [|v [|w r]]]]]]; cbn [length] in Hn; try lia.
  - left. exists x, y, z. repeat (apply Forall_cons_iff in Hp as [? Hp]). repeat split; auto.
  - right; left. exists x, y, z, t. repeat (apply Forall_cons_iff in Hp as [? Hp]). repeat split; auto.
  - right; right. exists x, y, z, t, v. repeat (apply Forall_cons_iff in Hp as [? Hp]). repeat split; auto.
Qed.

(** Solves goals about the raw accessors of a header whose shape is well formed, by enumerating the
    three shape forms and the four slice dimensions. *)
Ltac shape_cases h Hwf :=
  let Hc := fresh "Hc" in
  let Hsd := fresh "Hsd" in
  pose proof (shape_wf_cases h Hwf) as Hc;
  assert (Hsd : forall d, sdim h = Some d -> d < 3) by (apply Hwf);
  destruct Hc as [[?x [?y [?z [?Hsh [? [? ?]]]]]] |
                  [[?x [?y [?z [?t [?Hsh [? [? [? ?]]]]]]]] |
                   [?x [?y [?z [?t [?v [?Hsh [? [? [? [? ?]]]]]]]]]]]].

Lemma dims_pos h : shape_wf h ->
  let '(nS, nT, nV) := dims h in 1 <= nS /\ 1 <= nT /\ 1 <= nV.
Proof.
  intros Hwf. shape_cases h Hwf; unfold dims; rewrite Hsh; cbn [nth];
    (destruct (sdim h) as [d|] eqn:Ed; [pose proof (Hsd d eq_refl); destruct d as [|[|[|d]]]; try lia; cbn [nth]|]);
    repeat split; lia.
Qed.

Lemma mult_spec_pos h c : shape_wf h -> 1 <= mult_spec (dims h) c.
Proof.
  intros Hwf. pose proof (dims_pos h Hwf) as H. destruct (dims h) as [[nS nT] nV].
  destruct H as [H1 [H2 H3]]. destruct c; cbn [mult_spec]; nia.
Qed.

(** raw accessors in terms of [dims] *)
Lemma n_slices_dims h d : shape_wf h -> sdim h = Some d -> n_slices h = Some (fst (fst (dims h))).
Proof.
  intros Hwf Ed. unfold n_slices, dims. rewrite Ed. cbn [fst]. f_equal.
  apply nth_indep. destruct Hwf as [Hn [_ Hs]]. specialize (Hs d Ed). unfold ndim in Hn. lia.
Qed.

Lemma n_slices_none h : sdim h = None -> n_slices h = None.
Proof. intros E. unfold n_slices. rewrite E. reflexivity. Qed.

Lemma prod_skip3_dims h : shape_wf h ->
  prod_list (skipn 3 (shape h)) = snd (fst (dims h)) * snd (dims h).
Proof.
  intros Hwf. shape_cases h Hwf; unfold dims; rewrite Hsh; cbn [skipn prod_list fold_left nth fst snd]; lia.
Qed.

Lemma ndim3_dims h : shape_wf h -> ndim h = 3 -> snd (fst (dims h)) = 1 /\ snd (dims h) = 1.
Proof.
  intros Hwf Hn. unfold ndim in Hn. shape_cases h Hwf; rewrite Hsh in Hn; cbn [length] in Hn; try lia.
  unfold dims. rewrite Hsh. cbn [nth fst snd]. split; reflexivity.
Qed.

Lemma ndim4_dims h : shape_wf h -> ndim h = 4 ->
  snd (dims h) = 1 /\ nth 3 (shape h) 0 = snd (fst (dims h)) /\ shape_at h 3 = Some (snd (fst (dims h))).
Proof.
  intros Hwf Hn. unfold ndim in Hn. shape_cases h Hwf; rewrite Hsh in Hn; cbn [length] in Hn; try lia.
  unfold dims, shape_at. rewrite Hsh. cbn [nth nth_error fst snd]. repeat split; reflexivity.
Qed.

Lemma ndim5_dims h : shape_wf h -> ndim h = 5 ->
  nth 3 (shape h) 0 = snd (fst (dims h)) /\ shape_at h 3 = Some (snd (fst (dims h))) /\
  nth 4 (shape h) 0 = snd (dims h) /\ shape_at h 4 = Some (snd (dims h)).
Proof.
  intros Hwf Hn. unfold ndim in Hn. shape_cases h Hwf; rewrite Hsh in Hn; cbn [length] in Hn; try lia.
  unfold dims, shape_at. rewrite Hsh. cbn [nth nth_error fst snd]. repeat split; reflexivity.
Qed.

Lemma shape_at_none h i : ndim h <= i -> shape_at h i = None.
Proof. intros H. unfold shape_at. apply nth_error_None. exact H. Qed.

(** [class_ok] by number of dimensions *)
Lemma class_ok_ndim h c : shape_wf h ->
  class_ok (shape h) c =
  match base_of c with
  | BGlobal => true
  | BTime => (ndim h =? 4) || ((ndim h =? 5) && negb (snd (fst (dims h)) =? 1))
  | BVector => ndim h =? 5
  end.
Proof.
  intros Hwf. unfold class_ok, ndim, dims. shape_cases h Hwf; rewrite Hsh; cbn [length nth fst snd Nat.eqb];
    destruct c; cbn [base_of orb andb negb]; reflexivity.
Qed.

Lemma class_ok_global sh c : 3 <= length sh <= 5 -> base_of c = BGlobal -> class_ok sh c = true.
Proof.
  intros H Hb. unfold class_ok. rewrite Hb.
  destruct (length sh) as [|[|[|[|[|[|n]]]]]]; try lia; reflexivity.
Qed.

(** [multiplicity] on a well-formed shape *)
Lemma multiplicity_wf h c : shape_wf h -> class_ok (shape h) c = true ->
  (is_slices c = true -> sdim h <> None) -> multiplicity h c = Ok (mult_spec (dims h) c).
Proof.
  intros Hwf Hok Hs. apply multiplicity_ok; [apply Hwf | exact Hok|].
  intros Hc. specialize (Hs Hc). destruct (sdim h) as [d|] eqn:Ed; [|congruence].
  exists d. split; [reflexivity | apply Hwf; exact Ed].
Qed.

Lemma multiplicity_noslice h c : class_ok (shape h) c = true -> is_slices c = true -> sdim h = None ->
  multiplicity h c = Ok 0.
Proof.
  intros Hok Hs Hn. unfold multiplicity. rewrite class_valid_ok, Hok. cbn [negb].
  unfold is_slices in Hs. destruct (sub_of c); try discriminate. rewrite (n_slices_none h Hn). reflexivity.
Qed.

Lemma multiplicity_invalid h c : class_ok (shape h) c = false -> multiplicity h c = Err EValue.
Proof. intros Hok. unfold multiplicity. rewrite class_valid_ok, Hok. reflexivity. Qed.

Section ValidB.
  Context {V : Type}.

  Lemma valid_validb (e : ext V) : valid e -> validb e = true.
  Proof.
    intros [Hh [Hnd Hent]]. pose proof (hdr_wf_shape_wf _ Hh) as Hwf.
    destruct Hh as [Hn [Hp [Hsd [[Ha4 Har] Hb]]]].
    unfold validb. rewrite !andb_true_iff. repeat match goal with |- _ /\ _ => split end.
    - unfold ndim_ok. apply andb_true_iff. split; [apply Nat.leb_le | apply Nat.ltb_lt]; lia.
    - apply forallb_forall. intros n Hin. rewrite Forall_forall in Hp. apply Nat.leb_le. auto.
    - destruct (sdim (hdr_of e)) as [d|]; [apply Nat.ltb_lt; auto | reflexivity].
    - apply Nat.eqb_eq. exact Ha4.
    - apply forallb_forall. intros r Hin. rewrite Forall_forall in Har. apply Nat.eqb_eq. auto.
    - apply forallb_forall. intros c Hin. apply Hb. rewrite <- class_valid_ok. apply mem_cls_In. exact Hin.
    - apply NoDup_nodup_keys. exact Hnd.
    - apply forallb_forall. intros [k [c vs]] Hin. cbn [fst snd].
      destruct (Hent _ _ _ Hin) as [Hok [Hs Hl]].
      rewrite (multiplicity_wf _ _ Hwf Hok Hs).
      apply andb_true_iff. split; [apply Nat.leb_le; apply mult_spec_pos; exact Hwf | apply Nat.eqb_eq; exact Hl].
  Qed.

  (** the executable test decides the declarative predicate *)
  Lemma validb_iff (e : ext V) : validb e = true <-> valid e.
  Proof. split; [apply validb_valid | apply valid_validb]. Qed.

  Lemma nondegenerate_nondegenerateb (e : ext V) : valid e -> nondegenerate e -> nondegenerateb e = true.
  Proof.
    intros Hv Hnd. pose proof (hdr_wf_shape_wf _ (proj1 Hv)) as Hwf. destruct Hv as [_ [_ Hent]].
    unfold nondegenerateb. apply forallb_forall. intros [k [c vs]] Hin. cbn [fst snd].
    destruct (cls_eqb_spec c GConst) as [->|Hc]; [reflexivity|]. cbn [orb].
    destruct (Hent _ _ _ Hin) as [Hok [Hs _]]. rewrite (multiplicity_wf _ _ Hwf Hok Hs).
    pose proof (Hnd _ _ _ Hin Hc) as Hm.
    destruct (mult_spec (dims (hdr_of e)) c) as [|[|m]]; [reflexivity | contradiction | reflexivity].
  Qed.

  Lemma nondegenerateb_iff (e : ext V) : valid e -> (nondegenerateb e = true <-> nondegenerate e).
  Proof. intros Hv. split; [apply nondegenerateb_nondegenerate; exact Hv | apply nondegenerate_nondegenerateb; exact Hv]. Qed.
End ValidB.
