(** The operation-sequence layer used by C07: the remaining extension-level operations of the library
    ([filter_meta], [clear_slice_meta], the [nitool inject] logic) and one type [op] collecting every
    operation that produces an extension from an extension, with its interpreter [apply].
    Definitions only; the closure proofs are in Ext/ProofsValidOps.v. *)
From Coq Require Import List Bool Arith QArith.
From DV Require Import Common.Res Common.Str Ext.Types Ext.Classes Ext.Seq Ext.Model.
Import ListNotations.
Local Open Scope nat_scope.
Local Open Scope res_scope.

Section WithV.
  Context {V : Type} (veqb : V -> V -> bool) (vnone : V).

  Notation ext := (ext V).

  (** [filter_meta(filter_func)] (dcmmeta.py 421-438): in every classification that is valid for the
      shape, delete the keys on which [filter_func(key, values)] is true.  A constant is passed to [f]
      as a singleton list.  ValueError when the shape is not 3..5-D ([get_valid_classes]). *)
  Definition filter_meta (f : key -> list V -> bool) (e : ext) : res ext :=
    let h := hdr_of e in
    if negb (ndim_ok h) then Err EValue else
    Ok (mk_ext h (filter (fun kv => negb (class_valid h (fst (snd kv)) && f (fst kv) (snd (snd kv)))) (entries e))).

  (** [clear_slice_meta()] (440-444): empty every valid per-slice classification. *)
  Definition clear_slice_meta (e : ext) : res ext :=
    let h := hdr_of e in
    if negb (ndim_ok h) then Err EValue else
    Ok (mk_ext h (filter (fun kv => negb (class_valid h (fst (snd kv)) && is_slices (fst (snd kv)))) (entries e))).

  (** [get_keys()]: the keys of the valid classifications *)
  Definition visible_keys (e : ext) : list key :=
    map fst (filter (fun kv => class_valid (hdr_of e) (fst (snd kv))) (entries e)).

  (** [nitool inject] (nitool_cli.py 230-255) on the extension of the destination image.  Every refusal
      (the command prints a message and returns 1, the file is not written) is [Err EValue].
      [values] are the converted values; argparse guarantees at least one ([nargs='+']).
      A single value is stored bare, which is the singleton list of this model for ('global','const'). *)
  Definition inject (e : ext) (c : cls) (k : key) (values : list V) (force : bool) : res ext :=
    let h := hdr_of e in
    if negb (ndim_ok h) then Err EValue else
    if length values =? 0 then Err EValue else
    if negb (class_valid h c) then Err EValue else
    do m <- multiplicity h c;
    if negb (length values =? m) then Err EValue else
    let present := mem_key k (visible_keys e) in
    if present && negb force then Err EValue else
    let kept := if present
                then filter (fun kv => negb (key_eqb k (fst kv) && class_valid h (fst (snd kv)))) (entries e)
                else entries e in
    Ok (mk_ext h (kept ++ [(k, (c, values))])).

  (** Every operation that makes an extension out of an extension.  A merge places the current
      extension between [before] and [after]. *)
  Inductive op :=
  | OSubset (dim idx : nat)
  | OMerge (before after : list ext) (dim : nat) (affine : option (list (list Q))) (slice_dim : option nat)
  | OFilter (f : key -> list V -> bool)
  | OClearSlices
  | OInject (c : cls) (k : key) (values : list V) (force : bool).

  Definition apply (o : op) (e : ext) : res ext :=
    match o with
    | OSubset dim idx => get_subset veqb vnone e dim idx
    | OMerge before after dim affine slice_dim =>
        from_sequence veqb vnone (before ++ e :: after) dim affine slice_dim
    | OFilter f => filter_meta f e
    | OClearSlices => clear_slice_meta e
    | OInject c k values force => inject e c k values force
    end.

  (** a finite history of operations, stopping at the first error *)
  Definition run (ops : list op) (e : ext) : res ext :=
    fold_left (fun acc o => bind acc (apply o)) ops (Ok e).
End WithV.

Arguments op V : clear implicits.
