(** C06, part 4: the merge invariant.  After every [_insert] along the slice, time or vector axis a key is
    absent, or sits in ('global','slices'), or sits at THE canonical class of what it denotes for the
    current partial shape; [from_sequence]'s final pass simplifies exactly the ('global','slices') keys
    (and [_simplify] lands on the canonical class, Ext/ProofsSimplifyCanon.v), so every key of the result
    is at its canonical class.  Inputs may sit in ANY valid nondegenerate classification on these axes.

    Along a non-slice spatial axis nothing is simplified: the statement holds for canonical inputs and is
    refuted for widened ones ([merge_nonslice_widened_refuted], finding N6, replayed on the real code).

    Built on the C03 layer (Ext/ProofsMergeDen.v, ProofsMergeStep.v, ProofsMergeFrame.v): [frame], [inp],
    [insert_k_den] give well-formedness of every intermediate state and its denotation. *)
From Coq Require Import List Bool Arith QArith Lia.
From DV Require Import Common.Res Common.Str Ext.Types Ext.Classes Ext.Seq Ext.Model Ext.Spec Ext.TableFacts
     Ext.ValidFacts Ext.ProofsValidBase Ext.ProofsSimplifySeq Ext.ProofsSimplifyLayout Ext.ProofsSimplifyCanon
     Ext.ProofsCanonSubset Ext.ProofsMergeSeq Ext.ProofsMergeDen Ext.ProofsMergeStep Ext.ProofsMergeFrame.
Import ListNotations.
Local Open Scope nat_scope.

Lemma pref_rank_inj c c' : pref_rank c = pref_rank c' -> c = c'.
Proof. destruct c, c'; cbn [pref_rank]; intros H; try reflexivity; discriminate H. Qed.

Lemma copy_dests_eq_bases : insert_slice_bases_c = [BTime; BVector; BGlobal].
Proof. apply copy_dests_eq. Qed.

Section WithV.
  Context {V : Type} (veqb : V -> V -> bool) (vnone : V).
  Hypothesis veqb_spec : forall a b, reflect (a = b) (veqb a b).

  Notation fden := (fden vnone).
  Notation den_k := (den_k vnone).
  Notation good_k := (@good_k V).
  Notation nondeg_k := (@nondeg_k V).

  Lemma canon_class_unique sh d (f : pos -> V) c c' : canon_class sh d f c -> canon_class sh d f c' -> c = c'.
  Proof.
    intros [H1 [H2 H3]] [H1' [H2' H3']]. apply pref_rank_inj.
    pose proof (H3 c' H1' H2'). pose proof (H3' c H1 H2). lia.
  Qed.

  Lemma canon_gconst sh d (vs : list V) : class_ok sh GConst = true -> canon_class sh d (fden d GConst vs) GConst.
  Proof. intros H. split; [exact H|]. split; [apply representable_self|]. intros c' _ _. cbn [pref_rank]. lia. Qed.

  (** the state keeps its class and its old values on the old positions: canonicity carries over *)
  Lemma canon_extend (sh sh' : list nat) (d d' : pos) c (lv vs' : list V) :
    canon_class sh d (fden d c lv) c -> class_ok sh' c = true ->
    (forall x, class_ok sh' x = true -> class_ok sh x = true) ->
    (forall p, in_dims d p -> in_dims d' p /\ fden d' c vs' p = fden d c lv p) ->
    canon_class sh' d' (fden d' c vs') c.
  Proof.
    intros [_ [_ Hmin]] Hc Hmono Hsub. split; [exact Hc|]. split; [apply representable_self|].
    intros x Hx Hr. apply Hmin; [apply Hmono; exact Hx|].
    apply representable_proj. intros p q Hp Hq E.
    destruct (Hsub p Hp) as [Hp' <-]. destruct (Hsub q Hq) as [Hq' <-].
    apply (proj1 (representable_proj d' x _) Hr); assumption.
  Qed.

  (** a constant that starts to differ along the merge axis: no class that ignores that axis represents it *)
  Lemma canon_split (sh' : list nat) (d' : pos) c' (vs' : list V) (ax : axis) :
    class_ok sh' c' = true ->
    (forall x, class_ok sh' x = true -> pref_rank x < pref_rank c' -> forall p, proj x (set_coord ax p 0) = proj x p) ->
    (exists p, in_dims d' p /\ in_dims d' (set_coord ax p 0) /\ fden d' c' vs' p <> fden d' c' vs' (set_coord ax p 0)) ->
    canon_class sh' d' (fden d' c' vs') c'.
  Proof.
    intros Hc Hign [p [Hp [Hp0 Hne]]]. split; [exact Hc|]. split; [apply representable_self|].
    intros x Hx Hr. destruct (le_lt_dec (pref_rank c') (pref_rank x)) as [Hle|Hlt]; [exact Hle|]. exfalso.
    apply Hne. symmetry. apply (proj1 (representable_proj d' x _) Hr); try assumption. apply Hign; assumption.
  Qed.

  (** what the invariant says of one key under header [h] *)
  Definition inv_post (h : hdr) (s : kst V) : Prop :=
    match s with
    | None => True
    | Some (c, vs) => good_k h s /\ (c = GSlices \/ canon_class (shape h) (dims h) (fden (dims h) c vs) c)
    end.

  Lemma inv_post_gconst h vs : good_k h (Some (GConst, vs)) -> inv_post h (Some (GConst, vs)).
  Proof. intros Hg. split; [exact Hg|]. right. apply canon_gconst. apply Hg. Qed.

  Lemma inv_post_gslices h vs : good_k h (Some (GSlices, vs)) -> inv_post h (Some (GSlices, vs)).
  Proof. intros Hg. split; [exact Hg | left; reflexivity]. Qed.

  Definition oc_of (ko2 : kst V) : cls := match ko2 with Some (c, _) => c | None => GConst end.

  (** after reclassification the state is unchanged, or sits in the other's class, or in ('global','slices') *)
  Lemma reclassify_outcome hs ks oc ks1 c1 vs1 :
    good_k hs ks -> reclassify_k vnone hs ks oc = Ok ks1 -> ks1 = Some (c1, vs1) ->
    ks1 = ks \/ c1 = oc \/ c1 = GSlices.
  Proof.
    intros Hg Hr E. rewrite (reclassify_k_eq vnone hs ks oc Hg) in Hr.
    assert (Hcc : forall new s', change_class_k vnone hs ks new = Ok s' -> s' = ks \/ exists v, s' = Some (new, v)).
    { intros new s' Hc. unfold change_class_k in Hc. destruct (ocls_eqb _ _); [injection Hc as <-; left; reflexivity|].
      apply bind_ok in Hc as [vals [_ Hp]]. unfold put in Hp. destruct (has_base _ _); [|discriminate].
      injection Hp as <-. right. eauto. }
    destruct ks as [[c vs]|]; cbn [kst_class] in Hr.
    - destruct (geb c oc); [injection Hr as <-; left; reflexivity|].
      destruct (Hcc _ _ Hr) as [->|[v Hv]]; [left; reflexivity|]. right. rewrite Hv in E. injection E as <- _.
      unfold rtarget. destruct (mem_cls oc (pres c)); [left | right]; reflexivity.
    - destruct (Hcc _ _ Hr) as [->|[v Hv]]; [left; reflexivity|]. right. left. rewrite Hv in E. injection E as <- _. reflexivity.
  Qed.

  Lemma good_len1 h (vs : list V) : good_k h (Some (GConst, vs)) -> length vs = 1.
  Proof. intros [_ [_ Hl]]. rewrite Hl. destruct (dims h) as [[? ?] ?]. reflexivity. Qed.

  Lemma len1_eq (a b : list V) : length a = 1 -> length b = 1 -> nth 0 a vnone = nth 0 b vnone -> a = b.
  Proof.
    destruct a as [|x [|? ?]], b as [|y [|? ?]]; cbn [length nth]; intros H1 H2 E; try discriminate. subst. reflexivity.
  Qed.

  Lemma fden_den_k h c vs p : class_ok (shape h) c = true -> fden (dims h) c vs p = den_k h (Some (c, vs)) p.
  Proof. intros H. rewrite den_k_good by exact H. reflexivity. Qed.

  (** * One insert along the slice axis *)
  Lemma slice_step hs hs' ho j nT nV ks ko2 ks1 ks' :
    slice_ctx hs hs' ho j nT nV ->
    good_k hs ks -> good_k ho ko2 -> nondeg_k ho ko2 ->
    (forall lv, ks = Some (TSlices, lv) -> canon_class (shape hs) (dims hs) (fden (dims hs) TSlices lv) TSlices) ->
    reclassify_k vnone hs ks (oc_of ko2) = Ok ks1 ->
    insert_slice_k veqb vnone hs ho ks1 ko2 = Ok ks' ->
    good_k hs' ks' ->
    (forall s t v, s < S j -> t < nT -> v < nV ->
       den_k hs' ks' (s, t, v) = if s <? j then den_k hs ks (s, t, v) else den_k ho ko2 (0, t, v)) ->
    inv_post hs' ks'.
  Proof.
    intros X Hgs Hgo Hndo Hpre Hr H Hg' Hden.
    destruct X as [sx_hs0 sx_hs'0 sx_ho0 sx_j0 sx_d0 sx_do0 sx_d'0 sx_oko0 sx_ok'0 sx_base0 sx_sd0 sx_sdo0 sx_sd'0].
    pose proof (dims_pos hs' _ _ _ sx_hs'0 sx_d'0) as [_ [HT HV]].
    assert (Hoko : class_ok (shape hs) (oc_of ko2) = true).
    { destruct ko2 as [[c vs]|]; cbn [oc_of]; [rewrite <- sx_oko0; apply Hgo | apply class_ok_const; exact sx_hs0]. }
    assert (Hocsl : is_slices (oc_of ko2) = true -> sdim hs <> None) by (intros _; exact sx_sd0).
    destruct (reclassify_k_den vnone hs ks _ ks1 sx_hs0 Hgs Hoko Hocsl Hr) as [Hg1 [Hd1 [c1 [vs1 [E1 _]]]]].
    pose proof (reclassify_outcome hs ks _ ks1 c1 vs1 Hgs Hr E1) as Hout. subst ks1.
    unfold insert_slice_k in H. rewrite (visible_good _ _ Hg1) in H.
    apply bind_ok in H as [ov [Eov H]].
    assert (Hnot : oc_of ko2 <> TSlices).
    { intros E. destruct ko2 as [[c vs]|]; cbn [oc_of] in E; [|discriminate]. subst c.
      apply Hndo; [discriminate|]. rewrite sx_do0. reflexivity. }
    destruct c1.
    - (* constant *)
      assert (Hsame : ks' = Some (GConst, vs1) -> inv_post hs' ks').
      { intros ->. apply inv_post_gconst. exact Hg'. }
      destruct (list_eqb_spec veqb veqb_spec vs1 ov) as [Heq|Hne]; cbn [negb] in H; [injection H as <-; auto|].
      destruct (find (has_base hs) insert_slice_bases_c) as [b|] eqn:Ef; [|injection H as <-; auto].
      apply bind_ok in H as [ks2 [E2 H]]. apply bind_ok in H as [ov2 [Eo2 H]].
      assert (Hdc : class_ok (shape hs) (slices_of_base b) = true).
      { apply find_some in Ef as [_ Hb]. rewrite <- sx_base0. destruct b; exact Hb. }
      assert (Hdsl : is_slices (slices_of_base b) = true -> sdim hs <> None) by (intros _; exact sx_sd0).
      destruct (change_class_k_den vnone hs _ _ ks2 sx_hs0 Hg1 Hdc Hdsl E2) as [[lv2 ->] [Hg2 _]].
      rewrite (visible_good _ _ Hg2) in H. injection H as <-.
      (* the two constants differ, so the new state really depends on the slice index *)
      assert (Hoc : class_ok (shape ho) GConst = true) by (apply class_ok_const; exact sx_ho0).
      destruct (changed_class_den vnone ho ko2 GConst (sdim hs) ov sx_ho0 Hgo Hoc ltac:(intros Z; discriminate Z) Eov)
        as [Hlo Hno].
      assert (Hdiff : den_k hs' (Some (slices_of_base b, lv2 ++ ov2)) (j, 0, 0)
                      <> den_k hs' (Some (slices_of_base b, lv2 ++ ov2)) (0, 0, 0)).
      { rewrite !Hden by lia. rewrite Nat.ltb_irrefl. replace (0 <? j) with true by (symmetry; apply Nat.ltb_lt; lia).
        intros E. apply Hne. apply len1_eq; [apply (good_len1 hs), Hg1 | rewrite Hlo; destruct (dims ho) as [[? ?] ?]; reflexivity|].
        rewrite <- (Hd1 (0, 0, 0)) in E by (rewrite sx_d0; cbn [in_dims]; lia).
        rewrite den_k_good in E by apply Hg1.
        rewrite <- (Hno (0, 0, 0)) in E by (rewrite sx_do0; cbn [in_dims]; lia).
        destruct (dims hs) as [[? ?] ?], (dims ho) as [[? ?] ?]. cbn [cidx] in E. symmetry. exact E. }
      assert (Hc' : class_ok (shape hs') (slices_of_base b) = true) by (rewrite sx_ok'0; exact Hdc).
      split; [exact Hg'|].
      rewrite copy_dests_eq_bases in Ef. cbn [find] in Ef.
      destruct (has_base hs BTime) eqn:EbT; [injection Ef as <-|].
      + right. apply (canon_split _ _ _ _ AxS Hc').
        * intros x _ Hx [[s t] v]. destruct x; cbn [pref_rank slices_of_base] in Hx; try lia; reflexivity.
        * exists (j, 0, 0). rewrite sx_d'0. cbn [set_coord in_dims]. repeat split; try lia.
          rewrite <- sx_d'0. rewrite !fden_den_k by exact Hc'. exact Hdiff.
      + destruct (has_base hs BVector) eqn:EbV; [injection Ef as <-|].
        * right. apply (canon_split _ _ _ _ AxS Hc').
          -- intros x Hxok Hx [[s t] v]. rewrite sx_ok'0 in Hxok.
             assert (HnoT : class_ok (shape hs) TSlices = false) by (rewrite <- sx_base0; exact EbT).
             destruct x; cbn [pref_rank slices_of_base] in Hx; try lia; try reflexivity. congruence.
          -- exists (j, 0, 0). rewrite sx_d'0. cbn [set_coord in_dims]. repeat split; try lia.
             rewrite <- sx_d'0. rewrite !fden_den_k by exact Hc'. exact Hdiff.
        * cbn [has_base] in Ef. injection Ef as <-. left. reflexivity.
    - (* already in global slices *)
      apply bind_ok in H as [lo [_ H]].
      destruct (n_slices hs), (n_slices ho); try discriminate. injection H as <-. apply inv_post_gslices. exact Hg'.
    - apply bind_ok in H as [lo [_ H]].
      destruct (n_slices hs), (n_slices ho); try discriminate. injection H as <-. apply inv_post_gslices. exact Hg'.
    - (* time slices: extended in place *)
      injection H as <-. split; [exact Hg'|]. right.
      assert (Eks : ks = Some (TSlices, vs1)).
      { destruct Hout as [E|[E|E]]; [symmetry; exact E | congruence | discriminate]. }
      pose proof (Hpre vs1 Eks) as Hcan.
      assert (Hl1 : length vs1 = j) by (destruct Hg1 as [_ [_ Hl]]; rewrite Hl, sx_d0; reflexivity).
      apply (canon_extend (shape hs) (shape hs') (dims hs) (dims hs') TSlices vs1 _ Hcan).
      + apply Hg'.
      + intros x Hx. rewrite <- sx_ok'0. exact Hx.
      + intros [[s t] v]. rewrite sx_d0, sx_d'0. cbn [in_dims]. intros [Hs [Ht Hv]]. split; [lia|].
        unfold ProofsSimplifyLayout.fden. cbn [cidx]. apply app_nth1. lia.
    - apply bind_ok in H as [lo [_ H]].
      destruct (n_slices hs), (n_slices ho); try discriminate. injection H as <-. apply inv_post_gslices. exact Hg'.
    - apply bind_ok in H as [lo [_ H]].
      destruct (n_slices hs), (n_slices ho); try discriminate. injection H as <-. apply inv_post_gslices. exact Hg'.
  Qed.

  (** * One insert along the time axis *)

  (** 5-D: everything goes through ('global','slices') (or is an unchanged constant) *)
  Lemma time5_step hs hs' ho ks1 ko2 ks' c1 vs1 :
    ndim hs = 5 -> ks1 = Some (c1, vs1) -> good_k hs ks1 ->
    insert_sample_k veqb vnone hs ho ks1 ko2 BTime = Ok ks' -> good_k hs' ks' -> inv_post hs' ks'.
  Proof.
    intros Hnd -> Hg1 H Hg'. unfold insert_sample_k in H. rewrite (visible_good _ _ Hg1) in H.
    cbn [samples_of_base] in H. apply bind_ok in H as [ov [_ H]].
    rewrite Hnd in H. cbn [cbase_eqb Nat.eqb andb negb] in H. rewrite !andb_false_r in H.
    assert (Hgen : forall lo, (match n_slices hs with
                               | None => Err EType
                               | Some n => match shape_at hs 3, shape_at ho 3, shape_at hs 4 with
                                           | Some t, Some ot, Some v => Ok (Some (GSlices, interleave (n * t) (n * ot) v (fst lo) (snd lo)))
                                           | _, _, _ => Err EIndex
                                           end
                               end : res (kst V)) = Ok ks' -> inv_post hs' ks').
    { intros lo Hx. destruct (n_slices hs); [|discriminate].
      destruct (shape_at hs 3), (shape_at ho 3), (shape_at hs 4); try discriminate.
      injection Hx as <-. apply inv_post_gslices. exact Hg'. }
    destruct c1; cbn [cls_eqb andb] in H;
      try (apply bind_ok in H as [lo [_ H]]; apply (Hgen lo); exact H).
    destruct (list_eqb veqb vs1 ov).
    - injection H as <-. apply inv_post_gconst. exact Hg'.
    - apply bind_ok in H as [lo [_ H]]. apply (Hgen lo); exact H.
  Qed.

  (** 4-D: a constant that starts to vary becomes ('time','samples'); ('time','samples') is extended in place *)
  Lemma time4_step hs hs' ho j nS ks ko2 ks1 ks' :
    time_ctx hs hs' ho j nS 1 -> ndim hs = 4 -> class_ok (shape hs) TSamples = true ->
    (forall x, class_ok (shape hs') x = true -> class_ok (shape hs) x = true) ->
    good_k hs ks -> good_k ho ko2 -> nondeg_k ho ko2 ->
    (forall lv, ks = Some (TSamples, lv) -> canon_class (shape hs) (dims hs) (fden (dims hs) TSamples lv) TSamples) ->
    reclassify_k vnone hs ks (oc_of ko2) = Ok ks1 ->
    insert_sample_k veqb vnone hs ho ks1 ko2 BTime = Ok ks' ->
    good_k hs' ks' ->
    (forall s t v, s < nS -> t < S j -> v < 1 ->
       den_k hs' ks' (s, t, v) = if t <? j then den_k hs ks (s, t, v) else den_k ho ko2 (s, 0, v)) ->
    inv_post hs' ks'.
  Proof.
    intros X Hnd HokT Hmono Hgs Hgo Hndo Hpre Hr H Hg' Hden.
    destruct X as [tx_hs0 tx_hs'0 tx_ho0 tx_j0 tx_d0 tx_do0 tx_d'0 tx_oko0 tx_ok'0 tx_base0 tx_sd0 tx_sdo0 tx_sd'0].
    pose proof (dims_pos hs' _ _ _ tx_hs'0 tx_d'0) as [HS _].
    assert (Hoko : class_ok (shape hs) (oc_of ko2) = true).
    { destruct ko2 as [[c vs]|]; cbn [oc_of]; [apply tx_oko0; apply Hgo | apply class_ok_const; exact tx_hs0]. }
    assert (Hocsl : is_slices (oc_of ko2) = true -> sdim hs <> None) by (intros _; exact tx_sd0).
    destruct (reclassify_k_den vnone hs ks _ ks1 tx_hs0 Hgs Hoko Hocsl Hr) as [Hg1 [Hd1 [c1 [vs1 [E1 _]]]]].
    pose proof (reclassify_outcome hs ks _ ks1 c1 vs1 Hgs Hr E1) as Hout. subst ks1.
    unfold insert_sample_k in H. rewrite (visible_good _ _ Hg1) in H. cbn [samples_of_base] in H.
    apply bind_ok in H as [ov [Eov H]].
    rewrite Hnd in H. cbn [cbase_eqb Nat.eqb andb negb] in H. rewrite ?andb_true_r, ?andb_false_r in H.
    assert (Hnot : oc_of ko2 <> TSamples).
    { intros E. destruct ko2 as [[c vs]|]; cbn [oc_of] in E; [|discriminate]. subst c.
      apply Hndo; [discriminate|]. rewrite tx_do0. reflexivity. }
    assert (Hgen : forall lo, Ok (Some (GSlices, fst lo ++ snd lo)) = Ok ks' -> inv_post hs' ks').
    { intros lo Hx. injection Hx as <-. apply inv_post_gslices. exact Hg'. }
    destruct c1; cbn [cls_eqb andb] in H;
      try (apply bind_ok in H as [lo [_ H]]; apply (Hgen lo); exact H).
    - (* constant *)
      destruct (list_eqb_spec veqb veqb_spec vs1 ov) as [Heq|Hne]; cbn [negb] in H;
        [injection H as <-; apply inv_post_gconst; exact Hg'|].
      apply bind_ok in H as [ks2 [E2 H]]. apply bind_ok in H as [ov2 [Eo2 H]].
      destruct (change_class_k_den vnone hs _ _ ks2 tx_hs0 Hg1 HokT ltac:(intros Z; discriminate Z) E2) as [[lv2 ->] [Hg2 _]].
      rewrite (visible_good _ _ Hg2) in H. injection H as <-.
      assert (Hoc : class_ok (shape ho) GConst = true) by (apply class_ok_const; exact tx_ho0).
      destruct (changed_class_den vnone ho ko2 GConst (sdim hs) ov tx_ho0 Hgo Hoc ltac:(intros Z; discriminate Z) Eov)
        as [Hlo Hno].
      assert (Hc' : class_ok (shape hs') TSamples = true) by (apply tx_ok'0; exact HokT).
      split; [exact Hg'|]. right. apply (canon_split _ _ _ _ AxT Hc').
      + intros x _ Hx [[s t] v]. destruct x; cbn [pref_rank] in Hx; try lia; reflexivity.
      + exists (0, j, 0). rewrite tx_d'0. cbn [set_coord in_dims]. repeat split; try lia.
        rewrite <- tx_d'0. rewrite !fden_den_k by exact Hc'. rewrite !Hden by lia.
        rewrite Nat.ltb_irrefl. replace (0 <? j) with true by (symmetry; apply Nat.ltb_lt; lia).
        intros E. apply Hne. apply len1_eq; [apply (good_len1 hs), Hg1 | rewrite Hlo; destruct (dims ho) as [[? ?] ?]; reflexivity|].
        rewrite <- (Hd1 (0, 0, 0)) in E by (rewrite tx_d0; cbn [in_dims]; lia).
        rewrite den_k_good in E by apply Hg1.
        rewrite <- (Hno (0, 0, 0)) in E by (rewrite tx_do0; cbn [in_dims]; lia).
        destruct (dims hs) as [[? ?] ?], (dims ho) as [[? ?] ?]. cbn [cidx] in E. symmetry. exact E.
    - (* time samples: extended in place *)
      injection H as <-. split; [exact Hg'|]. right.
      assert (Eks : ks = Some (TSamples, vs1)).
      { destruct Hout as [E|[E|E]]; [symmetry; exact E | congruence | discriminate]. }
      pose proof (Hpre vs1 Eks) as Hcan.
      assert (Hl1 : length vs1 = j) by (destruct Hg1 as [_ [_ Hl]]; rewrite Hl, tx_d0; cbn [mult_spec]; lia).
      apply (canon_extend (shape hs) (shape hs') (dims hs) (dims hs') TSamples vs1 _ Hcan).
      + apply Hg'.
      + exact Hmono.
      + intros [[s t] v]. rewrite tx_d0, tx_d'0. cbn [in_dims]. intros [Hs [Ht Hv]]. split; [lia|].
        unfold ProofsSimplifyLayout.fden. cbn [cidx]. assert (v = 0) by lia. subst v.
        rewrite !Nat.mul_0_r, !Nat.add_0_r. apply app_nth1. lia.
  Qed.

  (** * One insert along the vector axis *)
  Lemma vec_step hs hs' ho j nS nT ks ko2 ks1 ks' :
    vec_ctx hs hs' ho j nS nT ->
    (forall x, class_ok (shape hs') x = true -> class_ok (shape hs) x = true) ->
    (forall c, class_ok (shape ho) c = true -> class_ok (shape hs) c = true) ->
    good_k hs ks -> good_k ho ko2 -> nondeg_k ho ko2 ->
    (forall lv, ks = Some (VSamples, lv) -> canon_class (shape hs) (dims hs) (fden (dims hs) VSamples lv) VSamples) ->
    reclassify_k vnone hs ks (oc_of ko2) = Ok ks1 ->
    insert_sample_k veqb vnone hs ho ks1 ko2 BVector = Ok ks' ->
    good_k hs' ks' ->
    (forall s t v, s < nS -> t < nT -> v < S j ->
       den_k hs' ks' (s, t, v) = if v <? j then den_k hs ks (s, t, v) else den_k ho ko2 (s, t, 0)) ->
    inv_post hs' ks'.
  Proof.
    intros X Hmono Hoko0 Hgs Hgo Hndo Hpre Hr H Hg' Hden.
    destruct X as [vx_hs0 vx_hs'0 vx_ho0 vx_j0 vx_d0 vx_do0 vx_d'0 vx_ok'0 vx_base0 vx_okV0 vx_sd0 vx_sdo0 vx_sd'0].
    pose proof (dims_pos hs' _ _ _ vx_hs'0 vx_d'0) as [HS [HT _]].
    assert (Hoko : class_ok (shape hs) (oc_of ko2) = true).
    { destruct ko2 as [[c vs]|]; cbn [oc_of]; [apply Hoko0; apply Hgo | apply class_ok_const; exact vx_hs0]. }
    assert (Hocsl : is_slices (oc_of ko2) = true -> sdim hs <> None) by (intros _; exact vx_sd0).
    destruct (reclassify_k_den vnone hs ks _ ks1 vx_hs0 Hgs Hoko Hocsl Hr) as [Hg1 [Hd1 [c1 [vs1 [E1 _]]]]].
    pose proof (reclassify_outcome hs ks _ ks1 c1 vs1 Hgs Hr E1) as Hout. subst ks1.
    unfold insert_sample_k in H. rewrite (visible_good _ _ Hg1) in H. cbn [samples_of_base] in H.
    apply bind_ok in H as [ov [Eov H]].
    cbn [cbase_eqb andb negb] in H. rewrite ?andb_true_r, ?andb_false_r in H.
    assert (Hnot : oc_of ko2 <> VSamples).
    { intros E. destruct ko2 as [[c vs]|]; cbn [oc_of] in E; [|discriminate]. subst c.
      apply Hndo; [discriminate|]. rewrite vx_do0. reflexivity. }
    assert (Hgen : forall lo, Ok (Some (GSlices, fst lo ++ snd lo)) = Ok ks' -> inv_post hs' ks').
    { intros lo Hx. injection Hx as <-. apply inv_post_gslices. exact Hg'. }
    destruct c1; cbn [cls_eqb andb] in H;
      try (apply bind_ok in H as [lo [_ H]]; apply (Hgen lo); exact H).
    - (* constant *)
      destruct (list_eqb_spec veqb veqb_spec vs1 ov) as [Heq|Hne]; cbn [negb] in H;
        [injection H as <-; apply inv_post_gconst; exact Hg'|].
      apply bind_ok in H as [ks2 [E2 H]]. apply bind_ok in H as [ov2 [Eo2 H]].
      destruct (change_class_k_den vnone hs _ _ ks2 vx_hs0 Hg1 vx_okV0 ltac:(intros Z; discriminate Z) E2) as [[lv2 ->] [Hg2 _]].
      rewrite (visible_good _ _ Hg2) in H. injection H as <-.
      assert (Hoc : class_ok (shape ho) GConst = true) by (apply class_ok_const; exact vx_ho0).
      destruct (changed_class_den vnone ho ko2 GConst (sdim hs) ov vx_ho0 Hgo Hoc ltac:(intros Z; discriminate Z) Eov)
        as [Hlo Hno].
      assert (Hc' : class_ok (shape hs') VSamples = true) by (apply vx_ok'0; exact vx_okV0).
      split; [exact Hg'|]. right. apply (canon_split _ _ _ _ AxV Hc').
      + intros x _ Hx [[s t] v]. destruct x; cbn [pref_rank] in Hx; try lia; reflexivity.
      + exists (0, 0, j). rewrite vx_d'0. cbn [set_coord in_dims]. repeat split; try lia.
        rewrite <- vx_d'0. rewrite !fden_den_k by exact Hc'. rewrite !Hden by lia.
        rewrite Nat.ltb_irrefl. replace (0 <? j) with true by (symmetry; apply Nat.ltb_lt; lia).
        intros E. apply Hne. apply len1_eq; [apply (good_len1 hs), Hg1 | rewrite Hlo; destruct (dims ho) as [[? ?] ?]; reflexivity|].
        rewrite <- (Hd1 (0, 0, 0)) in E by (rewrite vx_d0; cbn [in_dims]; lia).
        rewrite den_k_good in E by apply Hg1.
        rewrite <- (Hno (0, 0, 0)) in E by (rewrite vx_do0; cbn [in_dims]; lia).
        destruct (dims hs) as [[? ?] ?], (dims ho) as [[? ?] ?]. cbn [cidx] in E. symmetry. exact E.
    - (* vector samples: extended in place *)
      injection H as <-. split; [exact Hg'|]. right.
      assert (Eks : ks = Some (VSamples, vs1)).
      { destruct Hout as [E|[E|E]]; [symmetry; exact E | congruence | discriminate]. }
      pose proof (Hpre vs1 Eks) as Hcan.
      assert (Hl1 : length vs1 = j) by (destruct Hg1 as [_ [_ Hl]]; rewrite Hl, vx_d0; reflexivity).
      apply (canon_extend (shape hs) (shape hs') (dims hs) (dims hs') VSamples vs1 _ Hcan).
      + apply Hg'.
      + exact Hmono.
      + intros [[s t] v]. rewrite vx_d0, vx_d'0. cbn [in_dims]. intros [Hs [Ht Hv]]. split; [lia|].
        unfold ProofsSimplifyLayout.fden. cbn [cidx]. apply app_nth1. lia.
  Qed.
End WithV.
