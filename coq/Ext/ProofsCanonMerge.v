(** C06, part 4: the merge invariant.  After every [_insert] along the slice, time or vector axis a key is
    absent, or sits in ('global','slices'), or sits at THE canonical class of what it denotes for the
    current partial shape; [from_sequence]'s final pass simplifies exactly the ('global','slices') keys
    (and [_simplify] lands on the canonical class, Ext/ProofsSimplifyCanon.v), so every key of the result
    is at its canonical class.  Inputs may sit in ANY valid nondegenerate classification on these axes.

    Along a non-slice spatial axis nothing is simplified: the statement holds for canonical inputs and is
    refuted for widened ones ([merge_nonslice_widened_refuted], finding N6, replayed on the real code).

    Built on the C03 layer (Ext/ProofsMergeDen.v, ProofsMergeStep.v, ProofsMergeFrame.v): [frame], [inp],
    [insert_k_den] give well-formedness of every intermediate state and its denotation. *)
From Coq Require Import List Bool Arith QArith Lia.
From DV Require Import Common.Res Common.Str Ext.Types Ext.Classes Ext.Seq Ext.Model Ext.Spec Ext.TableFacts
     Ext.ValidFacts Ext.ProofsValidBase Ext.ProofsSimplifySeq Ext.ProofsSimplifyLayout Ext.ProofsSimplifyCanon
     Ext.ProofsCanonSubset Ext.ProofsMergeSeq Ext.ProofsMergeDen Ext.ProofsMergeStep Ext.ProofsMergeFrame Ext.ProofsMergeKey.
Import ListNotations.
Local Open Scope nat_scope.

Lemma pref_rank_inj c c' : pref_rank c = pref_rank c' -> c = c'.
Proof. destruct c, c'; cbn [pref_rank]; intros H; try reflexivity; discriminate H. Qed.

Lemma copy_dests_eq_bases : insert_slice_bases_c = [BTime; BVector; BGlobal].
Proof. apply copy_dests_eq. Qed.

Section WithV.
  Context {V : Type} (veqb : V -> V -> bool) (vnone : V).
  Hypothesis veqb_spec : forall a b, reflect (a = b) (veqb a b).

  Notation fden := (fden vnone).
  Notation den_k := (den_k vnone).
  Notation good_k := (@good_k V).
  Notation nondeg_k := (@nondeg_k V).

  Lemma canon_class_unique sh d (f : pos -> V) c c' : canon_class sh d f c -> canon_class sh d f c' -> c = c'.
  Proof.
    intros [H1 [H2 H3]] [H1' [H2' H3']]. apply pref_rank_inj.
    pose proof (H3 c' H1' H2'). pose proof (H3' c H1 H2). lia.
  Qed.

  Lemma canon_gconst sh d (vs : list V) : class_ok sh GConst = true -> canon_class sh d (fden d GConst vs) GConst.
  Proof. intros H. split; [exact H|]. split; [apply representable_self|]. intros c' _ _. cbn [pref_rank]. lia. Qed.

  (** the state keeps its class and its old values on the old positions: canonicity carries over *)
  Lemma canon_extend (sh sh' : list nat) (d d' : pos) c (lv vs' : list V) :
    canon_class sh d (fden d c lv) c -> class_ok sh' c = true ->
    (forall x, class_ok sh' x = true -> class_ok sh x = true) ->
    (forall p, in_dims d p -> in_dims d' p /\ fden d' c vs' p = fden d c lv p) ->
    canon_class sh' d' (fden d' c vs') c.
  Proof.
    intros [_ [_ Hmin]] Hc Hmono Hsub. split; [exact Hc|]. split; [apply representable_self|].
    intros x Hx Hr. apply Hmin; [apply Hmono; exact Hx|].
    apply representable_proj. intros p q Hp Hq E.
    destruct (Hsub p Hp) as [Hp' <-]. destruct (Hsub q Hq) as [Hq' <-].
    apply (proj1 (representable_proj d' x _) Hr); assumption.
  Qed.

  (** a constant that starts to differ along the merge axis: no class that ignores that axis represents it *)
  Lemma canon_split (sh' : list nat) (d' : pos) c' (vs' : list V) (ax : axis) :
    class_ok sh' c' = true ->
    (forall x, class_ok sh' x = true -> pref_rank x < pref_rank c' -> forall p, proj x (set_coord ax p 0) = proj x p) ->
    (exists p, in_dims d' p /\ in_dims d' (set_coord ax p 0) /\ fden d' c' vs' p <> fden d' c' vs' (set_coord ax p 0)) ->
    canon_class sh' d' (fden d' c' vs') c'.
  Proof.
    intros Hc Hign [p [Hp [Hp0 Hne]]]. split; [exact Hc|]. split; [apply representable_self|].
    intros x Hx Hr. destruct (le_lt_dec (pref_rank c') (pref_rank x)) as [Hle|Hlt]; [exact Hle|]. exfalso.
    apply Hne. symmetry. apply (proj1 (representable_proj d' x _) Hr); try assumption. apply Hign; assumption.
  Qed.

  (** what the invariant says of one key under header [h] *)
  Definition inv_post (h : hdr) (s : kst V) : Prop :=
    match s with
    | None => True
    | Some (c, vs) => good_k h s /\ (c = GSlices \/ canon_class (shape h) (dims h) (fden (dims h) c vs) c)
    end.

  Lemma inv_post_gconst h vs : good_k h (Some (GConst, vs)) -> inv_post h (Some (GConst, vs)).
  Proof. intros Hg. split; [exact Hg|]. right. apply canon_gconst. apply Hg. Qed.

  Lemma inv_post_gslices h vs : good_k h (Some (GSlices, vs)) -> inv_post h (Some (GSlices, vs)).
  Proof. intros Hg. split; [exact Hg | left; reflexivity]. Qed.

  Definition oc_of (ko2 : kst V) : cls := match ko2 with Some (c, _) => c | None => GConst end.

  (** after reclassification the state is unchanged, or sits in the other's class, or in ('global','slices') *)
  Lemma reclassify_outcome hs ks oc ks1 c1 vs1 :
    good_k hs ks -> reclassify_k vnone hs ks oc = Ok ks1 -> ks1 = Some (c1, vs1) ->
    ks1 = ks \/ c1 = oc \/ c1 = GSlices.
  Proof.
    intros Hg Hr E. rewrite (reclassify_k_eq vnone hs ks oc Hg) in Hr.
    assert (Hcc : forall new s', change_class_k vnone hs ks new = Ok s' -> s' = ks \/ exists v, s' = Some (new, v)).
    { intros new s' Hc. unfold change_class_k in Hc. destruct (ocls_eqb _ _); [injection Hc as <-; left; reflexivity|].
      apply bind_ok in Hc as [vals [_ Hp]]. unfold put in Hp. destruct (has_base _ _); [|discriminate].
      injection Hp as <-. right. eauto. }
    destruct ks as [[c vs]|]; cbn [kst_class] in Hr.
    - destruct (geb c oc); [injection Hr as <-; left; reflexivity|].
      destruct (Hcc _ _ Hr) as [->|[v Hv]]; [left; reflexivity|]. right. rewrite Hv in E. injection E as <- _.
      unfold rtarget. destruct (mem_cls oc (pres c)); [left | right]; reflexivity.
    - destruct (Hcc _ _ Hr) as [->|[v Hv]]; [left; reflexivity|]. right. left. rewrite Hv in E. injection E as <- _. reflexivity.
  Qed.

  Lemma good_len1 h (vs : list V) : good_k h (Some (GConst, vs)) -> length vs = 1.
  Proof. intros [_ [_ Hl]]. rewrite Hl. destruct (dims h) as [[? ?] ?]. reflexivity. Qed.

  Lemma len1_eq (a b : list V) : length a = 1 -> length b = 1 -> nth 0 a vnone = nth 0 b vnone -> a = b.
  Proof.
    destruct a as [|x [|? ?]], b as [|y [|? ?]]; cbn [length nth]; intros H1 H2 E; try discriminate. subst. reflexivity.
  Qed.

  Lemma fden_den_k h c vs p : class_ok (shape h) c = true -> fden (dims h) c vs p = den_k h (Some (c, vs)) p.
  Proof. intros H. rewrite den_k_good by exact H. reflexivity. Qed.

  (** * One insert along the slice axis *)
  Lemma slice_step hs hs' ho j nT nV ks ko2 ks1 ks' :
    slice_ctx hs hs' ho j nT nV ->
    good_k hs ks -> good_k ho ko2 -> nondeg_k ho ko2 ->
    (forall lv, ks = Some (TSlices, lv) -> canon_class (shape hs) (dims hs) (fden (dims hs) TSlices lv) TSlices) ->
    reclassify_k vnone hs ks (oc_of ko2) = Ok ks1 ->
    insert_slice_k veqb vnone hs ho ks1 ko2 = Ok ks' ->
    good_k hs' ks' ->
    (forall s t v, s < S j -> t < nT -> v < nV ->
       den_k hs' ks' (s, t, v) = if s <? j then den_k hs ks (s, t, v) else den_k ho ko2 (0, t, v)) ->
    inv_post hs' ks'.
  Proof.
    intros X Hgs Hgo Hndo Hpre Hr H Hg' Hden.
    destruct X as [sx_hs0 sx_hs'0 sx_ho0 sx_j0 sx_d0 sx_do0 sx_d'0 sx_oko0 sx_ok'0 sx_base0 sx_sd0 sx_sdo0 sx_sd'0].
    pose proof (dims_pos hs' _ _ _ sx_hs'0 sx_d'0) as [_ [HT HV]].
    assert (Hoko : class_ok (shape hs) (oc_of ko2) = true).
    { destruct ko2 as [[c vs]|]; cbn [oc_of]; [rewrite <- sx_oko0; apply Hgo | apply class_ok_const; exact sx_hs0]. }
    assert (Hocsl : is_slices (oc_of ko2) = true -> sdim hs <> None) by (intros _; exact sx_sd0).
    destruct (reclassify_k_den vnone hs ks _ ks1 sx_hs0 Hgs Hoko Hocsl Hr) as [Hg1 [Hd1 [c1 [vs1 [E1 _]]]]].
    pose proof (reclassify_outcome hs ks _ ks1 c1 vs1 Hgs Hr E1) as Hout. subst ks1.
    unfold insert_slice_k in H. rewrite (visible_good _ _ Hg1) in H.
    apply bind_ok in H as [ov [Eov H]].
    assert (Hnot : oc_of ko2 <> TSlices).
    { intros E. destruct ko2 as [[c vs]|]; cbn [oc_of] in E; [|discriminate]. subst c.
      apply Hndo; [discriminate|]. rewrite sx_do0. reflexivity. }
    destruct c1.
    - (* constant *)
      assert (Hsame : ks' = Some (GConst, vs1) -> inv_post hs' ks').
      { intros ->. apply inv_post_gconst. exact Hg'. }
      destruct (list_eqb_spec veqb veqb_spec vs1 ov) as [Heq|Hne]; cbn [negb] in H; [injection H as <-; auto|].
      destruct (find (has_base hs) insert_slice_bases_c) as [b|] eqn:Ef; [|injection H as <-; auto].
      apply bind_ok in H as [ks2 [E2 H]]. apply bind_ok in H as [ov2 [Eo2 H]].
      assert (Hdc : class_ok (shape hs) (slices_of_base b) = true).
      { apply find_some in Ef as [_ Hb]. rewrite <- sx_base0. destruct b; exact Hb. }
      assert (Hdsl : is_slices (slices_of_base b) = true -> sdim hs <> None) by (intros _; exact sx_sd0).
      destruct (change_class_k_den vnone hs _ _ ks2 sx_hs0 Hg1 Hdc Hdsl E2) as [[lv2 ->] [Hg2 _]].
      rewrite (visible_good _ _ Hg2) in H. injection H as <-.
      (* the two constants differ, so the new state really depends on the slice index *)
      assert (Hoc : class_ok (shape ho) GConst = true) by (apply class_ok_const; exact sx_ho0).
      destruct (changed_class_den vnone ho ko2 GConst (sdim hs) ov sx_ho0 Hgo Hoc ltac:(intros Z; discriminate Z) Eov)
        as [Hlo Hno].
      assert (Hdiff : den_k hs' (Some (slices_of_base b, lv2 ++ ov2)) (j, 0, 0)
                      <> den_k hs' (Some (slices_of_base b, lv2 ++ ov2)) (0, 0, 0)).
      { rewrite !Hden by lia. rewrite Nat.ltb_irrefl. replace (0 <? j) with true by (symmetry; apply Nat.ltb_lt; lia).
        intros E. apply Hne. apply len1_eq; [apply (good_len1 hs), Hg1 | rewrite Hlo; destruct (dims ho) as [[? ?] ?]; reflexivity|].
        rewrite <- (Hd1 (0, 0, 0)) in E by (rewrite sx_d0; cbn [in_dims]; lia).
        rewrite den_k_good in E by apply Hg1.
        rewrite <- (Hno (0, 0, 0)) in E by (rewrite sx_do0; cbn [in_dims]; lia).
        destruct (dims hs) as [[? ?] ?], (dims ho) as [[? ?] ?]. cbn [cidx] in E. symmetry. exact E. }
      assert (Hc' : class_ok (shape hs') (slices_of_base b) = true) by (rewrite sx_ok'0; exact Hdc).
      split; [exact Hg'|].
      rewrite copy_dests_eq_bases in Ef. cbn [find] in Ef.
      destruct (has_base hs BTime) eqn:EbT; [injection Ef as <-|].
      + right. apply (canon_split _ _ _ _ AxS Hc').
        * intros x _ Hx [[s t] v]. destruct x; cbn [pref_rank slices_of_base] in Hx; try lia; reflexivity.
        * exists (j, 0, 0). rewrite sx_d'0. cbn [set_coord in_dims]. repeat split; try lia.
          rewrite <- sx_d'0. rewrite !fden_den_k by exact Hc'. exact Hdiff.
      + destruct (has_base hs BVector) eqn:EbV; [injection Ef as <-|].
        * right. apply (canon_split _ _ _ _ AxS Hc').
          -- intros x Hxok Hx [[s t] v]. rewrite sx_ok'0 in Hxok.
             assert (HnoT : class_ok (shape hs) TSlices = false) by (rewrite <- sx_base0; exact EbT).
             destruct x; cbn [pref_rank slices_of_base] in Hx; try lia; try reflexivity. congruence.
          -- exists (j, 0, 0). rewrite sx_d'0. cbn [set_coord in_dims]. repeat split; try lia.
             rewrite <- sx_d'0. rewrite !fden_den_k by exact Hc'. exact Hdiff.
        * cbn [has_base] in Ef. injection Ef as <-. left. reflexivity.
    - (* already in global slices *)
      apply bind_ok in H as [lo [_ H]].
      destruct (n_slices hs), (n_slices ho); try discriminate. injection H as <-. apply inv_post_gslices. exact Hg'.
    - apply bind_ok in H as [lo [_ H]].
      destruct (n_slices hs), (n_slices ho); try discriminate. injection H as <-. apply inv_post_gslices. exact Hg'.
    - (* time slices: extended in place *)
      injection H as <-. split; [exact Hg'|]. right.
      assert (Eks : ks = Some (TSlices, vs1)).
      { destruct Hout as [E|[E|E]]; [symmetry; exact E | congruence | discriminate]. }
      pose proof (Hpre vs1 Eks) as Hcan.
      assert (Hl1 : length vs1 = j) by (destruct Hg1 as [_ [_ Hl]]; rewrite Hl, sx_d0; reflexivity).
      apply (canon_extend (shape hs) (shape hs') (dims hs) (dims hs') TSlices vs1 _ Hcan).
      + apply Hg'.
      + intros x Hx. rewrite <- sx_ok'0. exact Hx.
      + intros [[s t] v]. rewrite sx_d0, sx_d'0. cbn [in_dims]. intros [Hs [Ht Hv]]. split; [lia|].
        unfold ProofsSimplifyLayout.fden. cbn [cidx]. apply app_nth1. lia.
    - apply bind_ok in H as [lo [_ H]].
      destruct (n_slices hs), (n_slices ho); try discriminate. injection H as <-. apply inv_post_gslices. exact Hg'.
    - apply bind_ok in H as [lo [_ H]].
      destruct (n_slices hs), (n_slices ho); try discriminate. injection H as <-. apply inv_post_gslices. exact Hg'.
  Qed.

  (** * One insert along the time axis *)

  (** 5-D: everything goes through ('global','slices') (or is an unchanged constant) *)
  Lemma time5_step hs hs' ho ks1 ko2 ks' c1 vs1 :
    ndim hs = 5 -> ks1 = Some (c1, vs1) -> good_k hs ks1 ->
    insert_sample_k veqb vnone hs ho ks1 ko2 BTime = Ok ks' -> good_k hs' ks' -> inv_post hs' ks'.
  Proof.
    intros Hnd -> Hg1 H Hg'. unfold insert_sample_k in H. rewrite (visible_good _ _ Hg1) in H.
    cbn [samples_of_base] in H. apply bind_ok in H as [ov [_ H]].
    rewrite Hnd in H. cbn [cbase_eqb Nat.eqb andb negb] in H. rewrite !andb_false_r in H.
    assert (Hgen : forall lo, (match n_slices hs with
                               | None => Err EType
                               | Some n => match shape_at hs 3, shape_at ho 3, shape_at hs 4 with
                                           | Some t, Some ot, Some v => Ok (Some (GSlices, interleave (n * t) (n * ot) v (fst lo) (snd lo)))
                                           | _, _, _ => Err EIndex
                                           end
                               end : res (kst V)) = Ok ks' -> inv_post hs' ks').
    { intros lo Hx. destruct (n_slices hs); [|discriminate].
      destruct (shape_at hs 3), (shape_at ho 3), (shape_at hs 4); try discriminate.
      injection Hx as <-. apply inv_post_gslices. exact Hg'. }
    destruct c1; cbn [cls_eqb andb] in H;
      try (apply bind_ok in H as [lo [_ H]]; apply (Hgen lo); exact H).
    destruct (list_eqb veqb vs1 ov).
    - injection H as <-. apply inv_post_gconst. exact Hg'.
    - apply bind_ok in H as [lo [_ H]]. apply (Hgen lo); exact H.
  Qed.

  (** 4-D: a constant that starts to vary becomes ('time','samples'); ('time','samples') is extended in place *)
  Lemma time4_step hs hs' ho j nS ks ko2 ks1 ks' :
    time_ctx hs hs' ho j nS 1 -> ndim hs = 4 -> class_ok (shape hs) TSamples = true ->
    (forall x, class_ok (shape hs') x = true -> class_ok (shape hs) x = true) ->
    good_k hs ks -> good_k ho ko2 -> nondeg_k ho ko2 ->
    (forall lv, ks = Some (TSamples, lv) -> canon_class (shape hs) (dims hs) (fden (dims hs) TSamples lv) TSamples) ->
    reclassify_k vnone hs ks (oc_of ko2) = Ok ks1 ->
    insert_sample_k veqb vnone hs ho ks1 ko2 BTime = Ok ks' ->
    good_k hs' ks' ->
    (forall s t v, s < nS -> t < S j -> v < 1 ->
       den_k hs' ks' (s, t, v) = if t <? j then den_k hs ks (s, t, v) else den_k ho ko2 (s, 0, v)) ->
    inv_post hs' ks'.
  Proof.
    intros X Hnd HokT Hmono Hgs Hgo Hndo Hpre Hr H Hg' Hden.
    destruct X as [tx_hs0 tx_hs'0 tx_ho0 tx_j0 tx_d0 tx_do0 tx_d'0 tx_oko0 tx_ok'0 tx_base0 tx_sd0 tx_sdo0 tx_sd'0].
    pose proof (dims_pos hs' _ _ _ tx_hs'0 tx_d'0) as [HS _].
    assert (Hoko : class_ok (shape hs) (oc_of ko2) = true).
    { destruct ko2 as [[c vs]|]; cbn [oc_of]; [apply tx_oko0; apply Hgo | apply class_ok_const; exact tx_hs0]. }
    assert (Hocsl : is_slices (oc_of ko2) = true -> sdim hs <> None) by (intros _; exact tx_sd0).
    destruct (reclassify_k_den vnone hs ks _ ks1 tx_hs0 Hgs Hoko Hocsl Hr) as [Hg1 [Hd1 [c1 [vs1 [E1 _]]]]].
    pose proof (reclassify_outcome hs ks _ ks1 c1 vs1 Hgs Hr E1) as Hout. subst ks1.
    unfold insert_sample_k in H. rewrite (visible_good _ _ Hg1) in H. cbn [samples_of_base] in H.
    apply bind_ok in H as [ov [Eov H]].
    rewrite Hnd in H. cbn [cbase_eqb Nat.eqb andb negb] in H. rewrite ?andb_true_r, ?andb_false_r in H.
    assert (Hnot : oc_of ko2 <> TSamples).
    { intros E. destruct ko2 as [[c vs]|]; cbn [oc_of] in E; [|discriminate]. subst c.
      apply Hndo; [discriminate|]. rewrite tx_do0. reflexivity. }
    assert (Hgen : forall lo, Ok (Some (GSlices, fst lo ++ snd lo)) = Ok ks' -> inv_post hs' ks').
    { intros lo Hx. injection Hx as <-. apply inv_post_gslices. exact Hg'. }
    destruct c1; cbn [cls_eqb andb] in H;
      try (apply bind_ok in H as [lo [_ H]]; apply (Hgen lo); exact H).
    - (* constant *)
      destruct (list_eqb_spec veqb veqb_spec vs1 ov) as [Heq|Hne]; cbn [negb] in H;
        [injection H as <-; apply inv_post_gconst; exact Hg'|].
      apply bind_ok in H as [ks2 [E2 H]]. apply bind_ok in H as [ov2 [Eo2 H]].
      destruct (change_class_k_den vnone hs _ _ ks2 tx_hs0 Hg1 HokT ltac:(intros Z; discriminate Z) E2) as [[lv2 ->] [Hg2 _]].
      rewrite (visible_good _ _ Hg2) in H. injection H as <-.
      assert (Hoc : class_ok (shape ho) GConst = true) by (apply class_ok_const; exact tx_ho0).
      destruct (changed_class_den vnone ho ko2 GConst (sdim hs) ov tx_ho0 Hgo Hoc ltac:(intros Z; discriminate Z) Eov)
        as [Hlo Hno].
      assert (Hc' : class_ok (shape hs') TSamples = true) by (apply tx_ok'0; exact HokT).
      split; [exact Hg'|]. right. apply (canon_split _ _ _ _ AxT Hc').
      + intros x _ Hx [[s t] v]. destruct x; cbn [pref_rank] in Hx; try lia; reflexivity.
      + exists (0, j, 0). rewrite tx_d'0. cbn [set_coord in_dims]. repeat split; try lia.
        rewrite <- tx_d'0. rewrite !fden_den_k by exact Hc'. rewrite !Hden by lia.
        rewrite Nat.ltb_irrefl. replace (0 <? j) with true by (symmetry; apply Nat.ltb_lt; lia).
        intros E. apply Hne. apply len1_eq; [apply (good_len1 hs), Hg1 | rewrite Hlo; destruct (dims ho) as [[? ?] ?]; reflexivity|].
        rewrite <- (Hd1 (0, 0, 0)) in E by (rewrite tx_d0; cbn [in_dims]; lia).
        rewrite den_k_good in E by apply Hg1.
        rewrite <- (Hno (0, 0, 0)) in E by (rewrite tx_do0; cbn [in_dims]; lia).
        destruct (dims hs) as [[? ?] ?], (dims ho) as [[? ?] ?]. cbn [cidx] in E. symmetry. exact E.
    - (* time samples: extended in place *)
      injection H as <-. split; [exact Hg'|]. right.
      assert (Eks : ks = Some (TSamples, vs1)).
      { destruct Hout as [E|[E|E]]; [symmetry; exact E | congruence | discriminate]. }
      pose proof (Hpre vs1 Eks) as Hcan.
      assert (Hl1 : length vs1 = j) by (destruct Hg1 as [_ [_ Hl]]; rewrite Hl, tx_d0; cbn [mult_spec]; lia).
      apply (canon_extend (shape hs) (shape hs') (dims hs) (dims hs') TSamples vs1 _ Hcan).
      + apply Hg'.
      + exact Hmono.
      + intros [[s t] v]. rewrite tx_d0, tx_d'0. cbn [in_dims]. intros [Hs [Ht Hv]]. split; [lia|].
        unfold ProofsSimplifyLayout.fden. cbn [cidx]. assert (v = 0) by lia. subst v.
        rewrite !Nat.mul_0_r, !Nat.add_0_r. apply app_nth1. lia.
  Qed.

  (** * One insert along the vector axis *)
  Lemma vec_step hs hs' ho j nS nT ks ko2 ks1 ks' :
    vec_ctx hs hs' ho j nS nT ->
    (forall x, class_ok (shape hs') x = true -> class_ok (shape hs) x = true) ->
    (forall c, class_ok (shape ho) c = true -> class_ok (shape hs) c = true) ->
    good_k hs ks -> good_k ho ko2 -> nondeg_k ho ko2 ->
    (forall lv, ks = Some (VSamples, lv) -> canon_class (shape hs) (dims hs) (fden (dims hs) VSamples lv) VSamples) ->
    reclassify_k vnone hs ks (oc_of ko2) = Ok ks1 ->
    insert_sample_k veqb vnone hs ho ks1 ko2 BVector = Ok ks' ->
    good_k hs' ks' ->
    (forall s t v, s < nS -> t < nT -> v < S j ->
       den_k hs' ks' (s, t, v) = if v <? j then den_k hs ks (s, t, v) else den_k ho ko2 (s, t, 0)) ->
    inv_post hs' ks'.
  Proof.
    intros X Hmono Hoko0 Hgs Hgo Hndo Hpre Hr H Hg' Hden.
    destruct X as [vx_hs0 vx_hs'0 vx_ho0 vx_j0 vx_d0 vx_do0 vx_d'0 vx_ok'0 vx_base0 vx_okV0 vx_sd0 vx_sdo0 vx_sd'0].
    pose proof (dims_pos hs' _ _ _ vx_hs'0 vx_d'0) as [HS [HT _]].
    assert (Hoko : class_ok (shape hs) (oc_of ko2) = true).
    { destruct ko2 as [[c vs]|]; cbn [oc_of]; [apply Hoko0; apply Hgo | apply class_ok_const; exact vx_hs0]. }
    assert (Hocsl : is_slices (oc_of ko2) = true -> sdim hs <> None) by (intros _; exact vx_sd0).
    destruct (reclassify_k_den vnone hs ks _ ks1 vx_hs0 Hgs Hoko Hocsl Hr) as [Hg1 [Hd1 [c1 [vs1 [E1 _]]]]].
    pose proof (reclassify_outcome hs ks _ ks1 c1 vs1 Hgs Hr E1) as Hout. subst ks1.
    unfold insert_sample_k in H. rewrite (visible_good _ _ Hg1) in H. cbn [samples_of_base] in H.
    apply bind_ok in H as [ov [Eov H]].
    cbn [cbase_eqb andb negb] in H. rewrite ?andb_true_r, ?andb_false_r in H.
    assert (Hnot : oc_of ko2 <> VSamples).
    { intros E. destruct ko2 as [[c vs]|]; cbn [oc_of] in E; [|discriminate]. subst c.
      apply Hndo; [discriminate|]. rewrite vx_do0. reflexivity. }
    assert (Hgen : forall lo, Ok (Some (GSlices, fst lo ++ snd lo)) = Ok ks' -> inv_post hs' ks').
    { intros lo Hx. injection Hx as <-. apply inv_post_gslices. exact Hg'. }
    destruct c1; cbn [cls_eqb andb] in H;
      try (apply bind_ok in H as [lo [_ H]]; apply (Hgen lo); exact H).
    - (* constant *)
      destruct (list_eqb_spec veqb veqb_spec vs1 ov) as [Heq|Hne]; cbn [negb] in H;
        [injection H as <-; apply inv_post_gconst; exact Hg'|].
      apply bind_ok in H as [ks2 [E2 H]]. apply bind_ok in H as [ov2 [Eo2 H]].
      destruct (change_class_k_den vnone hs _ _ ks2 vx_hs0 Hg1 vx_okV0 ltac:(intros Z; discriminate Z) E2) as [[lv2 ->] [Hg2 _]].
      rewrite (visible_good _ _ Hg2) in H. injection H as <-.
      assert (Hoc : class_ok (shape ho) GConst = true) by (apply class_ok_const; exact vx_ho0).
      destruct (changed_class_den vnone ho ko2 GConst (sdim hs) ov vx_ho0 Hgo Hoc ltac:(intros Z; discriminate Z) Eov)
        as [Hlo Hno].
      assert (Hc' : class_ok (shape hs') VSamples = true) by (apply vx_ok'0; exact vx_okV0).
      split; [exact Hg'|]. right. apply (canon_split _ _ _ _ AxV Hc').
      + intros x _ Hx [[s t] v]. destruct x; cbn [pref_rank] in Hx; try lia; reflexivity.
      + exists (0, 0, j). rewrite vx_d'0. cbn [set_coord in_dims]. repeat split; try lia.
        rewrite <- vx_d'0. rewrite !fden_den_k by exact Hc'. rewrite !Hden by lia.
        rewrite Nat.ltb_irrefl. replace (0 <? j) with true by (symmetry; apply Nat.ltb_lt; lia).
        intros E. apply Hne. apply len1_eq; [apply (good_len1 hs), Hg1 | rewrite Hlo; destruct (dims ho) as [[? ?] ?]; reflexivity|].
        rewrite <- (Hd1 (0, 0, 0)) in E by (rewrite vx_d0; cbn [in_dims]; lia).
        rewrite den_k_good in E by apply Hg1.
        rewrite <- (Hno (0, 0, 0)) in E by (rewrite vx_do0; cbn [in_dims]; lia).
        destruct (dims hs) as [[? ?] ?], (dims ho) as [[? ?] ?]. cbn [cidx] in E. symmetry. exact E.
    - (* vector samples: extended in place *)
      injection H as <-. split; [exact Hg'|]. right.
      assert (Eks : ks = Some (VSamples, vs1)).
      { destruct Hout as [E|[E|E]]; [symmetry; exact E | congruence | discriminate]. }
      pose proof (Hpre vs1 Eks) as Hcan.
      assert (Hl1 : length vs1 = j) by (destruct Hg1 as [_ [_ Hl]]; rewrite Hl, vx_d0; reflexivity).
      apply (canon_extend (shape hs) (shape hs') (dims hs) (dims hs') VSamples vs1 _ Hcan).
      + apply Hg'.
      + exact Hmono.
      + intros [[s t] v]. rewrite vx_d0, vx_d'0. cbn [in_dims]. intros [Hs [Ht Hv]]. split; [lia|].
        unfold ProofsSimplifyLayout.fden. cbn [cidx]. apply app_nth1. lia.
  Qed.

  (** * One [_insert] along the slice, time or vector axis, inside [from_sequence] *)

  (** the class that [_insert] extends in place along an axis *)
  Definition axcls (ax : axis) : cls := match ax with AxS => TSlices | AxT => TSamples | AxV => VSamples end.

  (** what is needed of the state BEFORE an insert: well formed, and canonical if it sits in the axis class *)
  Definition pre_ax (ax : axis) (h : hdr) (s : kst V) : Prop :=
    good_k h s /\
    forall lv, s = Some (axcls ax, lv) -> canon_class (shape h) (dims h) (fden (dims h) (axcls ax) lv) (axcls ax).

  Lemma inv_post_pre ax h s : inv_post h s -> pre_ax ax h s.
  Proof.
    destruct s as [[c vs]|]; [|intros _; split; [exact I | intros lv E; discriminate E]].
    intros [Hg [->|Hc]]; (split; [exact Hg|]); intros lv E; injection E as E1 E2; subst.
    - destruct ax; discriminate E1.
    - exact Hc.
  Qed.

  Lemma set_nth_length {A} i (v : A) l l' : set_nth i v l = Some l' -> length l' = length l.
  Proof.
    revert i l'. induction l as [|a r IH]; intros i l' H; [destruct i; discriminate|].
    destruct i as [|i]; cbn [set_nth] in H; [injection H as <-; reflexivity|].
    destruct (set_nth i v r) as [r'|] eqn:E; [|discriminate]. injection H as <-. cbn [length]. f_equal. eapply IH; eauto.
  Qed.

  Lemma set_nth_nth_other {A} i j (v d : A) l l' : set_nth i v l = Some l' -> i <> j -> nth j l' d = nth j l d.
  Proof.
    revert i j l'. induction l as [|a r IH]; intros i j l' H Hne; [destruct i; discriminate|].
    destruct i as [|i]; cbn [set_nth] in H.
    - injection H as <-. destruct j; [congruence | reflexivity].
    - destruct (set_nth i v r) as [r'|] eqn:E; [|discriminate]. injection H as <-.
      destruct j; [reflexivity|]. cbn [nth]. eapply IH; eauto.
  Qed.

  (** changing an extent other than a 5-D time extent does not change which classes are admitted *)
  Lemma class_ok_with_dim h dim m m' c :
    (dim = 3 -> ndim h <> 5) ->
    class_ok (shape (with_dim h dim m)) c = class_ok (shape (with_dim h dim m')) c.
  Proof.
    intros Hd. unfold with_dim.
    destruct (set_nth dim m (shape h)) as [sh1|] eqn:E1; destruct (set_nth dim m' (shape h)) as [sh2|] eqn:E2;
      cbn [with_shape shape]; try reflexivity.
    - unfold class_ok. rewrite (set_nth_length _ _ _ _ E1), (set_nth_length _ _ _ _ E2).
      destruct (Nat.eq_dec dim 3) as [->|Hne].
      + specialize (Hd eq_refl). unfold ndim in Hd.
        destruct (length (shape h)) as [|[|[|[|[|[|n]]]]]]; try reflexivity. congruence.
      + rewrite (set_nth_nth_other _ _ _ 0 _ _ E1 Hne), (set_nth_nth_other _ _ _ 0 _ _ E2 Hne). reflexivity.
    - exfalso. clear -E1 E2. revert dim sh1 E1 E2. induction (shape h) as [|a r IH]; intros [|i] sh1 E1 E2; cbn [set_nth] in *; try discriminate.
      destruct (set_nth i m r) eqn:X1; [|discriminate]. destruct (set_nth i m' r) eqn:X2; [discriminate|]. eapply IH; eauto.
    - exfalso. clear -E1 E2. revert dim sh2 E1 E2. induction (shape h) as [|a r IH]; intros [|i] sh2 E1 E2; cbn [set_nth] in *; try discriminate.
      destruct (set_nth i m' r) eqn:X1; [|discriminate]. destruct (set_nth i m r) eqn:X2; [discriminate|]. eapply IH; eauto.
  Qed.

  Lemma ndim_with_dim h dim m : ndim (with_dim h dim m) = ndim h.
  Proof.
    unfold with_dim, ndim. destruct (set_nth dim m (shape h)) as [sh|] eqn:E; [|reflexivity].
    cbn [with_shape shape]. eapply set_nth_length; eauto.
  Qed.

  Theorem insert_k_inv hfull ish dim N ho j ax ks ko ks' :
    frame hfull ish dim N -> inp hfull ish ho -> 1 <= j ->
    axis_of (sdim hfull) dim = Some ax -> (3 <= dim -> sdim hfull <> None) ->
    pre_ax ax (with_dim hfull dim j) ks -> good_k ho ko -> nondeg_k ho ko ->
    insert_k veqb vnone (with_dim hfull dim j) ho dim ks ko = Ok ks' ->
    inv_post (with_dim hfull dim (S j)) ks'.
  Proof.
    intros F Hin Hj Hax Hn3 [Hgs Hpre] Hgo Hndo H.
    destruct (insert_k_den veqb vnone veqb_spec hfull ish dim N ho j ax ks ko F Hin Hj Hax Hn3 Hgs Hgo)
      as [ks'' [E [G1 [_ G3]]]].
    rewrite H in E. injection E as <-.
    destruct (frame_generic hfull ish dim N ho j F Hin Hj) as [Hho [Hhs [Hsd [Haff [Hmono Hbase]]]]].
    pose proof (axis_of_cases _ _ _ (fr_sdim _ _ _ _ F) Hax) as Hcase.
    pose proof (use_slices_with_dim hfull dim j ho Hsd Haff) as Hus.
    set (hs := with_dim hfull dim j) in *. set (hs' := with_dim hfull dim (S j)) in *.
    set (ko2 := drop_k (use_slices hfull ho) ko) in *.
    assert (Hgo2 : good_k ho ko2) by (apply drop_k_good; exact Hgo).
    assert (Hndo2 : nondeg_k ho ko2) by (apply drop_k_nondeg; exact Hndo).
    unfold insert_k in H. rewrite Hus in H.
    rewrite (visible_good _ _ Hgo), (visible_good _ _ Hgs) in H.
    change (match ko with Some (c, vs) => if is_slices c && negb (use_slices hfull ho) then None else Some (c, vs)
                     | None => None end) with ko2 in H.
    assert (K : (bind (reclassify_k vnone hs ks (oc_of ko2)) (fun ks1 =>
                   if odim_is (sdim hs) dim then insert_slice_k veqb vnone hs ho ks1 ko2
                   else if dim <? 3 then insert_non_slice_k veqb vnone hs ho ks1 ko2
                   else if dim =? 3 then insert_sample_k veqb vnone hs ho ks1 ko2 BTime
                   else if dim =? 4 then insert_sample_k veqb vnone hs ho ks1 ko2 BVector
                   else Ok ks1)) = Ok ks' -> inv_post hs' ks').
    { clear H. intros H. apply bind_ok in H as [ks1 [Hr H]]. rewrite Hsd in H.
      destruct ax.
      - (* slice axis *)
        destruct Hcase as [Hs Hd3]. rewrite Hs in H. unfold odim_is in H. rewrite Nat.eqb_refl in H.
        pose proof (frame_slice_ctx hfull ish dim N ho j F Hin Hs Hj) as X. fold hs hs' in X.
        apply (slice_step hs hs' ho j _ _ ks ko2 ks1 ks' X Hgs Hgo2 Hndo2 Hpre Hr H G1).
        intros s t v Hs' Ht Hv.
        rewrite (G3 (s, t, v)) by (rewrite (sx_d' _ _ _ _ _ _ X); cbn [in_dims]; lia). reflexivity.
      - (* time axis *)
        destruct Hcase as [-> Ho]. rewrite Ho in H. change (3 <? 3) with false in H. change (3 =? 3) with true in H. cbv iota in H.
        assert (Hs : sdim hfull <> None) by (apply Hn3; lia).
        destruct (frame_time_ctx hfull ish N ho j F Hin Hs Hj) as [X Hnd]. fold hs hs' in X, Hnd.
        destruct Hnd as [[H4 [HV [H1 [H2 H3]]]]|[H5 H5o]].
        + rewrite HV in X.
          apply (time4_step hs hs' ho j _ ks ko2 ks1 ks' X H4 H1); try assumption.
          * intros x Hx. unfold hs, hs' in *. rewrite (class_ok_with_dim hfull 3 j (S j)); [exact Hx|].
            intros _. rewrite <- (ndim_with_dim hfull 3 j). lia.
          * intros s t v Hs' Ht Hv.
            rewrite (G3 (s, t, v)) by (rewrite (tx_d' _ _ _ _ _ _ X); cbn [in_dims]; lia). reflexivity.
        + assert (Hoko : class_ok (shape hs) (oc_of ko2) = true).
          { destruct ko2 as [[c vs]|]; cbn [oc_of]; [apply Hmono; apply Hgo2 | apply class_ok_const; exact Hhs]. }
          assert (Hocsl : is_slices (oc_of ko2) = true -> sdim hs <> None) by (intros _; rewrite Hsd; exact Hs).
          destruct (reclassify_k_den vnone hs ks _ ks1 Hhs Hgs Hoko Hocsl Hr) as [Hg1 [_ [c1 [vs1 [E1 _]]]]].
          apply (time5_step hs hs' ho ks1 ko2 ks' c1 vs1 H5 E1 Hg1 H G1).
      - (* vector axis *)
        destruct Hcase as [-> Ho]. rewrite Ho in H. change (4 <? 3) with false in H. change (4 =? 3) with false in H.
        change (4 =? 4) with true in H. cbv iota in H.
        assert (Hs : sdim hfull <> None) by (apply Hn3; lia).
        pose proof (frame_vec_ctx hfull ish N ho j F Hin Hs Hj) as X. fold hs hs' in X.
        apply (vec_step hs hs' ho j _ _ ks ko2 ks1 ks' X); try assumption.
        + intros x Hx. unfold hs, hs' in *. rewrite (class_ok_with_dim hfull 4 j (S j)); [exact Hx | intros Z; discriminate Z].
        + intros s t v Hs' Ht Hv.
          rewrite (G3 (s, t, v)) by (rewrite (vx_d' _ _ _ _ _ _ X); cbn [in_dims]; lia). reflexivity. }
    destruct ko2 as [[oc ovs]|] eqn:Eko.
    - apply K. exact H.
    - destruct ks as [[c vs]|].
      + apply K. exact H.
      + injection H as <-. exact I.
  Qed.

  (** * Iterating the inserts *)
  Lemma insert_all_inv hfull ish dim N ax (others : list (hdr * kst V)) :
    frame hfull ish dim N -> axis_of (sdim hfull) dim = Some ax -> (3 <= dim -> sdim hfull <> None) ->
    Forall (fun i => inp hfull ish (fst i) /\ good_k (fst i) (snd i) /\ nondeg_k (fst i) (snd i)) others ->
    forall j ks ks', 1 <= j -> others <> [] -> pre_ax ax (with_dim hfull dim j) ks ->
      insert_all_k veqb vnone hfull dim j others ks = Ok ks' ->
      inv_post (with_dim hfull dim (j + length others)) ks'.
  Proof.
    intros F Hax Hn3 Hall. induction Hall as [|[ho ko] rest [Hin [Hgo Hndo]] Hrest IH]; intros j ks ks' Hj Hne Hpre H; [congruence|].
    cbn [insert_all_k] in H. apply bind_ok in H as [k1 [H1 H]]. cbn [fst snd] in *.
    pose proof (insert_k_inv hfull ish dim N ho j ax ks ko k1 F Hin Hj Hax Hn3 Hpre Hgo Hndo H1) as Hpost.
    destruct rest as [|i rest'].
    - cbn [insert_all_k] in H. injection H as <-. cbn [length]. replace (j + 1) with (S j) by lia. exact Hpost.
    - cbn [length] in *. replace (j + S (S (length rest'))) with (S j + S (length rest')) by lia.
      apply (IH (S j) k1 ks'); [lia | discriminate | apply inv_post_pre; exact Hpost | exact H].
  Qed.

  (** the first input never sits in the axis class (that class has one value per key there) *)
  Lemma init_pre hfull ish dim N ax h0 k0 :
    frame hfull ish dim N -> axis_of (sdim hfull) dim = Some ax -> (3 <= dim -> sdim hfull <> None) ->
    inp hfull ish h0 -> good_k h0 k0 -> nondeg_k h0 k0 ->
    pre_ax ax (with_dim hfull dim 1) (init_k hfull h0 k0).
  Proof.
    intros F Hax Hn3 Hin Hg Hnd.
    destruct (frame_dims hfull ish dim N ax F Hax Hn3) as [Hc1 [Hdin Hdm]].
    assert (Hd1 : dims (with_dim hfull dim 1) = dims h0).
    { rewrite (Hdm 1 (le_n 1)), (Hdin h0 Hin), <- Hc1. apply set_coord_coord. }
    split; [apply (init_k_good vnone hfull ish dim N h0 k0 F Hin Hg Hd1)|].
    intros lv E. exfalso. rewrite (init_k_drop hfull h0 k0 Hg) in E.
    assert (Ek : k0 = Some (axcls ax, lv)).
    { destruct k0 as [[c vs]|]; cbn [drop_k] in E; [|discriminate]. destruct (_ && _); [discriminate | exact E]. }
    subst k0. destruct Hg as [Hok [_ _]]. cbn [nondeg_k] in Hnd.
    rewrite (Hdin h0 Hin) in Hnd. unfold d_in in *. cbn [coord] in Hc1.
    pose proof (axis_of_cases _ _ _ (fr_sdim _ _ _ _ F) Hax) as Hcase.
    destruct ax; cbn [axcls coord] in *.
    - apply Hnd; [discriminate|]. cbn [mult_spec]. exact Hc1.
    - destruct Hcase as [-> _]. destruct Hin as [Hsh _]. rewrite Hsh in Hok.
      pose proof (fr_nd _ _ _ _ F) as Hl. unfold class_ok in Hok. cbn [base_of] in Hok.
      destruct ish as [|a [|b [|c [|t [|v [|x r]]]]]]; cbn [length] in Hl, Hok; try lia; try discriminate Hok.
      + apply Hnd; [discriminate|]. cbn [mult_spec nth] in *. lia.
      + cbn [nth] in Hc1, Hok. subst t. discriminate Hok.
    - apply Hnd; [discriminate|]. cbn [mult_spec]. exact Hc1.
  Qed.

  (** * Non-slice spatial axis (canonical inputs) *)
  Notation kcanon := (kcanon vnone).

  Lemma canon_class_shape_ext sh sh' d (f : pos -> V) c :
    (forall x, class_ok sh x = class_ok sh' x) -> canon_class sh d f c -> canon_class sh' d f c.
  Proof.
    intros E [H1 [H2 H3]]. split; [rewrite <- E; exact H1|]. split; [exact H2|].
    intros c' Hc'. apply H3. rewrite E. exact Hc'.
  Qed.

  Lemma kcanon_transfer h h' (s : kst V) :
    dims h' = dims h -> sdim h' = sdim h -> (forall c, class_ok (shape h) c = class_ok (shape h') c) ->
    kcanon h s -> kcanon h' s.
  Proof.
    intros Hd Hs Hc. destruct s as [[c vs]|]; [|trivial]. intros [[H1 [H2 H3]] H4]. split.
    - split; [rewrite <- Hc; exact H1|]. split; [rewrite Hs; exact H2 | rewrite Hd; exact H3].
    - rewrite Hd. eapply canon_class_shape_ext; [exact Hc | exact H4].
  Qed.

  Lemma kcanon_good h s : kcanon h s -> good_k h s.
  Proof. destruct s as [[c vs]|]; [intros [H _]; exact H | trivial]. Qed.

  Lemma odim_is_false sd dim : sd <> Some dim -> odim_is sd dim = false.
  Proof.
    intros H. destruct sd as [d|]; [|reflexivity]. cbn [odim_is]. apply Nat.eqb_neq. intros ->. apply H. reflexivity.
  Qed.

  Lemma nonslice_step hfull ish dim N ho j ks ko ks' :
    frame hfull ish dim N -> inp hfull ish ho -> 1 <= j -> dim < 3 -> sdim hfull <> Some dim ->
    kcanon (with_dim hfull dim j) ks -> kcanon ho ko ->
    insert_k veqb vnone (with_dim hfull dim j) ho dim ks ko = Ok ks' ->
    kcanon (with_dim hfull dim (S j)) ks'.
  Proof.
    intros F Hin Hj Hd3 Hns Hks Hko H.
    destruct (frame_generic hfull ish dim N ho j F Hin Hj) as [Hho [Hhs [Hsd [Haff [Hmono Hbase]]]]].
    destruct (frame_generic hfull ish dim N ho (S j) F Hin ltac:(lia)) as [_ [Hhs' [Hsd' _]]].
    destruct (frame_nonslice hfull ish dim N ho j F Hin Hd3 Hns Hj) as [Hdj Hokj].
    destruct (frame_nonslice hfull ish dim N ho (S j) F Hin Hd3 Hns ltac:(lia)) as [Hdj' Hokj'].
    pose proof (use_slices_with_dim hfull dim j ho Hsd Haff) as Hus.
    set (hs := with_dim hfull dim j) in *. set (hs' := with_dim hfull dim (S j)) in *.
    pose proof (kcanon_good _ _ Hks) as Hgs. pose proof (kcanon_good _ _ Hko) as Hgo.
    set (ko2 := drop_k (use_slices hfull ho) ko) in *.
    assert (Hko2 : kcanon ho ko2).
    { unfold ko2. destruct ko as [[c vs]|]; cbn [drop_k]; [|exact I]. destruct (_ && _); [exact I | exact Hko]. }
    pose proof (kcanon_good _ _ Hko2) as Hgo2.
    assert (Hsdo : sdim ho = sdim hs) by (destruct Hin as [_ Hx]; rewrite Hx, Hsd; reflexivity).
    assert (Htr : forall s, kcanon hs s -> kcanon hs' s).
    { intros s. apply kcanon_transfer; [congruence | congruence | intros c; rewrite <- Hokj, <- Hokj'; reflexivity]. }
    unfold insert_k in H. rewrite Hus in H.
    rewrite (visible_good _ _ Hgo), (visible_good _ _ Hgs) in H.
    change (match ko with Some (c, vs) => if is_slices c && negb (use_slices hfull ho) then None else Some (c, vs)
                     | None => None end) with ko2 in H.
    assert (K : (bind (reclassify_k vnone hs ks (oc_of ko2)) (fun ks1 =>
                   if odim_is (sdim hs) dim then insert_slice_k veqb vnone hs ho ks1 ko2
                   else if dim <? 3 then insert_non_slice_k veqb vnone hs ho ks1 ko2
                   else if dim =? 3 then insert_sample_k veqb vnone hs ho ks1 ko2 BTime
                   else if dim =? 4 then insert_sample_k veqb vnone hs ho ks1 ko2 BVector
                   else Ok ks1)) = Ok ks' -> kcanon hs' ks').
    { clear H. intros H. apply bind_ok in H as [ks1 [Hr H]].
      rewrite Hsd, (odim_is_false _ _ Hns) in H. replace (dim <? 3) with true in H by (symmetry; apply Nat.ltb_lt; exact Hd3).
      assert (Hoko : class_ok (shape hs) (oc_of ko2) = true).
      { destruct ko2 as [[c vs]|]; cbn [oc_of]; [apply Hmono; apply Hgo2 | apply class_ok_const; exact Hhs]. }
      assert (Hocsl : is_slices (oc_of ko2) = true -> sdim hs <> None).
      { destruct ko2 as [[c vs]|]; cbn [oc_of]; [|discriminate]. destruct Hgo2 as [_ [Hx _]]. rewrite <- Hsdo. exact Hx. }
      destruct (reclassify_k_den vnone hs ks _ ks1 Hhs Hgs Hoko Hocsl Hr) as [Hg1 [Hd1 [c1 [vs1 [-> [Hw1 _]]]]]].
      assert (Hw : widens (kst_class ko2) c1).
      { destruct ko2 as [[c vs]|]; [exact Hw1 | right; apply allowed_from_none]. }
      destruct (insert_non_slice_k_den veqb vnone veqb_spec hs ho c1 vs1 ko2 Hhs Hho (eq_sym Hdj) Hsdo Hokj Hg1 Hgo2 Hw)
        as [[Hden E]|[_ E]]; rewrite E in H; injection H as <-; [|exact I].
      apply Htr.
      (* both sides denote the same function, so they sit in the same (canonical) class *)
      assert (Hfs : forall p, in_dims (dims hs) p -> den_k hs ks p = den_k ho ko2 p).
      { intros p Hp. rewrite <- (Hd1 p Hp). apply Hden. exact Hp. }
      rewrite (reclassify_k_eq vnone hs ks _ Hgs) in Hr.
      destruct ks as [[c vs]|]; cbn [kst_class] in Hr.
      - destruct Hks as [Hok Hc].
        assert (Ec : c = oc_of ko2).
        { destruct ko2 as [[co vo]|]; cbn [oc_of].
          - destruct Hko2 as [Hoko2 Hco]. apply (canon_class_unique (shape hs) (dims hs) (fden (dims hs) c vs)); [exact Hc|].
            rewrite <- Hdj in Hco. eapply canon_class_shape_ext; [exact Hokj|].
            eapply canon_class_ext; [|exact Hco]. intros p Hp.
            transitivity (den_k ho (Some (co, vo)) p);
              [rewrite Hdj; apply fden_den_k; apply Hoko2 | rewrite <- Hfs by exact Hp; symmetry; apply fden_den_k; apply Hok].
          - destruct Hc as [_ [_ Hmin]].
            assert (Hr0 : representable (dims hs) GConst (fden (dims hs) c vs)).
            { intros p q Hp Hq _. rewrite !(fden_den_k hs c vs) by apply Hok. rewrite !Hfs by assumption. reflexivity. }
            specialize (Hmin GConst (class_ok_const _ Hhs) Hr0). apply pref_rank_inj. cbn [pref_rank] in *. lia. }
        unfold geb in Hr. rewrite <- Ec, cls_eqb_refl in Hr. cbn [orb] in Hr. injection Hr as <- <-.
        split; assumption.
      - (* the key was absent so far: kept only if the other side is None everywhere, i.e. a constant *)
        destruct ko2 as [[co vo]|] eqn:Eko; cbn [oc_of] in *.
        + assert (c1 = co).
          { unfold change_class_k in Hr. cbn [visible kst_class ocls_eqb] in Hr.
            apply bind_ok in Hr as [vals [_ Hp]]. unfold put in Hp. destruct (has_base _ _); [|discriminate].
            injection Hp as <- _. reflexivity. }
          subst c1. destruct Hko2 as [Hoko2 [_ [_ Hmin]]].
          assert (Hr0 : representable (dims ho) GConst (fden (dims ho) co vo)).
          { intros p q Hp Hq _. rewrite !(fden_den_k ho co vo) by apply Hoko2. rewrite <- Hdj in Hp, Hq.
            rewrite <- !Hfs by assumption. reflexivity. }
          specialize (Hmin GConst (class_ok_const _ Hho) Hr0).
          assert (co = GConst) by (apply pref_rank_inj; cbn [pref_rank] in *; lia). subst co.
          split; [exact Hg1 | apply canon_gconst; apply Hg1].
        + split; [exact Hg1|]. (* both absent cannot reach here, but the statement is harmless *)
          unfold change_class_k in Hr. cbn [visible kst_class ocls_eqb] in Hr.
          apply bind_ok in Hr as [vals [_ Hp]]. unfold put in Hp. destruct (has_base _ _); [|discriminate].
          injection Hp as <- _. apply canon_gconst. apply Hg1. }
    destruct ko2 as [[oc ovs]|] eqn:Eko.
    - apply K. exact H.
    - destruct ks as [[c vs]|].
      + apply K. exact H.
      + injection H as <-. exact I.
  Qed.

  Lemma insert_all_nonslice hfull ish dim N (others : list (hdr * kst V)) :
    frame hfull ish dim N -> dim < 3 -> sdim hfull <> Some dim ->
    Forall (fun i => inp hfull ish (fst i) /\ kcanon (fst i) (snd i)) others ->
    forall j ks ks', 1 <= j -> kcanon (with_dim hfull dim j) ks ->
      insert_all_k veqb vnone hfull dim j others ks = Ok ks' ->
      kcanon (with_dim hfull dim (j + length others)) ks'.
  Proof.
    intros F Hd3 Hns Hall. induction Hall as [|[ho ko] rest [Hin Hko] Hrest IH]; intros j ks ks' Hj Hks H.
    - cbn [insert_all_k] in H. injection H as <-. cbn [length]. rewrite Nat.add_0_r. exact Hks.
    - cbn [insert_all_k] in H. apply bind_ok in H as [k1 [H1 H]]. cbn [fst snd length] in *.
      replace (j + S (length rest)) with (S j + length rest) by lia.
      apply (IH (S j) k1 ks'); [lia | | exact H].
      apply (nonslice_step hfull ish dim N ho j ks ko k1 F Hin Hj Hd3 Hns Hks Hko H1).
  Qed.

  (** * The whole merge for one key *)
  Lemma final_pass hfull ks r :
    hdr_wf hfull -> hdr_tight hfull -> inv_post hfull ks ->
    (match visible hfull ks with
     | Some (GSlices, _) => simplify_k veqb vnone hfull ks
     | _ => Ok ks
     end) = Ok r -> kcanon hfull r.
  Proof.
    intros Hw Ht Hinv H. destruct ks as [[c vs]|]; [|cbn [visible] in H; injection H as <-; exact I].
    destruct Hinv as [Hg Hc]. rewrite (visible_good _ _ Hg) in H.
    destruct (cls_eqb_spec c GSlices) as [->|Hne].
    - apply (finish_simplify veqb vnone veqb_spec hfull GSlices vs r Hw Ht Hg); [intros Z; discriminate Z | exact H].
    - assert (r = Some (c, vs)) by (destruct c; try congruence; injection H as <-; reflexivity). subst r.
      destruct Hc as [->|Hc]; [congruence|]. split; assumption.
  Qed.

  Theorem merge_k_canon_axis hfull ish dim ax h0 k0 (rest : list (hdr * kst V)) r :
    frame hfull ish dim (S (length rest)) -> hdr_wf hfull ->
    axis_of (sdim hfull) dim = Some ax -> (3 <= dim -> sdim hfull <> None) ->
    Forall (fun i => inp hfull ish (fst i) /\ good_k (fst i) (snd i) /\ nondeg_k (fst i) (snd i)) ((h0, k0) :: rest) ->
    merge_k veqb vnone hfull dim ((h0, k0) :: rest) = Ok r -> kcanon hfull r.
  Proof.
    intros F Hw Hax Hn3 Hall H. inversion Hall as [|x l [Hin0 [Hg0 Hnd0]] Hrest]; subst. cbn [fst snd] in *.
    assert (Ht : hdr_tight hfull) by (intros c; apply (fr_bases _ _ _ _ F)).
    cbn [merge_k] in H. apply bind_ok in H as [ks [Hins H]].
    assert (Hne : rest <> []) by (pose proof (fr_N _ _ _ _ F); destruct rest; [cbn [length] in *; lia | discriminate]).
    pose proof (init_pre hfull ish dim _ ax h0 k0 F Hax Hn3 Hin0 Hg0 Hnd0) as Hpre.
    pose proof (insert_all_inv hfull ish dim _ ax rest F Hax Hn3 Hrest 1 _ ks (le_n 1) Hne Hpre Hins) as Hpost.
    cbn [plus] in Hpost. rewrite (with_dim_full hfull ish dim _ F) in Hpost.
    apply (final_pass hfull ks r Hw Ht Hpost H).
  Qed.

  Theorem merge_k_canon_nonslice hfull ish dim h0 k0 (rest : list (hdr * kst V)) r :
    frame hfull ish dim (S (length rest)) -> hdr_wf hfull -> dim < 3 -> sdim hfull <> Some dim ->
    Forall (fun i => inp hfull ish (fst i) /\ kcanon (fst i) (snd i)) ((h0, k0) :: rest) ->
    merge_k veqb vnone hfull dim ((h0, k0) :: rest) = Ok r -> kcanon hfull r.
  Proof.
    intros F Hw Hd3 Hns Hall H. inversion Hall as [|x l [Hin0 Hk0] Hrest]; subst. cbn [fst snd] in *.
    assert (Ht : hdr_tight hfull) by (intros c; apply (fr_bases _ _ _ _ F)).
    cbn [merge_k] in H. apply bind_ok in H as [ks [Hins H]].
    pose proof (kcanon_good _ _ Hk0) as Hg0.
    assert (Hinit : kcanon (with_dim hfull dim 1) (init_k hfull h0 k0)).
    { rewrite (init_k_drop hfull h0 k0 Hg0).
      destruct (frame_generic hfull ish dim _ h0 1 F Hin0 (le_n 1)) as [_ [_ [Hsd1 _]]].
      destruct (frame_nonslice hfull ish dim _ h0 1 F Hin0 Hd3 Hns (le_n 1)) as [Hd1 Hok1].
      apply (kcanon_transfer h0); [exact Hd1 | destruct Hin0 as [_ Hx]; congruence | exact Hok1 |].
      destruct k0 as [[c vs]|]; cbn [drop_k]; [|exact I]. destruct (_ && _); [exact I | exact Hk0]. }
    pose proof (insert_all_nonslice hfull ish dim _ rest F Hd3 Hns Hrest 1 _ ks (le_n 1) Hinit Hins) as Hpost.
    cbn [plus] in Hpost. rewrite (with_dim_full hfull ish dim _ F) in Hpost.
    apply (final_pass hfull ks r Hw Ht); [|exact H].
    destruct ks as [[c vs]|]; [|exact I]. destruct Hpost as [Hg Hc]. split; [exact Hg | right; exact Hc].
  Qed.

  (** * Whole extensions *)
  Notation canonical_mod_none := (canonical_mod_none vnone).

  Lemma canonical_mod_none_kcanon (e : ext V) k : canonical_mod_none e -> kcanon (hdr_of e) (lookup_e e k).
  Proof.
    intros [Hv Hcan]. destruct (lookup_e e k) as [[c vs]|] eqn:El; [|exact I].
    pose proof (lookup_In _ _ _ El) as Hin. destruct Hv as [_ [_ Hent]]. pose proof (Hent _ _ _ Hin) as Hok.
    split; [exact Hok|]. eapply canon_class_ext; [|apply (Hcan _ _ _ Hin)].
    intros p _. apply den_fden; [exact El | apply Hok].
  Qed.

  Lemma kcanon_canonical_mod_none h (ents : list (key * (cls * list V))) :
    hdr_wf h -> NoDup (map fst ents) -> (forall k c vs, In (k, (c, vs)) ents -> kcanon h (Some (c, vs))) ->
    canonical_mod_none (mk_ext h ents).
  Proof.
    intros Hw Hnd Hkey. split.
    - split; [exact Hw|]. split; [exact Hnd|]. intros k c vs Hin. apply (Hkey k c vs Hin).
    - intros k c vs Hin. cbn [hdr_of]. destruct (Hkey k c vs Hin) as [[Hc _] Hcc].
      eapply canon_class_ext; [|exact Hcc]. intros p _. symmetry. apply den_fden; [|exact Hc].
      apply In_lookup; [exact Hnd | exact Hin].
  Qed.

  (** the slice dimension of the result *)
  Definition sdim_res (e0 : ext V) (sd : option nat) : option nat :=
    match sd with Some d => Some d | None => sdim (hdr_of e0) end.

  Lemma from_sequence_keys es e0 rest dim a sd r :
    es = e0 :: rest -> 1 <= length rest -> valid e0 ->
    from_sequence veqb vnone es dim a sd = Ok r ->
    exists hfull ents, r = mk_ext hfull ents /\
      frame hfull (shape (hdr_of e0)) dim (S (length rest)) /\ hdr_wf hfull /\ sdim hfull = sdim_res e0 sd /\
      NoDup (map fst ents) /\
      forall k c vs, In (k, (c, vs)) ents ->
        merge_k veqb vnone hfull dim ((hdr_of e0, lookup_e e0 k) :: map (fun e => (hdr_of e, lookup_e e k)) rest)
        = Ok (Some (c, vs)).
  Proof.
    intros -> Hlen Hv0 H. unfold from_sequence in H. apply bind_ok in H as [hfull [Hh H]].
    apply bind_ok in H as [ents [Hents H]]. injection H as <-.
    destruct (merge_hdr_frame (map (@hdr_of V) (e0 :: rest)) (hdr_of e0) dim a sd hfull eq_refl) as [F [Hw [Hsd _]]].
    - cbn [map length]. rewrite map_length. lia.
    - apply Hv0.
    - exact Hh.
    - exists hfull, ents. split; [reflexivity|]. cbn [map length] in F. rewrite map_length in F.
      split; [exact F|]. split; [exact Hw|]. split; [exact Hsd|]. split.
      + eapply map_keys_NoDup; [exact Hents | apply dedup_keys_NoDup].
      + intros k c vs Hin. destruct (map_keys_In _ _ _ _ _ Hents Hin) as [_ Hk]. exact Hk.
  Qed.

  (** ** C06 for merges along the slice, time or vector axis: inputs in ANY valid nondegenerate classification *)
  Theorem merge_canonical_axis es e0 rest dim a sd ax r :
    es = e0 :: rest -> 1 <= length rest ->
    (forall e, In e es -> valid e /\ nondegenerate e /\ shape (hdr_of e) = shape (hdr_of e0) /\
                          sdim (hdr_of e) = sdim_res e0 sd) ->
    axis_of (sdim_res e0 sd) dim = Some ax -> (3 <= dim -> sdim_res e0 sd <> None) ->
    from_sequence veqb vnone es dim a sd = Ok r -> canonical_mod_none r.
  Proof.
    intros Ees Hlen Hall Hax Hn3 H.
    assert (Hv0 : valid e0) by (apply Hall; rewrite Ees; left; reflexivity).
    destruct (from_sequence_keys es e0 rest dim a sd r Ees Hlen Hv0 H) as [hfull [ents [-> [F [Hw [Hsd [Hnd Hkeys]]]]]]].
    apply kcanon_canonical_mod_none; [exact Hw | exact Hnd|].
    intros k c vs Hin. rewrite <- Hsd in Hax, Hn3.
    apply (merge_k_canon_axis hfull (shape (hdr_of e0)) dim ax (hdr_of e0) (lookup_e e0 k)
             (map (fun e => (hdr_of e, lookup_e e k)) rest) (Some (c, vs)));
      [rewrite map_length; exact F | exact Hw | exact Hax | exact Hn3 | | apply Hkeys; exact Hin].
    assert (Hone : forall e, In e es -> inp hfull (shape (hdr_of e0)) (hdr_of e) /\
                     good_k (hdr_of e) (lookup_e e k) /\ nondeg_k (hdr_of e) (lookup_e e k)).
    { intros e He. destruct (Hall e He) as [Hv [Hn [Hsh Hs]]]. split; [split; [exact Hsh | congruence]|].
      split; [apply valid_good_k; exact Hv | apply nondegenerate_nondeg_k; exact Hn]. }
    constructor; [apply (Hone e0); rewrite Ees; left; reflexivity|].
    apply Forall_forall. intros i Hi. apply in_map_iff in Hi as [e [<- He]]. apply Hone. rewrite Ees. right. exact He.
  Qed.

  (** ** ... and along a non-slice spatial axis: canonical inputs *)
  Theorem merge_canonical_nonslice es e0 rest dim a sd r :
    es = e0 :: rest -> 1 <= length rest ->
    (forall e, In e es -> canonical_mod_none e /\ shape (hdr_of e) = shape (hdr_of e0) /\
                          sdim (hdr_of e) = sdim_res e0 sd) ->
    dim < 3 -> sdim_res e0 sd <> Some dim ->
    from_sequence veqb vnone es dim a sd = Ok r -> canonical_mod_none r.
  Proof.
    intros Ees Hlen Hall Hd3 Hns H.
    assert (Hv0 : valid e0) by (apply Hall; rewrite Ees; left; reflexivity).
    destruct (from_sequence_keys es e0 rest dim a sd r Ees Hlen Hv0 H) as [hfull [ents [-> [F [Hw [Hsd [Hnd Hkeys]]]]]]].
    apply kcanon_canonical_mod_none; [exact Hw | exact Hnd|].
    intros k c vs Hin. rewrite <- Hsd in Hns.
    apply (merge_k_canon_nonslice hfull (shape (hdr_of e0)) dim (hdr_of e0) (lookup_e e0 k)
             (map (fun e => (hdr_of e, lookup_e e k)) rest) (Some (c, vs)));
      [rewrite map_length; exact F | exact Hw | exact Hd3 | exact Hns | | apply Hkeys; exact Hin].
    assert (Hone : forall e, In e es -> inp hfull (shape (hdr_of e0)) (hdr_of e) /\ kcanon (hdr_of e) (lookup_e e k)).
    { intros e He. destruct (Hall e He) as [Hc [Hsh Hs]]. split; [split; [exact Hsh | congruence]|].
      apply canonical_mod_none_kcanon. exact Hc. }
    constructor; [apply (Hone e0); rewrite Ees; left; reflexivity|].
    apply Forall_forall. intros i Hi. apply in_map_iff in Hi as [e [<- He]]. apply Hone. rewrite Ees. right. exact He.
  Qed.

  (** * Corollaries (true of every extension whose keys sit at their canonical class) *)
  Lemma origin_in_dims (h : hdr) : hdr_wf h -> in_dims (dims h) (0, 0, 0).
  Proof.
    intros Hw. pose proof (dims_pos_of_wf h Hw) as Hp. destruct (dims h) as [[nS nT] nV].
    unfold ProofsSimplifyLayout.dims_pos in Hp. cbn [in_dims]. lia.
  Qed.

  (** a key with the same non-None value everywhere is a global constant, readable without an index *)
  Theorem const_readable (r : ext V) k v :
    canonical_mod_none r -> v <> vnone ->
    (forall p, in_dims (dims (hdr_of r)) p -> den vnone r k p = v) ->
    lookup_e r k = Some (GConst, [v]) /\ getitem r k = Ok v.
  Proof.
    intros Hc Hv Hall. pose proof Hc as [[Hw _] _].
    pose proof (canonical_mod_none_kcanon r k Hc) as Hk.
    pose proof (Hall _ (origin_in_dims _ Hw)) as H0.
    destruct (lookup_e r k) as [[c vs]|] eqn:El.
    - destruct Hk as [[Hok [_ Hl]] [_ [_ Hmin]]].
      assert (Hr0 : representable (dims (hdr_of r)) GConst (fden (dims (hdr_of r)) c vs)).
      { intros p q Hp Hq _. rewrite <- !(den_fden vnone r k c vs) by assumption. rewrite !Hall by assumption. reflexivity. }
      specialize (Hmin GConst (class_ok_gconst _ Hw) Hr0).
      assert (c = GConst) by (apply pref_rank_inj; cbn [pref_rank] in *; lia). subst c.
      assert (Hl1 : length vs = 1) by (rewrite Hl; destruct (dims (hdr_of r)) as [[? ?] ?]; reflexivity).
      rewrite (den_fden vnone r k GConst vs _ El Hok) in H0. unfold ProofsSimplifyLayout.fden in H0.
      destruct (dims (hdr_of r)) as [[? ?] ?]. cbn [cidx] in H0.
      destruct vs as [|x [|y t]]; try discriminate Hl1. cbn [nth] in H0. subst x.
      split; [reflexivity|]. unfold getitem. rewrite El. reflexivity.
    - exfalso. apply Hv. rewrite <- H0. unfold den. rewrite El. reflexivity.
  Qed.

  (** a key that is None everywhere is absent, or kept as the global constant None (never in a varying class) *)
  Theorem none_only_const (r : ext V) k :
    canonical_mod_none r ->
    (forall p, in_dims (dims (hdr_of r)) p -> den vnone r k p = vnone) ->
    lookup_e r k = None \/ lookup_e r k = Some (GConst, [vnone]).
  Proof.
    intros Hc Hall. pose proof Hc as [[Hw _] _].
    pose proof (canonical_mod_none_kcanon r k Hc) as Hk.
    pose proof (Hall _ (origin_in_dims _ Hw)) as H0.
    destruct (lookup_e r k) as [[c vs]|] eqn:El; [right | left; reflexivity].
    destruct Hk as [[Hok [_ Hl]] [_ [_ Hmin]]].
    assert (Hr0 : representable (dims (hdr_of r)) GConst (fden (dims (hdr_of r)) c vs)).
    { intros p q Hp Hq _. rewrite <- !(den_fden vnone r k c vs) by assumption. rewrite !Hall by assumption. reflexivity. }
    specialize (Hmin GConst (class_ok_gconst _ Hw) Hr0).
    assert (c = GConst) by (apply pref_rank_inj; cbn [pref_rank] in *; lia). subst c.
    assert (Hl1 : length vs = 1) by (rewrite Hl; destruct (dims (hdr_of r)) as [[? ?] ?]; reflexivity).
    rewrite (den_fden vnone r k GConst vs _ El Hok) in H0. unfold ProofsSimplifyLayout.fden in H0.
    destruct (dims (hdr_of r)) as [[? ?] ?]. cbn [cidx] in H0.
    destruct vs as [|x [|y t]]; try discriminate Hl1. cbn [nth] in H0. subst x. reflexivity.
  Qed.

  (** a key that is constant within every volume is stored once per volume (or less): never per slice *)
  Theorem per_volume (r : ext V) k c vs :
    canonical_mod_none r -> lookup_e r k = Some (c, vs) ->
    (forall s s' t v, in_dims (dims (hdr_of r)) (s, t, v) -> in_dims (dims (hdr_of r)) (s', t, v) ->
                      den vnone r k (s, t, v) = den vnone r k (s', t, v)) ->
    is_slices c = false /\ length vs = mult_spec (dims (hdr_of r)) c /\
    length vs <= snd (fst (dims (hdr_of r))) * snd (dims (hdr_of r)).
  Proof.
    intros Hc El Hvol. pose proof Hc as [[Hw _] _].
    pose proof (canonical_mod_none_kcanon r k Hc) as Hk. rewrite El in Hk.
    destruct Hk as [[Hok [_ Hl]] [_ [_ Hmin]]].
    set (h := hdr_of r) in *. destruct (dims h) as [[nS nT] nV] eqn:Ed.
    pose proof (dims_pos_of_wf h Hw) as Hpos. rewrite Ed in Hpos. destruct Hpos as [HS [HT HV]].
    assert (Hf : forall p, fden (nS, nT, nV) c vs p = den vnone r k p).
    { intros p. rewrite <- Ed. symmetry. apply den_fden; assumption. }
    (* some class that ignores the slice index represents the key *)
    assert (Hx : exists x, class_ok (shape h) x = true /\ is_slices x = false /\
                           representable (nS, nT, nV) x (fden (nS, nT, nV) c vs)).
    { destruct (class_ok_by_dims h nS nT nV Hw Ed) as [[_ [-> [-> Hcls]]]|[[_ [-> Hcls]]|[_ Hcls]]].
      - exists GConst. rewrite Hcls. split; [reflexivity|]. split; [reflexivity|].
        intros [[s t] v] [[s' t'] v'] Hp Hq _. rewrite !Hf. cbn [in_dims] in Hp, Hq.
        assert (t = 0 /\ v = 0 /\ t' = 0 /\ v' = 0) as [-> [-> [-> ->]]] by lia. apply Hvol; cbn [in_dims]; lia.
      - exists TSamples. rewrite Hcls. split; [reflexivity|]. split; [reflexivity|].
        apply representable_proj. intros [[s t] v] [[s' t'] v'] Hp Hq E. cbn [proj] in E. injection E as -> ->.
        rewrite !Hf. apply Hvol; assumption.
      - destruct (Nat.eqb_spec nT 1) as [->|HnT].
        + exists VSamples. rewrite Hcls. split; [reflexivity|]. split; [reflexivity|].
          apply representable_proj. intros [[s t] v] [[s' t'] v'] Hp Hq E. cbn [proj] in E. injection E as ->.
          rewrite !Hf. cbn [in_dims] in Hp, Hq. assert (t = 0 /\ t' = 0) as [-> ->] by lia. apply Hvol; cbn [in_dims]; lia.
        + exists TSamples. rewrite Hcls. cbn [base_of]. split; [first [reflexivity | apply negb_true_iff, Nat.eqb_neq; exact HnT]|].
          split; [reflexivity|].
          apply representable_proj. intros [[s t] v] [[s' t'] v'] Hp Hq E. cbn [proj] in E. injection E as -> ->.
          rewrite !Hf. apply Hvol; assumption. }
    destruct Hx as [x [Hxok [Hxs Hxr]]]. specialize (Hmin x Hxok Hxr).
    cbn [fst snd]. rewrite Hl.
    destruct c, x; cbn [pref_rank is_slices sub_of] in *; try lia; try discriminate Hxs;
      (split; [reflexivity|]); (split; [reflexivity|]); cbn [mult_spec]; nia.
  Qed.
End WithV.

(** * Refutations (both replayed on the real code) *)
Definition ex_n6_h : hdr := mk_hdr [1; 2; 2; 2] (Some 2) ex_aff true false.
Definition ex_n6_a : ext nat := mk_ext ex_n6_h [([107]%N, (GConst, [5]))].
Definition ex_n6_b : ext nat := mk_ext ex_n6_h [([107]%N, (TSamples, [5; 5]))].

(** finding N6: merging along a NON-SLICE spatial axis never simplifies; a widened (valid, nondegenerate but
    non-canonical) input leaves the key of the result in a non-canonical class *)
Theorem merge_nonslice_widened_refuted :
  exists (es : list (ext nat)) dim r,
    (forall e, In e es -> valid e /\ nondegenerate e /\ shape (hdr_of e) = [1; 2; 2; 2] /\ sdim (hdr_of e) = Some 2) /\
    dim < 3 /\ Some 2 <> Some dim /\
    from_sequence Nat.eqb 0 es dim None None = Ok r /\ ~ canonical_mod_none 0 r.
Proof.
  exists [ex_n6_a; ex_n6_b], 0. eexists. split.
  { intros e [<-|[<-|[]]]; (split; [apply validb_valid; vm_compute; reflexivity|]);
      (split; [apply nondegenerateb_nondegenerate; [apply validb_valid|]; vm_compute; reflexivity|]); split; reflexivity. }
  split; [lia|]. split; [discriminate|]. split; [vm_compute; reflexivity|].
  intros [_ H]. destruct (H _ _ _ (or_introl eq_refl)) as [_ [_ Hmin]].
  assert (Hr : representable (2, 2, 1) GConst
                 (den 0 (mk_ext (mk_hdr [2; 2; 2; 2] (Some 2) ex_aff true false) [([107]%N, (TSamples, [5; 5]))]) [107]%N)).
  { intros [[s t] v] [[s' t'] v'] [_ [Ht Hv]] [_ [Ht' Hv']] _. unfold den. cbn.
    destruct t as [|[|t]], t' as [|[|t']], v, v'; try lia; reflexivity. }
  specialize (Hmin GConst eq_refl Hr). cbn in Hmin. lia.
Qed.

(** "keys that are None everywhere are dropped" is false as an obligation (the property only says MAY):
    a widened all-None key comes out of the final simplify as the global constant None *)
Definition ex_none_e : ext nat := mk_ext (mk_hdr [1; 1; 2] (Some 2) ex_aff false false) [([107]%N, (GSlices, [0; 0]))].

Theorem none_dropped_refuted :
  exists (es : list (ext nat)) dim r k,
    (forall e, In e es -> valid e /\ nondegenerate e) /\
    from_sequence Nat.eqb 0 es dim None None = Ok r /\
    (forall p, den 0 r k p = 0) /\ lookup_e r k <> None.
Proof.
  exists [ex_none_e; ex_none_e], 3. eexists. exists [107]%N. split.
  { intros e [<-|[<-|[]]]; (split; [apply validb_valid; vm_compute; reflexivity|]);
      (apply nondegenerateb_nondegenerate; [apply validb_valid|]; vm_compute; reflexivity). }
  split; [vm_compute; reflexivity|]. split; [|discriminate].
  intros [[s t] v]. reflexivity.
Qed.

(** non-vacuity of [merge_canonical_axis]: three 3-D inputs merged along time, one widened; the key is the same
    in every slice of a volume and differs between volumes: it ends in ('time','samples') *)
Definition ex_m_h : hdr := mk_hdr [1; 1; 2] (Some 2) ex_aff false false.
Definition ex_m_es : list (ext nat) :=
  [mk_ext ex_m_h [([107]%N, (GConst, [7]))]; mk_ext ex_m_h [([107]%N, (GSlices, [7; 7]))]; mk_ext ex_m_h [([107]%N, (GConst, [8]))]].

Example merge_canonical_axis_example :
  exists r, from_sequence Nat.eqb 0 ex_m_es 3 None None = Ok r /\ entries r = [([107]%N, (TSamples, [7; 7; 8]))] /\
            (forall e, In e ex_m_es -> valid e /\ nondegenerate e /\ shape (hdr_of e) = [1; 1; 2] /\ sdim (hdr_of e) = Some 2).
Proof.
  eexists. split; [vm_compute; reflexivity|]. split; [reflexivity|].
  intros e [<-|[<-|[<-|[]]]]; (split; [apply validb_valid; vm_compute; reflexivity|]);
    (split; [apply nondegenerateb_nondegenerate; [apply validb_valid|]; vm_compute; reflexivity|]); split; reflexivity.
Qed.
