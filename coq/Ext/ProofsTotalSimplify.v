(** Totality of [get_subset], part 1: [_simplify] cannot fail on a well-formed entry of a header without
    trailing singleton dimension. *)
From Coq Require Import List Bool Arith Lia.
From DV Require Import Common.Res Common.Str Ext.Types Ext.Classes Ext.Seq Ext.SeqFacts Ext.Model Ext.Spec
     Ext.TableFacts Ext.ValidFacts Ext.ProofsSimplify Ext.ProofsSubset
     Ext.ProofsMergeSeq Ext.ProofsMergeDen Ext.ProofsMergeStep Ext.ProofsMergeSimplify.
Import ListNotations.
Local Open Scope nat_scope.

(** no trailing singleton dimension, in terms of the extents (the region of the open findings N2 / N4) *)
Definition n4free (h : hdr) : Prop :=
  (ndim h = 4 -> nth 3 (shape h) 1 <> 1) /\ (ndim h = 5 -> nth 4 (shape h) 1 <> 1).

Lemma no_trailing1_n4free h : no_trailing1 (shape h) = true -> n4free h.
Proof.
  unfold no_trailing1, n4free, ndim. intros H.
  destruct (shape h) as [|a [|b [|c [|t [|v [|x r]]]]]]; cbn [length] in *; split; intros E; try lia;
    cbn [Nat.leb orb last] in H; apply negb_true_iff, Nat.eqb_neq in H; cbn [nth]; exact H.
Qed.

Lemma hwf_hdr_ok h : hwf h -> hdr_ok h.
Proof. intros [A [B [C _]]]. exact (conj A (conj B C)). Qed.

Lemma hwf_tight h : hwf h -> forall c, has_base h (base_of c) = class_ok (shape h) c.
Proof.
  intros [Hn [_ [_ [Ht Hv]]]] c. rewrite (class_ok_base _ c Hn).
  destruct c; cbn [base_of has_base]; try reflexivity; assumption.
Qed.

Lemma class_T_dims h : 3 <= ndim h <= 5 -> class_ok (shape h) TSamples = true ->
  4 <= ndim h /\ (ndim h = 5 -> nth 3 (shape h) 1 <> 1).
Proof.
  unfold ndim, class_ok. cbn [base_of]. intros Hn.
  destruct (shape h) as [|a [|b [|c0 [|t [|v [|x r]]]]]]; cbn [length] in *; try lia; cbn [nth]; try discriminate.
  intros H. apply negb_true_iff, Nat.eqb_neq in H. split; [lia | intros _; exact H].
Qed.

Lemma class_V_dims h : 3 <= ndim h <= 5 -> class_ok (shape h) VSamples = true -> ndim h = 5.
Proof.
  unfold ndim, class_ok. cbn [base_of]. intros Hn.
  destruct (shape h) as [|a [|b [|c0 [|t [|v [|x r]]]]]]; cbn [length] in *; try lia; try discriminate.
Qed.

Section WithV.
  Context {V : Type} (veqb : V -> V -> bool) (vnone : V).
  Hypothesis veqb_spec : forall a b, reflect (a = b) (veqb a b).

  (** the two module-level tests return a boolean as soon as the period divides the length *)
  Lemma isc_total (vs : list V) P :
    1 <= P -> length vs mod P = 0 ->
    exists b, (match Some P with Some 1 => Ok true | _ => is_constant veqb vs (Some P) end) = Ok b /\ (P = 1 -> b = true).
  Proof.
    intros HP Hm. destruct P as [|[|n]]; [lia | exists true; split; reflexivity |].
    unfold is_constant. destruct (Nat.leb_spec (S (S n)) 1) as [E|_]; [lia|]. rewrite Hm. cbn [Nat.eqb negb].
    eexists. split; [reflexivity | intros; lia].
  Qed.

  Lemma isrep_total (vs : list V) m :
    2 <= m -> m < length vs -> length vs mod m = 0 -> exists b, is_repeating veqb vs m = Ok b.
  Proof.
    intros H2 Hlt Hm. unfold is_repeating.
    destruct (Nat.leb_spec m 1) as [E|_]; [lia|]. destruct (Nat.leb_spec (length vs) m) as [E|_]; [lia|].
    cbn [orb]. rewrite Hm. cbn [Nat.eqb negb]. eexists. reflexivity.
  Qed.

  Lemma mod_mul_l a b : b <> 0 -> (b * a) mod b = 0.
  Proof. intros H. rewrite Nat.mul_comm. apply Nat.mod_mul. exact H. Qed.

  (** * [_simplify] is total *)
  Lemma simplify_k_total h c vs :
    hwf h -> entry_ok h c vs -> n4free h ->
    exists s', simplify_k veqb vnone h (Some (c, vs)) = Ok s'.
  Proof.
    intros Hw He [H4 H5]. pose proof (hwf_hdr_ok h Hw) as Hh. pose proof (hwf_tight h Hw) as Hb.
    destruct He as [Hok [Hsl Hlen]].
    destruct (cls_eqb_spec c GSlices) as [->|HnG].
    { destruct (simplify_gslices_den veqb vnone veqb_spec h vs Hh Hb (Hsl eq_refl) Hlen H4 H5) as [s' [Hs' _]].
      exists s'. exact Hs'. }
    pose proof (hwf_dims_pos h Hw) as Hpos. destruct (dims h) as [[nS nT] nV] eqn:Ed. destruct Hpos as [HS [HT HV]].
    pose proof Hw as [Hn _].
    unfold simplify_k, visible. rewrite class_valid_ok, Hok.
    destruct const_dests_cases as [CG [CTS [CTL [CVS [CVL _]]]]].
    destruct repeat_dests_cases as [RG [RVL [RTS [RTL RVS]]]].
    assert (Hne : vs <> []).
    { intros ->. cbn [length] in Hlen. destruct c; cbn [mult_spec] in Hlen; nia. }
    (* the ('global','const') test, common to every varying class *)
    assert (Hfirst : forall c0 rest (k : option (cls * list V) -> res (kst V)),
              (forall r, simplify_const veqb h c0 vs rest = Ok r -> exists s', k r = Ok s') ->
              (forall x, exists s', k (Some x) = Ok s') ->
              (exists r, simplify_const veqb h c0 vs rest = Ok r) ->
              exists s', bind (simplify_const veqb h c0 vs (GConst :: rest)) k = Ok s').
    { intros c0 rest k Hk Hk1 [r Hr]. rewrite simplify_const_cons. cbn [has_base base_of const_period bind is_constant].
      destruct (all_eq_first veqb vs).
      - destruct vs as [|x xs]; [contradiction|]. cbn [hd_res bind]. apply Hk1.
      - rewrite Hr. cbn [bind]. apply (Hk r Hr). }
    destruct c; try contradiction.
    - (* GConst *)
      cbn [mult_spec] in Hlen. destruct vs as [|x [|y r]]; try discriminate Hlen.
      destruct (veqb x vnone); eauto.
    - (* TSamples *)
      rewrite CTS, RTS. apply Hfirst; [intros [x|] _; eauto | eauto |].
      rewrite simplify_const_cons. cbn [base_of has_base]. destruct (has_vec h) eqn:Ehv; [|cbn; eauto].
      destruct (class_T_dims h Hn Hok) as [Hn4 _].
      cbn [const_period]. rewrite (shape_at3_dims h Hn4), Ed. cbn [fst snd bind].
      destruct (isc_total vs nT HT) as [b [Eb _]]; [rewrite Hlen; cbn [mult_spec]; apply mod_mul_l; lia|].
      rewrite Eb. cbn [bind]. destruct b; cbn; eauto.
    - (* TSlices *)
      rewrite CTL, RTL. apply Hfirst; [intros [x|] _; eauto | eauto | cbn; eauto].
    - (* VSamples *)
      rewrite CVS, RVS. apply Hfirst; [intros [x|] _; eauto | eauto | cbn; eauto].
    - (* VSlices *)
      rewrite CVL, RVL. cbn [mult_spec] in Hlen.
      assert (Hns : n_slices h = Some nS).
      { destruct (sdim h) as [d0|] eqn:Esd; [|exfalso; apply (Hsl eq_refl); reflexivity].
        rewrite (ProofsSimplify.n_slices_dims h d0 Hw Esd), Ed. reflexivity. }
      rewrite simplify_repeat_cons. cbn [base_of has_base].
      destruct (has_time h) eqn:Eht.
      + (* the time classes exist: nT >= 2 *)
        assert (HT2 : 2 <= nT).
        { destruct Hw as [_ [_ [_ [Ht _]]]]. rewrite Ht in Eht.
          pose proof (class_V_dims h Hn Hok) as Hn5. destruct (class_T_dims h Hn Eht) as [_ HT1].
          specialize (HT1 Hn5). pose proof Ed as Ed'. unfold dims in Ed'. injection Ed' as _ E _. lia. }
        destruct (isc_total vs nS HS) as [b [Eb Hb1]]; [rewrite Hlen; apply mod_mul_l; lia|].
        apply Hfirst.
        * intros [x|] Hr; [eauto|]. cbn [bind].
          (* the constancy test over the slices failed, hence nS >= 2 *)
          assert (HS2 : nS <> 1).
          { intros ->. specialize (Hb1 eq_refl). subst b.
            rewrite simplify_const_cons in Hr. cbn [base_of has_base const_period] in Hr.
            rewrite Eht, Hns in Hr. cbn [bind] in Hr. discriminate Hr. }
          rewrite (multiplicity_ok' h TSlices Hh) by (try exact Hsl; rewrite (class_ok_base _ _ Hn); cbn [base_of];
                                                      destruct Hw as [_ [_ [_ [Ht _]]]]; rewrite <- Ht; exact Eht).
          rewrite Ed. cbn [mult_spec bind].
          destruct (isrep_total vs nS) as [b2 Eb2]; [lia | rewrite Hlen; nia | rewrite Hlen; apply mod_mul_l; lia|].
          rewrite Eb2. cbn [bind]. destruct b2; cbn; eauto.
        * eauto.
        * rewrite simplify_const_cons. cbn [base_of has_base const_period]. rewrite Eht, Hns. cbn [bind].
          rewrite Eb. cbn [bind]. destruct b; cbn; eauto.
      + apply Hfirst.
        * intros [x|] _; [eauto|]. cbn; eauto.
        * eauto.
        * rewrite simplify_const_cons. cbn [base_of has_base]. rewrite Eht. cbn; eauto.
  Qed.
End WithV.
