(** Totality of [get_subset] (C04 / C05): on a valid extension without trailing singleton dimension every
    [get_subset e dim idx] with [dim < ndim] and [idx] inside the axis returns [Ok].

    Error sources of the code and why they are excluded:
      - [is_constant] / [is_repeating] ValueErrors (period <= 1, length not divisible, period >= length): the value
        lists handed to [_simplify] have exactly the count of their class in the piece's header, and that header
        never has a trailing singleton dimension ([trim_ones]) -- [simplify_k_total] (Ext/ProofsTotalSimplify.v);
      - [get_multiplicity] of an invalid class / missing destination dictionaries (KeyError): the classes of the
        parent survive in the piece unless the split axis removes them, and the keys of the removed classes are moved
        to a surviving class ([subset_hdr_rel]); this is where [no_trailing1] is needed (open finding N2);
      - index errors ([values[idx]]): [idx] is inside the axis.
    [nondegenerate] is NOT needed (the model does not depend on it; it is a restriction of the correspondence). *)
From Coq Require Import List Bool Arith NArith ZArith QArith Lia.
From DV Require Import Common.Res Common.Str Common.Jv Ext.Types Ext.Classes Ext.Seq Ext.SeqFacts Ext.Model Ext.Spec
     Ext.TableFacts Ext.ValidFacts Ext.ProofsValidBase Ext.ProofsValidSimplify Ext.ProofsValidSubset
     Ext.ProofsMerge Ext.ProofsSimplify Ext.ProofsSubset Ext.Split Ext.ProofsSplit Ext.ProofsTotalSimplify.
Import ListNotations.
Local Open Scope nat_scope.

(** * The header of the piece exists *)
Lemma subset_hdr_total h dim : hdr_wf h -> dim < ndim h -> exists hr, subset_hdr h dim = Ok hr.
Proof.
  intros [Hn [Hpos [Hsd [Haff _]]]] Hdim. unfold subset_hdr.
  destruct (Nat.leb_spec 5 dim) as [E|_]; [lia|].
  assert (Hnd : ndim_ok h = true).
  { unfold ndim_ok. apply andb_true_iff. split; [apply Nat.leb_le | apply Nat.ltb_lt]; lia. }
  rewrite Hnd. cbn [negb]. unfold ndim in *.
  destruct (shape h) as [|a [|b [|c0 [|t [|v [|x r]]]]]]; cbn [length] in Hn, Hdim; try lia;
    destruct dim as [|[|[|[|[|?]]]]]; try lia; cbn [set_nth option_map];
    apply make_empty_hdr_total; try exact Haff; try exact Hsd;
    rewrite ?trim_ones_3, ?trim_ones_4, ?trim_ones_5;
    repeat match goal with |- context [?x =? 1] => destruct (x =? 1) end; cbn [length]; lia.
Qed.

(** the piece's header never has a trailing singleton dimension *)
Lemma subset_hdr_n4free h dim hr : hwf0 h -> subset_hdr h dim = Ok hr -> dim < ndim h -> n4free hr.
Proof.
  intros Hw Hs Hdim.
  destruct (subset_hdr_facts h dim hr Hw Hs Hdim) as [_ [_ [_ [_ [_ [H5 H3]]]]]].
  unfold dims in H5, H3. cbn [fst snd] in H5, H3. split.
  - intros E4 E1. assert (E : nth 4 (shape hr) 1 = 1) by (apply nth_overflow; unfold ndim in E4; lia).
    destruct H3 as [_ H3]. specialize (H3 (conj E1 E)). lia.
  - intros E5. apply H5. exact E5.
Qed.

Section WithV.
  Context {V : Type} (veqb : V -> V -> bool) (vnone : V).
  Hypothesis veqb_spec : forall a b, reflect (a = b) (veqb a b).

  Notation simplify_total := (simplify_k_total veqb vnone veqb_spec).

  (** ** along the slice axis: [_copy_slice] *)
  Lemma copy_slice_total h hr c vs idx nS nT nV :
    hwf0 h -> hwf hr -> n4free hr -> sdim hr = sdim h ->
    dims h = (nS, nT, nV) -> dims hr = (1, nT, nV) ->
    class_ok (shape hr) TSamples = class_ok (shape h) TSamples ->
    class_ok (shape hr) VSamples = class_ok (shape h) VSamples ->
    idx < nS -> entry_ok h c vs -> is_slices c = true ->
    exists s', copy_slice_k veqb vnone h hr c vs idx = Ok s'.
  Proof.
    intros Hw0 Hwr Hfr Hsd Ed Edr HcT HcV Hidx [Hok [Hsl Hlen]] Hc.
    pose proof (dims_pos0 h Hw0) as Hpos. rewrite Ed in Hpos. destruct Hpos as [HS [HT HV]].
    destruct Hw0 as [Hn [Hposh Hsdh]]. pose proof Hwr as [Hnr _].
    assert (Hns0 : forall d, sdim h = Some d -> n_slices h = Some nS).
    { intros d Hd. rewrite (n_slices_dims0 h d (conj Hn (conj Hposh Hsdh)) Hd), Ed. reflexivity. }
    destruct (sdim h) as [d0|] eqn:Esd; [|exfalso; apply (Hsl Hc); reflexivity].
    pose proof (Hns0 _ eq_refl) as Hns.
    destruct copy_dests_eq as [CG [CV _]].
    assert (HmT : class_ok (shape hr) TSamples = true -> multiplicity hr TSamples = Ok (nT * nV)).
    { intros E. rewrite (multiplicity_ok hr TSamples Hnr E ltac:(discriminate)), Edr. reflexivity. }
    assert (HmV : class_ok (shape hr) VSamples = true -> multiplicity hr VSamples = Ok nV).
    { intros E. rewrite (multiplicity_ok hr VSamples Hnr E ltac:(discriminate)), Edr. reflexivity. }
    assert (HokG : class_ok (shape hr) GConst = true) by (rewrite (class_ok_base _ _ Hnr); reflexivity).
    assert (HmG : multiplicity hr GConst = Ok 1).
    { rewrite (multiplicity_ok hr GConst Hnr); [reflexivity | exact HokG | discriminate]. }
    rewrite Ed in Hlen.
    unfold copy_slice_k. rewrite Hns.
    assert (Hst : (match nS with 0 => Err EValue | S _ => Ok nS end : res nat) = Ok nS) by (destruct nS; [lia|reflexivity]).
    unfold first_valid. rewrite CG, CV. cbn [find]. rewrite !class_valid_ok. rewrite ?HokG.
    destruct c; try discriminate Hc; cbn [base_of bind].
    - (* GSlices *)
      cbn [mult_spec] in Hlen.
      assert (Hsub : length (every_nth idx nS vs) = nT * nV).
      { apply every_nth_length; [lia | exact Hidx | rewrite Hlen; ring]. }
      destruct (class_ok (shape hr) TSamples) eqn:ET.
      + cbn [bind]. rewrite (has_base_ok hr TSamples Hwr ET), (HmT eq_refl). cbn [negb bind].
        rewrite Hst. cbn [bind]. rewrite Hsub, Nat.ltb_irrefl. cbn [bind].
        apply simplify_total; [exact Hwr | | exact Hfr].
        split; [exact ET|]. split; [discriminate|]. rewrite Edr. exact Hsub.
      + assert (EnT : nT = 1) by (pose proof (class_T_false_dims h Hn (eq_sym HcT)) as X; rewrite Ed in X; exact X).
        subst nT. destruct (class_ok (shape hr) VSamples) eqn:EV.
        * cbn [bind]. rewrite (has_base_ok hr VSamples Hwr EV), (HmV eq_refl). cbn [negb bind].
          rewrite Hst. cbn [bind]. rewrite Hsub. replace (1 * nV) with nV by lia.
          rewrite Nat.ltb_irrefl. cbn [bind].
          apply simplify_total; [exact Hwr | | exact Hfr].
          split; [exact EV|]. split; [discriminate|]. rewrite Edr, Hsub. cbn [mult_spec]. lia.
        * assert (EnV : nV = 1) by (pose proof (class_V_false_dims h Hn (eq_sym HcV)) as X; rewrite Ed in X; exact X).
          subst nV. cbn [bind]. cbn [base_of has_base negb]. rewrite HmG. cbn [bind].
          rewrite Hst. cbn [bind]. rewrite Hsub. cbn [Nat.mul Nat.add Nat.ltb Nat.leb bind].
          apply simplify_total; [exact Hwr | | exact Hfr].
          split; [exact HokG|]. split; [discriminate|]. rewrite Edr, Hsub. reflexivity.
    - (* TSlices *)
      cbn [mult_spec] in Hlen. cbn [base_of has_base negb]. rewrite HmG. cbn [bind].
      rewrite Hst. cbn [bind].
      assert (Hsub : length (every_nth idx nS vs) = 1).
      { apply every_nth_length; [lia | exact Hidx | rewrite Hlen; ring]. }
      rewrite Hsub. cbn [Nat.ltb Nat.leb bind].
      apply simplify_total; [exact Hwr | | exact Hfr].
      split; [exact HokG|]. split; [discriminate|]. rewrite Edr, Hsub. reflexivity.
    - (* VSlices *)
      cbn [mult_spec] in Hlen.
      assert (Hsub : length (every_nth idx nS vs) = nT).
      { apply every_nth_length; [lia | exact Hidx | rewrite Hlen; ring]. }
      destruct (class_ok (shape hr) TSamples) eqn:ET.
      + cbn [bind]. rewrite (has_base_ok hr TSamples Hwr ET), (HmT eq_refl). cbn [negb bind].
        rewrite Hst. cbn [bind]. rewrite Hsub.
        destruct (nT <? nT * nV) eqn:Elt.
        * assert (E0 : (nT =? 0) = false) by (apply Nat.eqb_neq; lia). rewrite E0. cbn [bind].
          replace (nT * nV / nT) with nV by (symmetry; rewrite Nat.mul_comm; apply Nat.div_mul; lia).
          apply simplify_total; [exact Hwr | | exact Hfr].
          split; [exact ET|]. split; [discriminate|]. rewrite Edr, rep_list_length, Hsub. cbn [mult_spec]. ring.
        * apply Nat.ltb_ge in Elt. assert (nV = 1) by nia. subst nV. cbn [bind].
          apply simplify_total; [exact Hwr | | exact Hfr].
          split; [exact ET|]. split; [discriminate|]. rewrite Edr, Hsub. cbn [mult_spec]. lia.
      + assert (EnT : nT = 1) by (pose proof (class_T_false_dims h Hn (eq_sym HcT)) as X; rewrite Ed in X; exact X).
        revert Hsub. subst nT. intros Hsub. cbn [bind]. cbn [base_of has_base negb]. rewrite HmG. cbn [bind].
        rewrite Hst. cbn [bind]. rewrite Hsub. cbn [Nat.ltb Nat.leb bind].
        apply simplify_total; [exact Hwr | | exact Hfr].
        split; [exact HokG|]. split; [discriminate|]. rewrite Edr, Hsub. reflexivity.
  Qed.

  (** ** along the time axis: [_copy_sample(.., 'time', idx)] *)
  Lemma copy_sample_time_total h hr c vs idx nS nT nV :
    hwf0 h -> hwf hr -> n4free hr -> sdim hr = sdim h ->
    dims h = (nS, nT, nV) -> dims hr = (nS, 1, nV) ->
    class_ok (shape hr) TSamples = false ->
    class_ok (shape hr) VSamples = class_ok (shape h) VSamples ->
    idx < nT -> entry_ok h c vs -> c <> GConst ->
    exists s', copy_sample_k veqb vnone h hr c vs BTime idx = Ok s'.
  Proof.
    intros Hw0 Hwr Hfr Hsd Ed Edr HcT HcV Hidx [Hok [Hsl Hlen]] Hc.
    pose proof (dims_pos0 h Hw0) as Hpos. rewrite Ed in Hpos. destruct Hpos as [HS [HT HV]].
    destruct Hw0 as [Hn [Hposh Hsdh]]. pose proof Hwr as [Hnr [_ [_ [Hht _]]]].
    assert (Hns0 : forall d, sdim h = Some d -> n_slices h = Some nS /\ n_slices hr = Some nS).
    { intros d Hd. rewrite (n_slices_dims0 h d (conj Hn (conj Hposh Hsdh)) Hd), Ed.
      rewrite (ProofsSimplify.n_slices_dims hr d Hwr ltac:(congruence)), Edr. split; reflexivity. }
    destruct copy_dests_eq as [_ [_ [CS _]]]. destruct preserving_slices_cases as [PT PV].
    assert (HokG : forall x, base_of x = BGlobal -> class_ok (shape hr) x = true).
    { intros x Hx. rewrite (class_ok_base _ _ Hnr), Hx. reflexivity. }
    assert (HokV : base_of c = BVector -> class_ok (shape hr) VSamples = true).
    { intros Hb. rewrite HcV. rewrite (class_ok_base _ _ Hn), Hb in Hok. exact Hok. }
    assert (Hnd4 : base_of c = BTime -> 4 <= ndim h).
    { intros Hb. apply (ProofsSimplify.class_ok_ndim _ _ Hok). exact Hb. }
    rewrite Ed in Hlen.
    unfold copy_sample_k.
    destruct c; try contradiction; cbn [is_samples sub_of base_of cbase_eqb cls_eqb negb andb].
    - (* GSlices *)
      cbn [mult_spec] in Hlen. unfold global_slice_subset.
      destruct (sdim h) as [d0|] eqn:Esd; [|exfalso; apply Hsl; reflexivity].
      destruct (Hns0 _ eq_refl) as [Hnsh Hnsr]. rewrite Hnsh. rewrite class_valid_ok.
      destruct (class_ok (shape h) VSamples) eqn:EV; cbn [negb].
      + assert (Hn5 : ndim h = 5) by (apply (ProofsSimplify.class_ok_ndim _ _ EV); reflexivity).
        rewrite (shape_at3_dims h ltac:(lia)), (shape_at4_dims h ltac:(lia)), Ed. cbn [fst snd bind].
        rewrite (ProofsSubset.put_ok hr GSlices _ Hwr (HokG GSlices eq_refl)). cbn [bind].
        set (f := fun vec => py_slice (vec * (nS * nT) + idx * nS) (vec * (nS * nT) + idx * nS + nS) vs) in *.
        assert (Hf : forall x, x < nV -> length (f x) = nS).
        { intros x Hx. unfold f. rewrite py_slice_length; [lia|]. rewrite Hlen.
          assert (x * (nS * nT) + (nS * nT) <= nS * nT * nV) by nia. nia. }
        apply simplify_total; [exact Hwr | | exact Hfr].
        split; [exact (HokG GSlices eq_refl)|]. split; [intros _; congruence|].
        rewrite Edr, (flat_map_blocks_length f nS nV Hf). cbn [mult_spec]. ring.
      + assert (EnV : nV = 1) by (pose proof (class_V_false_dims h Hn EV) as X; rewrite Ed in X; exact X).
        subst nV. cbn [bind]. rewrite (ProofsSubset.put_ok hr GSlices _ Hwr (HokG GSlices eq_refl)). cbn [bind].
        apply simplify_total; [exact Hwr | | exact Hfr].
        split; [exact (HokG GSlices eq_refl)|]. split; [intros _; congruence|].
        rewrite Edr, py_slice_length by (rewrite Hlen; nia). cbn [mult_spec]. lia.
    - (* TSamples *)
      cbn [mult_spec] in Hlen. rewrite CS. cbn [find cls_eqb negb andb]. rewrite !class_valid_ok.
      destruct (class_ok (shape hr) VSamples) eqn:EV.
      + cbn [bind]. rewrite (multiplicity_ok hr VSamples Hnr EV ltac:(discriminate)), Edr.
        cbn [bind mult_spec]. destruct (nV =? 1) eqn:E1.
        * apply Nat.eqb_eq in E1. subst nV. rewrite (nth_error_nth_ok vnone vs idx) by (rewrite Hlen; lia).
          rewrite (ProofsSubset.put_ok hr VSamples _ Hwr EV). eauto.
        * rewrite (shape_at3_dims h (Hnd4 eq_refl)), Ed. cbn [fst snd].
          destruct nT as [|nT']; [lia|]. rewrite (ProofsSubset.put_ok hr VSamples _ Hwr EV). cbn [bind].
          apply simplify_total; [exact Hwr | | exact Hfr].
          split; [exact EV|]. split; [discriminate|].
          rewrite Edr. cbn [mult_spec]. apply every_nth_length; [lia | exact Hidx | exact Hlen].
      + rewrite (HokG GConst eq_refl). cbn [bind].
        rewrite (multiplicity_ok hr GConst Hnr (HokG GConst eq_refl) ltac:(discriminate)), Edr. cbn [bind mult_spec Nat.eqb].
        rewrite (nth_error_nth_ok vnone vs idx) by (rewrite Hlen; nia).
        rewrite (ProofsSubset.put_ok hr GConst _ Hwr (HokG GConst eq_refl)). eauto.
    - (* TSlices *)
      rewrite PT. unfold first_valid. cbn [find]. rewrite !class_valid_ok.
      rewrite (class_ok_base _ VSlices Hnr). cbn [base_of].
      destruct (class_ok (shape hr) VSamples) eqn:EV.
      + assert (EV' : class_ok (shape hr) VSlices = true) by (rewrite (class_ok_base _ _ Hnr); exact EV).
        rewrite (ProofsSubset.put_ok hr VSlices _ Hwr EV'). eauto.
      + rewrite (HokG GSlices eq_refl).
        rewrite (ProofsSubset.put_ok hr GSlices _ Hwr (HokG GSlices eq_refl)). eauto.
    - (* VSamples *)
      rewrite (ProofsSubset.put_ok hr VSamples _ Hwr (HokV eq_refl)). eauto.
    - (* VSlices *)
      cbn [mult_spec] in Hlen.
      destruct (sdim h) as [d0|] eqn:Esd; [|exfalso; apply Hsl; reflexivity].
      destruct (Hns0 _ eq_refl) as [Hnsh Hnsr]. rewrite Hnsr.
      assert (EV' : class_ok (shape hr) VSlices = true) by (rewrite (class_ok_base _ _ Hnr); apply HokV; reflexivity).
      rewrite (ProofsSubset.put_ok hr VSlices _ Hwr EV'). cbn [bind].
      apply simplify_total; [exact Hwr | | exact Hfr].
      split; [exact EV'|]. split; [intros _; congruence|].
      rewrite Edr, py_slice_length by (rewrite Hlen; nia). cbn [mult_spec]. lia.
  Qed.

  (** ** along the vector axis: [_copy_sample(.., 'vector', idx)] (the parent is 5-D) *)
  Lemma copy_sample_vector_total h hr c vs idx nS nT nV :
    hwf0 h -> hwf hr -> n4free hr -> sdim hr = sdim h ->
    dims h = (nS, nT, nV) -> dims hr = (nS, nT, 1) ->
    class_ok (shape hr) VSamples = false ->
    class_ok (shape hr) TSamples = class_ok (shape h) TSamples ->
    idx < nV -> entry_ok h c vs -> c <> GConst -> 4 <= ndim h ->
    exists s', copy_sample_k veqb vnone h hr c vs BVector idx = Ok s'.
  Proof.
    intros Hw0 Hwr Hfr Hsd Ed Edr HcV HcT Hidx [Hok [Hsl Hlen]] Hc Hn4.
    pose proof (dims_pos0 h Hw0) as Hpos. rewrite Ed in Hpos. destruct Hpos as [HS [HT HV]].
    destruct Hw0 as [Hn [Hposh Hsdh]]. pose proof Hwr as [Hnr [_ [_ [Hht _]]]].
    assert (Hns0 : forall d, sdim h = Some d -> n_slices h = Some nS).
    { intros d Hd. rewrite (n_slices_dims0 h d (conj Hn (conj Hposh Hsdh)) Hd), Ed. reflexivity. }
    destruct copy_dests_eq as [_ [_ [CS _]]]. destruct preserving_slices_cases as [PT PV].
    assert (HokG : forall x, base_of x = BGlobal -> class_ok (shape hr) x = true).
    { intros x Hx. rewrite (class_ok_base _ _ Hnr), Hx. reflexivity. }
    assert (HokT : base_of c = BTime -> class_ok (shape hr) TSamples = true).
    { intros Hb. rewrite HcT. rewrite (class_ok_base _ _ Hn), Hb in Hok. exact Hok. }
    assert (Hn5 : base_of c <> BGlobal -> c <> TSlices -> c <> TSamples -> ndim h = 5).
    { intros Hb H1 H2. apply (ProofsSimplify.class_ok_ndim _ _ Hok). destruct c; try reflexivity; contradiction. }
    rewrite Ed in Hlen.
    unfold copy_sample_k.
    destruct c; try contradiction; cbn [is_samples sub_of base_of cbase_eqb cls_eqb negb andb].
    - (* GSlices *)
      cbn [mult_spec] in Hlen. unfold global_slice_subset.
      destruct (sdim h) as [d0|] eqn:Esd; [|exfalso; apply Hsl; reflexivity].
      rewrite (Hns0 _ eq_refl).
      (* the parent has a vector axis, hence a time axis: [dim = 4 < ndim] is a hypothesis of the caller *)
      destruct (shape_at h 3) as [t3|] eqn:E3; cbn [bind].
      + assert (Et3 : t3 = nT).
        { unfold shape_at in E3. unfold dims in Ed. injection Ed as _ E _. rewrite <- E.
          symmetry. apply nth_error_nth. exact E3. }
        subst t3. rewrite (ProofsSubset.put_ok hr GSlices _ Hwr (HokG GSlices eq_refl)). cbn [bind].
        apply simplify_total; [exact Hwr | | exact Hfr].
        split; [exact (HokG GSlices eq_refl)|]. split; [intros _; congruence|].
        rewrite Edr, py_slice_length by (rewrite Hlen; nia). cbn [mult_spec]. lia.
      + exfalso. unfold shape_at in E3. apply nth_error_None in E3. unfold ndim in Hn4. lia.
    - (* TSamples *)
      cbn [mult_spec] in Hlen.
      rewrite (multiplicity_ok hr TSamples Hnr (HokT eq_refl) ltac:(discriminate)), Edr. cbn [bind mult_spec].
      rewrite (ProofsSubset.put_ok hr TSamples _ Hwr (HokT eq_refl)). cbn [bind].
      apply simplify_total; [exact Hwr | | exact Hfr].
      split; [exact (HokT eq_refl)|]. split; [discriminate|].
      rewrite Edr, py_slice_length by (rewrite Hlen; nia). cbn [mult_spec]. lia.
    - (* TSlices *)
      assert (ET' : class_ok (shape hr) TSlices = true) by (rewrite (class_ok_base _ _ Hnr); apply HokT; reflexivity).
      rewrite (ProofsSubset.put_ok hr TSlices _ Hwr ET'). eauto.
    - (* VSamples *)
      cbn [mult_spec] in Hlen. rewrite CS. cbn [find cls_eqb negb andb]. rewrite !class_valid_ok.
      rewrite (HokG GConst eq_refl). cbn [bind].
      rewrite (multiplicity_ok hr GConst Hnr (HokG GConst eq_refl) ltac:(discriminate)), Edr. cbn [bind mult_spec Nat.eqb].
      rewrite (nth_error_nth_ok vnone vs idx) by (rewrite Hlen; lia).
      rewrite (ProofsSubset.put_ok hr GConst _ Hwr (HokG GConst eq_refl)). eauto.
    - (* VSlices *)
      rewrite PV. unfold first_valid. cbn [find]. rewrite !class_valid_ok.
      rewrite (HokG GSlices eq_refl).
      rewrite (ProofsSubset.put_ok hr GSlices _ Hwr (HokG GSlices eq_refl)). eauto.
  Qed.

  (** ** every path of [get_subset] for one key *)
  Lemma subset_k_total h hr dim idx (s : kst V) :
    hwf0 h -> no_trailing1 (shape h) = true -> dim < ndim h -> idx < nth dim (shape h) 0 ->
    subset_hdr h dim = Ok hr ->
    match s with Some (c, vs) => entry_ok h c vs | None => True end ->
    exists s', subset_k veqb vnone h hr dim idx s = Ok s'.
  Proof.
    intros Hw0 Hnt Hdim Hidx Hh He.
    destruct s as [[c vs]|]; [|cbn; eauto].
    pose proof Hw0 as [Hn [Hposh Hsdh]].
    destruct (subset_hdr_rel h hr dim Hn Hposh Hsdh Hnt Hdim Hh) as [Hwr [Hsd [Hdims [HcT HcV]]]].
    pose proof (subset_hdr_n4free h dim hr Hw0 Hh Hdim) as Hfr.
    pose proof (axis_idx_bound h dim idx Hw0 Hdim Hidx) as Hb.
    pose proof Hwr as [Hnr _].
    destruct (dims h) as [[nS nT] nV] eqn:Ed.
    pose proof He as [Hok [Hsl Hlen]].
    unfold subset_k, visible. rewrite class_valid_ok, Hok.
    destruct (cls_eqb_spec c GConst) as [->|Hc].
    { assert (HG : class_ok (shape hr) GConst = true) by (rewrite (class_ok_base _ _ Hnr); reflexivity).
      rewrite (ProofsSubset.put_ok hr GConst _ Hwr HG). eauto. }
    unfold axis_of in *.
    destruct (odim_is (sdim h) dim) eqn:E1.
    - (* slice axis *)
      destruct (is_slices c) eqn:Esl; cbn [negb].
      + eapply copy_slice_total; eauto.
      + assert (Hokr : class_ok (shape hr) c = true).
        { rewrite (class_ok_base _ _ Hnr). rewrite (class_ok_base _ _ Hn) in Hok.
          destruct c; cbn [base_of] in *; try reflexivity; try discriminate Esl; rewrite ?HcT, ?HcV; exact Hok. }
        rewrite (ProofsSubset.put_ok hr c _ Hwr Hokr). eauto.
    - destruct (dim <? 3) eqn:E2.
      + (* non-slice spatial axis: every class of the parent exists in the piece (this fails on trailing singleton
           shapes: open finding N2) *)
        assert (Hokr : class_ok (shape hr) c = true).
        { rewrite (class_ok_base _ _ Hnr). rewrite (class_ok_base _ _ Hn) in Hok.
          destruct c; cbn [base_of] in *; try reflexivity; rewrite ?HcT, ?HcV; exact Hok. }
        rewrite (ProofsSubset.put_ok hr c _ Hwr Hokr). eauto.
      + destruct (dim =? 3) eqn:E3.
        * eapply copy_sample_time_total; eauto.
        * eapply copy_sample_vector_total; eauto.
          apply Nat.ltb_ge in E2. apply Nat.eqb_neq in E3. lia.
  Qed.

  (** ** the statements of [_copy_sample] that run once per class of the parent *)
  Lemma subset_prelude_total h hr dim c :
    hwf0 h -> no_trailing1 (shape h) = true -> dim < ndim h -> subset_hdr h dim = Ok hr ->
    class_ok (shape h) c = true -> subset_prelude h hr dim c = Ok tt.
  Proof.
    intros Hw0 Hnt Hdim Hh Hok. pose proof Hw0 as [Hn [Hposh Hsdh]].
    destruct (subset_hdr_rel h hr dim Hn Hposh Hsdh Hnt Hdim Hh) as [Hwr [Hsd [_ [HcT _]]]].
    pose proof Hwr as [Hnr _].
    unfold subset_prelude. unfold axis_of in HcT.
    destruct (cls_eqb c GConst); [reflexivity|]. cbn [orb].
    destruct (odim_is (sdim h) dim); [reflexivity|]. cbn [orb].
    destruct (dim <? 3); [reflexivity|].
    destruct (dim =? 3) eqn:E3.
    - destruct c; reflexivity.
    - destruct c; try reflexivity. cbn [is_samples sub_of base_of cbase_eqb negb cls_eqb andb].
      rewrite (multiplicity_ok hr TSamples Hnr) by (try discriminate; rewrite HcT; exact Hok). reflexivity.
  Qed.

  Lemma valid_entry_ok (e : ext V) k :
    valid e -> match lookup_e e k with Some (c, vs) => entry_ok (hdr_of e) c vs | None => True end.
  Proof.
    intros [_ [_ Hent]]. destruct (lookup_e e k) as [[c vs]|] eqn:El; [|exact I].
    unfold lookup_e in El. apply assoc_In' in El. exact (Hent _ _ _ El).
  Qed.

  (** * [get_subset] is total on valid extensions without trailing singleton dimension *)
  Theorem get_subset_total (e : ext V) dim idx :
    valid e -> no_trailing1 (shape (hdr_of e)) = true ->
    dim < ndim (hdr_of e) -> idx < nth dim (shape (hdr_of e)) 0 ->
    exists r, get_subset veqb vnone e dim idx = Ok r.
  Proof.
    intros Hv Hnt Hdim Hidx. pose proof Hv as [Hwf _].
    assert (Hw0 : hwf0 (hdr_of e)) by (destruct Hwf as [A [B [C _]]]; exact (conj A (conj B C))).
    destruct (subset_hdr_total (hdr_of e) dim Hwf Hdim) as [hr Hhr].
    unfold get_subset. rewrite Hhr. cbn [bind].
    destruct (mapM_ok (subset_prelude (hdr_of e) hr dim) (valid_classes (hdr_of e))) as [u Hu].
    { intros c Hc. exists tt. apply (subset_prelude_total _ _ _ _ Hw0 Hnt Hdim Hhr).
      rewrite <- class_valid_ok. apply mem_cls_In. exact Hc. }
    rewrite Hu. cbn [bind].
    destruct (map_keys_ok (fun k => subset_k veqb vnone (hdr_of e) hr dim idx (lookup_e e k)) (dedup_keys [] (keys_e e)))
      as [ents Hents].
    { intros k _. apply (subset_k_total _ _ _ _ _ Hw0 Hnt Hdim Hidx Hhr). apply valid_entry_ok. exact Hv. }
    rewrite Hents. cbn [bind]. eauto.
  Qed.

  Lemma veqb_refl' v : veqb v v = true.
  Proof. destruct (veqb_spec v v) as [_|H]; [reflexivity | contradiction H; reflexivity]. Qed.

  (** C04 with the existence of the piece in the statement: the piece exists, has the trimmed shape, reads the
      parent's value with the split axis fixed to [idx], and stays in the (valid, nondegenerate) domain *)
  Theorem subset_den_total (e : ext V) dim idx :
    valid e -> no_trailing1 (shape (hdr_of e)) = true ->
    dim < ndim (hdr_of e) -> idx < nth dim (shape (hdr_of e)) 0 ->
    exists r, get_subset veqb vnone e dim idx = Ok r /\
      (exists sh, set_nth dim 1 (shape (hdr_of e)) = Some sh /\ shape (hdr_of r) = trim_ones sh /\
                  sdim (hdr_of r) = sdim (hdr_of e) /\ aff (hdr_of r) = aff (hdr_of e)) /\
      (forall k p, in_dims (dims (hdr_of r)) p ->
         den vnone r k p = den vnone e k (set_axis (axis_of (hdr_of e) dim) idx p)) /\
      (nondegenerate e -> valid r /\ nondegenerate r).
  Proof.
    intros Hv Hnt Hdim Hidx. destruct (get_subset_total e dim idx Hv Hnt Hdim Hidx) as [r Hr].
    exists r. split; [exact Hr|]. split; [exact (subset_shape_law veqb vnone e r dim idx Hr)|].
    split; [exact (subset_den veqb vnone veqb_spec e r dim idx Hv Hnt Hdim Hidx Hr)|].
    intros Hnd. exact (get_subset_valid veqb vnone veqb_refl' e r dim idx Hv Hnd Hdim Hidx Hr).
  Qed.

  (** * Image level ([NiftiWrapper.split], model Ext/Split.v): every piece exists *)

  (** the image carries the extension: same shape; when the header records a slice dimension the extension
      records the same one *)
  Definition carries (w : wimg) (e : ext V) : Prop :=
    wi_shape w = shape (hdr_of e) /\ forall s, wi_slice w = Some s -> sdim (hdr_of e) = Some s.

  (** admissible [dim] arguments: an axis of the image; [None] needs the header's slice dim for 3-D images *)
  Definition split_arg_ok (w : wimg) (dim : option nat) : Prop :=
    match dim with
    | Some d => d < length (wi_shape w)
    | None => length (wi_shape w) = 3 -> wi_slice w <> None
    end.

  Lemma split_dim_total (w : wimg) (e : ext V) dim :
    valid e -> carries w e -> split_arg_ok w dim ->
    exists d, split_dim w dim = Ok d /\ d < length (wi_shape w).
  Proof.
    intros [[Hn [_ [Hsd _]]] _] [Hsh Hsl] Harg. unfold split_dim. unfold ndim in Hn. rewrite <- Hsh in Hn.
    destruct dim as [d|]; [exists d; split; [reflexivity | exact Harg]|].
    cbn [split_arg_ok] in Harg.
    destruct (Nat.eqb_spec (length (wi_shape w) - 1) 2) as [E|E].
    - destruct (wi_slice w) as [sd|] eqn:Es; [|exfalso; apply Harg; [lia | reflexivity]].
      exists sd. split; [reflexivity|]. specialize (Hsd sd (Hsl sd eq_refl)). lia.
    - eexists. split; [reflexivity | lia].
  Qed.

  Theorem split_total (w : wimg) (e : ext V) dim :
    valid e -> no_trailing1 (shape (hdr_of e)) = true -> carries w e -> split_arg_ok w dim ->
    exists ps, split veqb vnone w e dim = Ok ps.
  Proof.
    intros Hv Hnt Hc Harg. destruct (split_dim_total w e dim Hv Hc Harg) as [d [Hd Hlt]].
    destruct Hc as [Hsh Hsl].
    unfold split. rewrite Hd. cbn [bind].
    destruct (nth_error (wi_shape w) d) as [n|] eqn:En; [|apply nth_error_None in En; lia].
    apply mapM_ok. intros i Hi. apply in_seq in Hi.
    unfold split_piece.
    assert (Hmd : (if odim_is (wi_slice w) d
                   then match sdim (hdr_of e) with Some d0 => Ok d0 | None => Err EType end
                   else Ok d) = Ok d).
    { unfold odim_is. destruct (wi_slice w) as [sd|] eqn:Es; [|reflexivity].
      destruct (Nat.eqb_spec sd d) as [->|_]; [|reflexivity]. rewrite (Hsl d eq_refl). reflexivity. }
    rewrite Hmd. cbn [bind].
    destruct (get_subset_total e d i Hv Hnt) as [r Hr].
    - unfold ndim. rewrite <- Hsh. exact Hlt.
    - rewrite <- Hsh. rewrite (nth_error_nth _ _ 0 En). lia.
    - rewrite Hr. cbn [bind]. eauto.
  Qed.
End WithV.

(** * The hypotheses cannot be dropped (concrete witnesses; [V := jv]) *)

Definition tot_aff : list (list Q) := [[1; 0; 0; 0]; [0; 1; 0; 0]; [0; 0; 1; 0]; [0; 0; 0; 1]]%Q.

(** a trailing singleton dimension (open finding N2): the vanishing time class has no destination *)
Definition tot_trailing : ext jv :=
  mk_ext (mk_hdr [2; 2; 2; 1] (Some 2) tot_aff true false) [([97]%N, (TSlices, [JInt 1; JInt 2]))].
Lemma get_subset_total_trailing1_refuted :
  exists e dim idx,
    validb e = true /\ nondegenerateb e = true /\ no_trailing1 (shape (hdr_of e)) = false /\
    dim < ndim (hdr_of e) /\ idx < nth dim (shape (hdr_of e)) 0 /\
    get_subset jv_eqb JNull e dim idx = Err EKey.
Proof.
  exists tot_trailing, 0, 0.
  split; [vm_compute; reflexivity|]. split; [vm_compute; reflexivity|]. split; [reflexivity|].
  split; [cbn; lia|]. split; [cbn; lia|]. vm_compute. reflexivity.
Qed.

(** an index outside the axis: IndexError *)
Definition tot_time : ext jv :=
  mk_ext (mk_hdr [2; 2; 2; 3] (Some 2) tot_aff true false) [([97]%N, (TSamples, [JInt 1; JInt 2; JInt 3]))].
Lemma get_subset_total_idx_refuted :
  exists e dim idx,
    validb e = true /\ nondegenerateb e = true /\ no_trailing1 (shape (hdr_of e)) = true /\
    dim < ndim (hdr_of e) /\ idx = nth dim (shape (hdr_of e)) 0 /\
    get_subset jv_eqb JNull e dim idx = Err EIndex.
Proof.
  exists tot_time, 3, 3.
  split; [vm_compute; reflexivity|]. split; [vm_compute; reflexivity|]. split; [reflexivity|].
  split; [cbn; lia|]. split; [reflexivity|]. vm_compute. reflexivity.
Qed.

(** a value count that does not fit the shape (not [valid]): ValueError from [is_constant] *)
Definition tot_invalid : ext jv :=
  mk_ext (mk_hdr [2; 2; 2; 2; 2] (Some 2) tot_aff true true)
         [([97]%N, (GSlices, [JInt 1; JInt 2; JInt 3; JInt 4; JInt 5]))].
Lemma get_subset_total_invalid_refuted :
  exists e dim idx,
    validb e = false /\ no_trailing1 (shape (hdr_of e)) = true /\
    dim < ndim (hdr_of e) /\ idx < nth dim (shape (hdr_of e)) 0 /\
    get_subset jv_eqb JNull e dim idx = Err EValue.
Proof.
  exists tot_invalid, 3, 0.
  split; [vm_compute; reflexivity|]. split; [reflexivity|].
  split; [cbn; lia|]. split; [cbn; lia|]. vm_compute. reflexivity.
Qed.

(** non-vacuity of [get_subset_total] / [split_total]: a 5-D extension with one key per class *)
Definition tot_ex : ext jv :=
  mk_ext (mk_hdr [2; 2; 2; 3; 2] (Some 1) [[2; 0; 0; -8]; [0; 0; 1 # 2; 3]; [0; -1; 0; 0]; [0; 0; 0; 1]]%Q true true)
    [([116]%N, (TSamples, [JInt 10; JInt 11; JInt 12; JInt 13; JInt 14; JInt 15]));
     ([118]%N, (VSamples, [JInt 20; JInt 21]));
     ([115]%N, (TSlices, [JInt 30; JInt 31]));
     ([119]%N, (VSlices, [JInt 40; JInt 41; JInt 42; JInt 43; JInt 44; JInt 45]));
     ([103]%N, (GSlices, map JInt [50; 51; 52; 53; 54; 55; 56; 57; 58; 59; 60; 61]%Z));
     ([99]%N, (GConst, [JStr [97]%N]))].
Lemma tot_ex_valid : valid tot_ex.
Proof. apply validb_valid. vm_compute. reflexivity. Qed.
Lemma tot_ex_nondeg : nondegenerate tot_ex.
Proof. apply nondegenerateb_nondegenerate; [exact tot_ex_valid | vm_compute; reflexivity]. Qed.

Definition tot_wimg : wimg :=
  mk_wimg [2; 2; 2; 3; 2] (Some 1) (aff (hdr_of tot_ex)) (map Z.of_nat (seq 0 48)).
Lemma tot_wimg_carries : carries tot_wimg tot_ex.
Proof. split; [reflexivity|]. intros s H. exact H. Qed.
