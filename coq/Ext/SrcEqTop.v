(** End-to-end corollaries of the source equality: the translated get_subset / from_sequence, run on the contents of VALID,
    NON-DEGENERATE extensions, return a content that holds exactly the result of the hand model - under ONE extra hypothesis each,
    a computable boolean side check (is every state handed to _simplify / _get_changed_class storable: one value for a constant,
    a varying class of multiplicity <> 1), and with make_empty's content (and slice-normal token) as the explicit parameter. *)
From Coq Require Import List Bool Arith NArith ZArith QArith Lia.
From DV Require Import Common.Res Common.Str Common.Jv Common.PyOps2 Common.PyOps2Dyn Generated.T_classes Generated.T_src_ext
     Generated.T_src_state Ext.Types Ext.Classes Ext.Seq Ext.SeqFacts Ext.Model Ext.Spec Ext.TableFacts Ext.ValidFacts Ext.SrcEq Ext.SrcEqAlg
     Ext.SrcEqState Ext.SrcEqSubset Ext.SrcEqSample Ext.SrcEqGetSubset Ext.SrcEqInsert Ext.SrcEqInsertAll Ext.SrcEqFromSeq
     Ext.ProofsValidBase Link.Abs Link.ProofsTo Ext.SrcEqStateLink Ext.SrcEqGetSubsetLink Ext.SrcEqFromSeqLink Ext.SrcEqValidLink.
Import ListNotations.
Local Open Scope nat_scope.

(** * Computable side checks

    The refinement theorems of _simplify / _get_changed_class hold for STORABLE states (one value for a constant, a varying class
    of multiplicity <> 1: DESIGN 3.2).  Whether the states that _copy_slice / _copy_sample / _insert hand to them are storable
    is decided here by boolean functions that run the model's own per-key functions; the end-to-end corollaries take
    "the check is true" as their one extra hypothesis. *)

Definition mult_ne1 (h : hdr) (c : cls) : bool := match multiplicity h c with Ok 1 => false | _ => true end.
Definition is_some_nat (o : option nat) : bool := match o with Some _ => true | None => false end.

Lemma mult_ne1_ok (h : hdr) (c : cls) : mult_ne1 h c = true -> multiplicity h c <> Ok 1.
Proof. unfold mult_ne1. intros H E. rewrite E in H. discriminate H. Qed.
Lemma is_some_nat_ok (o : option nat) : is_some_nat o = true -> o <> None.
Proof. destruct o; [discriminate | discriminate]. Qed.

Definition slice_okb (hr : hdr) (dest : cls) (sub : list jv) : bool :=
  Bool.eqb (length sub =? 1) (cls_eqb dest GConst) && class_valid hr dest && (cls_eqb dest GConst || mult_ne1 hr dest)
  && (negb (is_slices dest) || is_some_nat (n_slices hr)).

Lemma slice_okb_ok (hr : hdr) (dest : cls) (sub : list jv) : slice_okb hr dest sub = true -> slice_ok hr dest sub.
Proof.
  unfold slice_okb, slice_ok. rewrite !andb_true_iff. intros [[[H1 H2] H3] H4]. split; [|split; [exact H2|split]].
  - apply eqb_prop in H1. split.
    + intros Hl. apply cls_eqb_eq. rewrite <- H1. apply Nat.eqb_eq. exact Hl.
    + intros ->. apply Nat.eqb_eq. rewrite H1. reflexivity.
  - intros Hne. apply orb_true_iff in H3. destruct H3 as [H3|H3]; [apply cls_eqb_eq in H3; contradiction | exact (mult_ne1_ok hr dest H3)].
  - intros Hs. apply orb_true_iff in H4. destruct H4 as [H4|H4]; [rewrite Hs in H4; discriminate H4 | exact (is_some_nat_ok _ H4)].
Qed.

Definition st_okb (hr : hdr) (d : cls) (vals : list jv) : bool :=
  class_valid hr d && (negb (cls_eqb d GConst) || (length vals =? 1)) && (cls_eqb d GConst || mult_ne1 hr d)
  && (negb (is_slices d) || is_some_nat (n_slices hr)).

Lemma st_okb_ok (hr : hdr) (d : cls) (vals : list jv) : st_okb hr d vals = true -> st_ok hr d vals.
Proof.
  unfold st_okb, st_ok. rewrite !andb_true_iff. intros [[[H1 H2] H3] H4]. split; [exact H1|]. split; [|split].
  - intros ->. cbn in H2. apply Nat.eqb_eq. exact H2.
  - intros Hne. apply orb_true_iff in H3. destruct H3 as [H3|H3]; [apply cls_eqb_eq in H3; contradiction | exact (mult_ne1_ok hr d H3)].
  - intros Hs. apply orb_true_iff in H4. destruct H4 as [H4|H4]; [rewrite Hs in H4; discriminate H4 | exact (is_some_nat_ok _ H4)].
Qed.

Definition sideb (h hr : hdr) (dim idx : nat) (c : cls) (vs : list jv) : bool :=
  cls_eqb c GConst ||
  (if odim_is (sdim h) dim then
     negb (is_slices c) ||
     match slice_dest hr c with
     | Ok dest => match multiplicity hr dest with
                  | Ok dm => match slice_subset (n_slices h) dm idx vs with Ok sub => slice_okb hr dest sub | Err _ => true end
                  | Err _ => true
                  end
     | Err _ => true
     end
   else if dim <? 3 then true
   else match sample_plan h hr c (if dim =? 3 then BTime else BVector) idx vs with
        | Ok (dd, vals, true) => st_okb hr dd vals
        | _ => true
        end).

Lemma sideb_ok (h hr : hdr) (dim idx : nat) (c : cls) (vs : list jv) : sideb h hr dim idx c vs = true -> side h hr dim idx c vs.
Proof.
  unfold sideb, side. intros H Hc. apply orb_true_iff in H. destruct H as [H|H]; [apply cls_eqb_eq in H; contradiction|]. split.
  - intros Ho Hs dest dm sub Hd Hm Hsub. rewrite Ho, Hs, Hd, Hm, Hsub in H. cbn [negb orb] in H. exact (slice_okb_ok hr dest sub H).
  - intros Ho H3 dd vals Hp. rewrite Ho, H3, Hp in H. exact (st_okb_ok hr dd vals H).
Qed.

Definition deg_okb (h hr : hdr) (dim : nat) (c : cls) : bool :=
  odim_is (sdim h) dim || (dim <? 3) || negb (is_samples c) || negb (cbase_eqb (base_of c) (if dim =? 3 then BTime else BVector)) ||
  match sample_dest hr c with
  | Ok dest => match multiplicity hr dest with Ok 1 => cls_eqb dest GConst | _ => true end
  | Err _ => true
  end.

Lemma deg_okb_ok (h hr : hdr) (dim : nat) (c : cls) : deg_okb h hr dim c = true -> deg_ok h hr dim c.
Proof.
  unfold deg_okb, deg_ok. intros H Ho H3 Hs Hb dest Hd Hm. rewrite Ho, H3, Hs, Hd, Hm in H. cbn [orb negb] in H.
  replace (cbase_eqb (base_of c) (if dim =? 3 then BTime else BVector)) with true in H by (rewrite Hb; destruct (if dim =? 3 then BTime else BVector); reflexivity).
  cbn [negb orb] in H. apply cls_eqb_eq. exact H.
Qed.

(** the whole check for get_subset: every valid class, every entry *)
Definition subset_sideb (e : ext jv) (dim idx : nat) : bool :=
  match subset_hdr (hdr_of e) dim with
  | Ok hr => forallb (fun c => deg_okb (hdr_of e) hr dim c) (valid_classes (hdr_of e)) &&
             forallb (fun kv => sideb (hdr_of e) hr dim idx (fst (snd kv)) (snd (snd kv))) (entries e)
  | Err _ => true
  end.

Theorem top_get_subset (qtok : Q -> str) (mk : list nat -> option nat -> res jv) (e r : ext jv) (dim idx : nat) (o0 : obj) :
  valid e -> nondegenerate e ->
  get_subset jv_eqb JNull e dim idx = Ok r -> subset_sideb e dim idx = true ->
  mk (shape (hdr_of r)) (sdim (hdr_of r)) = Ok (JObj o0) -> Holds o0 (hdr_of r) (fun _ => None) ->
  subset_hdr (hdr_of e) dim = Ok (hdr_of r) /\
  exists o', get_subset_st mk classifications (shape (hdr_of e)) (sdim (hdr_of e)) (n_slices (hdr_of e)) tt tt preserving_changes
                           (okeys const_tests) (okeys repeat_tests) (to_content qtok e) dim idx = Ok (JObj o') /\
             Holds o' (hdr_of r) (lookup_e r).
Proof.
  intros Hv Hn Hg Hsb Hmk H0. destruct (valid_ext_ok e Hv Hn) as (Hnd & _ & Hb & _ & _).
  assert (Hh : subset_hdr (hdr_of e) dim = Ok (hdr_of r)).
  { unfold get_subset in Hg. destruct (subset_hdr (hdr_of e) dim) as [hr|]; [|discriminate Hg]. cbn [bind] in Hg.
    destruct (mapM _ _); [|discriminate Hg]. cbn [bind] in Hg. destruct (map_keys _ _); [|discriminate Hg]. injection Hg as <-. reflexivity. }
  unfold subset_sideb in Hsb. rewrite Hh in Hsb. apply andb_true_iff in Hsb. destruct Hsb as [Hd Hs].
  rewrite forallb_forall in Hd, Hs.
  apply (get_subset_ext_ref qtok mk e r dim idx o0 Hnd Hb Hg Hmk H0).
  - intros c Hc. apply deg_okb_ok. apply Hd. apply mem_cls_In. exact Hc.
  - intros k c vs Hk _. apply sideb_ok. unfold lookup_e in Hk. apply assoc_in in Hk. exact (Hs (k, (c, vs)) Hk).
Qed.

(** * from_sequence: the states a key goes through *)

Definition storableb (h : hdr) (s : kst jv) : bool :=
  match visible h s with Some (GConst, vs) => length vs =? 1 | Some (c, _) => mult_ne1 h c | None => true end.
Definition visb (h : hdr) (s : kst jv) : bool := match s with Some (c, _) => class_valid h c | None => true end.

Lemma storableb_ok (h : hdr) (s : kst jv) : storableb h s = true -> kst_storable h s.
Proof.
  unfold storableb, kst_storable. destruct (visible h s) as [[c vs]|]; [|intros _; exact I].
  destruct c; intros H; try (apply mult_ne1_ok; exact H). apply Nat.eqb_eq. exact H.
Qed.
Lemma visb_ok (h : hdr) (s : kst jv) : visb h s = true -> visible h s = s.
Proof. unfold visb, visible. destruct s as [[c vs]|]; [|reflexivity]. intros ->. reflexivity. Qed.

Definition step_okb (hs ho : hdr) (ks ko : kst jv) : bool :=
  storableb hs ks && visb hs ks &&
  match reclassify_k JNull hs ks (other_class (use_slices hs ho) ko) with Ok s1 => storableb hs s1 | Err _ => true end.

Lemma step_okb_ok (hs ho : hdr) (ks ko : kst jv) : step_okb hs ho ks ko = true -> step_ok hs ho ks ko.
Proof.
  unfold step_okb, step_ok. rewrite !andb_true_iff. intros [[H1 H2] H3]. split; [exact (storableb_ok _ _ H1)|]. split; [exact (visb_ok _ _ H2)|].
  intros s1 E. rewrite E in H3. exact (storableb_ok _ _ H3).
Qed.

Fixpoint traj_okb (hfull : hdr) (dim j : nat) (rest : list (hdr * kst jv)) (ks : kst jv) : bool :=
  match rest with
  | [] => true
  | (ho, ko) :: r => step_okb (with_dim hfull dim j) ho ks ko &&
                     match insert_k jv_eqb JNull (with_dim hfull dim j) ho dim ks ko with
                     | Ok ks' => traj_okb hfull dim (S j) r ks'
                     | Err _ => true
                     end
  end.

Lemma traj_okb_ok (hfull : hdr) (dim : nat) (rest : list (hdr * kst jv)) : forall j ks,
  traj_okb hfull dim j rest ks = true -> traj_ok hfull dim j rest ks.
Proof.
  induction rest as [|[ho ko] r IH]; intros j ks H; [exact I|]. cbn [traj_okb traj_ok] in *. apply andb_true_iff in H. destruct H as [H1 H2].
  split; [exact (step_okb_ok _ _ _ _ H1)|]. intros ks' E. rewrite E in H2. exact (IH (S j) ks' H2).
Qed.

Definition final_okb (h : hdr) (s : kst jv) : bool :=
  storableb h s && visb h s && match s with Some (c, _) => negb (is_slices c) || is_some_nat (n_slices h) | None => true end.

Lemma final_okb_ok (h : hdr) (s : kst jv) : final_okb h s = true -> final_ok h s.
Proof.
  unfold final_okb, final_ok. rewrite !andb_true_iff. intros [[H1 H2] H3]. split; [exact (storableb_ok _ _ H1)|]. split; [exact (visb_ok _ _ H2)|].
  intros c vs -> Hs. rewrite Hs in H3. cbn [negb orb] in H3. exact (is_some_nat_ok _ H3).
Qed.

(** the whole check for from_sequence: every key of the inputs, and a key none of them holds *)
Definition key_sideb (hfull h0 : hdr) (dim : nat) (k0 : kst jv) (ins : list (hdr * kst jv)) : bool :=
  traj_okb hfull dim 1 ins (init_k hfull h0 k0) &&
  match insert_all_k jv_eqb JNull hfull dim 1 ins (init_k hfull h0 k0) with Ok ks => final_okb hfull ks | Err _ => true end.

Definition merge_sideb (e0 : ext jv) (rest : list (ext jv)) (dim : nat) (sd : option nat) : bool :=
  match merge_hdr (map (@hdr_of jv) (e0 :: rest)) dim None sd with
  | Ok hfull =>
      (negb (odim_is (sdim hfull) dim) || negb (prod_list (skipn 3 (shape hfull)) =? 0)) &&
      forallb (fun k => key_sideb hfull (hdr_of e0) dim (lookup_e e0 k) (map (fun e => (hdr_of e, lookup_e e k)) rest))
              (dedup_keys [] (flat_map (@keys_e jv) (e0 :: rest))) &&
      key_sideb hfull (hdr_of e0) dim None (map (fun e => (hdr_of e, @None (cls * list jv))) rest)
  | Err _ => true
  end.

Theorem top_from_sequence (qtok : Q -> str) (mk : list nat -> option nat -> res jv) (mkn : option nat -> res (option nat))
    (en0 : ext jv * option nat) (ens : list (ext jv * option nat)) (dim : nat) (sd : option nat) (r : ext jv)
    (oe : obj) (rn : option nat) :
  (forall en, In en (en0 :: ens) -> valid (fst en) /\ nondegenerate (fst en) /\ tok_eq rn (snd en) = use_slices (hdr_of r) (hdr_of (fst en))) ->
  from_sequence jv_eqb JNull (map fst (en0 :: ens)) dim None sd = Ok r ->
  merge_sideb (fst en0) (map fst ens) dim sd = true ->
  mk (shape (hdr_of r)) (sdim (hdr_of r)) = Ok (JObj oe) -> Holds oe (hdr_of r) (fun _ => None) -> mkn (sdim (hdr_of r)) = Ok rn ->
  merge_hdr (map (@hdr_of jv) (map fst (en0 :: ens))) dim None sd = Ok (hdr_of r) /\
  exists o', from_sequence_st mk mkn classifications None preserving_changes (okeys const_tests) (okeys repeat_tests) JNull
                              (map to_inst (map (ext_input qtok) (en0 :: ens))) dim None sd = Ok (JObj o') /\
             Holds o' (hdr_of r) (lookup_e r).
Proof.
  intros Hin Hfs Hsb Hmk Hoe Hmkn.
  assert (Hh : merge_hdr (map (@hdr_of jv) (map fst (en0 :: ens))) dim None sd = Ok (hdr_of r)).
  { unfold from_sequence in Hfs. destruct (merge_hdr _ dim None sd) as [hf|]; [|discriminate Hfs]. cbn [bind] in Hfs.
    destruct (map_keys _ _); [|discriminate Hfs]. injection Hfs as <-. reflexivity. }
  unfold merge_sideb in Hsb. change (map (@hdr_of jv) (fst en0 :: map fst ens)) with (map (@hdr_of jv) (map fst (en0 :: ens))) in Hsb. rewrite Hh in Hsb. rewrite !andb_true_iff in Hsb. destruct Hsb as [[Hnv Hkeys] Hnone].
  rewrite forallb_forall in Hkeys.
  assert (Hkey : forall k, key_sideb (hdr_of r) (hdr_of (fst en0)) dim (lookup_e (fst en0) k)
                                     (map (fun en => (hdr_of (fst en), lookup_e (fst en) k)) ens) = true).
  { intros k.
    destruct (in_dec (fun a b => match str_eqb_spec a b with ReflectT _ p => left p | ReflectF _ p => right p end) k
                     (dedup_keys [] (flat_map (@keys_e jv) (fst en0 :: map fst ens)))) as [Hk|Hk].
    - pose proof (Hkeys k Hk) as H. rewrite map_map in H. exact H.
    - assert (Hnone' : forall e, In e (fst en0 :: map fst ens) -> lookup_e e k = None).
      { intros e He. unfold lookup_e. apply assoc_None. intros Hx. apply Hk. apply dedup_keys_nil_In. apply in_flat_map. exists e. split; assumption. }
      rewrite (Hnone' (fst en0) (or_introl eq_refl)).
      replace (map (fun en => (hdr_of (fst en), lookup_e (fst en) k)) ens)
        with (map (fun e => (hdr_of e, @None (cls * list jv))) (map fst ens)); [exact Hnone|].
      rewrite map_map. apply map_ext_in. intros en Hen. rewrite (Hnone' (fst en) (or_intror (in_map fst _ _ Hen))). reflexivity. }
  apply (from_sequence_ext_ref qtok mk mkn en0 ens dim sd r oe rn Hfs).
  - intros en Hen. destruct (Hin en Hen) as [Hv [Hn Ht]]. destruct (valid_ext_ok (fst en) Hv Hn) as (A & B & C & D & E).
    repeat split; assumption.
  - exact Hmk.
  - exact Hoe.
  - exact Hmkn.
  - intros Ho. rewrite Ho in Hnv. cbn [negb orb] in Hnv. apply negb_true_iff, Nat.eqb_neq in Hnv. exact Hnv.
  - intros k. apply traj_okb_ok. pose proof (Hkey k) as H. unfold key_sideb in H. apply andb_true_iff in H. exact (proj1 H).
  - intros k ks E. apply final_okb_ok. pose proof (Hkey k) as H. unfold key_sideb in H. apply andb_true_iff in H. destruct H as [_ H].
    rewrite E in H. exact H.
Qed.
