(** C07: [get_subset] returns a valid, nondegenerate extension (closure of validity under subsets). *)
From Coq Require Import List Bool Arith Lia.
From DV Require Import Common.Res Common.Str Ext.Types Ext.Classes Ext.Seq Ext.Model Ext.Spec
     Ext.TableFacts Ext.ValidFacts Ext.ProofsValidBase Ext.ProofsValidSimplify.
Import ListNotations.
Local Open Scope nat_scope.

(** * The header of the piece *)

Lemma trim_ones_3 x y z : trim_ones [x; y; z] = [x; y; z].
Proof. reflexivity. Qed.
Lemma trim_ones_4 x y z t : trim_ones [x; y; z; t] = if t =? 1 then [x; y; z] else [x; y; z; t].
Proof. unfold trim_ones. cbn. destruct (t =? 1); reflexivity. Qed.
Lemma trim_ones_5 x y z t v :
  trim_ones [x; y; z; t; v] =
  if v =? 1 then (if t =? 1 then [x; y; z] else [x; y; z; t]) else [x; y; z; t; v].
Proof. unfold trim_ones. cbn. destruct (v =? 1); [|reflexivity]. cbn. destruct (t =? 1); reflexivity. Qed.

Lemma bound2 idx nT nS : idx < nT -> idx * nS + nS <= nT * nS.
Proof. intros H. replace (idx * nS + nS) with ((idx + 1) * nS) by ring. apply Nat.mul_le_mono_r. lia. Qed.
Lemma bound3 x nV idx nT nS : x < nV -> idx < nT -> x * (nS * nT) + idx * nS + nS <= nS * nT * nV.
Proof.
  intros Hx Hi. pose proof (bound2 idx nT nS Hi) as H2.
  assert (H3 : (x + 1) * (nS * nT) <= nV * (nS * nT)) by (apply Nat.mul_le_mono_r; lia). nia.
Qed.

Definition sub_dims (h : hdr) (dim : nat) : pos :=
  let '(nS, nT, nV) := dims h in
  if odim_is (sdim h) dim then (1, nT, nV)
  else if dim <? 3 then (nS, nT, nV)
  else if dim =? 3 then (nS, 1, nV) else (nS, nT, 1).

Lemma subset_hdr_facts h dim hr :
  shape_wf h -> subset_hdr h dim = Ok hr -> dim < ndim h ->
  shape_wf hr /\ flags_tight hr /\ sdim hr = sdim h /\ aff hr = aff h /\
  dims hr = sub_dims h dim /\
  (ndim hr = 5 <-> ndim h = 5 /\ snd (dims hr) <> 1) /\
  (ndim hr = 3 <-> snd (fst (dims hr)) = 1 /\ snd (dims hr) = 1).
Proof.
  intros Hwf H Hdim. unfold subset_hdr in H.
  destruct (5 <=? dim); [discriminate|].
  destruct (negb (ndim_ok h)); [discriminate|].
  destruct (set_nth dim 1 (shape h)) as [sh'|] eqn:Es; [|discriminate].
  apply make_empty_hdr_ok in H as [Hs [Hd [Ha [Hn [Hsd [Haff Hfl]]]]]].
  assert (Hgoal : Forall (fun n => 1 <= n) (shape hr) /\ dims hr = sub_dims h dim /\
                  (ndim hr = 5 <-> ndim h = 5 /\ snd (dims hr) <> 1) /\
                  (ndim hr = 3 <-> snd (fst (dims hr)) = 1 /\ snd (dims hr) = 1)).
  { unfold sub_dims, dims, ndim. rewrite Hs, Hd. unfold ndim in Hdim. clear Hn Hfl Haff Ha.
    shape_cases h Hwf; rewrite Hsh in *; cbn [length] in Hdim.
    - destruct dim as [|[|[|dim]]]; try lia; cbn [set_nth option_map] in Es; injection Es as <-;
        rewrite trim_ones_3;
        (destruct (sdim h) as [[|[|[|d]]]|] eqn:Ed; [| | | pose proof (Hsd0 _ eq_refl); lia |]);
        cbn [odim_is Nat.eqb Nat.ltb Nat.leb nth length fst snd];
        (split; [repeat constructor; lia|]); (split; [reflexivity|]); split; split; try lia; intuition lia.
    - destruct dim as [|[|[|[|dim]]]]; try lia; cbn [set_nth option_map] in Es; injection Es as <-;
        rewrite trim_ones_4; cbn [Nat.eqb];
        (destruct (sdim h) as [[|[|[|d]]]|] eqn:Ed; [| | | pose proof (Hsd0 _ eq_refl); lia |]);
        try (destruct (t =? 1) eqn:Et; [apply Nat.eqb_eq in Et | apply Nat.eqb_neq in Et]);
        cbn [odim_is Nat.eqb Nat.ltb Nat.leb nth length fst snd];
        (split; [repeat constructor; lia|]); (split; [try subst t; reflexivity|]); split; split; try lia; intuition lia.
    - destruct dim as [|[|[|[|[|dim]]]]]; try lia; cbn [set_nth option_map] in Es; injection Es as <-;
        rewrite trim_ones_5; cbn [Nat.eqb];
        (destruct (sdim h) as [[|[|[|d]]]|] eqn:Ed; [| | | pose proof (Hsd0 _ eq_refl); lia |]);
        try (destruct (v =? 1) eqn:Ev; [apply Nat.eqb_eq in Ev | apply Nat.eqb_neq in Ev]);
        try (destruct (t =? 1) eqn:Et; [apply Nat.eqb_eq in Et | apply Nat.eqb_neq in Et]);
        cbn [odim_is Nat.eqb Nat.ltb Nat.leb nth length fst snd];
        (split; [repeat constructor; lia|]); (split; [try subst t; try subst v; reflexivity|]); split; split; try lia; intuition lia. }
  destruct Hgoal as [Hp [Hdims [H5 H3]]].
  split; [|split; [exact Hfl | split; [exact Hd | split; [exact Ha | split; [exact Hdims | split; assumption]]]]].
  unfold shape_wf, ndim. rewrite Hs in *. split; [lia|]. split; [exact Hp|].
  intros d Hd'. apply Hsd. rewrite <- Hd. exact Hd'.
Qed.

Section WithV.
  Context {V : Type} (veqb : V -> V -> bool) (vnone : V).
  Hypothesis veqb_refl : forall v, veqb v v = true.

  Notation kst := (kst V).
  Notation ext := (ext V).
  Notation kvalid := (@kvalid V).
  Notation knondeg := (@knondeg V).

  Lemma put_ok hr c (vs : list V) (r : kst) :
    flags_tight hr -> put hr c vs = Ok r -> r = Some (c, vs) /\ class_ok (shape hr) c = true.
  Proof.
    intros Hfl H. unfold put in H. destruct (has_base hr (base_of c)) eqn:E; [|discriminate].
    injection H as <-. rewrite Hfl in E. split; [reflexivity | exact E].
  Qed.

  (** the number of dimensions of the piece, from its dims *)
  Lemma ndim_cases hr : shape_wf hr -> ndim hr = 3 \/ ndim hr = 4 \/ ndim hr = 5.
  Proof. intros [H _]. lia. Qed.

  (** * One key *)
  Lemma subset_k_valid h hr dim idx (s r : kst) :
    shape_wf h -> subset_hdr h dim = Ok hr -> dim < ndim h -> idx < nth dim (shape h) 0 ->
    kvalid h s -> knondeg h s ->
    subset_k veqb vnone h hr dim idx s = Ok r -> kvalid hr r /\ knondeg hr r.
  Proof.
    intros Hwf Hhr Hdim Hidx Hkv Hnd H.
    destruct (subset_hdr_facts h dim hr Hwf Hhr Hdim) as [Hwfr [Hfl [Hsd [_ [Hdims [H5 H3]]]]]].
    destruct s as [[c vs]|]; [|cbn in H; injection H as <-; split; exact I].
    unfold subset_k in H. rewrite (visible_kvalid _ _ _ Hkv) in H.
    destruct Hkv as [Hokc [Hslc Hlen]]. cbn [knondeg] in Hnd.
    pose proof (dims_pos h Hwf) as Hpos. pose proof (dims_pos hr Hwfr) as Hposr.
    unfold sub_dims in Hdims.
    destruct (dims h) as [[nS nT] nV] eqn:Ed. destruct Hpos as [HS [HT HV]].
    assert (Hn : ndim h = 3 \/ ndim h = 4 \/ ndim h = 5) by (apply ndim_cases; exact Hwf).
    assert (Hnr : ndim hr = 3 \/ ndim hr = 4 \/ ndim hr = 5) by (apply ndim_cases; exact Hwfr).
    (* facts linking idx with the dims *)
    assert (HidxS : odim_is (sdim h) dim = true -> idx < nS).
    { unfold odim_is. destruct (sdim h) as [d|] eqn:Esd; [|discriminate]. intros E. apply Nat.eqb_eq in E. subst d.
      unfold dims in Ed. rewrite Esd in Ed. injection Ed as <- _ _.
      rewrite (nth_indep _ 1 0); [exact Hidx | exact Hdim]. }
    assert (HidxT : dim = 3 -> idx < nT).
    { intros ->. unfold dims in Ed. injection Ed as _ <- _. rewrite (nth_indep _ 1 0); [exact Hidx | exact Hdim]. }
    assert (HidxV : dim = 4 -> idx < nV).
    { intros ->. unfold dims in Ed. injection Ed as _ _ <-. rewrite (nth_indep _ 1 0); [exact Hidx | exact Hdim]. }
    (* generic closing tactic for "put hr c' vs'" results *)
    destruct (cls_eqb_spec c GConst) as [->|Hc].
    { apply (put_ok hr _ _ _ Hfl) in H as [-> Hok]. split; [|intros Hx; contradiction].
      split; [exact Hok|]. split; [discriminate|]. rewrite Hlen. destruct (dims hr) as [[? ?] ?]. reflexivity. }
    specialize (Hnd Hc).
    destruct (odim_is (sdim h) dim) eqn:Eod.
    - (* along the slice dimension *)
      specialize (HidxS eq_refl).
      assert (Hsdh : exists d, sdim h = Some d) by (unfold odim_is in Eod; destruct (sdim h); [eauto | discriminate]).
      destruct Hsdh as [sd Hsdh].
      destruct (is_slices c) eqn:Esl; cbn [negb] in H.
      + (* _copy_slice *)
        unfold copy_slice_k in H. apply bind_ok in H as [dest [Hdest H]].
        destruct (negb (has_base hr (base_of dest))) eqn:Ehb; [discriminate|].
        apply negb_false_iff in Ehb. rewrite Hfl in Ehb.
        apply bind_ok in H as [dm [Hdm H]]. apply bind_ok in H as [stride [Hstride H]].
        apply bind_ok in H as [subset2 [Hsub H]].
        rewrite (n_slices_dims h sd Hwf Hsdh), Ed in Hstride. cbn [fst] in Hstride.
        assert (stride = nS) by (destruct nS; [lia | injection Hstride as <-; reflexivity]). subst stride.
        assert (Hdns : is_slices dest = false).
        { rewrite copy_slice_global_is, copy_slice_vector_is in Hdest. unfold first_valid in Hdest.
          destruct (base_of c); cbn [find] in Hdest;
            repeat match type of Hdest with
                   | context [if class_valid hr ?x then _ else _] => destruct (class_valid hr x)
                   end; try discriminate; injection Hdest as <-; reflexivity. }
        rewrite (multiplicity_wf hr dest Hwfr Ehb) in Hdm by (intros Hx; congruence).
        apply Ok_inj in Hdm.
        (* the count of the destination equals the number of selected values (possibly after replication) *)
        assert (Hsub2 : length subset2 = mult_spec (dims hr) dest).
        { rewrite Hdims in *. rewrite <- Hdm in Hsub. clear Hdm H.
          rewrite (class_ok_ndim hr dest Hwfr) in Ehb. rewrite ?Hdims in Ehb. cbn [fst snd] in Ehb, H5, H3.
          rewrite (class_ok_ndim h c Hwf), Ed in Hokc. cbn [fst snd] in Hokc.
          destruct c; try discriminate Esl; cbn [base_of mult_spec] in *.
          all: rewrite ?copy_slice_global_is, ?copy_slice_vector_is in Hdest; unfold first_valid in Hdest;
            cbn [find] in Hdest; rewrite ?class_valid_ok in Hdest;
            rewrite ?(class_ok_ndim hr TSamples Hwfr), ?(class_ok_ndim hr VSamples Hwfr), ?(class_ok_ndim hr GConst Hwfr) in Hdest;
            rewrite ?Hdims in Hdest; cbn [base_of fst snd] in Hdest.
          - (* GSlices: nT * nV values *)
            assert (Hev : length (every_nth idx nS vs) = nT * nV) by (apply every_nth_len; [lia | exact HidxS | nia]).
            rewrite Hev in Hsub.
            destruct Hnr as [E|[E|E]]; rewrite E in *; cbn [Nat.eqb orb andb] in Hdest.
            + injection Hdest as <-. cbn [mult_spec] in *. destruct H3 as [H3 _]. destruct (H3 eq_refl) as [-> ->].
              cbn [Nat.mul Nat.ltb Nat.leb] in Hsub. apply Ok_inj in Hsub. subst subset2. rewrite Hev. reflexivity.
            + injection Hdest as <-. cbn [mult_spec] in *. rewrite Nat.ltb_irrefl in Hsub. apply Ok_inj in Hsub.
              subst subset2. rewrite Hev. reflexivity.
            + destruct (nT =? 1) eqn:Et; cbn [negb] in Hdest; injection Hdest as <-; cbn [mult_spec] in *.
              * apply Nat.eqb_eq in Et. subst nT. rewrite Nat.mul_1_l in *. rewrite Nat.ltb_irrefl in Hsub.
                apply Ok_inj in Hsub. subst subset2. rewrite Hev. reflexivity.
              * rewrite Nat.ltb_irrefl in Hsub. apply Ok_inj in Hsub. subst subset2. rewrite Hev. reflexivity.
          - (* TSlices: one value *)
            assert (Hev : length (every_nth idx nS vs) = 1) by (apply every_nth_len; [lia | exact HidxS | lia]).
            rewrite Hev in Hsub. injection Hdest as <-. cbn [mult_spec Nat.ltb Nat.leb] in *.
            apply Ok_inj in Hsub. subst subset2. exact Hev.
          - (* VSlices: nT values *)
            assert (Hev : length (every_nth idx nS vs) = nT) by (apply every_nth_len; [lia | exact HidxS | nia]).
            rewrite Hev in Hsub.
            destruct Hnr as [E|[E|E]]; rewrite E in *; cbn [Nat.eqb orb andb] in Hdest.
            + injection Hdest as <-. cbn [mult_spec] in *. destruct H3 as [H3 _]. destruct (H3 eq_refl) as [-> ->].
              cbn [Nat.ltb Nat.leb] in Hsub. apply Ok_inj in Hsub. subst subset2. exact Hev.
            + injection Hdest as <-. cbn [mult_spec] in *.
              assert (nV = 1).
              { destruct (Nat.eq_dec nV 1) as [|Hne]; [assumption|]. exfalso.
                apply Nat.eqb_eq in Hokc. destruct H5 as [_ H5]. specialize (H5 (conj Hokc Hne)). lia. }
              subst nV. rewrite Nat.mul_1_r, Nat.ltb_irrefl in Hsub. apply Ok_inj in Hsub. subst subset2. lia.
            + destruct (nT =? 1) eqn:Et; cbn [negb] in Hdest; injection Hdest as <-; cbn [mult_spec] in *.
              * apply Nat.eqb_eq in Et. subst nT. cbn [Nat.ltb Nat.leb] in Hsub. apply Ok_inj in Hsub. subst subset2. exact Hev.
              * destruct (nT <? nT * nV) eqn:Elt.
                -- destruct (nT =? 0) eqn:E0; [discriminate|]. apply Ok_inj in Hsub. subst subset2.
                   rewrite rep_list_len, Hev.
                   replace (nT * nV / nT) with nV by (rewrite (Nat.mul_comm nT nV), Nat.div_mul; lia). ring.
                -- apply Ok_inj in Hsub. subst subset2. apply Nat.ltb_ge in Elt. rewrite Hev. nia. }
        refine (simplify_k_valid veqb vnone veqb_refl hr _ r Hwfr Hfl _ _ H).
        * split; [exact Ehb|]. split; [intros Hx; congruence | exact Hsub2].
        * intros c0 vs0 Heq. injection Heq as <- <-. intros ->. discriminate Hdns.
      + (* classes that do not depend on the slice index are copied *)
        apply (put_ok hr _ _ _ Hfl) in H as [-> Hok].
        assert (Hm : mult_spec (dims hr) c = mult_spec (nS, nT, nV) c).
        { rewrite Hdims. destruct c; try discriminate Esl; reflexivity. }
        split; [split; [exact Hok|]; split; [intros Hx; congruence | rewrite Hm; exact Hlen] | intros _; rewrite Hm; exact Hnd].
    - destruct (dim <? 3) eqn:Elt3.
      + (* a spatial dimension that is not the slice dimension: everything is copied *)
        apply (put_ok hr _ _ _ Hfl) in H as [-> Hok]. rewrite <- Hdims in Hlen, Hnd.
        split; [split; [exact Hok|]; split; [rewrite Hsd; exact Hslc | exact Hlen] | intros _; exact Hnd].
      + apply Nat.ltb_ge in Elt3.
        assert (Hsdr : is_slices c = true -> sdim hr <> None) by (rewrite Hsd; exact Hslc).
        assert (Hnsr : forall d, sdim h = Some d -> n_slices hr = Some nS).
        { intros d Hd. rewrite (n_slices_dims hr d Hwfr) by (rewrite Hsd; exact Hd). rewrite Hdims.
          destruct (dim =? 3); reflexivity. }
        destruct (dim =? 3) eqn:E3.
        * (* along time *)
          apply Nat.eqb_eq in E3. subst dim. specialize (HidxT eq_refl). clear HidxV HidxS.
          cbn [Nat.eqb] in Hdims.
          assert (Hn4 : ndim h = 4 \/ ndim h = 5) by lia.
          assert (Hs3 : shape_at h 3 = Some nT /\ (ndim h = 4 -> nV = 1)).
          { destruct Hn4 as [E|E].
            - destruct (ndim4_dims h Hwf E) as [Hv [_ Hs]]. rewrite Ed in Hv, Hs. cbn [fst snd] in Hv, Hs. split; [exact Hs | intros _; exact Hv].
            - destruct (ndim5_dims h Hwf E) as [_ [Hs _]]. rewrite Ed in Hs. cbn [fst snd] in Hs. split; [exact Hs | intros E'; lia]. }
          destruct Hs3 as [Hs3 Hv4].
          rewrite Hdims in H5, H3. cbn [fst snd] in H5, H3.
          unfold copy_sample_k in H.
          destruct c; try contradiction; cbn [is_samples is_slices sub_of base_of cbase_eqb cls_eqb negb] in H.
          -- (* GSlices *)
             apply bind_ok in H as [sub [Hsub H]]. apply bind_ok in H as [s1 [Hput H]].
             apply (put_ok hr _ _ _ Hfl) in Hput as [-> Hok].
             refine (simplify_k_valid veqb vnone veqb_refl hr _ r Hwfr Hfl _ _ H).
             ++ split; [exact Hok|]. split; [exact Hsdr|]. rewrite Hdims. cbn [mult_spec] in *.
                unfold global_slice_subset in Hsub.
                destruct (sdim h) as [sd|] eqn:Esd; [|exfalso; apply (Hslc eq_refl); reflexivity].
                rewrite (n_slices_dims h sd Hwf Esd), Ed in Hsub. cbn [fst] in Hsub.
                rewrite class_valid_ok, (class_ok_ndim h VSamples Hwf) in Hsub. cbn [base_of] in Hsub.
                destruct Hn4 as [E|E]; rewrite E in Hsub; cbn [Nat.eqb negb] in Hsub.
                ** apply Ok_inj in Hsub. subst sub. rewrite (Hv4 E) in *. rewrite py_slice_len_in; nia.
                ** destruct (ndim5_dims h Hwf E) as [_ [_ [_ Hs4]]]. rewrite Ed in Hs4. cbn [snd] in Hs4.
                   rewrite Hs3, Hs4 in Hsub. apply Ok_inj in Hsub. subst sub.
                   rewrite (flat_map_len_const _ nS); [rewrite seq_length; ring|].
                   intros vec Hvec. apply in_seq in Hvec. rewrite py_slice_len_in; [reflexivity|]. rewrite Hlen. apply bound3; lia.
             ++ intros c0 vs0 Heq. injection Heq as <- <-. intros Hx. discriminate Hx.
          -- (* TSamples: same base *)
             rewrite copy_sample_is in H. cbn [find cls_eqb negb andb rev app] in H.
             rewrite class_valid_ok, (class_ok_ndim hr VSamples Hwfr) in H. cbn [base_of] in H.
             destruct (ndim hr =? 5) eqn:E5; cbn [bind] in H.
             ++ apply Nat.eqb_eq in E5. destruct H5 as [H5 _]. destruct (H5 E5) as [_ Hv1].
                assert (Hokv : class_ok (shape hr) VSamples = true).
                { rewrite (class_ok_ndim hr VSamples Hwfr). cbn [base_of]. apply Nat.eqb_eq. exact E5. }
                rewrite (multiplicity_wf hr VSamples Hwfr Hokv) in H by discriminate.
                rewrite Hdims in H. cbn [mult_spec bind] in H.
                destruct (nV =? 1) eqn:Ev; [apply Nat.eqb_eq in Ev; contradiction|].
                rewrite Hs3 in H. destruct nT as [|nT']; [lia|].
                apply bind_ok in H as [s1 [Hput H]]. apply (put_ok hr _ _ _ Hfl) in Hput as [-> _].
                refine (simplify_k_valid veqb vnone veqb_refl hr _ r Hwfr Hfl _ _ H).
                ** split; [exact Hokv|]. split; [discriminate|]. rewrite Hdims. cbn [mult_spec] in *.
                   apply every_nth_len; [lia | exact HidxT | nia].
                ** intros c0 vs0 Heq. injection Heq as <- <-. intros Hx. discriminate Hx.
             ++ assert (Hokg : class_ok (shape hr) GConst = true) by (apply class_ok_global; [apply Hwfr | reflexivity]).
                rewrite class_valid_ok, Hokg in H. cbn [bind] in H.
                rewrite (multiplicity_wf hr GConst Hwfr Hokg) in H by discriminate.
                rewrite Hdims in H. cbn [mult_spec bind Nat.eqb] in H.
                destruct (nth_error vs idx) as [v|]; [|discriminate].
                apply (put_ok hr _ _ _ Hfl) in H as [-> _].
                split; [|intros Hx; contradiction]. split; [exact Hokg|]. split; [discriminate|].
                rewrite Hdims. reflexivity.
          -- (* TSlices: same base, moves to the first admitted wider class *)
             rewrite preserving_is in H. cbn [preserving_f first_valid find] in H.
             rewrite !class_valid_ok, (class_ok_ndim hr VSlices Hwfr), (class_ok_ndim hr GSlices Hwfr) in H.
             cbn [base_of] in H. cbn [mult_spec] in *.
             destruct (ndim hr =? 5) eqn:E5.
             ++ apply (put_ok hr _ _ _ Hfl) in H as [-> Hok]. unfold ProofsValidBase.kvalid, ProofsValidBase.knondeg. rewrite Hdims. cbn [mult_spec].
                split; [split; [exact Hok|]; split; [exact Hsdr | lia] | intros _; lia].
             ++ apply (put_ok hr _ _ _ Hfl) in H as [-> Hok]. unfold ProofsValidBase.kvalid, ProofsValidBase.knondeg. rewrite Hdims. cbn [mult_spec].
                apply Nat.eqb_neq in E5.
                assert (nV = 1).
                { destruct (Nat.eq_dec nV 1) as [|Hne]; [assumption|]. exfalso.
                  destruct Hn4 as [E|E]; [apply Hne; apply Hv4; exact E|]. apply E5. apply H5. split; assumption. }
                subst nV. split; [split; [exact Hok|]; split; [exact Hsdr | lia] | intros _; lia].
          -- (* VSamples: unchanged *)
             apply (put_ok hr _ _ _ Hfl) in H as [-> Hok]. unfold ProofsValidBase.kvalid, ProofsValidBase.knondeg. rewrite Hdims. cbn [mult_spec] in *.
             split; [split; [exact Hok|]; split; [discriminate | exact Hlen] | intros _; exact Hnd].
          -- (* VSlices: the slices of one time point *)
             destruct (sdim h) as [sd|] eqn:Esd; [|exfalso; apply (Hslc eq_refl); reflexivity].
             rewrite (Hnsr sd eq_refl) in H.
             apply bind_ok in H as [s1 [Hput H]]. apply (put_ok hr _ _ _ Hfl) in Hput as [-> Hok].
             refine (simplify_k_valid veqb vnone veqb_refl hr _ r Hwfr Hfl _ _ H).
             ++ split; [exact Hok|]. split; [exact Hsdr|]. rewrite Hdims. cbn [mult_spec] in *.
                rewrite py_slice_len_in; nia.
             ++ intros c0 vs0 Heq. injection Heq as <- <-. intros _ Hts.
                rewrite (class_ok_ndim hr TSamples Hwfr), (class_ok_ndim hr VSlices Hwfr) in *. cbn [base_of] in *.
                rewrite Hdims in Hts. cbn [fst snd Nat.eqb negb] in Hts. rewrite Hok in Hts.
                rewrite andb_false_r, orb_false_r in Hts. apply Nat.eqb_eq in Hts. apply Nat.eqb_eq in Hok. lia.
        * (* along the vector dimension *)
          apply Nat.eqb_neq in E3. assert (dim = 4) by (destruct Hwf as [Hx _]; lia). subst dim.
          specialize (HidxV eq_refl). clear HidxT HidxS E3.
          cbn [Nat.eqb] in Hdims.
          assert (E : ndim h = 5) by (destruct Hwf as [Hx _]; lia).
          destruct (ndim5_dims h Hwf E) as [_ [Hs3 _]]. rewrite Ed in Hs3. cbn [fst snd] in Hs3.
          rewrite Hdims in H5, H3. cbn [fst snd] in H5, H3.
          unfold copy_sample_k in H.
          destruct c; try contradiction; cbn [is_samples is_slices sub_of base_of cbase_eqb cls_eqb negb] in H.
          -- (* GSlices *)
             apply bind_ok in H as [sub [Hsub H]]. apply bind_ok in H as [s1 [Hput H]].
             apply (put_ok hr _ _ _ Hfl) in Hput as [-> Hok].
             refine (simplify_k_valid veqb vnone veqb_refl hr _ r Hwfr Hfl _ _ H).
             ++ split; [exact Hok|]. split; [exact Hsdr|]. rewrite Hdims. cbn [mult_spec] in *.
                unfold global_slice_subset in Hsub.
                destruct (sdim h) as [sd|] eqn:Esd; [|exfalso; apply (Hslc eq_refl); reflexivity].
                rewrite (n_slices_dims h sd Hwf Esd), Ed in Hsub. cbn [fst] in Hsub.
                rewrite Hs3 in Hsub. apply Ok_inj in Hsub. subst sub. rewrite py_slice_len_in; nia.
             ++ intros c0 vs0 Heq. injection Heq as <- <-. intros Hx. discriminate Hx.
          -- (* TSamples: the time samples of one vector component *)
             apply bind_ok in H as [dm [Hdm H]]. apply bind_ok in H as [s1 [Hput H]].
             apply (put_ok hr _ _ _ Hfl) in Hput as [-> Hok].
             rewrite (multiplicity_wf hr TSamples Hwfr Hok) in Hdm by discriminate.
             rewrite Hdims in Hdm. cbn [mult_spec] in Hdm. apply Ok_inj in Hdm. subst dm.
             refine (simplify_k_valid veqb vnone veqb_refl hr _ r Hwfr Hfl _ _ H).
             ++ split; [exact Hok|]. split; [discriminate|]. rewrite Hdims. cbn [mult_spec] in *.
                rewrite py_slice_len_in; nia.
             ++ intros c0 vs0 Heq. injection Heq as <- <-. intros Hx. discriminate Hx.
          -- (* TSlices: unchanged *)
             apply (put_ok hr _ _ _ Hfl) in H as [-> Hok]. unfold ProofsValidBase.kvalid, ProofsValidBase.knondeg. rewrite Hdims. cbn [mult_spec] in *.
             split; [split; [exact Hok|]; split; [exact Hsdr | exact Hlen] | intros _; exact Hnd].
          -- (* VSamples: one value *)
             rewrite copy_sample_is in H. cbn [find cls_eqb negb andb rev app] in H.
             rewrite class_valid_ok in H.
             assert (Hokg : class_ok (shape hr) GConst = true) by (apply class_ok_global; [apply Hwfr | reflexivity]).
             rewrite Hokg in H. cbn [bind] in H.
             rewrite (multiplicity_wf hr GConst Hwfr Hokg) in H by discriminate.
             rewrite Hdims in H. cbn [mult_spec bind Nat.eqb] in H.
             destruct (nth_error vs idx) as [v|]; [|discriminate].
             apply (put_ok hr _ _ _ Hfl) in H as [-> _].
             split; [|intros Hx; contradiction]. split; [exact Hokg|]. split; [discriminate|].
             rewrite Hdims. reflexivity.
          -- (* VSlices: same base, moves to ('global','slices') *)
             rewrite preserving_is in H. cbn [preserving_f first_valid find] in H.
             rewrite class_valid_ok in H.
             assert (Hokg : class_ok (shape hr) GSlices = true) by (apply class_ok_global; [apply Hwfr | reflexivity]).
             rewrite Hokg in H.
             apply (put_ok hr _ _ _ Hfl) in H as [-> Hok]. unfold ProofsValidBase.kvalid, ProofsValidBase.knondeg. rewrite Hdims. cbn [mult_spec] in *.
             split; [split; [exact Hok|]; split; [exact Hsdr | lia] | intros _; lia].
  Qed.

  (** * The whole extension *)
  Theorem get_subset_valid (e r : ext) dim idx :
    valid e -> nondegenerate e -> dim < ndim (hdr_of e) -> idx < nth dim (shape (hdr_of e)) 0 ->
    get_subset veqb vnone e dim idx = Ok r -> valid r /\ nondegenerate r.
  Proof.
    intros Hv Hnd Hdim Hidx H. unfold get_subset in H.
    apply bind_ok in H as [hr [Hhr H]]. apply bind_ok in H as [u [_ H]]. apply bind_ok in H as [ents [Hents H]].
    injection H as <-.
    pose proof (hdr_wf_shape_wf _ (proj1 Hv)) as Hwf.
    destruct (subset_hdr_facts _ _ _ Hwf Hhr Hdim) as [Hwfr [Hfl [Hsd [Haff _]]]].
    assert (Hk : forall k x, In (k, x) ents -> kvalid hr (Some x) /\ knondeg hr (Some x)).
    { intros k x Hin. destruct (map_keys_In _ _ _ _ _ Hents Hin) as [_ Hf].
      apply (subset_k_valid (hdr_of e) hr dim idx (lookup_e e k) (Some x) Hwf Hhr Hdim Hidx);
        [apply valid_kvalid; exact Hv | apply nondegenerate_knondeg; exact Hnd | exact Hf]. }
    split.
    - apply valid_of_kvalid; cbn [hdr_of entries keys_e].
      + unfold subset_hdr in Hhr.
        destruct (5 <=? dim); [discriminate|]. destruct (negb (ndim_ok (hdr_of e))); [discriminate|].
        destruct (set_nth dim 1 (shape (hdr_of e))); [|discriminate].
        apply (make_empty_hdr_wf _ _ _ _ Hhr).
        apply make_empty_hdr_ok in Hhr as [Hs _]. rewrite <- Hs. apply Hwfr.
      + apply (map_keys_NoDup _ _ _ Hents). apply dedup_keys_NoDup.
      + intros k x Hin. apply (Hk k x Hin).
    - apply nondegenerate_of_knondeg. cbn [hdr_of entries]. intros k x Hin. apply (Hk k x Hin).
  Qed.
End WithV.
