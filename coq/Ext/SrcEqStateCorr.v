(** Correspondence glue for the part "state" of the plugin SRC: the TRANSLATED state-passing mutators
    (Generated/T_src_state.v) are run on the real content dictionary of a DcmMetaExtension and the resulting
    content (key order included) and result are compared with what the real method left behind / returned. *)
From Coq Require Import List Bool Arith NArith ZArith QArith.
From DV Require Import Common.Res Common.Str Common.Jv Common.PyOps2 Generated.T_classes Generated.T_src_state
     Ext.SrcEqState.
Import ListNotations.

Inductive call :=
| CSimplify (key : str)
| CChange (key : str) (new : cname)
| CSubset (sd : option nat) (dim idx : nat) (empty : option jv)       (* empty = the content make_empty gives for the result *)
| CInsertSlice (sd : option nat) (key : str) (oshape : list nat) (ons : option nat) (ocontent : jv)    (* the instance that is read *)
| CInsertNonSlice (sd : option nat) (key : str) (oshape : list nat) (ons : option nat) (ocontent : jv)
| CInsertSample (sd : option nat) (key : str) (base : str) (oshape : list nat) (ons : option nat) (ocontent : jv)
(* _insert(dim, other): the slice normals are tokens (equal iff np.allclose holds); the method goes through a set of keys, whose
   iteration order is not modelled: the resulting content is compared up to the order of the keys (OUnitStU) *)
| CInsert (sd : option nat) (dim : nat) (normal onormal : option nat) (oshape : list nat) (ons : option nat) (ocontent : jv)
(* from_sequence(seq, dim, None, slice_dim): every input with its header (shape, slice dim, n_slices, slice normal token) and content;
   empty / rnormal = what make_empty gives for the result (content, slice normal token) *)
| CFromSeq (dim : nat) (slice_dim : option nat) (inputs : list (list nat * option nat * option nat * option nat * jv))
           (empty : option jv) (rnormal : option nat).

Inductive obs := OBoolSt (b : bool) (st : jv) | OUnitSt (st : jv) | OUnitStU (st : jv) | OContent (st : jv) | OErr (e : err)
  | OErrU.      (* some exception: which one comes first depends on the order in which a set of keys is iterated *)

Record case := mk_case { c_shape : list nat; c_ns : option nat; c_content : jv; c_call : call; c_obs : obs }.

Definition run (c : case) : obs :=
  match c_call c with
  | CSimplify k =>
      match simplify_st classifications (c_shape c) (c_ns c) (okeys const_tests) (okeys repeat_tests) (c_content c) k with
      | Ok (b, st) => OBoolSt b st | Err e => OErr e end
  | CChange k new =>
      match change_class_st classifications (c_shape c) (c_ns c) preserving_changes (c_content c) k new with
      | Ok (_, st) => OUnitSt st | Err e => OErr e end
  | CSubset sd dim idx empty =>
      match get_subset_st (fun _ _ => match empty with Some c0 => Ok c0 | None => Err EValue end)
                          classifications (c_shape c) sd (c_ns c) tt tt preserving_changes (okeys const_tests) (okeys repeat_tests)
                          (c_content c) dim idx with
      | Ok st => OContent st | Err e => OErr e end
  | CInsertSlice sd k oshape ons ocontent =>
      match insert_slice_st classifications (c_shape c) sd (c_ns c) preserving_changes (c_content c) k
                            classifications oshape ons preserving_changes ocontent with
      | Ok (_, st) => OUnitSt st | Err e => OErr e end
  | CInsertNonSlice sd k oshape ons ocontent =>
      match insert_non_slice_st classifications (c_shape c) sd (c_content c) k classifications oshape ons preserving_changes ocontent with
      | Ok (_, st) => OUnitSt st | Err e => OErr e end
  | CInsert sd dim nrm onrm oshape ons ocontent =>
      match insert_st classifications (c_shape c) sd (c_ns c) preserving_changes nrm (c_content c) dim
                      classifications oshape ons preserving_changes onrm ocontent with
      | Ok (_, st) => OUnitStU st | Err e => OErrU end
  | CFromSeq dim slice_dim inputs empty rnormal =>
      match from_sequence_st (fun _ _ => match empty with Some c0 => Ok c0 | None => Err EValue end) (fun _ => Ok rnormal)
                             classifications None preserving_changes (okeys const_tests) (okeys repeat_tests) JNull
                             (map (fun i => match i with (sh, sd, ns, nrm, ct) =>
                                     (classifications, sh, sd, ns, tt, tt, preserving_changes, okeys const_tests, okeys repeat_tests, nrm, ct) end)
                                  inputs)
                             dim None slice_dim with
      | Ok st => OUnitStU st | Err e => OErrU end
  | CInsertSample sd k base oshape ons ocontent =>
      match insert_sample_st classifications (c_shape c) sd (c_ns c) preserving_changes (c_content c) k
                             classifications oshape ons preserving_changes ocontent base with
      | Ok (_, st) => OUnitSt st | Err e => OErr e end
  end.

(** equality of JSON values up to the order of the members of objects (nesting depth bounded by the fuel) *)
Fixpoint jv_equ (fuel : nat) (a b : jv) : bool :=
  match fuel with
  | O => false
  | S f =>
      match a, b with
      | JObj x, JObj y => Nat.eqb (length x) (length y)
                          && forallb (fun kv => match jassoc (fst kv) y with Some w => jv_equ f (snd kv) w | None => false end) x
      | JArr x, JArr y => Nat.eqb (length x) (length y) && forallb (fun p => jv_equ f (fst p) (snd p)) (combine x y)
      | _, _ => jv_eqb a b
      end
  end.

Definition obs_eqb (a b : obs) : bool :=
  match a, b with
  | OUnitStU s, OUnitStU t => jv_equ 12 s t
  | OErrU, OErrU => true
  | OBoolSt x s, OBoolSt y t => Bool.eqb x y && jv_eqb s t
  | OUnitSt s, OUnitSt t => jv_eqb s t
  | OContent s, OContent t => jv_eqb s t
  | OErr x, OErr y => err_eqb x y
  | _, _ => false
  end.

Definition check (c : case) : bool := obs_eqb (run c) (c_obs c).
Definition show (c : case) : obs := run c.
