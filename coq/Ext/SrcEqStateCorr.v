(** Correspondence glue for the part "state" of the plugin SRC: the TRANSLATED state-passing mutators
    (Generated/T_src_state.v) are run on the real content dictionary of a DcmMetaExtension and the resulting
    content (key order included) and result are compared with what the real method left behind / returned. *)
From Coq Require Import List Bool Arith NArith ZArith QArith.
From DV Require Import Common.Res Common.Str Common.Jv Common.PyOps2 Generated.T_classes Generated.T_src_state
     Ext.SrcEqState.
Import ListNotations.

Inductive call :=
| CSimplify (key : str)
| CChange (key : str) (new : cname)
| CSubset (sd : option nat) (dim idx : nat) (empty : option jv).      (* empty = the content make_empty gives for the result *)

Inductive obs := OBoolSt (b : bool) (st : jv) | OUnitSt (st : jv) | OContent (st : jv) | OErr (e : err).

Record case := mk_case { c_shape : list nat; c_ns : option nat; c_content : jv; c_call : call; c_obs : obs }.

Definition run (c : case) : obs :=
  match c_call c with
  | CSimplify k =>
      match simplify_st classifications (c_shape c) (c_ns c) (okeys const_tests) (okeys repeat_tests) (c_content c) k with
      | Ok (b, st) => OBoolSt b st | Err e => OErr e end
  | CChange k new =>
      match change_class_st classifications (c_shape c) (c_ns c) preserving_changes (c_content c) k new with
      | Ok (_, st) => OUnitSt st | Err e => OErr e end
  | CSubset sd dim idx empty =>
      match get_subset_st (fun _ _ => match empty with Some c0 => Ok c0 | None => Err EValue end)
                          classifications (c_shape c) sd (c_ns c) tt tt preserving_changes (okeys const_tests) (okeys repeat_tests)
                          (c_content c) dim idx with
      | Ok st => OContent st | Err e => OErr e end
  end.

Definition obs_eqb (a b : obs) : bool :=
  match a, b with
  | OBoolSt x s, OBoolSt y t => Bool.eqb x y && jv_eqb s t
  | OUnitSt s, OUnitSt t => jv_eqb s t
  | OContent s, OContent t => jv_eqb s t
  | OErr x, OErr y => err_eqb x y
  | _, _ => false
  end.

Definition check (c : case) : bool := obs_eqb (run c) (c_obs c).
Definition show (c : case) : obs := run c.
