(** End-to-end corollary for from_sequence WITHOUT a side check: on valid, non-degenerate inputs that all have the shape and the slice
    dimension of the first one (C07's [merge_dom]) every state a key goes through is storable - derived from C07's step invariants
    (Ext/ProofsValidInsert.v [insert_k_inv], [reclassify_k_inv]; Ext/ProofsValidMerge.v [merge_facts], [merge_geometry]),
    strengthened here from `knd` to full non-degeneracy at the step boundaries. *)
From Coq Require Import List Bool Arith NArith ZArith QArith Lia.
From DV Require Import Common.Res Common.Str Common.Jv Common.PyOps2 Common.PyOps2Dyn Generated.T_classes Generated.T_src_state
     Ext.Types Ext.Classes Ext.Seq Ext.SeqFacts Ext.Model Ext.Spec Ext.TableFacts Ext.ValidFacts
     Ext.ProofsValidBase Ext.ProofsValidSimplify Ext.ProofsValidInsert Ext.ProofsValidMerge Ext.SrcEqAlg Ext.SrcEqState Ext.SrcEqInsertAll Ext.SrcEqFromSeq
     Link.Abs Link.ProofsTo Ext.SrcEqStateLink Ext.SrcEqFromSeqLink Ext.SrcEqValidLink.
Import ListNotations.
Local Open Scope nat_scope.

(** * Storability from the per-key format rules *)

Lemma storable_of_kvalid (h : hdr) (s : kst jv) : shape_wf h -> kvalid h s -> knondeg h s -> kst_storable h s /\ visible h s = s.
Proof.
  intros [Hn [_ Hsd]] Hk Hnd. destruct s as [[c vs]|]; [|split; [exact I | reflexivity]].
  destruct Hk as [Hok [Hs Hl]]. unfold kst_storable, visible. rewrite class_valid_ok, Hok. split; [|reflexivity].
  assert (Hm : multiplicity h c = Ok (mult_spec (dims h) c)).
  { apply multiplicity_ok; [exact Hn | exact Hok|]. intros Hsl. specialize (Hs Hsl).
    destruct (sdim h) as [d|] eqn:Ed; [|exfalso; apply Hs; reflexivity]. exists d. split; [reflexivity | exact (Hsd d eq_refl)]. }
  destruct c; try (rewrite Hm; intros Hx; injection Hx as Hx; exact (Hnd ltac:(discriminate) Hx)).
  rewrite Hl. reflexivity.
Qed.

Lemma mult_le_gslices (d : pos) (c : cls) : (let '(nS, nT, nV) := d in 1 <= nS /\ 1 <= nT /\ 1 <= nV) ->
  mult_spec d GSlices = 1 -> mult_spec d c = 1.
Proof. destruct d as [[nS nT] nV]. intros [H1 [H2 H3]] H. cbn [mult_spec] in *. destruct c; nia. Qed.

(** with all extents 1 a non-degenerate state is absent or a constant *)
Lemma const_when_flat (h : hdr) (s : kst jv) : shape_wf h -> mult_spec (dims h) GSlices = 1 -> knondeg h s ->
  s = None \/ exists vs, s = Some (GConst, vs).
Proof.
  intros Hwf H1 Hnd. destruct s as [[c vs]|]; [|left; reflexivity]. right.
  destruct (cls_eqb_spec c GConst) as [->|Hne]; [exists vs; reflexivity|].
  exfalso. apply (Hnd Hne). exact (mult_le_gslices (dims h) c (dims_pos h Hwf) H1).
Qed.

Lemma reclassify_const (hs : hdr) (ks s1 : kst jv) : (ks = None \/ exists vs, ks = Some (GConst, vs)) ->
  reclassify_k JNull hs ks GConst = Ok s1 -> s1 = None \/ exists vs, s1 = Some (GConst, vs).
Proof.
  assert (Hput : forall (s r : kst jv), bind (changed_class JNull hs s GConst None) (fun v => put hs GConst v) = Ok r ->
                                         exists vs, r = Some (GConst, vs)).
  { intros s r H. destruct (changed_class JNull hs s GConst None) as [v|]; [|discriminate H]. cbn [bind] in H. unfold put in H.
    destruct (has_base hs (base_of GConst)); [|discriminate H]. injection H as <-. exists v. reflexivity. }
  intros Hks H. unfold reclassify_k in H. rewrite !preserving_is in H.
  destruct (ocls_eqb (kst_class (visible hs ks)) (Some GConst)) eqn:E.
  - injection H as <-. exact Hks.
  - assert (Hm : mem_cls GConst (preserving_f (kst_class (visible hs ks))) = true).
    { destruct Hks as [->|[vs ->]]; unfold visible in *; [reflexivity|]. destruct (class_valid hs GConst); [discriminate E | reflexivity]. }
    rewrite Hm in H. unfold change_class_k in H. rewrite E in H. right. exact (Hput ks s1 H).
Qed.

(** * One _insert step keeps the per-key format rules, and everything it hands on is storable *)

Section StepFull.
  Variables (hs hs' ho : hdr) (dim : nat).
  Hypothesis SF : step_facts hs hs' ho dim.

  Lemma gslices_flat_o : mult_spec (dims hs) GSlices = 1 -> mult_spec (dims ho) GSlices = 1.
  Proof.
    intros H. pose proof (mult_spec_mono (dims ho) (dims hs) GSlices (proj1 (dims_order hs hs' ho dim SF))) as Hle.
    pose proof (mult_spec_pos ho GSlices (sf_wf_o _ _ _ _ SF)) as Hp. lia.
  Qed.

  Lemma step_full (ks ko : kst jv) :
    kvalid hs ks -> knondeg hs ks -> kvalid ho ko -> knondeg ho ko ->
    step_ok hs ho ks ko /\
    (forall r, insert_k jv_eqb JNull hs ho dim ks ko = Ok r -> kvalid hs' r /\ knondeg hs' r).
  Proof.
    intros Hk Hnd Hko Hndo.
    pose proof (sf_wf_s _ _ _ _ SF) as Hwfs. pose proof (sf_wf_o _ _ _ _ SF) as Hwfo. pose proof (sf_wf_s' _ _ _ _ SF) as Hwfs'.
    set (us := use_slices hs ho).
    set (ko2 := match ko with Some (c, vs) => if is_slices c && negb us then None else Some (c, vs) | None => None end).
    assert (Hvo : visible ho ko = ko) by (destruct ko as [[c vs]|]; [apply visible_kvalid; exact Hko | reflexivity]).
    assert (Hko2 : kvalid ho ko2 /\ knondeg ho ko2).
    { unfold ko2. destruct ko as [[c vs]|]; [|split; exact I]. destruct (is_slices c && negb us); [split; exact I | split; assumption]. }
    destruct Hko2 as [Hko2 Hnd2].
    assert (Hocl : other_class us ko = oclass ko2).
    { unfold other_class, ko2, oclass. destruct ko as [[c vs]|]; [|reflexivity]. destruct (is_slices c && negb us); reflexivity. }
    assert (Hoc : class_ok (shape hs) (oclass ko2) = true /\ (is_slices (oclass ko2) = true -> sdim hs <> None) /\
                  (oclass ko2 <> GConst -> mult_spec (dims hs) (oclass ko2) <> 1)).
    { destruct ko2 as [[c vs]|]; cbn [oclass].
      - destruct Hko2 as [Hokc [Hsc _]]. split; [apply (sf_sub _ _ _ _ SF); exact Hokc|].
        split; [rewrite <- (sf_sd_o _ _ _ _ SF); exact Hsc|].
        intros Hc. specialize (Hnd2 Hc).
        pose proof (mult_spec_mono (dims ho) (dims hs) c (proj1 (dims_order hs hs' ho dim SF))) as Hle.
        pose proof (mult_spec_pos ho c Hwfo). lia.
      - split; [apply class_ok_global; [apply Hwfs | reflexivity]|]. split; [discriminate | intros Hx; contradiction]. }
    destruct Hoc as [Hoc1 [Hoc2 Hoc3]].
    (* when all extents of hs are 1, everything in sight is absent or a constant *)
    assert (Hflat : mult_spec (dims hs) GSlices = 1 -> forall s1, reclassify_k JNull hs ks (oclass ko2) = Ok s1 ->
                    s1 = None \/ exists vs, s1 = Some (GConst, vs)).
    { intros H1 s1 Hre. pose proof (const_when_flat hs ks Hwfs H1 Hnd) as Hcs.
      pose proof (const_when_flat ho ko2 Hwfo (gslices_flat_o H1) Hnd2) as Hco.
      assert (Hg : oclass ko2 = GConst) by (destruct Hco as [->|[vs ->]]; reflexivity). rewrite Hg in Hre.
      exact (reclassify_const hs ks s1 Hcs Hre). }
    (* the reclassified state *)
    assert (Hrec : forall s1, reclassify_k JNull hs ks (oclass ko2) = Ok s1 -> kvalid hs s1 /\ knondeg hs s1).
    { intros s1 Hre. destruct (reclassify_k_inv JNull hs hs' ho dim SF (oclass ko2) ks s1 Hk (knondeg_knd hs ks Hnd) Hoc1 Hoc2 Hoc3 Hre)
        as [c1 [vs1 [-> [Hk1 [Hn1 _]]]]]. split; [exact Hk1|]. intros Hc1 Hm1.
      destruct (cls_eqb_spec c1 GSlices) as [->|Hg]; [|exact (Hn1 Hc1 Hg Hm1)].
      destruct (Hflat Hm1 _ Hre) as [Hx|[vs Hx]]; discriminate Hx. }
    split.
    - destruct (storable_of_kvalid hs ks Hwfs Hk Hnd) as [Hst Hvis]. split; [exact Hst|]. split; [exact Hvis|].
      intros s1 Hre. fold us in Hre. rewrite Hocl in Hre. destruct (Hrec s1 Hre) as [Hk1 Hn1].
      exact (proj1 (storable_of_kvalid hs s1 Hwfs Hk1 Hn1)).
    - intros r Hins. destruct (insert_k_inv jv_eqb JNull hs hs' ho dim SF ks ko r Hk (knondeg_knd hs ks Hnd) Hko Hndo Hins) as [Hkr Hnr].
      split; [exact Hkr|]. destruct r as [[c vs]|]; [|exact I]. intros Hc Hm.
      destruct (cls_eqb_spec c GSlices) as [->|Hg]; [|exact (Hnr Hc Hg Hm)].
      (* ('global','slices') of multiplicity 1 under hs': only when no extent grew, i.e. a spatial dimension that is not the slice
         dimension, with all extents 1 - then the state is absent or a constant *)
      destruct (sf_mode _ _ _ _ SF) as [nS [nT [nV [Hd Hmode]]]].
      pose proof (dims_pos hs Hwfs) as Hp. rewrite Hd in Hp. destruct Hp as [P1 [P2 P3]].
      destruct Hmode as [[_ [_ [Hd' _]]] | [[Hod [Hlt [Hdo [Hd' _]]]] | [[_ [_ [_ [Hd' _]]]] | [_ [_ [_ [Hd' _]]]]]]];
        rewrite Hd' in Hm; cbn [mult_spec] in Hm; try nia.
      assert (H1 : mult_spec (dims hs) GSlices = 1) by (rewrite Hd; exact Hm).
      rewrite insert_k_unfold, Hvo in Hins. cbv zeta in Hins. fold us in Hins. fold ko2 in Hins.
      assert (Hvk : visible hs ks = ks) by (destruct ks as [[c0 vs0]|]; [apply visible_kvalid; exact Hk | reflexivity]).
      rewrite Hvk in Hins.
      assert (Hmain : forall ks1, reclassify_k JNull hs ks (oclass ko2) = Ok ks1 -> insert_dispatch hs ho dim ks1 ko2 = Ok (Some (GSlices, vs)) -> False).
      { intros ks1 Hre Hdis. destruct (Hflat H1 ks1 Hre) as [->|[vs1 ->]]; unfold insert_dispatch in Hdis; rewrite Hod in Hdis;
          apply Nat.ltb_lt in Hlt; rewrite Hlt in Hdis; unfold insert_non_slice_k in Hdis.
        - cbn [visible] in Hdis. discriminate Hdis.
        - destruct (visible hs (Some (GConst, vs1))) as [[cc lv]|] eqn:Ev; [|discriminate Hdis].
          assert (cc = GConst) by (unfold visible in Ev; destruct (class_valid hs GConst); [injection Ev as <- _; reflexivity | discriminate Ev]).
          subst cc. destruct (changed_class JNull ho ko2 GConst (sdim hs)) as [ovx|]; [|discriminate Hdis]. cbn [bind] in Hdis.
          destruct (list_eqb jv_eqb lv ovx); discriminate Hdis. }
      destruct ko2 as [[c2 vs2]|] eqn:Ek2.
      + cbn [oclass] in *. destruct (reclassify_k JNull hs ks c2) as [ks1|] eqn:Er; [|discriminate Hins]. exact (Hmain ks1 eq_refl Hins).
      + destruct ks as [[c0 vs0]|].
        * cbn [oclass] in *. destruct (reclassify_k JNull hs (Some (c0, vs0)) GConst) as [ks1|] eqn:Er; [|discriminate Hins].
          exact (Hmain ks1 eq_refl Hins).
        * discriminate Hins.
  Qed.
End StepFull.

(** * The whole trajectory of a key *)

Section Traj.
  Variables (h0 hfull : hdr) (dim n : nat).
  Hypothesis MF : merge_facts h0 hfull dim n.

  Lemma traj_of_valid (others : list (hdr * kst jv)) : forall j ks,
    1 <= j -> others_ok h0 others -> kvalid (with_dim hfull dim j) ks -> knondeg (with_dim hfull dim j) ks ->
    traj_ok hfull dim j others ks /\
    (forall r, insert_all_k jv_eqb JNull hfull dim j others ks = Ok r ->
               kvalid (with_dim hfull dim (j + length others)) r /\ knondeg (with_dim hfull dim (j + length others)) r).
  Proof.
    induction others as [|[ho ko] rest IH]; intros j ks Hj Hoth Hk Hn.
    - split; [exact I|]. intros r H. cbn [insert_all_k] in H. injection H as <-. cbn [length]. rewrite Nat.add_0_r. split; assumption.
    - destruct (Hoth ho ko (or_introl eq_refl)) as [Hsh [Hsd [Hko Hndo]]].
      pose proof (mf_step _ _ _ _ MF j ho Hj Hsh Hsd) as SF.
      destruct (step_full _ _ _ _ SF ks ko Hk Hn Hko Hndo) as [Hstep Hnext].
      assert (Hoth' : others_ok h0 rest) by (intros ho' ko' Hin; apply Hoth; right; exact Hin).
      split.
      + cbn [traj_ok]. split; [exact Hstep|]. intros ks' Hins. destruct (Hnext ks' Hins) as [Hk' Hn'].
        exact (proj1 (IH (S j) ks' ltac:(lia) Hoth' Hk' Hn')).
      + intros r H. cbn [insert_all_k] in H. destruct (insert_k jv_eqb JNull (with_dim hfull dim j) ho dim ks ko) as [ks'|] eqn:Eins; [|discriminate H].
        cbn [bind] in H. destruct (Hnext ks' eq_refl) as [Hk' Hn'].
        cbn [length]. replace (j + S (length rest)) with (S j + length rest) by lia.
        exact (proj2 (IH (S j) ks' ltac:(lia) Hoth' Hk' Hn') r H).
  Qed.

  Lemma init_valid (k0 : kst jv) : kvalid h0 k0 -> knondeg h0 k0 ->
    kvalid (with_dim hfull dim 1) (init_k hfull h0 k0) /\ knondeg (with_dim hfull dim 1) (init_k hfull h0 k0).
  Proof.
    intros Hk0 Hn0. unfold init_k. destruct k0 as [[c vs]|]; [|split; exact I]. rewrite (visible_kvalid _ _ _ Hk0).
    destruct (is_slices c && negb (use_slices hfull h0)); [split; exact I|].
    destruct Hk0 as [Hok [Hs Hl]]. split.
    - split; [apply (mf_first_cls _ _ _ _ MF); exact Hok|].
      split; [rewrite ProofsValidMerge.with_dim_sdim, (mf_sd _ _ _ _ MF); exact Hs | rewrite (mf_first_dims _ _ _ _ MF); exact Hl].
    - cbn [knondeg]. rewrite (mf_first_dims _ _ _ _ MF). exact Hn0.
  Qed.
End Traj.

Lemma final_of_valid (h : hdr) (s : kst jv) : shape_wf h -> kvalid h s -> knondeg h s -> final_ok h s.
Proof.
  intros Hwf Hk Hn. destruct (storable_of_kvalid h s Hwf Hk Hn) as [H1 H2]. split; [exact H1|]. split; [exact H2|].
  intros c vs -> Hs. destruct Hk as [_ [Hsd _]]. specialize (Hsd Hs). unfold n_slices. destruct (sdim h); [discriminate | exact Hsd].
Qed.

Lemma prod_list_pos (l : list nat) : Forall (fun x => 1 <= x) l -> prod_list l <> 0.
Proof.
  unfold prod_list. assert (H : forall acc, 1 <= acc -> Forall (fun x => 1 <= x) l -> 1 <= fold_left Nat.mul l acc).
  { induction l as [|x r IH]; intros acc Ha Hf; [exact Ha|]. inversion Hf as [|? ? Hx Hr]; subst. cbn [fold_left]. apply IH; [nia | exact Hr]. }
  intros Hf. specialize (H 1 (le_n 1) Hf). lia.
Qed.

Lemma Forall_skipn {A} (P : A -> Prop) (n : nat) : forall l, Forall P l -> Forall P (skipn n l).
Proof.
  induction n as [|n IH]; intros l H; [exact H|]. destruct l as [|x r]; [constructor|]. inversion H; subst. cbn [skipn]. apply IH. assumption.
Qed.

(** * from_sequence on valid, non-degenerate inputs of one shape: no side check is needed *)

Theorem top_from_sequence_valid (qtok : Q -> str) (mk : list nat -> option nat -> res jv) (mkn : option nat -> res (option nat))
    (en0 : ext jv * option nat) (ens : list (ext jv * option nat)) (dim : nat) (sd : option nat) (r : ext jv)
    (oe : obj) (rn : option nat) :
  (forall en, In en (en0 :: ens) -> valid (fst en) /\ nondegenerate (fst en) /\ tok_eq rn (snd en) = use_slices (hdr_of r) (hdr_of (fst en))) ->
  merge_dom (map fst (en0 :: ens)) sd ->
  from_sequence jv_eqb JNull (map fst (en0 :: ens)) dim None sd = Ok r ->
  mk (shape (hdr_of r)) (sdim (hdr_of r)) = Ok (JObj oe) -> Holds oe (hdr_of r) (fun _ => None) -> mkn (sdim (hdr_of r)) = Ok rn ->
  merge_hdr (map (@hdr_of jv) (map fst (en0 :: ens))) dim None sd = Ok (hdr_of r) /\
  exists o', from_sequence_st mk mkn classifications None preserving_changes (okeys const_tests) (okeys repeat_tests) JNull
                              (map to_inst (map (ext_input qtok) (en0 :: ens))) dim None sd = Ok (JObj o') /\
             Holds o' (hdr_of r) (lookup_e r).
Proof.
  intros Hin Hdom Hfs Hmk Hoe Hmkn.
  assert (Hh : merge_hdr (map (@hdr_of jv) (map fst (en0 :: ens))) dim None sd = Ok (hdr_of r)).
  { unfold from_sequence in Hfs. destruct (merge_hdr _ dim None sd) as [hf|]; [|discriminate Hfs]. cbn [bind] in Hfs.
    destruct (map_keys _ _); [|discriminate Hfs]. injection Hfs as <-. reflexivity. }
  set (hfull := hdr_of r) in *. set (e0 := fst en0). set (h0 := hdr_of e0).
  cbn [map] in Hdom. fold e0 in Hdom. destruct Hdom as [Hrs Hgeo].
  destruct (Hin en0 (or_introl eq_refl)) as [Hv0 [Hn0 _]]. fold e0 in Hv0, Hn0.
  pose proof (hdr_wf_shape_wf _ (proj1 Hv0)) as Hwf0.
  cbn [map] in Hh. fold e0 in Hh. fold h0 in Hh.
  pose proof (merge_geometry _ _ _ _ _ _ Hh Hwf0 Hrs) as MF. rewrite !map_length in MF.
  assert (Hoth : forall k, others_ok h0 (map (fun en => (hdr_of (fst en), lookup_e (fst en) k)) ens)).
  { intros k ho ko Hx. apply in_map_iff in Hx. destruct Hx as [en [Heq Hen]]. injection Heq as <- <-.
    destruct (Hgeo (fst en) (or_intror (in_map fst _ _ Hen))) as [H1 H2]. destruct (Hin en (or_intror Hen)) as [Hv [Hn _]].
    split; [exact H1|]. split; [exact H2|]. split; [apply valid_kvalid; exact Hv | apply nondegenerate_knondeg; exact Hn]. }
  assert (Hinit : forall k, kvalid (with_dim hfull dim 1) (init_k hfull h0 (lookup_e e0 k)) /\ knondeg (with_dim hfull dim 1) (init_k hfull h0 (lookup_e e0 k))).
  { intros k. apply (init_valid h0 hfull dim _ MF); [apply valid_kvalid; exact Hv0 | apply nondegenerate_knondeg; exact Hn0]. }
  apply (from_sequence_ext_ref qtok mk mkn en0 ens dim sd r oe rn Hfs).
  - intros en Hen. destruct (Hin en Hen) as [Hv [Hn Ht]]. destruct (valid_ext_ok (fst en) Hv Hn) as (A & B & C & D & E). repeat split; assumption.
  - exact Hmk.
  - exact Hoe.
  - exact Hmkn.
  - intros _. apply prod_list_pos. apply Forall_skipn. exact (proj1 (proj2 (mf_shape_wf _ _ _ _ MF))).
  - intros k. destruct (Hinit k) as [Hk Hn]. exact (proj1 (traj_of_valid h0 hfull dim _ MF _ 1 _ (le_n 1) (Hoth k) Hk Hn)).
  - intros k ks E. destruct (Hinit k) as [Hk Hn].
    destruct (proj2 (traj_of_valid h0 hfull dim _ MF _ 1 _ (le_n 1) (Hoth k) Hk Hn) ks E) as [Hk' Hn'].
    rewrite map_length in Hk', Hn'. change (1 + length ens) with (S (length ens)) in Hk', Hn'. rewrite (mf_last _ _ _ _ MF) in Hk', Hn'.
    exact (final_of_valid hfull ks (mf_shape_wf _ _ _ _ MF) Hk' Hn').
Qed.
