From Coq Require Import List Bool Arith NArith ZArith QArith Lia.
From DV Require Import Common.Res Common.Str Common.Jv Common.PyOps2 Common.PyOps2Dyn Generated.T_classes Generated.T_src_ext
     Generated.T_src_state Ext.Types Ext.Classes Ext.Seq Ext.SeqFacts Ext.Model Ext.TableFacts Ext.SrcEq Ext.SrcEqAlg Ext.SrcEqState
     Ext.SrcEqSubset Ext.SrcEqSample Ext.SrcEqGetSubset Ext.ProofsValidBase Link.Abs Link.ProofsTo Ext.SrcEqStateLink.
Import ListNotations.
Local Open Scope nat_scope.

(** * The extension level: the hand model's get_subset *)

Lemma make_empty_bases_ok (sh : list nat) (a : list (list Q)) (sd : option nat) (hr : hdr) :
  make_empty_hdr sh a sd = Ok hr -> bases_ok hr.
Proof.
  unfold make_empty_hdr. destruct (negb ((3 <=? length sh) && (length sh <? 6))) eqn:E1; [discriminate|].
  match goal with |- (if ?b then _ else _) = _ -> _ => destruct b end; [discriminate|].
  match goal with |- (if ?b then _ else _) = _ -> _ => destruct b end; [discriminate|]. intros H. injection H as <-.
  intros c Hv. unfold class_valid, valid_classes, ndim in Hv. cbn [shape] in Hv. unfold has_base. cbn [has_time has_vec].
  destruct sh as [|a1 [|a2 [|a3 [|a4 [|a5 [|a6 r]]]]]]; try discriminate E1; cbn [length nth] in *.
  - destruct c; try reflexivity; vm_compute in Hv; discriminate Hv.
  - destruct c; try reflexivity; vm_compute in Hv; discriminate Hv.
  - destruct (a4 =? 1) eqn:E4; destruct c; try reflexivity; vm_compute in Hv; discriminate Hv.
Qed.

Lemma mapM_unit_in {A} (f : A -> res unit) (l : list A) (out : list unit) (x : A) :
  mapM f l = Ok out -> In x l -> f x = Ok tt.
Proof.
  revert out. induction l as [|y r IH]; intros out H Hin; [destruct Hin|]. cbn [mapM] in H.
  destruct (f y) as [[]|] eqn:Ey; [|discriminate H]. destruct (mapM f r) as [ys|] eqn:Er; [|discriminate H].
  destruct Hin as [->|Hin]; [exact Ey | exact (IH ys eq_refl Hin)].
Qed.

Theorem get_subset_ext_ref (qtok : Q -> str) (mk : list nat -> option nat -> res jv) (e r : ext jv) (dim idx : nat) (o0 : obj) :
  NoDup (keys_e e) -> bases_ok (hdr_of e) ->
  get_subset jv_eqb JNull e dim idx = Ok r ->
  mk (shape (hdr_of r)) (sdim (hdr_of r)) = Ok (JObj o0) -> Holds o0 (hdr_of r) (fun _ => None) ->
  (forall c, class_valid (hdr_of e) c = true -> deg_ok (hdr_of e) (hdr_of r) dim c) ->
  (forall k c vs, lookup_e e k = Some (c, vs) -> class_valid (hdr_of e) c = true -> side (hdr_of e) (hdr_of r) dim idx c vs) ->
  subset_hdr (hdr_of e) dim = Ok (hdr_of r) /\
  exists o', get_subset_st mk classifications (shape (hdr_of e)) (sdim (hdr_of e)) (n_slices (hdr_of e)) tt tt preserving_changes
                           (okeys const_tests) (okeys repeat_tests) (to_content qtok e) dim idx = Ok (JObj o') /\
             Holds o' (hdr_of r) (lookup_e r).
Proof.
  intros Hnd Hbh Hg Hmk H0 Hdeg Hside. unfold get_subset in Hg.
  destruct (subset_hdr (hdr_of e) dim) as [hr|] eqn:Eh; [|discriminate Hg]. cbn [bind] in Hg.
  destruct (mapM (subset_prelude (hdr_of e) hr dim) (valid_classes (hdr_of e))) as [pl|] eqn:Ep; [|discriminate Hg]. cbn [bind] in Hg.
  destruct (map_keys _ _) as [ents|] eqn:Em; [|discriminate Hg]. cbn [bind] in Hg. injection Hg as <-. cbn [hdr_of] in *.
  split; [reflexivity|].
  assert (Hbr : bases_ok hr).
  { unfold subset_hdr in Eh. destruct (5 <=? dim); [discriminate Eh|]. destruct (negb _); [discriminate Eh|].
    destruct (set_nth dim 1 _); [|discriminate Eh]. exact (make_empty_bases_ok _ _ _ _ Eh). }
  rewrite (to_content_members qtok e).
  apply (get_subset_st_ref mk (hdr_of e) hr dim idx (to_members qtok e) o0 (lookup_e e) (lookup_e (mk_ext hr ents)) Eh
           (to_content_holds qtok e Hnd) Hbh Hbr Hmk H0); [| |exact Hdeg|exact Hside].
  - intros k. unfold lookup_e at 2. cbn [entries].
    destruct (map_keys_assoc _ _ _ k Em (dedup_keys_NoDup [] (keys_e e))) as [H1 H2].
    destruct (in_dec (fun a b => match str_eqb_spec a b with ReflectT _ p => left p | ReflectF _ p => right p end) k (dedup_keys [] (keys_e e))) as [Hin|Hni].
    + exact (H1 Hin).
    + rewrite (H2 Hni). assert (Hl : lookup_e e k = None).
      { unfold lookup_e. apply assoc_None. intros Hk. apply Hni. apply dedup_keys_nil_In. exact Hk. }
      rewrite Hl. reflexivity.
  - intros c Hv. apply (mapM_unit_in _ _ _ c Ep). apply mem_cls_In. exact Hv.
Qed.
