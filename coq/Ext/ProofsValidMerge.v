(** C07: [from_sequence] returns a valid, nondegenerate extension when all inputs are valid,
    nondegenerate and have the same shape and slice dimension (closure of validity under merges),
    and the shape book-keeping of the result. *)
From Coq Require Import List Bool Arith QArith Lia.
From DV Require Import Common.Res Common.Str Ext.Types Ext.Classes Ext.Seq Ext.Model Ext.Spec
     Ext.TableFacts Ext.ValidFacts Ext.ProofsValidBase Ext.ProofsValidSimplify Ext.ProofsValidInsert.
Import ListNotations.
Local Open Scope nat_scope.

(** * Geometry of a merge: the headers the accumulating result goes through *)

Record merge_facts (h0 hfull : hdr) (dim n : nat) : Prop := {
  mf_shape_wf : shape_wf hfull;
  mf_tight : flags_tight hfull;
  mf_sd : sdim hfull = sdim h0;
  mf_last : with_dim hfull dim n = hfull;
  mf_first_wf : shape_wf (with_dim hfull dim 1);
  mf_first_dims : dims (with_dim hfull dim 1) = dims h0;
  mf_first_cls : forall c, class_ok (shape h0) c = true -> class_ok (shape (with_dim hfull dim 1)) c = true;
  mf_step : forall j ho, 1 <= j -> shape ho = shape h0 -> sdim ho = sdim h0 ->
                         step_facts (with_dim hfull dim j) (with_dim hfull dim (S j)) ho dim }.

Definition res_sdim (slice_dim : option nat) (h0 : hdr) : option nat :=
  match slice_dim with Some d => Some d | None => sdim h0 end.

Lemma merge_hdr_inv h0 hrest dim affine slice_dim hfull :
  merge_hdr (h0 :: hrest) dim affine slice_dim = Ok hfull ->
  dim < 5 /\ (dim < length (shape h0) -> nth dim (shape h0) 0 = 1) /\
  (exists osh, set_nth dim (S (length hrest)) (pad_to (S dim) (shape h0)) = Some osh /\
               make_empty_hdr osh (match affine with Some a => a | None => aff h0 end) (res_sdim slice_dim h0) = Ok hfull) /\
  (forall c, class_ok (shape h0) c = true -> is_slices c = false -> has_base hfull (base_of c) = true).
Proof.
  unfold merge_hdr. intros H.
  destruct (5 <=? dim) eqn:E5; [discriminate|]. apply Nat.leb_gt in E5.
  destruct ((dim <? length (shape h0)) && negb (nth dim (shape h0) 0 =? 1)) eqn:Esing; [discriminate|].
  cbn [length map] in H.
  destruct (set_nth dim (S (length hrest)) (pad_to (S dim) (shape h0))) as [osh|] eqn:Eosh; [|discriminate].
  apply bind_ok in H as [hf [Hmk H]].
  destruct (negb (ndim_ok h0)); [discriminate|].
  destruct (forallb _ (valid_classes h0)) eqn:Efa; [|discriminate]. injection H as <-.
  split; [exact E5|]. split.
  - intros Hlt. apply andb_false_iff in Esing as [E|E].
    + apply Nat.ltb_ge in E. lia.
    + apply negb_false_iff, Nat.eqb_eq in E. exact E.
  - split; [exists osh; split; [reflexivity | exact Hmk]|].
    intros c Hc Hs. rewrite forallb_forall in Efa.
    assert (Hin : In c (valid_classes h0)) by (apply mem_cls_In; rewrite <- class_valid_ok in Hc; exact Hc).
    specialize (Efa c Hin). rewrite Hs in Efa. exact Efa.
Qed.

Ltac solve_shape_wf Hsdlt :=
  unfold shape_wf, ndim; cbn [shape sdim length];
  split; [lia|]; split; [repeat (apply Forall_cons; [lia|]); apply Forall_nil | try exact Hsdlt].

Ltac wd Hsh := unfold with_dim, with_shape; cbn [shape sdim aff has_time has_vec set_nth option_map]; rewrite ?Hsh.

Lemma merge_geometry h0 hrest dim affine slice_dim hfull :
  merge_hdr (h0 :: hrest) dim affine slice_dim = Ok hfull ->
  shape_wf h0 -> res_sdim slice_dim h0 = sdim h0 ->
  merge_facts h0 hfull dim (S (length hrest)).
Proof.
  intros H Hwf Hrs.
  destruct (merge_hdr_inv _ _ _ _ _ _ H) as [Hd5 [Hsing [[osh [Eosh Hmk]] Hbase]]].
  apply make_empty_hdr_ok in Hmk as [Hs [Hsd [_ [Hn [_ [_ Hfl]]]]]]. rewrite Hrs in Hsd.
  assert (Hcls : forall c, class_ok (shape h0) c = true -> is_slices c = false -> class_ok (shape hfull) c = true).
  { intros c Hc Hns. rewrite <- Hfl. apply Hbase; assumption. }
  clear Hbase H.
  set (n := S (length hrest)) in *. assert (Hn1 : 1 <= n) by (subst n; lia). clearbody n.
  pose proof (Hcls TSamples) as HclsT. pose proof (Hcls VSamples) as HclsV. clear Hcls.
  destruct hfull as [fsh fsd fa fht fhv]. cbn [shape sdim] in *. subst fsh fsd.
  assert (Hsdlt : forall d, sdim h0 = Some d -> d < 3) by apply Hwf.
  shape_cases h0 Hwf; rewrite Hsh in *; cbn [length] in Hsing.
  - (* 3-D inputs *)
    destruct dim as [|[|[|[|[|dim]]]]]; try lia; cbn [pad_to set_nth option_map] in Eosh; injection Eosh as <-;
      try (assert (Hone := Hsing ltac:(lia)); cbn [nth] in Hone; subst);
      cbn [set_nth option_map];
      (destruct (sdim h0) as [[|[|[|d]]]|] eqn:Ed; [| | | pose proof (Hsdlt _ eq_refl); lia |]);
      (constructor; wd Hsh;
       [ solve_shape_wf Hsdlt | exact Hfl | rewrite ?Ed; reflexivity | reflexivity | solve_shape_wf Hsdlt
       | unfold dims; cbn [shape sdim nth]; rewrite Hsh, ?Ed; reflexivity
       | intros c; destruct c; cbn [class_ok length base_of shape]; intros Hc; first [exact Hc | reflexivity | discriminate Hc]
       | intros j ho Hj Hsho Hsdo; rewrite ?Hsh in Hsho; rewrite ?Ed in Hsdo; destruct j as [|j]; [lia|];
         constructor; wd Hsh;
         [ solve_shape_wf Hsdlt | solve_shape_wf Hsdlt
         | unfold shape_wf, ndim; rewrite Hsho, Hsdo; cbn [length]; split; [lia|]; split; [repeat (apply Forall_cons; [lia|]); apply Forall_nil | exact Hsdlt]
         | exact Hsdo | reflexivity
         | intros c; rewrite Hsho; destruct c; cbn [class_ok length base_of shape nth Nat.eqb negb]; intros Hc; first [exact Hc | reflexivity | discriminate Hc]
         | intros c; destruct c; cbn [class_ok length base_of shape nth Nat.eqb negb]; intros Hc; first [exact Hc | reflexivity | discriminate Hc]
         | unfold dims; cbn [shape sdim nth]; do 3 eexists; split; [reflexivity|];
           unfold step_mode, dims, ndim; rewrite Hsho, Hsdo; cbn [shape sdim nth length odim_is Nat.eqb];
           first [ left; split; [reflexivity|]; split; [reflexivity|]; split; [f_equal; f_equal; lia|]; intros c; destruct c; reflexivity
                 | right; left; split; [reflexivity|]; split; [lia|]; split; [reflexivity|]; split; [reflexivity|]; intros c; destruct c; reflexivity
                 | right; right; left; split; [reflexivity|]; split; [reflexivity|]; split; [reflexivity|]; split; [f_equal; f_equal; lia|]; right; repeat split; lia
                 | right; right; right; split; [reflexivity|]; split; [reflexivity|]; split; [reflexivity|]; split; [f_equal; lia | reflexivity] ] ] ]).
  - (* 4-D inputs *)
    destruct dim as [|[|[|[|[|dim]]]]]; try lia; cbn [pad_to set_nth option_map] in Eosh; injection Eosh as <-;
      try (assert (Hone := Hsing ltac:(lia)); cbn [nth] in Hone; subst);
      cbn [set_nth option_map];
      cbn [class_ok length base_of nth] in HclsT; try (specialize (HclsT eq_refl eq_refl));
      (destruct (sdim h0) as [[|[|[|d]]]|] eqn:Ed; [| | | pose proof (Hsdlt _ eq_refl); lia |]);
      (constructor; wd Hsh;
       [ solve_shape_wf Hsdlt | exact Hfl | rewrite ?Ed; reflexivity | reflexivity | solve_shape_wf Hsdlt
       | unfold dims; cbn [shape sdim nth]; rewrite Hsh, ?Ed; reflexivity
       | intros c; destruct c; cbn [class_ok length base_of shape nth]; intros Hc; first [exact Hc | reflexivity | exact HclsT | discriminate Hc]
       | intros j ho Hj Hsho Hsdo; rewrite ?Hsh in Hsho; rewrite ?Ed in Hsdo; destruct j as [|j]; [lia|];
         constructor; wd Hsh;
         [ solve_shape_wf Hsdlt | solve_shape_wf Hsdlt
         | unfold shape_wf, ndim; rewrite Hsho, Hsdo; cbn [length]; split; [lia|]; split; [repeat (apply Forall_cons; [lia|]); apply Forall_nil | exact Hsdlt]
         | exact Hsdo | reflexivity
         | intros c; rewrite Hsho; destruct c; cbn [class_ok length base_of shape nth Nat.eqb negb]; intros Hc; first [exact Hc | reflexivity | exact HclsT | discriminate Hc]
         | intros c; destruct c; cbn [class_ok length base_of shape nth Nat.eqb negb]; intros Hc; first [exact Hc | reflexivity | discriminate Hc]
         | unfold dims; cbn [shape sdim nth]; do 3 eexists; split; [reflexivity|];
           unfold step_mode, dims, ndim; rewrite Hsho, Hsdo; cbn [shape sdim nth length odim_is Nat.eqb];
           first [ left; split; [reflexivity|]; split; [reflexivity|]; split; [f_equal; f_equal; lia|]; intros c; destruct c; reflexivity
                 | right; left; split; [reflexivity|]; split; [lia|]; split; [reflexivity|]; split; [reflexivity|]; intros c; destruct c; reflexivity
                 | right; right; left; split; [reflexivity|]; split; [reflexivity|]; split; [reflexivity|]; split; [f_equal; f_equal; lia|]; right; repeat split; lia
                 | right; right; right; split; [reflexivity|]; split; [reflexivity|]; split; [reflexivity|]; split; [f_equal; lia | reflexivity] ] ] ]).
  - (* 5-D inputs *)
    destruct dim as [|[|[|[|[|dim]]]]]; try lia; cbn [pad_to set_nth option_map] in Eosh; injection Eosh as <-;
      try (assert (Hone := Hsing ltac:(lia)); cbn [nth] in Hone; subst);
      cbn [set_nth option_map];
      (destruct (sdim h0) as [[|[|[|d]]]|] eqn:Ed; [| | | pose proof (Hsdlt _ eq_refl); lia |]);
      (constructor; wd Hsh;
       [ solve_shape_wf Hsdlt | exact Hfl | rewrite ?Ed; reflexivity | reflexivity | solve_shape_wf Hsdlt
       | unfold dims; cbn [shape sdim nth]; rewrite Hsh, ?Ed; reflexivity
       | intros c; destruct c; cbn [class_ok length base_of shape nth]; intros Hc; first [exact Hc | reflexivity | discriminate Hc]
       | intros j ho Hj Hsho Hsdo; rewrite ?Hsh in Hsho; rewrite ?Ed in Hsdo; destruct j as [|j]; [lia|];
         constructor; wd Hsh;
         [ solve_shape_wf Hsdlt | solve_shape_wf Hsdlt
         | unfold shape_wf, ndim; rewrite Hsho, Hsdo; cbn [length]; split; [lia|]; split; [repeat (apply Forall_cons; [lia|]); apply Forall_nil | exact Hsdlt]
         | exact Hsdo | reflexivity
         | intros c; rewrite Hsho; destruct c; cbn [class_ok length base_of shape nth Nat.eqb negb]; intros Hc; first [exact Hc | reflexivity | discriminate Hc]
         | intros c; destruct c; cbn [class_ok length base_of shape nth Nat.eqb negb]; intros Hc; first [exact Hc | reflexivity | discriminate Hc]
         | unfold dims; cbn [shape sdim nth]; do 3 eexists; split; [reflexivity|];
           unfold step_mode, dims, ndim; rewrite Hsho, Hsdo; cbn [shape sdim nth length odim_is Nat.eqb];
           first [ left; split; [reflexivity|]; split; [reflexivity|]; split; [f_equal; f_equal; lia|]; intros c; destruct c; reflexivity
                 | right; left; split; [reflexivity|]; split; [lia|]; split; [reflexivity|]; split; [reflexivity|]; intros c; destruct c; reflexivity
                 | right; right; left; split; [reflexivity|]; split; [reflexivity|]; split; [reflexivity|]; split; [f_equal; f_equal; lia|]; left; split; reflexivity
                 | right; right; right; split; [reflexivity|]; split; [reflexivity|]; split; [reflexivity|]; split; [f_equal; lia | reflexivity] ] ] ]).
Qed.
