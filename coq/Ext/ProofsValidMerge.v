(** C07: [from_sequence] returns a valid, nondegenerate extension when all inputs are valid,
    nondegenerate and have the same shape and slice dimension (closure of validity under merges),
    and the shape book-keeping of the result. *)
From Coq Require Import List Bool Arith QArith Lia.
From DV Require Import Common.Res Common.Str Ext.Types Ext.Classes Ext.Seq Ext.Model Ext.Spec
     Ext.TableFacts Ext.ValidFacts Ext.ProofsValidBase Ext.ProofsValidSimplify Ext.ProofsValidInsert.
Import ListNotations.
Local Open Scope nat_scope.

(** * Geometry of a merge: the headers the accumulating result goes through *)

Record merge_facts (h0 hfull : hdr) (dim n : nat) : Prop := {
  mf_shape_wf : shape_wf hfull;
  mf_tight : flags_tight hfull;
  mf_sd : sdim hfull = sdim h0;
  mf_last : with_dim hfull dim n = hfull;
  mf_first_wf : shape_wf (with_dim hfull dim 1);
  mf_first_dims : dims (with_dim hfull dim 1) = dims h0;
  mf_first_cls : forall c, class_ok (shape h0) c = true -> class_ok (shape (with_dim hfull dim 1)) c = true;
  mf_step : forall j ho, 1 <= j -> shape ho = shape h0 -> sdim ho = sdim h0 ->
                         step_facts (with_dim hfull dim j) (with_dim hfull dim (S j)) ho dim }.

Definition res_sdim (slice_dim : option nat) (h0 : hdr) : option nat :=
  match slice_dim with Some d => Some d | None => sdim h0 end.

Lemma merge_hdr_inv h0 hrest dim affine slice_dim hfull :
  merge_hdr (h0 :: hrest) dim affine slice_dim = Ok hfull ->
  dim < 5 /\ (dim < length (shape h0) -> nth dim (shape h0) 0 = 1) /\
  (exists osh, set_nth dim (S (length hrest)) (pad_to (S dim) (shape h0)) = Some osh /\
               make_empty_hdr osh (match affine with Some a => a | None => aff h0 end) (res_sdim slice_dim h0) = Ok hfull) /\
  (forall c, class_ok (shape h0) c = true -> is_slices c = false -> has_base hfull (base_of c) = true).
Proof.
  unfold merge_hdr. intros H.
  destruct (5 <=? dim) eqn:E5; [discriminate|]. apply Nat.leb_gt in E5.
  destruct ((dim <? length (shape h0)) && negb (nth dim (shape h0) 0 =? 1)) eqn:Esing; [discriminate|].
  cbn [length map] in H.
  destruct (set_nth dim (S (length hrest)) (pad_to (S dim) (shape h0))) as [osh|] eqn:Eosh; [|discriminate].
  apply bind_ok in H as [hf [Hmk H]].
  destruct (negb (ndim_ok h0)); [discriminate|].
  destruct (forallb _ (valid_classes h0)) eqn:Efa; [|discriminate]. injection H as <-.
  split; [exact E5|]. split.
  - intros Hlt. apply andb_false_iff in Esing as [E|E].
    + apply Nat.ltb_ge in E. lia.
    + apply negb_false_iff, Nat.eqb_eq in E. exact E.
  - split; [exists osh; split; [reflexivity | exact Hmk]|].
    intros c Hc Hs. rewrite forallb_forall in Efa.
    assert (Hin : In c (valid_classes h0)) by (apply mem_cls_In; rewrite <- class_valid_ok in Hc; exact Hc).
    specialize (Efa c Hin). rewrite Hs in Efa. exact Efa.
Qed.

Ltac solve_shape_wf Hsdlt :=
  unfold shape_wf, ndim; cbn [shape sdim length];
  split; [lia|]; split; [repeat (apply Forall_cons; [lia|]); apply Forall_nil | try exact Hsdlt].

Ltac wd Hsh := unfold with_dim, with_shape; cbn [shape sdim aff has_time has_vec set_nth option_map]; rewrite ?Hsh.

Lemma merge_geometry h0 hrest dim affine slice_dim hfull :
  merge_hdr (h0 :: hrest) dim affine slice_dim = Ok hfull ->
  shape_wf h0 -> res_sdim slice_dim h0 = sdim h0 ->
  merge_facts h0 hfull dim (S (length hrest)).
Proof.
  intros H Hwf Hrs.
  destruct (merge_hdr_inv _ _ _ _ _ _ H) as [Hd5 [Hsing [[osh [Eosh Hmk]] Hbase]]].
  apply make_empty_hdr_ok in Hmk as [Hs [Hsd [_ [Hn [_ [_ Hfl]]]]]]. rewrite Hrs in Hsd.
  assert (Hcls : forall c, class_ok (shape h0) c = true -> is_slices c = false -> class_ok (shape hfull) c = true).
  { intros c Hc Hns. rewrite <- Hfl. apply Hbase; assumption. }
  clear Hbase H.
  set (n := S (length hrest)) in *. assert (Hn1 : 1 <= n) by (subst n; lia). clearbody n.
  pose proof (Hcls TSamples) as HclsT. pose proof (Hcls VSamples) as HclsV. clear Hcls.
  destruct hfull as [fsh fsd fa fht fhv]. cbn [shape sdim] in *. subst fsh fsd.
  assert (Hsdlt : forall d, sdim h0 = Some d -> d < 3) by apply Hwf.
  shape_cases h0 Hwf; rewrite Hsh in *; cbn [length] in Hsing.
  - (* 3-D inputs *)
    destruct dim as [|[|[|[|[|dim]]]]]; try lia; cbn [pad_to set_nth option_map] in Eosh; injection Eosh as <-;
      try (assert (Hone := Hsing ltac:(lia)); cbn [nth] in Hone; subst);
      cbn [set_nth option_map];
      (destruct (sdim h0) as [[|[|[|d]]]|] eqn:Ed; [| | | pose proof (Hsdlt _ eq_refl); lia |]);
      (constructor; wd Hsh;
       [ solve_shape_wf Hsdlt | exact Hfl | rewrite ?Ed; reflexivity | reflexivity | solve_shape_wf Hsdlt
       | unfold dims; cbn [shape sdim nth]; rewrite Hsh, ?Ed; reflexivity
       | intros c; destruct c; cbn [class_ok length base_of shape]; intros Hc; first [exact Hc | reflexivity | discriminate Hc]
       | intros j ho Hj Hsho Hsdo; rewrite ?Hsh in Hsho; rewrite ?Ed in Hsdo; destruct j as [|j]; [lia|];
         constructor; wd Hsh;
         [ solve_shape_wf Hsdlt | solve_shape_wf Hsdlt
         | unfold shape_wf, ndim; rewrite Hsho, Hsdo; cbn [length]; split; [lia|]; split; [repeat (apply Forall_cons; [lia|]); apply Forall_nil | exact Hsdlt]
         | exact Hsdo | reflexivity
         | intros c; rewrite Hsho; destruct c; cbn [class_ok length base_of shape nth Nat.eqb negb]; intros Hc; first [exact Hc | reflexivity | discriminate Hc]
         | intros c; destruct c; cbn [class_ok length base_of shape nth Nat.eqb negb]; intros Hc; first [exact Hc | reflexivity | discriminate Hc]
         | unfold dims; cbn [shape sdim nth]; do 3 eexists; split; [reflexivity|];
           unfold step_mode, dims, ndim; rewrite Hsho, Hsdo; cbn [shape sdim nth length odim_is Nat.eqb];
           first [ left; split; [reflexivity|]; split; [reflexivity|]; split; [f_equal; f_equal; lia|]; intros c; destruct c; reflexivity
                 | right; left; split; [reflexivity|]; split; [lia|]; split; [reflexivity|]; split; [reflexivity|]; intros c; destruct c; reflexivity
                 | right; right; left; split; [reflexivity|]; split; [reflexivity|]; split; [reflexivity|]; split; [f_equal; f_equal; lia|]; right; repeat split; lia
                 | right; right; right; split; [reflexivity|]; split; [reflexivity|]; split; [reflexivity|]; split; [f_equal; lia | reflexivity] ] ] ]).
  - (* 4-D inputs *)
    destruct dim as [|[|[|[|[|dim]]]]]; try lia; cbn [pad_to set_nth option_map] in Eosh; injection Eosh as <-;
      try (assert (Hone := Hsing ltac:(lia)); cbn [nth] in Hone; subst);
      cbn [set_nth option_map];
      cbn [class_ok length base_of nth] in HclsT; try (specialize (HclsT eq_refl eq_refl));
      (destruct (sdim h0) as [[|[|[|d]]]|] eqn:Ed; [| | | pose proof (Hsdlt _ eq_refl); lia |]);
      (constructor; wd Hsh;
       [ solve_shape_wf Hsdlt | exact Hfl | rewrite ?Ed; reflexivity | reflexivity | solve_shape_wf Hsdlt
       | unfold dims; cbn [shape sdim nth]; rewrite Hsh, ?Ed; reflexivity
       | intros c; destruct c; cbn [class_ok length base_of shape nth]; intros Hc; first [exact Hc | reflexivity | exact HclsT | discriminate Hc]
       | intros j ho Hj Hsho Hsdo; rewrite ?Hsh in Hsho; rewrite ?Ed in Hsdo; destruct j as [|j]; [lia|];
         constructor; wd Hsh;
         [ solve_shape_wf Hsdlt | solve_shape_wf Hsdlt
         | unfold shape_wf, ndim; rewrite Hsho, Hsdo; cbn [length]; split; [lia|]; split; [repeat (apply Forall_cons; [lia|]); apply Forall_nil | exact Hsdlt]
         | exact Hsdo | reflexivity
         | intros c; rewrite Hsho; destruct c; cbn [class_ok length base_of shape nth Nat.eqb negb]; intros Hc; first [exact Hc | reflexivity | exact HclsT | discriminate Hc]
         | intros c; destruct c; cbn [class_ok length base_of shape nth Nat.eqb negb]; intros Hc; first [exact Hc | reflexivity | discriminate Hc]
         | unfold dims; cbn [shape sdim nth]; do 3 eexists; split; [reflexivity|];
           unfold step_mode, dims, ndim; rewrite Hsho, Hsdo; cbn [shape sdim nth length odim_is Nat.eqb];
           first [ left; split; [reflexivity|]; split; [reflexivity|]; split; [f_equal; f_equal; lia|]; intros c; destruct c; reflexivity
                 | right; left; split; [reflexivity|]; split; [lia|]; split; [reflexivity|]; split; [reflexivity|]; intros c; destruct c; reflexivity
                 | right; right; left; split; [reflexivity|]; split; [reflexivity|]; split; [reflexivity|]; split; [f_equal; f_equal; lia|]; right; repeat split; lia
                 | right; right; right; split; [reflexivity|]; split; [reflexivity|]; split; [reflexivity|]; split; [f_equal; lia | reflexivity] ] ] ]).
  - (* 5-D inputs *)
    destruct dim as [|[|[|[|[|dim]]]]]; try lia; cbn [pad_to set_nth option_map] in Eosh; injection Eosh as <-;
      try (assert (Hone := Hsing ltac:(lia)); cbn [nth] in Hone; subst);
      cbn [set_nth option_map];
      (destruct (sdim h0) as [[|[|[|d]]]|] eqn:Ed; [| | | pose proof (Hsdlt _ eq_refl); lia |]);
      (constructor; wd Hsh;
       [ solve_shape_wf Hsdlt | exact Hfl | rewrite ?Ed; reflexivity | reflexivity | solve_shape_wf Hsdlt
       | unfold dims; cbn [shape sdim nth]; rewrite Hsh, ?Ed; reflexivity
       | intros c; destruct c; cbn [class_ok length base_of shape nth]; intros Hc; first [exact Hc | reflexivity | discriminate Hc]
       | intros j ho Hj Hsho Hsdo; rewrite ?Hsh in Hsho; rewrite ?Ed in Hsdo; destruct j as [|j]; [lia|];
         constructor; wd Hsh;
         [ solve_shape_wf Hsdlt | solve_shape_wf Hsdlt
         | unfold shape_wf, ndim; rewrite Hsho, Hsdo; cbn [length]; split; [lia|]; split; [repeat (apply Forall_cons; [lia|]); apply Forall_nil | exact Hsdlt]
         | exact Hsdo | reflexivity
         | intros c; rewrite Hsho; destruct c; cbn [class_ok length base_of shape nth Nat.eqb negb]; intros Hc; first [exact Hc | reflexivity | discriminate Hc]
         | intros c; destruct c; cbn [class_ok length base_of shape nth Nat.eqb negb]; intros Hc; first [exact Hc | reflexivity | discriminate Hc]
         | unfold dims; cbn [shape sdim nth]; do 3 eexists; split; [reflexivity|];
           unfold step_mode, dims, ndim; rewrite Hsho, Hsdo; cbn [shape sdim nth length odim_is Nat.eqb];
           first [ left; split; [reflexivity|]; split; [reflexivity|]; split; [f_equal; f_equal; lia|]; intros c; destruct c; reflexivity
                 | right; left; split; [reflexivity|]; split; [lia|]; split; [reflexivity|]; split; [reflexivity|]; intros c; destruct c; reflexivity
                 | right; right; left; split; [reflexivity|]; split; [reflexivity|]; split; [reflexivity|]; split; [f_equal; f_equal; lia|]; left; split; reflexivity
                 | right; right; right; split; [reflexivity|]; split; [reflexivity|]; split; [reflexivity|]; split; [f_equal; lia | reflexivity] ] ] ]).
Qed.

Lemma with_dim_sdim h dim j : sdim (with_dim h dim j) = sdim h.
Proof. unfold with_dim, with_shape. destruct (set_nth dim j (shape h)); reflexivity. Qed.

Section WithV.
  Context {V : Type} (veqb : V -> V -> bool) (vnone : V).
  Hypothesis veqb_refl : forall v, veqb v v = true.

  Notation kst := (kst V).
  Notation ext := (ext V).
  Notation kvalid := (@kvalid V).
  Notation knondeg := (@knondeg V).
  Notation knd := (@knd V).

  (** every other input has the shape and slice dimension of the first, and a valid nondegenerate state for the key *)
  Definition others_ok (h0 : hdr) (others : list (hdr * kst)) : Prop :=
    forall ho ko, In (ho, ko) others ->
      shape ho = shape h0 /\ sdim ho = sdim h0 /\ kvalid ho ko /\ knondeg ho ko.

  Lemma insert_all_k_inv h0 hfull dim n : merge_facts h0 hfull dim n ->
    forall others j ks r, 1 <= j -> others_ok h0 others ->
      kvalid (with_dim hfull dim j) ks -> knd (with_dim hfull dim j) ks ->
      insert_all_k veqb vnone hfull dim j others ks = Ok r ->
      kvalid (with_dim hfull dim (j + length others)) r /\ knd (with_dim hfull dim (j + length others)) r.
  Proof.
    intros MF. induction others as [|[ho ko] rest IH]; intros j ks r Hj Hoth Hk Hn H; cbn [insert_all_k] in H.
    - injection H as <-. cbn [length]. rewrite Nat.add_0_r. split; assumption.
    - apply bind_ok in H as [ks' [Hins H]].
      destruct (Hoth ho ko (or_introl eq_refl)) as [Hsh [Hsd [Hko Hndo]]].
      pose proof (mf_step _ _ _ _ MF j ho Hj Hsh Hsd) as SF.
      destruct (insert_k_inv veqb vnone _ _ _ _ SF ks ko ks' Hk Hn Hko Hndo Hins) as [Hk' Hn'].
      cbn [length]. replace (j + S (length rest)) with (S j + length rest) by lia.
      apply (IH (S j) ks' r); [lia | intros ho' ko' Hin; apply Hoth; right; exact Hin | exact Hk' | exact Hn' | exact H].
  Qed.

  (** the whole merge for one key *)
  Lemma merge_k_valid h0 hfull dim (k0 : kst) (others : list (hdr * kst)) r :
    merge_facts h0 hfull dim (S (length others)) ->
    kvalid h0 k0 -> knondeg h0 k0 -> others_ok h0 others ->
    merge_k veqb vnone hfull dim ((h0, k0) :: others) = Ok r -> kvalid hfull r /\ knondeg hfull r.
  Proof.
    intros MF Hk0 Hn0 Hoth H. cbn [merge_k] in H. apply bind_ok in H as [ks [Hall H]].
    assert (Hinit : kvalid (with_dim hfull dim 1) (init_k hfull h0 k0) /\ knd (with_dim hfull dim 1) (init_k hfull h0 k0)).
    { unfold init_k. destruct k0 as [[c vs]|]; [|split; exact I]. rewrite (visible_kvalid _ _ _ Hk0).
      destruct (is_slices c && negb (use_slices hfull h0)); [split; exact I|].
      destruct Hk0 as [Hok [Hs Hl]]. split.
      - split; [apply (mf_first_cls _ _ _ _ MF); exact Hok|].
        split; [rewrite with_dim_sdim, (mf_sd _ _ _ _ MF); exact Hs | rewrite (mf_first_dims _ _ _ _ MF); exact Hl].
      - cbn [ProofsValidInsert.knd]. rewrite (mf_first_dims _ _ _ _ MF). intros Hc _. apply Hn0. exact Hc. }
    destruct Hinit as [Hki Hni].
    destruct (insert_all_k_inv h0 hfull dim _ MF others 1 _ ks (le_n 1) Hoth Hki Hni Hall) as [Hk Hn].
    replace (1 + length others) with (S (length others)) in Hk, Hn by lia.
    rewrite (mf_last _ _ _ _ MF) in Hk, Hn.
    assert (Hvis : visible hfull ks = ks).
    { destruct ks as [[c vs]|]; [apply visible_kvalid; exact Hk | reflexivity]. }
    rewrite Hvis in H.
    assert (Hplain : r = ks -> (forall vs, ks <> Some (GSlices, vs)) -> kvalid hfull r /\ knondeg hfull r).
    { intros -> Hng. split; [exact Hk|]. destruct ks as [[c vs]|]; [|exact I].
      cbn [ProofsValidBase.knondeg]. intros Hc. apply Hn; [exact Hc|]. intros ->. apply (Hng vs). reflexivity. }
    destruct ks as [[c vs]|]; [|apply Hplain; [injection H as <-; reflexivity | discriminate]].
    destruct c; try (apply Hplain; [injection H as <-; reflexivity | intros vs' Hx; discriminate Hx]).
    apply (simplify_k_valid veqb vnone veqb_refl hfull _ r (mf_shape_wf _ _ _ _ MF) (mf_tight _ _ _ _ MF) Hk); [|exact H].
    intros c0 vs0 Heq. injection Heq as <- <-. intros Hx. discriminate Hx.
  Qed.

  (** * The whole extension *)

  (** merge domain: all inputs have the shape and the slice dimension of the first one, and the
      [slice_dim] argument (when given) is that slice dimension *)
  Definition merge_dom (es : list ext) (slice_dim : option nat) : Prop :=
    match es with
    | [] => False
    | e0 :: _ =>
        res_sdim slice_dim (hdr_of e0) = sdim (hdr_of e0) /\
        forall e, In e es -> shape (hdr_of e) = shape (hdr_of e0) /\ sdim (hdr_of e) = sdim (hdr_of e0)
    end.

  Theorem from_sequence_valid (es : list ext) dim affine slice_dim (r : ext) :
    (forall e, In e es -> valid e /\ nondegenerate e) -> merge_dom es slice_dim ->
    from_sequence veqb vnone es dim affine slice_dim = Ok r -> valid r /\ nondegenerate r.
  Proof.
    intros Hall Hdom H. destruct es as [|e0 rest]; [destruct Hdom|]. destruct Hdom as [Hrs Hgeo].
    unfold from_sequence in H. apply bind_ok in H as [hfull [Hh H]]. apply bind_ok in H as [ents [Hents H]].
    injection H as <-. cbn [map] in Hh.
    pose proof (hdr_wf_shape_wf _ (proj1 (proj1 (Hall e0 (or_introl eq_refl))))) as Hwf0.
    pose proof (merge_geometry _ _ _ _ _ _ Hh Hwf0 Hrs) as MF. rewrite map_length in MF.
    assert (Hk : forall k x, In (k, x) ents -> kvalid hfull (Some x) /\ knondeg hfull (Some x)).
    { intros k x Hin. destruct (map_keys_In _ _ _ _ _ Hents Hin) as [_ Hf]. cbn [map] in Hf.
      apply (merge_k_valid (hdr_of e0) hfull dim (lookup_e e0 k) (map (fun e : ext => (hdr_of e, lookup_e e k)) rest) (Some x)); [| | | |exact Hf].
      - rewrite map_length. exact MF.
      - apply valid_kvalid. apply (Hall e0). left; reflexivity.
      - apply nondegenerate_knondeg. apply (Hall e0). left; reflexivity.
      - intros ho ko Hin'. apply in_map_iff in Hin' as [e [Heq He]]. injection Heq as <- <-.
        destruct (Hgeo e (or_intror He)) as [H1 H2]. destruct (Hall e (or_intror He)) as [Hv Hn].
        split; [exact H1|]. split; [exact H2|]. split; [apply valid_kvalid; exact Hv | apply nondegenerate_knondeg; exact Hn]. }
    split.
    - apply valid_of_kvalid; cbn [hdr_of entries keys_e].
      + destruct (merge_hdr_inv _ _ _ _ _ _ Hh) as [_ [_ [[osh [_ Hmk]] _]]].
        apply (make_empty_hdr_wf _ _ _ _ Hmk).
        apply make_empty_hdr_ok in Hmk as [Hs _]. rewrite <- Hs. apply (mf_shape_wf _ _ _ _ MF).
      + apply (map_keys_NoDup _ _ _ Hents). apply dedup_keys_NoDup.
      + intros k x Hin. apply (Hk k x Hin).
    - apply nondegenerate_of_knondeg. cbn [hdr_of entries]. intros k x Hin. apply (Hk k x Hin).
  Qed.

  (** shape book-keeping of a merge (no validity hypotheses needed) *)
  Theorem from_sequence_shape (e0 : ext) (rest : list ext) dim affine slice_dim (r : ext) :
    from_sequence veqb vnone (e0 :: rest) dim affine slice_dim = Ok r ->
    set_nth dim (S (length rest)) (pad_to (S dim) (shape (hdr_of e0))) = Some (shape (hdr_of r)) /\
    sdim (hdr_of r) = match slice_dim with Some d => Some d | None => sdim (hdr_of e0) end /\
    aff (hdr_of r) = match affine with Some a => a | None => aff (hdr_of e0) end.
  Proof.
    intros H. unfold from_sequence in H. apply bind_ok in H as [hfull [Hh H]]. apply bind_ok in H as [ents [_ H]].
    injection H as <-. cbn [hdr_of map] in *.
    destruct (merge_hdr_inv _ _ _ _ _ _ Hh) as [_ [_ [[osh [Eosh Hmk]] _]]]. rewrite map_length in Eosh.
    apply make_empty_hdr_ok in Hmk as [Hs [Hsd [Ha _]]]. rewrite Hs. repeat split; assumption.
  Qed.
End WithV.
