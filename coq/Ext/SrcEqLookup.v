(** The hand-written models of the lookups of NiftiWrapper (Ext/Model.v: [meta_valid], [get_meta], [getitem])
    are EQUAL, for all inputs, to the definitions GENERATED from the current Python sources
    (coq/Generated/T_src_lookup.v, produced on every run by tools/tables/t_src_lookup.py + py2coq.py).

    Everything the Python methods read from the wrapped image and from the extension is a parameter of the
    translation.  The model's records provide them as follows ([im : img], [h = hdr_of e : hdr], [e : ext V]):

      self.nii_img.shape                   ishape im
      <header>.get_dim_info()[2]           islice im
      <header>.get_n_slices()              [img_n_slices_of im]  = nth d (ishape im) 0  for islice im = Some d
      self.nii_img.affine[d, :3]           [img_row3_of im d]    = firstn 3 (nth d (iaff im) [])
      self.meta_ext.shape / slice_dim      shape h / sdim h
      self.meta_ext.n_slices               n_slices h            (Types.v; SRC_n_slices relates it to the property)
      self.meta_ext.slice_normal           [meta_normal_of h]    = the value of Model.slice_normal h (read only when sdim h <> None)
      self.meta_ext.get_values_and_class(k)  [values_and_class_of e default k]: from [visible h (lookup_e e k)]
                                           absent -> (_, None); ('global','const') -> the head of the singleton list;
                                           any other class c -> ([vlist vs], Some (name_of_cls c))
      self.meta_ext.get_class_dict(('global','const'))   [gconst_dict e]: the keys the model sees in GConst
      np.allclose(a, b, atol=1e-6)         Seq.allclose rtol_default (1 # 1000000) a b  (= meta_valid_atol)

    Values: the Python values of a non-constant key are a list; the translation indexes a VALUE ([vindex]), the
    model a [list V].  The two are tied by an embedding [vlist : list V -> V] with
    [vindex (vlist l) (BPos n) = nth_res l n] (for V = jv: JArr and array indexing). *)
From Coq Require Import List Bool Arith NArith ZArith QArith Lia.
From DV Require Import Common.Res Common.Str Common.PyOps2 Generated.T_classes Generated.T_ext_tol Generated.T_src_lookup
     Ext.Types Ext.Classes Ext.Seq Ext.Model Ext.SrcEq.
Import ListNotations.
Local Open Scope nat_scope.

(** * How the model provides the external reads *)

Definition img_n_slices_of (im : img) : nat :=
  match islice im with Some d => nth d (ishape im) 0 | None => 0 end.
Definition img_row3_of (im : img) (d : nat) : list Q := firstn 3 (nth d (iaff im) []).
Definition meta_normal_of (h : hdr) : list Q := match slice_normal h with Some v => v | None => [] end.

(** * meta_valid *)

Lemma py_list_eqb_nat (a b : list nat) : py_list_eqb Nat.eqb a b = list_nat_eqb a b.
Proof.
  unfold py_list_eqb. revert b. induction a as [|x xs IH]; intros [|y ys]; try reflexivity.
  cbn [length Nat.eqb combine forallb list_nat_eqb fst snd]. rewrite <- IH.
  destruct (x =? y); [rewrite andb_true_l|rewrite andb_false_l, andb_false_r]; reflexivity.
Qed.

Theorem meta_valid_src_eq (im : img) (h : hdr) (c : cls) :
  meta_valid_src (ishape im) (shape h) (islice im) (sdim h) (img_n_slices_of im) (n_slices h)
                 (img_row3_of im) (meta_normal_of h) (name_of_cls c) = Ok (meta_valid im h c).
Proof.
  unfold meta_valid_src, meta_valid, img_n_slices_of, img_row3_of, meta_normal_of, slice_normal, n_slices, meta_valid_atol.
  rewrite !pslice_from, !pslice_pos, !py_list_eqb_nat. unfold py_slice.
  destruct c;
    cbn [py_pair_eqb name_of_cls base_of sub_of name_of_base name_of_sub s_global s_time s_vector s_const s_slices
         s_samples fst snd str_eqb N.eqb Pos.eqb andb];
    try reflexivity.
  all: destruct (islice im) as [isd|]; [|reflexivity].
  all: destruct (sdim h) as [msd|]; [|reflexivity].
  all: cbn [py_option_eqb]; destruct (nth msd (shape h) 0 =? nth isd (ishape im) 0); reflexivity.
Qed.

(** * __getitem__ *)

Section WithV.
  Context {V : Type}.

  (** the ('global','const') dictionary as the model sees it: one entry per key whose state is a constant *)
  Definition gconst_of (e : ext V) (k : key) : option V :=
    match lookup_e e k with Some (GConst, v :: _) => Some v | _ => None end.
  Definition gconst_dict (e : ext V) : list (key * V) :=
    flat_map (fun k => match gconst_of e k with Some v => [(k, v)] | None => [] end) (dedup_keys [] (keys_e e)).
  Definition class_dict_of (e : ext V) (n : cname) : list (key * V) :=
    if py_pair_eqb str_eqb str_eqb n (name_of_cls GConst) then gconst_dict e else [].

  Lemma dict_get_flat_map (g : key -> option V) (keys : list key) (k : key) :
    py_dict_get str_eqb (flat_map (fun k' => match g k' with Some v => [(k', v)] | None => [] end) keys) k =
    if mem_key k keys then match g k with Some v => Ok v | None => Err EKey end else Err EKey.
  Proof.
    induction keys as [|k' r IH]; [reflexivity|].
    cbn [flat_map mem_key existsb]. fold (mem_key k r). unfold key_eqb.
    destruct (g k') as [v|] eqn:Eg.
    - cbn [app py_dict_get]. destruct (str_eqb k k') eqn:E.
      + apply str_eqb_eq in E. subst k'. rewrite Eg. reflexivity.
      + rewrite IH. reflexivity.
    - cbn [app]. rewrite IH. destruct (str_eqb k k') eqn:E; [|reflexivity].
      apply str_eqb_eq in E. subst k'. rewrite Eg. destruct (mem_key k r); reflexivity.
  Qed.

  Lemma mem_key_dedup (k : key) (l : list key) : forall seen,
    mem_key k (dedup_keys seen l) = mem_key k l && negb (mem_key k seen).
  Proof.
    induction l as [|k0 r IH]; intros seen; [reflexivity|].
    cbn [dedup_keys]. destruct (mem_key k0 seen) eqn:Es.
    - rewrite IH. cbn [mem_key existsb]. fold (mem_key k r). unfold key_eqb.
      destruct (str_eqb k k0) eqn:E; [|reflexivity].
      apply str_eqb_eq in E. subst k0. rewrite Es. cbn [negb]. rewrite !andb_false_r. reflexivity.
    - cbn [mem_key existsb]. fold (mem_key k r) (mem_key k (dedup_keys (k0 :: seen) r)). rewrite IH.
      cbn [mem_key existsb]. fold (mem_key k seen). unfold key_eqb.
      destruct (str_eqb k k0) eqn:E.
      + apply str_eqb_eq in E. subst k0. rewrite Es. reflexivity.
      + reflexivity.
  Qed.

  Lemma assoc_mem_key (k : key) (l : list (key * (cls * list V))) x : assoc k l = Some x -> mem_key k (map fst l) = true.
  Proof.
    induction l as [|[k' y] r IH]; intros H; [discriminate H|].
    cbn [assoc] in H. cbn [map fst mem_key existsb]. destruct (key_eqb k k'); [reflexivity|]. apply IH. exact H.
  Qed.

  Theorem getitem_src_eq (e : ext V) (k : key) : getitem_src (class_dict_of e) k = getitem e k.
  Proof.
    unfold getitem_src, class_dict_of.
    change (py_pair_eqb str_eqb str_eqb _ (name_of_cls GConst)) with true. cbn iota.
    unfold gconst_dict. rewrite dict_get_flat_map, mem_key_dedup. cbn [mem_key existsb negb]. rewrite andb_true_r.
    unfold getitem, gconst_of, keys_e, lookup_e.
    destruct (assoc k (entries e)) as [[c vs]|] eqn:Ea.
    - rewrite (assoc_mem_key _ _ _ Ea). destruct c, vs; reflexivity.
    - destruct (mem_key k (map fst (entries e))); reflexivity.
  Qed.

  (** * get_meta *)

  Variable vindex : V -> bnd -> res V.
  Variable vlist : list V -> V.
  Hypothesis vindex_vlist : forall (l : list V) (n : nat), vindex (vlist l) (BPos n) = nth_res l n.

  Definition values_and_class_of (e : ext V) (default : V) (k : key) : V * option cname :=
    match visible (hdr_of e) (lookup_e e k) with
    | None => (default, None)
    | Some (c, vs) => (if cls_eqb c GConst then List.hd default vs else vlist vs, Some (name_of_cls c))
    end.

  Lemma vindex_nonneg (vs : list V) (z : Z) : (0 <= z)%Z -> vindex (vlist vs) (bnd_of_Z z) = nth_res vs (Z.to_nat z).
  Proof. intros H. unfold bnd_of_Z. apply Z.leb_le in H. rewrite H. apply vindex_vlist. Qed.

  Lemma bind_ret {A} (r : res A) : bind r (fun t => Ok t) = r.
  Proof. destruct r; reflexivity. Qed.

  Lemma py_index_Z (ix : list Z) (j : nat) :
    py_index ix (BPos j) = match nth_error ix j with Some z => Ok z | None => Err EIndex end.
  Proof. reflexivity. Qed.

  Lemma nth_res_map (ix : list Z) (j : nat) :
    nth_res (map Z.to_nat ix) j = match nth_error ix j with Some z => Ok (Z.to_nat z) | None => Err EIndex end.
  Proof. unfold nth_res. rewrite nth_error_map. destruct (nth_error ix j); reflexivity. Qed.

  Lemma py_index_nat (sh : list nat) (j : nat) : py_index sh (BPos j) = nth_res sh j.
  Proof. reflexivity. Qed.

  (** a loop that only checks *)
  Lemma py_for_check {A R} (l : list A) (body : A -> unit -> res (ctl R unit)) (g : A -> bool) (er : err) :
    (forall x, In x l -> body x tt = if g x then Ok (Next tt) else Err er) ->
    py_for l tt body = if forallb g l then Ok (Next tt) else Err er.
  Proof.
    induction l as [|x r IH]; intros H; [reflexivity|].
    cbn [py_for forallb]. rewrite (H x (or_introl eq_refl)).
    destruct (g x); [|reflexivity]. cbn [bind andb]. apply IH. intros y Hy. apply H. right. exact Hy.
  Qed.

  Definition inb (sh : list nat) (p : nat * Z) : bool :=
    (0 <=? snd p)%Z && (snd p <? Z.of_nat (nth (fst p) sh 0%nat))%Z.

  Lemma inb_enumerate (ix : list Z) : forall (ss pre : list nat), length ix = length ss ->
    forallb (inb (pre ++ ss)) (combine (seq (length pre) (length ix)) ix) = index_in_bounds ix ss.
  Proof.
    induction ix as [|z zs IH]; intros ss pre Hl; [reflexivity|].
    destruct ss as [|s ss']; [discriminate Hl|].
    cbn [length seq combine forallb index_in_bounds fst snd]. unfold index_in_bounds in IH.
    unfold inb at 1. cbn [fst snd]. rewrite nth_middle. f_equal.
    specialize (IH ss' (pre ++ [s])). rewrite <- app_assoc in IH. cbn [app] in IH.
    rewrite app_length in IH. cbn [length] in IH. rewrite Nat.add_1_r in IH.
    apply IH. cbn [length] in Hl. lia.
  Qed.

  Lemma in_combine_seq {A} (l : list A) (a d : nat) (x : A) : In (d, x) (combine (seq a (length l)) l) -> a <= d < a + length l.
  Proof.
    revert a. induction l as [|y r IH]; intros a H; [destruct H|].
    cbn [length seq combine] in H. destruct H as [H|H].
    - injection H as <- _. cbn [length]. lia.
    - apply IH in H. cbn [length]. lia.
  Qed.

  Lemma inb_nonneg (ix : list Z) : forall (sh : list nat) (j : nat) (z : Z),
    length ix = length sh -> index_in_bounds ix sh = true -> nth_error ix j = Some z -> (0 <= z)%Z.
  Proof.
    unfold index_in_bounds. induction ix as [|y r IH]; intros sh j z Hl Hb Hn; [destruct j; discriminate Hn|].
    destruct sh as [|s sh']; [discriminate Hl|].
    cbn [combine forallb fst snd] in Hb. apply andb_true_iff in Hb. destruct Hb as [H1 H2].
    destruct j as [|j].
    - injection Hn as <-. apply andb_true_iff in H1. destruct H1 as [H1 _]. apply Z.leb_le. exact H1.
    - apply (IH sh' j z); [cbn [length] in Hl; lia | exact H2 | exact Hn].
  Qed.

  Lemma inb_Forall (ix : list Z) (sh : list nat) :
    length ix = length sh -> index_in_bounds ix sh = true -> Forall (fun z => (0 <= z)%Z) ix.
  Proof.
    intros Hl Hb. apply Forall_forall. intros z Hz. apply In_nth_error in Hz. destruct Hz as [j Hj].
    exact (inb_nonneg ix sh j z Hl Hb Hj).
  Qed.

  Lemma Forall_skipn {A} (P : A -> Prop) (n : nat) (l : list A) : Forall P l -> Forall P (skipn n l).
  Proof.
    revert l. induction n as [|n IH]; intros l H; [exact H|].
    destruct l as [|x r]; [exact H|]. cbn [skipn]. apply IH. inversion H; assumption.
  Qed.

  Definition gs_step (acc : nat * nat) (p : nat * nat) : nat * nat := (fst acc + fst p * snd acc, snd acc * snd p).

  (** the loop of the ('global','slices') branch *)
  Lemma gs_loop (zs : list Z) : forall (a : nat) (v : Z) (n : nat) (sh : list nat)
      (body : nat * Z -> Z * nat -> res (ctl V (Z * nat))),
    length zs = length (skipn (a + 3) sh) -> Forall (fun z => (0 <= z)%Z) zs -> (0 <= v)%Z ->
    (forall count z v' n', body (count, z) (v', n') =
       bind (py_index sh (BPos (count + 3))) (fun t => Ok (Next ((v' + z * Z.of_nat n')%Z, n' * t)))) ->
    exists v' n', py_for (combine (seq a (length zs)) zs) (v, n) body = Ok (Next (v', n')) /\ (0 <= v')%Z /\
      Z.to_nat v' = fst (fold_left gs_step (combine (map Z.to_nat zs) (skipn (a + 3) sh)) (Z.to_nat v, n)).
  Proof.
    induction zs as [|z zs' IH]; intros a v n sh body Hl Hz Hv Hb.
    - exists v, n. cbn. auto.
    - destruct (skipn (a + 3) sh) as [|s ss'] eqn:Hs; [discriminate Hl|].
      cbn [length seq combine py_for map fold_left]. rewrite Hb.
      unfold py_index. rewrite (skipn_cons_nth_error _ _ _ _ Hs). cbn [bind].
      inversion Hz as [|? ? Hz0 Hz']; subst.
      assert (Hs' : skipn (S a + 3) sh = ss').
      { change (S a + 3) with (S (a + 3)). rewrite <- (Nat.add_1_r (a + 3)).
        rewrite <- Ext.SeqFacts.skipn_skipn'. rewrite Hs. reflexivity. }
      destruct (IH (S a) (v + z * Z.of_nat n)%Z (n * s) sh body) as [v' [n' [H1 [H2 H3]]]].
      + rewrite Hs'. cbn [length] in Hl. lia.
      + exact Hz'.
      + nia.
      + exact Hb.
      + exists v', n'. split; [exact H1|]. split; [exact H2|].
        rewrite H3, Hs'. f_equal. f_equal. unfold gs_step. cbn [fst snd]. f_equal.
        rewrite Z2Nat.inj_add by nia. rewrite Z2Nat.inj_mul by lia. rewrite Nat2Z.id. reflexivity.
  Qed.

  Theorem get_meta_src_eq (im : img) (e : ext V) (k : key) (index : option (list Z)) (default : V) :
    get_meta_src vindex (ishape im) (shape (hdr_of e)) (islice im) (sdim (hdr_of e)) (img_n_slices_of im)
                 (n_slices (hdr_of e)) (img_row3_of im) (meta_normal_of (hdr_of e))
                 (values_and_class_of e default) k index default
    = get_meta im e k index default.
  Proof.
    unfold get_meta_src, get_meta, values_and_class_of.
    destruct (visible (hdr_of e) (lookup_e e k)) as [[c vs]|]; [|reflexivity].
    cbv beta iota. rewrite meta_valid_src_eq. cbn [bind].
    destruct c;
      cbn [py_pair_eqb name_of_cls base_of sub_of name_of_base name_of_sub s_global s_time s_vector s_const s_slices
           s_samples fst snd str_eqb N.eqb Pos.eqb andb cls_eqb];
      try reflexivity;
      (match goal with |- context [meta_valid im (hdr_of e) ?c] => destruct (meta_valid im (hdr_of e) c) end;
       cbn [negb]; [|reflexivity]);
      (destruct index as [ix|]; [|reflexivity]);
      (destruct (negb (length ix =? length (ishape im))) eqn:Hlen; [reflexivity|]);
      apply negb_false_iff, Nat.eqb_eq in Hlen;
      (rewrite (py_for_check _ _ (inb (ishape im)) EIndex);
       [| intros [d z] Hin; apply in_combine_seq in Hin; unfold inb; cbn [fst snd];
          change (Z.of_nat 0) with 0%Z; destruct (0 <=? z)%Z; cbn [andb bind];
          [ rewrite (py_index_nth _ _ 0) by lia; cbn [bind]; destruct (z <? _)%Z; reflexivity | reflexivity ] ]);
      unfold py_enumerate;
      (let He := fresh "He" in pose proof (inb_enumerate ix (ishape im) [] Hlen) as He; cbn [app length] in He; rewrite He; clear He);
      (destruct (index_in_bounds ix (ishape im)) eqn:Hb; cbn [bind negb]; [|reflexivity]);
      pose proof (inb_nonneg ix (ishape im)) as Hnn; specialize (fun j z => Hnn j z Hlen Hb).
    - (* global slices *)
      destruct (islice im) as [sd|]; [|reflexivity]. cbn [py_bound_o bind].
      rewrite !py_index_nat. destruct (nth_res (ishape im) sd) as [n|]; [|reflexivity]. cbn [bind].
      rewrite py_index_Z, nth_res_map. destruct (nth_error ix sd) as [z0|] eqn:E0; [|reflexivity]. cbn [bind].
      rewrite pslice_from.
      match goal with |- context [py_for _ _ ?b] =>
        destruct (gs_loop (skipn 3 ix) 0 z0 n (ishape im) b) as [v' [n' [H1 [H2 H3]]]] end.
      + rewrite !skipn_length. lia.
      + apply Forall_skipn. exact (inb_Forall ix (ishape im) Hlen Hb).
      + exact (Hnn sd z0 E0).
      + intros. reflexivity.
      + rewrite skipn_length in H1. rewrite skipn_length. rewrite H1. cbn [bind].
        rewrite bind_ret, (vindex_nonneg vs v' H2), H3. rewrite skipn_map. reflexivity.
    - (* time samples *)
      rewrite !py_index_Z, !nth_res_map. destruct (nth_error ix 3) as [z3|] eqn:E3; [|reflexivity]. cbn [bind].
      pose proof (Hnn 3 z3 E3) as H3.
      destruct (length (ishape im) =? 5).
      + destruct (nth_error ix 4) as [z4|] eqn:E4; [|reflexivity]. cbn [bind].
        pose proof (Hnn 4 z4 E4) as H4.
        rewrite py_index_nat. destruct (nth_res (ishape im) 3) as [s3|]; [|reflexivity]. cbn [bind].
        rewrite bind_ret, vindex_nonneg by nia. f_equal.
        rewrite Z2Nat.inj_add by nia. rewrite Z2Nat.inj_mul by lia. rewrite Nat2Z.id. reflexivity.
      + cbn [bind]. rewrite bind_ret, vindex_nonneg by exact H3. reflexivity.
    - (* time slices *)
      destruct (islice im) as [sd|]; [|reflexivity]. cbn [py_bound_o bind].
      rewrite !py_index_nat. destruct (nth_res (ishape im) sd) as [n|]; [|reflexivity]. cbn [bind].
      rewrite py_index_Z, nth_res_map. destruct (nth_error ix sd) as [z0|] eqn:E0; [|reflexivity]. cbn [bind].
      rewrite bind_ret, vindex_nonneg by exact (Hnn sd z0 E0). reflexivity.
    - (* vector samples *)
      rewrite !py_index_Z, !nth_res_map. destruct (nth_error ix 4) as [z4|] eqn:E4; [|reflexivity]. cbn [bind].
      rewrite bind_ret, vindex_nonneg by exact (Hnn 4 z4 E4). reflexivity.
    - (* vector slices *)
      destruct (islice im) as [sd|]; [|reflexivity]. cbn [py_bound_o bind].
      rewrite !py_index_nat. destruct (nth_res (ishape im) sd) as [n|]; [|reflexivity]. cbn [bind].
      rewrite !py_index_Z, !nth_res_map. destruct (nth_error ix sd) as [z0|] eqn:E0; [|reflexivity]. cbn [bind].
      destruct (nth_error ix 3) as [z3|] eqn:E3; [|reflexivity]. cbn [bind].
      pose proof (Hnn sd z0 E0) as H0. pose proof (Hnn 3 z3 E3) as H3.
      rewrite bind_ret, vindex_nonneg by nia. f_equal.
      rewrite Z2Nat.inj_add by nia. rewrite Z2Nat.inj_mul by lia. rewrite Nat2Z.id. reflexivity.
  Qed.
End WithV.

(** * The executable instance: JSON values, [values[i]] = array indexing *)
From DV Require Import Common.Jv.

Definition jv_index (v : jv) (i : bnd) : res jv :=
  match v with JArr l => py_index l i | _ => Err EType end.

Lemma jv_index_vlist (l : list jv) (n : nat) : jv_index (JArr l) (BPos n) = nth_res l n.
Proof. reflexivity. Qed.
