(** C05: the concrete extensions behind the non-vacuity Examples and the refuted statements of Props/C05.v
    (definitions + their proofs; nothing here is used by the general theorems). *)
From Coq Require Import List Bool Arith NArith ZArith QArith Lia.
From DV Require Import Common.Res Common.Str Common.Jv Ext.Types Ext.Classes Ext.Seq Ext.Model Ext.Spec Ext.ValidFacts
     Ext.ProofsSimplifyCanon Ext.ProofsSubset Ext.ProofsCanonSubset Ext.ProofsMergeFrame Ext.ProofsMerge
     Ext.ProofsCanonMerge Ext.ProofsUnique Ext.ProofsRoundtrip.
Import ListNotations.
Local Open Scope nat_scope.

(** why the domain excludes trailing singleton dimensions: [get_subset] trims them, so the round trip of an
    (X,Y,Z,1) extension comes back as (X,Y,Z) *)
Definition c05_id_aff : list (list Q) := [[1; 0; 0; 0]; [0; 1; 0; 0]; [0; 0; 1; 0]; [0; 0; 0; 1]]%Q.
Definition c05_trailing : ext jv :=
  mk_ext (mk_hdr [2; 2; 2; 1] (Some 2) c05_id_aff true false) [([97]%N, (GSlices, [JInt 1; JInt 2]))].
Lemma split_merge_trailing1_refuted :
  exists e dim e',
    validb e = true /\ nondegenerateb e = true /\ sdim (hdr_of e) = Some dim /\ 2 <= nth dim (shape (hdr_of e)) 0 /\
    no_trailing1 (shape (hdr_of e)) = false /\
    run_step jv_eqb JNull e (Step dim true true) = Ok e' /\ shape (hdr_of e') <> shape (hdr_of e).
Proof.
  exists c05_trailing, 2. eexists.
  split; [vm_compute; reflexivity|]. split; [vm_compute; reflexivity|]. split; [reflexivity|]. split; [cbn; auto|].
  split; [reflexivity|]. split; [vm_compute; reflexivity|]. cbn. discriminate.
Qed.

(** ... and extensions without a slice dimension: in 5-D the time round trip raises TypeError (open finding N3) *)
Definition c05_no_sdim : ext jv :=
  mk_ext (mk_hdr [2; 2; 2; 2; 2] None c05_id_aff true true) [([97]%N, (VSamples, [JInt 1; JInt 2]))].
Lemma split_merge_no_slice_dim_refuted :
  exists e dim,
    validb e = true /\ nondegenerateb e = true /\ no_trailing1 (shape (hdr_of e)) = true /\ dim = 3 /\
    2 <= nth dim (shape (hdr_of e)) 0 /\ sdim (hdr_of e) = None /\
    run_step jv_eqb JNull e (Step dim true true) = Err EType.
Proof.
  exists c05_no_sdim, 3.
  split; [vm_compute; reflexivity|]. split; [vm_compute; reflexivity|]. split; [reflexivity|]. split; [reflexivity|].
  split; [cbn; auto|]. split; [reflexivity|]. vm_compute. reflexivity.
Qed.

(** * Non-vacuity: a 5-D extension with one key per class, slice axis 1, oblique non-symmetric affine *)
Definition c05_aff : list (list Q) := [[2; 0; 0; -8]; [0; 0; 1 # 2; 3]; [0; -1; 0; 0]; [0; 0; 0; 1]]%Q.
Definition c05_ex : ext jv :=
  mk_ext (mk_hdr [2; 2; 2; 3; 2] (Some 1) c05_aff true true)
    [([116]%N, (TSamples, [JInt 10; JInt 11; JInt 12; JInt 13; JInt 14; JInt 15]));
     ([118]%N, (VSamples, [JInt 20; JInt 21]));
     ([115]%N, (TSlices, [JInt 30; JInt 31]));
     ([119]%N, (VSlices, [JInt 40; JInt 41; JInt 42; JInt 43; JInt 44; JInt 45]));
     ([103]%N, (GSlices, map JInt [50; 51; 52; 53; 54; 55; 56; 57; 58; 59; 60; 61]%Z));
     ([99]%N, (GConst, [JStr [97]%N]))].

Lemma c05_ex_dom : rt_dom c05_ex.
Proof.
  assert (Hv : valid c05_ex) by (apply validb_valid; vm_compute; reflexivity).
  split; [exact Hv|]. split; [apply nondegenerateb_nondegenerate; [exact Hv | vm_compute; reflexivity]|].
  split; [reflexivity | discriminate].
Qed.

(** [c05_ex] is what merging its own vector pieces returns, hence canonical by C06; no key is None everywhere *)
Lemma c05_ex_canonical : canonical JNull c05_ex.
Proof.
  destruct c05_ex_dom as [Hv [Hn [Ht Hs]]].
  assert (Hax : rt_axis c05_ex 4) by (split; [right; right; reflexivity | split; cbn; auto]).
  destruct (split_all jv_eqb JNull c05_ex 4) as [ps|] eqn:Eps; [|vm_compute in Eps; discriminate Eps].
  assert (Hm : from_sequence jv_eqb JNull ps 4 None None = Ok c05_ex).
  { vm_compute in Eps. injection Eps as <-. vm_compute. reflexivity. }
  assert (Hcm : canonical_mod_none JNull c05_ex).
  { destruct (split_all_pieces jv_eqb JNull jv_eqb_spec c05_ex 4 ps Hv Hn Ht ltac:(cbn; auto) Eps) as [Hlen Hp].
    destruct ps as [|e0 rest] eqn:E; [discriminate Hlen|]. rewrite <- E in *.
    assert (P0 : piece_facts jv_eqb JNull c05_ex 4 0 e0).
    { pose proof (Hp 0 e0 ltac:(rewrite Hlen; cbn; auto)) as P. rewrite E in P. exact P. }
    apply (merge_canonical_axis jv_eqb JNull jv_eqb_spec ps e0 rest 4 None None AxV c05_ex E).
    - rewrite E in Hlen. cbn in Hlen. injection Hlen as Hlen. rewrite Hlen. auto.
    - intros x Hx. destruct (In_nth _ _ e0 Hx) as [i [Hi <-]]. pose proof (Hp i e0 Hi) as P.
      split; [apply (pf_valid _ _ _ _ _ _ P)|]. split; [apply (pf_nondeg _ _ _ _ _ _ P)|]. split.
      + destruct (pf_shape _ _ _ _ _ _ P) as [s1 [E1 ->]]. destruct (pf_shape _ _ _ _ _ _ P0) as [s0 [E0 ->]]. congruence.
      + unfold sdim_res. rewrite (pf_sdim _ _ _ _ _ _ P), (pf_sdim _ _ _ _ _ _ P0). reflexivity.
    - unfold sdim_res. rewrite (pf_sdim _ _ _ _ _ _ P0). reflexivity.
    - intros _. unfold sdim_res. rewrite (pf_sdim _ _ _ _ _ _ P0). discriminate.
    - exact Hm. }
  destruct Hcm as [_ Hc]. split; [exact Hv|]. intros k c vs Hin. split; [apply (Hc k c vs Hin)|].
  exists (1, 2, 1). split; [cbn; auto 10|].
  cbn [c05_ex entries In] in Hin.
  repeat (destruct Hin as [Hin|Hin]; [injection Hin as <- <- <-; vm_compute; discriminate|]). destruct Hin.
Qed.

Lemma c05_ex_tight : hdr_tight (hdr_of c05_ex).
Proof. intros c. destruct c; reflexivity. Qed.

Lemma ex_canonical_unique :
  canonical_mod_none JNull c05_ex /\ equiv_mod_none JNull c05_ex c05_ex /\
  lookup_e c05_ex [119]%N = Some (VSlices, [JInt 40; JInt 41; JInt 42; JInt 43; JInt 44; JInt 45]).
Proof.
  split; [apply canonical_canonical_mod_none, c05_ex_canonical|]. split; [apply equiv_mod_none_refl | reflexivity].
Qed.

(** the hypotheses of [C05_split_merge] hold for the slice axis (1), time (3) and vector (4), the pieces exist, and
    the merge returns the parent *)
Lemma ex_split_merge :
  rt_dom c05_ex /\ canonical JNull c05_ex /\ hdr_tight (hdr_of c05_ex) /\
  rt_axis c05_ex 1 /\ rt_axis c05_ex 3 /\ rt_axis c05_ex 4 /\
  (exists ps, split_all jv_eqb JNull c05_ex 1 = Ok ps /\ length ps = 2 /\
              from_sequence jv_eqb JNull ps 1 (Some c05_aff) (Some 1) = Ok c05_ex) /\
  (exists ps, split_all jv_eqb JNull c05_ex 3 = Ok ps /\ length ps = 3 /\
              map (fun p => shape (hdr_of p)) ps = [[2; 2; 2; 1; 2]; [2; 2; 2; 1; 2]; [2; 2; 2; 1; 2]] /\
              from_sequence jv_eqb JNull ps 3 None None = Ok c05_ex) /\
  (exists ps, split_all jv_eqb JNull c05_ex 4 = Ok ps /\ length ps = 2 /\
              map (fun p => shape (hdr_of p)) ps = [[2; 2; 2; 3]; [2; 2; 2; 3]] /\
              from_sequence jv_eqb JNull ps 4 (Some c05_aff) None = Ok c05_ex).
Proof.
  split; [exact c05_ex_dom|]. split; [exact c05_ex_canonical|]. split; [exact c05_ex_tight|].
  split; [split; [left; reflexivity | split; cbn; auto]|].
  split; [split; [right; left; reflexivity | split; cbn; auto]|].
  split; [split; [right; right; reflexivity | split; cbn; auto]|].
  split; [eexists; split; [vm_compute; reflexivity|]; split; [reflexivity|]; vm_compute; reflexivity|].
  split; [eexists; split; [vm_compute; reflexivity|]; split; [reflexivity|]; split; [reflexivity|]; vm_compute; reflexivity|].
  eexists; split; [vm_compute; reflexivity|]; split; [reflexivity|]; split; [reflexivity|]; vm_compute; reflexivity.
Qed.

(** merge then split: two 4-D volumes merged along the vector axis, the pieces read what the inputs read *)
Definition c05_in (v : Z) : ext jv :=
  mk_ext (mk_hdr [2; 2; 2; 2] (Some 2) c05_id_aff true false)
    [([116]%N, (TSamples, [JInt v; JInt (v + 1)])); ([115]%N, (TSlices, [JInt 7; JInt (v + 2)]))].

Lemma ex_merge_split :
  inputs_ok [c05_in 10; c05_in 20] (c05_in 10) None /\
  (forall x, In x [c05_in 10; c05_in 20] -> nondegenerate x) /\
  axis_of (out_sdim None (c05_in 10)) 4 = Some AxV /\
  exists r, from_sequence jv_eqb JNull [c05_in 10; c05_in 20] 4 None None = Ok r /\
            shape (hdr_of r) = [2; 2; 2; 2; 2] /\ trailing1b (shape (hdr_of r)) = false /\
            use_slices (hdr_of r) (hdr_of (c05_in 20)) = true /\
            exists piece, get_subset jv_eqb JNull r 4 1 = Ok piece /\ shape (hdr_of piece) = [2; 2; 2; 2] /\
                          den JNull piece [115]%N (1, 1, 0) = JInt 22 /\ den JNull (c05_in 20) [115]%N (1, 1, 0) = JInt 22.
Proof.
  assert (Hv : forall v, (v = 10 \/ v = 20)%Z -> valid (c05_in v) /\ nondegenerate (c05_in v)).
  { intros v Hv0. assert (H : valid (c05_in v)) by (destruct Hv0 as [-> | ->]; apply validb_valid; vm_compute; reflexivity).
    split; [exact H|]. apply nondegenerateb_nondegenerate; [exact H|]. destruct Hv0 as [-> | ->]; vm_compute; reflexivity. }
  split.
  { split; [reflexivity|]. split; [cbn; auto|]. intros x [<-|[<-|[]]]; (split; [apply Hv; auto | split; reflexivity]). }
  split; [intros x [<-|[<-|[]]]; apply Hv; auto|].
  split; [reflexivity|].
  eexists. split; [vm_compute; reflexivity|]. split; [reflexivity|]. split; [reflexivity|]. split; [vm_compute; reflexivity|].
  eexists. split; [vm_compute; reflexivity|]. split; [reflexivity|]. split; vm_compute; reflexivity.
Qed.

(** a chain of four round trips (vector, slice, time, vector) over [c05_ex]: every merged result is [c05_ex] *)
Lemma ex_chain :
  let steps := [Step 4 true true; Step 1 false false; Step 3 true true; Step 4 false true] in
  (forall s, In s steps -> rt_axis c05_ex (step_dim s)) /\
  (forall s i, In s steps -> i < nth (step_dim s) (shape (hdr_of c05_ex)) 0 ->
               exists r, get_subset jv_eqb JNull c05_ex (step_dim s) i = Ok r) /\
  run_chain jv_eqb JNull c05_ex steps = Ok [c05_ex; c05_ex; c05_ex; c05_ex].
Proof.
  cbn zeta. split.
  { intros s [<-|[<-|[<-|[<-|[]]]]]; cbn [step_dim];
      (split; [first [left; reflexivity | right; left; reflexivity | right; right; reflexivity] | split; cbn; auto]). }
  split.
  { intros s i [<-|[<-|[<-|[<-|[]]]]] Hi; cbn [step_dim] in *; cbn in Hi;
      repeat (destruct i as [|i]; [eexists; vm_compute; reflexivity|]); exfalso; lia. }
  vm_compute. reflexivity.
Qed.
