(** Correspondence glue for the part "lookups" of the plugin SRC: evaluates the TRANSLATED lookups
    (Generated/T_src_lookup.v) on concrete values of their parameters and compares with what the real
    NiftiWrapper methods returned / raised on stub objects that supply exactly those reads. *)
From Coq Require Import List Bool Arith NArith ZArith QArith.
From DV Require Import Common.Res Common.Str Common.Jv Common.PyOps2 Generated.T_classes Generated.T_src_lookup
     Ext.SrcEqLookup.
Import ListNotations.
Local Open Scope nat_scope.

Record env := mk_env {
  img_shape : list nat; meta_shape : list nat; img_sd : option nat; meta_sd : option nat;
  img_ns : nat; meta_ns : option nat; img_rows : list (list Q); meta_normal : list Q }.

Inductive call :=
| CMetaValid (c : cname)
| CGetMeta (values : jv) (classes : option cname) (index : option (list Z)) (default : jv)
| CGetItem (d : list (str * jv)) (key : str).

Inductive obs := OBool (b : bool) | OVal (v : jv) | OErr (e : err).

Record case := mk_case { c_env : env; c_call : call; c_obs : obs }.

Definition row3 (en : env) (d : nat) : list Q := firstn 3 (nth d (img_rows en) []).

Definition run (en : env) (c : call) : obs :=
  match c with
  | CMetaValid cl =>
      match meta_valid_src (img_shape en) (meta_shape en) (img_sd en) (meta_sd en) (img_ns en) (meta_ns en)
                           (row3 en) (meta_normal en) cl with
      | Ok b => OBool b | Err e => OErr e end
  | CGetMeta values classes index default =>
      match get_meta_src jv_index (img_shape en) (meta_shape en) (img_sd en) (meta_sd en) (img_ns en) (meta_ns en)
                         (row3 en) (meta_normal en) (fun _ => (values, classes)) [] index default with
      | Ok v => OVal v | Err e => OErr e end
  | CGetItem d key =>
      match getitem_src (fun _ => d) key with Ok v => OVal v | Err e => OErr e end
  end.

Definition obs_eqb (a b : obs) : bool :=
  match a, b with
  | OBool x, OBool y => Bool.eqb x y
  | OVal x, OVal y => jv_eqb x y
  | OErr x, OErr y => err_eqb x y
  | _, _ => false
  end.

Definition check (c : case) : bool := obs_eqb (run (c_env c) (c_call c)) (c_obs c).
Definition show (c : case) : obs := run (c_env c) (c_call c).
