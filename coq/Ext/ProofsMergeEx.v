(** C03: concrete instances ([V := jv]): the model reproduces the exceptions of the open findings N1, N3, N4
    (why the theorems carry those hypotheses), and the witnesses of the non-vacuity examples. *)
From Coq Require Import List Bool Arith NArith ZArith QArith Lia.
From DV Require Import Common.Res Common.Str Common.Jv Ext.Types Ext.Classes Ext.Seq Ext.Model Ext.Spec Ext.TableFacts
     Ext.ValidFacts Ext.ProofsMergeSeq Ext.ProofsMergeDen Ext.ProofsMergeStep Ext.ProofsMergeFrame
     Ext.ProofsMergeSimplify Ext.ProofsMergeKey Ext.ProofsMerge Ext.LookupSpec Ext.ProofsLookup.
Import ListNotations.
Local Open Scope nat_scope.

(** an input that has the affine and slice dimension of the result keeps its per-slice meta data *)
Lemma use_slices_same hr h : sdim h = sdim hr -> sdim hr <> None -> aff h = aff hr -> use_slices hr h = true.
Proof.
  intros Hs Hn Ha. unfold use_slices, slice_normal. rewrite Hs, Ha. destruct (sdim hr) as [d|]; [|congruence].
  apply allclose_spec. apply close_vec_refl; vm_compute; discriminate.
Qed.

Definition id_aff : list (list Q) := [[1;0;0;0];[0;1;0;0];[0;0;1;0];[0;0;0;1]]%Q.
Definition kA : key := [97]%N.

Lemma inputs_ok_b (es : list (ext jv)) e0 sd :
  hd_error es = Some e0 -> 2 <= length es ->
  forallb (fun x => validb x && list_nat_eqb (shape (hdr_of x)) (shape (hdr_of e0))
                    && match sdim (hdr_of x), out_sdim sd e0 with
                       | Some a, Some b => a =? b | None, None => true | _, _ => false end) es = true ->
  inputs_ok es e0 sd.
Proof.
  intros H1 H2 H3. split; [exact H1|]. split; [exact H2|]. intros x Hx.
  rewrite forallb_forall in H3. specialize (H3 x Hx). apply andb_true_iff in H3 as [H3 H5]. apply andb_true_iff in H3 as [H3 H4].
  split; [apply validb_valid; exact H3|]. split.
  - revert H4. generalize (shape (hdr_of x)) (shape (hdr_of e0)). induction l as [|a l IH]; intros [|b l']; cbn; try discriminate; [reflexivity|].
    intros H. apply andb_true_iff in H as [Ha Hl]. apply Nat.eqb_eq in Ha. subst. f_equal. apply IH. exact Hl.
  - destruct (sdim (hdr_of x)), (out_sdim sd e0); try discriminate; [apply Nat.eqb_eq in H5; congruence | reflexivity].
Qed.

(** ** N1: 4-D inputs with a singular time axis merged along the vector axis *)
Definition n1_ext : ext jv := mk_ext (mk_hdr [2; 2; 2; 1] (Some 2) id_aff true false) [].

Lemma merge_total_refuted_N1 :
  exists (es : list (ext jv)) e0 dim,
    inputs_ok es e0 None /\ args_ok None None /\ dim < 5 /\ nth dim (shape (hdr_of e0)) 1 = 1 /\
    (3 <= dim -> out_sdim None e0 <> None) /\
    (forall sh, set_nth dim (length es) (pad_to (S dim) (shape (hdr_of e0))) = Some sh -> trailing1b sh = false) /\
    from_sequence jv_eqb JNull es dim None None = Err EKey.
Proof.
  exists [n1_ext; n1_ext], n1_ext, 4. split; [apply inputs_ok_b; vm_compute; auto|].
  split; [split; exact I|]. split; [lia|]. split; [reflexivity|]. split; [intros _; discriminate|].
  split; [intros sh H; vm_compute in H; injection H as <-; reflexivity|]. vm_compute. reflexivity.
Qed.

(** ** N3: no slice dimension, merge along the vector axis through ('global','slices') *)
Definition n3_ext (a b : Z) : ext jv :=
  mk_ext (mk_hdr [2; 2; 2; 2] None id_aff true false) [(kA, (TSamples, [JInt a; JInt b]))].

Lemma merge_total_refuted_N3 :
  exists (es : list (ext jv)) e0 dim,
    inputs_ok es e0 None /\ args_ok None None /\ dim < 5 /\ nth dim (shape (hdr_of e0)) 1 = 1 /\
    ~ (dim = 4 /\ length (shape (hdr_of e0)) = 4 /\ nth 3 (shape (hdr_of e0)) 1 = 1) /\
    (forall sh, set_nth dim (length es) (pad_to (S dim) (shape (hdr_of e0))) = Some sh -> trailing1b sh = false) /\
    from_sequence jv_eqb JNull es dim None None = Err EType.
Proof.
  exists [n3_ext 1 2; n3_ext 3 4], (n3_ext 1 2), 4. split; [apply inputs_ok_b; vm_compute; auto|].
  split; [split; exact I|]. split; [lia|]. split; [reflexivity|].
  split; [intros [_ [_ H]]; vm_compute in H; discriminate|].
  split; [intros sh H; vm_compute in H; injection H as <-; reflexivity|]. vm_compute. reflexivity.
Qed.

(** ** N4: trailing singleton shape and a ('global','slices') key: the final simplify raises ValueError,
    which also breaks "ValueError exactly for a non-singular axis" *)
Definition n4_ext : ext jv :=
  mk_ext (mk_hdr [2; 1; 2; 1] (Some 2) id_aff true false) [(kA, (GSlices, [JInt 1; JInt 2]))].

Lemma merge_total_refuted_N4 :
  exists (es : list (ext jv)) e0 dim,
    inputs_ok es e0 None /\ args_ok None None /\ dim < 5 /\ nth dim (shape (hdr_of e0)) 1 = 1 /\
    ~ (dim = 4 /\ length (shape (hdr_of e0)) = 4 /\ nth 3 (shape (hdr_of e0)) 1 = 1) /\
    (3 <= dim -> out_sdim None e0 <> None) /\
    from_sequence jv_eqb JNull es dim None None = Err EValue.
Proof.
  exists [n4_ext; n4_ext], n4_ext, 1. split; [apply inputs_ok_b; vm_compute; auto|].
  split; [split; exact I|]. split; [lia|]. split; [reflexivity|].
  split; [intros [H _]; discriminate|]. split; [intros _; discriminate|]. vm_compute. reflexivity.
Qed.

(** * Witnesses for the non-vacuity examples of Props/C03.v *)

(** a 5-D merge along the slice axis with T = V = 2: per-volume interleave *)
Definition ex5_hdr : hdr := mk_hdr [2; 2; 1; 2; 2] (Some 2) id_aff true true.
Definition ex5_in (a : Z) : ext jv :=
  mk_ext ex5_hdr [(kA, (GSlices, [JInt a; JInt (a + 1); JInt (a + 2); JInt (a + 3)]))].
Definition ex5_es : list (ext jv) := [ex5_in 10; ex5_in 20].

Lemma ex5_inputs : inputs_ok ex5_es (ex5_in 10) None.
Proof. apply inputs_ok_b; vm_compute; auto. Qed.

Lemma ex5_result :
  exists r, from_sequence jv_eqb JNull ex5_es 2 None None = Ok r /\
            shape (hdr_of r) = [2; 2; 2; 2; 2] /\ trailing1b (shape (hdr_of r)) = false /\
            lookup_e r kA = Some (GSlices, [JInt 10; JInt 20; JInt 11; JInt 21; JInt 12; JInt 22; JInt 13; JInt 23]) /\
            den JNull r kA (1, 1, 1) = JInt 23 /\ den JNull (ex5_in 20) kA (0, 1, 1) = JInt 23.
Proof. eexists. split; [vm_compute; reflexivity|]. repeat split. Qed.

(** the same inputs as one step of [_insert] *)
Lemma ex5_frame :
  exists hfull, merge_hdr (map (@hdr_of jv) ex5_es) 2 None None = Ok hfull /\
                frame hfull [2; 2; 1; 2; 2] 2 2 /\ sdim hfull = Some 2.
Proof.
  assert (H : merge_hdr (map (@hdr_of jv) ex5_es) 2 None None =
              Ok (mk_hdr [2; 2; 2; 2; 2] (Some 2) id_aff true true)) by (vm_compute; reflexivity).
  exists (mk_hdr [2; 2; 2; 2; 2] (Some 2) id_aff true true). split; [exact H|].
  destruct (merge_hdr_frame (map (@hdr_of jv) ex5_es) ex5_hdr 2 None None _ eq_refl ltac:(cbn; lia)
              ltac:(repeat constructor) H) as [F [_ [S _]]].
  split; [exact F | exact S].
Qed.

(** a 4-D time merge and a vector merge of 3-D inputs *)
Definition ex3_in (a : Z) : ext jv :=
  mk_ext (mk_hdr [2; 2; 2] (Some 2) id_aff false false) [(kA, (GSlices, [JInt a; JInt (a + 1)]))].

Lemma ex3_inputs : inputs_ok [ex3_in 1; ex3_in 5; ex3_in 1] (ex3_in 1) None.
Proof. apply inputs_ok_b; vm_compute; auto. Qed.

Lemma ex3_time :
  exists r, from_sequence jv_eqb JNull [ex3_in 1; ex3_in 5; ex3_in 1] 3 None None = Ok r /\
            shape (hdr_of r) = [2; 2; 2; 3] /\ den JNull r kA (1, 1, 0) = JInt 6.
Proof. eexists. split; [vm_compute; reflexivity|]. split; reflexivity. Qed.

(** a non-slice merge: one key agrees, one does not *)
Definition kB : key := [98]%N.
Definition exn_in (b : Z) : ext jv :=
  mk_ext (mk_hdr [1; 2; 2; 2] (Some 2) id_aff true false)
         [(kA, (TSlices, [JInt 1; JInt 2])); (kB, (GConst, [JInt b]))].

Lemma exn_inputs : inputs_ok [exn_in 7; exn_in 8] (exn_in 7) None.
Proof. apply inputs_ok_b; vm_compute; auto. Qed.

Lemma exn_result :
  exists r, from_sequence jv_eqb JNull [exn_in 7; exn_in 8] 0 None None = Ok r /\
            shape (hdr_of r) = [2; 2; 2; 2] /\ trailing1b (shape (hdr_of r)) = false /\
            lookup_e r kA = Some (TSlices, [JInt 1; JInt 2]) /\ lookup_e r kB = None.
Proof. eexists. split; [vm_compute; reflexivity|]. repeat split. Qed.

(** a refused merge: the axis is not singular *)
Lemma ex_refused : from_sequence jv_eqb JNull [ex3_in 1; ex3_in 5] 2 None None = Err EValue.
Proof. vm_compute. reflexivity. Qed.

(** widening *)
Lemma ex_widen :
  let h := mk_hdr [2; 2; 2; 2; 2] (Some 2) id_aff true true in
  hdr_ok h /\ good_k h (Some (TSlices, [JInt 1; JInt 2])) /\ class_ok (shape h) VSlices = true /\
  change_class_k JNull h (Some (TSlices, [JInt 1; JInt 2])) VSlices =
    Ok (Some (VSlices, [JInt 1; JInt 2; JInt 1; JInt 2])).
Proof.
  cbv zeta. split; [split; [cbn; lia|]; split; [repeat constructor | intros d H; injection H as <-; lia]|].
  split; [split; [reflexivity|]; split; [discriminate | reflexivity]|]. split; vm_compute; reflexivity.
Qed.

(** ** N11: the [slice_dim] argument differs from the inputs' own slice dimension.  Without the hypothesis
    "all inputs share the slice dimension of the result" the merge law is false of the model (and of the code):
    the inputs are widened with THEIR slice count, here 3 values from the second input for a result with 2 slices. *)
Definition n11_ext (a : Z) : ext jv :=
  mk_ext (mk_hdr [3; 2; 1] (Some 0) id_aff false false) [(kA, (GConst, [JInt a]))].

Lemma merge_den_refuted_N11 :
  exists (es : list (ext jv)) e0 dim sd r,
    hd_error es = Some e0 /\ 2 <= length es /\
    (forall x, In x es -> valid x /\ shape (hdr_of x) = shape (hdr_of e0)) /\
    from_sequence jv_eqb JNull es dim None sd = Ok r /\
    axis_of (out_sdim sd e0) dim = Some AxS /\
    trailing1b (shape (hdr_of r)) = false /\
    lookup_e r kA = Some (GSlices, [JInt 1; JInt 2; JInt 2; JInt 2]) /\ ~ valid r.
Proof.
  exists [n11_ext 1; n11_ext 2], (n11_ext 1), 2, (Some 2).
  eexists. split; [reflexivity|]. split; [cbn; lia|]. split.
  { intros x [<-|[<-|[]]]; (split; [apply validb_valid; vm_compute; reflexivity | reflexivity]). }
  split; [vm_compute; reflexivity|]. split; [reflexivity|]. split; [reflexivity|]. split; [reflexivity|].
  intros [_ [_ H]]. specialize (H kA GSlices _ (or_introl eq_refl)). destruct H as [_ [_ H]]. vm_compute in H. discriminate H.
Qed.

(** * Full instantiations for the examples of Props/C03.v (every hypothesis of the theorem, and its conclusion) *)

(** one [_insert] step of the 5-D slice merge: self holds input 0 (j = 1), other is input 1 *)
Definition ex5_full : hdr := mk_hdr [2; 2; 2; 2; 2] (Some 2) id_aff true true.
Definition ex5_ks : kst jv := Some (GSlices, [JInt 10; JInt 11; JInt 12; JInt 13]).
Definition ex5_ko : kst jv := Some (GSlices, [JInt 20; JInt 21; JInt 22; JInt 23]).
Definition ex5_ks' : kst jv :=
  Some (GSlices, [JInt 10; JInt 20; JInt 11; JInt 21; JInt 12; JInt 22; JInt 13; JInt 23]).

Lemma ex5_frame_full : frame ex5_full [2; 2; 1; 2; 2] 2 2.
Proof.
  assert (H : merge_hdr (map (@hdr_of jv) ex5_es) 2 None None = Ok ex5_full) by (vm_compute; reflexivity).
  exact (proj1 (merge_hdr_frame (map (@hdr_of jv) ex5_es) ex5_hdr 2 None None _ eq_refl (le_n 2)
                  ltac:(repeat constructor) H)).
Qed.

Lemma ex5_step :
  frame ex5_full [2; 2; 1; 2; 2] 2 2 /\ inp ex5_full [2; 2; 1; 2; 2] ex5_hdr /\ 1 <= 1 /\
  axis_of (sdim ex5_full) 2 = Some AxS /\ (3 <= 2 -> sdim ex5_full <> None) /\
  good_k (with_dim ex5_full 2 1) ex5_ks /\ good_k ex5_hdr ex5_ko /\
  insert_k jv_eqb JNull (with_dim ex5_full 2 1) ex5_hdr 2 ex5_ks ex5_ko = Ok ex5_ks' /\
  good_k (with_dim ex5_full 2 2) ex5_ks' /\
  (* a position before j reads self, a position at j reads other at slice 0 *)
  den_k JNull (with_dim ex5_full 2 2) ex5_ks' (0, 1, 1) = JInt 13 /\
  den_k JNull (with_dim ex5_full 2 1) ex5_ks (0, 1, 1) = JInt 13 /\
  den_k JNull (with_dim ex5_full 2 2) ex5_ks' (1, 1, 1) = JInt 23 /\
  den_k JNull ex5_hdr (drop_k (use_slices ex5_full ex5_hdr) ex5_ko) (set_coord AxS (1, 1, 1) 0) = JInt 23.
Proof.
  refine (conj ex5_frame_full (conj (conj eq_refl eq_refl) (conj (le_n 1) (conj eq_refl (conj _ (conj _ (conj _
          (conj _ (conj _ (conj _ (conj _ (conj _ _)))))))))))).
  - intros _; discriminate.
  - split; [reflexivity | split; [intros _ H; vm_compute in H; discriminate H | reflexivity]].
  - split; [reflexivity | split; [intros _ H; vm_compute in H; discriminate H | reflexivity]].
  - vm_compute. reflexivity.
  - split; [reflexivity | split; [intros _ H; vm_compute in H; discriminate H | reflexivity]].
  - vm_compute. reflexivity.
  - vm_compute. reflexivity.
  - vm_compute. reflexivity.
  - vm_compute. reflexivity.
Qed.

(** widening: all hypotheses of the three widening theorems and the conclusions *)
Definition exw_hdr : hdr := mk_hdr [2; 2; 2; 2; 2] (Some 2) id_aff true true.
Definition exw_s : kst jv := Some (TSlices, [JInt 1; JInt 2]).

Lemma ex_widen_full :
  hdr_ok exw_hdr /\ good_k exw_hdr exw_s /\ class_ok (shape exw_hdr) VSlices = true /\
  (is_slices VSlices = true -> sdim exw_hdr <> None) /\
  has_base exw_hdr (base_of VSlices) = true /\ widens (kst_class exw_s) VSlices /\
  changed_class JNull exw_hdr exw_s VSlices None = Ok [JInt 1; JInt 2; JInt 1; JInt 2] /\
  length [JInt 1; JInt 2; JInt 1; JInt 2] = mult_spec (dims exw_hdr) VSlices /\
  change_class_k JNull exw_hdr exw_s VSlices = Ok (Some (VSlices, [JInt 1; JInt 2; JInt 1; JInt 2])) /\
  good_k exw_hdr (Some (VSlices, [JInt 1; JInt 2; JInt 1; JInt 2])) /\
  den_k JNull exw_hdr (Some (VSlices, [JInt 1; JInt 2; JInt 1; JInt 2])) (1, 1, 0) = JInt 2 /\
  den_k JNull exw_hdr exw_s (1, 1, 0) = JInt 2.
Proof.
  refine (conj _ (conj _ (conj eq_refl (conj _ (conj eq_refl (conj _ (conj _ (conj eq_refl (conj _ (conj _
          (conj eq_refl eq_refl))))))))))).
  - split; [cbn; lia|]. split; [repeat constructor | intros d H; injection H as <-; lia].
  - split; [reflexivity | split; [intros _ H; vm_compute in H; discriminate H | reflexivity]].
  - intros _ H; discriminate H.
  - right. vm_compute. reflexivity.
  - vm_compute. reflexivity.
  - vm_compute. reflexivity.
  - split; [reflexivity | split; [intros _ H; vm_compute in H; discriminate H | reflexivity]].
Qed.

(** the 5-D slice merge: every hypothesis of [merge_den] and the den equation on both sides of the boundary *)
Definition ex5_r : ext jv := mk_ext ex5_full [(kA, (GSlices, [JInt 10; JInt 20; JInt 11; JInt 21; JInt 12; JInt 22; JInt 13; JInt 23]))].

Lemma ex5_merge_full :
  inputs_ok ex5_es (ex5_in 10) None /\
  from_sequence jv_eqb JNull ex5_es 2 None None = Ok ex5_r /\
  axis_of (out_sdim None (ex5_in 10)) 2 = Some AxS /\
  (3 <= 2 -> out_sdim None (ex5_in 10) <> None) /\
  trailing1b (shape (hdr_of ex5_r)) = false /\
  validb ex5_r = true /\
  in_dims (dims (hdr_of ex5_r)) (0, 1, 1) /\ in_dims (dims (hdr_of ex5_r)) (1, 1, 1) /\
  den JNull ex5_r kA (0, 1, 1) = JInt 13 /\
  den_in JNull (hdr_of ex5_r) (nth (coord AxS (0, 1, 1)) ex5_es (ex5_in 10)) kA (set_coord AxS (0, 1, 1) 0) = JInt 13 /\
  den JNull ex5_r kA (1, 1, 1) = JInt 23 /\
  den_in JNull (hdr_of ex5_r) (nth (coord AxS (1, 1, 1)) ex5_es (ex5_in 10)) kA (set_coord AxS (1, 1, 1) 0) = JInt 23.
Proof.
  refine (conj ex5_inputs (conj _ (conj eq_refl (conj _ (conj eq_refl (conj _ (conj _ (conj _ (conj _ (conj _
          (conj _ _))))))))))).
  - vm_compute. reflexivity.
  - intros H; lia.
  - vm_compute. reflexivity.
  - cbn. lia.
  - cbn. lia.
  - vm_compute. reflexivity.
  - vm_compute. reflexivity.
  - vm_compute. reflexivity.
  - vm_compute. reflexivity.
Qed.

(** the non-slice merge: key a agrees (kept), key b disagrees (dropped) *)
Definition exn_r : ext jv :=
  mk_ext (mk_hdr [2; 2; 2; 2] (Some 2) id_aff true false) [(kA, (TSlices, [JInt 1; JInt 2]))].

Lemma exn_full :
  inputs_ok [exn_in 7; exn_in 8] (exn_in 7) None /\
  from_sequence jv_eqb JNull [exn_in 7; exn_in 8] 0 None None = Ok exn_r /\
  0 < 3 /\ out_sdim None (exn_in 7) <> Some 0 /\
  trailing1b (shape (hdr_of exn_r)) = false /\
  in_dims (dims (hdr_of exn_r)) (1, 1, 0) /\
  (* key a: both inputs read 2 at (1,1,0), so does the result *)
  den_in JNull (hdr_of exn_r) (exn_in 8) kA (1, 1, 0) = den_in JNull (hdr_of exn_r) (exn_in 7) kA (1, 1, 0) /\
  den JNull exn_r kA (1, 1, 0) = JInt 2 /\ den_in JNull (hdr_of exn_r) (exn_in 7) kA (1, 1, 0) = JInt 2 /\
  (* key b: the inputs disagree, the result denotes None *)
  den_in JNull (hdr_of exn_r) (exn_in 8) kB (1, 1, 0) <> den_in JNull (hdr_of exn_r) (exn_in 7) kB (1, 1, 0) /\
  den JNull exn_r kB (1, 1, 0) = JNull.
Proof.
  refine (conj exn_inputs (conj _ (conj _ (conj _ (conj eq_refl (conj _ (conj eq_refl (conj eq_refl (conj eq_refl
          (conj _ eq_refl)))))))))).
  - vm_compute. reflexivity.
  - lia.
  - discriminate.
  - cbn. lia.
  - vm_compute. discriminate.
Qed.

(** totality / refusal: every hypothesis of [merge_total] for a time merge of three 3-D inputs, and a refused merge *)
Lemma ex3_total_full :
  inputs_ok [ex3_in 1; ex3_in 5; ex3_in 1] (ex3_in 1) None /\ args_ok None None /\
  3 < 5 /\ nth 3 (shape (hdr_of (ex3_in 1))) 1 = 1 /\
  ~ (3 = 4 /\ length (shape (hdr_of (ex3_in 1))) = 4 /\ nth 3 (shape (hdr_of (ex3_in 1))) 1 = 1) /\
  (3 <= 3 -> out_sdim None (ex3_in 1) <> None) /\
  (forall sh, set_nth 3 (length [ex3_in 1; ex3_in 5; ex3_in 1]) (pad_to 4 (shape (hdr_of (ex3_in 1)))) = Some sh ->
              trailing1b sh = false) /\
  (exists r, from_sequence jv_eqb JNull [ex3_in 1; ex3_in 5; ex3_in 1] 3 None None = Ok r /\
             shape (hdr_of r) = [2; 2; 2; 3] /\ den JNull r kA (1, 1, 0) = JInt 6) /\
  (* refusal: the slice axis of these inputs has extent 2 *)
  inputs_ok [ex3_in 1; ex3_in 5] (ex3_in 1) None /\ nth 2 (shape (hdr_of (ex3_in 1))) 1 <> 1 /\
  from_sequence jv_eqb JNull [ex3_in 1; ex3_in 5] 2 None None = Err EValue.
Proof.
  refine (conj ex3_inputs (conj (conj I I) (conj _ (conj eq_refl (conj _ (conj _ (conj _ (conj ex3_time (conj _
          (conj _ ex_refused)))))))))).
  - lia.
  - intros [H _]; discriminate H.
  - intros _; discriminate.
  - intros sh H. vm_compute in H. injection H as <-. reflexivity.
  - apply inputs_ok_b; vm_compute; auto.
  - cbn. discriminate.
Qed.

(** refusal: every hypothesis of [merge_refuses] for a merge along the (non-singular) slice axis, both sides of the iff *)
Lemma ex3_refuses_full :
  inputs_ok [ex3_in 1; ex3_in 5] (ex3_in 1) None /\ args_ok None None /\
  ~ (2 = 4 /\ length (shape (hdr_of (ex3_in 1))) = 4 /\ nth 3 (shape (hdr_of (ex3_in 1))) 1 = 1) /\
  (3 <= 2 -> out_sdim None (ex3_in 1) <> None) /\
  (forall sh, set_nth 2 (length [ex3_in 1; ex3_in 5]) (pad_to 3 (shape (hdr_of (ex3_in 1)))) = Some sh ->
              trailing1b sh = false) /\
  from_sequence jv_eqb JNull [ex3_in 1; ex3_in 5] 2 None None = Err EValue /\
  (5 <= 2 \/ nth 2 (shape (hdr_of (ex3_in 1))) 1 <> 1).
Proof.
  refine (conj _ (conj (conj I I) (conj _ (conj _ (conj _ (conj ex_refused (or_intror _))))))).
  - apply inputs_ok_b; vm_compute; auto.
  - intros [H _]; discriminate H.
  - intros H; lia.
  - intros sh H. vm_compute in H. injection H as <-. reflexivity.
  - cbn. discriminate.
Qed.
