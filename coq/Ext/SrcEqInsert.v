(** Stage D of the source equality for the extension algebra: DcmMetaExtension._insert_slice(key, other), translated in
    state-passing style with two instances ([insert_slice_st]: `self` is changed, `other` is read; the lists of the state that
    Python extends in place are stored back under their key), refines the per-key model Ext.Model.insert_slice_k on a content
    that holds the per-key states. *)
From Coq Require Import List Bool Arith NArith ZArith Lia.
From DV Require Import Common.Res Common.Str Common.Jv Common.PyOps2 Common.PyOps2Dyn Generated.T_classes Generated.T_src_ext
     Generated.T_src_state Ext.Types Ext.Classes Ext.Seq Ext.SeqFacts Ext.Model Ext.TableFacts Ext.SrcEq Ext.SrcEqAlg Ext.SrcEqState
     Ext.SrcEqSubset.
Import ListNotations.
Local Open Scope nat_scope.

Notation obj := (list (str * jv)).

(** * Readers *)

Lemma get_changed_class_o_some cl sh ns pc st k c sd :
  get_changed_class_o cl sh ns pc st k (Some c) sd = get_changed_class_st cl sh ns pc st k c sd.
Proof.
  unfold get_changed_class_o, get_changed_class_st.
  destruct (get_values_and_class_st cl sh st k) as [[v [cc|]]|e]; [| |reflexivity]; cbn [bind].
  - cbn [py_option_eqb]. destruct (py_pair_eqb str_eqb str_eqb cc c); reflexivity.
  - reflexivity.
Qed.

(** other._get_changed_class(key, C, slice_dim) on a content that holds [fo] *)
Lemma changed_o (oo : obj) (ho : hdr) (fo : key -> kst jv) (k : key) (c : cls) (sd : option nat) :
  Holds oo ho fo -> ndim_ok ho = true -> bases_ok ho -> kst_storable ho (fo k) ->
  get_changed_class_o classifications (shape ho) (n_slices ho) preserving_changes (JObj oo) k (Some (name_of_cls c)) sd
  = rmap (render c) (changed_class JNull ho (fo k) c sd).
Proof.
  intros HH Hok Hb Hst. rewrite get_changed_class_o_some, (get_changed_class_st_src oo ho fo HH Hok Hb).
  apply get_changed_class_src_eq; assumption.
Qed.

(** storing again under a key the class already holds *)
Lemma Holds_same_set (o1 : obj) (h : hdr) (f : key -> kst jv) (k : key) (c : cls) (old vals : list jv) :
  f k = Some (c, old) -> HoldsW o1 h (after_set f k c vals) -> Holds o1 h (upd f k (Some (c, vals))).
Proof.
  intros Hf. apply HoldsW_ext. intros c' k' _. unfold after_set, stored, upd, key_eqb.
  destruct (str_eqb k' k) eqn:E; [|rewrite andb_false_r; reflexivity].
  apply str_eqb_eq in E. subst k'. rewrite andb_true_r, Hf.
  destruct (cls_eqb_spec c' c) as [->|Hn]; [rewrite cls_eqb_refl; reflexivity|].
  destruct (cls_eqb_spec c c') as [Hx|_]; [exfalso; apply Hn; symmetry; exact Hx | reflexivity].
Qed.

(** * The interleaving tail (shared by the two general paths) *)

Local Open Scope res_scope.
Definition intlv_tail (self_shape : list nat) (self_n_slices other__n_slices : option nat) (st__ : jv) (key : str)
    (local_vals other_vals : jv) : res (unit * jv) :=
  let n_slices := self_n_slices in
  let other_n_slices := other__n_slices in
  let shape := self_shape in
  let n_vols := 1%nat in
  do c__30 <- py_for (pslice (Some (BPos 3%nat)) None shape) n_vols (fun dim_size n_vols =>
      let n_vols := (n_vols * dim_size)%nat in
      Ok (Next n_vols)
    );
  match c__30 with
  | Ret rv__41 => Ok rv__41
  | Next n_vols =>
    let intlv := (@nil _) in
    let loc_start := 0%nat in
    let oth_start := 0%nat in
    do c__39 <- py_for (py_range 0 n_vols) (intlv, loc_start, oth_start) (fun vol_idx '(intlv, loc_start, oth_start) =>
        do t__31 <- py_nat_o n_slices;
        do t__32 <- dyn_slice (Some (BPos loc_start)) (Some (BPos (loc_start + t__31)%nat)) local_vals;
        do t__33 <- dyn_iter t__32;
        let intlv := (intlv ++ t__33) in
        do t__34 <- py_nat_o other_n_slices;
        do t__35 <- dyn_slice (Some (BPos oth_start)) (Some (BPos (oth_start + t__34)%nat)) other_vals;
        do t__36 <- dyn_iter t__35;
        let intlv := (intlv ++ t__36) in
        do t__37 <- py_nat_o n_slices;
        let loc_start := (loc_start + t__37)%nat in
        do t__38 <- py_nat_o other_n_slices;
        let oth_start := (oth_start + t__38)%nat in
        Ok (Next (intlv, loc_start, oth_start))
      );
    match c__39 with
    | Ret rv__40 => Ok rv__40
    | Next (intlv, loc_start, oth_start) =>
      do st__ <- dyn_set2 st__ (fst ([103; 108; 111; 98; 97; 108]%N, [115; 108; 105; 99; 101; 115]%N)) (snd ([103; 108; 111; 98; 97; 108]%N, [115; 108; 105; 99; 101; 115]%N)) key (JArr intlv);
      Ok (tt, st__)
    end
  end.
Local Close Scope res_scope.

Lemma intlv_loop (n m : nat) (lv ov : list jv) (len : nat) : forall (a : nat) (acc : list jv),
  py_for (seq a len) (acc, a * n, a * m) (fun (vol_idx : nat) '(intlv, loc_start, oth_start) =>
      bind (py_nat_o (Some n)) (fun t19 =>
      bind (dyn_slice (Some (BPos loc_start)) (Some (BPos (loc_start + t19))) (JArr lv)) (fun t20 =>
      bind (dyn_iter t20) (fun t21 =>
      bind (py_nat_o (Some m)) (fun t22 =>
      bind (dyn_slice (Some (BPos oth_start)) (Some (BPos (oth_start + t22))) (JArr ov)) (fun t23 =>
      bind (dyn_iter t23) (fun t24 =>
      bind (py_nat_o (Some n)) (fun t25 =>
      bind (py_nat_o (Some m)) (fun t26 =>
      Ok (@Next (unit * jv) _ ((intlv ++ t21) ++ t24, loc_start + t25, oth_start + t26)))))))))))
  = Ok (Next (acc ++ flat_map (fun vol => py_slice (vol * n) (vol * n + n) lv ++ py_slice (vol * m) (vol * m + m) ov) (seq a len),
              (a + len) * n, (a + len) * m)).
Proof.
  induction len as [|len IH]; intros a acc.
  - cbn [seq py_for flat_map]. rewrite app_nil_r, Nat.add_0_r. reflexivity.
  - cbn [seq py_for flat_map py_nat_o bind dyn_slice dyn_iter]. rewrite !pslice_pos.
    replace (a * n + n) with (S a * n) by lia. replace (a * m + m) with (S a * m) by lia.
    rewrite IH. unfold py_slice. rewrite <- !app_assoc.
    replace ((S a + len) * n) with ((a + S len) * n) by lia. replace ((S a + len) * m) with ((a + S len) * m) by lia. reflexivity.
Qed.

Lemma intlv_tail_ref (o1 : obj) (hs : hdr) (f1 : key -> kst jv) (k : key) (old lv2 ov2 : list jv) (ns_o : option nat) :
  Holds o1 hs f1 -> f1 k = Some (GSlices, old) -> prod_list (skipn 3 (shape hs)) <> 0 ->
  match n_slices hs, ns_o with
  | Some n, Some m =>
      exists o', intlv_tail (shape hs) (n_slices hs) ns_o (JObj o1) k (JArr lv2) (JArr ov2) = Ok (tt, JObj o') /\
                 Holds o' hs (upd f1 k (Some (GSlices, interleave n m (prod_list (skipn 3 (shape hs))) lv2 ov2)))
  | _, _ => intlv_tail (shape hs) (n_slices hs) ns_o (JObj o1) k (JArr lv2) (JArr ov2) = Err EType
  end.
Proof.
  intros HH Hf Hnv. unfold intlv_tail. cbv zeta. rewrite pslice_from.
  rewrite (py_for_fold _ _ _ (fun n d => n * d)) by (intros; reflexivity).
  change (fold_left (fun n d : nat => n * d) (skipn 3 (shape hs)) 1) with (prod_list (skipn 3 (shape hs))).
  set (nv := prod_list (skipn 3 (shape hs))) in *. cbn [bind]. unfold py_range. rewrite Nat.sub_0_r.
  destruct (n_slices hs) as [n|]; [destruct ns_o as [m|]|].
  - pose proof (intlv_loop n m lv2 ov2 nv 0 []) as HL. cbn [Nat.mul app] in HL.
    match goal with |- context [py_for (seq 0 nv) ?s ?b] => set (L := py_for (seq 0 nv) s b) end.
    assert (HL' : L = Ok (Next (flat_map (fun vol => py_slice (vol * n) (vol * n + n) lv2 ++ py_slice (vol * m) (vol * m + m) ov2) (seq 0 nv),
                                (0 + nv) * n, (0 + nv) * m))) by exact HL.
    rewrite HL'. clear HL' L HL. cbn [bind fst snd].
    fold (interleave n m nv lv2 ov2).
    destruct (HoldsW_setkey o1 hs (stored f1) GSlices k (JArr (interleave n m nv lv2 ov2)) HH eq_refl) as [o' [E H]].
    change (@fst str str (name_of_cls GSlices)) with ([103; 108; 111; 98; 97; 108]%N) in E.
    change (@snd str str (name_of_cls GSlices)) with ([115; 108; 105; 99; 101; 115]%N) in E.
    rewrite E. cbn [bind]. exists o'. split; [reflexivity|].
    apply (Holds_same_set o' hs f1 k GSlices old _ Hf). exact H.
  - destruct nv as [|nv']; [exfalso; apply Hnv; reflexivity|]. reflexivity.
  - destruct nv as [|nv']; [exfalso; apply Hnv; reflexivity|]. reflexivity.
Qed.

Lemma valid_gslices (h : hdr) : ndim_ok h = true -> class_valid h GSlices = true.
Proof.
  intros H. unfold ndim_ok in H. apply andb_true_iff in H. destruct H as [H1 H2]. apply Nat.leb_le in H1. apply Nat.ltb_lt in H2.
  unfold class_valid. assert (E : ndim h = 3 \/ ndim h = 4 \/ ndim h = 5) by lia. destruct E as [E|[E|E]].
  - rewrite (valid_classes_3 h E). reflexivity.
  - rewrite (valid_classes_4 h E). reflexivity.
  - rewrite (valid_classes_5 h E). destruct (_ =? 1); reflexivity.
Qed.

(** reading the value a class dictionary stores for a key *)
Lemma read_stored (o : obj) (h : hdr) (f : key -> kst jv) (k : key) (c : cls) (vs : list jv) :
  Holds o h f -> f k = Some (c, vs) -> has_base h (base_of c) = true ->
  exists d, get_class_dict_st (JObj o) (name_of_cls c) = Ok (JObj d) /\ dyn_getitem (JObj d) k = Ok (render c vs).
Proof.
  intros HH Hf Hb. destruct (hw_dict _ _ _ HH c Hb) as [d [Hd [_ Hk]]]. exists d.
  split; [exact (get_class_dict_st_ok o c d Hd)|]. cbn [dyn_getitem]. rewrite Hk. unfold stored. rewrite Hf, cls_eqb_refl. reflexivity.
Qed.

Lemma upd_same' (f : key -> kst jv) (k : key) (s : kst jv) : upd f k s k = s.
Proof. unfold upd, key_eqb. rewrite str_eqb_refl. reflexivity. Qed.

Notation icode o oo hs ho k :=
  (insert_slice_st classifications (shape hs) (sdim hs) (n_slices hs) preserving_changes (JObj o) k
                   classifications (shape ho) (n_slices ho) preserving_changes (JObj oo)).

Section InsertSlice.
  Variables (o oo : obj) (hs ho : hdr) (f fo : key -> kst jv) (k : key).
  Hypothesis HH : Holds o hs f.
  Hypothesis HO : Holds oo ho fo.
  Hypothesis Hoks : ndim_ok hs = true.
  Hypothesis Hbs : bases_ok hs.
  Hypothesis Hoko : ndim_ok ho = true.
  Hypothesis Hbo : bases_ok ho.
  Hypothesis Hsto : kst_storable ho (fo k).
  Hypothesis Hnv : prod_list (skipn 3 (shape hs)) <> 0.


  Lemma general_path (c : cls) (lv ov : list jv) :
    f k = Some (c, lv) -> class_valid hs c = true -> kst_storable hs (f k) -> cls_eqb c GSlices = false ->
    match bind (to_global_slices JNull hs ho (f k) (fo k) c lv ov) (fun lo =>
          match n_slices hs, n_slices ho with
          | Some n, Some m => Ok (Some (GSlices, interleave n m (prod_list (skipn 3 (shape hs))) (fst lo) (snd lo)))
          | _, _ => Err EType
          end) with
    | Ok s' => exists o',
        bind (change_class_st classifications (shape hs) (n_slices hs) preserving_changes (JObj o) k (name_of_cls GSlices)) (fun p14 =>
        bind (get_class_dict_st (snd p14) (name_of_cls GSlices)) (fun t15 => bind (dyn_getitem t15 k) (fun t16 =>
        bind (get_changed_class_o classifications (shape ho) (n_slices ho) preserving_changes (JObj oo) k (Some (name_of_cls GSlices)) (sdim hs))
             (fun t17 => intlv_tail (shape hs) (n_slices hs) (n_slices ho) (snd p14) k t16 t17))))
        = Ok (tt, JObj o') /\ Holds o' hs (upd f k s')
    | Err e =>
        bind (change_class_st classifications (shape hs) (n_slices hs) preserving_changes (JObj o) k (name_of_cls GSlices)) (fun p14 =>
        bind (get_class_dict_st (snd p14) (name_of_cls GSlices)) (fun t15 => bind (dyn_getitem t15 k) (fun t16 =>
        bind (get_changed_class_o classifications (shape ho) (n_slices ho) preserving_changes (JObj oo) k (Some (name_of_cls GSlices)) (sdim hs))
             (fun t17 => intlv_tail (shape hs) (n_slices hs) (n_slices ho) (snd p14) k t16 t17))))
        = Err e
    end.
  Proof.
    intros Hf Hv Hst Hne.
    assert (Hvis : visible hs (f k) = Some (c, lv)) by (rewrite Hf; unfold visible; rewrite Hv; reflexivity).
    pose proof (valid_gslices hs Hoks) as Hvg. pose proof (Hbs GSlices Hvg) as Hbg.
    pose proof (change_class_st_ref o hs f k GSlices HH Hoks Hbs Hst ltac:(rewrite Hvis; symmetry; exact Hf)) as HC.
    unfold to_global_slices. rewrite Hne.
    destruct (change_class_k JNull hs (f k) GSlices) as [ks2|e] eqn:Eck; cbn [bind]; [|rewrite HC; reflexivity].
    destruct HC as [o1 [E1 H1]]. rewrite E1. cbn [bind snd].
    assert (Hks2 : exists vals, ks2 = Some (GSlices, vals)).
    { unfold change_class_k in Eck. rewrite Hvis in Eck. cbn [kst_class ocls_eqb] in Eck. rewrite Hne in Eck.
      destruct (changed_class JNull hs (f k) GSlices None) as [vals|]; [|discriminate Eck]. cbn [bind] in Eck. unfold put in Eck.
      rewrite Hbg in Eck. injection Eck as <-. exists vals. reflexivity. }
    destruct Hks2 as [vals ->]. unfold visible. rewrite Hvg.
    destruct (read_stored o1 hs (upd f k (Some (GSlices, vals))) k GSlices vals H1 (upd_same' f k _) Hbg) as [d [Ed Eg]].
    rewrite Ed. cbn [bind]. rewrite Eg. cbn [bind render].
    assert (Hsto' : kst_storable ho (fo k)) by exact Hsto.
    rewrite (changed_o oo ho fo k GSlices (sdim hs) HO Hoko Hbo Hsto').
    destruct (changed_class JNull ho (fo k) GSlices (sdim hs)) as [ov2|e]; cbn [rmap bind]; [|reflexivity].
    cbn [fst snd render].
    pose proof (intlv_tail_ref o1 hs (upd f k (Some (GSlices, vals))) k vals vals ov2 (n_slices ho) H1 (upd_same' f k _) Hnv) as HT.
    revert HT. destruct (n_slices hs) as [n|]; [destruct (n_slices ho) as [m|]|]; intros HT; try exact HT.
    destruct HT as [o' [E' H']]. exists o'. split; [exact E'|]. exact (upd_upd f k _ _ o' hs H').
  Qed.

  Lemma insert_slice_varying (c : cls) (lv : list jv) :
    f k = Some (c, lv) -> class_valid hs c = true -> kst_storable hs (f k) -> c <> GConst ->
    match insert_slice_k jv_eqb JNull hs ho (f k) (fo k) with
    | Ok s' => exists o', icode o oo hs ho k = Ok (tt, JObj o') /\ Holds o' hs (upd f k s')
    | Err e => icode o oo hs ho k = Err e
    end.
  Proof.
    intros Hf Hv Hst Hc.
    assert (Hvis : visible hs (f k) = Some (c, lv)) by (rewrite Hf; unfold visible; rewrite Hv; reflexivity).
    unfold insert_slice_st, insert_slice_k. rewrite (get_values_and_class_st_eq o hs f HH Hoks Hbs k). cbn [bind].
    unfold values_and_class_of. rewrite Hvis. cbv iota beta.
    rewrite (changed_o oo ho fo k c (sdim hs) HO Hoko Hbo Hsto).
    destruct (changed_class JNull ho (fo k) c (sdim hs)) as [ov|e]; cbn [rmap bind]; [|reflexivity].
    cbn [py_option_eqb].
    change ([103; 108; 111; 98; 97; 108]%N, [99; 111; 110; 115; 116]%N) with (name_of_cls GConst).
    change ([116; 105; 109; 101]%N, [115; 108; 105; 99; 101; 115]%N) with (name_of_cls TSlices).
    change ([103; 108; 111; 98; 97; 108]%N, [115; 108; 105; 99; 101; 115]%N) with (name_of_cls GSlices).
    rewrite !cname_eq_cls.
    pose proof (Hbs c Hv) as Hbc.
    pose proof (valid_gslices hs Hoks) as Hvg.
    destruct c; [exfalso; apply Hc; reflexivity| | | | |]; cbn [cls_eqb negb py_the bind].
    - (* global slices: interleave directly *)
      unfold to_global_slices. cbn [cls_eqb bind fst snd render].
      pose proof (intlv_tail_ref o hs f k lv lv ov (n_slices ho) HH Hf Hnv) as HT. revert HT.
      destruct (n_slices hs) as [n|]; [destruct (n_slices ho) as [m|]|]; intros HT; exact HT.
    - exact (general_path TSamples lv ov Hf Hv Hst eq_refl).
    - (* time slices: the new values go at the end *)
      cbn [render dyn_extend dyn_iter bind py_some].
      destruct (HoldsW_setkey o hs (stored f) TSlices k (JArr (lv ++ ov)) HH Hbc) as [o' [E H]].
      rewrite E. cbn [bind]. exists o'. split; [reflexivity|]. apply (Holds_same_set o' hs f k TSlices lv _ Hf). exact H.
    - exact (general_path VSamples lv ov Hf Hv Hst eq_refl).
    - exact (general_path VSlices lv ov Hf Hv Hst eq_refl).
  Qed.
End InsertSlice.

Theorem insert_slice_st_ref (o oo : obj) (hs ho : hdr) (f fo : key -> kst jv) (k : key) (c : cls) (lv : list jv) :
  Holds o hs f -> Holds oo ho fo -> ndim_ok hs = true -> bases_ok hs -> ndim_ok ho = true -> bases_ok ho ->
  kst_storable ho (fo k) -> prod_list (skipn 3 (shape hs)) <> 0 ->
  f k = Some (c, lv) -> class_valid hs c = true -> kst_storable hs (f k) -> c <> GConst ->
  match insert_slice_k jv_eqb JNull hs ho (f k) (fo k) with
  | Ok s' => exists o', icode o oo hs ho k = Ok (tt, JObj o') /\ Holds o' hs (upd f k s')
  | Err e => icode o oo hs ho k = Err e
  end.
Proof. intros H1 H2 H3 H4 H5 H6 H7 H8. exact (insert_slice_varying o oo hs ho f fo k H1 H2 H3 H4 H5 H6 H7 H8 c lv). Qed.

(** * The ('global','const') path of _insert_slice *)

Lemma changed_const_len (h : hdr) (s : kst jv) (sd : option nat) (ov : list jv) :
  kst_storable h s -> changed_class JNull h s GConst sd = Ok ov -> length ov = 1.
Proof.
  unfold kst_storable, changed_class. intros Hst H.
  destruct (visible h s) as [[c vs]|] eqn:Ev; cbn [kst_class] in H.
  - destruct (ocls_eqb (Some c) (Some GConst)) eqn:Ec.
    + injection H as <-. cbn [ocls_eqb] in Ec. apply cls_eqb_eq in Ec. subst c. exact Hst.
    + destruct (preserving (Some c)); [|discriminate H]. destruct (negb _); [discriminate H|].
      destruct (multiplicity h c); [|discriminate H]. cbn [bind] in H.
      match type of H with bind ?x _ = _ => destruct x end; [|discriminate H]. cbn [bind] in H.
      destruct (_ =? 0); [discriminate H|]. cbn [cls_eqb] in H.
      match type of H with bind ?x _ = _ => destruct x end; [|discriminate H]. injection H as <-. reflexivity.
  - cbn [ocls_eqb] in H. destruct (preserving None); [|discriminate H]. destruct (negb _); [discriminate H|]. cbn [bind] in H.
    match type of H with bind ?x _ = _ => destruct x end; [|discriminate H]. cbn [bind] in H.
    destruct (_ =? 0); [discriminate H|]. cbn [cls_eqb] in H.
    match type of H with bind ?x _ = _ => destruct x end; [|discriminate H]. injection H as <-. reflexivity.
Qed.

Lemma changed_o' (oo : obj) (ho : hdr) (fo : key -> kst jv) (k : key) (c : cls) (sd : option nat) :
  Holds oo ho fo -> ndim_ok ho = true -> bases_ok ho -> kst_storable ho (fo k) ->
  get_changed_class_o classifications (shape ho) (n_slices ho) preserving_changes (JObj oo) k (@Some (str * str)%type (name_of_cls c)) sd
  = rmap (render c) (changed_class JNull ho (fo k) c sd).
Proof. exact (changed_o oo ho fo k c sd). Qed.

Section InsertConst.
  Variables (o oo : obj) (hs ho : hdr) (f fo : key -> kst jv) (k : key).
  Hypothesis HH : Holds o hs f.
  Hypothesis HO : Holds oo ho fo.
  Hypothesis Hoks : ndim_ok hs = true.
  Hypothesis Hbs : bases_ok hs.
  Hypothesis Hoko : ndim_ok ho = true.
  Hypothesis Hbo : bases_ok ho.
  Hypothesis Hsto : kst_storable ho (fo k).
  Variable v : jv.
  Hypothesis Hf : f k = Some (GConst, [v]).
  Hypothesis Hv : class_valid hs GConst = true.

  (** what the loop does for the first base dictionary that exists *)
  Definition const_body (base : str) (st : jv) : res (ctlb (unit * jv) (jv * jv)) :=
    bind (change_class_st classifications (shape hs) (n_slices hs) preserving_changes st k (base, ([115; 108; 105; 99; 101; 115]%N : str))) (fun p4 =>
    bind (get_changed_class_o classifications (shape ho) (n_slices ho) preserving_changes (JObj oo) k
                              (Some (base, ([115; 108; 105; 99; 101; 115]%N : str))) (sdim hs)) (fun t5 =>
    bind (get_values_st classifications (shape hs) (snd p4) k) (fun t6 =>
    bind (dyn_extend t6 t5) (fun t7 =>
    bind (get_classification_st classifications (shape hs) (snd p4) k) (fun t8 =>
    bind (py_some t8) (fun t9 =>
    bind (dyn_set2 (snd p4) (fst t9) (snd t9) k t7) (fun st' => Ok (BrkB (t5, st')))))))))%res.

  Lemma const_step (b : cbase) : has_base hs b = true ->
    match bind (change_class_k JNull hs (f k) (slices_of_base b)) (fun ks2 =>
          bind (changed_class JNull ho (fo k) (slices_of_base b) (sdim hs)) (fun ov2 =>
          match visible hs ks2 with Some (c2, lv2) => Ok (Some (c2, lv2 ++ ov2)) | None => Err EAttr end)) with
    | Ok s' => exists o' x, const_body (name_of_base b) (JObj o) = Ok (BrkB (x, JObj o')) /\ Holds o' hs (upd f k s')
    | Err e => const_body (name_of_base b) (JObj o) = Err e
    end.
  Proof.
    intros Hb. set (dc := slices_of_base b).
    assert (Hname : (name_of_base b, ([115; 108; 105; 99; 101; 115]%N : str)) = name_of_cls dc) by (destruct b; reflexivity).
    assert (Hbd : has_base hs (base_of dc) = true) by (destruct b; exact Hb).
    assert (Hdc : dc <> GConst) by (destruct b; discriminate).
    assert (Hvis : visible hs (f k) = Some (GConst, [v])) by (rewrite Hf; unfold visible; rewrite Hv; reflexivity).
    assert (Hst : kst_storable hs (f k)) by (unfold kst_storable; rewrite Hvis; reflexivity).
    unfold const_body. rewrite Hname.
    pose proof (change_class_st_ref o hs f k dc HH Hoks Hbs Hst ltac:(rewrite Hvis; symmetry; exact Hf)) as HC.
    destruct (change_class_k JNull hs (f k) dc) as [ks2|e] eqn:Eck; cbn [bind]; [|rewrite HC; reflexivity].
    destruct HC as [o1 [E1 H1]]. rewrite E1. cbn [bind snd].
    assert (Hks2 : exists vals, ks2 = Some (dc, vals)).
    { unfold change_class_k in Eck. rewrite Hvis in Eck. cbn [kst_class ocls_eqb] in Eck.
      replace (cls_eqb GConst dc) with false in Eck by (destruct b; reflexivity).
      destruct (changed_class JNull hs (f k) dc None) as [vals|]; [|discriminate Eck]. cbn [bind] in Eck. unfold put in Eck.
      rewrite Hbd in Eck. injection Eck as <-. exists vals. reflexivity. }
    destruct Hks2 as [vals ->].
    rewrite (changed_o' oo ho fo k dc (sdim hs) HO Hoko Hbo Hsto).
    destruct (changed_class JNull ho (fo k) dc (sdim hs)) as [ov2|e]; cbn [rmap bind]; [|reflexivity].
    set (f1 := upd f k (Some (dc, vals))) in *.
    assert (Hf1 : f1 k = Some (dc, vals)) by (unfold f1; apply upd_same').
    unfold get_values_st. rewrite (get_classification_st_eq o1 hs f1 H1 Hoks Hbs k), Hf1. cbn [bind].
    unfold visible. destruct (class_valid hs dc) eqn:Evd; cbn [kst_class option_map].
    - destruct (read_stored o1 hs f1 k dc vals H1 Hf1 Hbd) as [d [Ed Eg]]. rewrite Ed. cbn [bind]. rewrite Eg. cbn [bind].
      replace (render dc vals) with (JArr vals) by (destruct b; reflexivity).
      replace (render dc ov2) with (JArr ov2) by (destruct b; reflexivity).
      cbn [dyn_extend dyn_iter bind py_some].
      destruct (HoldsW_setkey o1 hs (stored f1) dc k (JArr (vals ++ ov2)) H1 Hbd) as [o' [E' H']].
      rewrite E'. cbn [bind]. exists o', (JArr ov2). split; [reflexivity|].
      apply (upd_upd f k (Some (dc, vals))). apply (Holds_same_set o' hs f1 k dc vals _ Hf1).
      replace (JArr (vals ++ ov2)) with (render dc (vals ++ ov2)) in H' by (destruct b; reflexivity). exact H'.
    - reflexivity.
  Qed.

  Lemma Holds_upd_same : Holds o hs (upd f k (f k)).
  Proof.
    apply (HoldsW_ext _ _ (stored f)); [|exact HH]. intros c' k' _. unfold stored, upd, key_eqb.
    destruct (str_eqb k' k) eqn:E; [|reflexivity]. apply str_eqb_eq in E. subst k'. reflexivity.
  Qed.

  Lemma const_loop (w : jv) :
    match (match find (has_base hs) [BTime; BVector; BGlobal] with
           | None => Ok (f k)
           | Some b => bind (change_class_k JNull hs (f k) (slices_of_base b)) (fun ks2 =>
                       bind (changed_class JNull ho (fo k) (slices_of_base b) (sdim hs)) (fun ov2 =>
                       match visible hs ks2 with Some (c2, lv2) => Ok (Some (c2, lv2 ++ ov2)) | None => Err EAttr end))
           end) with
    | Ok s' => exists o',
        bind (py_for_b [[116; 105; 109; 101]%N; [118; 101; 99; 116; 111; 114]%N; [103; 108; 111; 98; 97; 108]%N] (w, JObj o)
                (fun dest_base '(ovs, st) => bind (dyn_contains st (JStr dest_base)) (fun t3 =>
                   if t3 then const_body dest_base st else Ok (NextB (ovs, st)))))
             (fun c10 => match c10 with RetB rv => Ok rv | BrkB (_, st) | NextB (_, st) => Ok (tt, st) end)
        = Ok (tt, JObj o') /\ Holds o' hs (upd f k s')
    | Err e =>
        bind (py_for_b [[116; 105; 109; 101]%N; [118; 101; 99; 116; 111; 114]%N; [103; 108; 111; 98; 97; 108]%N] (w, JObj o)
                (fun dest_base '(ovs, st) => bind (dyn_contains st (JStr dest_base)) (fun t3 =>
                   if t3 then const_body dest_base st else Ok (NextB (ovs, st)))))
             (fun c10 => match c10 with RetB rv => Ok rv | BrkB (_, st) | NextB (_, st) => Ok (tt, st) end)
        = Err e
    end.
  Proof.
    pose proof (has_base_contains o hs _ TSlices HH) as Ct. pose proof (has_base_contains o hs _ VSlices HH) as Cv.
    pose proof (has_base_contains o hs _ GSlices HH) as Cg.
    change (@fst str str (name_of_cls TSlices)) with ([116; 105; 109; 101]%N) in Ct.
    change (@fst str str (name_of_cls VSlices)) with ([118; 101; 99; 116; 111; 114]%N) in Cv.
    change (@fst str str (name_of_cls GSlices)) with ([103; 108; 111; 98; 97; 108]%N) in Cg.
    cbn [base_of] in Ct, Cv, Cg. cbn [find py_for_b]. rewrite Ct. cbn [bind].
    destruct (has_base hs BTime) eqn:Bt.
    { pose proof (const_step BTime Bt) as HS. change (name_of_base BTime) with ([116; 105; 109; 101]%N) in HS.
      match type of HS with match ?m with _ => _ end => destruct m end.
      - destruct HS as [o' [x [E H]]]. rewrite E. cbn [bind]. exists o'. split; [reflexivity | exact H].
      - rewrite HS. reflexivity. }
    cbn [bind py_for_b]. rewrite Cv. cbn [bind]. destruct (has_base hs BVector) eqn:Bv.
    { pose proof (const_step BVector Bv) as HS. change (name_of_base BVector) with ([118; 101; 99; 116; 111; 114]%N) in HS.
      match type of HS with match ?m with _ => _ end => destruct m end.
      - destruct HS as [o' [x [E H]]]. rewrite E. cbn [bind]. exists o'. split; [reflexivity | exact H].
      - rewrite HS. reflexivity. }
    cbn [bind py_for_b]. rewrite Cg. cbn [bind]. destruct (has_base hs BGlobal) eqn:Bg.
    { pose proof (const_step BGlobal Bg) as HS. change (name_of_base BGlobal) with ([103; 108; 111; 98; 97; 108]%N) in HS.
      match type of HS with match ?m with _ => _ end => destruct m end.
      - destruct HS as [o' [x [E H]]]. rewrite E. cbn [bind]. exists o'. split; [reflexivity | exact H].
      - rewrite HS. reflexivity. }
    cbn [bind]. exists o. split; [reflexivity | exact Holds_upd_same].
  Qed.

  Theorem insert_slice_const :
    match insert_slice_k jv_eqb JNull hs ho (f k) (fo k) with
    | Ok s' => exists o', icode o oo hs ho k = Ok (tt, JObj o') /\ Holds o' hs (upd f k s')
    | Err e => icode o oo hs ho k = Err e
    end.
  Proof.
    assert (Hvis : visible hs (f k) = Some (GConst, [v])) by (rewrite Hf; unfold visible; rewrite Hv; reflexivity).
    unfold insert_slice_st, insert_slice_k. rewrite (get_values_and_class_st_eq o hs f HH Hoks Hbs k). cbn [bind].
    unfold values_and_class_of. rewrite Hvis. cbv iota beta.
    rewrite (changed_o oo ho fo k GConst (sdim hs) HO Hoko Hbo Hsto).
    destruct (changed_class JNull ho (fo k) GConst (sdim hs)) as [ov|e] eqn:Eov; cbn [rmap bind]; [|reflexivity].
    pose proof (changed_const_len ho (fo k) (sdim hs) ov Hsto Eov) as Hlen.
    destruct ov as [|w [|w2 r]]; try discriminate Hlen. clear Hlen.
    cbn [render hd list_eqb py_option_eqb py_the bind]. rewrite andb_true_r.
    change (py_pair_eqb str_eqb str_eqb (name_of_cls GConst) ([103; 108; 111; 98; 97; 108]%N, [99; 111; 110; 115; 116]%N)) with true.
    cbv iota. destruct (jv_eqb v w); cbn [negb].
    - exists o. split; [reflexivity | exact Holds_upd_same].
    - rewrite (proj2 (proj2 (proj2 copy_dests_eq))). exact (const_loop w).
  Qed.
End InsertConst.

(** * _insert_slice, every classification of the local key *)
Theorem insert_slice_st_all (o oo : obj) (hs ho : hdr) (f fo : key -> kst jv) (k : key) (c : cls) (lv : list jv) :
  Holds o hs f -> Holds oo ho fo -> ndim_ok hs = true -> bases_ok hs -> ndim_ok ho = true -> bases_ok ho ->
  kst_storable ho (fo k) -> prod_list (skipn 3 (shape hs)) <> 0 ->
  f k = Some (c, lv) -> class_valid hs c = true -> kst_storable hs (f k) ->
  match insert_slice_k jv_eqb JNull hs ho (f k) (fo k) with
  | Ok s' => exists o', icode o oo hs ho k = Ok (tt, JObj o') /\ Holds o' hs (upd f k s')
  | Err e => icode o oo hs ho k = Err e
  end.
Proof.
  intros H1 H2 H3 H4 H5 H6 H7 H8 Hf Hv Hst.
  destruct (cls_eqb_spec c GConst) as [->|Hc].
  - assert (Hl : length lv = 1).
    { unfold kst_storable in Hst. rewrite Hf in Hst. unfold visible in Hst. rewrite Hv in Hst. exact Hst. }
    destruct lv as [|v [|v2 r]]; try discriminate Hl.
    exact (insert_slice_const o oo hs ho f fo k H1 H2 H3 H4 H5 H6 H7 v Hf Hv).
  - exact (insert_slice_varying o oo hs ho f fo k H1 H2 H3 H4 H5 H6 H7 H8 c lv Hf Hv Hst Hc).
Qed.

(** * _insert_non_slice *)

Lemma jarr_eqb (a b : list jv) : jv_eqb (JArr a) (JArr b) = list_eqb jv_eqb a b.
Proof.
  apply eq_true_iff_eq. rewrite jv_eqb_eq, (list_eqb_eq jv_eqb jv_eqb_spec). split; [intros H; injection H as ->; reflexivity | intros ->; reflexivity].
Qed.

(** comparing what the code compares (the stored values) is comparing the value lists of the model *)
Lemma render_eqb (c : cls) (lv ov : list jv) : (c = GConst -> length lv = 1 /\ length ov = 1) ->
  jv_eqb (render c lv) (render c ov) = list_eqb jv_eqb lv ov.
Proof.
  intros H. destruct c; try apply jarr_eqb.
  destruct (H eq_refl) as [H1 H2]. destruct lv as [|a [|a2 r]]; try discriminate H1. destruct ov as [|b [|b2 r]]; try discriminate H2.
  cbn [render hd list_eqb]. rewrite andb_true_r. reflexivity.
Qed.

Notation ncode o oo hs ho k :=
  (insert_non_slice_st classifications (shape hs) (sdim hs) (JObj o) k
                       classifications (shape ho) (n_slices ho) preserving_changes (JObj oo)).

Theorem insert_non_slice_st_ref (o oo : obj) (hs ho : hdr) (f fo : key -> kst jv) (k : key) (c : cls) (lv : list jv) :
  Holds o hs f -> Holds oo ho fo -> ndim_ok hs = true -> bases_ok hs -> ndim_ok ho = true -> bases_ok ho ->
  kst_storable ho (fo k) ->
  f k = Some (c, lv) -> class_valid hs c = true -> kst_storable hs (f k) ->
  match insert_non_slice_k jv_eqb JNull hs ho (f k) (fo k) with
  | Ok s' => exists o', ncode o oo hs ho k = Ok (tt, JObj o') /\ Holds o' hs (upd f k s')
  | Err e => ncode o oo hs ho k = Err e
  end.
Proof.
  intros HH HO Hoks Hbs Hoko Hbo Hsto Hf Hv Hst.
  assert (Hvis : visible hs (f k) = Some (c, lv)) by (rewrite Hf; unfold visible; rewrite Hv; reflexivity).
  unfold insert_non_slice_st, insert_non_slice_k. rewrite (get_values_and_class_st_eq o hs f HH Hoks Hbs k). cbn [bind].
  unfold values_and_class_of. rewrite Hvis. cbv iota beta.
  rewrite (changed_o oo ho fo k c (sdim hs) HO Hoko Hbo Hsto).
  destruct (changed_class JNull ho (fo k) c (sdim hs)) as [ov|e] eqn:Eov; cbn [rmap bind]; [|reflexivity].
  rewrite render_eqb.
  2:{ intros ->. split; [|exact (changed_const_len ho (fo k) (sdim hs) ov Hsto Eov)].
      unfold kst_storable in Hst. rewrite Hvis in Hst. exact Hst. }
  destruct (list_eqb jv_eqb lv ov); cbn [negb].
  - exists o. split; [reflexivity | exact (Holds_upd_same o hs f k HH)].
  - cbn [py_some bind].
    destruct (HoldsW_delkey o hs (stored f) c k HH (Hbs c Hv)) as [o' [E H]].
    { unfold stored. rewrite Hf, cls_eqb_refl. discriminate. }
    rewrite E. cbn [bind]. exists o'. split; [reflexivity|].
    unfold Holds. eapply HoldsW_ext; [|exact H]. intros c' k' _. cbv beta. unfold stored, upd, key_eqb.
    destruct (str_eqb k' k) eqn:Ek; [|rewrite andb_false_r; reflexivity].
    apply str_eqb_eq in Ek. subst k'. rewrite andb_true_r, Hf.
    destruct (cls_eqb_spec c' c) as [->|Hn]; [reflexivity|].
    destruct (cls_eqb_spec c c') as [Hx|_]; [exfalso; apply Hn; symmetry; exact Hx | reflexivity].
Qed.

(** * _insert_sample *)

Local Open Scope res_scope.
Definition sample_tail (self_shape : list nat) (self_n_slices : option nat) (other__shape : list nat) (sample_base : str) (st__ : jv)
    (key : str) (local_vals other_vals : jv) (local_vals__vc : option (str * str)) (local_vals__vk : str) : res (unit * jv) :=
  let shape := self_shape in
  let n_dims := (List.length shape) in
  if (andb (str_eqb sample_base [116; 105; 109; 101]%N) (Nat.eqb n_dims 5%nat)) then
    let n_slices := self_n_slices in
    do t__28 <- py_index shape (BPos 3%nat);
    do t__29 <- py_nat_o n_slices;
    let slices_per_vec := (t__29 * t__28)%nat in
    do t__30 <- py_index other__shape (BPos 3%nat);
    do t__31 <- py_nat_o n_slices;
    let oth_slc_per_vec := (t__31 * t__30)%nat in
    let intlv := (@nil _) in
    let loc_start := 0%nat in
    let oth_start := 0%nat in
    do t__32 <- py_index shape (BPos 4%nat);
    do c__37 <- py_for (py_range 0 t__32) (intlv, loc_start, oth_start) (fun vec_idx '(intlv, loc_start, oth_start) =>
        do t__33 <- dyn_slice (Some (BPos loc_start)) (Some (BPos (loc_start + slices_per_vec)%nat)) local_vals;
        do t__34 <- dyn_iter t__33;
        let intlv := (intlv ++ t__34) in
        do t__35 <- dyn_slice (Some (BPos oth_start)) (Some (BPos (oth_start + oth_slc_per_vec)%nat)) other_vals;
        do t__36 <- dyn_iter t__35;
        let intlv := (intlv ++ t__36) in
        let loc_start := (loc_start + slices_per_vec)%nat in
        let oth_start := (oth_start + oth_slc_per_vec)%nat in
        Ok (Next (intlv, loc_start, oth_start))
      );
    match c__37 with
    | Ret rv__38 => Ok rv__38
    | Next (intlv, loc_start, oth_start) =>
      do st__ <- dyn_set2 st__ (fst ([103; 108; 111; 98; 97; 108]%N, [115; 108; 105; 99; 101; 115]%N)) (snd ([103; 108; 111; 98; 97; 108]%N, [115; 108; 105; 99; 101; 115]%N)) key (JArr intlv);
      Ok (tt, st__)
    end
  else
    do t__39 <- dyn_extend local_vals other_vals;
    do t__40 <- py_some local_vals__vc;
    let local_vals := t__39 in
    do st__ <- dyn_set2 st__ (fst t__40) (snd t__40) local_vals__vk local_vals;
    Ok (tt, st__).
Local Close Scope res_scope.

Lemma base_names_eq' (b' b : cbase) : str_eqb (name_of_base b') (name_of_base b) = cbase_eqb b' b.
Proof. destruct b', b; reflexivity. Qed.

Lemma sample_loop (a b : nat) (lv ov : list jv) (len : nat) : forall (i : nat) (acc : list jv),
  py_for (seq i len) (acc, i * a, i * b) (fun (vec_idx : nat) '(intlv, loc_start, oth_start) =>
      bind (dyn_slice (Some (BPos loc_start)) (Some (BPos (loc_start + a))) (JArr lv)) (fun t20 =>
      bind (dyn_iter t20) (fun t21 =>
      bind (dyn_slice (Some (BPos oth_start)) (Some (BPos (oth_start + b))) (JArr ov)) (fun t23 =>
      bind (dyn_iter t23) (fun t24 =>
      Ok (@Next (unit * jv) _ ((intlv ++ t21) ++ t24, loc_start + a, oth_start + b)))))))
  = Ok (Next (acc ++ flat_map (fun vol => py_slice (vol * a) (vol * a + a) lv ++ py_slice (vol * b) (vol * b + b) ov) (seq i len),
              (i + len) * a, (i + len) * b)).
Proof. exact (intlv_loop a b lv ov len). Qed.

(** what the model does with the two value lists once the key is in ('global','slices') *)
Definition tail_model (hs : hdr) (oshape : list nat) (sb : cbase) (lv2 ov2 : list jv) : res (kst jv) :=
  if cbase_eqb sb BTime && (ndim hs =? 5) then
    match n_slices hs with
    | None => Err EType
    | Some n => match shape_at hs 3, nth_error oshape 3, shape_at hs 4 with
                | Some t, Some ot, Some v => Ok (Some (GSlices, interleave (n * t) (n * ot) v lv2 ov2))
                | _, _, _ => Err EIndex
                end
    end
  else Ok (Some (GSlices, lv2 ++ ov2)).

Lemma sample_tail_ref (o1 : obj) (hs : hdr) (oshape : list nat) (f1 : key -> kst jv) (k : key) (old lv2 ov2 : list jv) (sb : cbase) :
  Holds o1 hs f1 -> f1 k = Some (GSlices, old) -> has_base hs BGlobal = true ->
  match tail_model hs oshape sb lv2 ov2 with
  | Ok s' => exists o', sample_tail (shape hs) (n_slices hs) oshape (name_of_base sb) (JObj o1) k (JArr lv2) (JArr ov2)
                                    (Some (name_of_cls GSlices)) k = Ok (tt, JObj o') /\ Holds o' hs (upd f1 k s')
  | Err e => sample_tail (shape hs) (n_slices hs) oshape (name_of_base sb) (JObj o1) k (JArr lv2) (JArr ov2)
                         (Some (name_of_cls GSlices)) k = Err e
  end.
Proof.
  intros HH Hf Hbg. unfold sample_tail, tail_model. cbv zeta.
  change ([116; 105; 109; 101]%N) with (name_of_base BTime). rewrite base_names_eq'. fold (ndim hs).
  assert (Hstore : forall vals, exists o', dyn_set2 (JObj o1) [103; 108; 111; 98; 97; 108]%N [115; 108; 105; 99; 101; 115]%N k (JArr vals) = Ok (JObj o') /\
                                           Holds o' hs (upd f1 k (Some (GSlices, vals)))).
  { intros vals. destruct (HoldsW_setkey o1 hs (stored f1) GSlices k (JArr vals) HH Hbg) as [o' [E H]].
    exists o'. split; [exact E|]. apply (Holds_same_set o' hs f1 k GSlices old _ Hf). exact H. }
  destruct (cbase_eqb sb BTime && (ndim hs =? 5)) eqn:E5.
  - apply andb_true_iff in E5. destruct E5 as [_ E5]. apply Nat.eqb_eq in E5. unfold ndim in E5. unfold shape_at.
    destruct (shape hs) as [|a1 [|a2 [|a3 [|t [|v [|x r]]]]]]; try discriminate E5.
    unfold py_index. remember (nth_error oshape 3) as no3. cbn [nth_error bind].
    destruct (n_slices hs) as [n|]; cbn [py_nat_o bind]; [|reflexivity].
    destruct no3 as [ot|]; cbn [bind]; [|reflexivity].
    unfold py_range. rewrite Nat.sub_0_r.
    pose proof (sample_loop (n * t) (n * ot) lv2 ov2 v 0 []) as HL. cbn [Nat.mul app] in HL.
    match goal with |- context [py_for (seq 0 v) ?s ?b] => set (L := py_for (seq 0 v) s b) end.
    assert (HL' : L = Ok (Next (flat_map (fun vol => py_slice (vol * (n * t)) (vol * (n * t) + n * t) lv2
                                                       ++ py_slice (vol * (n * ot)) (vol * (n * ot) + n * ot) ov2) (seq 0 v),
                                (0 + v) * (n * t), (0 + v) * (n * ot)))) by exact HL.
    rewrite HL'. clear HL' L HL. cbn [bind fst snd]. fold (interleave (n * t) (n * ot) v lv2 ov2).
    destruct (Hstore (interleave (n * t) (n * ot) v lv2 ov2)) as [o' [E H]].
    rewrite E. cbn [bind]. exists o'. split; [reflexivity | exact H].
  - cbn [dyn_extend dyn_iter bind py_some fst snd name_of_cls].
    destruct (Hstore (lv2 ++ ov2)) as [o' [E H]].
    change (name_of_base (base_of GSlices)) with ([103; 108; 111; 98; 97; 108]%N).
    change (name_of_sub (sub_of GSlices)) with ([115; 108; 105; 99; 101; 115]%N).
    rewrite E. cbn [bind]. exists o'. split; [reflexivity | exact H].
Qed.

(** self.get_values(key) / self.get_classification(key) on a content that holds f1 *)
Lemma read_after (o1 : obj) (hs : hdr) (f1 : key -> kst jv) (k : key) (dc : cls) (vals : list jv) :
  Holds o1 hs f1 -> ndim_ok hs = true -> bases_ok hs -> f1 k = Some (dc, vals) -> has_base hs (base_of dc) = true ->
  get_classification_st classifications (shape hs) (JObj o1) k = Ok (if class_valid hs dc then Some (name_of_cls dc) else None) /\
  get_values_st classifications (shape hs) (JObj o1) k = Ok (if class_valid hs dc then render dc vals else JNull).
Proof.
  intros H1 Hok Hb Hf1 Hbd.
  assert (Hc : get_classification_st classifications (shape hs) (JObj o1) k = Ok (if class_valid hs dc then Some (name_of_cls dc) else None)).
  { rewrite (get_classification_st_eq o1 hs f1 H1 Hok Hb k), Hf1. unfold visible. destruct (class_valid hs dc); reflexivity. }
  split; [exact Hc|]. unfold get_values_st. rewrite Hc. cbn [bind]. destruct (class_valid hs dc); [|reflexivity].
  destruct (read_stored o1 hs f1 k dc vals H1 Hf1 Hbd) as [d [Ed Eg]]. rewrite Ed. cbn [bind]. rewrite Eg. reflexivity.
Qed.

Lemma after_change (hs : hdr) (s ks2 : kst jv) (c dc : cls) (lv : list jv) :
  visible hs s = Some (c, lv) -> cls_eqb c dc = false -> change_class_k JNull hs s dc = Ok ks2 ->
  exists vals, ks2 = Some (dc, vals) /\ has_base hs (base_of dc) = true.
Proof.
  intros Hvis Hne Eck. unfold change_class_k in Eck. rewrite Hvis in Eck. cbn [kst_class ocls_eqb] in Eck. rewrite Hne in Eck.
  destruct (changed_class JNull hs s dc None) as [vals|]; [|discriminate Eck]. cbn [bind] in Eck. unfold put in Eck.
  destruct (has_base hs (base_of dc)); [|discriminate Eck]. injection Eck as <-. exists vals. split; reflexivity.
Qed.

Notation scode o oo hs ho k sb :=
  (insert_sample_st classifications (shape hs) (sdim hs) (n_slices hs) preserving_changes (JObj o) k
                    classifications (shape ho) (n_slices ho) preserving_changes (JObj oo) (name_of_base sb)).

Section InsertSample.
  Variables (o oo : obj) (hs ho : hdr) (f fo : key -> kst jv) (k : key).
  Hypothesis HH : Holds o hs f.
  Hypothesis HO : Holds oo ho fo.
  Hypothesis Hoks : ndim_ok hs = true.
  Hypothesis Hbs : bases_ok hs.
  Hypothesis Hoko : ndim_ok ho = true.
  Hypothesis Hbo : bases_ok ho.
  Hypothesis Hsto : kst_storable ho (fo k).

  (** change the class of the key to dc, read it back, get other's values in class dc, extend and store *)
  Definition change_extend (dcn : str * str) (st : jv) : res (unit * jv) :=
    bind (change_class_st classifications (shape hs) (n_slices hs) preserving_changes st k dcn) (fun p3 =>
    bind (get_values_st classifications (shape hs) (snd p3) k) (fun t4 =>
    bind (get_classification_st classifications (shape hs) (snd p3) k) (fun t5 =>
    bind (get_changed_class_o classifications (shape ho) (n_slices ho) preserving_changes (JObj oo) k (Some dcn) (sdim hs)) (fun t6 =>
    bind (dyn_extend t4 t6) (fun t7 =>
    bind (py_some t5) (fun t8 =>
    bind (dyn_set2 (snd p3) (fst t8) (snd t8) k t7) (fun st' => Ok (tt, st')))))))).

  Lemma change_extend_ref (c dc : cls) (lv : list jv) :
    f k = Some (c, lv) -> class_valid hs c = true -> kst_storable hs (f k) -> cls_eqb c dc = false -> dc <> GConst ->
    match bind (change_class_k JNull hs (f k) dc) (fun ks2 =>
          bind (changed_class JNull ho (fo k) dc (sdim hs)) (fun ov2 =>
          match visible hs ks2 with Some (c2, lv2) => Ok (Some (c2, lv2 ++ ov2)) | None => Err EAttr end)) with
    | Ok s' => exists o', change_extend (name_of_cls dc) (JObj o) = Ok (tt, JObj o') /\ Holds o' hs (upd f k s')
    | Err e => change_extend (name_of_cls dc) (JObj o) = Err e
    end.
  Proof.
    intros Hf Hv Hst Hne Hdc.
    assert (Hvis : visible hs (f k) = Some (c, lv)) by (rewrite Hf; unfold visible; rewrite Hv; reflexivity).
    unfold change_extend.
    pose proof (change_class_st_ref o hs f k dc HH Hoks Hbs Hst ltac:(rewrite Hvis; symmetry; exact Hf)) as HC.
    destruct (change_class_k JNull hs (f k) dc) as [ks2|e] eqn:Eck; cbn [bind]; [|rewrite HC; reflexivity].
    destruct HC as [o1 [E1 H1]]. rewrite E1. cbn [bind snd].
    destruct (after_change hs (f k) ks2 c dc lv Hvis Hne Eck) as [vals [-> Hbd]].
    set (f1 := upd f k (Some (dc, vals))) in *.
    assert (Hf1 : f1 k = Some (dc, vals)) by (unfold f1; apply upd_same').
    destruct (read_after o1 hs f1 k dc vals H1 Hoks Hbs Hf1 Hbd) as [Ec Ev]. rewrite Ev, Ec. cbn [bind].
    rewrite (changed_o' oo ho fo k dc (sdim hs) HO Hoko Hbo Hsto).
    destruct (changed_class JNull ho (fo k) dc (sdim hs)) as [ov2|e]; cbn [rmap bind]; [|reflexivity].
    unfold visible. destruct (class_valid hs dc) eqn:Evd.
    - replace (render dc vals) with (JArr vals) by (destruct dc; try reflexivity; exfalso; apply Hdc; reflexivity).
      replace (render dc ov2) with (JArr ov2) by (destruct dc; try reflexivity; exfalso; apply Hdc; reflexivity).
      cbn [dyn_extend dyn_iter bind py_some].
      destruct (HoldsW_setkey o1 hs (stored f1) dc k (JArr (vals ++ ov2)) H1 Hbd) as [o' [E' H']].
      rewrite E'. cbn [bind]. exists o'. split; [reflexivity|].
      apply (upd_upd f k (Some (dc, vals))). apply (Holds_same_set o' hs f1 k dc vals _ Hf1).
      replace (JArr (vals ++ ov2)) with (render dc (vals ++ ov2)) in H' by (destruct dc; try reflexivity; exfalso; apply Hdc; reflexivity).
      exact H'.
    - reflexivity.
  Qed.

  Lemma general_path_sample (c : cls) (lv ov : list jv) (sb : cbase) :
    f k = Some (c, lv) -> class_valid hs c = true -> kst_storable hs (f k) -> cls_eqb c GSlices = false ->
    match bind (to_global_slices JNull hs ho (f k) (fo k) c lv ov) (fun lo => tail_model hs (shape ho) sb (fst lo) (snd lo)) with
    | Ok s' => exists o',
        bind (change_class_st classifications (shape hs) (n_slices hs) preserving_changes (JObj o) k (name_of_cls GSlices)) (fun p11 =>
        bind (get_values_st classifications (shape hs) (snd p11) k) (fun t12 =>
        bind (get_classification_st classifications (shape hs) (snd p11) k) (fun t13 =>
        bind (get_changed_class_o classifications (shape ho) (n_slices ho) preserving_changes (JObj oo) k (Some (name_of_cls GSlices)) (sdim hs))
             (fun t14 => sample_tail (shape hs) (n_slices hs) (shape ho) (name_of_base sb) (snd p11) k t12 t14 t13 k))))
        = Ok (tt, JObj o') /\ Holds o' hs (upd f k s')
    | Err e =>
        bind (change_class_st classifications (shape hs) (n_slices hs) preserving_changes (JObj o) k (name_of_cls GSlices)) (fun p11 =>
        bind (get_values_st classifications (shape hs) (snd p11) k) (fun t12 =>
        bind (get_classification_st classifications (shape hs) (snd p11) k) (fun t13 =>
        bind (get_changed_class_o classifications (shape ho) (n_slices ho) preserving_changes (JObj oo) k (Some (name_of_cls GSlices)) (sdim hs))
             (fun t14 => sample_tail (shape hs) (n_slices hs) (shape ho) (name_of_base sb) (snd p11) k t12 t14 t13 k))))
        = Err e
    end.
  Proof.
    intros Hf Hv Hst Hne.
    assert (Hvis : visible hs (f k) = Some (c, lv)) by (rewrite Hf; unfold visible; rewrite Hv; reflexivity).
    pose proof (valid_gslices hs Hoks) as Hvg. pose proof (Hbs GSlices Hvg) as Hbg.
    pose proof (change_class_st_ref o hs f k GSlices HH Hoks Hbs Hst ltac:(rewrite Hvis; symmetry; exact Hf)) as HC.
    unfold to_global_slices. rewrite Hne.
    destruct (change_class_k JNull hs (f k) GSlices) as [ks2|e] eqn:Eck; cbn [bind]; [|rewrite HC; reflexivity].
    destruct HC as [o1 [E1 H1]]. rewrite E1. cbn [bind snd].
    destruct (after_change hs (f k) ks2 c GSlices lv Hvis Hne Eck) as [vals [-> _]].
    set (f1 := upd f k (Some (GSlices, vals))) in *.
    assert (Hf1 : f1 k = Some (GSlices, vals)) by (unfold f1; apply upd_same').
    destruct (read_after o1 hs f1 k GSlices vals H1 Hoks Hbs Hf1 Hbg) as [Ec Ev]. rewrite Ev, Ec, Hvg. cbn [bind].
    unfold visible. rewrite Hvg.
    rewrite (changed_o oo ho fo k GSlices (sdim hs) HO Hoko Hbo Hsto).
    destruct (changed_class JNull ho (fo k) GSlices (sdim hs)) as [ov2|e]; cbn [rmap bind]; [|reflexivity].
    cbn [fst snd render].
    pose proof (sample_tail_ref o1 hs (shape ho) f1 k vals vals ov2 sb H1 Hf1 Hbg) as HT.
    destruct (tail_model hs (shape ho) sb vals ov2) as [s'|e]; [|exact HT].
    destruct HT as [o' [E' H']]. exists o'. split; [exact E'|]. exact (upd_upd f k _ _ o' hs H').
  Qed.

  Theorem insert_sample_st_ref (c : cls) (lv : list jv) (sb : cbase) (sc : cls) :
    samples_of_base sb = Some sc ->
    f k = Some (c, lv) -> class_valid hs c = true -> kst_storable hs (f k) ->
    match insert_sample_k jv_eqb JNull hs ho (f k) (fo k) sb with
    | Ok s' => exists o', scode o oo hs ho k sb = Ok (tt, JObj o') /\ Holds o' hs (upd f k s')
    | Err e => scode o oo hs ho k sb = Err e
    end.
  Proof.
    intros Hsc Hf Hv Hst.
    assert (Hvis : visible hs (f k) = Some (c, lv)) by (rewrite Hf; unfold visible; rewrite Hv; reflexivity).
    pose proof (valid_gslices hs Hoks) as Hvg. pose proof (Hbs GSlices Hvg) as Hbg.
    destruct sb; [discriminate Hsc| |]; injection Hsc as <-.
    - (* a time point is added *)
      assert (Hscc : TSamples <> GConst) by discriminate.
      unfold insert_sample_st, insert_sample_k. rewrite (get_values_and_class_st_eq o hs f HH Hoks Hbs k). cbn [bind].
      unfold values_and_class_of. rewrite Hvis. cbn [samples_of_base]. cbv iota beta.
      rewrite (changed_o oo ho fo k c (sdim hs) HO Hoko Hbo Hsto).
      destruct (changed_class JNull ho (fo k) c (sdim hs)) as [ov|e] eqn:Eov; cbn [rmap bind]; [|reflexivity].
      cbv zeta. cbn [py_option_eqb name_of_base].
      change (str_eqb s_time [116; 105; 109; 101]%N) with true. change (str_eqb s_vector [116; 105; 109; 101]%N) with false.
      cbn [cbase_eqb andb]. fold (ndim hs).
      change ([103; 108; 111; 98; 97; 108]%N, [99; 111; 110; 115; 116]%N) with (name_of_cls GConst).
      change ([103; 108; 111; 98; 97; 108]%N, [115; 108; 105; 99; 101; 115]%N) with (name_of_cls GSlices).
      change (s_time, [115; 97; 109; 112; 108; 101; 115]%N) with (name_of_cls TSamples).
      rewrite !cname_eq_cls.
      rewrite !(render_eqb c lv ov).
      2:{ intros ->. split; [|exact (changed_const_len ho (fo k) (sdim hs) ov Hsto Eov)].
          unfold kst_storable in Hst. rewrite Hvis in Hst. exact Hst. }
      destruct (cls_eqb c GConst && negb (ndim hs =? 5)) eqn:T1.
      { apply andb_true_iff in T1. destruct T1 as [T1 _]. apply cls_eqb_eq in T1. subst c.
        destruct (list_eqb jv_eqb lv ov); cbn [negb].
        - exists o. split; [reflexivity | exact (Holds_upd_same o hs f k HH)].
        - exact (change_extend_ref GConst TSamples lv Hf Hv Hst eq_refl Hscc). }
      destruct (cls_eqb c TSamples && negb (ndim hs =? 5)) eqn:T2.
      { apply andb_true_iff in T2. destruct T2 as [T2 _]. apply cls_eqb_eq in T2. subst c.
        cbn [render dyn_extend dyn_iter bind py_some].
        destruct (HoldsW_setkey o hs (stored f) TSamples k (JArr (lv ++ ov)) HH (Hbs TSamples Hv)) as [o' [E H]].
        rewrite E. cbn [bind]. exists o'. split; [reflexivity|]. apply (Holds_same_set o' hs f k TSamples lv _ Hf). exact H. }
      destruct (cls_eqb c GConst && list_eqb jv_eqb lv ov) eqn:T3.
      { exists o. split; [reflexivity | exact (Holds_upd_same o hs f k HH)]. }
      destruct (cls_eqb c GSlices) eqn:Eg; cbn [negb].
      { apply cls_eqb_eq in Eg. subst c. unfold to_global_slices. cbn [cls_eqb bind fst snd render].
        exact (sample_tail_ref o hs (shape ho) f k lv lv ov BTime HH Hf Hbg). }
      exact (general_path_sample c lv ov BTime Hf Hv Hst Eg).
    - (* a vector component is added *)
      assert (Hscc : VSamples <> GConst) by discriminate.
      unfold insert_sample_st, insert_sample_k. rewrite (get_values_and_class_st_eq o hs f HH Hoks Hbs k). cbn [bind].
      unfold values_and_class_of. rewrite Hvis. cbn [samples_of_base]. cbv iota beta.
      rewrite (changed_o oo ho fo k c (sdim hs) HO Hoko Hbo Hsto).
      destruct (changed_class JNull ho (fo k) c (sdim hs)) as [ov|e] eqn:Eov; cbn [rmap bind]; [|reflexivity].
      cbv zeta. cbn [py_option_eqb name_of_base].
      change (str_eqb s_time [116; 105; 109; 101]%N) with true. change (str_eqb s_vector [116; 105; 109; 101]%N) with false.
      cbn [cbase_eqb andb]. fold (ndim hs).
      change ([103; 108; 111; 98; 97; 108]%N, [99; 111; 110; 115; 116]%N) with (name_of_cls GConst).
      change ([103; 108; 111; 98; 97; 108]%N, [115; 108; 105; 99; 101; 115]%N) with (name_of_cls GSlices).
      change (s_vector, [115; 97; 109; 112; 108; 101; 115]%N) with (name_of_cls VSamples).
      rewrite !cname_eq_cls.
      rewrite !(render_eqb c lv ov).
      2:{ intros ->. split; [|exact (changed_const_len ho (fo k) (sdim hs) ov Hsto Eov)].
          unfold kst_storable in Hst. rewrite Hvis in Hst. exact Hst. }
      destruct (cls_eqb c GConst && negb false) eqn:T1.
      { apply andb_true_iff in T1. destruct T1 as [T1 _]. apply cls_eqb_eq in T1. subst c.
        destruct (list_eqb jv_eqb lv ov); cbn [negb].
        - exists o. split; [reflexivity | exact (Holds_upd_same o hs f k HH)].
        - exact (change_extend_ref GConst VSamples lv Hf Hv Hst eq_refl Hscc). }
      destruct (cls_eqb c VSamples && negb false) eqn:T2.
      { apply andb_true_iff in T2. destruct T2 as [T2 _]. apply cls_eqb_eq in T2. subst c.
        cbn [render dyn_extend dyn_iter bind py_some].
        destruct (HoldsW_setkey o hs (stored f) VSamples k (JArr (lv ++ ov)) HH (Hbs VSamples Hv)) as [o' [E H]].
        rewrite E. cbn [bind]. exists o'. split; [reflexivity|]. apply (Holds_same_set o' hs f k VSamples lv _ Hf). exact H. }
      destruct (cls_eqb c GConst && list_eqb jv_eqb lv ov) eqn:T3.
      { exists o. split; [reflexivity | exact (Holds_upd_same o hs f k HH)]. }
      destruct (cls_eqb c GSlices) eqn:Eg; cbn [negb].
      { apply cls_eqb_eq in Eg. subst c. unfold to_global_slices. cbn [cls_eqb bind fst snd render].
        exact (sample_tail_ref o hs (shape ho) f k lv lv ov BVector HH Hf Hbg). }
      exact (general_path_sample c lv ov BVector Hf Hv Hst Eg).
  Qed.
End InsertSample.

(** the statements in the order the theorems files give them *)
Theorem insert_sample_st_all (o oo : obj) (hs ho : hdr) (f fo : key -> kst jv) (k : key) (c : cls) (lv : list jv) (sb : cbase) (sc : cls) :
  Holds o hs f -> Holds oo ho fo -> ndim_ok hs = true -> bases_ok hs -> ndim_ok ho = true -> bases_ok ho ->
  kst_storable ho (fo k) -> samples_of_base sb = Some sc ->
  f k = Some (c, lv) -> class_valid hs c = true -> kst_storable hs (f k) ->
  match insert_sample_k jv_eqb JNull hs ho (f k) (fo k) sb with
  | Ok s' => exists o', scode o oo hs ho k sb = Ok (tt, JObj o') /\ Holds o' hs (upd f k s')
  | Err e => scode o oo hs ho k sb = Err e
  end.
Proof. intros H1 H2 H3 H4 H5 H6 H7. exact (insert_sample_st_ref o oo hs ho f fo k H1 H2 H3 H4 H5 H6 H7 c lv sb sc). Qed.
