(** Declarative side of C08: when does an image still match an extension for a class ([agrees]),
    and which grid position a voxel index addresses ([pos_of]).  No reference to get_meta. *)
From Coq Require Import List Bool Arith ZArith QArith Qabs Lia.
From DV Require Import Common.Str Generated.T_ext_tol Ext.Types Ext.Seq Ext.Spec Ext.Model.
Import ListNotations.
Local Open Scope nat_scope.

(** elementwise |a - b| <= atol + rtol * |b| *)
Definition close_vec (rtol atol : Q) (a b : list Q) : Prop :=
  Forall2 (fun x y => (Qabs (x - y) <= atol + rtol * Qabs y)%Q) a b.

(** the image has 3..5 dimensions and its slice dim_info, when present, names a spatial axis *)
Definition img_wf (im : img) : Prop :=
  3 <= length (ishape im) <= 5 /\ forall d, islice im = Some d -> d < 3.

(** column [j] of the 3x3 part of an affine: the DIRECTION in which voxel axis [j] runs *)
Definition col3 (j : nat) (a : list (list Q)) : list Q := map (fun r => nth j r 0%Q) (firstn 3 a).
(** row [j] of the 3x3 part (what the code calls the "slice normal") *)
Definition row3 (j : nat) (a : list (list Q)) : list Q := firstn 3 (nth j a []).

(** WHAT THE CODE TESTS ([meta_valid]): trailing dimensions, slice count, slice dim present on both sides, and the
    ROW [affine[slice_dim, :3]] of the image within tolerance of the row of the extension's affine.  This is NOT the
    slice direction (open finding N13); the predicate written from the property text is [agrees_dir] below. *)
Definition agrees_code (im : img) (h : hdr) (c : cls) : Prop :=
  match c with
  | GConst => True
  | VSamples => skipn 4 (shape h) = skipn 4 (ishape im)
  | TSamples => skipn 3 (shape h) = skipn 3 (ishape im)
  | _ =>
      exists isd msd,
        islice im = Some isd /\ sdim h = Some msd /\
        nth msd (shape h) 0 = nth isd (ishape im) 0 /\
        close_vec rtol_default meta_valid_atol (firstn 3 (nth isd (iaff im) [])) (firstn 3 (nth msd (aff h) [])) /\
        match c with
        | TSlices => True
        | VSlices => py_slice 3 4 (shape h) = py_slice 3 4 (ishape im)
        | _ => skipn 3 (shape h) = skipn 3 (ishape im)
        end
  end.

Notation agrees := agrees_code (only parsing).      (* former name, kept for dependants *)

(** THE SPEC (from the property text): trailing dimensions, slice count and presence of a slice axis as above, and the
    slice DIRECTIONS agree: column [:3, slice dim] of the image affine within tolerance of the column of the affine
    recorded in the extension (raw columns, tolerance as in the code). *)
Definition agrees_dir (im : img) (h : hdr) (c : cls) : Prop :=
  match c with
  | GConst => True
  | VSamples => skipn 4 (shape h) = skipn 4 (ishape im)
  | TSamples => skipn 3 (shape h) = skipn 3 (ishape im)
  | _ =>
      exists isd msd,
        islice im = Some isd /\ sdim h = Some msd /\
        nth msd (shape h) 0 = nth isd (ishape im) 0 /\
        close_vec rtol_default meta_valid_atol (col3 isd (iaff im)) (col3 msd (aff h)) /\
        match c with
        | TSlices => True
        | VSlices => py_slice 3 4 (shape h) = py_slice 3 4 (ishape im)
        | _ => skipn 3 (shape h) = skipn 3 (ishape im)
        end
  end.

(** executable form of [agrees_dir] (spec side; used for witnesses) *)
Definition agrees_dirb (im : img) (h : hdr) (c : cls) : bool :=
  match c with
  | GConst => true
  | VSamples => list_nat_eqb (skipn 4 (shape h)) (skipn 4 (ishape im))
  | TSamples => list_nat_eqb (skipn 3 (shape h)) (skipn 3 (ishape im))
  | _ =>
      match islice im, sdim h with
      | Some isd, Some msd =>
          (nth msd (shape h) 0 =? nth isd (ishape im) 0) &&
          allclose rtol_default meta_valid_atol (col3 isd (iaff im)) (col3 msd (aff h)) &&
          match c with
          | TSlices => true
          | VSlices => list_nat_eqb (py_slice 3 4 (shape h)) (py_slice 3 4 (ishape im))
          | _ => list_nat_eqb (skipn 3 (shape h)) (skipn 3 (ishape im))
          end
      | _, _ => false
      end
  end.

(** domain on which row and column coincide: the slice row of the 3x3 part equals the slice column (e.g. a symmetric
    3x3 part, in particular a slice axis aligned with world axis [slice dim]: axial storage) *)
Definition row_eq_col (a : list (list Q)) (d : nat) : Prop := row3 d a = col3 d a.
Definition slice_sym (im : img) (h : hdr) : Prop :=
  (forall d, islice im = Some d -> row_eq_col (iaff im) d) /\ (forall d, sdim h = Some d -> row_eq_col (aff h) d).

(** grid position addressed by a voxel index of the image *)
Definition pos_of (im : img) (ix : list Z) : pos :=
  let n := map Z.to_nat ix in
  (match islice im with Some d => nth d n 0 | None => 0 end, nth 3 n 0, nth 4 n 0).

Definition in_bounds (ix : list Z) (sh : list nat) : Prop :=
  length ix = length sh /\ forall j, j < length sh -> (0 <= nth j ix 0 < Z.of_nat (nth j sh 0%nat))%Z.
