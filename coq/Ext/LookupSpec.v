(** Declarative side of C08: when does an image still match an extension for a class ([agrees]),
    and which grid position a voxel index addresses ([pos_of]).  No reference to get_meta. *)
From Coq Require Import List Bool Arith ZArith QArith Qabs Lia.
From DV Require Import Common.Str Generated.T_ext_tol Ext.Types Ext.Seq Ext.Spec Ext.Model.
Import ListNotations.
Local Open Scope nat_scope.

(** elementwise |a - b| <= atol + rtol * |b| *)
Definition close_vec (rtol atol : Q) (a b : list Q) : Prop :=
  Forall2 (fun x y => (Qabs (x - y) <= atol + rtol * Qabs y)%Q) a b.

(** the image has 3..5 dimensions and its slice dim_info, when present, names a spatial axis *)
Definition img_wf (im : img) : Prop :=
  3 <= length (ishape im) <= 5 /\ forall d, islice im = Some d -> d < 3.

(** "the image still matches the extension for class c": trailing dimensions, slice count,
    slice dim present on both sides, slice-row fingerprint within tolerance *)
Definition agrees (im : img) (h : hdr) (c : cls) : Prop :=
  match c with
  | GConst => True
  | VSamples => skipn 4 (shape h) = skipn 4 (ishape im)
  | TSamples => skipn 3 (shape h) = skipn 3 (ishape im)
  | _ =>
      exists isd msd,
        islice im = Some isd /\ sdim h = Some msd /\
        nth msd (shape h) 0 = nth isd (ishape im) 0 /\
        close_vec rtol_default meta_valid_atol (firstn 3 (nth isd (iaff im) [])) (firstn 3 (nth msd (aff h) [])) /\
        match c with
        | TSlices => True
        | VSlices => py_slice 3 4 (shape h) = py_slice 3 4 (ishape im)
        | _ => skipn 3 (shape h) = skipn 3 (ishape im)
        end
  end.

(** grid position addressed by a voxel index of the image *)
Definition pos_of (im : img) (ix : list Z) : pos :=
  let n := map Z.to_nat ix in
  (match islice im with Some d => nth d n 0 | None => 0 end, nth 3 n 0, nth 4 n 0).

Definition in_bounds (ix : list Z) (sh : list nat) : Prop :=
  length ix = length sh /\ forall j, j < length sh -> (0 <= nth j ix 0 < Z.of_nat (nth j sh 0%nat))%Z.
