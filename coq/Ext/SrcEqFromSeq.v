(** Stage D of the source equality for the extension algebra (third part): DcmMetaExtension.from_sequence, translated in
    state-passing style over a LIST of instances ([from_sequence_st]: the result is made by make_empty - content and slice-normal
    token are parameters of the translation -, initialised from the first input, grown by _insert once per further input while its
    shape is adjusted, and its ('global','slices') keys are simplified at the end), against the hand model's key-by-key merge
    (Ext.Model.merge_hdr for the header, merge_k for every key). *)
From Coq Require Import List Bool Arith NArith ZArith QArith Lia.
From DV Require Import Common.Res Common.Str Common.Jv Common.PyOps2 Common.PyOps2Dyn Generated.T_classes Generated.T_src_ext
     Generated.T_src_state Ext.Types Ext.Classes Ext.Seq Ext.SeqFacts Ext.Model Ext.TableFacts Ext.SrcEq Ext.SrcEqAlg Ext.SrcEqState
     Ext.SrcEqSubset Ext.SrcEqSample Ext.SrcEqGetSubset Ext.SrcEqInsert Ext.SrcEqInsertAll.
Import ListNotations.
Local Open Scope nat_scope.

(** an instance as the translation passes it in a list: its header attributes in declaration order, then its content *)
Definition inst := (list (str * str) * list nat * option nat * option nat * unit * unit * list (option (str * str) * list (str * str)) * list (option (str * str) * list (str * str)) * list (option (str * str) * list (str * str)) * option nat * jv)%type.
Definition tbl := list (option (str * str) * list (str * str)).

(** * Pieces of the generated function (the main theorem checks by conversion that these ARE its pieces) *)

Local Open Scope res_scope.
(** one further input: _insert, then the shape of the result grows along dim *)
Definition fs_loop_body (result__classifications : list (str * str)) (result__slice_dim : option nat) (result___preserving_changes : tbl)
    (result__slice_normal : option nat) (dim : nat)
    : inst -> (jv * list nat * list nat * option nat) -> res (ctl jv (jv * list nat * list nat * option nat)) :=
  fun input_ext__e '(result__st, shape, result__shape, result__n_slices) =>
  let '(input_ext__classifications, input_ext__shape, input_ext__slice_dim, input_ext__n_slices, input_ext__affine, input_ext__reorient_transform, input_ext___preserving_changes, input_ext___const_tests, input_ext___repeat_tests, input_ext__slice_normal, input_ext__st) := input_ext__e in
  do p__10 <- insert_st result__classifications result__shape result__slice_dim result__n_slices result___preserving_changes result__slice_normal result__st dim input_ext__classifications input_ext__shape input_ext__n_slices input_ext___preserving_changes input_ext__slice_normal input_ext__st;
  let result__st := (snd p__10) in
  do t__11 <- py_index shape (BPos dim);
  do shape <- py_list_set shape (BPos dim) (t__11 + 1%nat)%nat;
  let value := shape in
  do t__12 <- (if (andb (Nat.leb 3%nat (List.length value)) (Nat.ltb (List.length value) 6%nat)) then Ok tt else Err EValue);
  let result__shape := value in
  do result__n_slices <- n_slices_src result__shape result__slice_dim;
  Ok (Next (result__st, shape, result__shape, result__n_slices)).

(** everything after the effective slice dimension is known *)
Definition fs_tail (make_empty_content : list nat -> option nat -> res jv) (make_empty_normal : option nat -> res (option nat))
    (self_classifications : list (str * str)) (self_n_slices : option nat) (self__preserving_changes self__const_tests self__repeat_tests : tbl)
    (seq : list inst) (dim : nat) (output_shape : list nat)
    (first_input__classifications : list (str * str)) (first_input__shape : list nat) (first_input__slice_normal : option nat)
    (first_input__st : jv) (slice_dim : option nat) : res jv :=
  let result__classifications := self_classifications in
  let result__shape := output_shape in
  let result__slice_dim := slice_dim in
  let result__n_slices := self_n_slices in
  let result__affine := tt in
  let result__reorient_transform := tt in
  let result___preserving_changes := self__preserving_changes in
  let result___const_tests := self__const_tests in
  let result___repeat_tests := self__repeat_tests in
  do result__st <- make_empty_content result__shape result__slice_dim;
  do result__n_slices <- n_slices_src result__shape result__slice_dim;
  do result__slice_normal <- make_empty_normal result__slice_dim;
  let result_slc_norm := result__slice_normal in
  let first_slc_norm := first_input__slice_normal in
  let use_slices := (match result_slc_norm with Some result_slc_norm => (match first_slc_norm with Some first_slc_norm => (Nat.eqb result_slc_norm first_slc_norm) | None => false end) | None => false end) in
  do t__6 <- get_valid_classes_src first_input__classifications first_input__shape;
  do c__8 <- py_for t__6 result__st (fun classes result__st =>
      if (andb (str_eqb (snd classes) [115; 108; 105; 99; 101; 115]%N) (negb use_slices)) then
        Ok (Next result__st)
      else
        do t__7 <- get_class_dict_st first_input__st classes;
        do result__st <- dyn_setc2 result__st (fst classes) (snd classes) t__7;
        Ok (Next result__st)
    );
  match c__8 with
  | Ret rv__21 => Ok rv__21
  | Next result__st =>
    let shape := result__shape in
    do shape <- py_list_set shape (BPos dim) 1%nat;
    let value := shape in
    do t__9 <- (if (andb (Nat.leb 3%nat (List.length value)) (Nat.ltb (List.length value) 6%nat)) then Ok tt else Err EValue);
    let result__shape := value in
    do result__n_slices <- n_slices_src result__shape result__slice_dim;
    do c__13 <- py_for (pslice (Some (BPos 1%nat)) None seq) (result__st, shape, result__shape, result__n_slices) (fun input_ext__e '(result__st, shape, result__shape, result__n_slices) =>
        let '(input_ext__classifications, input_ext__shape, input_ext__slice_dim, input_ext__n_slices, input_ext__affine, input_ext__reorient_transform, input_ext___preserving_changes, input_ext___const_tests, input_ext___repeat_tests, input_ext__slice_normal, input_ext__st) := input_ext__e in
        do p__10 <- insert_st result__classifications result__shape result__slice_dim result__n_slices result___preserving_changes result__slice_normal result__st dim input_ext__classifications input_ext__shape input_ext__n_slices input_ext___preserving_changes input_ext__slice_normal input_ext__st;
        let result__st := (snd p__10) in
        do t__11 <- py_index shape (BPos dim);
        do shape <- py_list_set shape (BPos dim) (t__11 + 1%nat)%nat;
        let value := shape in
        do t__12 <- (if (andb (Nat.leb 3%nat (List.length value)) (Nat.ltb (List.length value) 6%nat)) then Ok tt else Err EValue);
        let result__shape := value in
        do result__n_slices <- n_slices_src result__shape result__slice_dim;
        Ok (Next (result__st, shape, result__shape, result__n_slices))
      );
    match c__13 with
    | Ret rv__20 => Ok rv__20
    | Next (result__st, shape, result__shape, result__n_slices) =>
      do t__14 <- get_class_dict_st result__st ([103; 108; 111; 98; 97; 108]%N, [115; 108; 105; 99; 101; 115]%N);
      do t__15 <- dyn_iter t__14;
      do c__18 <- py_for t__15 result__st (fun key result__st =>
          do t__16 <- dyn_as_str key;
          do p__17 <- simplify_st result__classifications result__shape result__n_slices result___const_tests result___repeat_tests result__st t__16;
          let result__st := (snd p__17) in
          Ok (Next result__st)
        );
      match c__18 with
      | Ret rv__19 => Ok rv__19
      | Next result__st =>
        Ok result__st
      end
    end
  end.
Local Close Scope res_scope.

(** * The header prefix *)

Lemma from_sequence_unfold (mk : list nat -> option nat -> res jv) (mkn : option nat -> res (option nat)) (cl : list (str * str))
    (ns : option nat) (pc ct rt : tbl) (st : jv) (seq : list inst) (dim : nat) (aff : option unit) (sd : option nat) :
  from_sequence_st mk mkn cl ns pc ct rt st seq dim aff sd =
  if negb ((0 <=? dim) && (dim <? 5)) then Err EValue else
  bind (py_index seq (BPos 0)) (fun first =>
  let '(fc, fsh, fsd, fns, fa, fr, fpc, fct, frt, fnrm, fst_) := first in
  bind (if dim <? length fsh then bind (py_index fsh (BPos dim)) (fun t => Ok (negb (t =? 1))) else Ok false) (fun t3 =>
  if t3 then Err EValue else
  bind (py_while (dim + 1) fsh (fun osh => Ok (length osh <=? dim)) (fun osh => Ok (@Next jv _ (osh ++ [1])))) (fun c4 =>
  match c4 with
  | Ret rv => Ok rv
  | Next osh0 => bind (py_list_set osh0 (BPos dim) (length seq)) (fun osh =>
                 fs_tail mk mkn cl ns pc ct rt seq dim osh fc fsh fnrm fst_ (match sd with None => fsd | Some d => Some d end))
  end))).
Proof. unfold from_sequence_st. destruct sd; reflexivity. Qed.

Lemma pad_to_app (n : nat) : forall l : list nat, pad_to n l = l ++ repeat 1 (n - length l).
Proof.
  induction n as [|n IH]; intros l; cbn [pad_to].
  - cbn. rewrite app_nil_r. reflexivity.
  - destruct l as [|x r]; cbn [length].
    + rewrite IH. cbn [length app]. rewrite Nat.sub_0_r. reflexivity.
    + rewrite IH. cbn [Nat.sub app]. reflexivity.
Qed.

Lemma while_pad (dim : nat) (fuel : nat) : forall l : list nat, dim + 1 - length l <= fuel ->
  py_while fuel l (fun osh => Ok (length osh <=? dim)) (fun osh => Ok (@Next jv _ (osh ++ [1]))) = Ok (Next (pad_to (S dim) l)).
Proof.
  induction fuel as [|fu IH]; intros l Hf; cbn [py_while bind].
  - replace (length l <=? dim) with false by (symmetry; apply Nat.leb_gt; lia).
    rewrite pad_to_app. replace (S dim - length l) with 0 by lia. cbn. rewrite app_nil_r. reflexivity.
  - destruct (length l <=? dim) eqn:E.
    + apply Nat.leb_le in E. rewrite IH by (rewrite app_length; cbn [length]; lia).
      rewrite !pad_to_app, app_length. cbn [length]. replace (S dim - length l) with (S (S dim - (length l + 1))) by lia.
      cbn [repeat]. rewrite <- app_assoc. reflexivity.
    + apply Nat.leb_gt in E. rewrite pad_to_app. replace (S dim - length l) with 0 by lia. cbn. rewrite app_nil_r. reflexivity.
Qed.

(** * Initialising the result from the first input *)

Section InitLoop.
  Variables (hfull h0 : hdr) (o0 : obj) (f0 : key -> kst jv) (use0 : bool).
  Hypothesis H0 : Holds o0 h0 f0.
  Hypothesis Hb0 : bases_ok h0.

  (** the classes whose dictionary is copied *)
  Definition copied (c : cls) : bool := negb (is_slices c && negb use0).

  Definition init_fn (done : list cls) : key -> kst jv :=
    fun k => match f0 k with Some (c, vs) => if mem_cls c done && copied c then Some (c, vs) else None | None => None end.

  Lemma init_loop (cl : list cls) : forall (done : list cls) (o : obj),
    (forall c, In c cl -> class_valid h0 c = true) -> NoDup cl -> (forall c, In c cl -> ~ In c done) ->
    (forall c, In c cl -> copied c = true -> has_base hfull (base_of c) = true) ->
    Holds o hfull (init_fn done) ->
    exists o', py_for (map name_of_cls cl) (JObj o)
                 (fun (classes : str * str) result__st =>
                    if andb (str_eqb (snd classes) [115; 108; 105; 99; 101; 115]%N) (negb use0) then Ok (@Next jv _ result__st)
                    else bind (get_class_dict_st (JObj o0) classes) (fun t7 =>
                         bind (dyn_setc2 result__st (fst classes) (snd classes) t7) (fun result__st' => Ok (Next result__st'))))
               = Ok (Next (JObj o')) /\ Holds o' hfull (init_fn (rev cl ++ done)).
  Proof.
    induction cl as [|c r IH]; intros done o Hval Hnd Hfresh Hbase HH.
    - exists o. split; [reflexivity | exact HH].
    - inversion Hnd as [|? ? Hni Hnd']; subst. cbn [map py_for]. rewrite is_slices_name.
      assert (Hv : class_valid h0 c = true) by (apply Hval; left; reflexivity).
      assert (Hcd : mem_cls c done = false).
      { destruct (mem_cls c done) eqn:E; [|reflexivity]. apply mem_cls_In in E. exfalso. exact (Hfresh c (or_introl eq_refl) E). }
      assert (Hstep : forall o1, Holds o1 hfull (init_fn (c :: done)) ->
                exists o', py_for (map name_of_cls r) (JObj o1)
                 (fun (classes : str * str) result__st =>
                    if andb (str_eqb (snd classes) [115; 108; 105; 99; 101; 115]%N) (negb use0) then Ok (@Next jv _ result__st)
                    else bind (get_class_dict_st (JObj o0) classes) (fun t7 =>
                         bind (dyn_setc2 result__st (fst classes) (snd classes) t7) (fun result__st' => Ok (Next result__st'))))
               = Ok (Next (JObj o')) /\ Holds o' hfull (init_fn (rev (c :: r) ++ done))).
      { intros o1 H1. cbn [rev]. rewrite <- app_assoc. apply (IH (c :: done) o1).
        - intros c0 H0'. apply Hval. right. exact H0'.
        - exact Hnd'.
        - intros c0 H0' [->|H1']; [contradiction | exact (Hfresh c0 (or_intror H0') H1')].
        - intros c0 H0'. apply Hbase. right. exact H0'.
        - exact H1. }
      destruct (is_slices c && negb use0) eqn:Esk.
      + (* not copied *)
        apply Hstep. apply (Holds_feq o hfull (init_fn done)); [|exact HH]. intros k. unfold init_fn.
        destruct (f0 k) as [[c0 vs]|]; [|reflexivity]. unfold mem_cls. cbn [existsb]. fold (mem_cls c0 done).
        destruct (cls_eqb_spec c0 c) as [->|Hne]; [|reflexivity]. unfold copied. rewrite Esk, Hcd. reflexivity.
      + destruct (hw_dict _ _ _ H0 c (Hb0 c Hv)) as [d [Hd [Hdn Hj]]]. rewrite (get_class_dict_st_ok o0 c d Hd). cbn [bind].
        assert (Hcp : copied c = true) by (unfold copied; rewrite Esk; reflexivity).
        destruct (HoldsW_setclass o hfull (stored (init_fn done)) c d HH (Hbase c (or_introl eq_refl) Hcp) Hdn) as [o1 [E1 H1]].
        replace (dyn_setc2 (JObj o) _ _ (JObj d)) with (@Ok jv (JObj o1)) by (symmetry; exact E1). cbn [bind].
        apply Hstep. unfold Holds. eapply HoldsW_ext; [|exact H1]. intros c' k' _. cbv beta. rewrite Hj. unfold stored, init_fn.
        destruct (f0 k') as [[c0 vs]|]; [|destruct (cls_eqb c' c); reflexivity].
        unfold mem_cls. cbn [existsb]. fold (mem_cls c0 done).
        destruct (cls_eqb_spec c' c) as [->|Hne'].
        * destruct (cls_eqb_spec c0 c) as [->|Hne]; [rewrite Hcp; cbn [orb andb]; rewrite cls_eqb_refl; reflexivity|].
          cbn [orb]. destruct (mem_cls c0 done && copied c0); [|reflexivity].
          destruct (cls_eqb_spec c0 c) as [Hx|_]; [contradiction | reflexivity].
        * destruct (cls_eqb_spec c0 c) as [->|Hne]; [|reflexivity]. rewrite Hcp. cbn [orb andb]. rewrite Hcd. cbn [andb].
          destruct (cls_eqb_spec c c') as [Hx|_]; [exfalso; apply Hne'; symmetry; exact Hx | reflexivity].
  Qed.
End InitLoop.

(** * The header while the result grows *)

Lemma set_nth_some {A} (i : nat) (v : A) : forall l : list A, i < length l -> exists l', set_nth i v l = Some l'.
Proof.
  induction i as [|i IH]; intros [|x r] H; cbn [length] in H; try lia; cbn [set_nth].
  - eexists. reflexivity.
  - destruct (IH r ltac:(lia)) as [r' E]. rewrite E. eexists. reflexivity.
Qed.

Lemma set_nth_nth {A} (i : nat) (v d : A) : forall l l' : list A, set_nth i v l = Some l' -> nth i l' d = v.
Proof.
  induction i as [|i IH]; intros [|x r] l' H; cbn [set_nth] in H; try discriminate H.
  - injection H as <-. reflexivity.
  - destruct (set_nth i v r) as [r'|] eqn:E; [|discriminate H]. injection H as <-. cbn [nth]. exact (IH r r' E).
Qed.

Lemma set_nth_twice {A} (i : nat) (v w : A) : forall l l' : list A, set_nth i v l = Some l' -> set_nth i w l' = set_nth i w l.
Proof.
  induction i as [|i IH]; intros [|x r] l' H; cbn [set_nth] in H; try discriminate H.
  - injection H as <-. reflexivity.
  - destruct (set_nth i v r) as [r'|] eqn:E; [|discriminate H]. injection H as <-. cbn [set_nth]. rewrite (IH r r' E). reflexivity.
Qed.

Section WithDim.
  Variables (h : hdr) (dim : nat).
  Hypothesis Hdim : dim < ndim h.

  Lemma with_dim_spec (j : nat) : exists sh, set_nth dim j (shape h) = Some sh /\ with_dim h dim j = with_shape h sh.
  Proof.
    destruct (set_nth_some dim j (shape h) Hdim) as [sh E]. exists sh. split; [exact E|]. unfold with_dim. rewrite E. reflexivity.
  Qed.

  Lemma with_dim_sdim (j : nat) : sdim (with_dim h dim j) = sdim h.
  Proof. destruct (with_dim_spec j) as [sh [_ ->]]. reflexivity. Qed.

  Lemma with_dim_ndim (j : nat) : ndim (with_dim h dim j) = ndim h.
  Proof.
    destruct (with_dim_spec j) as [sh [E ->]]. unfold ndim. cbn [with_shape shape]. exact (proj1 (set_nth_length dim j (shape h) sh E)).
  Qed.

  Lemma with_dim_ndim_ok (j : nat) : ndim_ok (with_dim h dim j) = ndim_ok h.
  Proof. unfold ndim_ok. rewrite with_dim_ndim. reflexivity. Qed.

  Lemma with_dim_has_base (j : nat) (b : cbase) : has_base (with_dim h dim j) b = has_base h b.
  Proof. destruct (with_dim_spec j) as [sh [_ ->]]. reflexivity. Qed.

  Lemma with_dim_nth (j : nat) : nth dim (shape (with_dim h dim j)) 0 = j.
  Proof. destruct (with_dim_spec j) as [sh [E ->]]. cbn [with_shape shape]. exact (set_nth_nth dim j 0 (shape h) sh E). Qed.

  Lemma with_dim_next (j j' : nat) : set_nth dim j' (shape (with_dim h dim j)) = Some (shape (with_dim h dim j')).
  Proof.
    destruct (with_dim_spec j) as [sh [E ->]]. destruct (with_dim_spec j') as [sh' [E' ->]]. cbn [with_shape shape].
    rewrite (set_nth_twice dim j j' (shape h) sh E). exact E'.
  Qed.

  Lemma Holds_with_dim (o : obj) (f : key -> kst jv) (j : nat) : Holds o h f -> Holds o (with_dim h dim j) f.
  Proof.
    intros [Hn Hd]. constructor.
    - intros b Hb. apply Hn. rewrite <- (with_dim_has_base j). exact Hb.
    - intros c Hc. apply Hd. rewrite <- (with_dim_has_base j). exact Hc.
  Qed.

  Lemma Holds_of_with_dim (o : obj) (f : key -> kst jv) (j : nat) : Holds o (with_dim h dim j) f -> Holds o h f.
  Proof.
    intros [Hn Hd]. constructor.
    - intros b Hb. apply Hn. rewrite (with_dim_has_base j). exact Hb.
    - intros c Hc. apply Hd. rewrite (with_dim_has_base j). exact Hc.
  Qed.

  Lemma use_slices_with_dim (j : nat) (ho : hdr) : use_slices (with_dim h dim j) ho = use_slices h ho.
  Proof. destruct (with_dim_spec j) as [sh [_ ->]]. reflexivity. Qed.
End WithDim.

Lemma set_nth_nth_other {A} (i i' : nat) (v d : A) : forall l l' : list A, set_nth i v l = Some l' -> i' <> i -> nth i' l' d = nth i' l d.
Proof.
  revert i'. induction i as [|i IH]; intros i' [|x r] l' H Hne; cbn [set_nth] in H; try discriminate H.
  - injection H as <-. destruct i'; [contradiction | reflexivity].
  - destruct (set_nth i v r) as [r'|] eqn:E; [|discriminate H]. injection H as <-. destruct i' as [|i']; [reflexivity|].
    cbn [nth]. apply (IH i' r r' E). lia.
Qed.

(** while the result grows along dim (1 <= j <= its final extent) its valid classes are among the final ones *)
Lemma valid_with_dim_sub (h : hdr) (dim j : nat) (c : cls) :
  dim < ndim h -> 1 <= j -> j <= nth dim (shape h) 0 -> class_valid (with_dim h dim j) c = true -> class_valid h c = true.
Proof.
  intros Hd H1 Hn Hv. unfold class_valid, valid_classes in *. rewrite (with_dim_ndim h dim Hd j) in Hv.
  destruct (with_dim_spec h dim Hd j) as [sh [E Ew]].
  destruct (ndim h) as [|[|[|[|[|[|n]]]]]] eqn:En; try exact Hv. rewrite Ew in Hv. cbn [with_shape shape] in Hv.
  destruct (Nat.eq_dec dim 3) as [->|Hne].
  - rewrite (set_nth_nth 3 j 0 (shape h) sh E) in Hv.
    destruct (j =? 1) eqn:Ej.
    + destruct (nth 3 (shape h) 0 =? 1); [exact Hv|]. destruct c; try exact Hv; vm_compute in Hv; discriminate Hv.
    + apply Nat.eqb_neq in Ej. replace (nth 3 (shape h) 0 =? 1) with false by (symmetry; apply Nat.eqb_neq; lia). exact Hv.
  - rewrite (set_nth_nth_other dim 3 j 0 (shape h) sh E ltac:(lia)) in Hv. exact Hv.
Qed.

Lemma bases_with_dim (h : hdr) (dim j : nat) :
  dim < ndim h -> 1 <= j -> j <= nth dim (shape h) 0 -> bases_ok h -> bases_ok (with_dim h dim j).
Proof.
  intros Hd H1 Hn Hb c Hv. rewrite (with_dim_has_base h dim Hd j). apply Hb. exact (valid_with_dim_sub h dim j c Hd H1 Hn Hv).
Qed.

(** * The loop over the further inputs *)

Definition input := (hdr * obj * (key -> kst jv) * option nat)%type.
Definition to_inst (i : input) : inst :=
  let '(h, o, f, n) := i in
  (classifications, shape h, sdim h, n_slices h, tt, tt, preserving_changes, okeys const_tests, okeys repeat_tests, n, JObj o).
Definition in_hdr (i : input) : hdr := let '(h, _, _, _) := i in h.
Definition in_fn (i : input) : key -> kst jv := let '(_, _, f, _) := i in f.
Definition tok_eq (a b : option nat) : bool := match a, b with Some x, Some y => Nat.eqb x y | _, _ => false end.

(** an input: its content holds its per-key states (none of an invalid class), all storable; its slice-normal token compares with
    the one of the result as Model.use_slices does *)
Definition good_input (hfull : hdr) (rn : option nat) (i : input) : Prop :=
  let '(h, o, f, n) := i in
  Holds o h f /\ ndim_ok h = true /\ bases_ok h /\ (forall k, visible h (f k) = f k) /\ (forall k, kst_storable h (f k)) /\
  tok_eq rn n = use_slices hfull h.

(** the states a key goes through are storable (the side conditions of SRC_insert at every step) *)
Definition step_ok (hs ho : hdr) (ks ko : kst jv) : Prop :=
  kst_storable hs ks /\ visible hs ks = ks /\
  forall s1, reclassify_k JNull hs ks (other_class (use_slices hs ho) ko) = Ok s1 -> kst_storable hs s1.
Fixpoint traj_ok (hfull : hdr) (dim j : nat) (rest : list (hdr * kst jv)) (ks : kst jv) : Prop :=
  match rest with
  | [] => True
  | (ho, ko) :: r => step_ok (with_dim hfull dim j) ho ks ko /\
                     forall ks', insert_k jv_eqb JNull (with_dim hfull dim j) ho dim ks ko = Ok ks' -> traj_ok hfull dim (S j) r ks'
  end.

Section InputsLoop.
  Variables (hfull : hdr) (dim : nat) (rn : option nat) (R : key -> kst jv).
  Hypothesis Hdim : dim < ndim hfull.
  Hypothesis Hdim5 : dim < 5.
  Hypothesis Hokf : ndim_ok hfull = true.
  Hypothesis Hsd : match sdim hfull with Some d => d < 3 | None => True end.
  Hypothesis Hnv : odim_is (sdim hfull) dim = true -> prod_list (skipn 3 (shape hfull)) <> 0.
  Hypothesis Hbf : bases_ok hfull.

  Notation hj j := (with_dim hfull dim j).
  Notation lbody := (fs_loop_body classifications (sdim hfull) preserving_changes rn dim).

  Lemma n_slices_hj (j : nat) : n_slices_src (shape (hj j)) (sdim hfull) = Ok (n_slices (hj j)).
  Proof.
    rewrite <- (with_dim_sdim hfull dim Hdim j), n_slices_src_eq, (with_dim_sdim hfull dim Hdim j), (with_dim_ndim hfull dim Hdim j).
    destruct (sdim hfull) as [d|] eqn:Esd; [|unfold n_slices; rewrite (with_dim_sdim hfull dim Hdim j), Esd; reflexivity].
    unfold ndim_ok in Hokf. apply andb_true_iff in Hokf. destruct Hokf as [H3 _]. apply Nat.leb_le in H3.
    replace (d <? ndim hfull) with true by (symmetry; apply Nat.ltb_lt; lia). reflexivity.
  Qed.

  Lemma prod_hj (j : nat) : odim_is (sdim (hj j)) dim = true -> prod_list (skipn 3 (shape (hj j))) <> 0.
  Proof.
    rewrite (with_dim_sdim hfull dim Hdim j). intros Ho. pose proof (Hnv Ho) as Hp.
    assert (Hd3 : dim < 3).
    { unfold odim_is in Ho. destruct (sdim hfull) as [d|]; [|discriminate Ho]. apply Nat.eqb_eq in Ho. subst d. exact Hsd. }
    destruct (with_dim_spec hfull dim Hdim j) as [sh [E ->]]. cbn [with_shape shape].
    replace (skipn 3 sh) with (skipn 3 (shape hfull)); [exact Hp|].
    clear -E Hd3. revert sh E. generalize (shape hfull) as l. intros l. revert dim Hd3.
    intros d Hd. destruct d as [|[|[|d]]]; try lia; intros sh E;
      destruct l as [|a [|b [|c r]]]; cbn [set_nth option_map] in E; try discriminate E; injection E as <-; reflexivity.
  Qed.

  Lemma inputs_loop (rest : list input) : forall (j : nat) (o : obj) (g : key -> kst jv),
    1 <= j -> j + length rest <= S (nth dim (shape hfull) 0) ->
    Holds o (hj j) g -> (forall i, In i rest -> good_input hfull rn i) ->
    (forall k, traj_ok hfull dim j (map (fun i => (in_hdr i, in_fn i k)) rest) (g k)) ->
    (forall k, insert_all_k jv_eqb JNull hfull dim j (map (fun i => (in_hdr i, in_fn i k)) rest) (g k) = Ok (R k)) ->
    exists o', py_for (map to_inst rest) (JObj o, shape (hj j), shape (hj j), n_slices (hj j)) lbody
               = Ok (Next (JObj o', shape (hj (j + length rest)), shape (hj (j + length rest)), n_slices (hj (j + length rest)))) /\
               Holds o' (hj (j + length rest)) R.
  Proof.
    induction rest as [|[[[ho oo] fo] n] r IH]; intros j o g Hj1 Hjn HH Hgood Htraj HR.
    - cbn [map py_for length]. rewrite Nat.add_0_r. exists o. split; [reflexivity|].
      apply (Holds_feq o (hj j) g); [|exact HH]. intros k. pose proof (HR k) as Hk. cbn in Hk. injection Hk as <-. reflexivity.
    - destruct (Hgood (ho, oo, fo, n) (or_introl eq_refl)) as (HO & Hoko & Hbo & Hvo & Hso & Htok).
      (* the results of this step, key by key *)
      set (g1 := fun k => match insert_k jv_eqb JNull (hj j) ho dim (g k) (fo k) with Ok s => s | Err _ => None end).
      assert (Hg1 : forall k, insert_k jv_eqb JNull (hj j) ho dim (g k) (fo k) = Ok (g1 k)).
      { intros k. pose proof (HR k) as Hk. cbn [map insert_all_k in_hdr in_fn] in Hk. unfold g1.
        destruct (insert_k jv_eqb JNull (hj j) ho dim (g k) (fo k)); [reflexivity | discriminate Hk]. }
      destruct (insert_st_ref o oo (hj j) ho g fo g1 dim rn n HH HO) as [o1 [E1 H1]].
      + rewrite (with_dim_ndim_ok hfull dim Hdim j). exact Hokf.
      + apply (bases_with_dim hfull dim j Hdim Hj1 ltac:(cbn [length] in Hjn; lia) Hbf).
      + exact Hoko.
      + exact Hbo.
      + rewrite (use_slices_with_dim hfull dim Hdim j ho). exact Htok.
      + exact Hdim5.
      + exact (prod_hj j).
      + intros k. exact (proj1 (proj2 (proj1 (Htraj k)))).
      + exact Hvo.
      + intros k. exact (proj1 (proj1 (Htraj k))).
      + exact Hso.
      + exact Hg1.
      + intros k. exact (proj2 (proj2 (proj1 (Htraj k)))).
      + (* the state after this input *)
        destruct (IH (S j) o1 g1) as [o' [E' H']].
        * lia.
        * cbn [length] in Hjn. lia.
        * apply (Holds_with_dim hfull dim Hdim). exact (Holds_of_with_dim hfull dim Hdim o1 g1 j H1).
        * intros i Hi. apply Hgood. right. exact Hi.
        * intros k. exact (proj2 (Htraj k) (g1 k) (Hg1 k)).
        * intros k. pose proof (HR k) as Hk. cbn [map insert_all_k in_hdr in_fn] in Hk. rewrite (Hg1 k) in Hk. exact Hk.
        * exists o'. cbn [length]. replace (j + S (length r)) with (S j + length r) by lia. split; [|exact H'].
          cbn [map py_for]. unfold fs_loop_body at 1. cbn [to_inst]. cbv zeta.
          rewrite (with_dim_sdim hfull dim Hdim j) in E1.
          rewrite E1. cbn [bind snd].
          assert (Hlen : dim < length (shape (hj j))) by (fold (ndim (hj j)); rewrite (with_dim_ndim hfull dim Hdim j); exact Hdim).
          rewrite (py_index_nth _ _ 0 Hlen), (with_dim_nth hfull dim Hdim j). cbn [bind].
          unfold py_list_set. rewrite list_set_nth_eq. replace (j + 1) with (S j) by lia.
          rewrite (with_dim_next hfull dim Hdim j (S j)). cbn [bind].
          fold (ndim (hj (S j))). rewrite (with_dim_ndim hfull dim Hdim (S j)).
          unfold ndim_ok in Hokf. rewrite Hokf. cbn [bind]. rewrite (n_slices_hj (S j)). cbn [bind]. exact E'.
  Qed.
End InputsLoop.

(** * The final pass over ('global','slices') *)

Lemma py_for_map {A B S R} (fn : A -> B) (l : list A) (s : S) (body : B -> S -> res (ctl R S)) :
  py_for (map fn l) s body = py_for l s (fun a => body (fn a)).
Proof.
  revert s. induction l as [|x r IH]; intros s; [reflexivity|]. cbn [map py_for].
  destruct (body (fn x) s) as [[rv|s']|e]; cbn [bind]; [reflexivity | apply IH | reflexivity].
Qed.

Section FinalLoop.
  Variables (h : hdr) (R : key -> kst jv).
  Hypothesis Hok : ndim_ok h = true.
  Hypothesis Hb : bases_ok h.

  Definition final_ok (s : kst jv) : Prop :=
    kst_storable h s /\ visible h s = s /\ (forall c vs, s = Some (c, vs) -> is_slices c = true -> n_slices h <> None).

  Lemma final_loop (o : obj) (g : key -> kst jv) :
    Holds o h g -> (forall k, final_ok (g k)) ->
    (forall k, match visible h (g k) with Some (GSlices, _) => simplify_k jv_eqb JNull h (g k) | _ => Ok (g k) end = Ok (R k)) ->
    exists o',
      bind (get_class_dict_st (JObj o) ([103; 108; 111; 98; 97; 108]%N, [115; 108; 105; 99; 101; 115]%N)) (fun t14 =>
      bind (dyn_iter t14) (fun t15 =>
      bind (py_for t15 (JObj o) (fun key result__st =>
              bind (dyn_as_str key) (fun t16 =>
              bind (simplify_st classifications (shape h) (n_slices h) (okeys const_tests) (okeys repeat_tests) result__st t16) (fun p17 =>
              Ok (@Next jv _ (snd p17))))))
           (fun c18 => match c18 with Ret rv => Ok rv | Next result__st => Ok result__st end)))
      = Ok (JObj o') /\ Holds o' h R.
  Proof.
    intros HH Hfin HR.
    pose proof (valid_gslices h Hok) as Hvg. pose proof (Hb GSlices Hvg) as Hbg.
    destruct (hw_dict _ _ _ HH GSlices Hbg) as [d [Hd [Hdn Hj]]].
    change ([103; 108; 111; 98; 97; 108]%N, [115; 108; 105; 99; 101; 115]%N) with (name_of_cls GSlices).
    rewrite (get_class_dict_st_ok o GSlices d Hd). cbn [bind dyn_iter].
    assert (Hind : forall k, In k (map fst d) <-> exists vs, g k = Some (GSlices, vs)).
    { intros k. rewrite <- jassoc_in, Hj. unfold stored. destruct (g k) as [[c' vs]|].
      - destruct (cls_eqb_spec c' GSlices) as [->|Hne].
        + split; [intros _; exists vs; reflexivity | discriminate].
        + split; [intros H; exfalso; apply H; reflexivity | intros [vs' H]; injection H as -> _; contradiction].
      - split; [intros H; exfalso; apply H; reflexivity | intros [vs' H]; discriminate H]. }
    replace (map (fun kv : str * jv => JStr (fst kv)) d) with (map JStr (map fst d)) by (rewrite map_map; reflexivity).
    rewrite py_for_map.
    destruct (key_loop h (fun k st => bind (dyn_as_str (JStr k)) (fun t16 =>
                            bind (simplify_st classifications (shape h) (n_slices h) (okeys const_tests) (okeys repeat_tests) st t16) (fun p17 =>
                            Ok (@Next jv _ (snd p17)))))
                (fun _ s => simplify_k jv_eqb JNull h s) (fun _ s => final_ok s) R) with (ks := map fst d) (o := o) (f := g)
      as [o' [g' [E' [H' Hg']]]].
    - intros o0 f0 k0 HH0 [Hst [Hvis Hsl]]. cbn [dyn_as_str bind].
      pose proof (simplify_st_ref o0 h f0 k0 HH0 Hok Hb Hst Hvis Hsl) as Hs. unfold simplify_run in Hs.
      destruct (simplify_k jv_eqb JNull h (f0 k0)) as [s'|e].
      + destruct Hs as [b [o1 [E1 H1]]]. exists o1. rewrite E1. split; [reflexivity | exact H1].
      + rewrite Hs. reflexivity.
    - exact HH.
    - exact Hdn.
    - intros k Hk. split; [apply Hfin|]. apply Hind in Hk. destruct Hk as [vs Hk]. pose proof (HR k) as Hr.
      rewrite (proj1 (proj2 (Hfin k))), Hk in Hr. rewrite Hk. exact Hr.
    - exists o'. unfold Types.key in *. rewrite E'. cbn [bind]. split; [reflexivity|].
      apply (Holds_feq o' h g' R); [|exact H']. intros k. rewrite Hg'.
      destruct (mem_key k (map fst d)) eqn:Em; [reflexivity|]. pose proof (HR k) as Hr. rewrite (proj1 (proj2 (Hfin k))) in Hr.
      destruct (g k) as [[c vs]|] eqn:Eg; [|injection Hr as <-; reflexivity].
      destruct c; try (injection Hr as <-; reflexivity).
      assert (Hin : In k (map fst d)) by (apply Hind; exists vs; exact Eg). apply mem_key_In in Hin. rewrite Hin in Em. discriminate Em.
  Qed.
End FinalLoop.

(** * from_sequence *)

Lemma set_nth_same {A} (i : nat) (d : A) : forall l : list A, i < length l -> set_nth i (nth i l d) l = Some l.
Proof.
  induction i as [|i IH]; intros [|x r] H; cbn [length] in H; try lia; cbn [set_nth nth]; [reflexivity|].
  rewrite (IH r ltac:(lia)). reflexivity.
Qed.

Lemma with_dim_self (h : hdr) (dim n : nat) : dim < ndim h -> nth dim (shape h) 0 = n -> with_dim h dim n = h.
Proof.
  intros Hd Hn. unfold with_dim. rewrite <- Hn, (set_nth_same dim 0 (shape h) Hd). destruct h; reflexivity.
Qed.

Lemma make_empty_bases (sh : list nat) (a : list (list Q)) (sd : option nat) (hr : hdr) :
  make_empty_hdr sh a sd = Ok hr -> bases_ok hr.
Proof.
  unfold make_empty_hdr. destruct (negb ((3 <=? length sh) && (length sh <? 6))) eqn:E1; [discriminate|].
  match goal with |- (if ?b then _ else _) = _ -> _ => destruct b end; [discriminate|].
  match goal with |- (if ?b then _ else _) = _ -> _ => destruct b end; [discriminate|]. intros H. injection H as <-.
  intros c Hv. unfold class_valid, valid_classes, ndim in Hv. cbn [shape] in Hv. unfold has_base. cbn [has_time has_vec].
  destruct sh as [|a1 [|a2 [|a3 [|a4 [|a5 [|a6 r]]]]]]; try discriminate E1; cbn [length nth] in *.
  - destruct c; try reflexivity; vm_compute in Hv; discriminate Hv.
  - destruct c; try reflexivity; vm_compute in Hv; discriminate Hv.
  - destruct (a4 =? 1)%nat eqn:E4; destruct c; try reflexivity; vm_compute in Hv; discriminate Hv.
Qed.

Lemma merge_hdr_inv (hs : list hdr) (h0 : hdr) (r : list hdr) (dim : nat) (sd : option nat) (hfull : hdr) :
  hs = h0 :: r -> merge_hdr hs dim None sd = Ok hfull ->
  dim < 5 /\ ((dim <? length (shape h0)) && negb (nth dim (shape h0) 0 =? 1)) = false /\
  (exists osh, set_nth dim (length hs) (pad_to (S dim) (shape h0)) = Some osh /\ shape hfull = osh) /\
  sdim hfull = (match sd with Some d => Some d | None => sdim h0 end) /\
  ndim_ok hfull = true /\ match sdim hfull with Some d => d < 3 | None => True end /\
  ndim_ok h0 = true /\
  (forall c, class_valid h0 c = true -> (is_slices c && negb (use_slices hfull h0)) || has_base hfull (base_of c) = true) /\
  bases_ok hfull.
Proof.
  intros -> H. unfold merge_hdr in H. destruct (5 <=? dim) eqn:E5; [discriminate H|]. apply Nat.leb_gt in E5.
  destruct ((dim <? length (shape h0)) && negb (nth dim (shape h0) 0 =? 1)) eqn:Esh; [discriminate H|].
  destruct (set_nth dim (length (h0 :: r)) (pad_to (S dim) (shape h0))) as [osh|] eqn:Eset; [|discriminate H].
  destruct (make_empty_hdr osh (aff h0) (match sd with Some d => Some d | None => sdim h0 end)) as [hf|] eqn:Eme; [|discriminate H].
  cbn [bind] in H. destruct (negb (ndim_ok h0)) eqn:Eok; [discriminate H|].
  destruct (forallb _ (valid_classes h0)) eqn:Efa; [|discriminate H]. injection H as <-.
  pose proof (make_empty_bases _ _ _ _ Eme) as Hbf.
  unfold make_empty_hdr in Eme.
  destruct ((3 <=? length osh) && (length osh <? 6)) eqn:En; [|discriminate Eme]. cbn [negb] in Eme.
  match type of Eme with (if ?b then _ else _) = _ => destruct b end; [discriminate Eme|].
  destruct (match (match sd with Some d => Some d | None => sdim h0 end) with Some d => d <? 3 | None => true end) eqn:Esd; [|discriminate Eme].
  cbn [negb] in Eme. injection Eme as <-. cbn [shape sdim].
  split; [exact E5|]. split; [reflexivity|]. split; [exists osh; split; reflexivity|]. split; [reflexivity|].
  split; [exact En|]. split.
  { destruct (match sd with Some d => Some d | None => sdim h0 end); [apply Nat.ltb_lt; exact Esd | exact I]. }
  split; [apply negb_false_iff; exact Eok|]. split; [|exact Hbf].
  intros c Hc. rewrite forallb_forall in Efa. apply Efa. apply mem_cls_In. exact Hc.
Qed.

Notation fs_code mk mkn inputs dim sd :=
  (from_sequence_st mk mkn classifications None preserving_changes (okeys const_tests) (okeys repeat_tests) JNull
                    (map to_inst inputs) dim None sd).

Theorem from_sequence_st_ref (mk : list nat -> option nat -> res jv) (mkn : option nat -> res (option nat))
    (i0 : input) (rest : list input) (dim : nat) (sd : option nat) (hfull : hdr) (oe : obj) (rn : option nat) (R : key -> kst jv) :
  merge_hdr (map in_hdr (i0 :: rest)) dim None sd = Ok hfull ->
  (forall i, In i (i0 :: rest) -> good_input hfull rn i) ->
  mk (shape hfull) (sdim hfull) = Ok (JObj oe) -> Holds oe hfull (fun _ => None) -> mkn (sdim hfull) = Ok rn ->
  (odim_is (sdim hfull) dim = true -> prod_list (skipn 3 (shape hfull)) <> 0) ->
  (forall k, traj_ok hfull dim 1 (map (fun i => (in_hdr i, in_fn i k)) rest) (init_k hfull (in_hdr i0) (in_fn i0 k))) ->
  (forall k ks, insert_all_k jv_eqb JNull hfull dim 1 (map (fun i => (in_hdr i, in_fn i k)) rest) (init_k hfull (in_hdr i0) (in_fn i0 k)) = Ok ks ->
                final_ok hfull ks) ->
  (forall k, merge_k jv_eqb JNull hfull dim (map (fun i => (in_hdr i, in_fn i k)) (i0 :: rest)) = Ok (R k)) ->
  exists o', fs_code mk mkn (i0 :: rest) dim sd = Ok (JObj o') /\ Holds o' hfull R.
Proof.
  intros Hm Hgood Hmk Hoe Hmkn Hnv Htraj Hfin HR.
  destruct i0 as [[[h0 o0] f0] n0].
  destruct (merge_hdr_inv (map in_hdr ((h0, o0, f0, n0) :: rest)) h0 (map in_hdr rest) dim sd hfull eq_refl Hm)
    as (Hdim5 & Hshape & (osh & Eset & Eosh) & Esd & Hokf & Hsd3 & Hok0 & Hbase0 & Hbf).
  destruct (Hgood (h0, o0, f0, n0) (or_introl eq_refl)) as (H0 & _ & Hb0 & Hv0 & _ & Htok0).
  assert (Hdim : dim < ndim hfull).
  { unfold ndim. rewrite Eosh. destruct (set_nth_length _ _ _ _ Eset) as [Hl Hd]. rewrite Hl. exact Hd. }
  set (use0 := use_slices hfull h0) in *.
  (* the states after the first input, and before the final pass *)
  set (g0 := fun k => init_k hfull h0 (f0 k)).
  set (Rpre := fun k => match insert_all_k jv_eqb JNull hfull dim 1 (map (fun i => (in_hdr i, in_fn i k)) rest) (g0 k) with
                        | Ok s => s | Err _ => None end).
  assert (HRpre : forall k, insert_all_k jv_eqb JNull hfull dim 1 (map (fun i => (in_hdr i, in_fn i k)) rest) (g0 k) = Ok (Rpre k)).
  { intros k. pose proof (HR k) as Hk. cbn [map merge_k in_hdr in_fn] in Hk. fold (g0 k) in Hk. unfold Rpre.
    destruct (insert_all_k jv_eqb JNull hfull dim 1 (map (fun i => (in_hdr i, in_fn i k)) rest) (g0 k)); [reflexivity | discriminate Hk]. }
  (* initialisation *)
  destruct (init_loop hfull h0 o0 f0 use0 H0 Hb0 (valid_classes h0) [] oe
              ltac:(intros c Hc; apply mem_cls_In; exact Hc) (valid_classes_nodup h0) ltac:(intros c _ [])) as [o1 [E1 H1]].
  { intros c Hc Hcp. pose proof (Hbase0 c ltac:(apply mem_cls_In; exact Hc)) as Hx. unfold copied in Hcp. apply negb_true_iff in Hcp.
    fold use0 in Hx. rewrite Hcp in Hx. exact Hx. }
  { apply (Holds_feq oe hfull (fun _ => None)); [|exact Hoe]. intros k. unfold init_fn. destruct (f0 k) as [[c vs]|]; reflexivity. }
  assert (H1' : Holds o1 (with_dim hfull dim 1) g0).
  { apply (Holds_with_dim hfull dim Hdim). apply (Holds_feq o1 hfull (init_fn f0 use0 (rev (valid_classes h0) ++ []))); [|exact H1].
    intros k. unfold init_fn, g0, init_k. rewrite (Hv0 k). fold use0. destruct (f0 k) as [[c vs]|] eqn:Ef; [|reflexivity].
    assert (Hcv : class_valid h0 c = true).
    { pose proof (Hv0 k) as Hk. rewrite Ef in Hk. assert (Hn : visible h0 (Some (c, vs)) <> None) by (rewrite Hk; discriminate).
      apply visible_some_iff in Hn. destruct Hn as (c' & vs' & E1' & E2'). injection E1' as <- <-. exact E2'. }
    replace (mem_cls c (rev (valid_classes h0) ++ [])) with true.
    2:{ symmetry. rewrite app_nil_r. apply mem_cls_In. apply in_rev. rewrite rev_involutive. apply mem_cls_In. exact Hcv. }
    unfold copied. cbn [andb]. destruct (is_slices c && negb use0); reflexivity. }
  (* the further inputs *)
  assert (Hn : nth dim (shape hfull) 0 = length ((h0, o0, f0, n0) :: rest)).
  { rewrite Eosh. rewrite <- (map_length in_hdr). exact (set_nth_nth _ _ 0 _ _ Eset). }
  destruct (inputs_loop hfull dim rn Rpre Hdim Hdim5 Hokf Hsd3 Hnv Hbf rest 1 o1 g0 (le_n 1) ltac:(rewrite (eq_trans Hn (eq_refl : length ((h0, o0, f0, n0) :: rest) = S (length rest))); lia) H1'
              ltac:(intros i Hi; apply Hgood; right; exact Hi) Htraj HRpre) as [o2 [E2 H2]].
  assert (Hself : with_dim hfull dim (1 + length rest) = hfull) by (apply with_dim_self; [exact Hdim | exact Hn]).
  rewrite Hself in E2, H2.
  (* the final pass *)
  destruct (final_loop hfull R Hokf Hbf o2 Rpre H2 ltac:(intros k; exact (Hfin k (Rpre k) (HRpre k)))) as [o3 [E3 H3]].
  { intros k. pose proof (HR k) as Hk. cbn [map merge_k in_hdr in_fn] in Hk. fold (g0 k) in Hk. rewrite (HRpre k) in Hk. cbn [bind] in Hk. exact Hk. }
  exists o3. split; [|exact H3].
  rewrite from_sequence_unfold.
  replace (negb ((0 <=? dim) && (dim <? 5))) with false
    by (symmetry; apply negb_false_iff, andb_true_iff; split; [reflexivity | apply Nat.ltb_lt; exact Hdim5]).
  change (py_index (map to_inst ((h0, o0, f0, n0) :: rest)) (BPos 0)) with (Ok (to_inst (h0, o0, f0, n0))).
  cbn [to_inst bind]. cbv iota beta.
  (* the check of the shape of the first input *)
  assert (Hchk : (if dim <? length (shape h0) then bind (py_index (shape h0) (BPos dim)) (fun t => Ok (negb (t =? 1))) else Ok false)
                 = Ok false).
  { destruct (dim <? length (shape h0)) eqn:El; [|reflexivity]. apply Nat.ltb_lt in El. rewrite (py_index_nth _ _ 0 El). cbn [bind].
    cbn [andb] in Hshape. rewrite Hshape. reflexivity. }
  rewrite Hchk. cbn [bind]. rewrite (while_pad dim (dim + 1) (shape h0)) by lia. cbn [bind].
  unfold py_list_set. cbv beta iota zeta. rewrite list_set_nth_eq, map_length. rewrite map_length in Eset.
  match goal with |- context [set_nth dim ?n ?l] => replace (set_nth dim n l) with (Some osh) by (symmetry; exact Eset) end. cbn [bind].
  (* the result as make_empty gives it *)
  unfold fs_tail. cbv zeta. rewrite <- Eosh, <- Esd, Hmk. cbn [bind].
  pose proof (n_slices_hj hfull dim Hdim Hdim5 Hokf Hsd3 Hnv (1 + length rest)) as Hns. rewrite Hself in Hns. rewrite Hns, Hmkn. cbn [bind].
  change (match rn with Some result_slc_norm => match n0 with Some first_slc_norm => result_slc_norm =? first_slc_norm | None => false end
                       | None => false end) with (tok_eq rn n0).
  rewrite Htok0. fold use0. rewrite get_valid_classes_src_eq, Hok0. cbn [bind].
  match goal with |- bind ?X _ = _ => replace X with (Ok (@Next jv _ (JObj o1))) by (symmetry; exact E1) end. cbn [bind].
  (* the shape goes back to one entry along dim *)
  destruct (with_dim_spec hfull dim Hdim 1) as [sh1 [Es1 Ew1]].
  unfold py_list_set. cbv beta iota zeta. rewrite list_set_nth_eq, Es1. cbn [bind].
  assert (Esh1 : shape (with_dim hfull dim 1) = sh1) by (rewrite Ew1; reflexivity).
  rewrite <- Esh1. fold (ndim (with_dim hfull dim 1)). rewrite (with_dim_ndim hfull dim Hdim 1).
  unfold ndim_ok in Hokf. rewrite Hokf. cbn [bind]. rewrite (n_slices_hj hfull dim Hdim Hdim5 Hokf Hsd3 Hnv 1). cbn [bind].
  rewrite pslice_from. cbn [skipn map].
  match goal with |- bind ?X _ = _ => replace X with (Ok (@Next jv _ (JObj o2, shape hfull, shape hfull, n_slices hfull))) by (symmetry; exact E2) end.
  cbn [bind]. exact E3.
Qed.
