(** C06, part 2a: arithmetic of the documented layout ([Spec.cidx]) and the reading of the sequence tests of
    [_simplify] through it: "constant with period P" / "repeating with period P" on the stored value list is
    EXACTLY representability of the denoted function by the destination class. *)
From Coq Require Import List Bool Arith Lia.
From DV Require Import Common.Res Common.Str Ext.Types Ext.Seq Ext.Spec Ext.ProofsSimplifySeq.
Import ListNotations.
Local Open Scope nat_scope.

Definition dims_pos (d : pos) : Prop := let '(nS, nT, nV) := d in 1 <= nS /\ 1 <= nT /\ 1 <= nV.

(** * Mixed-radix arithmetic *)
Lemma radix_inj n a b a' b' : a < n -> a' < n -> a + n * b = a' + n * b' -> a = a' /\ b = b'.
Proof. intros Ha Ha' H. assert (b = b') by nia. subst. lia. Qed.

Lemma div_radix n a b : a < n -> (a + n * b) / n = b.
Proof. intros Ha. symmetry. apply (Nat.div_unique _ _ _ a); lia. Qed.

Lemma mod_radix n a b : a < n -> (a + n * b) mod n = a.
Proof. intros Ha. symmetry. apply (Nat.mod_unique _ _ b a); lia. Qed.

Lemma gs_split nS nT s t v : s + nS * (t + nT * v) = (s + nS * t) + (nS * nT) * v.
Proof. nia. Qed.

Lemma vs_lt nS nT s t : s < nS -> t < nT -> s + nS * t < nS * nT.
Proof. nia. Qed.

(** * Which coordinates a class looks at *)
Definition proj (c : cls) (p : pos) : pos :=
  let '(s, t, v) := p in
  match c with
  | GConst => (0, 0, 0) | VSamples => (0, 0, v) | TSamples => (0, t, v)
  | TSlices => (s, 0, 0) | VSlices => (s, t, 0) | GSlices => (s, t, v)
  end.

Lemma cidx_proj d c p q : in_dims d p -> in_dims d q -> (cidx d c p = cidx d c q <-> proj c p = proj c q).
Proof.
  destruct d as [[nS nT] nV], p as [[s t] v], q as [[s' t'] v']. cbn [in_dims]. intros [Hs [Ht Hv]] [Hs' [Ht' Hv']].
  destruct c; cbn [cidx proj].
  - split; reflexivity.
  - split.
    + intros H. apply radix_inj in H as [-> H]; [|lia|lia]. apply radix_inj in H as [-> ->]; [|lia|lia]. reflexivity.
    + intros H. injection H as -> -> ->. reflexivity.
  - split.
    + intros H. apply radix_inj in H as [-> ->]; [|lia|lia]. reflexivity.
    + intros H. injection H as -> ->. reflexivity.
  - split; [intros -> | intros H; injection H as ->]; reflexivity.
  - split; [intros -> | intros H; injection H as ->]; reflexivity.
  - split.
    + intros H. apply radix_inj in H as [-> ->]; [|lia|lia]. reflexivity.
    + intros H. injection H as -> ->. reflexivity.
Qed.

Lemma cidx_lt d c p : in_dims d p -> cidx d c p < mult_spec d c.
Proof.
  destruct d as [[nS nT] nV], p as [[s t] v]. cbn [in_dims]. intros [Hs [Ht Hv]].
  destruct c; cbn [cidx mult_spec]; try lia.
  - assert (t + nT * v < nT * nV) by nia. nia.
  - nia.
  - nia.
Qed.

(** position of a list index (inverse of [cidx] on the positions the class distinguishes) *)
Definition decode (d : pos) (c : cls) (i : nat) : pos :=
  let '(nS, nT, nV) := d in
  match c with
  | GConst => (0, 0, 0) | VSamples => (0, 0, i) | TSamples => (0, i mod nT, i / nT)
  | TSlices => (i, 0, 0) | VSlices => (i mod nS, i / nS, 0)
  | GSlices => (i mod nS, (i / nS) mod nT, i / (nS * nT))
  end.

Lemma decode_in_dims d c i : dims_pos d -> i < mult_spec d c -> in_dims d (decode d c i).
Proof.
  destruct d as [[nS nT] nV]. cbn [dims_pos]. intros [HS [HT HV]].
  destruct c; cbn [mult_spec decode in_dims]; intros Hi.
  - lia.
  - repeat split; [apply Nat.mod_upper_bound; lia | apply Nat.mod_upper_bound; lia |].
    apply Nat.div_lt_upper_bound; nia.
  - repeat split; [lia | apply Nat.mod_upper_bound; lia | apply Nat.div_lt_upper_bound; nia].
  - lia.
  - lia.
  - repeat split; [apply Nat.mod_upper_bound; lia | apply Nat.div_lt_upper_bound; nia | lia].
Qed.

Lemma cidx_decode d c i : dims_pos d -> i < mult_spec d c -> cidx d c (decode d c i) = i.
Proof.
  destruct d as [[nS nT] nV]. cbn [dims_pos]. intros [HS [HT HV]].
  destruct c; cbn [mult_spec decode cidx]; intros Hi.
  - lia.
  - rewrite <- (Nat.div_div i nS nT) by lia.
    pose proof (Nat.div_mod (i / nS) nT ltac:(lia)). pose proof (Nat.div_mod i nS ltac:(lia)). nia.
  - pose proof (Nat.div_mod i nT ltac:(lia)). lia.
  - reflexivity.
  - reflexivity.
  - pose proof (Nat.div_mod i nS ltac:(lia)). lia.
Qed.

  (** * The tests of [_simplify] *)
  Inductive tkind := KAll | KConst (P : nat) | KRepeat (P : nat).

  Definition krel (k : tkind) (i j : nat) : Prop :=
    match k with KAll => True | KConst P => i / P = j / P | KRepeat P => i mod P = j mod P end.

  (** index in the source list of the value kept for destination index [n]:
      [values[0]], [values[::P]], [values[:P]] *)
  Definition krep (k : tkind) (n : nat) : nat := match k with KAll => 0 | KConst P => n * P | KRepeat _ => n end.

  (** the test [_simplify] runs for a (source, destination) pair, as a function of (S, T, V) *)
  Definition test_of (d : pos) (src dest : cls) : option tkind :=
    let '(nS, nT, nV) := d in
    match src, dest with
    | GConst, _ => None
    | _, GConst => Some KAll
    | GSlices, VSamples => Some (KConst (nS * nT))
    | GSlices, TSamples => Some (KConst nS)
    | TSamples, VSamples => Some (KConst nT)
    | VSlices, TSamples => Some (KConst nS)
    | GSlices, TSlices => Some (KRepeat nS)
    | GSlices, VSlices => Some (KRepeat (nS * nT))
    | VSlices, TSlices => Some (KRepeat nS)
    | _, _ => None
    end.

  (** [values[::n_slices]] of a ('vector','slices') list has T entries, ('time','samples') needs T*V *)
  Definition extract_ok (d : pos) (src dest : cls) : Prop :=
    match src, dest with VSlices, TSamples => snd d = 1 | _, _ => True end.

  Lemma pair_F1 d src dest k p q :
    dims_pos d -> test_of d src dest = Some k -> in_dims d p -> in_dims d q ->
    proj dest p = proj dest q -> krel k (cidx d src p) (cidx d src q).
  Proof.
    destruct d as [[nS nT] nV], p as [[s t] v], q as [[s' t'] v']. cbn [dims_pos in_dims].
    intros [HS [HT HV]] Hk [Hs [Ht Hv]] [Hs' [Ht' Hv']] E.
    destruct src, dest; cbn [test_of] in Hk; try discriminate; injection Hk as <-; cbn [krel]; try exact I;
      cbn [proj] in E; cbn [cidx].
    - injection E as -> ->. rewrite !div_radix by lia. reflexivity.
    - injection E as ->. rewrite !mod_radix by lia. reflexivity.
    - injection E as ->. rewrite !gs_split. rewrite !div_radix by (apply vs_lt; lia). reflexivity.
    - injection E as -> ->. rewrite !gs_split. rewrite !mod_radix by (apply vs_lt; lia). reflexivity.
    - injection E as ->. rewrite !div_radix by lia. reflexivity.
    - injection E as -> ->. rewrite !div_radix by lia. reflexivity.
    - injection E as ->. rewrite !mod_radix by lia. reflexivity.
  Qed.

  Lemma pair_F2 d src dest k i j :
    dims_pos d -> test_of d src dest = Some k -> i < mult_spec d src -> j < mult_spec d src ->
    krel k i j -> proj dest (decode d src i) = proj dest (decode d src j).
  Proof.
    destruct d as [[nS nT] nV]. cbn [dims_pos]. intros [HS [HT HV]] Hk Hi Hj R.
    destruct src, dest; cbn [test_of] in Hk; try discriminate; injection Hk as <-; cbn [krel] in R;
      cbn [decode proj]; try reflexivity.
    - rewrite <- !(Nat.div_div _ nS nT) by lia. rewrite R. reflexivity.
    - rewrite R. reflexivity.
    - rewrite R. reflexivity.
    - rewrite !(Nat.mod_mul_r _ nS nT) in R by lia.
      apply radix_inj in R as [-> ->]; [reflexivity | |]; apply Nat.mod_upper_bound; lia.
    - rewrite R. reflexivity.
    - rewrite R. reflexivity.
    - rewrite R. reflexivity.
  Qed.

  Lemma pair_F3 d src dest k p :
    dims_pos d -> test_of d src dest = Some k -> extract_ok d src dest -> in_dims d p ->
    krel k (krep k (cidx d dest p)) (cidx d src p) /\ krep k (cidx d dest p) < mult_spec d src.
  Proof.
    destruct d as [[nS nT] nV], p as [[s t] v]. cbn [dims_pos in_dims].
    intros [HS [HT HV]] Hk Hx [Hs [Ht Hv]].
    destruct src, dest; cbn [test_of] in Hk; try discriminate; injection Hk as <-; cbn [krel krep cidx mult_spec].
    all: try (split; [exact I | nia]).
    - rewrite div_radix by lia. split; [apply Nat.div_mul; lia|]. assert (t + nT * v < nT * nV) by nia. nia.
    - rewrite mod_radix by lia. split; [apply Nat.mod_small; lia|].
      assert (1 <= nT * nV) by nia. nia.
    - rewrite gs_split. rewrite div_radix by (apply vs_lt; lia). split; [apply Nat.div_mul; nia | nia].
    - rewrite gs_split. rewrite mod_radix by (apply vs_lt; lia). pose proof (vs_lt nS nT s t Hs Ht).
      split; [apply Nat.mod_small; lia | nia].
    - rewrite div_radix by lia. split; [apply Nat.div_mul; lia | nia].
    - cbn [extract_ok snd] in Hx. subst nV. assert (v = 0) by lia. subst v.
      rewrite div_radix by lia. split; [rewrite Nat.div_mul by lia; lia | nia].
    - rewrite mod_radix by lia. split; [apply Nat.mod_small; lia | nia].
  Qed.

  (** lengths of what is kept *)
  Lemma pair_len d src dest k :
    dims_pos d -> test_of d src dest = Some k -> extract_ok d src dest ->
    match k with
    | KAll => mult_spec d dest = 1
    | KConst P => 1 <= P /\ mult_spec d src = mult_spec d dest * P
    | KRepeat P => P = mult_spec d dest /\ P <= mult_spec d src
    end.
  Proof.
    destruct d as [[nS nT] nV]. cbn [dims_pos]. intros [HS [HT HV]] Hk Hx.
    destruct src, dest; cbn [test_of] in Hk; try discriminate; injection Hk as <-; cbn [mult_spec]; try reflexivity;
      try (split; nia).
    - split; [reflexivity|]. assert (1 <= nT * nV) by nia. nia.
    - cbn [extract_ok snd] in Hx. subst nV. split; nia.
  Qed.

Section WithV.
  Context {V : Type} (vnone : V).

  (** the function a stored entry denotes *)
  Definition fden (d : pos) (c : cls) (vs : list V) : pos -> V := fun p => nth (cidx d c p) vs vnone.

  Lemma representable_proj d c (f : pos -> V) :
    representable d c f <-> forall p q, in_dims d p -> in_dims d q -> proj c p = proj c q -> f p = f q.
  Proof.
    unfold representable. split; intros H p q Hp Hq E; apply H; try assumption.
    - apply cidx_proj; assumption.
    - apply (cidx_proj d c p q); assumption.
  Qed.

  Lemma representable_ext d c (f g : pos -> V) :
    (forall p, in_dims d p -> f p = g p) -> representable d c f -> representable d c g.
  Proof. intros E H p q Hp Hq Hc. rewrite <- (E p Hp), <- (E q Hq). apply H; assumption. Qed.

  (** a class represents what is stored in it *)
  Lemma representable_self d c vs : representable d c (fden d c vs).
  Proof. intros p q _ _ E. unfold fden. rewrite E. reflexivity. Qed.

  Lemma representable_gconst_least d (f : pos -> V) c : representable d GConst f -> representable d c f.
  Proof.
    intros H p q Hp Hq _. apply H; try assumption.
    destruct d as [[? ?] ?], p as [[? ?] ?], q as [[? ?] ?]. reflexivity.
  Qed.

  (** ** The reading of a test: it holds on the list iff the destination class can represent the values.
      (For every period and any number of periods.) *)
  Theorem test_reads_representable d src dest k (vs : list V) :
    dims_pos d -> test_of d src dest = Some k -> length vs = mult_spec d src ->
    (representable d dest (fden d src vs) <->
     forall i j, i < length vs -> j < length vs -> krel k i j -> nth i vs vnone = nth j vs vnone).
  Proof.
    intros Hd Hk Hl. rewrite representable_proj. split.
    - intros H i j Hi Hj R. rewrite Hl in Hi, Hj.
      specialize (H (decode d src i) (decode d src j) (decode_in_dims _ _ _ Hd Hi) (decode_in_dims _ _ _ Hd Hj)
                    (pair_F2 _ _ _ _ _ _ Hd Hk Hi Hj R)).
      unfold fden in H. rewrite !cidx_decode in H by assumption. exact H.
    - intros H p q Hp Hq E. unfold fden. apply H.
      + rewrite Hl. apply cidx_lt; exact Hp.
      + rewrite Hl. apply cidx_lt; exact Hq.
      + eapply pair_F1; eassumption.
  Qed.

  (** ** What is kept denotes the same function *)
  Theorem extract_same_den d src dest k (vs nv : list V) :
    dims_pos d -> test_of d src dest = Some k -> extract_ok d src dest -> length vs = mult_spec d src ->
    (forall n, n < mult_spec d dest -> nth n nv vnone = nth (krep k n) vs vnone) ->
    representable d dest (fden d src vs) ->
    forall p, in_dims d p -> fden d dest nv p = fden d src vs p.
  Proof.
    intros Hd Hk Hx Hl Hnv Hr p Hp. unfold fden.
    rewrite Hnv by (apply cidx_lt; exact Hp).
    destruct (pair_F3 _ _ _ _ _ Hd Hk Hx Hp) as [R Hlt].
    apply (proj1 (test_reads_representable d src dest k vs Hd Hk Hl) Hr).
    - rewrite Hl. exact Hlt.
    - rewrite Hl. apply cidx_lt; exact Hp.
    - exact R.
  Qed.
End WithV.

