(** C03: the headers that [from_sequence] really builds (a [frame]) satisfy the step contexts of
    Ext/ProofsMergeStep.v; the one-step theorem [insert_k_den] for the slice / time / vector axis. *)
From Coq Require Import List Bool Arith Lia.
From DV Require Import Common.Res Common.Str Ext.Types Ext.Classes Ext.Seq Ext.Model Ext.Spec Ext.TableFacts
     Ext.ValidFacts Ext.ProofsMergeSeq Ext.ProofsMergeDen Ext.ProofsMergeStep.
Import ListNotations.
Local Open Scope nat_scope.

(** which grid coordinate a merge dimension addresses *)
Inductive axis := AxS | AxT | AxV.

Definition axis_of (sd : option nat) (dim : nat) : option axis :=
  if odim_is sd dim then Some AxS else if dim =? 3 then Some AxT else if dim =? 4 then Some AxV else None.

Definition coord (ax : axis) (p : pos) : nat :=
  let '(s, t, v) := p in match ax with AxS => s | AxT => t | AxV => v end.
Definition set_coord (ax : axis) (p : pos) (x : nat) : pos :=
  let '(s, t, v) := p in match ax with AxS => (x, t, v) | AxT => (s, x, v) | AxV => (s, t, x) end.

(** the situation inside [from_sequence]: [hfull] is the header of the result, all inputs have shape [ish] *)
Record frame (hfull : hdr) (ish : list nat) (dim N : nat) : Prop := {
  fr_nd : 3 <= length ish <= 5;
  fr_pos : Forall (fun n => 1 <= n) ish;
  fr_dim : dim < 5;
  fr_sing : nth dim ish 1 = 1;
  fr_N : 2 <= N;
  fr_shape : set_nth dim N (pad_to (S dim) ish) = Some (shape hfull);
  fr_sdim : forall d, sdim hfull = Some d -> d < 3;
  fr_bases : forall c, has_base hfull (base_of c) = class_ok (shape hfull) c;
  fr_n1 : ~ (dim = 4 /\ length ish = 4 /\ nth 3 ish 1 = 1) }.

Lemma Some_inj {A} (a b : A) : Some a = Some b -> a = b.
Proof. intros H; injection H as ->; reflexivity. Qed.

Lemma Forall_ge1_cons a l : 1 <= a -> Forall (fun n => 1 <= n) l -> Forall (fun n => 1 <= n) (a :: l).
Proof. intros; constructor; assumption. Qed.

Ltac inv_forall H :=
  repeat match type of H with
         | Forall _ (_ :: _) => let H1 := fresh "Hp" in let H2 := fresh "Hf" in
                                 apply Forall_cons_iff in H; destruct H as [H1 H]
         end.

Ltac solve_forall := repeat (apply Forall_ge1_cons; [lia|]); try apply Forall_nil.

(** split a frame into the 15 (input dimensionality, merge dimension) cases with concrete shapes *)
Ltac frame_cases F ho Hsh :=
  let Hnd := fresh "Hnd" in let Hpos := fresh "Hpos" in let Hdim := fresh "Hdim" in
  let Hsing := fresh "Hsing" in let HN := fresh "HN" in let Hshape := fresh "Hshape" in
  let Hsd := fresh "Hsd" in let Hbases := fresh "Hbases" in let Hn1 := fresh "Hn1" in
  destruct F as [Hnd Hpos Hdim Hsing HN Hshape Hsd Hbases Hn1];
  match type of Hnd with
  | 3 <= length ?ish <= 5 =>
      destruct ish as [|?a [|?b [|?c [|?t [|?v [|?x ?r]]]]]]; cbn [length] in Hnd; try lia
  end;
  match type of Hdim with
  | ?dim < 5 => first [ is_var dim; destruct dim as [|[|[|[|[|?dim]]]]]; try lia | idtac ]
  end;
  cbn [nth] in Hsing; try subst;
  cbn [pad_to set_nth option_map] in Hshape; apply Some_inj in Hshape; symmetry in Hshape;
  inv_forall Hpos.

Lemma has_base_with_shape h sh b : has_base (with_shape h sh) b = has_base h b.
Proof. destruct b; reflexivity. Qed.

Definition inp (hfull : hdr) (ish : list nat) (ho : hdr) : Prop := shape ho = ish /\ sdim ho = sdim hfull.

Section WithV.
  Context {V : Type} (veqb : V -> V -> bool) (vnone : V).
  Hypothesis veqb_spec : forall a b, reflect (a = b) (veqb a b).
  Notation den_k := (den_k vnone).

  Lemma frame_slice_ctx hfull ish dim N ho j :
    frame hfull ish dim N -> inp hfull ish ho -> sdim hfull = Some dim -> 1 <= j ->
    slice_ctx (with_dim hfull dim j) (with_dim hfull dim (S j)) ho j (nth 3 ish 1) (nth 4 ish 1).
  Proof.
    intros F [Hsh Hsdo] Hs Hj.
    frame_cases F ho Hsh.
    all: try (specialize (Hsd _ Hs); lia).
    all: unfold with_dim; rewrite Hshape; cbn [set_nth option_map with_shape].
    all: constructor; try (intros cc; rewrite has_base_with_shape, Hbases, Hshape; destruct cc; cbn; reflexivity).
    all: unfold with_shape; cbn [sdim shape aff has_time has_vec]; try assumption; try congruence.
    all: try (unfold hdr_ok, ndim; cbn [shape sdim length]; rewrite ?Hsh, ?Hsdo, ?Hs; cbn [length];
              repeat split; [lia | lia | solve_forall | intros d Hd; injection Hd as <-; lia]).
    all: try (unfold dims; cbn [shape sdim]; rewrite ?Hsh, ?Hsdo, ?Hs; cbn [nth]; reflexivity).
    all: try (intros cc; rewrite ?Hsh; destruct cc; cbn; reflexivity).
  Qed.

  (** slices per volume of the inputs (and of the result, for time / vector merges) *)
  Definition in_S (hfull : hdr) (ish : list nat) : nat :=
    match sdim hfull with Some d => nth d ish 1 | None => 1 end.

  Lemma frame_time_ctx hfull ish N ho j :
    frame hfull ish 3 N -> inp hfull ish ho -> sdim hfull <> None -> 1 <= j ->
    time_ctx (with_dim hfull 3 j) (with_dim hfull 3 (S j)) ho j (in_S hfull ish) (nth 4 ish 1) /\
    ((ndim (with_dim hfull 3 j) = 4 /\ nth 4 ish 1 = 1 /\
      class_ok (shape (with_dim hfull 3 j)) TSamples = true /\
      class_ok (shape (with_dim hfull 3 j)) VSamples = false /\
      class_ok (shape (with_dim hfull 3 j)) VSlices = false) \/
     (ndim (with_dim hfull 3 j) = 5 /\ ndim ho = 5)).
  Proof.
    intros F [Hsh Hsdo] Hs Hj. unfold in_S.
    destruct j as [|[|j']]; [lia| |].
    all: destruct N as [|[|N']]; [destruct F; lia | destruct F; lia |].
    all: frame_cases F ho Hsh.
    all: destruct (sdim hfull) as [[|[|[|d]]]|] eqn:Es; try congruence; try (specialize (Hsd _ eq_refl); lia).
    all: unfold with_dim; rewrite Hshape; cbn [set_nth option_map].
    all: (split; [constructor|]).
    all: try (intros cc Hcc; rewrite has_base_with_shape, Hbases, Hshape; destruct cc; cbn in Hcc |- *; congruence).
    all: unfold with_shape, ndim; cbn [sdim shape aff has_time has_vec length]; try assumption; try congruence; try lia.
    all: try (unfold hdr_ok, ndim; cbn [shape sdim length]; rewrite ?Hsh, ?Hsdo, ?Es; cbn [length];
              repeat split; [lia | lia | solve_forall | intros d Hd; injection Hd as <-; lia]).
    all: try (unfold dims; cbn [shape sdim]; rewrite ?Hsh, ?Hsdo, ?Es; cbn [nth]; reflexivity).
    all: try (intros cc; rewrite ?Hsh; destruct cc; cbn; congruence).
    all: try (rewrite ?Hsh; cbn [length]; first [left; repeat split; reflexivity | right; split; reflexivity]).
  Qed.

  Lemma frame_vec_ctx hfull ish N ho j :
    frame hfull ish 4 N -> inp hfull ish ho -> sdim hfull <> None -> 1 <= j ->
    vec_ctx (with_dim hfull 4 j) (with_dim hfull 4 (S j)) ho j (in_S hfull ish) (nth 3 ish 1).
  Proof.
    intros F [Hsh Hsdo] Hs Hj. unfold in_S.
    frame_cases F ho Hsh.
    all: destruct (sdim hfull) as [[|[|[|d]]]|] eqn:Es; try congruence; try (specialize (Hsd _ eq_refl); lia).
    all: unfold with_dim; rewrite Hshape; cbn [set_nth option_map].
    all: constructor.
    all: try (intros cc Hcc; rewrite has_base_with_shape, Hbases, Hshape; destruct cc; cbn in Hcc |- *; congruence).
    all: unfold with_shape, ndim; cbn [sdim shape aff has_time has_vec length]; try assumption; try congruence; try lia.
    all: try (unfold hdr_ok, ndim; cbn [shape sdim length]; rewrite ?Hsh, ?Hsdo, ?Es; cbn [length];
              repeat split; [lia | lia | solve_forall | intros d Hd; injection Hd as <-; lia]).
    all: try (unfold dims; cbn [shape sdim]; rewrite ?Hsh, ?Hsdo, ?Es; cbn [nth]; reflexivity).
    all: try (intros cc; rewrite ?Hsh; destruct cc; cbn; congruence).
    all: try reflexivity.
  Qed.

  (** facts for every merge dimension *)
  Lemma frame_generic hfull ish dim N ho j :
    frame hfull ish dim N -> inp hfull ish ho -> 1 <= j ->
    hdr_ok ho /\ hdr_ok (with_dim hfull dim j) /\
    sdim (with_dim hfull dim j) = sdim hfull /\ aff (with_dim hfull dim j) = aff hfull /\
    (forall c, class_ok (shape ho) c = true -> class_ok (shape (with_dim hfull dim j)) c = true) /\
    (forall c, class_ok (shape (with_dim hfull dim j)) c = true -> has_base (with_dim hfull dim j) (base_of c) = true).
  Proof.
    intros F [Hsh Hsdo] Hj.
    destruct N as [|[|N']]; [destruct F; lia | destruct F; lia |].
    frame_cases F ho Hsh.
    all: try (exfalso; apply Hn1; repeat split; reflexivity).
    all: unfold with_dim; rewrite Hshape; cbn [set_nth option_map].
    all: repeat split.
    all: try (intros cc Hcc; rewrite has_base_with_shape, Hbases, Hshape; destruct cc; cbn in Hcc |- *; congruence).
    all: unfold with_shape, ndim; cbn [sdim shape aff has_time has_vec length]; rewrite ?Hsh; cbn [length]; try assumption; try lia.
    all: try solve_forall.
    all: try (intros d Hd; apply Hsd; congruence).
    all: try (intros cc; destruct cc; cbn; congruence).
    intros cc Hcc. destruct cc; cbn in Hcc |- *; try congruence.
    all: destruct (Nat.eqb_spec t 1) as [->|_]; [exfalso; apply Hn1; repeat split; reflexivity | reflexivity].
  Qed.

  Lemma frame_nonslice hfull ish dim N ho j :
    frame hfull ish dim N -> inp hfull ish ho -> dim < 3 -> sdim hfull <> Some dim -> 1 <= j ->
    dims (with_dim hfull dim j) = dims ho /\
    (forall c, class_ok (shape ho) c = class_ok (shape (with_dim hfull dim j)) c).
  Proof.
    intros F [Hsh Hsdo] Hd3 Hs Hj.
    frame_cases F ho Hsh; try lia.
    all: destruct (sdim hfull) as [[|[|[|d]]]|] eqn:Es; try congruence; try (specialize (Hsd _ eq_refl); lia).
    all: unfold with_dim; rewrite Hshape; cbn [set_nth option_map].
    all: split; [unfold dims, with_shape; cbn [shape sdim]; rewrite ?Hsh, ?Hsdo, ?Es; cbn [nth]; reflexivity|].
    all: intros cc; unfold with_shape; cbn [shape]; rewrite ?Hsh; destruct cc; cbn; reflexivity.
  Qed.

  Lemma with_dim_full hfull ish dim N : frame hfull ish dim N -> with_dim hfull dim N = hfull.
  Proof.
    intros F. destruct hfull as [sh sd a ht hv]. frame_cases F hfull F; cbn [shape] in *; subst sh; reflexivity.
  Qed.

  Lemma use_slices_with_dim hfull dim j ho :
    sdim (with_dim hfull dim j) = sdim hfull -> aff (with_dim hfull dim j) = aff hfull ->
    use_slices (with_dim hfull dim j) ho = use_slices hfull ho.
  Proof. intros H1 H2. unfold use_slices, slice_normal. rewrite H1, H2. reflexivity. Qed.

  Lemma axis_of_cases sd dim ax :
    (forall d, sd = Some d -> d < 3) -> axis_of sd dim = Some ax ->
    match ax with
    | AxS => sd = Some dim /\ dim < 3
    | AxT => dim = 3 /\ odim_is sd dim = false
    | AxV => dim = 4 /\ odim_is sd dim = false
    end.
  Proof.
    intros Hsd. unfold axis_of. destruct (odim_is sd dim) eqn:Eo.
    - intros H; injection H as <-. unfold odim_is in Eo. destruct sd as [d|]; [|discriminate].
      apply Nat.eqb_eq in Eo. subst. split; [reflexivity | auto].
    - destruct (Nat.eqb_spec dim 3) as [->|_]; [intros H; injection H as <-; auto|].
      destruct (Nat.eqb_spec dim 4) as [->|_]; [intros H; injection H as <-; auto | discriminate].
  Qed.

  (** THEOREM 2 (one merge step along the slice, time or vector axis) *)
  Theorem insert_k_den hfull ish dim N ho j ax ks ko :
    frame hfull ish dim N -> inp hfull ish ho -> 1 <= j ->
    axis_of (sdim hfull) dim = Some ax -> (3 <= dim -> sdim hfull <> None) ->
    good_k (with_dim hfull dim j) ks -> good_k ho ko ->
    exists ks', insert_k veqb vnone (with_dim hfull dim j) ho dim ks ko = Ok ks' /\
      good_k (with_dim hfull dim (S j)) ks' /\ nondeg_k (with_dim hfull dim (S j)) ks' /\
      forall p, in_dims (dims (with_dim hfull dim (S j))) p ->
        den_k (with_dim hfull dim (S j)) ks' p =
        if coord ax p <? j then den_k (with_dim hfull dim j) ks p
        else den_k ho (drop_k (use_slices hfull ho) ko) (set_coord ax p 0).
  Proof.
    intros F Hin Hj Hax Hn3 Hgs Hgo.
    destruct (frame_generic hfull ish dim N ho j F Hin Hj) as [Hho [Hhs [Hsd [Haff [Hmono Hbase]]]]].
    pose proof (axis_of_cases _ _ _ (fr_sdim _ _ _ _ F) Hax) as Hcase.
    pose proof (use_slices_with_dim hfull dim j ho Hsd Haff) as Hus.
    set (hs := with_dim hfull dim j) in *. set (hs' := with_dim hfull dim (S j)) in *.
    set (ko2 := drop_k (use_slices hfull ho) ko).
    assert (Hgo2 : good_k ho ko2) by (apply drop_k_good; exact Hgo).
    assert (Hsdo : sdim ho = sdim hs) by (destruct Hin as [_ H]; rewrite H, Hsd; reflexivity).
    unfold insert_k. rewrite Hus.
    rewrite (visible_good _ _ Hgo), (visible_good _ _ Hgs).
    change (match ko with Some (c, vs) => if is_slices c && negb (use_slices hfull ho) then None else Some (c, vs)
                     | None => None end) with ko2.
    (* the law to establish, for the state after reclassification *)
    assert (K : forall oc, (match ko2 with Some (c, _) => c | None => GConst end) = oc ->
                exists ks', (bind (reclassify_k vnone hs ks oc) (fun ks1 =>
                   if odim_is (sdim hs) dim then insert_slice_k veqb vnone hs ho ks1 ko2
                   else if dim <? 3 then insert_non_slice_k veqb vnone hs ho ks1 ko2
                   else if dim =? 3 then insert_sample_k veqb vnone hs ho ks1 ko2 BTime
                   else if dim =? 4 then insert_sample_k veqb vnone hs ho ks1 ko2 BVector
                   else Ok ks1)) = Ok ks' /\
                  good_k hs' ks' /\ nondeg_k hs' ks' /\
                  forall p, in_dims (dims hs') p ->
                    den_k hs' ks' p = if coord ax p <? j then den_k hs ks p else den_k ho ko2 (set_coord ax p 0)).
    { intros oc Hoc.
      assert (Hoko : class_ok (shape hs) oc = true).
      { subst oc. destruct ko2 as [[c vs]|]; [apply Hmono; destruct Hgo2 as [H _]; exact H | apply class_ok_const; exact Hhs]. }
      assert (Hocsl : is_slices oc = true -> sdim hs <> None).
      { subst oc. destruct ko2 as [[c vs]|]; [|discriminate]. destruct Hgo2 as [_ [H _]]. rewrite <- Hsdo. exact H. }
      destruct (reclassify_k_ok vnone hs ks oc Hhs Hgs Hoko Hocsl (Hbase _ Hoko)) as [ks1 E1].
      rewrite E1. cbn [bind].
      destruct (reclassify_k_den vnone hs ks oc ks1 Hhs Hgs Hoko Hocsl E1) as [Hg1 [Hd1 [c1 [vs1 [-> [Hw1 _]]]]]].
      assert (Hw : widens (kst_class ko2) c1).
      { subst oc. destruct ko2 as [[c vs]|]; [exact Hw1 | right; apply allowed_from_none]. }
      rewrite Hsd.
      destruct ax.
      - (* slice axis *)
        destruct Hcase as [Hs Hd3]. rewrite Hs. unfold odim_is. rewrite Nat.eqb_refl.
        pose proof (frame_slice_ctx hfull ish dim N ho j F Hin Hs Hj) as X. fold hs hs' in X.
        destruct (insert_slice_k_den veqb vnone veqb_spec hs hs' ho c1 vs1 ko2 j _ _ X Hg1 Hgo2 Hw)
          as [ks' [E [G1 [G2 G3]]]].
        exists ks'. split; [exact E|]. split; [exact G1|]. split; [exact G2|].
        intros [[s t] v] Hp. rewrite (sx_d' _ _ _ _ _ _ X) in Hp. cbn [in_dims coord set_coord] in *.
        rewrite G3 by lia. destruct (Nat.ltb_spec s j); [|reflexivity].
        apply Hd1. rewrite (sx_d _ _ _ _ _ _ X). cbn [in_dims]. lia.
      - (* time axis *)
        destruct Hcase as [-> Ho]. rewrite Ho. change (3 <? 3) with false. change (3 =? 3) with true. cbv iota.
        assert (Hs : sdim hfull <> None) by (apply Hn3; lia).
        destruct (frame_time_ctx hfull ish N ho j F Hin Hs Hj) as [X Hnd]. fold hs hs' in X, Hnd.
        assert (R : exists ks', insert_sample_k veqb vnone hs ho (Some (c1, vs1)) ko2 BTime = Ok ks' /\
                      time_law vnone hs hs' ho j (in_S hfull ish) (nth 4 ish 1) (Some (c1, vs1)) ko2 ks').
        { destruct Hnd as [[H4 [HV [H1 [H2 H3]]]]|[H5 H5o]].
          - rewrite HV in X |- *. apply insert_time4_k_den; assumption.
          - apply insert_time5_k_den; assumption. }
        destruct R as [ks' [E [G1 [G2 G3]]]].
        exists ks'. split; [exact E|]. split; [exact G1|]. split; [exact G2|].
        intros [[s t] v] Hp. rewrite (tx_d' _ _ _ _ _ _ X) in Hp. cbn [in_dims coord set_coord] in *.
        rewrite G3 by lia. destruct (Nat.ltb_spec t j); [|reflexivity].
        apply Hd1. rewrite (tx_d _ _ _ _ _ _ X). cbn [in_dims]. lia.
      - (* vector axis *)
        destruct Hcase as [-> Ho]. rewrite Ho. change (4 <? 3) with false. change (4 =? 3) with false.
        change (4 =? 4) with true. cbv iota.
        assert (Hs : sdim hfull <> None) by (apply Hn3; lia).
        pose proof (frame_vec_ctx hfull ish N ho j F Hin Hs Hj) as X. fold hs hs' in X.
        destruct (insert_vec_k_den veqb vnone veqb_spec hs hs' ho c1 vs1 ko2 j _ _ X Hg1 Hgo2 Hw)
          as [ks' [E [G1 [G2 G3]]]].
        exists ks'. split; [exact E|]. split; [exact G1|]. split; [exact G2|].
        intros [[s t] v] Hp. rewrite (vx_d' _ _ _ _ _ _ X) in Hp. cbn [in_dims coord set_coord] in *.
        rewrite G3 by lia. destruct (Nat.ltb_spec v j); [|reflexivity].
        apply Hd1. rewrite (vx_d _ _ _ _ _ _ X). cbn [in_dims]. lia. }
    destruct ko2 as [[oc ovs]|] eqn:Eko.
    - apply (K oc eq_refl).
    - destruct ks as [[c vs]|].
      + apply (K GConst eq_refl).
      + exists None. split; [reflexivity|]. split; [exact I|]. split; [exact I|].
        intros p _. cbn [den_k]. destruct (coord ax p <? j); reflexivity.
  Qed.
End WithV.
