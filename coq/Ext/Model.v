(** Executable model of [DcmMetaExtension] (dcmmeta.py) and of the lookups of [NiftiWrapper].

    * every operation is defined PER KEY on [kst V = option (cls * list V)] ([None] = key absent, a global
      constant is a singleton list) and lifted to whole extensions by mapping over the union of keys;
    * the literal class tables are consumed from Ext/Classes.v (decoded from Generated/T_classes.v);
    * Python exceptions are [Err]: ValueError -> EValue, IndexError -> EIndex, KeyError -> EKey,
      TypeError -> EType, AttributeError -> EAttr, anything else (ZeroDivisionError, AssertionError,
      UnboundLocalError, states the model cannot represent) -> ECrash.
    No proofs here. *)
From Coq Require Import List Bool Arith NArith ZArith QArith Qabs Lia.
From DV Require Import Common.Res Common.Str Generated.T_classes Generated.T_ext_tol
     Ext.Types Ext.Classes Ext.Seq.
Import ListNotations.
Local Open Scope nat_scope.
Local Open Scope res_scope.

(** * Header-level functions *)

(** [get_valid_classes] (212-235); [[]] when the shape is not 3..5-D (Python: ValueError, surfaced by
    the [ndim_ok] test at the entry of every whole-extension operation). *)
Definition valid_classes (h : hdr) : list cls :=
  match ndim h with
  | 3 => firstn valid_take_3d classifications_c
  | 4 => firstn valid_take_4d classifications_c
  | 5 => if nth 3 (shape h) 0 =? 1
         then firstn valid_take_5d classifications_c ++ skipn valid_skip_5d classifications_c
         else classifications_c
  | _ => []
  end.
Definition ndim_ok (h : hdr) : bool := (3 <=? ndim h) && (ndim h <? 6).
Definition class_valid (h : hdr) (c : cls) : bool := mem_cls c (valid_classes h).

(** [get_multiplicity] (237-275) *)
Definition multiplicity (h : hdr) (c : cls) : res nat :=
  if negb (class_valid h c) then Err EValue else
  Ok (match sub_of c with
      | SSlices =>
          match n_slices h with
          | None => 0
          | Some n => match base_of c with
                      | BVector => n * nth 3 (shape h) 0
                      | BGlobal => n * prod_list (skipn 3 (shape h))
                      | BTime => n
                      end
          end
      | SSamples =>
          match base_of c with
          | BTime => nth 3 (shape h) 0 * (if ndim h =? 5 then nth 4 (shape h) 0 else 1)
          | BVector => nth 4 (shape h) 0
          | BGlobal => 1
          end
      | SConst => 1
      end).

(** [slice_normal]: first three entries of ROW [slice_dim] of the affine. *)
Definition slice_normal (h : hdr) : option (list Q) :=
  match sdim h with None => None | Some d => Some (firstn 3 (nth d (aff h) [])) end.

(** [use_slices] of [_insert] / [from_sequence]: both normals exist and [np.allclose(self, other)]. *)
Definition use_slices (hself hother : hdr) : bool :=
  match slice_normal hself, slice_normal hother with
  | Some a, Some b => allclose rtol_default atol_default a b
  | _, _ => false
  end.

(** [make_empty] (516-565): the setters' checks in the order they run. *)
Definition make_empty_hdr (sh : list nat) (a : list (list Q)) (sd : option nat) : res hdr :=
  let n := length sh in
  if negb ((3 <=? n) && (n <? 6)) then Err EValue else
  if negb ((length a =? 4) && forallb (fun r => length r =? 4) a) then Err EValue else
  if negb (match sd with None => true | Some d => d <? 3 end) then Err EValue else
  Ok (mk_hdr sh sd a
             ((n =? 4) || ((4 <? n) && negb (nth 3 sh 0 =? 1)))
             (4 <? n)).

Definition with_shape (h : hdr) (sh : list nat) : hdr :=
  mk_hdr sh (sdim h) (aff h) (has_time h) (has_vec h).

(** [while result_shape[-1] == 1 and len(result_shape) > 3: result_shape = result_shape[:-1]] *)
Fixpoint trim_fuel (fuel : nat) (l : list nat) : list nat :=
  match fuel with
  | 0 => l
  | S f => if (3 <? length l) && (last l 0 =? 1) then trim_fuel f (removelast l) else l
  end.
Definition trim_ones (l : list nat) : list nat := trim_fuel (length l) l.

Definition odim_is (d : option nat) (dim : nat) : bool :=
  match d with Some x => x =? dim | None => false end.

Section WithV.
  Context {V : Type} (veqb : V -> V -> bool) (vnone : V).

  Notation kst := (kst V).
  Notation ext := (ext V).

  (** * Per-key accessors *)

  (** [get_values_and_class]: a key stored under a class that is not valid for the shape is invisible. *)
  Definition visible (h : hdr) (s : kst) : kst :=
    match s with
    | Some (c, _) => if class_valid h c then s else None
    | None => None
    end.

  Definition hd_res (l : list V) : res V := match l with [] => Err EIndex | x :: _ => Ok x end.

  (** [self.get_class_dict(c)[key] = vs]: KeyError when the base dictionary does not exist. *)
  Definition put (h : hdr) (c : cls) (vs : list V) : res kst :=
    if has_base h (base_of c) then Ok (Some (c, vs)) else Err EKey.

  Definition first_valid (h : hdr) (l : list cls) : option cls := find (class_valid h) l.

  (** * [_simplify] (738-808) *)

  (** [_get_const_period] *)
  Definition const_period (h : hdr) (src dest : cls) : res (option nat) :=
    match dest, src with
    | GConst, _ => Ok None
    | _, GSlices => do ms <- multiplicity h src;
                    do md <- multiplicity h dest;
                    if md =? 0 then Err ECrash else Ok (Some (ms / md))
    | _, VSlices => Ok (n_slices h)
    | _, TSamples => match shape_at h 3 with Some t => Ok (Some t) | None => Err EIndex end
    | _, _ => Err ECrash
    end.

  (** the [for dest_cls in dests] loop over [_const_tests[curr_class]]; [Ok None] = loop fell through *)
  Fixpoint simplify_const (h : hdr) (c : cls) (vs : list V) (dests : list cls) : res (option (cls * list V)) :=
    match dests with
    | [] => Ok None
    | d :: ds =>
        if has_base h (base_of d) then
          do period <- const_period h c d;
          do isc <- match period with Some 1 => Ok true | _ => is_constant veqb vs period end;
          if isc then
            match period with
            | None => do v <- hd_res vs; Ok (Some (d, [v]))
            | Some p => Ok (Some (d, every_nth 0 p vs))
            end
          else simplify_const h c vs ds
        else simplify_const h c vs ds
    end.

  (** the loop over [_repeat_tests[curr_class]] *)
  Fixpoint simplify_repeat (h : hdr) (vs : list V) (dests : list cls) : res (option (cls * list V)) :=
    match dests with
    | [] => Ok None
    | d :: ds =>
        if has_base h (base_of d) then
          do dm <- multiplicity h d;
          do rep <- is_repeating veqb vs dm;
          if rep then Ok (Some (d, firstn dm vs)) else simplify_repeat h vs ds
        else simplify_repeat h vs ds
    end.

  Definition simplify_k (h : hdr) (s : kst) : res kst :=
    match visible h s with
    | None => Err EKey                                   (* _const_tests[None] *)
    | Some (GConst, vs) =>
        match vs with
        | [v] => if veqb v vnone then Ok None else Ok s   (* values is None: delete *)
        | _ => Ok s
        end
    | Some (c, vs) =>
        match const_dests c with
        | None => Err EKey
        | Some dests =>
            do r <- simplify_const h c vs dests;
            match r with
            | Some x => Ok (Some x)
            | None =>
                match repeat_dests c with
                | None => Ok s
                | Some rd => do r2 <- simplify_repeat h vs rd;
                             match r2 with Some x => Ok (Some x) | None => Ok s end
                end
            end
        end
    end.

  (** * [_get_changed_class] / [_change_class] (838-892) *)

  Definition changed_class (h : hdr) (s : kst) (new : cls) (slice_dim : option nat) : res (list V) :=
    let cur := visible h s in
    let cc := kst_class cur in
    if ocls_eqb cc (Some new) then Ok (match cur with Some (_, vs) => vs | None => [] end) else
    match preserving cc with
    | None => Err EKey
    | Some allowed =>
        if negb (mem_cls new allowed) then Err EValue else
        do curr_mult <- match cc with None => Ok 1 | Some c => multiplicity h c end;
        let per_slice := match cc with None => false | Some c => is_slices c end in
        do new_mult <- (if class_valid h new then
                          do m <- multiplicity h new;
                          if m =? 0 then
                            match slice_dim with
                            | None => Err EType
                            | Some d => match shape_at h d with Some n => Ok n | None => Err EIndex end
                            end
                          else Ok m
                        else Ok 1);
        if curr_mult =? 0 then Err ECrash else
        let mult_fact := new_mult / curr_mult in
        let values := match cur with None => [vnone] | Some (_, vs) => vs end in
        let result := if per_slice then rep_list mult_fact values else rep_each mult_fact values in
        if cls_eqb new GConst then do v <- hd_res result; Ok [v] else Ok result
    end.

  Definition change_class_k (h : hdr) (s : kst) (new : cls) : res kst :=
    if ocls_eqb (kst_class (visible h s)) (Some new) then Ok s else
    do vals <- changed_class h s new None;
    put h new vals.

  (** * [get_subset] per key (446-501, 896-1036) *)

  (** [_copy_slice]: [ho] is the source ("other"), [hr] the result ("self"). *)
  Definition copy_slice_k (ho hr : hdr) (c : cls) (vs : list V) (idx : nat) : res kst :=
    do dest <- match base_of c with
               | BGlobal => match first_valid hr copy_slice_global_dests_c with Some d => Ok d | None => Err ECrash end
               | BVector => match first_valid hr copy_slice_vector_dests_c with Some d => Ok d | None => Err ECrash end
               | BTime => Ok GConst
               end;
    if negb (has_base hr (base_of dest)) then Err EKey else
    do dest_mult <- multiplicity hr dest;
    do stride <- match n_slices ho with Some 0 => Err EValue | Some n => Ok n | None => Ok 1 end;
    let subset := every_nth idx stride vs in
    do subset2 <- (if length subset <? dest_mult then
                     if length subset =? 0 then Err ECrash
                     else Ok (rep_list (dest_mult / length subset) subset)
                   else Ok subset);
    simplify_k hr (Some (dest, subset2)).

  (** [_global_slice_subset] *)
  Definition global_slice_subset (ho : hdr) (vs : list V) (sb : cbase) (idx : nat) : res (list V) :=
    match n_slices ho with
    | None => Err EType
    | Some n =>
        match sb with
        | BVector =>
            match shape_at ho 3 with
            | None => Err EIndex
            | Some t => let spv := n * t in Ok (py_slice (idx * spv) (idx * spv + spv) vs)
            end
        | _ =>
            if negb (class_valid ho VSamples) then Ok (py_slice (idx * n) (idx * n + n) vs)
            else match shape_at ho 3, shape_at ho 4 with
                 | Some t, Some v =>
                     let spv := n * t in
                     Ok (flat_map (fun vec => py_slice (vec * spv + idx * n) (vec * spv + idx * n + n) vs) (seq 0 v))
                 | _, _ => Err EIndex
                 end
        end
    end.

  (** [_copy_sample] ([sb] = 'time' or 'vector') *)
  Definition copy_sample_k (ho hr : hdr) (c : cls) (vs : list V) (sb : cbase) (idx : nat) : res kst :=
    if is_samples c then
      if cbase_eqb (base_of c) sb then
        (* the loop variable [dest_cls] survives the loop: first acceptable entry, else the last one *)
        do dest <- match find (fun d => negb (cls_eqb d c) && class_valid hr d) copy_sample_dests_c with
                   | Some d => Ok d
                   | None => match rev copy_sample_dests_c with d :: _ => Ok d | [] => Err ECrash end
                   end;
        do dest_mult <- multiplicity hr dest;
        if dest_mult =? 1 then
          match nth_error vs idx with
          | Some v => put hr dest [v]
          | None => Err EIndex
          end
        else
          match shape_at ho 3 with
          | None => Err EIndex
          | Some 0 => Err EValue
          | Some stride => do s <- put hr dest (every_nth idx stride vs); simplify_k hr s
          end
      else
        if cls_eqb c TSamples then
          do dm <- multiplicity hr c;
          do s <- put hr c (py_slice (idx * dm) (idx * dm + dm) vs);
          simplify_k hr s
        else put hr c vs
    else
      if cbase_eqb (base_of c) sb then
        match preserving (Some c) with
        | None => Err EKey
        | Some pc => match first_valid hr pc with
                     | None => Err EType                 (* get_class_dict(None) *)
                     | Some d => put hr d vs
                     end
        end
      else if negb (cbase_eqb (base_of c) BGlobal) then
        match sb with
        | BTime =>
            match n_slices hr with
            | None => Err EType
            | Some n => do s <- put hr c (py_slice (idx * n) (idx * n + n) vs); simplify_k hr s
            end
        | _ => put hr c vs
        end
      else
        do sub <- global_slice_subset ho vs sb idx;
        do s <- put hr c sub;
        simplify_k hr s.

  (** body of the [for src_class in valid_classes] loop of [get_subset], for one key *)
  Definition subset_k (h hr : hdr) (dim idx : nat) (s : kst) : res kst :=
    match visible h s with
    | None => Ok None
    | Some (c, vs) =>
        if cls_eqb c GConst then put hr c vs
        else if odim_is (sdim h) dim then
          if negb (is_slices c) then put hr c vs else copy_slice_k h hr c vs idx
        else if dim <? 3 then put hr c vs
        else if dim =? 3 then copy_sample_k h hr c vs BTime idx
        else copy_sample_k h hr c vs BVector idx
    end.

  (** * [_insert] per key (1038-1204) *)

  (** the "reclassify our meta data so it matches the other classification" loop body *)
  Definition reclassify_k (hs : hdr) (ks : kst) (oc : cls) : res kst :=
    let lc := kst_class (visible hs ks) in
    if ocls_eqb lc (Some oc) then Ok ks else
    match preserving lc, preserving (Some oc) with
    | Some la, Some oa =>
        if mem_cls oc la then change_class_k hs ks oc
        else if negb (match lc with Some c => mem_cls c oa | None => false end) then
          match find (fun d => has_base hs (base_of d) && mem_cls d oa) la with
          | Some d => change_class_k hs ks d
          | None => match lc with None => Ok ks | Some _ => Err EValue end   (* _change_class(key, None) *)
          end
        else Ok ks
    | _, _ => Err EKey
    end.

  (** move the key to ('global','slices') and recompute both value lists (shared by the two general paths) *)
  Definition to_global_slices (hs ho : hdr) (ks ko : kst) (classes : cls) (lv ov : list V)
    : res (list V * list V) :=
    if cls_eqb classes GSlices then Ok (lv, ov) else
    do ks2 <- change_class_k hs ks GSlices;
    match visible hs ks2 with
    | Some (_, lv2) => do ov2 <- changed_class ho ko GSlices (sdim hs); Ok (lv2, ov2)
    | None => Err ECrash
    end.

  Definition insert_slice_k (hs ho : hdr) (ks ko : kst) : res kst :=
    match visible hs ks with
    | None => Err ECrash                                 (* unreachable after reclassification *)
    | Some (classes, lv) =>
        do ov <- changed_class ho ko classes (sdim hs);
        match classes with
        | GConst =>
            if negb (list_eqb veqb lv ov) then
              match find (has_base hs) insert_slice_bases_c with
              | None => Ok ks
              | Some b =>
                  let dc := slices_of_base b in
                  do ks2 <- change_class_k hs ks dc;
                  do ov2 <- changed_class ho ko dc (sdim hs);
                  match visible hs ks2 with
                  | Some (c2, lv2) => Ok (Some (c2, lv2 ++ ov2))
                  | None => Err EAttr                    (* get_values(key) is None *)
                  end
              end
            else Ok ks
        | TSlices => Ok (Some (classes, lv ++ ov))
        | _ =>
            do lo <- to_global_slices hs ho ks ko classes lv ov;
            match n_slices hs, n_slices ho with
            | Some n, Some m =>
                Ok (Some (GSlices, interleave n m (prod_list (skipn 3 (shape hs))) (fst lo) (snd lo)))
            | _, _ => Err EType
            end
        end
    end.

  Definition insert_non_slice_k (hs ho : hdr) (ks ko : kst) : res kst :=
    match visible hs ks with
    | None => Err ECrash
    | Some (classes, lv) =>
        do ov <- changed_class ho ko classes (sdim hs);
        if list_eqb veqb lv ov then Ok ks else Ok None
    end.

  Definition insert_sample_k (hs ho : hdr) (ks ko : kst) (sb : cbase) : res kst :=
    match visible hs ks, samples_of_base sb with
    | Some (classes, lv), Some sc =>
        do ov <- changed_class ho ko classes (sdim hs);
        let time_in_5d := cbase_eqb sb BTime && (ndim hs =? 5) in
        if cls_eqb classes GConst && negb time_in_5d then
          if negb (list_eqb veqb lv ov) then
            do ks2 <- change_class_k hs ks sc;
            do ov2 <- changed_class ho ko sc (sdim hs);
            match visible hs ks2 with
            | Some (c2, lv2) => Ok (Some (c2, lv2 ++ ov2))
            | None => Err EAttr
            end
          else Ok ks
        else if cls_eqb classes sc && negb time_in_5d then Ok (Some (classes, lv ++ ov))
        else if cls_eqb classes GConst && list_eqb veqb lv ov then Ok ks
        else
          do lo <- to_global_slices hs ho ks ko classes lv ov;
          if cbase_eqb sb BTime && (ndim hs =? 5) then
            match n_slices hs with
            | None => Err EType
            | Some n =>
                match shape_at hs 3, shape_at ho 3, shape_at hs 4 with
                | Some t, Some ot, Some v =>
                    Ok (Some (GSlices, interleave (n * t) (n * ot) v (fst lo) (snd lo)))
                | _, _, _ => Err EIndex
                end
            end
          else Ok (Some (GSlices, fst lo ++ snd lo))
    | _, _ => Err ECrash
    end.

  (** one [_insert(dim, other)] for one key: [hs] = header of [self] at that moment, [ho] = header of [other]. *)
  Definition insert_k (hs ho : hdr) (dim : nat) (ks ko : kst) : res kst :=
    let use_sl := use_slices hs ho in
    (* per-slice meta of [other] is (temporarily) removed when the slice normals differ *)
    let ko2 := match visible ho ko with
               | Some (c, vs) => if is_slices c && negb use_sl then None else Some (c, vs)
               | None => None
               end in
    match ko2, visible hs ks with
    | None, None => Ok ks                                (* key neither in other nor (visibly) in self *)
    | _, _ =>
        (* a key missing from other is treated as ('global','const') with value None *)
        let oc := match ko2 with Some (c, _) => c | None => GConst end in
        do ks1 <- reclassify_k hs ks oc;
        if odim_is (sdim hs) dim then insert_slice_k hs ho ks1 ko2
        else if dim <? 3 then insert_non_slice_k hs ho ks1 ko2
        else if dim =? 3 then insert_sample_k hs ho ks1 ko2 BTime
        else if dim =? 4 then insert_sample_k hs ho ks1 ko2 BVector
        else Ok ks1
    end.

  (** * [from_sequence] (582-677) *)

  Fixpoint pad_to (n : nat) (l : list nat) : list nat :=
    match n with
    | 0 => l
    | S n' => match l with [] => 1 :: pad_to n' [] | x :: r => x :: pad_to n' r end
    end.

  Definition with_dim (h : hdr) (dim n : nat) : hdr :=
    match set_nth dim n (shape h) with Some sh => with_shape h sh | None => h end.

  (** header of the result (its shape is the final output shape) + all the header-level errors *)
  Definition merge_hdr (hs : list hdr) (dim : nat) (affine : option (list (list Q))) (slice_dim : option nat)
    : res hdr :=
    if 5 <=? dim then Err EValue else
    match hs with
    | [] => Err EIndex
    | h0 :: _ =>
        let ish := shape h0 in
        if (dim <? length ish) && negb (nth dim ish 0 =? 1) then Err EValue else
        match set_nth dim (length hs) (pad_to (S dim) ish) with
        | None => Err ECrash
        | Some osh =>
            let a := match affine with Some a => a | None => aff h0 end in
            let sd := match slice_dim with Some d => Some d | None => sdim h0 end in
            do hfull <- make_empty_hdr osh a sd;
            if negb (ndim_ok h0) then Err EValue else
            let use0 := use_slices hfull h0 in
            if forallb (fun c => (is_slices c && negb use0) || has_base hfull (base_of c)) (valid_classes h0)
            then Ok hfull else Err EKey
        end
    end.

  (** initialise the result from the first input *)
  Definition init_k (hfull h0 : hdr) (k0 : kst) : kst :=
    match visible h0 k0 with
    | Some (c, vs) => if is_slices c && negb (use_slices hfull h0) then None else Some (c, vs)
    | None => None
    end.

  Fixpoint insert_all_k (hfull : hdr) (dim j : nat) (others : list (hdr * kst)) (ks : kst) : res kst :=
    match others with
    | [] => Ok ks
    | (ho, ko) :: r => do ks' <- insert_k (with_dim hfull dim j) ho dim ks ko;
                       insert_all_k hfull dim (S j) r ks'
    end.

  (** the whole merge for one key: [ins] = (header, state of the key) of every input, in order *)
  Definition merge_k (hfull : hdr) (dim : nat) (ins : list (hdr * kst)) : res kst :=
    match ins with
    | [] => Err EIndex
    | (h0, k0) :: r =>
        do ks <- insert_all_k hfull dim 1 r (init_k hfull h0 k0);
        match visible hfull ks with
        | Some (GSlices, _) => simplify_k hfull ks        (* final pass over ('global','slices') *)
        | _ => Ok ks
        end
    end.

  (** * Whole extensions *)

  Fixpoint collect (l : list (key * kst)) : list (key * (cls * list V)) :=
    match l with
    | [] => []
    | (k, Some x) :: r => (k, x) :: collect r
    | (_, None) :: r => collect r
    end.

  Definition map_keys (f : key -> res kst) (keys : list key) : res (list (key * (cls * list V))) :=
    do l <- mapM (fun k => do s <- f k; Ok (k, s)) keys; Ok (collect l).

  Definition make_empty (sh : list nat) (a : list (list Q)) (sd : option nat) : res ext :=
    do h <- make_empty_hdr sh a sd; Ok (mk_ext h []).

  Definition subset_hdr (h : hdr) (dim : nat) : res hdr :=
    if 5 <=? dim then Err EValue else
    if negb (ndim_ok h) then Err EValue else
    match set_nth dim 1 (shape h) with
    | None => Err EIndex
    | Some sh => make_empty_hdr (trim_ones sh) (aff h) (sdim h)
    end.

  (** statements of [_copy_sample] that run once per source class even when that class holds no key *)
  Definition subset_prelude (h hr : hdr) (dim : nat) (c : cls) : res unit :=
    if cls_eqb c GConst || odim_is (sdim h) dim || (dim <? 3) then Ok tt else
    let sb := if dim =? 3 then BTime else BVector in
    if is_samples c then
      if negb (cbase_eqb (base_of c) sb) && cls_eqb c TSamples
      then do _ <- multiplicity hr c; Ok tt else Ok tt
    else Ok tt.

  Definition get_subset (e : ext) (dim idx : nat) : res ext :=
    do hr <- subset_hdr (hdr_of e) dim;
    do _ <- mapM (subset_prelude (hdr_of e) hr dim) (valid_classes (hdr_of e));
    do ents <- map_keys (fun k => subset_k (hdr_of e) hr dim idx (lookup_e e k)) (dedup_keys [] (keys_e e));
    Ok (mk_ext hr ents).

  Definition from_sequence (es : list ext) (dim : nat) (affine : option (list (list Q)))
             (slice_dim : option nat) : res ext :=
    do hfull <- merge_hdr (map (@hdr_of V) es) dim affine slice_dim;
    do ents <- map_keys (fun k => merge_k hfull dim (map (fun e => (hdr_of e, lookup_e e k)) es))
                        (dedup_keys [] (flat_map (@keys_e V) es));
    Ok (mk_ext hfull ents).

  (** [_simplify] / [_change_class] on a whole extension (used by other areas, e.g. inject) *)
  Definition get_values_and_class (e : ext) (k : key) : kst := visible (hdr_of e) (lookup_e e k).

  (** * Lookups: [NiftiWrapper.__getitem__], [meta_valid], [get_meta] (1296-1409) *)

  Record img := mk_img { ishape : list nat; islice : option nat; iaff : list (list Q) }.

  Definition getitem (e : ext) (k : key) : res V :=
    match lookup_e e k with
    | Some (GConst, v :: _) => Ok v
    | _ => Err EKey
    end.

  Definition meta_valid (im : img) (h : hdr) (c : cls) : bool :=
    match c with
    | GConst => true
    | VSamples => list_nat_eqb (skipn 4 (shape h)) (skipn 4 (ishape im))
    | TSamples => list_nat_eqb (skipn 3 (shape h)) (skipn 3 (ishape im))
    | _ =>
        match islice im, sdim h with
        | Some isd, Some msd =>
            if negb (nth msd (shape h) 0 =? nth isd (ishape im) 0) then false else
            let aligned := allclose rtol_default meta_valid_atol
                                    (firstn 3 (nth isd (iaff im) [])) (firstn 3 (nth msd (aff h) [])) in
            match c with
            | TSlices => aligned
            | VSlices => list_nat_eqb (py_slice 3 4 (shape h)) (py_slice 3 4 (ishape im)) && aligned
            | _ => list_nat_eqb (skipn 3 (shape h)) (skipn 3 (ishape im)) && aligned
            end
        | _, _ => false
        end
    end.

  Definition index_in_bounds (ix : list Z) (sh : list nat) : bool :=
    forallb (fun p => (0 <=? fst p)%Z && (fst p <? Z.of_nat (snd p))%Z) (combine ix sh).

  Definition nth_res {A} (l : list A) (i : nat) : res A :=
    match nth_error l i with Some x => Ok x | None => Err EIndex end.

  Definition get_meta (im : img) (e : ext) (k : key) (index : option (list Z)) (default : V) : res V :=
    match visible (hdr_of e) (lookup_e e k) with
    | None => Ok default
    | Some (c, vs) =>
        if cls_eqb c GConst then Ok (List.hd default vs) else
        if negb (meta_valid im (hdr_of e) c) then Ok default else
        match index with
        | None => Ok default
        | Some ix =>
            let sh := ishape im in
            if negb (length ix =? length sh) then Err EIndex else
            if negb (index_in_bounds ix sh) then Err EIndex else
            let ixn := map Z.to_nat ix in
            match c with
            | TSamples =>
                do i3 <- nth_res ixn 3;
                do vi <- (if length sh =? 5 then
                            do i4 <- nth_res ixn 4; do s3 <- nth_res sh 3; Ok (i3 + i4 * s3)
                          else Ok i3);
                nth_res vs vi
            | VSamples => do i4 <- nth_res ixn 4; nth_res vs i4
            | _ =>
                match islice im with
                | None => Err EType
                | Some sd =>
                    do n <- nth_res sh sd;
                    do is_ <- nth_res ixn sd;
                    match c with
                    | GSlices =>
                        nth_res vs (fst (fold_left (fun acc p => (fst acc + fst p * snd acc, snd acc * snd p))
                                                   (combine (skipn 3 ixn) (skipn 3 sh)) (is_, n)))
                    | TSlices => nth_res vs is_
                    | _ => do i3 <- nth_res ixn 3; nth_res vs (is_ + i3 * n)
                    end
                end
            end
        end
    end.
End WithV.

(** * Boolean domain predicates (executable; the declarative versions are in Ext/Spec.v) *)
Section Preds.
  Context {V : Type}.

  (** no key sits in a varying class whose multiplicity is 1 *)
  Definition nondegenerateb (e : ext V) : bool :=
    forallb (fun kv => let c := fst (snd kv) in
                       cls_eqb c GConst || match multiplicity (hdr_of e) c with Ok 1 => false | _ => true end)
            (entries e).

  Fixpoint nodup_keys (l : list key) : bool :=
    match l with [] => true | k :: r => negb (mem_key k r) && nodup_keys r end.

  (** executable counterpart of [Spec.valid] *)
  Definition validb (e : ext V) : bool :=
    let h := hdr_of e in
    ndim_ok h && forallb (fun n => 1 <=? n) (shape h)
    && match sdim h with Some d => d <? 3 | None => true end
    && (length (aff h) =? 4) && forallb (fun r => length r =? 4) (aff h)
    && forallb (fun c => has_base h (base_of c)) (valid_classes h)
    && nodup_keys (keys_e e)
    && forallb (fun kv => let c := fst (snd kv) in
                          match multiplicity h c with
                          | Ok m => (1 <=? m) && (length (snd (snd kv)) =? m)
                          | Err _ => false
                          end) (entries e).
End Preds.
