(** C07: closure of validity under [make_empty], [filter_meta], [clear_slice_meta], [inject], and
    under every finite history of operations ([Ops.run]). *)
From Coq Require Import List Bool Arith QArith Lia.
From DV Require Import Common.Res Common.Str Ext.Types Ext.Classes Ext.Seq Ext.Model Ext.Spec
     Ext.TableFacts Ext.ValidFacts Ext.ProofsValidBase Ext.ProofsValidSimplify Ext.ProofsValidSubset
     Ext.ProofsValidInsert Ext.ProofsValidMerge Ext.Ops.
Import ListNotations.
Local Open Scope nat_scope.

Lemma NoDup_app_single {A} (l : list A) (k : A) : NoDup l -> ~ In k l -> NoDup (l ++ [k]).
Proof.
  induction l as [|x l IH]; intros Hnd Hn; cbn [app]; [constructor; [intros []|constructor]|].
  inversion Hnd as [|? ? Hx Hnd']; subst. constructor.
  - intros Hin. apply in_app_iff in Hin as [Hin|[<-|[]]]; [contradiction | apply Hn; left; reflexivity].
  - apply IH; [exact Hnd' | intros Hin; apply Hn; right; exact Hin].
Qed.

Section WithV.
  Context {V : Type} (veqb : V -> V -> bool) (vnone : V).
  Hypothesis veqb_refl : forall v, veqb v v = true.

  Notation ext := (ext V).
  Notation entry := (key * (cls * list V))%type.

  (** * [make_empty] *)
  Theorem make_empty_valid sh a sd (r : ext) :
    Forall (fun n => 1 <= n) sh -> make_empty sh a sd = Ok r -> valid r /\ nondegenerate r.
  Proof.
    intros Hp H. unfold make_empty in H. apply bind_ok in H as [h [Hh H]]. injection H as <-.
    split.
    - split; [apply (make_empty_hdr_wf _ _ _ _ Hh Hp)|]. split; [constructor|]. intros k c vs [].
    - intros k c vs [].
  Qed.

  (** every 3..5-D shape is accepted, in particular (X,Y,Z,1) and (X,Y,Z,1,V) *)
  Theorem make_empty_total sh a sd :
    3 <= length sh <= 5 -> (length a = 4 /\ Forall (fun r => length r = 4) a) ->
    (forall d, sd = Some d -> d < 3) -> exists r : ext, make_empty sh a sd = Ok r.
  Proof.
    intros Hn Ha Hsd. destruct (make_empty_hdr_total sh a sd Hn Ha Hsd) as [h Hh].
    exists (mk_ext h []). unfold make_empty. rewrite Hh. reflexivity.
  Qed.

  Theorem make_empty_shape sh a sd (r : ext) :
    make_empty sh a sd = Ok r -> shape (hdr_of r) = sh /\ sdim (hdr_of r) = sd /\ aff (hdr_of r) = a /\ entries r = [].
  Proof.
    intros H. unfold make_empty in H. apply bind_ok in H as [h [Hh H]]. injection H as <-.
    apply make_empty_hdr_ok in Hh as [H1 [H2 [H3 _]]]. repeat split; assumption.
  Qed.

  (** * removing entries *)
  Lemma filter_keys_incl (p : entry -> bool) (l : list entry) k :
    In k (map fst (filter p l)) -> In k (map fst l).
  Proof.
    intros H. apply in_map_iff in H as [x [Hx Hin]]. apply filter_In in Hin as [Hin _].
    apply in_map_iff. exists x. split; assumption.
  Qed.

  Lemma filter_keys_NoDup (p : entry -> bool) (l : list entry) :
    NoDup (map fst l) -> NoDup (map fst (filter p l)).
  Proof.
    induction l as [|x l IH]; cbn [map filter]; intros H; [constructor|].
    inversion H as [|? ? Hn Hnd]; subst. destruct (p x); cbn [map]; [|apply IH; exact Hnd].
    constructor; [intros Hin; apply Hn; apply (filter_keys_incl p); exact Hin | apply IH; exact Hnd].
  Qed.

  Lemma remove_entries_valid (p : entry -> bool) (e : ext) :
    valid e -> nondegenerate e ->
    valid (mk_ext (hdr_of e) (filter p (entries e))) /\ nondegenerate (mk_ext (hdr_of e) (filter p (entries e))).
  Proof.
    intros [Hh [Hnd Hent]] Hn. split.
    - split; [exact Hh|]. split; [apply filter_keys_NoDup; exact Hnd|].
      intros k c vs Hin. cbn [entries hdr_of] in *. apply filter_In in Hin as [Hin _]. apply (Hent _ _ _ Hin).
    - intros k c vs Hin. cbn [entries hdr_of] in *. apply filter_In in Hin as [Hin _]. apply (Hn _ _ _ Hin).
  Qed.

  Theorem filter_meta_valid f (e r : ext) :
    valid e -> nondegenerate e -> filter_meta f e = Ok r -> valid r /\ nondegenerate r.
  Proof.
    intros Hv Hn H. unfold filter_meta in H. destruct (negb (ndim_ok (hdr_of e))); [discriminate|].
    injection H as <-. apply remove_entries_valid; assumption.
  Qed.

  Theorem clear_slice_meta_valid (e r : ext) :
    valid e -> nondegenerate e -> clear_slice_meta e = Ok r -> valid r /\ nondegenerate r.
  Proof.
    intros Hv Hn H. unfold clear_slice_meta in H. destruct (negb (ndim_ok (hdr_of e))); [discriminate|].
    injection H as <-. apply remove_entries_valid; assumption.
  Qed.

  (** what the two filters keep (they are total on valid extensions) *)
  Theorem filter_meta_spec f (e : ext) : valid e ->
    exists r, filter_meta f e = Ok r /\ hdr_of r = hdr_of e /\
      forall k c vs, In (k, (c, vs)) (entries r) <-> In (k, (c, vs)) (entries e) /\ f k vs = false.
  Proof.
    intros Hv. pose proof (valid_validb e Hv) as Hb. unfold validb in Hb. rewrite !andb_true_iff in Hb.
    destruct Hb as [[[[[[[Hnd _] _] _] _] _] _] _].
    unfold filter_meta. rewrite Hnd. cbn [negb]. eexists. split; [reflexivity|]. split; [reflexivity|].
    intros k c vs. cbn [entries]. rewrite filter_In. cbn [fst snd]. split.
    - intros [Hin Hp]. split; [exact Hin|]. destruct Hv as [_ [_ Hent]]. destruct (Hent _ _ _ Hin) as [Hok _].
      rewrite class_valid_ok, Hok in Hp. cbn [andb] in Hp. apply negb_true_iff in Hp. exact Hp.
    - intros [Hin Hf]. split; [exact Hin|]. rewrite Hf, andb_false_r. reflexivity.
  Qed.

  Theorem clear_slice_meta_spec (e : ext) : valid e ->
    exists r, clear_slice_meta e = Ok r /\ hdr_of r = hdr_of e /\
      forall k c vs, In (k, (c, vs)) (entries r) <-> In (k, (c, vs)) (entries e) /\ is_slices c = false.
  Proof.
    intros Hv. pose proof (valid_validb e Hv) as Hb. unfold validb in Hb. rewrite !andb_true_iff in Hb.
    destruct Hb as [[[[[[[Hnd _] _] _] _] _] _] _].
    unfold clear_slice_meta. rewrite Hnd. cbn [negb]. eexists. split; [reflexivity|]. split; [reflexivity|].
    intros k c vs. cbn [entries]. rewrite filter_In. cbn [fst snd]. split.
    - intros [Hin Hp]. split; [exact Hin|]. destruct Hv as [_ [_ Hent]]. destruct (Hent _ _ _ Hin) as [Hok _].
      rewrite class_valid_ok, Hok in Hp. cbn [andb] in Hp. apply negb_true_iff in Hp. exact Hp.
    - intros [Hin Hf]. split; [exact Hin|]. rewrite Hf, andb_false_r. reflexivity.
  Qed.

  (** * [inject] *)
  Lemma visible_keys_valid (e : ext) : valid e -> visible_keys e = keys_e e.
  Proof.
    intros [_ [_ Hent]]. unfold visible_keys, keys_e. f_equal.
    revert Hent. generalize (entries e) as l. induction l as [|[k [c vs]] l IH]; intros Hent; [reflexivity|].
    cbn [filter fst snd].
    destruct (Hent k c vs (or_introl eq_refl)) as [Hok _]. rewrite class_valid_ok, Hok. f_equal.
    apply IH. intros k' c' vs' Hin. apply (Hent k' c' vs'). right. exact Hin.
  Qed.

  Theorem inject_valid (e r : ext) c k values force :
    valid e -> inject e c k values force = Ok r -> valid r.
  Proof.
    intros Hv H. pose proof (hdr_wf_shape_wf _ (proj1 Hv)) as Hwf. unfold inject in H.
    destruct (negb (ndim_ok (hdr_of e))); [discriminate|].
    destruct (length values =? 0) eqn:E0; [discriminate|]. apply Nat.eqb_neq in E0.
    destruct (negb (class_valid (hdr_of e) c)) eqn:Ecv; [discriminate|].
    apply negb_false_iff in Ecv. rewrite class_valid_ok in Ecv.
    apply bind_ok in H as [m [Hm H]].
    destruct (negb (length values =? m)) eqn:Elen; [discriminate|].
    apply negb_false_iff, Nat.eqb_eq in Elen.
    rewrite (visible_keys_valid e Hv) in H.
    destruct (mem_key k (keys_e e) && negb force) eqn:Epf; [discriminate|]. injection H as <-.
    assert (Hsl : is_slices c = true -> sdim (hdr_of e) <> None).
    { apply (multiplicity_pos_sdim _ _ _ Hm). lia. }
    rewrite (multiplicity_wf _ _ Hwf Ecv Hsl) in Hm. apply Ok_inj in Hm.
    destruct Hv as [Hh [Hnd Hent]].
    set (kept := if mem_key k (keys_e e) then filter (fun kv : entry => negb (key_eqb k (fst kv) && class_valid (hdr_of e) (fst (snd kv)))) (entries e) else entries e).
    assert (Hkept : (forall x, In x kept -> In x (entries e)) /\ NoDup (map fst kept) /\ ~ In k (map fst kept)).
    { subst kept. destruct (mem_key k (keys_e e)) eqn:Emem.
      - split; [intros x Hx; apply filter_In in Hx as [Hx _]; exact Hx|]. split; [apply filter_keys_NoDup; exact Hnd|].
        intros Hin. apply in_map_iff in Hin as [[k' [c' vs']] [Hk' Hin]]. cbn [fst] in Hk'. subst k'.
        apply filter_In in Hin as [Hin Hp]. cbn [fst snd] in Hp. rewrite key_eqb_refl in Hp.
        destruct (Hent _ _ _ Hin) as [Hok _]. rewrite class_valid_ok, Hok in Hp. discriminate Hp.
      - split; [auto|]. split; [exact Hnd|]. apply mem_key_false. exact Emem. }
    destruct Hkept as [Hsub [Hnd' Hnin]].
    split; [exact Hh|]. cbn [hdr_of entries keys_e]. split.
    - unfold keys_e. cbn [entries]. rewrite map_app. cbn [map fst]. apply NoDup_app_single; assumption.
    - intros k' c' vs' Hin. apply in_app_iff in Hin as [Hin|[Heq|[]]].
      + apply (Hent _ _ _ (Hsub _ Hin)).
      + injection Heq as <- <- <-. split; [exact Ecv|]. split; [exact Hsl | congruence].
  Qed.

  (** nondegeneracy is kept when the injected class is not a varying class of multiplicity one *)
  Theorem inject_nondegenerate (e r : ext) c k values force :
    valid e -> nondegenerate e -> (c = GConst \/ mult_spec (dims (hdr_of e)) c <> 1) ->
    inject e c k values force = Ok r -> nondegenerate r.
  Proof.
    intros Hv Hn Hc H. unfold inject in H.
    destruct (negb (ndim_ok (hdr_of e))); [discriminate|].
    destruct (length values =? 0); [discriminate|].
    destruct (negb (class_valid (hdr_of e) c)); [discriminate|].
    apply bind_ok in H as [m [Hm H]].
    destruct (negb (length values =? m)); [discriminate|].
    destruct (mem_key k (visible_keys e) && negb force); [discriminate|]. injection H as <-.
    intros k' c' vs' Hin. cbn [hdr_of entries] in *. apply in_app_iff in Hin as [Hin|[Heq|[]]].
    - apply (Hn k' c' vs'). destruct (mem_key k (visible_keys e)); [apply filter_In in Hin as [Hin _]|]; exact Hin.
    - injection Heq as <- <- <-. intros Hx. destruct Hc as [->|Hc]; [contradiction | exact Hc].
  Qed.

  (** * every operation, and every finite history *)

  (** the preconditions under which an operation is meant to be used *)
  Definition op_dom (o : op V) (e : ext) : Prop :=
    match o with
    | OSubset dim idx => dim < ndim (hdr_of e) /\ idx < nth dim (shape (hdr_of e)) 0
    | OMerge before after dim affine slice_dim =>
        (forall x, In x (before ++ after) -> valid x /\ nondegenerate x) /\
        merge_dom (before ++ e :: after) slice_dim
    | OFilter _ => True
    | OClearSlices => True
    | OInject c k values force => c = GConst \/ mult_spec (dims (hdr_of e)) c <> 1
    end.

  Theorem apply_valid (o : op V) (e r : ext) :
    valid e -> nondegenerate e -> op_dom o e -> apply veqb vnone o e = Ok r -> valid r /\ nondegenerate r.
  Proof.
    intros Hv Hn Hd H. destruct o as [dim idx | before after dim affine slice_dim | f | | c k values force];
      cbn [apply op_dom] in *.
    - destruct Hd as [H1 H2]. apply (get_subset_valid veqb vnone veqb_refl e r dim idx Hv Hn H1 H2 H).
    - destruct Hd as [Hall Hdom].
      apply (from_sequence_valid veqb vnone veqb_refl (before ++ e :: after) dim affine slice_dim r); [|exact Hdom | exact H].
      intros x Hx. apply in_app_iff in Hx as [Hx|[<-|Hx]]; [apply Hall; apply in_app_iff; left; exact Hx | split; assumption |
        apply Hall; apply in_app_iff; right; exact Hx].
    - apply (filter_meta_valid f e r Hv Hn H).
    - apply (clear_slice_meta_valid e r Hv Hn H).
    - split; [apply (inject_valid e r c k values force Hv H) | apply (inject_nondegenerate e r c k values force Hv Hn Hd H)].
  Qed.

  (** the preconditions of a history, checked along its run *)
  Fixpoint ops_dom (ops : list (op V)) (e : ext) : Prop :=
    match ops with
    | [] => True
    | o :: rest => op_dom o e /\ forall e', apply veqb vnone o e = Ok e' -> ops_dom rest e'
    end.

  Lemma run_err (ops : list (op V)) err :
    fold_left (fun acc o => bind acc (apply veqb vnone o)) ops (Err err) = Err err.
  Proof. induction ops as [|o ops IH]; [reflexivity | exact IH]. Qed.

  Theorem run_valid (ops : list (op V)) : forall (e r : ext),
    valid e -> nondegenerate e -> ops_dom ops e -> run veqb vnone ops e = Ok r -> valid r /\ nondegenerate r.
  Proof.
    unfold run. induction ops as [|o ops IH]; intros e r Hv Hn Hd H; cbn [fold_left] in H.
    - injection H as <-. split; assumption.
    - cbn [ops_dom] in Hd. destruct Hd as [Hd1 Hd2]. cbn [bind] in H.
      destruct (apply veqb vnone o e) as [e'|err] eqn:Ea; [|rewrite run_err in H; discriminate].
      destruct (apply_valid o e e' Hv Hn Hd1 Ea) as [Hv' Hn'].
      apply (IH e' r Hv' Hn' (Hd2 e' eq_refl) H).
  Qed.
End WithV.
