(** Abstract specification of an extension: what it DENOTES (a value per key and grid position),
    which classes a shape admits, validity and canonical form.  No reference to the operations. *)
From Coq Require Import List Bool Arith Lia.
From DV Require Import Common.Str Ext.Types.
Import ListNotations.
Local Open Scope nat_scope.

Definition pos := (nat * nat * nat)%type.                 (* slice, time, vector index *)

(** classes admitted by a shape (documented rule: 3-D global only; 4-D global+time; 5-D all,
    except that time classes do not exist when the time axis is singular) *)
Definition class_ok (sh : list nat) (c : cls) : bool :=
  match length sh, base_of c with
  | 3, BGlobal => true
  | 4, BGlobal | 4, BTime => true
  | 5, BGlobal | 5, BVector => true
  | 5, BTime => negb (nth 3 sh 0 =? 1)
  | _, _ => false
  end.

(** (S, T, V): slices per volume (1 without a slice axis), time points, vector components *)
Definition dims (h : hdr) : pos :=
  (match sdim h with Some d => nth d (shape h) 1 | None => 1 end, nth 3 (shape h) 1, nth 4 (shape h) 1).

(** documented layout: slice index fastest, then time, then vector *)
Definition cidx (d : pos) (c : cls) (p : pos) : nat :=
  let '(nS, nT, _) := d in let '(s, t, v) := p in
  match c with
  | GConst => 0
  | GSlices => s + nS * (t + nT * v)
  | TSamples => t + nT * v
  | VSamples => v
  | TSlices => s
  | VSlices => s + nS * t
  end.

Definition mult_spec (d : pos) (c : cls) : nat :=
  let '(nS, nT, nV) := d in
  match c with
  | GConst => 1 | GSlices => nS * nT * nV | TSamples => nT * nV | VSamples => nV | TSlices => nS | VSlices => nS * nT
  end.

Definition in_dims (d p : pos) : Prop :=
  let '(nS, nT, nV) := d in let '(s, t, v) := p in s < nS /\ t < nT /\ v < nV.

(** preference order: const < vector samples < time samples < time slices < vector slices < global slices *)
Definition pref_rank (c : cls) : nat :=
  match c with GConst => 0 | VSamples => 1 | TSamples => 2 | TSlices => 3 | VSlices => 4 | GSlices => 5 end.

Section WithV.
  Context {V : Type} (vnone : V).

  (** value of key [k] at position [p]; [vnone] when the key is absent or its class is not admitted *)
  Definition den (e : ext V) (k : key) (p : pos) : V :=
    match lookup_e e k with
    | Some (c, vs) =>
        if class_ok (shape (hdr_of e)) c then nth (cidx (dims (hdr_of e)) c p) vs vnone else vnone
    | None => vnone
    end.

  (** class [c] can represent the position-indexed family [f] *)
  Definition representable (d : pos) (c : cls) (f : pos -> V) : Prop :=
    forall p q, in_dims d p -> in_dims d q -> cidx d c p = cidx d c q -> f p = f q.

  (** [c] is THE canonical class of [f] for this shape: the admitted class of least rank representing [f] *)
  Definition canon_class (sh : list nat) (d : pos) (f : pos -> V) (c : cls) : Prop :=
    class_ok sh c = true /\ representable d c f /\
    forall c', class_ok sh c' = true -> representable d c' f -> pref_rank c <= pref_rank c'.

  Definition hdr_wf (h : hdr) : Prop :=
    3 <= ndim h <= 5 /\ Forall (fun n => 1 <= n) (shape h) /\
    (forall d, sdim h = Some d -> d < 3) /\
    (length (aff h) = 4 /\ Forall (fun r => length r = 4) (aff h)) /\
    (forall c, class_ok (shape h) c = true -> has_base h (base_of c) = true).

  (** format rules (each key once, admitted class, exact value count; per-slice data needs a slice axis) *)
  Definition valid (e : ext V) : Prop :=
    hdr_wf (hdr_of e) /\ NoDup (keys_e e) /\
    forall k c vs, In (k, (c, vs)) (entries e) ->
      class_ok (shape (hdr_of e)) c = true /\
      (is_slices c = true -> sdim (hdr_of e) <> None) /\
      length vs = mult_spec (dims (hdr_of e)) c.

  (** domain restriction: no key in a varying class whose multiplicity is 1 *)
  Definition nondegenerate (e : ext V) : Prop :=
    forall k c vs, In (k, (c, vs)) (entries e) -> c <> GConst -> mult_spec (dims (hdr_of e)) c <> 1.

  Definition canonical (e : ext V) : Prop :=
    valid e /\
    forall k c vs, In (k, (c, vs)) (entries e) ->
      canon_class (shape (hdr_of e)) (dims (hdr_of e)) (den e k) c /\ (exists p, in_dims (dims (hdr_of e)) p /\ den e k p <> vnone).

  (** extensions as unordered maps *)
  Definition ext_equiv (a b : ext V) : Prop :=
    hdr_of a = hdr_of b /\ forall k, lookup_e a k = lookup_e b k.
End WithV.
