(** C03 at the level of whole extensions: [from_sequence] is concatenation of per-position meta data
    ([merge_den]), non-slice merges keep the agreed keys ([merge_nonslice]), totality ([merge_total]) and
    refusal ([merge_refuses]). *)
From Coq Require Import List Bool Arith QArith Lia.
From DV Require Import Common.Res Common.Str Ext.Types Ext.Classes Ext.Seq Ext.Model Ext.Spec Ext.TableFacts
     Ext.ValidFacts Ext.ProofsMergeSeq Ext.ProofsMergeDen Ext.ProofsMergeStep Ext.ProofsMergeFrame
     Ext.ProofsMergeSimplify Ext.ProofsMergeKey.
Import ListNotations.
Local Open Scope nat_scope.

(** * Keys: [dedup_keys], [mapM], [map_keys] *)

Lemma dedup_keys_spec l : forall seen,
  NoDup (dedup_keys seen l) /\ forall k, In k (dedup_keys seen l) <-> In k l /\ ~ In k seen.
Proof.
  induction l as [|x r IH]; intros seen; cbn [dedup_keys].
  - split; [constructor|]. intros k. cbn. tauto.
  - destruct (mem_key x seen) eqn:E.
    + apply mem_key_In in E. destruct (IH seen) as [H1 H2]. split; [exact H1|].
      intros k. rewrite H2. cbn [In]. split; [tauto|]. intros [[->|H] Hn]; [contradiction | tauto].
    + assert (Hx : ~ In x seen) by (intros H; apply mem_key_In in H; congruence).
      destruct (IH (x :: seen)) as [H1 H2]. split.
      * constructor; [|exact H1]. rewrite H2. cbn [In]. tauto.
      * intros k. cbn [In]. rewrite H2. cbn [In]. split.
        -- intros [<-|[H3 H4]]; [tauto|]. split; [tauto|]. tauto.
        -- intros [[<-|H3] H4]; [tauto|]. destruct (str_eqb_spec x k) as [->|Hne]; [tauto|]. right. tauto.
Qed.

Lemma mapM_inv {A B} (f : A -> res B) l out :
  mapM f l = Ok out -> length out = length l /\ forall i a b, i < length l -> f (nth i l a) = Ok (nth i out b).
Proof.
  revert out. induction l as [|x r IH]; intros out H; cbn [mapM] in H.
  - apply Ok_inj in H. subst. split; [reflexivity|]. intros i a b Hi. cbn in Hi. lia.
  - destruct (f x) as [y|] eqn:Ex; [|discriminate]. destruct (mapM f r) as [ys|] eqn:Er; [|discriminate].
    apply Ok_inj in H. subst out. destruct (IH ys eq_refl) as [Hl Hn]. split; [cbn; lia|].
    intros [|i] a b Hi; cbn [nth]; [exact Ex | apply Hn; cbn in Hi; lia].
Qed.

Lemma mapM_ok {A B} (f : A -> res B) l :
  (forall x, In x l -> exists y, f x = Ok y) -> exists out, mapM f l = Ok out.
Proof.
  induction l as [|x r IH]; intros H; cbn [mapM]; [eauto|].
  destruct (H x (or_introl eq_refl)) as [y ->]. destruct (IH (fun z Hz => H z (or_intror Hz))) as [ys ->]. eauto.
Qed.

Section WithV.
  Context {V : Type}.

  Lemma assoc_notin (l : list (key * (cls * list V))) k : ~ In k (map fst l) -> assoc k l = None.
  Proof.
    induction l as [|[k' x] r IH]; cbn [assoc map fst In]; [reflexivity|]. intros H.
    unfold key_eqb. destruct (str_eqb_spec k k') as [->|_]; [tauto | apply IH; tauto].
  Qed.

  Lemma assoc_in_nodup (l : list (key * (cls * list V))) k x :
    NoDup (map fst l) -> In (k, x) l -> assoc k l = Some x.
  Proof.
    induction l as [|[k' y] r IH]; cbn [assoc map fst In]; [tauto|]. intros Hnd [H|H].
    - injection H as -> ->. unfold key_eqb. rewrite str_eqb_refl. reflexivity.
    - inversion Hnd as [|? ? Hn Hr]; subst. unfold key_eqb. destruct (str_eqb_spec k k') as [->|_].
      + exfalso. apply Hn. apply (in_map fst) in H. exact H.
      + apply IH; assumption.
  Qed.

  Lemma collect_in (l : list (key * kst V)) k x : In (k, x) (collect l) <-> In (k, Some x) l.
  Proof.
    induction l as [|[k' [y|]] r IH]; cbn [collect In]; [tauto | |].
    - rewrite IH. split; (intros [H|H]; [injection H as -> ->; left; reflexivity | right; exact H]).
    - rewrite IH. split; [auto|]. intros [H|H]; [discriminate | exact H].
  Qed.

  Lemma collect_keys_incl (l : list (key * kst V)) k : In k (map fst (collect l)) -> In k (map fst l).
  Proof.
    induction l as [|[k' [y|]] r IH]; cbn [collect map fst In]; [tauto | |]; intros H.
    - destruct H as [H|H]; [left; exact H | right; apply IH; exact H].
    - right; apply IH; exact H.
  Qed.

  Lemma collect_nodup (l : list (key * kst V)) : NoDup (map fst l) -> NoDup (map fst (collect l)).
  Proof.
    induction l as [|[k' [y|]] r IH]; cbn [collect map fst]; intros H; [constructor | |].
    - inversion H as [|? ? Hn Hr]; subst. constructor; [|apply IH; exact Hr].
      intros Hin. apply Hn. apply collect_keys_incl. exact Hin.
    - inversion H; subst. apply IH. assumption.
  Qed.

  (** what [map_keys] returns *)
  Lemma map_keys_spec (f : key -> res (kst V)) keys ents :
    map_keys f keys = Ok ents -> NoDup keys ->
    NoDup (map fst ents) /\
    (forall k x, In (k, x) ents -> In k keys /\ f k = Ok (Some x)) /\
    (forall k, In k keys -> exists s, f k = Ok s /\ assoc k ents = s) /\
    (forall k, ~ In k keys -> assoc k ents = None).
  Proof.
    unfold map_keys. intros H Hnd. apply bind_ok in H as [l [Hm H]]. apply Ok_inj in H. subst ents.
    destruct (mapM_inv _ _ _ Hm) as [Hlen Hnth].
    assert (Hl : forall i, i < length keys ->
              exists s, f (nth i keys []) = Ok s /\ nth i l ([], None) = (nth i keys [], s)).
    { intros i Hi. specialize (Hnth i [] ([], None) Hi). apply bind_ok in Hnth as [s [Hs Hn]].
      apply Ok_inj in Hn. exists s. split; [exact Hs | symmetry; exact Hn]. }
    assert (Hfst : map fst l = keys).
    { apply (nth_ext _ _ [] []); [rewrite map_length; exact Hlen|].
      intros i Hi. assert (Hi' : i < length keys) by (rewrite ?map_length in Hi; lia). destruct (Hl i Hi') as [s [_ E]].
      rewrite (nth_indep _ [] (fst (@nil N, @None (cls * list V))))
        by (rewrite map_length, Hlen; exact Hi').
      rewrite map_nth, E. reflexivity. }
    assert (Hin : forall k s, In (k, s) l -> In k keys /\ f k = Ok s).
    { intros k s Hks. destruct (In_nth _ _ ([], None) Hks) as [i [Hi0 E]].
      assert (Hi : i < length keys) by (rewrite <- Hlen; exact Hi0).
      destruct (Hl i Hi) as [s' [Hs' E']]. pose proof (eq_trans (eq_sym E) E') as E2. injection E2 as -> ->.
      split; [apply nth_In; exact Hi | exact Hs']. }
    assert (Hnd' : NoDup (map fst l)) by (rewrite Hfst; exact Hnd).
    split; [apply collect_nodup; exact Hnd'|]. split; [|split].
    - intros k x Hx. apply collect_in in Hx. apply Hin. exact Hx.
    - intros k Hk. destruct (In_nth _ _ [] Hk) as [i [Hi E]]. destruct (Hl i Hi) as [s [Hs E']].
      subst k.
      assert (Hks : In (nth i keys [], s) l).
      { refine (eq_ind _ (fun z => In z l) _ _ E'). apply nth_In.
        exact (eq_ind_r (fun n => i < n) Hi Hlen). }
      exists s. split; [exact Hs|].
      destruct s as [x|].
      + apply assoc_in_nodup; [apply collect_nodup; exact Hnd' | apply collect_in; exact Hks].
      + apply assoc_notin. intros Hc. apply in_map_iff in Hc as [[k2 x] [Ek Hx]]. cbn [fst] in Ek. subst k2.
        apply collect_in in Hx. destruct (Hin _ _ Hx) as [_ Hf].
        pose proof (eq_trans (eq_sym Hs) Hf) as C. discriminate C.
    - intros k Hk. apply assoc_notin. intros Hc. apply collect_keys_incl in Hc. rewrite Hfst in Hc. contradiction.
  Qed.

  Lemma map_keys_ok (f : key -> res (kst V)) keys :
    (forall k, In k keys -> exists s, f k = Ok s) -> exists ents, map_keys f keys = Ok ents.
  Proof.
    intros H. unfold map_keys.
    destruct (mapM_ok (fun k => bind (f k) (fun s => Ok (k, s))) keys) as [l ->]; [|cbn [bind]; eauto].
    intros k Hk. destruct (H k Hk) as [s ->]. cbn [bind]. eauto.
  Qed.
End WithV.


(** * Totality of [merge_hdr] *)

Lemma pad_to_length n : forall l, length (pad_to n l) = Nat.max n (length l).
Proof.
  induction n as [|n IH]; intros l; [reflexivity|].
  destruct l as [|x r]; cbn [pad_to length]; rewrite IH; cbn [length]; lia.
Qed.

Lemma set_nth_some {A} i (v : A) : forall l, i < length l -> exists l', set_nth i v l = Some l' /\ length l' = length l.
Proof.
  induction i as [|i IH]; intros [|x r] H; cbn [length] in H; try lia; cbn [set_nth].
  - eexists; split; reflexivity.
  - destruct (IH r ltac:(lia)) as [l' [-> Hl]]. cbn [option_map]. eexists; split; [reflexivity|]. cbn [length]. lia.
Qed.

Definition args_ok (a : option (list (list Q))) (sd : option nat) : Prop :=
  match a with Some m => length m = 4 /\ Forall (fun row => length row = 4) m | None => True end /\
  match sd with Some d => d < 3 | None => True end.

Lemma merge_hdr_ok (hs : list hdr) h0 dim a sd :
  hd_error hs = Some h0 -> 2 <= length hs -> hdr_wf h0 -> args_ok a sd ->
  dim < 5 -> nth dim (shape h0) 1 = 1 ->
  ~ (dim = 4 /\ length (shape h0) = 4 /\ nth 3 (shape h0) 1 = 1) ->
  exists hfull, merge_hdr hs dim a sd = Ok hfull.
Proof.
  intros Hhd HN [Hnd [Hpos [Hsd0 [[Ha1 Ha2] Hb0]]]] [Haa Hsa] Hdim Hsing Hn1.
  unfold merge_hdr. destruct (Nat.leb_spec 5 dim) as [E|_]; [lia|].
  destruct hs as [|h hs']; [discriminate|]. cbn [hd_error] in Hhd. apply Some_inj in Hhd. subst h.
  unfold ndim in Hnd.
  replace ((dim <? length (shape h0)) && negb (nth dim (shape h0) 0 =? 1)) with false.
  2:{ symmetry. destruct (Nat.ltb_spec dim (length (shape h0))) as [Hlt|Hge]; [|reflexivity].
      rewrite (nth_indep _ 0 1 Hlt), Hsing. reflexivity. }
  destruct (set_nth_some dim (length (h0 :: hs')) (pad_to (S dim) (shape h0))) as [osh [Eset Hlen]].
  { rewrite pad_to_length. lia. }
  rewrite Eset. rewrite pad_to_length in Hlen.
  set (a' := match a with Some m => m | None => aff h0 end).
  set (sd' := match sd with Some d => Some d | None => sdim h0 end).
  assert (Hme : exists hfull, make_empty_hdr osh a' sd' = Ok hfull).
  { unfold make_empty_hdr.
    replace ((3 <=? length osh) && (length osh <? 6)) with true
      by (symmetry; apply andb_true_iff; split; [apply Nat.leb_le | apply Nat.ltb_lt]; lia).
    replace ((length a' =? 4) && forallb (fun r => length r =? 4) a') with true.
    2:{ symmetry. assert (Hx : length a' = 4 /\ Forall (fun r => length r = 4) a')
          by (subst a'; destruct a; [exact Haa | split; assumption]).
        destruct Hx as [H1 H2]. apply andb_true_iff. split; [apply Nat.eqb_eq; exact H1|].
        apply forallb_forall. intros r Hr. apply Nat.eqb_eq. rewrite Forall_forall in H2. auto. }
    replace (match sd' with None => true | Some d => d <? 3 end) with true.
    2:{ symmetry. subst sd'. destruct sd as [d|]; [apply Nat.ltb_lt; exact Hsa|].
        destruct (sdim h0) as [d|] eqn:E; [apply Nat.ltb_lt; auto | reflexivity]. }
    cbn [negb]. eauto. }
  destruct Hme as [hfull Hme]. rewrite Hme. cbn [bind].
  replace (ndim_ok h0) with true
    by (symmetry; unfold ndim_ok, ndim; apply andb_true_iff; split; [apply Nat.leb_le | apply Nat.ltb_lt]; lia).
  cbn [negb].
  (* the frame, to move class validity from the input shape to the output shape *)
  destruct (make_empty_hdr_inv _ _ _ _ Hme) as [Hn [Haff [Hsd Ehf]]].
  pose proof (make_empty_hdr_bases _ _ _ _ Hme) as Hbases.
  assert (F : frame hfull (shape h0) dim (length (h0 :: hs'))).
  { constructor; try assumption.
    - rewrite Ehf. cbn [shape]. exact Eset.
    - intros d Hd. apply Hsd. rewrite Ehf in Hd. exact Hd. }
  set (ho := mk_hdr (shape h0) (sdim hfull) (aff hfull) false false).
  assert (Hin : inp hfull (shape h0) ho) by (split; reflexivity).
  destruct (frame_generic hfull (shape h0) dim _ ho (length (h0 :: hs')) F Hin ltac:(lia)) as [_ [_ [_ [_ [Hmono _]]]]].
  rewrite (with_dim_full _ _ _ _ F) in Hmono.
  replace (forallb _ (valid_classes h0)) with true; [eauto|].
  symmetry. apply forallb_forall. intros c Hc. apply orb_true_iff. right.
  rewrite Hbases. apply Hmono. cbn [shape]. rewrite <- class_valid_ok. unfold class_valid. apply mem_cls_In. exact Hc.
Qed.

(** * Whole extensions *)

Definition trailing1b (sh : list nat) : bool := (3 <? length sh) && (last sh 0 =? 1).

Lemma n4_free_of_trailing h : hdr_ok h -> trailing1b (shape h) = false -> n4_free h.
Proof.
  intros [Hn _] H. unfold trailing1b, n4_free, ndim in *.
  destruct (shape h) as [|a [|b [|c [|t [|v [|x r]]]]]]; cbn [length] in *; try lia.
  - cbn in H. split; intros E; [|lia]. cbn [nth]. intros ->. discriminate H.
  - cbn in H. split; intros E; [lia|]. cbn [nth]. intros ->. discriminate H.
Qed.

Section Merge.
  Context {V : Type} (veqb : V -> V -> bool) (vnone : V).
  Hypothesis veqb_spec : forall a b, reflect (a = b) (veqb a b).
  Notation den_k := (den_k vnone).

  (** what input [x] contributes to a result with header [hr]: its denotation, without its per-slice
      classes when its slice normal differs from the result's *)
  Definition den_in (hr : hdr) (x : ext V) (k : key) (p : pos) : V :=
    den_k (hdr_of x) (drop_k (use_slices hr (hdr_of x)) (lookup_e x k)) p.

  Lemma den_in_use hr x k p : use_slices hr (hdr_of x) = true -> den_in hr x k p = den vnone x k p.
  Proof.
    intros H. unfold den_in. rewrite H, den_den_k. destruct (lookup_e x k) as [[c vs]|]; [|reflexivity].
    cbn [drop_k negb]. rewrite andb_false_r. reflexivity.
  Qed.

  Definition out_sdim (sd : option nat) (e0 : ext V) : option nat :=
    match sd with Some d => Some d | None => sdim (hdr_of e0) end.

  (** the inputs in the domain of the theorems: at least two valid extensions of equal shape that share the
      slice dimension of the result *)
  Definition inputs_ok (es : list (ext V)) (e0 : ext V) (sd : option nat) : Prop :=
    hd_error es = Some e0 /\ 2 <= length es /\
    forall x, In x es -> valid x /\ shape (hdr_of x) = shape (hdr_of e0) /\ sdim (hdr_of x) = out_sdim sd e0.

  Definition ins_of (es : list (ext V)) (k : key) : list (hdr * kst V) := map (fun e => (hdr_of e, lookup_e e k)) es.

  Lemma ins_of_nth es e0 k i hfull : i < length es ->
    nth i (ins_of es k) (hfull, None) = (hdr_of (nth i es e0), lookup_e (nth i es e0) k).
  Proof.
    intros Hi. unfold ins_of.
    rewrite (nth_indep _ (hfull, None) ((fun e => (hdr_of e, lookup_e e k)) e0)) by (rewrite map_length; exact Hi).
    exact (map_nth (fun e => (hdr_of e, lookup_e e k)) es e0 i).
  Qed.

  Lemma e0_in es (e0 : ext V) : hd_error es = Some e0 -> In e0 es.
  Proof. destruct es; [discriminate|]. cbn. intros H. injection H as ->. left; reflexivity. Qed.

  (** everything [from_sequence = Ok r] gives before looking at a particular key *)
  Lemma merge_setup es e0 dim a sd r :
    inputs_ok es e0 sd -> from_sequence veqb vnone es dim a sd = Ok r ->
    exists ents,
      r = mk_ext (hdr_of r) ents /\
      frame (hdr_of r) (shape (hdr_of e0)) dim (length es) /\ hdr_wf (hdr_of r) /\
      sdim (hdr_of r) = out_sdim sd e0 /\
      aff (hdr_of r) = (match a with Some m => m | None => aff (hdr_of e0) end) /\
      map_keys (fun k => merge_k veqb vnone (hdr_of r) dim (ins_of es k))
               (dedup_keys [] (flat_map (@keys_e V) es)) = Ok ents /\
      forall k, Forall (inp_ok (hdr_of r) (shape (hdr_of e0))) (ins_of es k) /\ length (ins_of es k) = length es.
  Proof.
    intros [Hhd [HN Hall]] H. unfold from_sequence in H.
    apply bind_ok in H as [hfull [Hm H]]. apply bind_ok in H as [ents [He H]]. apply Ok_inj in H. subst r.
    cbn [hdr_of]. exists ents.
    assert (Hhd' : hd_error (map (@hdr_of V) es) = Some (hdr_of e0)) by (destruct es; [discriminate | cbn in *; congruence]).
    destruct (Hall e0 (e0_in _ _ Hhd)) as [[[_ [Hpos _]] _] _].
    destruct (merge_hdr_frame _ _ dim a sd hfull Hhd' ltac:(rewrite map_length; exact HN) Hpos Hm) as [F [Hwf [Hsd Haff]]].
    rewrite map_length in F.
    split; [reflexivity|]. split; [exact F|]. split; [exact Hwf|]. split; [exact Hsd|]. split; [exact Haff|].
    split; [exact He|].
    intros k. split; [|unfold ins_of; apply map_length].
    unfold ins_of. apply Forall_forall. intros i Hi. apply in_map_iff in Hi as [x [<- Hx]].
    destruct (Hall x Hx) as [Hv [Hsh Hsdx]]. split; cbn [fst snd].
    - split; [exact Hsh | rewrite Hsdx, Hsd; reflexivity].
    - apply valid_good_k. exact Hv.
  Qed.

  Lemma key_absent es (k : key) :
    ~ In k (dedup_keys [] (flat_map (@keys_e V) es)) -> forall x, In x es -> lookup_e x k = None.
  Proof.
    intros Hn x Hx. apply assoc_notin. intros Hk. apply Hn.
    apply (proj2 (dedup_keys_spec _ [])). split; [|intros []].
    apply in_flat_map. exists x. split; assumption.
  Qed.

  (** THEOREM 3: merging along the slice, time or vector axis is concatenation of per-position meta data *)
  Theorem merge_den es e0 dim a sd r ax :
    inputs_ok es e0 sd ->
    from_sequence veqb vnone es dim a sd = Ok r ->
    axis_of (out_sdim sd e0) dim = Some ax ->
    (3 <= dim -> out_sdim sd e0 <> None) ->
    trailing1b (shape (hdr_of r)) = false ->
    set_nth dim (length es) (pad_to (S dim) (shape (hdr_of e0))) = Some (shape (hdr_of r)) /\
    sdim (hdr_of r) = out_sdim sd e0 /\
    aff (hdr_of r) = (match a with Some m => m | None => aff (hdr_of e0) end) /\
    valid r /\
    forall k p, in_dims (dims (hdr_of r)) p ->
      den vnone r k p = den_in (hdr_of r) (nth (coord ax p) es e0) k (set_coord ax p 0).
  Proof.
    intros Hin H Hax Hn3 Htr.
    destruct (merge_setup es e0 dim a sd r Hin H) as [ents [Er [F [Hwf [Hsd [Haff [Hmk Hins]]]]]]].
    set (hfull := hdr_of r) in *. set (ish := shape (hdr_of e0)) in *.
    rewrite <- Hsd in Hax, Hn3.
    pose proof (n4_free_of_trailing hfull (hdr_wf_ok _ Hwf) Htr) as Hn4.
    assert (Hk : forall k, exists ks, merge_k veqb vnone hfull dim (ins_of es k) = Ok ks /\ good_k hfull ks /\
                forall p, in_dims (dims hfull) p ->
                  den_k hfull ks p = den_ink vnone hfull (nth (coord ax p) (ins_of es k) (hfull, None)) (set_coord ax p 0)).
    { intros k. destruct (Hins k) as [Hf Hl]. apply (merge_k_den veqb vnone veqb_spec hfull ish dim (length es) ax); assumption. }
    destruct (map_keys_spec _ _ _ Hmk (proj1 (dedup_keys_spec _ []))) as [Hnd [Hents [Hpres Habs]]].
    destruct (frame_dims hfull ish dim _ ax F Hax Hn3) as [Hc1 [Hdin Hdm]].
    split; [exact (fr_shape _ _ _ _ F)|]. split; [exact Hsd|]. split; [exact Haff|]. split.
    - (* valid *)
      rewrite Er. split; [exact Hwf|]. split; [exact Hnd|]. cbn [entries hdr_of].
      intros k c vs Hkin. destruct (Hents _ _ Hkin) as [_ Hf]. destruct (Hk k) as [ks [E [G _]]].
      rewrite E in Hf. apply Ok_inj in Hf. subst ks. exact G.
    - intros k p Hp. rewrite den_den_k. fold hfull.
      assert (Hlt : coord ax p < length es).
      { rewrite <- (with_dim_full hfull ish dim _ F) in Hp. rewrite Hdm in Hp by (pose proof (fr_N _ _ _ _ F); lia).
        eapply in_dims_coord. exact Hp. }
      unfold den_in.
      destruct (in_dec (fun a b => match str_eqb_spec a b with ReflectT _ e => left e | ReflectF _ n => right n end)
                       k (dedup_keys [] (flat_map (@keys_e V) es))) as [Hkin|Hkout].
      + destruct (Hpres k Hkin) as [s [Hf Ha]]. destruct (Hk k) as [ks [E [_ D]]].
        rewrite E in Hf. apply Ok_inj in Hf. subst s.
        assert (El : lookup_e r k = ks) by (rewrite Er; exact Ha). rewrite El.
        rewrite (D p Hp). rewrite (ins_of_nth es e0 k _ hfull Hlt). reflexivity.
      + assert (El : lookup_e r k = None) by (rewrite Er; apply Habs; exact Hkout). rewrite El.
        rewrite (key_absent es k Hkout _ (nth_In es e0 Hlt)). reflexivity.
  Qed.

  (** the same facts from [merge_hdr = Ok] alone (used for totality) *)
  Lemma merge_setup_hdr es e0 dim a sd hfull :
    inputs_ok es e0 sd -> merge_hdr (map (@hdr_of V) es) dim a sd = Ok hfull ->
    frame hfull (shape (hdr_of e0)) dim (length es) /\ hdr_wf hfull /\
    sdim hfull = out_sdim sd e0 /\
    forall k, Forall (inp_ok hfull (shape (hdr_of e0))) (ins_of es k) /\ length (ins_of es k) = length es.
  Proof.
    intros [Hhd [HN Hall]] Hm.
    assert (Hhd' : hd_error (map (@hdr_of V) es) = Some (hdr_of e0)) by (destruct es; [discriminate | cbn in *; congruence]).
    destruct (Hall e0 (e0_in _ _ Hhd)) as [[[_ [Hpos _]] _] _].
    destruct (merge_hdr_frame _ _ dim a sd hfull Hhd' ltac:(rewrite map_length; exact HN) Hpos Hm) as [F [Hwf [Hsd Haff]]].
    rewrite map_length in F.
    split; [exact F|]. split; [exact Hwf|]. split; [exact Hsd|].
    intros k. split; [|unfold ins_of; apply map_length].
    unfold ins_of. apply Forall_forall. intros i Hi. apply in_map_iff in Hi as [x [<- Hx]].
    destruct (Hall x Hx) as [Hv [Hsh Hsdx]]. split; cbn [fst snd].
    - split; [exact Hsh | rewrite Hsdx, Hsd; reflexivity].
    - apply valid_good_k. exact Hv.
  Qed.

  (** THEOREM 4: merging along a non-slice spatial axis keeps exactly the keys on which all inputs agree *)
  Theorem merge_nonslice es e0 dim a sd r :
    inputs_ok es e0 sd ->
    from_sequence veqb vnone es dim a sd = Ok r ->
    dim < 3 -> out_sdim sd e0 <> Some dim ->
    trailing1b (shape (hdr_of r)) = false ->
    set_nth dim (length es) (pad_to (S dim) (shape (hdr_of e0))) = Some (shape (hdr_of r)) /\
    sdim (hdr_of r) = out_sdim sd e0 /\
    aff (hdr_of r) = (match a with Some m => m | None => aff (hdr_of e0) end) /\
    valid r /\ dims (hdr_of r) = dims (hdr_of e0) /\
    forall k,
      ((forall x p, In x es -> in_dims (dims (hdr_of r)) p -> den_in (hdr_of r) x k p = den_in (hdr_of r) e0 k p) ->
       forall p, in_dims (dims (hdr_of r)) p -> den vnone r k p = den_in (hdr_of r) e0 k p) /\
      ((exists x p, In x es /\ in_dims (dims (hdr_of r)) p /\ den_in (hdr_of r) x k p <> den_in (hdr_of r) e0 k p) ->
       forall p, in_dims (dims (hdr_of r)) p -> den vnone r k p = vnone).
  Proof.
    intros Hin H Hd3 Hns Htr.
    destruct (merge_setup es e0 dim a sd r Hin H) as [ents [Er [F [Hwf [Hsd [Haff [Hmk Hins]]]]]]].
    destruct Hin as [Hhd [HN Hall]].
    set (hfull := hdr_of r) in *. set (ish := shape (hdr_of e0)) in *.
    rewrite <- Hsd in Hns.
    pose proof (n4_free_of_trailing hfull (hdr_wf_ok _ Hwf) Htr) as Hn4.
    assert (Hhd' : forall k, hd_error (ins_of es k) = Some (hdr_of e0, lookup_e e0 k))
      by (intros k; destruct es; [discriminate | cbn in *; congruence]).
    assert (Hk : forall k, exists ks, merge_k veqb vnone hfull dim (ins_of es k) = Ok ks /\ good_k hfull ks /\
      ((Forall (fun i => forall p, in_dims (d_in hfull ish) p ->
                  den_ink vnone hfull i p = den_ink vnone hfull (hdr_of e0, lookup_e e0 k) p) (ins_of es k) /\
        forall p, in_dims (d_in hfull ish) p -> den_k hfull ks p = den_ink vnone hfull (hdr_of e0, lookup_e e0 k) p) \/
       (Exists (fun i => ~ forall p, in_dims (d_in hfull ish) p ->
                  den_ink vnone hfull i p = den_ink vnone hfull (hdr_of e0, lookup_e e0 k) p) (ins_of es k) /\
        forall p, in_dims (d_in hfull ish) p -> den_k hfull ks p = vnone))).
    { intros k. destruct (Hins k) as [Hf Hl].
      apply (merge_k_nonslice veqb vnone veqb_spec hfull ish dim (length es)); auto. }
    destruct (map_keys_spec _ _ _ Hmk (proj1 (dedup_keys_spec _ []))) as [Hnd [Hents [Hpres Habs]]].
    assert (Hdf : dims hfull = d_in hfull ish).
    { set (ho := mk_hdr ish (sdim hfull) (aff hfull) false false).
      assert (Hinp : inp hfull ish ho) by (split; reflexivity).
      destruct (frame_nonslice hfull ish dim _ ho (length es) F Hinp Hd3 Hns ltac:(lia)) as [Hd _].
      rewrite (with_dim_full hfull ish dim _ F) in Hd. rewrite Hd. reflexivity. }
    assert (Hd0 : dims (hdr_of e0) = d_in hfull ish).
    { destruct (Hall e0 (e0_in _ _ Hhd)) as [_ [_ Hs0]]. unfold dims, d_in, in_S. fold ish. rewrite Hs0, Hsd. reflexivity. }
    split; [exact (fr_shape _ _ _ _ F)|]. split; [exact Hsd|]. split; [exact Haff|]. split; [|split; [congruence|]].
    - rewrite Er. split; [exact Hwf|]. split; [exact Hnd|]. cbn [entries hdr_of].
      intros k c vs Hkin. destruct (Hents _ _ Hkin) as [_ Hf]. destruct (Hk k) as [ks [E [G _]]].
      rewrite E in Hf. apply Ok_inj in Hf. subst ks. exact G.
    - intros k. rewrite Hdf.
      (* the denotation of the result for this key *)
      assert (Hden : exists ks, (forall p, den vnone r k p = den_k hfull ks p) /\
        ((Forall (fun i => forall p, in_dims (d_in hfull ish) p ->
                    den_ink vnone hfull i p = den_ink vnone hfull (hdr_of e0, lookup_e e0 k) p) (ins_of es k) /\
          forall p, in_dims (d_in hfull ish) p -> den_k hfull ks p = den_ink vnone hfull (hdr_of e0, lookup_e e0 k) p) \/
         (Exists (fun i => ~ forall p, in_dims (d_in hfull ish) p ->
                    den_ink vnone hfull i p = den_ink vnone hfull (hdr_of e0, lookup_e e0 k) p) (ins_of es k) /\
          forall p, in_dims (d_in hfull ish) p -> den_k hfull ks p = vnone))).
      { destruct (in_dec (fun a b => match str_eqb_spec a b with ReflectT _ e => left e | ReflectF _ n => right n end)
                         k (dedup_keys [] (flat_map (@keys_e V) es))) as [Hkin|Hkout].
        - destruct (Hpres k Hkin) as [s [Hf Ha]]. destruct (Hk k) as [ks [E [_ C]]].
          rewrite E in Hf. apply Ok_inj in Hf. subst s. exists ks. split; [|exact C].
          intros p. rewrite den_den_k. fold hfull. rewrite Er. unfold lookup_e. cbn [entries]. rewrite Ha. reflexivity.
        - exists None. split.
          + intros p. rewrite den_den_k. rewrite Er. unfold lookup_e. cbn [entries]. rewrite (Habs k Hkout). reflexivity.
          + left. split; [|].
            * apply Forall_forall. intros i Hi. unfold ins_of in Hi. apply in_map_iff in Hi as [x [<- Hx]].
              intros p _. unfold den_ink. cbn [fst snd].
              rewrite (key_absent es k Hkout x Hx), (key_absent es k Hkout e0 (e0_in _ _ Hhd)). reflexivity.
            * intros p _. unfold den_ink. cbn [fst snd den_k].
              rewrite (key_absent es k Hkout e0 (e0_in _ _ Hhd)). reflexivity. }
      destruct Hden as [ks [Hr C]]. unfold den_in.
      split.
      + intros Hag p Hp. rewrite Hr. destruct C as [[_ D]|[He _]]; [apply D; exact Hp|].
        exfalso. apply Exists_exists in He as [i [Hi Hni]]. unfold ins_of in Hi. apply in_map_iff in Hi as [x [<- Hx]].
        apply Hni. intros q Hq. apply (Hag x q Hx Hq).
      + intros [x [q [Hx [Hq Hne]]]] p Hp. rewrite Hr. destruct C as [[Hf _]|[_ D]]; [|apply D; exact Hp].
        exfalso. apply Hne. rewrite Forall_forall in Hf.
        apply (Hf (hdr_of x, lookup_e x k)); [|exact Hq]. unfold ins_of.
        apply (in_map (fun e => (hdr_of e, lookup_e e k))). exact Hx.
  Qed.

  (** THEOREM 5a: on the domain [from_sequence] never fails *)
  Theorem merge_total es e0 dim a sd :
    inputs_ok es e0 sd -> args_ok a sd ->
    dim < 5 -> nth dim (shape (hdr_of e0)) 1 = 1 ->
    ~ (dim = 4 /\ length (shape (hdr_of e0)) = 4 /\ nth 3 (shape (hdr_of e0)) 1 = 1) ->                 (* N1 *)
    (3 <= dim -> out_sdim sd e0 <> None) ->                                                            (* N3 *)
    (forall sh, set_nth dim (length es) (pad_to (S dim) (shape (hdr_of e0))) = Some sh -> trailing1b sh = false) -> (* N4 *)
    exists r, from_sequence veqb vnone es dim a sd = Ok r.
  Proof.
    intros Hin Hargs Hdim Hsing Hn1 Hn3 Hn4.
    pose proof Hin as [Hhd [HN Hall]].
    assert (Hhd' : hd_error (map (@hdr_of V) es) = Some (hdr_of e0)) by (destruct es; [discriminate | cbn in *; congruence]).
    destruct (Hall e0 (e0_in _ _ Hhd)) as [[Hwf0 _] _].
    destruct (merge_hdr_ok _ _ dim a sd Hhd' ltac:(rewrite map_length; exact HN) Hwf0 Hargs Hdim Hsing Hn1) as [hfull Hm].
    destruct (merge_setup_hdr es e0 dim a sd hfull Hin Hm) as [F [Hwf [Hsd Hins]]].
    set (ish := shape (hdr_of e0)) in *.
    pose proof (n4_free_of_trailing hfull (hdr_wf_ok _ Hwf) (Hn4 _ (fr_shape _ _ _ _ F))) as Hn4'.
    rewrite <- Hsd in Hn3.
    assert (Hk : forall k, exists ks, merge_k veqb vnone hfull dim (ins_of es k) = Ok ks).
    { intros k. destruct (Hins k) as [Hf Hl].
      destruct (axis_of (sdim hfull) dim) as [ax|] eqn:Eax.
      - destruct (merge_k_den veqb vnone veqb_spec hfull ish dim (length es) ax (ins_of es k) F Eax Hn3 Hn4' Hl Hf)
          as [ks [E _]]. eauto.
      - assert (Hd3 : dim < 3 /\ sdim hfull <> Some dim).
        { unfold axis_of in Eax. destruct (odim_is (sdim hfull) dim) eqn:Eo; [discriminate|].
          destruct (Nat.eqb_spec dim 3); [discriminate|]. destruct (Nat.eqb_spec dim 4); [discriminate|].
          split; [lia|]. intros Hs. rewrite Hs in Eo. unfold odim_is in Eo. rewrite Nat.eqb_refl in Eo. discriminate. }
        destruct Hd3 as [Hd3 Hns].
        assert (Hhk : hd_error (ins_of es k) = Some (hdr_of e0, lookup_e e0 k))
          by (destruct es; [discriminate | cbn in *; congruence]).
        destruct (merge_k_nonslice veqb vnone veqb_spec hfull ish dim (length es) (ins_of es k) _ F Hd3 Hns Hn4' Hl Hf Hhk)
          as [ks [E _]]. eauto. }
    destruct (map_keys_ok (fun k => merge_k veqb vnone hfull dim (ins_of es k))
                (dedup_keys [] (flat_map (@keys_e V) es)) (fun k _ => Hk k)) as [ents He].
    exists (mk_ext hfull ents). unfold from_sequence. rewrite Hm. cbn [bind].
    unfold ins_of in He. rewrite He. reflexivity.
  Qed.

  (** THEOREM 5b: [from_sequence] refuses (ValueError) exactly a non-singular merge axis or [dim >= 5] *)
  Lemma merge_refuses_if es (e0 : ext V) dim a sd :
    hd_error es = Some e0 -> (5 <= dim \/ nth dim (shape (hdr_of e0)) 1 <> 1) ->
    from_sequence veqb vnone es dim a sd = Err EValue.
  Proof.
    intros Hhd Hc. unfold from_sequence, merge_hdr.
    destruct (Nat.leb_spec 5 dim) as [E|E]; [reflexivity|].
    destruct Hc as [Hc|Hc]; [lia|].
    destruct es as [|x r]; [discriminate|]. cbn [hd_error] in Hhd. apply Some_inj in Hhd. subst x.
    cbn [map].
    replace ((dim <? length (shape (hdr_of e0))) && negb (nth dim (shape (hdr_of e0)) 0 =? 1)) with true; [reflexivity|].
    symmetry. destruct (Nat.ltb_spec dim (length (shape (hdr_of e0)))) as [Hlt|Hge].
    - rewrite (nth_indep _ 0 1 Hlt). destruct (Nat.eqb_spec (nth dim (shape (hdr_of e0)) 1) 1); [contradiction | reflexivity].
    - exfalso. apply Hc. apply nth_overflow. exact Hge.
  Qed.

  Theorem merge_refuses es e0 dim a sd :
    inputs_ok es e0 sd -> args_ok a sd ->
    ~ (dim = 4 /\ length (shape (hdr_of e0)) = 4 /\ nth 3 (shape (hdr_of e0)) 1 = 1) ->
    (3 <= dim -> out_sdim sd e0 <> None) ->
    (forall sh, set_nth dim (length es) (pad_to (S dim) (shape (hdr_of e0))) = Some sh -> trailing1b sh = false) ->
    (from_sequence veqb vnone es dim a sd = Err EValue <->
     (5 <= dim \/ nth dim (shape (hdr_of e0)) 1 <> 1)).
  Proof.
    intros Hin Hargs Hn1 Hn3 Hn4. split.
    - intros He. destruct (Nat.le_gt_cases 5 dim) as [H5|H5]; [left; exact H5|].
      destruct (Nat.eq_dec (nth dim (shape (hdr_of e0)) 1) 1) as [Hs|Hs]; [|right; exact Hs].
      destruct (merge_total es e0 dim a sd Hin Hargs H5 Hs Hn1 Hn3 Hn4) as [r Hr]. congruence.
    - apply merge_refuses_if. destruct Hin as [H _]. exact H.
  Qed.
End Merge.
