(** C03 at the level of whole extensions: [from_sequence] is concatenation of per-position meta data
    ([merge_den]), non-slice merges keep the agreed keys ([merge_nonslice]), totality and refusal. *)
From Coq Require Import List Bool Arith QArith Lia.
From DV Require Import Common.Res Common.Str Ext.Types Ext.Classes Ext.Seq Ext.Model Ext.Spec Ext.TableFacts
     Ext.ValidFacts Ext.ProofsMergeSeq Ext.ProofsMergeDen Ext.ProofsMergeStep Ext.ProofsMergeFrame
     Ext.ProofsMergeSimplify Ext.ProofsMergeKey.
Import ListNotations.
Local Open Scope nat_scope.

(** * Keys: [dedup_keys], [mapM], [map_keys] *)

Lemma dedup_keys_spec l : forall seen,
  NoDup (dedup_keys seen l) /\ forall k, In k (dedup_keys seen l) <-> In k l /\ ~ In k seen.
Proof.
  induction l as [|x r IH]; intros seen; cbn [dedup_keys].
  - split; [constructor|]. intros k. cbn. tauto.
  - destruct (mem_key x seen) eqn:E.
    + apply mem_key_In in E. destruct (IH seen) as [H1 H2]. split; [exact H1|].
      intros k. rewrite H2. cbn [In]. split; [tauto|]. intros [[->|H] Hn]; [contradiction | tauto].
    + assert (Hx : ~ In x seen) by (intros H; apply mem_key_In in H; congruence).
      destruct (IH (x :: seen)) as [H1 H2]. split.
      * constructor; [|exact H1]. rewrite H2. cbn [In]. tauto.
      * intros k. cbn [In]. rewrite H2. cbn [In]. split.
        -- intros [<-|[H3 H4]]; [tauto|]. split; [tauto|]. tauto.
        -- intros [[<-|H3] H4]; [tauto|]. destruct (str_eqb_spec x k) as [->|Hne]; [tauto|]. right. tauto.
Qed.

Lemma mapM_inv {A B} (f : A -> res B) l out :
  mapM f l = Ok out -> length out = length l /\ forall i a b, i < length l -> f (nth i l a) = Ok (nth i out b).
Proof.
  revert out. induction l as [|x r IH]; intros out H; cbn [mapM] in H.
  - apply Ok_inj in H. subst. split; [reflexivity|]. intros i a b Hi. cbn in Hi. lia.
  - destruct (f x) as [y|] eqn:Ex; [|discriminate]. destruct (mapM f r) as [ys|] eqn:Er; [|discriminate].
    apply Ok_inj in H. subst out. destruct (IH ys eq_refl) as [Hl Hn]. split; [cbn; lia|].
    intros [|i] a b Hi; cbn [nth]; [exact Ex | apply Hn; cbn in Hi; lia].
Qed.

Lemma mapM_ok {A B} (f : A -> res B) l :
  (forall x, In x l -> exists y, f x = Ok y) -> exists out, mapM f l = Ok out.
Proof.
  induction l as [|x r IH]; intros H; cbn [mapM]; [eauto|].
  destruct (H x (or_introl eq_refl)) as [y ->]. destruct (IH (fun z Hz => H z (or_intror Hz))) as [ys ->]. eauto.
Qed.

Section WithV.
  Context {V : Type}.

  Lemma assoc_notin (l : list (key * (cls * list V))) k : ~ In k (map fst l) -> assoc k l = None.
  Proof.
    induction l as [|[k' x] r IH]; cbn [assoc map fst In]; [reflexivity|]. intros H.
    unfold key_eqb. destruct (str_eqb_spec k k') as [->|_]; [tauto | apply IH; tauto].
  Qed.

  Lemma assoc_in_nodup (l : list (key * (cls * list V))) k x :
    NoDup (map fst l) -> In (k, x) l -> assoc k l = Some x.
  Proof.
    induction l as [|[k' y] r IH]; cbn [assoc map fst In]; [tauto|]. intros Hnd [H|H].
    - injection H as -> ->. unfold key_eqb. rewrite str_eqb_refl. reflexivity.
    - inversion Hnd as [|? ? Hn Hr]; subst. unfold key_eqb. destruct (str_eqb_spec k k') as [->|_].
      + exfalso. apply Hn. apply (in_map fst) in H. exact H.
      + apply IH; assumption.
  Qed.

  Lemma collect_in (l : list (key * kst V)) k x : In (k, x) (collect l) <-> In (k, Some x) l.
  Proof.
    induction l as [|[k' [y|]] r IH]; cbn [collect In]; [tauto | |].
    - rewrite IH. split; (intros [H|H]; [injection H as -> ->; left; reflexivity | right; exact H]).
    - rewrite IH. split; [auto|]. intros [H|H]; [discriminate | exact H].
  Qed.

  Lemma collect_keys_incl (l : list (key * kst V)) k : In k (map fst (collect l)) -> In k (map fst l).
  Proof.
    induction l as [|[k' [y|]] r IH]; cbn [collect map fst In]; [tauto | |]; intros H.
    - destruct H as [H|H]; [left; exact H | right; apply IH; exact H].
    - right; apply IH; exact H.
  Qed.

  Lemma collect_nodup (l : list (key * kst V)) : NoDup (map fst l) -> NoDup (map fst (collect l)).
  Proof.
    induction l as [|[k' [y|]] r IH]; cbn [collect map fst]; intros H; [constructor | |].
    - inversion H as [|? ? Hn Hr]; subst. constructor; [|apply IH; exact Hr].
      intros Hin. apply Hn. apply collect_keys_incl. exact Hin.
    - inversion H; subst. apply IH. assumption.
  Qed.

  (** what [map_keys] returns *)
  Lemma map_keys_spec (f : key -> res (kst V)) keys ents :
    map_keys f keys = Ok ents -> NoDup keys ->
    NoDup (map fst ents) /\
    (forall k x, In (k, x) ents -> In k keys /\ f k = Ok (Some x)) /\
    (forall k, In k keys -> exists s, f k = Ok s /\ assoc k ents = s) /\
    (forall k, ~ In k keys -> assoc k ents = None).
  Proof.
    unfold map_keys. intros H Hnd. apply bind_ok in H as [l [Hm H]]. apply Ok_inj in H. subst ents.
    destruct (mapM_inv _ _ _ Hm) as [Hlen Hnth].
    assert (Hl : forall i, i < length keys ->
              exists s, f (nth i keys []) = Ok s /\ nth i l ([], None) = (nth i keys [], s)).
    { intros i Hi. specialize (Hnth i [] ([], None) Hi). apply bind_ok in Hnth as [s [Hs Hn]].
      apply Ok_inj in Hn. exists s. split; [exact Hs | symmetry; exact Hn]. }
    assert (Hfst : map fst l = keys).
    { apply (nth_ext _ _ [] []); [rewrite map_length; exact Hlen|].
      intros i Hi. assert (Hi' : i < length keys) by (rewrite ?map_length in Hi; lia). destruct (Hl i Hi') as [s [_ E]].
      rewrite (nth_indep _ [] (fst (@nil N, @None (cls * list V))))
        by (rewrite map_length, Hlen; exact Hi').
      rewrite map_nth, E. reflexivity. }
    assert (Hin : forall k s, In (k, s) l -> In k keys /\ f k = Ok s).
    { intros k s Hks. destruct (In_nth _ _ ([], None) Hks) as [i [Hi0 E]].
      assert (Hi : i < length keys) by (rewrite <- Hlen; exact Hi0).
      destruct (Hl i Hi) as [s' [Hs' E']]. pose proof (eq_trans (eq_sym E) E') as E2. injection E2 as -> ->.
      split; [apply nth_In; exact Hi | exact Hs']. }
    assert (Hnd' : NoDup (map fst l)) by (rewrite Hfst; exact Hnd).
    split; [apply collect_nodup; exact Hnd'|]. split; [|split].
    - intros k x Hx. apply collect_in in Hx. apply Hin. exact Hx.
    - intros k Hk. destruct (In_nth _ _ [] Hk) as [i [Hi E]]. destruct (Hl i Hi) as [s [Hs E']].
      subst k.
      assert (Hks : In (nth i keys [], s) l).
      { refine (eq_ind _ (fun z => In z l) _ _ E'). apply nth_In.
        exact (eq_ind_r (fun n => i < n) Hi Hlen). }
      exists s. split; [exact Hs|].
      destruct s as [x|].
      + apply assoc_in_nodup; [apply collect_nodup; exact Hnd' | apply collect_in; exact Hks].
      + apply assoc_notin. intros Hc. apply in_map_iff in Hc as [[k2 x] [Ek Hx]]. cbn [fst] in Ek. subst k2.
        apply collect_in in Hx. destruct (Hin _ _ Hx) as [_ Hf].
        pose proof (eq_trans (eq_sym Hs) Hf) as C. discriminate C.
    - intros k Hk. apply assoc_notin. intros Hc. apply collect_keys_incl in Hc. rewrite Hfst in Hc. contradiction.
  Qed.

  Lemma map_keys_ok (f : key -> res (kst V)) keys :
    (forall k, In k keys -> exists s, f k = Ok s) -> exists ents, map_keys f keys = Ok ents.
  Proof.
    intros H. unfold map_keys.
    destruct (mapM_ok (fun k => bind (f k) (fun s => Ok (k, s))) keys) as [l ->]; [|cbn [bind]; eauto].
    intros k Hk. destruct (H k Hk) as [s ->]. cbn [bind]. eauto.
  Qed.
End WithV.

(** * Whole extensions *)

Definition trailing1b (sh : list nat) : bool := (3 <? length sh) && (last sh 0 =? 1).

Lemma n4_free_of_trailing h : hdr_ok h -> trailing1b (shape h) = false -> n4_free h.
Proof.
  intros [Hn _] H. unfold trailing1b, n4_free, ndim in *.
  destruct (shape h) as [|a [|b [|c [|t [|v [|x r]]]]]]; cbn [length] in *; try lia.
  - cbn in H. split; intros E; [|lia]. cbn [nth]. intros ->. discriminate H.
  - cbn in H. split; intros E; [lia|]. cbn [nth]. intros ->. discriminate H.
Qed.

Section Merge.
  Context {V : Type} (veqb : V -> V -> bool) (vnone : V).
  Hypothesis veqb_spec : forall a b, reflect (a = b) (veqb a b).
  Notation den_k := (den_k vnone).

  (** what input [x] contributes to a result with header [hr]: its denotation, without its per-slice
      classes when its slice normal differs from the result's *)
  Definition den_in (hr : hdr) (x : ext V) (k : key) (p : pos) : V :=
    den_k (hdr_of x) (drop_k (use_slices hr (hdr_of x)) (lookup_e x k)) p.

  Lemma den_in_use hr x k p : use_slices hr (hdr_of x) = true -> den_in hr x k p = den vnone x k p.
  Proof.
    intros H. unfold den_in. rewrite H, den_den_k. destruct (lookup_e x k) as [[c vs]|]; [|reflexivity].
    cbn [drop_k negb]. rewrite andb_false_r. reflexivity.
  Qed.

  Definition out_sdim (sd : option nat) (e0 : ext V) : option nat :=
    match sd with Some d => Some d | None => sdim (hdr_of e0) end.

  (** the inputs in the domain of the theorems: at least two valid extensions of equal shape that share the
      slice dimension of the result *)
  Definition inputs_ok (es : list (ext V)) (e0 : ext V) (sd : option nat) : Prop :=
    hd_error es = Some e0 /\ 2 <= length es /\
    forall x, In x es -> valid x /\ shape (hdr_of x) = shape (hdr_of e0) /\ sdim (hdr_of x) = out_sdim sd e0.

  Definition ins_of (es : list (ext V)) (k : key) : list (hdr * kst V) := map (fun e => (hdr_of e, lookup_e e k)) es.

  Lemma ins_of_nth es e0 k i hfull : i < length es ->
    nth i (ins_of es k) (hfull, None) = (hdr_of (nth i es e0), lookup_e (nth i es e0) k).
  Proof.
    intros Hi. unfold ins_of.
    rewrite (nth_indep _ (hfull, None) ((fun e => (hdr_of e, lookup_e e k)) e0)) by (rewrite map_length; exact Hi).
    exact (map_nth (fun e => (hdr_of e, lookup_e e k)) es e0 i).
  Qed.

  Lemma e0_in es (e0 : ext V) : hd_error es = Some e0 -> In e0 es.
  Proof. destruct es; [discriminate|]. cbn. intros H. injection H as ->. left; reflexivity. Qed.

  (** everything [from_sequence = Ok r] gives before looking at a particular key *)
  Lemma merge_setup es e0 dim a sd r :
    inputs_ok es e0 sd -> from_sequence veqb vnone es dim a sd = Ok r ->
    exists ents,
      r = mk_ext (hdr_of r) ents /\
      frame (hdr_of r) (shape (hdr_of e0)) dim (length es) /\ hdr_wf (hdr_of r) /\
      sdim (hdr_of r) = out_sdim sd e0 /\
      aff (hdr_of r) = (match a with Some m => m | None => aff (hdr_of e0) end) /\
      map_keys (fun k => merge_k veqb vnone (hdr_of r) dim (ins_of es k))
               (dedup_keys [] (flat_map (@keys_e V) es)) = Ok ents /\
      forall k, Forall (inp_ok (hdr_of r) (shape (hdr_of e0))) (ins_of es k) /\ length (ins_of es k) = length es.
  Proof.
    intros [Hhd [HN Hall]] H. unfold from_sequence in H.
    apply bind_ok in H as [hfull [Hm H]]. apply bind_ok in H as [ents [He H]]. apply Ok_inj in H. subst r.
    cbn [hdr_of]. exists ents.
    assert (Hhd' : hd_error (map (@hdr_of V) es) = Some (hdr_of e0)) by (destruct es; [discriminate | cbn in *; congruence]).
    destruct (Hall e0 (e0_in _ _ Hhd)) as [[[_ [Hpos _]] _] _].
    destruct (merge_hdr_frame _ _ dim a sd hfull Hhd' ltac:(rewrite map_length; exact HN) Hpos Hm) as [F [Hwf [Hsd Haff]]].
    rewrite map_length in F.
    split; [reflexivity|]. split; [exact F|]. split; [exact Hwf|]. split; [exact Hsd|]. split; [exact Haff|].
    split; [exact He|].
    intros k. split; [|unfold ins_of; apply map_length].
    unfold ins_of. apply Forall_forall. intros i Hi. apply in_map_iff in Hi as [x [<- Hx]].
    destruct (Hall x Hx) as [Hv [Hsh Hsdx]]. split; cbn [fst snd].
    - split; [exact Hsh | rewrite Hsdx, Hsd; reflexivity].
    - apply valid_good_k. exact Hv.
  Qed.

  Lemma key_absent es (k : key) :
    ~ In k (dedup_keys [] (flat_map (@keys_e V) es)) -> forall x, In x es -> lookup_e x k = None.
  Proof.
    intros Hn x Hx. apply assoc_notin. intros Hk. apply Hn.
    apply (proj2 (dedup_keys_spec _ [])). split; [|intros []].
    apply in_flat_map. exists x. split; assumption.
  Qed.

  (** THEOREM 3: merging along the slice, time or vector axis is concatenation of per-position meta data *)
  Theorem merge_den es e0 dim a sd r ax :
    inputs_ok es e0 sd ->
    from_sequence veqb vnone es dim a sd = Ok r ->
    axis_of (out_sdim sd e0) dim = Some ax ->
    (3 <= dim -> out_sdim sd e0 <> None) ->
    trailing1b (shape (hdr_of r)) = false ->
    set_nth dim (length es) (pad_to (S dim) (shape (hdr_of e0))) = Some (shape (hdr_of r)) /\
    sdim (hdr_of r) = out_sdim sd e0 /\
    aff (hdr_of r) = (match a with Some m => m | None => aff (hdr_of e0) end) /\
    valid r /\
    forall k p, in_dims (dims (hdr_of r)) p ->
      den vnone r k p = den_in (hdr_of r) (nth (coord ax p) es e0) k (set_coord ax p 0).
  Proof.
    intros Hin H Hax Hn3 Htr.
    destruct (merge_setup es e0 dim a sd r Hin H) as [ents [Er [F [Hwf [Hsd [Haff [Hmk Hins]]]]]]].
    set (hfull := hdr_of r) in *. set (ish := shape (hdr_of e0)) in *.
    rewrite <- Hsd in Hax, Hn3.
    pose proof (n4_free_of_trailing hfull (hdr_wf_ok _ Hwf) Htr) as Hn4.
    assert (Hk : forall k, exists ks, merge_k veqb vnone hfull dim (ins_of es k) = Ok ks /\ good_k hfull ks /\
                forall p, in_dims (dims hfull) p ->
                  den_k hfull ks p = den_ink vnone hfull (nth (coord ax p) (ins_of es k) (hfull, None)) (set_coord ax p 0)).
    { intros k. destruct (Hins k) as [Hf Hl]. apply (merge_k_den veqb vnone veqb_spec hfull ish dim (length es) ax); assumption. }
    destruct (map_keys_spec _ _ _ Hmk (proj1 (dedup_keys_spec _ []))) as [Hnd [Hents [Hpres Habs]]].
    destruct (frame_dims hfull ish dim _ ax F Hax Hn3) as [Hc1 [Hdin Hdm]].
    split; [exact (fr_shape _ _ _ _ F)|]. split; [exact Hsd|]. split; [exact Haff|]. split.
    - (* valid *)
      rewrite Er. split; [exact Hwf|]. split; [exact Hnd|]. cbn [entries hdr_of].
      intros k c vs Hkin. destruct (Hents _ _ Hkin) as [_ Hf]. destruct (Hk k) as [ks [E [G _]]].
      rewrite E in Hf. apply Ok_inj in Hf. subst ks. exact G.
    - intros k p Hp. rewrite den_den_k. fold hfull.
      assert (Hlt : coord ax p < length es).
      { rewrite <- (with_dim_full hfull ish dim _ F) in Hp. rewrite Hdm in Hp by (pose proof (fr_N _ _ _ _ F); lia).
        eapply in_dims_coord. exact Hp. }
      unfold den_in.
      destruct (in_dec (fun a b => match str_eqb_spec a b with ReflectT _ e => left e | ReflectF _ n => right n end)
                       k (dedup_keys [] (flat_map (@keys_e V) es))) as [Hkin|Hkout].
      + destruct (Hpres k Hkin) as [s [Hf Ha]]. destruct (Hk k) as [ks [E [_ D]]].
        rewrite E in Hf. apply Ok_inj in Hf. subst s.
        assert (El : lookup_e r k = ks) by (rewrite Er; exact Ha). rewrite El.
        rewrite (D p Hp). rewrite (ins_of_nth es e0 k _ hfull Hlt). reflexivity.
      + assert (El : lookup_e r k = None) by (rewrite Er; apply Habs; exact Hkout). rewrite El.
        rewrite (key_absent es k Hkout _ (nth_In es e0 Hlt)). reflexivity.
  Qed.
End Merge.
