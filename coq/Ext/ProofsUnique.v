(** C05, part 1: UNIQUENESS OF THE CANONICAL FORM.  Independent of the operations.

    Two valid extensions over the same grid (same shape and slice dimension) whose keys all sit at the canonical
    class of what they denote, and that denote the same value at every grid position, store every key in the
    same class with the same value list -- except that a key which is None at EVERY position may be absent in
    one and stored as the global constant None in the other ([canonical_mod_none] tolerates both, because the
    library does: C06_none_dropped_refuted).  Consequences:
      * [canonical_unique_strict]: if the first extension is canonical in the literal sense of Ext/Spec.v (no
        all-None key) and the second has no key the first lacks, the two are equal as unordered maps;
      * value lists are determined by the denotation because [cidx] is onto [0, mult) ([cidx_onto]). *)
From Coq Require Import List Bool Arith Lia.
From DV Require Import Common.Res Common.Str Ext.Types Ext.Classes Ext.Seq Ext.Model Ext.Spec
     Ext.ProofsValidBase Ext.ProofsSimplifyLayout Ext.ProofsSimplifyCanon Ext.ProofsCanonSubset
     Ext.ProofsMergeDen Ext.ProofsCanonMerge.
Import ListNotations.
Local Open Scope nat_scope.

Section WithV.
  Context {V : Type} (vnone : V).

  Notation ext := (ext V).
  Notation kst := (kst V).
  Notation den := (den vnone).
  Notation canonical_mod_none := (canonical_mod_none vnone).

  (** the two ways the library stores "None at every position" *)
  Definition none_entry (s : kst) : Prop := s = None \/ s = Some (GConst, [vnone]).

  (** per key: same entry, or both sides say "None everywhere" *)
  Definition same_mod_none (a b : kst) : Prop := a = b \/ (none_entry a /\ none_entry b).

  (** same grid, and every key stored identically up to the representation of all-None keys *)
  Definition equiv_mod_none (a b : ext) : Prop :=
    shape (hdr_of a) = shape (hdr_of b) /\ sdim (hdr_of a) = sdim (hdr_of b) /\
    forall k, same_mod_none (lookup_e a k) (lookup_e b k).

  Lemma same_mod_none_refl a : same_mod_none a a.
  Proof. left; reflexivity. Qed.

  Lemma same_mod_none_sym a b : same_mod_none a b -> same_mod_none b a.
  Proof. intros [H|[H1 H2]]; [left; symmetry; exact H | right; split; assumption]. Qed.

  Lemma same_mod_none_trans a b c : same_mod_none a b -> same_mod_none b c -> same_mod_none a c.
  Proof.
    intros [H|[H1 H2]] [H'|[H1' H2']]; subst.
    - left; reflexivity.
    - right; split; assumption.
    - right; split; assumption.
    - right; split; assumption.
  Qed.

  Lemma equiv_mod_none_refl a : equiv_mod_none a a.
  Proof. split; [reflexivity|]. split; [reflexivity|]. intros k. apply same_mod_none_refl. Qed.

  Lemma equiv_mod_none_sym a b : equiv_mod_none a b -> equiv_mod_none b a.
  Proof.
    intros [H1 [H2 H3]]. split; [symmetry; exact H1|]. split; [symmetry; exact H2|].
    intros k. apply same_mod_none_sym, H3.
  Qed.

  Lemma equiv_mod_none_trans a b c : equiv_mod_none a b -> equiv_mod_none b c -> equiv_mod_none a c.
  Proof.
    intros [H1 [H2 H3]] [H1' [H2' H3']]. split; [congruence|]. split; [congruence|].
    intros k. eapply same_mod_none_trans; [apply H3 | apply H3'].
  Qed.

  Lemma ext_equiv_equiv_mod_none a b : ext_equiv a b -> equiv_mod_none a b.
  Proof.
    intros [Hh Hl]. split; [rewrite Hh; reflexivity|]. split; [rewrite Hh; reflexivity|].
    intros k. left. apply Hl.
  Qed.

  Lemma dims_same (h1 h2 : hdr) : shape h1 = shape h2 -> sdim h1 = sdim h2 -> dims h1 = dims h2.
  Proof. intros Hs Hd. unfold dims. rewrite Hs, Hd. reflexivity. Qed.

  (** a list of the right length is determined by what it reads at the grid positions *)
  Lemma values_unique (d : pos) (c : cls) (vs1 vs2 : list V) :
    ProofsSimplifyLayout.dims_pos d -> length vs1 = mult_spec d c -> length vs2 = mult_spec d c ->
    (forall p, in_dims d p -> nth (cidx d c p) vs1 vnone = nth (cidx d c p) vs2 vnone) ->
    vs1 = vs2.
  Proof.
    intros Hpos H1 H2 Hall. apply (nth_ext vs1 vs2 vnone vnone); [congruence|].
    intros i Hi. rewrite H1 in Hi.
    destruct (cidx_onto d c i) as [p [Hp Hc]].
    { destruct d as [[nS nT] nV]. exact Hpos. }
    { exact Hi. }
    rewrite <- Hc. apply Hall. exact Hp.
  Qed.

  (** the least-rank class is unique *)
  Lemma canon_class_unique sh d (f : pos -> V) c1 c2 :
    canon_class sh d f c1 -> canon_class sh d f c2 -> c1 = c2.
  Proof.
    intros [Ha [Hb Hc]] [Ha' [Hb' Hc']]. apply pref_rank_inj.
    pose proof (Hc c2 Ha' Hb'). pose proof (Hc' c1 Ha Hb). lia.
  Qed.

  (** * The theorem *)
  Theorem canonical_unique (e1 e2 : ext) :
    canonical_mod_none e1 -> canonical_mod_none e2 ->
    shape (hdr_of e1) = shape (hdr_of e2) -> sdim (hdr_of e1) = sdim (hdr_of e2) ->
    (forall k p, in_dims (dims (hdr_of e1)) p -> den e1 k p = den e2 k p) ->
    equiv_mod_none e1 e2.
  Proof.
    intros C1 C2 Hsh Hsd Hden. split; [exact Hsh|]. split; [exact Hsd|]. intros k.
    pose proof (dims_same _ _ Hsh Hsd) as Hd.
    pose proof C1 as [[Hw1 [Hnd1 Hent1]] Hcan1]. pose proof C2 as [[Hw2 [Hnd2 Hent2]] Hcan2].
    pose proof (dims_pos_of_wf _ Hw1) as Hpos.
    destruct (lookup_e e1 k) as [[c1 vs1]|] eqn:E1; destruct (lookup_e e2 k) as [[c2 vs2]|] eqn:E2.
    - (* stored on both sides: same class, same values *)
      left.
      pose proof (lookup_In _ _ _ E1) as In1. pose proof (lookup_In _ _ _ E2) as In2.
      destruct (Hent1 _ _ _ In1) as [Hok1 [_ Hl1]]. destruct (Hent2 _ _ _ In2) as [Hok2 [_ Hl2]].
      pose proof (Hcan1 _ _ _ In1) as K1. pose proof (Hcan2 _ _ _ In2) as K2.
      rewrite <- Hsh, <- Hd in K2.
      assert (K2' : canon_class (shape (hdr_of e1)) (dims (hdr_of e1)) (den e1 k) c2).
      { eapply canon_class_ext; [|exact K2]. intros p Hp. symmetry. apply Hden. exact Hp. }
      pose proof (canon_class_unique _ _ _ _ _ K1 K2') as Ec. subst c2.
      f_equal. f_equal.
      apply (values_unique (dims (hdr_of e1)) c1 vs1 vs2 Hpos Hl1).
      + rewrite Hd. exact Hl2.
      + intros p Hp. pose proof (Hden k p Hp) as H.
        rewrite (den_fden vnone e1 k c1 vs1 p E1 Hok1) in H.
        rewrite (den_fden vnone e2 k c1 vs2 p E2 Hok2) in H.
        unfold fden in H. rewrite <- Hd in H. exact H.
    - (* stored only in e1: it is None everywhere *)
      right. split; [|left; reflexivity].
      rewrite <- E1. apply (none_only_const vnone e1 k C1).
      intros p Hp. rewrite (Hden k p Hp). unfold Spec.den. rewrite E2. reflexivity.
    - right. split; [left; reflexivity|].
      rewrite <- E2. apply (none_only_const vnone e2 k C2).
      intros p Hp. rewrite <- Hd in Hp. rewrite <- (Hden k p Hp). unfold Spec.den. rewrite E1. reflexivity.
    - left; reflexivity.
  Qed.

  (** every key that is not None everywhere has the same class and the same value list in both *)
  Corollary canonical_unique_key (e1 e2 : ext) k p :
    canonical_mod_none e1 -> canonical_mod_none e2 ->
    shape (hdr_of e1) = shape (hdr_of e2) -> sdim (hdr_of e1) = sdim (hdr_of e2) ->
    (forall k p, in_dims (dims (hdr_of e1)) p -> den e1 k p = den e2 k p) ->
    in_dims (dims (hdr_of e1)) p -> den e1 k p <> vnone ->
    lookup_e e1 k = lookup_e e2 k.
  Proof.
    intros C1 C2 Hsh Hsd Hden Hp Hne.
    destruct (canonical_unique e1 e2 C1 C2 Hsh Hsd Hden) as [_ [_ H]].
    destruct (H k) as [E|[[N1|N1] _]]; [exact E | |]; exfalso; apply Hne; unfold Spec.den; rewrite N1.
    - reflexivity.
    - destruct (class_ok (shape (hdr_of e1)) GConst); [|reflexivity].
      destruct (dims (hdr_of e1)) as [[nS nT] nV]. destruct p as [[s t] v]. reflexivity.
  Qed.

  (** literal [Spec.canonical] on one side (no all-None key) and no extra key on the other: equal as unordered maps *)
  Theorem canonical_unique_strict (e1 e2 : ext) :
    canonical vnone e1 -> canonical_mod_none e2 ->
    shape (hdr_of e1) = shape (hdr_of e2) -> sdim (hdr_of e1) = sdim (hdr_of e2) ->
    (forall k p, in_dims (dims (hdr_of e1)) p -> den e1 k p = den e2 k p) ->
    (forall k, In k (keys_e e2) -> In k (keys_e e1)) ->
    forall k, lookup_e e1 k = lookup_e e2 k.
  Proof.
    intros S1 C2 Hsh Hsd Hden Hkeys k.
    pose proof (canonical_canonical_mod_none vnone e1 S1) as C1.
    destruct (lookup_e e1 k) as [[c1 vs1]|] eqn:E1.
    - destruct S1 as [_ S1]. destruct (S1 _ _ _ (lookup_In _ _ _ E1)) as [_ [p [Hp Hne]]].
      rewrite <- E1. apply (canonical_unique_key e1 e2 k p C1 C2 Hsh Hsd Hden Hp Hne).
    - symmetry. apply lookup_None. intros Hin. apply Hkeys in Hin.
      apply (proj1 (lookup_None e1 k) E1). exact Hin.
  Qed.
End WithV.
