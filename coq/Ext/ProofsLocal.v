(** C13(b): key locality.  What [get_subset] / [from_sequence] say about one key depends only on that
    key's entries in the inputs: the result of the inputs projected to key [k] is the projection of the
    result, and the result (as an unordered map) does not depend on the order of the keys in any input. *)
From Coq Require Import List Bool Arith QArith Lia Permutation.
From DV Require Import Common.Res Common.Str Ext.Types Ext.Classes Ext.Seq Ext.Model Ext.Spec
     Ext.ProofsValidBase.
Import ListNotations.
Local Open Scope nat_scope.

Lemma dk_in k l : In k l -> In k (dedup_keys [] l).
Proof. apply dedup_keys_nil_In. Qed.
Lemma dk_out k l : In k (dedup_keys [] l) -> In k l.
Proof. apply dedup_keys_nil_In. Qed.

Section WithV.
  Context {V : Type} (veqb : V -> V -> bool) (vnone : V).

  Notation kst := (kst V).
  Notation ext := (ext V).
  Notation entry := (key * (cls * list V))%type.

  (** keep only key [k] *)
  Definition proj (k : key) (e : ext) : ext :=
    mk_ext (hdr_of e) (filter (fun kv : entry => key_eqb k (fst kv)) (entries e)).

  Lemma assoc_filter_key k k' (l : list entry) :
    assoc k' (filter (fun kv : entry => key_eqb k (fst kv)) l) = if key_eqb k k' then assoc k' l else None.
  Proof.
    induction l as [|[k'' x] l IH]; cbn [filter assoc fst]; [destruct (key_eqb k k'); reflexivity|].
    destruct (key_eqb k k'') eqn:E1; cbn [assoc].
    - apply key_eqb_eq in E1. subst k''. destruct (key_eqb k' k) eqn:E2.
      + apply key_eqb_eq in E2. subst k'. rewrite key_eqb_refl. reflexivity.
      + exact IH.
    - destruct (key_eqb k' k'') eqn:E2; [|exact IH].
      apply key_eqb_eq in E2. subst k''. rewrite E1. rewrite IH, E1. reflexivity.
  Qed.

  Lemma lookup_proj k k' (e : ext) : lookup_e (proj k e) k' = if key_eqb k k' then lookup_e e k' else None.
  Proof. unfold lookup_e, proj. cbn [entries]. apply assoc_filter_key. Qed.

  Lemma keys_proj k k' (e : ext) : In k' (keys_e (proj k e)) <-> k' = k /\ In k (keys_e e).
  Proof.
    unfold keys_e, proj. cbn [entries]. rewrite in_map_iff. split.
    - intros [[k'' x] [Hk Hin]]. cbn [fst] in Hk. subst k''. apply filter_In in Hin as [Hin Hp]. cbn [fst] in Hp.
      apply key_eqb_eq in Hp. subst k'. split; [reflexivity|]. apply in_map_iff. exists (k, x). split; [reflexivity | exact Hin].
    - intros [-> Hin]. apply in_map_iff in Hin as [[k'' x] [Hk Hin]]. cbn [fst] in Hk. subst k''.
      exists (k, x). split; [reflexivity|]. apply filter_In. split; [exact Hin | apply key_eqb_refl].
  Qed.

  (** extensions equal as unordered maps have the same key sets *)
  Lemma ext_equiv_keys (a b : ext) k : ext_equiv a b -> (In k (keys_e a) <-> In k (keys_e b)).
  Proof.
    intros [_ Hl]. specialize (Hl k).
    destruct (lookup_e a k) eqn:Ea.
    - split; intros _.
      + destruct (in_dec (list_eq_dec N.eq_dec) k (keys_e b)) as [Hi|Hn]; [exact Hi|]. apply lookup_None in Hn. congruence.
      + destruct (in_dec (list_eq_dec N.eq_dec) k (keys_e a)) as [Hi|Hn]; [exact Hi|]. apply lookup_None in Hn. congruence.
    - symmetry in Hl. apply lookup_None in Ea. apply lookup_None in Hl. tauto.
  Qed.

  (** a permutation of the entries (keys listed once) is the same unordered map *)
  Lemma perm_ext_equiv (a b : ext) :
    hdr_of a = hdr_of b -> NoDup (keys_e a) -> Permutation (entries a) (entries b) -> ext_equiv a b.
  Proof.
    intros Hh Hnd Hp. split; [exact Hh|]. intros k. unfold lookup_e.
    assert (Hnd' : NoDup (map fst (entries b))).
    { apply (Permutation_NoDup (Permutation_map fst Hp)). exact Hnd. }
    destruct (assoc k (entries a)) as [x|] eqn:Ea.
    - apply assoc_In in Ea. symmetry. apply In_assoc; [exact Hnd'|]. apply (Permutation_in _ Hp). exact Ea.
    - symmetry. apply assoc_None. apply assoc_None in Ea. intros Hin. apply Ea.
      apply (Permutation_in _ (Permutation_sym (Permutation_map fst Hp))). exact Hin.
  Qed.

  (** the per-key construction of the results: a different key list and a per-key function that agrees
      on it give the same map on that key list *)
  Lemma map_keys_transfer (f f' : key -> res kst) keys keys' ents :
    map_keys f keys = Ok ents -> NoDup keys -> NoDup keys' ->
    (forall k, In k keys' -> In k keys /\ f' k = f k) ->
    exists ents', map_keys f' keys' = Ok ents' /\ NoDup (map fst ents') /\
                  (forall k, In k keys' -> assoc k ents' = assoc k ents) /\
                  (forall k, ~ In k keys' -> assoc k ents' = None).
  Proof.
    intros H Hnd Hnd' Hsub.
    assert (Hm : mapM (fun k => bind (f' k) (fun s => Ok (k, s))) keys' = Ok (map (fun k => (k, assoc k ents)) keys')).
    { apply Forall2_mapM. clear Hnd'. induction keys' as [|k ks IH]; cbn [map]; constructor.
      - destruct (Hsub k (or_introl eq_refl)) as [Hin Hf]. rewrite Hf.
        destruct (map_keys_assoc f keys ents k H Hnd) as [H1 _]. rewrite (H1 Hin). reflexivity.
      - apply IH. intros k' Hk'. apply Hsub. right. exact Hk'. }
    exists (collect (map (fun k => (k, assoc k ents)) keys')).
    assert (Hmk : map_keys f' keys' = Ok (collect (map (fun k => (k, assoc k ents)) keys'))).
    { unfold map_keys. rewrite Hm. reflexivity. }
    split; [exact Hmk|]. split; [apply (map_keys_NoDup _ _ _ Hmk Hnd')|].
    split.
    - intros k Hin. destruct (map_keys_assoc f' keys' _ k Hmk Hnd') as [H1 _]. specialize (H1 Hin).
      destruct (Hsub k Hin) as [Hin0 Hf]. rewrite Hf in H1.
      destruct (map_keys_assoc f keys ents k H Hnd) as [H2 _]. rewrite (H2 Hin0) in H1. injection H1 as H1. symmetry. exact H1.
    - intros k Hn. destruct (map_keys_assoc f' keys' _ k Hmk Hnd') as [_ H2]. apply H2. exact Hn.
  Qed.

  (** * get_subset *)

  Theorem subset_equiv (e e' r : ext) dim idx :
    ext_equiv e e' -> get_subset veqb vnone e dim idx = Ok r ->
    exists r', get_subset veqb vnone e' dim idx = Ok r' /\ ext_equiv r r'.
  Proof.
    intros Heq H. pose proof Heq as [Hh Hl]. unfold get_subset in *. rewrite <- Hh.
    apply bind_ok in H as [hr [Hhr H]]. apply bind_ok in H as [u [Hpre H]]. apply bind_ok in H as [ents [Hents H]].
    injection H as <-. rewrite Hhr. cbn [bind]. rewrite Hpre. cbn [bind].
    destruct (map_keys_transfer _ (fun k => subset_k veqb vnone (hdr_of e) hr dim idx (lookup_e e' k))
                                _ (dedup_keys [] (keys_e e')) ents Hents (dedup_keys_NoDup _ _) (dedup_keys_NoDup _ _))
      as [ents' [Hm [Hnd' [H1 H2]]]].
    { intros k Hk. apply dk_out in Hk. split.
      - apply dk_in. apply (ext_equiv_keys e e' k Heq). exact Hk.
      - rewrite Hl. reflexivity. }
    rewrite Hm. cbn [bind]. eexists. split; [reflexivity|]. split; [reflexivity|].
    intros k. unfold lookup_e. cbn [entries].
    destruct (in_dec (list_eq_dec N.eq_dec) k (dedup_keys [] (keys_e e'))) as [Hi|Hn].
    - symmetry. apply H1. exact Hi.
    - rewrite (H2 k Hn).
      destruct (map_keys_assoc _ _ _ k Hents (dedup_keys_NoDup _ _)) as [_ H3]. apply H3.
      intros Hin. apply Hn. apply dk_in. apply (ext_equiv_keys e e' k Heq). apply dk_out. exact Hin.
  Qed.

  Theorem subset_proj (e r : ext) k dim idx :
    get_subset veqb vnone e dim idx = Ok r ->
    exists rk, get_subset veqb vnone (proj k e) dim idx = Ok rk /\ ext_equiv rk (proj k r).
  Proof.
    intros H. unfold get_subset in *. cbn [hdr_of proj].
    apply bind_ok in H as [hr [Hhr H]]. apply bind_ok in H as [u [Hpre H]]. apply bind_ok in H as [ents [Hents H]].
    injection H as <-. rewrite Hhr. cbn [bind]. rewrite Hpre. cbn [bind].
    fold (proj k e).
    destruct (map_keys_transfer _ (fun k' => subset_k veqb vnone (hdr_of e) hr dim idx (lookup_e (proj k e) k'))
                                _ (dedup_keys [] (keys_e (proj k e))) ents Hents (dedup_keys_NoDup _ _) (dedup_keys_NoDup _ _))
      as [ents' [Hm [Hnd' [H1 H2]]]].
    { intros k' Hk. apply dk_out in Hk. apply keys_proj in Hk as [-> Hin]. split.
      - apply dk_in. exact Hin.
      - rewrite lookup_proj, key_eqb_refl. reflexivity. }
    rewrite Hm. cbn [bind]. eexists. split; [reflexivity|]. split; [reflexivity|].
    intros k'. rewrite lookup_proj. unfold lookup_e. cbn [entries].
    destruct (in_dec (list_eq_dec N.eq_dec) k' (dedup_keys [] (keys_e (proj k e)))) as [Hi|Hn].
    - rewrite (H1 k' Hi). apply dk_out in Hi. apply keys_proj in Hi as [-> _]. rewrite key_eqb_refl. reflexivity.
    - rewrite (H2 k' Hn). destruct (key_eqb k k') eqn:E; [|reflexivity].
      apply key_eqb_eq in E. subst k'. symmetry.
      destruct (map_keys_assoc _ _ _ k Hents (dedup_keys_NoDup _ _)) as [_ H3]. apply H3.
      intros Hin. apply Hn. apply dk_in. apply keys_proj. split; [reflexivity|]. apply dk_out. exact Hin.
  Qed.

  (** * from_sequence *)

  Lemma Forall2_equiv_hdrs (es es' : list ext) :
    Forall2 (ext_equiv (V:=V)) es es' -> map (@hdr_of V) es' = map (@hdr_of V) es.
  Proof. induction 1 as [|a b l l' [Hh _] _ IH]; cbn [map]; [reflexivity|]. rewrite Hh, IH. reflexivity. Qed.

  Lemma Forall2_equiv_ins (es es' : list ext) k :
    Forall2 (ext_equiv (V:=V)) es es' ->
    map (fun e : ext => (hdr_of e, lookup_e e k)) es' = map (fun e : ext => (hdr_of e, lookup_e e k)) es.
  Proof. induction 1 as [|a b l l' [Hh Hl] _ IH]; cbn [map]; [reflexivity|]. rewrite Hh, Hl, IH. reflexivity. Qed.

  Lemma Forall2_equiv_keys (es es' : list ext) k :
    Forall2 (ext_equiv (V:=V)) es es' -> (In k (flat_map (@keys_e V) es) <-> In k (flat_map (@keys_e V) es')).
  Proof.
    induction 1 as [|a b l l' Hab _ IH]; cbn [flat_map]; [cbn [In]; tauto|].
    rewrite !in_app_iff, IH, (ext_equiv_keys a b k Hab). tauto.
  Qed.

  Theorem merge_equiv (es es' : list ext) dim affine slice_dim (r : ext) :
    Forall2 (ext_equiv (V:=V)) es es' -> from_sequence veqb vnone es dim affine slice_dim = Ok r ->
    exists r', from_sequence veqb vnone es' dim affine slice_dim = Ok r' /\ ext_equiv r r'.
  Proof.
    intros Heq H. unfold from_sequence in *. rewrite (Forall2_equiv_hdrs _ _ Heq).
    apply bind_ok in H as [hfull [Hh H]]. apply bind_ok in H as [ents [Hents H]]. injection H as <-.
    rewrite Hh. cbn [bind].
    destruct (map_keys_transfer _ (fun k => merge_k veqb vnone hfull dim (map (fun e : ext => (hdr_of e, lookup_e e k)) es'))
                                _ (dedup_keys [] (flat_map (@keys_e V) es')) ents Hents (dedup_keys_NoDup _ _) (dedup_keys_NoDup _ _))
      as [ents' [Hm [Hnd' [H1 H2]]]].
    { intros k Hk. apply dk_out in Hk. split.
      - apply dk_in. apply (Forall2_equiv_keys es es' k Heq). exact Hk.
      - rewrite (Forall2_equiv_ins _ _ k Heq). reflexivity. }
    rewrite Hm. cbn [bind]. eexists. split; [reflexivity|]. split; [reflexivity|].
    intros k. unfold lookup_e. cbn [entries].
    destruct (in_dec (list_eq_dec N.eq_dec) k (dedup_keys [] (flat_map (@keys_e V) es'))) as [Hi|Hn].
    - symmetry. apply H1. exact Hi.
    - rewrite (H2 k Hn).
      destruct (map_keys_assoc _ _ _ k Hents (dedup_keys_NoDup _ _)) as [_ H3]. apply H3.
      intros Hin. apply Hn. apply dk_in. apply (Forall2_equiv_keys es es' k Heq). apply dk_out. exact Hin.
  Qed.

  Lemma proj_ins (es : list ext) k :
    map (fun e : ext => (hdr_of e, lookup_e e k)) (map (proj k) es) = map (fun e : ext => (hdr_of e, lookup_e e k)) es.
  Proof.
    induction es as [|e es IH]; cbn [map]; [reflexivity|]. rewrite IH, lookup_proj, key_eqb_refl. reflexivity.
  Qed.

  Lemma proj_keys (es : list ext) k k' :
    In k' (flat_map (@keys_e V) (map (proj k) es)) <-> k' = k /\ In k (flat_map (@keys_e V) es).
  Proof.
    induction es as [|e es IH]; cbn [map flat_map]; [cbn [In]; tauto|].
    rewrite !in_app_iff, IH, keys_proj. tauto.
  Qed.

  Theorem merge_proj (es : list ext) k dim affine slice_dim (r : ext) :
    from_sequence veqb vnone es dim affine slice_dim = Ok r ->
    exists rk, from_sequence veqb vnone (map (proj k) es) dim affine slice_dim = Ok rk /\ ext_equiv rk (proj k r).
  Proof.
    intros H. unfold from_sequence in *.
    replace (map (@hdr_of V) (map (proj k) es)) with (map (@hdr_of V) es) by (rewrite map_map; reflexivity).
    apply bind_ok in H as [hfull [Hh H]]. apply bind_ok in H as [ents [Hents H]]. injection H as <-.
    rewrite Hh. cbn [bind].
    destruct (map_keys_transfer _ (fun k' => merge_k veqb vnone hfull dim (map (fun e : ext => (hdr_of e, lookup_e e k')) (map (proj k) es)))
                                _ (dedup_keys [] (flat_map (@keys_e V) (map (proj k) es))) ents Hents (dedup_keys_NoDup _ _) (dedup_keys_NoDup _ _))
      as [ents' [Hm [Hnd' [H1 H2]]]].
    { intros k' Hk. apply dk_out in Hk. apply proj_keys in Hk as [-> Hin]. split.
      - apply dk_in. exact Hin.
      - rewrite proj_ins. reflexivity. }
    rewrite Hm. cbn [bind]. eexists. split; [reflexivity|]. split; [reflexivity|].
    intros k'. rewrite lookup_proj. unfold lookup_e. cbn [entries].
    destruct (in_dec (list_eq_dec N.eq_dec) k' (dedup_keys [] (flat_map (@keys_e V) (map (proj k) es)))) as [Hi|Hn].
    - rewrite (H1 k' Hi). apply dk_out in Hi. apply proj_keys in Hi as [-> _]. rewrite key_eqb_refl. reflexivity.
    - rewrite (H2 k' Hn). destruct (key_eqb k k') eqn:E; [|reflexivity].
      apply key_eqb_eq in E. subst k'. symmetry.
      destruct (map_keys_assoc _ _ _ k Hents (dedup_keys_NoDup _ _)) as [_ H3]. apply H3.
      intros Hin. apply Hn. apply dk_in. apply proj_keys. split; [reflexivity|]. apply dk_out. exact Hin.
  Qed.
End WithV.
