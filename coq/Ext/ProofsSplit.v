(** Lemmas about [NiftiWrapper.split] (image level of C04). *)
From Coq Require Import List Bool Arith NArith ZArith QArith Lia.
From DV Require Import Common.Res Common.Str Ext.Types Ext.Seq Ext.SeqFacts Ext.Model Ext.Split.
Import ListNotations.
Local Open Scope nat_scope.

Lemma mapM_nth {A B} (f : A -> res B) (l : list A) (ys : list B) :
  mapM f l = Ok ys ->
  length ys = length l /\ forall i da db, i < length l -> f (nth i l da) = Ok (nth i ys db).
Proof.
  revert ys. induction l as [|x r IH]; intros ys H.
  - cbn in H. injection H as <-. split; [reflexivity | intros i da db Hi; cbn in Hi; lia].
  - cbn [mapM] in H. destruct (f x) as [y|] eqn:Ef; [|discriminate].
    destruct (mapM f r) as [ys'|] eqn:Em; [|discriminate]. injection H as <-.
    destruct (IH ys' eq_refl) as [Hl Hn]. split; [cbn [length]; lia|].
    intros [|i] da db Hi; [exact Ef|]. cbn [nth]. apply Hn. cbn [length] in Hi. lia.
Qed.

(** the [idx]-th hyperplane: voxel (o, j) of the piece (o = position on the axes before [dim], j = position on
    the axes after it, both as C-order offsets) is voxel (o, idx, j) of the parent *)
Lemma take_axis_nth {A} outer n inner idx (data : list A) o j d :
  length data = outer * n * inner -> idx < n -> o < outer -> j < inner ->
  nth (o * inner + j) (take_axis outer n inner idx data) d = nth ((o * n + idx) * inner + j) data d.
Proof.
  intros Hl Hi Ho Hj. unfold take_axis.
  rewrite (flat_map_blocks_nth _ inner outer o j d); [| |exact Ho|exact Hj].
  - rewrite py_slice_nth by lia. f_equal. ring.
  - intros x Hx. rewrite py_slice_length; [lia|]. rewrite Hl.
    assert (x * n * inner + n * inner <= outer * n * inner) by nia.
    assert (idx * inner + inner <= n * inner) by nia. lia.
Qed.

Lemma take_axis_length {A} outer n inner idx (data : list A) :
  length data = outer * n * inner -> idx < n -> length (take_axis outer n inner idx data) = outer * inner.
Proof.
  intros Hl Hi. unfold take_axis. apply flat_map_blocks_length.
  intros x Hx. rewrite py_slice_length; [lia|]. rewrite Hl.
  assert (x * n * inner + n * inner <= outer * n * inner) by nia.
  assert (idx * inner + inner <= n * inner) by nia. lia.
Qed.

(** affine of piece [idx]: linear part unchanged; for a spatial split the translation moves by [idx] columns *)
Lemma add_trans_entry a dim idx r c :
  length a = 4 -> Forall (fun row => length row = 4) a -> r < 4 -> c < 4 ->
  nth c (nth r (add_trans a dim idx) []) 0%Q =
  if (dim <? 3) && (r <? 3) && (c =? 3)
  then (nth 3 (nth r a []) 0 + inject_Z (Z.of_nat idx) * nth dim (nth r a []) 0)%Q
  else nth c (nth r a []) 0%Q.
Proof.
  intros Hl Hr Hrr Hc. unfold add_trans.
  destruct (dim <? 3) eqn:Ed; [|reflexivity]. cbn [andb].
  destruct a as [|r0 [|r1 [|r2 [|r3 [|? ?]]]]]; try discriminate Hl.
  inversion Hr as [|? ? H0 Hr1]; subst. inversion Hr1 as [|? ? H1 Hr2]; subst.
  inversion Hr2 as [|? ? H2 Hr3]; subst. inversion Hr3 as [|? ? H3 _]; subst.
  destruct r0 as [|a0 [|a1 [|a2 [|a3 [|? ?]]]]]; try discriminate H0.
  destruct r1 as [|b0 [|b1 [|b2 [|b3 [|? ?]]]]]; try discriminate H1.
  destruct r2 as [|c0 [|c1 [|c2 [|c3 [|? ?]]]]]; try discriminate H2.
  destruct r3 as [|d0 [|d1 [|d2 [|d3 [|? ?]]]]]; try discriminate H3.
  destruct r as [|[|[|[|?]]]]; try lia; destruct c as [|[|[|[|?]]]]; try lia; reflexivity.
Qed.

Section WithV.
  Context {V : Type} (veqb : V -> V -> bool) (vnone : V).

  (** as many pieces as the axis is long, in index order, each built by [split_piece] *)
  Lemma split_pieces (w : wimg) (e : ext V) dim ps :
    split veqb vnone w e dim = Ok ps ->
    exists d n, split_dim w dim = Ok d /\ nth_error (wi_shape w) d = Some n /\ length ps = n /\
      forall i dflt, i < n -> split_piece veqb vnone w e d i = Ok (nth i ps dflt).
  Proof.
    unfold split. intros H. apply bind_ok in H as [d [Hd H]].
    destruct (nth_error (wi_shape w) d) as [n|] eqn:En; [|discriminate].
    destruct (mapM_nth _ _ _ H) as [Hl Hn]. rewrite seq_length in Hl.
    exists d, n. repeat split; try assumption.
    intros i dflt Hi. specialize (Hn i 0 dflt). rewrite seq_length in Hn. specialize (Hn Hi).
    rewrite seq_nth in Hn by exact Hi. exact Hn.
  Qed.

  (** what one piece is *)
  Lemma split_piece_spec (w : wimg) (e : ext V) d i wi ri :
    split_piece veqb vnone w e d i = Ok (wi, ri) ->
    wi_shape wi = piece_shape (wi_shape w) d /\ wi_slice wi = wi_slice w /\
    wi_aff wi = add_trans (wi_aff w) d i /\
    wi_data wi = take_axis (prod_list (firstn d (wi_shape w))) (nth d (wi_shape w) 0)
                           (prod_list (skipn (S d) (wi_shape w))) i (wi_data w) /\
    exists meta_dim,
      (if odim_is (wi_slice w) d then sdim (hdr_of e) = Some meta_dim else meta_dim = d) /\
      get_subset veqb vnone e meta_dim i = Ok ri.
  Proof.
    unfold split_piece. intros H. apply bind_ok in H as [md [Hm H]]. apply bind_ok in H as [r [Hg H]].
    injection H as <- <-. cbn [wi_shape wi_slice wi_aff wi_data]. repeat split.
    exists md. split; [|exact Hg].
    destruct (odim_is (wi_slice w) d).
    - destruct (sdim (hdr_of e)); [injection Hm as ->; reflexivity | discriminate].
    - injection Hm as ->. reflexivity.
  Qed.
End WithV.
