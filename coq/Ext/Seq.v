(** List operations used by the extension model: Python slices, strided slices, replication,
    interleaving, and the module-level functions [is_constant] / [is_repeating] (dcmmeta.py:45-100).
    Definitions only; lemmas live in Ext/SeqFacts.v. *)
From Coq Require Import List Bool Arith NArith ZArith QArith Qabs Lia.
From DV Require Import Common.Res.
Import ListNotations.
Local Open Scope nat_scope.

(** [l[a:b]] for [0 <= a], [0 <= b] (clamped like Python; empty when [b <= a]). *)
Definition py_slice {A} (a b : nat) (l : list A) : list A := firstn (b - a) (skipn a l).

(** [l[idx::stride]] for [stride >= 1] (callers turn [stride = 0] into ValueError). *)
Fixpoint every_nth_fuel {A} (fuel stride : nat) (l : list A) : list A :=
  match fuel with
  | 0 => []
  | S f => match l with
           | [] => []
           | x :: _ => x :: every_nth_fuel f stride (skipn stride l)
           end
  end.
Definition every_nth {A} (idx stride : nat) (l : list A) : list A :=
  every_nth_fuel (length l) stride (skipn idx l).

(** [l * n] (whole-list repetition) and element-wise replication [[v]*n for v in l]. *)
Definition rep_list {A} (n : nat) (l : list A) : list A := concat (repeat l n).
Definition rep_each {A} (n : nat) (l : list A) : list A := flat_map (fun v => repeat v n) l.

(** The interleave loops of [_insert_slice] / [_insert_sample]:
    for each of [nvol] blocks, [n] values of [l1] followed by [m] values of [l2]. *)
Definition interleave {A} (n m nvol : nat) (l1 l2 : list A) : list A :=
  flat_map (fun vol => py_slice (vol * n) (vol * n + n) l1 ++ py_slice (vol * m) (vol * m + m) l2)
           (seq 0 nvol).

(** The first [n] consecutive chunks of length [p]. *)
Fixpoint chunks {A} (n p : nat) (l : list A) : list (list A) :=
  match n with
  | 0 => []
  | S n' => firstn p l :: chunks n' p (skipn p l)
  end.

Definition prod_list (l : list nat) : nat := fold_left Nat.mul l 1.

Fixpoint list_nat_eqb (a b : list nat) : bool :=
  match a, b with
  | [], [] => true
  | x :: xs, y :: ys => (x =? y) && list_nat_eqb xs ys
  | _, _ => false
  end.

(** [l[i] = v] as a copy (Python list assignment; IndexError = [None]). *)
Fixpoint set_nth {A} (i : nat) (v : A) (l : list A) : option (list A) :=
  match l, i with
  | [], _ => None
  | _ :: r, 0 => Some (v :: r)
  | x :: r, S j => option_map (cons x) (set_nth j v r)
  end.

(** [np.allclose(a, b, rtol, atol)] on vectors of equal length, exactly in Q:
    elementwise |a - b| <= atol + rtol * |b|. *)
Definition allclose (rtol atol : Q) (a b : list Q) : bool :=
  (length a =? length b) &&
  forallb (fun xy => Qle_bool (Qabs (fst xy - snd xy)) (atol + rtol * Qabs (snd xy))) (combine a b).
Definition rtol_default : Q := 1 # 100000.
Definition atol_default : Q := 1 # 100000000.

Section WithV.
  Context {V : Type} (veqb : V -> V -> bool).

  Fixpoint list_eqb (a b : list V) : bool :=
    match a, b with
    | [], [] => true
    | x :: xs, y :: ys => veqb x y && list_eqb xs ys
    | _, _ => false
    end.

  (** [all(val == sequence[0] for val in sequence)] *)
  Definition all_eq_first (l : list V) : bool :=
    match l with
    | [] => true
    | x :: _ => forallb (fun v => veqb v x) l
    end.

  (** [is_constant(sequence, period)]; ValueError = [Err EValue]. *)
  Definition is_constant (l : list V) (period : option nat) : res bool :=
    match period with
    | None => Ok (all_eq_first l)
    | Some p =>
        if p <=? 1 then Err EValue
        else if negb (length l mod p =? 0) then Err EValue
        else Ok (forallb all_eq_first (chunks (length l / p) p l))
    end.

  (** [is_repeating(sequence, period)] *)
  Definition is_repeating (l : list V) (period : nat) : res bool :=
    let n := length l in
    if (period <=? 1) || (n <=? period) then Err EValue
    else if negb (n mod period =? 0) then Err EValue
    else Ok (forallb (fun ch => list_eqb ch (firstn period l)) (tl (chunks (n / period) period l))).
End WithV.
