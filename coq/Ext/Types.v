(** Shared types of the extension algebra: classifications, header, per-key state, extension.
    Everything is parametric in the value type [V] (the executable instance is [jv]). *)
From Coq Require Import List Bool Arith NArith ZArith QArith Lia.
From DV Require Import Common.Res Common.Str.
Import ListNotations.
Local Open Scope nat_scope.

(** The six classifications of [DcmMetaExtension.classifications]. *)
Inductive cls := GConst | GSlices | TSamples | TSlices | VSamples | VSlices.
Inductive cbase := BGlobal | BTime | BVector.
Inductive csub := SConst | SSlices | SSamples.

Definition base_of (c : cls) : cbase :=
  match c with GConst | GSlices => BGlobal | TSamples | TSlices => BTime | VSamples | VSlices => BVector end.
Definition sub_of (c : cls) : csub :=
  match c with GConst => SConst | GSlices | TSlices | VSlices => SSlices | TSamples | VSamples => SSamples end.

Definition cls_eqb (a b : cls) : bool :=
  match a, b with
  | GConst, GConst | GSlices, GSlices | TSamples, TSamples | TSlices, TSlices
  | VSamples, VSamples | VSlices, VSlices => true
  | _, _ => false
  end.
Lemma cls_eqb_spec a b : reflect (a = b) (cls_eqb a b).
Proof. destruct a, b; simpl; constructor; congruence. Qed.
Lemma cls_eqb_refl a : cls_eqb a a = true.
Proof. destruct a; reflexivity. Qed.
Lemma cls_eqb_eq a b : cls_eqb a b = true <-> a = b.
Proof. destruct (cls_eqb_spec a b); split; congruence. Qed.

Definition cbase_eqb (a b : cbase) : bool :=
  match a, b with BGlobal, BGlobal | BTime, BTime | BVector, BVector => true | _, _ => false end.
Lemma cbase_eqb_spec a b : reflect (a = b) (cbase_eqb a b).
Proof. destruct a, b; simpl; constructor; congruence. Qed.

Definition is_slices (c : cls) : bool := match sub_of c with SSlices => true | _ => false end.
Definition is_samples (c : cls) : bool := match sub_of c with SSamples => true | _ => false end.

Definition ocls_eqb (a b : option cls) : bool :=
  match a, b with Some x, Some y => cls_eqb x y | None, None => true | _, _ => false end.

Definition mem_cls (c : cls) (l : list cls) : bool := existsb (cls_eqb c) l.
Lemma mem_cls_In c l : mem_cls c l = true <-> In c l.
Proof.
  unfold mem_cls. rewrite existsb_exists. split.
  - intros [x [Hin Heq]]. apply cls_eqb_eq in Heq. subst; exact Hin.
  - intros Hin. exists c. split; [exact Hin | apply cls_eqb_refl].
Qed.

Definition all_classes : list cls := [GConst; GSlices; TSamples; TSlices; VSamples; VSlices].
Lemma all_classes_complete c : In c all_classes.
Proof. destruct c; simpl; tauto. Qed.

(** Header of an extension.  [has_time] / [has_vec] record which base dictionaries exist in the
    Python [_content] ('global' always exists); they are kept separate from the classes that are
    valid for [shape] because the code consults both. *)
Record hdr := mk_hdr {
  shape : list nat;
  sdim : option nat;
  aff : list (list Q);
  has_time : bool;
  has_vec : bool }.

Definition key := str.
Definition key_eqb : key -> key -> bool := str_eqb.

Definition ndim (h : hdr) : nat := length (shape h).
(** [shape[i]] with Python's IndexError as [None]. *)
Definition shape_at (h : hdr) (i : nat) : option nat := nth_error (shape h) i.
(** [n_slices]: [None] when there is no slice dimension. *)
Definition n_slices (h : hdr) : option nat :=
  match sdim h with None => None | Some d => Some (nth d (shape h) 0) end.

Definition has_base (h : hdr) (b : cbase) : bool :=
  match b with BGlobal => true | BTime => has_time h | BVector => has_vec h end.

Section WithV.
  Context {V : Type}.

  (** Per-key state: [None] = the key is absent; a global constant is a singleton list. *)
  Definition kst := option (cls * list V).

  Record ext := mk_ext { hdr_of : hdr; entries : list (key * (cls * list V)) }.

  Fixpoint assoc (k : key) (l : list (key * (cls * list V))) : kst :=
    match l with
    | [] => None
    | (k', x) :: r => if key_eqb k k' then Some x else assoc k r
    end.

  Definition lookup_e (e : ext) (k : key) : kst := assoc k (entries e).
  Definition keys_e (e : ext) : list key := map fst (entries e).

  Definition kst_class (s : kst) : option cls := match s with Some (c, _) => Some c | None => None end.
End WithV.

Arguments kst V : clear implicits.
Arguments ext V : clear implicits.

Definition mem_key (k : key) (l : list key) : bool := existsb (key_eqb k) l.

(** Keys of a list of lists, without duplicates, in order of first appearance. *)
Fixpoint dedup_keys (seen l : list key) : list key :=
  match l with
  | [] => []
  | k :: r => if mem_key k seen then dedup_keys seen r else k :: dedup_keys (k :: seen) r
  end.
