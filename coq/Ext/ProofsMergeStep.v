(** C03, one merge step: [reclassify_k] and the three insertion routines of [_insert], each in an abstract
    "step context" (what the headers of self / other / the grown self have to satisfy); the contexts are
    discharged for the headers that [from_sequence] really builds in Ext/ProofsMergeFrame.v. *)
From Coq Require Import List Bool Arith Lia.
From DV Require Import Common.Res Common.Str Ext.Types Ext.Classes Ext.Seq Ext.Model Ext.Spec Ext.TableFacts
     Ext.ValidFacts Ext.ProofsMergeSeq Ext.ProofsMergeDen.
Import ListNotations.
Local Open Scope nat_scope.

(** * The widening order, explicitly *)

Definition pres (c : cls) : list cls :=
  match c with
  | GConst => [VSamples; TSamples; TSlices; VSlices; GSlices]
  | VSamples => [TSamples; GSlices]
  | TSamples => [GSlices]
  | TSlices => [VSlices; GSlices]
  | VSlices => [GSlices]
  | GSlices => []
  end.

Lemma preserving_Some c : preserving (Some c) = Some (pres c).
Proof. destruct c; vm_compute; reflexivity. Qed.

Lemma allowedb_Some c new : allowedb (Some c) new = mem_cls new (pres c).
Proof. unfold allowedb. rewrite preserving_Some. reflexivity. Qed.

Lemma allowed_to_gslices c : c <> GSlices -> allowedb (Some c) GSlices = true.
Proof. rewrite allowedb_Some. destruct c; intros H; try reflexivity. congruence. Qed.

Lemma allowed_trans a b c : allowedb (Some a) b = true -> allowedb (Some b) c = true -> allowedb (Some a) c = true.
Proof. rewrite !allowedb_Some. destruct a, b, c; cbn; intros H1 H2; try reflexivity; discriminate. Qed.

Lemma widens_trans oa b c : widens oa b -> widens (Some b) c -> widens oa c.
Proof.
  intros [H1|H1] [H2|H2].
  - injection H2 as ->. left; exact H1.
  - subst oa. right; exact H2.
  - injection H2 as ->. right; exact H1.
  - destruct oa as [a|]; [right; eapply allowed_trans; eassumption | right; apply allowed_from_none].
Qed.

Lemma widens_gslices oc : widens oc GSlices.
Proof.
  destruct oc as [c|]; [|right; apply allowed_from_none].
  destruct (cls_eqb_spec c GSlices) as [->|Hn]; [left; reflexivity | right; apply allowed_to_gslices; exact Hn].
Qed.

Lemma widens_const_inv oc : widens oc GConst -> oc = None \/ oc = Some GConst.
Proof.
  intros [H|H]; [right; exact H|]. destruct oc as [c|]; [|left; reflexivity].
  rewrite allowedb_Some in H. destruct c; discriminate H.
Qed.

(** [c] is at least [oc] in the widening order *)
Definition geb (c oc : cls) : bool := cls_eqb c oc || mem_cls c (pres oc).

Lemma geb_widens c oc : geb c oc = true -> widens (Some oc) c.
Proof.
  unfold geb. intros H. apply orb_true_iff in H as [H|H].
  - apply cls_eqb_eq in H. subst. left; reflexivity.
  - right. rewrite allowedb_Some. exact H.
Qed.

(** where [_insert] moves a key of class [c] when the other extension has it in class [oc] *)
Definition rtarget (c oc : cls) : cls := if mem_cls oc (pres c) then oc else GSlices.

Lemma rtarget_widens c oc : geb c oc = false -> widens (Some c) (rtarget c oc) /\ widens (Some oc) (rtarget c oc).
Proof.
  unfold geb, rtarget. destruct c, oc; cbn; intros H; try discriminate H; split;
    solve [left; reflexivity | right; reflexivity].
Qed.

(** the incomparable pairs always involve a per-slice class *)
Lemma rtarget_slices c oc :
  geb c oc = false -> is_slices (rtarget c oc) = true -> is_slices c = true \/ is_slices oc = true.
Proof. unfold geb, rtarget. destruct c, oc; cbn; intros H1 H2; try discriminate; auto. Qed.

(** * Header facts (any well-formed header) *)

Lemma class_ok_gslices h : hdr_ok h -> class_ok (shape h) GSlices = true.
Proof.
  intros [Hn _]. unfold class_ok, ndim in *. destruct (length (shape h)) as [|[|[|[|[|[|n]]]]]]; try lia; reflexivity.
Qed.

Lemma n_slices_dims h nS nT nV : hdr_ok h -> sdim h <> None -> dims h = (nS, nT, nV) -> n_slices h = Some nS.
Proof.
  intros [Hn [_ Hsd]] Hs Hd. unfold n_slices, dims, ndim in *. destruct (sdim h) as [d|]; [|congruence].
  specialize (Hsd d eq_refl). injection Hd as <- _ _. f_equal. apply nth_indep. lia.
Qed.

Lemma prod_skip3 h nS nT nV : hdr_ok h -> dims h = (nS, nT, nV) -> prod_list (skipn 3 (shape h)) = nT * nV.
Proof.
  intros [Hn _] Hd. unfold dims, ndim in *. injection Hd as _ <- <-.
  destruct (shape h) as [|a [|b [|c [|t [|v [|x r]]]]]]; cbn [length] in Hn; try lia;
    cbn [skipn prod_list fold_left nth]; lia.
Qed.

Lemma no_tslices_T1 h nS nT nV : hdr_ok h -> dims h = (nS, nT, nV) -> class_ok (shape h) TSlices = false -> nT = 1.
Proof.
  intros [Hn _] Hd. unfold dims, ndim, class_ok in *. injection Hd as _ <- _.
  destruct (shape h) as [|a [|b [|c [|t [|v [|x r]]]]]]; cbn [length] in Hn; try lia;
    cbn [length base_of nth]; try discriminate; try reflexivity.
  destruct (Nat.eqb_spec t 1); [auto | discriminate].
Qed.

Lemma no_vslices_V1 h nS nT nV : hdr_ok h -> dims h = (nS, nT, nV) -> class_ok (shape h) VSlices = false -> nV = 1.
Proof.
  intros [Hn _] Hd. unfold dims, ndim, class_ok in *. injection Hd as _ _ <-.
  destruct (shape h) as [|a [|b [|c [|t [|v [|x r]]]]]]; cbn [length] in Hn; try lia;
    cbn [length base_of nth]; try discriminate; reflexivity.
Qed.

(** * Two list laws: append along the slowest axis, interleave along a faster one *)

Lemma app_block_nth {A} (lv ov : list A) K j x low (d : A) :
  length lv = K * j -> low < K ->
  nth (low + K * x) (lv ++ ov) d = if x <? j then nth (low + K * x) lv d else nth (low + K * (x - j)) ov d.
Proof.
  intros Hl Hlow. destruct (Nat.ltb_spec x j) as [Hlt|Hge].
  - apply app_nth1. nia.
  - rewrite app_nth2 by nia. f_equal. nia.
Qed.

Section Comb.
  Context {A : Type} (d0 : A).

  (** slice axis: per-volume interleave of [j] slices of self with 1 slice of other *)
  Lemma comb_slice c j nT nV nv (lv ov : list A) :
    is_slices c = true -> nv = mult_spec (1, nT, nV) c ->
    length lv = mult_spec (j, nT, nV) c -> length ov = mult_spec (1, nT, nV) c ->
    length (interleave j 1 nv lv ov) = mult_spec (S j, nT, nV) c /\
    forall s t v, s < S j -> t < nT -> v < nV ->
      nth (cidx (S j, nT, nV) c (s, t, v)) (interleave j 1 nv lv ov) d0 =
      if s <? j then nth (cidx (j, nT, nV) c (s, t, v)) lv d0 else nth (cidx (1, nT, nV) c (0, t, v)) ov d0.
  Proof.
    intros Hc -> Hl Ho. destruct c; try discriminate Hc; cbn [mult_spec cidx] in *.
    - (* GSlices *)
      split; [rewrite interleave_length; nia|]. intros s t v Hs Ht Hv.
      assert (Hvol : t + nT * v < 1 * nT * nV) by nia.
      replace (s + S j * (t + nT * v)) with ((t + nT * v) * (j + 1) + s) by ring.
      rewrite interleave_nth; try nia. destruct (s <? j) eqn:E.
      + f_equal; ring.
      + apply Nat.ltb_ge in E. f_equal; nia.
    - (* TSlices *)
      split; [rewrite interleave_length; nia|]. intros s t v Hs Ht Hv.
      replace s with (0 * (j + 1) + s) at 1 by ring.
      rewrite interleave_nth; try nia. destruct (s <? j) eqn:E.
      + f_equal.
      + apply Nat.ltb_ge in E. f_equal; nia.
    - (* VSlices *)
      split; [rewrite interleave_length; nia|]. intros s t v Hs Ht Hv.
      replace (s + S j * t) with (t * (j + 1) + s) by ring.
      rewrite interleave_nth; try nia. destruct (s <? j) eqn:E.
      + f_equal; ring.
      + apply Nat.ltb_ge in E. f_equal; nia.
  Qed.

  (** time axis, 4-D result (one vector component): append *)
  Lemma comb_time4 c j nS (lv ov : list A) :
    c = TSamples \/ c = GSlices ->
    length lv = mult_spec (nS, j, 1) c -> length ov = mult_spec (nS, 1, 1) c ->
    length (lv ++ ov) = mult_spec (nS, S j, 1) c /\
    forall s t v, s < nS -> t < S j -> v < 1 ->
      nth (cidx (nS, S j, 1) c (s, t, v)) (lv ++ ov) d0 =
      if t <? j then nth (cidx (nS, j, 1) c (s, t, v)) lv d0 else nth (cidx (nS, 1, 1) c (s, 0, v)) ov d0.
  Proof.
    intros [-> | ->] Hl Ho; cbn [mult_spec cidx] in *.
    - split; [rewrite app_length; nia|]. intros s t v Hs Ht Hv. assert (v = 0) by lia. subst v.
      replace (t + S j * 0) with (0 + 1 * t) by ring.
      rewrite (app_block_nth lv ov 1 j t 0) by lia. destruct (t <? j) eqn:E.
      + f_equal; ring.
      + apply Nat.ltb_ge in E. f_equal; nia.
    - split; [rewrite app_length; nia|]. intros s t v Hs Ht Hv. assert (v = 0) by lia. subst v.
      replace (s + nS * (t + S j * 0)) with (s + nS * t) by ring.
      rewrite (app_block_nth lv ov nS j t s) by nia. destruct (t <? j) eqn:E.
      + f_equal; ring.
      + apply Nat.ltb_ge in E. f_equal; nia.
  Qed.

  (** time axis, 5-D result: per-vector interleave of [j] time points of self with 1 of other *)
  Lemma comb_time5 j nS nV (lv ov : list A) :
    length lv = mult_spec (nS, j, nV) GSlices -> length ov = mult_spec (nS, 1, nV) GSlices ->
    length (interleave (nS * j) (nS * 1) nV lv ov) = mult_spec (nS, S j, nV) GSlices /\
    forall s t v, s < nS -> t < S j -> v < nV ->
      nth (cidx (nS, S j, nV) GSlices (s, t, v)) (interleave (nS * j) (nS * 1) nV lv ov) d0 =
      if t <? j then nth (cidx (nS, j, nV) GSlices (s, t, v)) lv d0 else nth (cidx (nS, 1, nV) GSlices (s, 0, v)) ov d0.
  Proof.
    intros Hl Ho; cbn [mult_spec cidx] in *.
    split; [rewrite interleave_length; nia|]. intros s t v Hs Ht Hv.
    replace (s + nS * (t + S j * v)) with (v * (nS * j + nS * 1) + (s + nS * t)) by ring.
    rewrite interleave_nth; try nia.
    destruct (Nat.ltb_spec t j) as [E|E].
    - replace (s + nS * t <? nS * j) with true by (symmetry; apply Nat.ltb_lt; nia). f_equal; ring.
    - replace (s + nS * t <? nS * j) with false by (symmetry; apply Nat.ltb_ge; nia). f_equal; nia.
  Qed.

  (** vector axis: append *)
  Lemma comb_vec c j nS nT (lv ov : list A) :
    c = VSamples \/ c = GSlices ->
    length lv = mult_spec (nS, nT, j) c -> length ov = mult_spec (nS, nT, 1) c ->
    length (lv ++ ov) = mult_spec (nS, nT, S j) c /\
    forall s t v, s < nS -> t < nT -> v < S j ->
      nth (cidx (nS, nT, S j) c (s, t, v)) (lv ++ ov) d0 =
      if v <? j then nth (cidx (nS, nT, j) c (s, t, v)) lv d0 else nth (cidx (nS, nT, 1) c (s, t, 0)) ov d0.
  Proof.
    intros [-> | ->] Hl Ho; cbn [mult_spec cidx] in *.
    - split; [rewrite app_length; nia|]. intros s t v Hs Ht Hv.
      replace v with (0 + 1 * v) at 1 by ring.
      rewrite (app_block_nth lv ov 1 j v 0) by lia. destruct (v <? j) eqn:E.
      + f_equal; ring.
      + apply Nat.ltb_ge in E. f_equal; nia.
    - split; [rewrite app_length; nia|]. intros s t v Hs Ht Hv.
      replace (s + nS * (t + nT * v)) with ((s + nS * t) + (nS * nT) * v) by ring.
      rewrite (app_block_nth lv ov (nS * nT) j v (s + nS * t)) by nia. destruct (v <? j) eqn:E.
      + f_equal; ring.
      + apply Nat.ltb_ge in E. f_equal; nia.
  Qed.
End Comb.


Section WithV.
  Context {V : Type} (veqb : V -> V -> bool) (vnone : V).
  Hypothesis veqb_spec : forall a b, reflect (a = b) (veqb a b).

  Notation den_k := (den_k vnone).

  (** other's per-slice meta data is ignored when the slice normals differ *)
  Definition drop_k (u : bool) (s : kst V) : kst V :=
    match s with
    | Some (c, vs) => if is_slices c && negb u then None else Some (c, vs)
    | None => None
    end.

  Lemma drop_k_good h u s : good_k h s -> good_k h (drop_k u s).
  Proof. destruct s as [[c vs]|]; [|trivial]. cbn [drop_k]. intros H. destruct (is_slices c && negb u); [exact I | exact H]. Qed.

  Lemma drop_k_nondeg h u s : nondeg_k h s -> nondeg_k h (drop_k u s).
  Proof. destruct s as [[c vs]|]; [|trivial]. cbn [drop_k]. intros H. destruct (is_slices c && negb u); [exact I | exact H]. Qed.

  (** * [reclassify_k] *)

  Lemma reclassify_k_eq hs ks oc :
    good_k hs ks ->
    reclassify_k vnone hs ks oc =
    match kst_class ks with
    | Some c => if geb c oc then Ok ks else change_class_k vnone hs ks (rtarget c oc)
    | None => change_class_k vnone hs ks oc
    end.
  Proof.
    intros Hg. unfold reclassify_k. rewrite (visible_good _ _ Hg).
    destruct ks as [[c vs]|]; cbn [kst_class ocls_eqb].
    - rewrite !preserving_Some. unfold geb, rtarget.
      destruct c, oc; cbn [cls_eqb pres mem_cls existsb orb negb find base_of has_base andb];
        rewrite ?andb_false_r; cbn [find mem_cls existsb cls_eqb orb andb has_base base_of]; reflexivity.
    - rewrite preserving_None, preserving_Some. replace (mem_cls oc _) with true by (destruct oc; reflexivity).
      reflexivity.
  Qed.

  Lemma reclassify_k_den hs ks oc ks1 :
    hdr_ok hs -> good_k hs ks ->
    class_ok (shape hs) oc = true -> (is_slices oc = true -> sdim hs <> None) ->
    reclassify_k vnone hs ks oc = Ok ks1 ->
    good_k hs ks1 /\ (forall p, in_dims (dims hs) p -> den_k hs ks1 p = den_k hs ks p) /\
    exists c1 vs1, ks1 = Some (c1, vs1) /\ widens (Some oc) c1 /\ widens (kst_class ks) c1.
  Proof.
    intros Hh Hg Hok Hsl Hr. rewrite (reclassify_k_eq _ _ _ Hg) in Hr.
    destruct ks as [[c vs]|]; cbn [kst_class] in Hr.
    - destruct (geb c oc) eqn:Eg.
      + injection Hr as <-. split; [exact Hg|]. split; [reflexivity|].
        exists c, vs. split; [reflexivity|]. split; [apply geb_widens; exact Eg | left; reflexivity].
      + destruct (rtarget_widens c oc Eg) as [Hw1 Hw2].
        assert (Hok' : class_ok (shape hs) (rtarget c oc) = true).
        { unfold rtarget. destruct (mem_cls oc (pres c)); [exact Hok | apply class_ok_gslices; exact Hh]. }
        assert (Hsl' : is_slices (rtarget c oc) = true -> sdim hs <> None).
        { intros Hs. destruct (rtarget_slices c oc Eg Hs) as [H|H]; [|auto]. destruct Hg as [_ [Hg _]]. auto. }
        destruct (change_class_k_den vnone hs _ _ ks1 Hh Hg Hok' Hsl' Hr) as [[vs1 ->] [Hg1 Hd1]].
        split; [exact Hg1|]. split; [exact Hd1|]. exists (rtarget c oc), vs1. auto.
    - destruct (change_class_k_den vnone hs _ _ ks1 Hh Hg Hok Hsl Hr) as [[vs1 ->] [Hg1 Hd1]].
      split; [exact Hg1|]. split; [exact Hd1|]. exists oc, vs1. split; [reflexivity|].
      split; [left; reflexivity | right; apply allowed_from_none].
  Qed.

  Lemma reclassify_k_ok hs ks oc :
    hdr_ok hs -> good_k hs ks ->
    class_ok (shape hs) oc = true -> (is_slices oc = true -> sdim hs <> None) ->
    has_base hs (base_of oc) = true ->
    exists ks1, reclassify_k vnone hs ks oc = Ok ks1.
  Proof.
    intros Hh Hg Hok Hsl Hb. rewrite (reclassify_k_eq _ _ _ Hg).
    destruct ks as [[c vs]|]; cbn [kst_class].
    - destruct (geb c oc) eqn:Eg; [eauto|].
      destruct (rtarget_widens c oc Eg) as [Hw1 Hw2].
      apply change_class_k_ok; try assumption.
      + unfold rtarget. destruct (mem_cls oc (pres c)); [exact Hok | apply class_ok_gslices; exact Hh].
      + intros Hs. destruct (rtarget_slices c oc Eg Hs) as [H|H]; [|auto]. destruct Hg as [_ [Hg _]]. auto.
      + unfold rtarget. destruct (mem_cls oc (pres c)); [exact Hb | reflexivity].
    - apply change_class_k_ok; try assumption. right; apply allowed_from_none.
  Qed.

  (** [l] is the value list that represents state [s] in class [c] *)
  Definition repr (h : hdr) (s : kst V) (c : cls) (l : list V) : Prop :=
    length l = mult_spec (dims h) c /\
    forall p, in_dims (dims h) p -> nth (cidx (dims h) c p) l vnone = den_k h s p.

  Lemma repr_self h c vs : good_k h (Some (c, vs)) -> repr h (Some (c, vs)) c vs.
  Proof. intros [Hok [_ Hl]]. split; [exact Hl|]. intros p _. rewrite den_k_good by exact Hok. reflexivity. Qed.

  Lemma nth_single (x : V) i : nth i [x] x = x.
  Proof. destruct i as [|[|i]]; reflexivity. Qed.

  (** [_get_changed_class] on the OTHER extension: defined whenever the change is allowed ... *)
  Lemma changed_class_total h s new sd :
    hdr_ok h -> good_k h s -> widens (kst_class s) new ->
    (class_ok (shape h) new = true -> is_slices new = true -> sdim h <> None) ->
    exists vs', changed_class vnone h s new sd = Ok vs'.
  Proof.
    intros Hh Hg Hw Hsl. destruct (class_ok (shape h) new) eqn:Eok.
    - apply changed_class_ok; auto.
    - destruct (changed_class_invalid vnone h s new sd Hh Hg Eok Hw) as [vs' [E _]]. eauto.
  Qed.

  (** ... and it represents the key in the new class; when the new class is not admitted by [h] (an input of
      lower dimensionality) this needs multiplicity 1 and an absent or constant key *)
  Lemma changed_class_repr h s new sd vs' :
    hdr_ok h -> good_k h s -> widens (kst_class s) new ->
    (is_slices new = true -> sdim h <> None) ->
    (class_ok (shape h) new = false ->
     mult_spec (dims h) new = 1 /\ (kst_class s = None \/ kst_class s = Some GConst)) ->
    changed_class vnone h s new sd = Ok vs' -> repr h s new vs'.
  Proof.
    intros Hh Hg Hw Hsl Hinv Hc. destruct (class_ok (shape h) new) eqn:Eok.
    - exact (changed_class_den vnone h s new sd vs' Hh Hg Eok Hsl Hc).
    - destruct (Hinv eq_refl) as [Hm Hk].
      destruct (changed_class_invalid vnone h s new sd Hh Hg Eok Hw) as [vs2 [E [HN HC]]].
      rewrite E in Hc. apply Ok_inj in Hc. subst vs2.
      destruct s as [[c vs]|].
      + destruct Hk as [Hk|Hk]; [discriminate|]. cbn [kst_class] in Hk. injection Hk as ->.
        pose proof Hg as [Hcok [_ Hl]]. destruct (dims h) as [[nS nT] nV] eqn:Ed. cbn [mult_spec] in Hl.
        destruct vs as [|x [|y r]]; try discriminate Hl. rewrite (HC x eq_refl).
        split; [rewrite Ed, Hm; reflexivity|]. intros p Hp. rewrite den_k_good by exact Hcok. rewrite Ed in *.
        pose proof (cidx_lt _ new _ Hp) as Hlt. rewrite Hm in Hlt.
        replace (cidx (nS, nT, nV) new p) with 0 by lia. destruct p as [[? ?] ?]. reflexivity.
      + rewrite (HN eq_refl). split; [rewrite Hm; reflexivity|]. intros p _. cbn [den_k]. apply nth_single.
  Qed.

  (** * Moving both sides to ('global','slices') *)
  Lemma to_global_slices_repr hs ho c1 lv ko2 ov :
    hdr_ok hs -> hdr_ok ho -> sdim hs <> None -> sdim ho <> None ->
    good_k hs (Some (c1, lv)) -> good_k ho ko2 -> (c1 = GSlices -> repr ho ko2 GSlices ov) ->
    exists lv2 ov2, to_global_slices vnone hs ho (Some (c1, lv)) ko2 c1 lv ov = Ok (lv2, ov2) /\
                    repr hs (Some (c1, lv)) GSlices lv2 /\ repr ho ko2 GSlices ov2.
  Proof.
    intros Hhs Hho Hss Hso Hgs Hgo Hov. unfold to_global_slices.
    destruct (cls_eqb_spec c1 GSlices) as [->|Hne].
    - exists lv, ov. split; [reflexivity|]. split; [apply repr_self; exact Hgs | auto].
    - pose proof (class_ok_gslices hs Hhs) as Hok.
      destruct (change_class_k_ok vnone hs (Some (c1, lv)) GSlices Hhs Hgs Hok (fun _ => Hss) eq_refl
                  (widens_gslices _)) as [ks2 E2].
      rewrite E2. cbn [bind].
      destruct (change_class_k_den vnone hs _ _ ks2 Hhs Hgs Hok (fun _ => Hss) E2) as [[lv2 ->] [Hg2 Hd2]].
      rewrite (visible_good _ _ Hg2).
      pose proof (class_ok_gslices ho Hho) as Hoko.
      destruct (changed_class_ok vnone ho ko2 GSlices (sdim hs) Hho Hgo Hoko (fun _ => Hso) (widens_gslices _))
        as [ov2 Eo]. rewrite Eo. cbn [bind].
      exists lv2, ov2. split; [reflexivity|]. split.
      + destruct Hg2 as [_ [_ Hl2]]. split; [exact Hl2|]. intros p Hp. rewrite <- Hd2 by exact Hp.
        rewrite den_k_good by exact Hok. reflexivity.
      + exact (changed_class_den vnone ho ko2 GSlices (sdim hs) ov2 Hho Hgo Hoko (fun _ => Hso) Eo).
  Qed.

  (** * Finishing lemmas: a combined list is a good state of the grown header with the concatenated denotation *)

  (** unchanged constant *)
  Lemma finish_const hs hs' ho lv ov ko2 :
    hdr_ok hs' -> good_k hs (Some (GConst, lv)) -> repr ho ko2 GConst ov -> lv = ov ->
    good_k hs' (Some (GConst, lv)) /\ nondeg_k hs' (Some (GConst, lv)) /\
    forall p p' p'' (b : bool), in_dims (dims ho) p'' ->
      den_k hs' (Some (GConst, lv)) p = if b then den_k hs (Some (GConst, lv)) p' else den_k ho ko2 p''.
  Proof.
    intros Hh' [Hok [_ Hl]] [Hlo Hdo] <-. pose proof (class_ok_const hs' Hh') as Hok'.
    split; [|split].
    - split; [exact Hok'|]. split; [discriminate|]. destruct (dims hs) as [[? ?] ?], (dims hs') as [[? ?] ?]. exact Hl.
    - intros Hc. congruence.
    - intros p p' p'' b Hp. rewrite !den_k_good by assumption. rewrite <- (Hdo p'' Hp).
      destruct (dims hs) as [[? ?] ?], (dims hs') as [[? ?] ?], (dims ho) as [[? ?] ?], p as [[? ?] ?], p' as [[? ?] ?], p'' as [[? ?] ?].
      destruct b; reflexivity.
  Qed.

  Lemma finish_slice hs hs' ho ks1 ko2 c j nT nV lv2 ov2 nv :
    hdr_ok hs' -> 1 <= j ->
    dims hs = (j, nT, nV) -> dims ho = (1, nT, nV) -> dims hs' = (S j, nT, nV) ->
    class_ok (shape hs') c = true -> sdim hs' <> None -> is_slices c = true ->
    nv = mult_spec (1, nT, nV) c ->
    repr hs ks1 c lv2 -> repr ho ko2 c ov2 ->
    good_k hs' (Some (c, interleave j 1 nv lv2 ov2)) /\ nondeg_k hs' (Some (c, interleave j 1 nv lv2 ov2)) /\
    forall s t v, s < S j -> t < nT -> v < nV ->
      den_k hs' (Some (c, interleave j 1 nv lv2 ov2)) (s, t, v) =
      if s <? j then den_k hs ks1 (s, t, v) else den_k ho ko2 (0, t, v).
  Proof.
    intros Hh' Hj Hd Hdo Hd' Hok Hsd Hsl Hnv [Hl1 Hn1] [Hl2 Hn2].
    rewrite Hd in Hl1, Hn1. rewrite Hdo in Hl2, Hn2.
    destruct (comb_slice vnone c j nT nV nv lv2 ov2 Hsl Hnv Hl1 Hl2) as [HL HN].
    pose proof (dims_pos hs' _ _ _ Hh' Hd') as [_ [HT HV]].
    split; [|split].
    - split; [exact Hok|]. split; [auto|]. rewrite Hd'. exact HL.
    - intros _. rewrite Hd'. destruct c; try discriminate Hsl; cbn [mult_spec]; nia.
    - intros s t v Hs Ht Hv. rewrite den_k_good by exact Hok. rewrite Hd', HN by assumption.
      destruct (Nat.ltb_spec s j) as [E|E]; [apply Hn1 | apply Hn2]; cbn [in_dims]; lia.
  Qed.

  Lemma finish_time4 hs hs' ho ks1 ko2 c j nS lv2 ov2 :
    hdr_ok hs' -> 1 <= j ->
    dims hs = (nS, j, 1) -> dims ho = (nS, 1, 1) -> dims hs' = (nS, S j, 1) ->
    class_ok (shape hs') c = true -> (is_slices c = true -> sdim hs' <> None) -> c = TSamples \/ c = GSlices ->
    repr hs ks1 c lv2 -> repr ho ko2 c ov2 ->
    good_k hs' (Some (c, lv2 ++ ov2)) /\ nondeg_k hs' (Some (c, lv2 ++ ov2)) /\
    forall s t v, s < nS -> t < S j -> v < 1 ->
      den_k hs' (Some (c, lv2 ++ ov2)) (s, t, v) =
      if t <? j then den_k hs ks1 (s, t, v) else den_k ho ko2 (s, 0, v).
  Proof.
    intros Hh' Hj Hd Hdo Hd' Hok Hsd Hc [Hl1 Hn1] [Hl2 Hn2].
    rewrite Hd in Hl1, Hn1. rewrite Hdo in Hl2, Hn2.
    destruct (comb_time4 vnone c j nS lv2 ov2 Hc Hl1 Hl2) as [HL HN].
    pose proof (dims_pos hs' _ _ _ Hh' Hd') as [HS _].
    split; [|split].
    - split; [exact Hok|]. split; [exact Hsd|]. rewrite Hd'. exact HL.
    - intros _. rewrite Hd'. destruct Hc as [-> | ->]; cbn [mult_spec]; nia.
    - intros s t v Hs Ht Hv. rewrite den_k_good by exact Hok. rewrite Hd', HN by assumption.
      destruct (Nat.ltb_spec t j) as [E|E]; [apply Hn1 | apply Hn2]; cbn [in_dims]; lia.
  Qed.

  Lemma finish_time5 hs hs' ho ks1 ko2 j nS nV lv2 ov2 :
    hdr_ok hs' -> 1 <= j ->
    dims hs = (nS, j, nV) -> dims ho = (nS, 1, nV) -> dims hs' = (nS, S j, nV) ->
    sdim hs' <> None ->
    repr hs ks1 GSlices lv2 -> repr ho ko2 GSlices ov2 ->
    good_k hs' (Some (GSlices, interleave (nS * j) (nS * 1) nV lv2 ov2)) /\
    nondeg_k hs' (Some (GSlices, interleave (nS * j) (nS * 1) nV lv2 ov2)) /\
    forall s t v, s < nS -> t < S j -> v < nV ->
      den_k hs' (Some (GSlices, interleave (nS * j) (nS * 1) nV lv2 ov2)) (s, t, v) =
      if t <? j then den_k hs ks1 (s, t, v) else den_k ho ko2 (s, 0, v).
  Proof.
    intros Hh' Hj Hd Hdo Hd' Hsd [Hl1 Hn1] [Hl2 Hn2].
    rewrite Hd in Hl1, Hn1. rewrite Hdo in Hl2, Hn2.
    destruct (comb_time5 vnone j nS nV lv2 ov2 Hl1 Hl2) as [HL HN].
    pose proof (dims_pos hs' _ _ _ Hh' Hd') as [HS [_ HV]].
    pose proof (class_ok_gslices hs' Hh') as Hok.
    split; [|split].
    - split; [exact Hok|]. split; [auto|]. rewrite Hd'. exact HL.
    - intros _. rewrite Hd'. cbn [mult_spec]. nia.
    - intros s t v Hs Ht Hv. rewrite den_k_good by exact Hok. rewrite Hd', HN by assumption.
      destruct (Nat.ltb_spec t j) as [E|E]; [apply Hn1 | apply Hn2]; cbn [in_dims]; lia.
  Qed.

  Lemma finish_vec hs hs' ho ks1 ko2 c j nS nT lv2 ov2 :
    hdr_ok hs' -> 1 <= j ->
    dims hs = (nS, nT, j) -> dims ho = (nS, nT, 1) -> dims hs' = (nS, nT, S j) ->
    class_ok (shape hs') c = true -> (is_slices c = true -> sdim hs' <> None) -> c = VSamples \/ c = GSlices ->
    repr hs ks1 c lv2 -> repr ho ko2 c ov2 ->
    good_k hs' (Some (c, lv2 ++ ov2)) /\ nondeg_k hs' (Some (c, lv2 ++ ov2)) /\
    forall s t v, s < nS -> t < nT -> v < S j ->
      den_k hs' (Some (c, lv2 ++ ov2)) (s, t, v) =
      if v <? j then den_k hs ks1 (s, t, v) else den_k ho ko2 (s, t, 0).
  Proof.
    intros Hh' Hj Hd Hdo Hd' Hok Hsd Hc [Hl1 Hn1] [Hl2 Hn2].
    rewrite Hd in Hl1, Hn1. rewrite Hdo in Hl2, Hn2.
    destruct (comb_vec vnone c j nS nT lv2 ov2 Hc Hl1 Hl2) as [HL HN].
    pose proof (dims_pos hs' _ _ _ Hh' Hd') as [HS [HT _]].
    split; [|split].
    - split; [exact Hok|]. split; [exact Hsd|]. rewrite Hd'. exact HL.
    - intros _. rewrite Hd'. destruct Hc as [-> | ->]; cbn [mult_spec]; nia.
    - intros s t v Hs Ht Hv. rewrite den_k_good by exact Hok. rewrite Hd', HN by assumption.
      destruct (Nat.ltb_spec v j) as [E|E]; [apply Hn1 | apply Hn2]; cbn [in_dims]; lia.
  Qed.

  (** * Slice axis *)
  Record slice_ctx (hs hs' ho : hdr) (j nT nV : nat) : Prop := {
    sx_hs : hdr_ok hs; sx_hs' : hdr_ok hs'; sx_ho : hdr_ok ho; sx_j : 1 <= j;
    sx_d : dims hs = (j, nT, nV); sx_do : dims ho = (1, nT, nV); sx_d' : dims hs' = (S j, nT, nV);
    sx_oko : forall c, class_ok (shape ho) c = class_ok (shape hs) c;
    sx_ok' : forall c, class_ok (shape hs') c = class_ok (shape hs) c;
    sx_base : forall c, has_base hs (base_of c) = class_ok (shape hs) c;
    sx_sd : sdim hs <> None; sx_sdo : sdim ho = sdim hs; sx_sd' : sdim hs' = sdim hs }.

  Definition slice_law (hs hs' ho : hdr) (j nT nV : nat) (ks1 ko2 : kst V) (ks' : kst V) : Prop :=
    good_k hs' ks' /\ nondeg_k hs' ks' /\
    forall s t v, s < S j -> t < nT -> v < nV ->
      den_k hs' ks' (s, t, v) = if s <? j then den_k hs ks1 (s, t, v) else den_k ho ko2 (0, t, v).

  (** a constant that starts to vary along the slice axis moves to a per-slice class with one volume *)
  Lemma slice_const_branch hs hs' ho j nT nV lv ko2 dc :
    slice_ctx hs hs' ho j nT nV ->
    good_k hs (Some (GConst, lv)) -> good_k ho ko2 -> widens (kst_class ko2) GConst ->
    is_slices dc = true -> class_ok (shape hs) dc = true -> mult_spec (1, nT, nV) dc = 1 ->
    exists ks',
      (bind (change_class_k vnone hs (Some (GConst, lv)) dc) (fun ks2 =>
       bind (changed_class vnone ho ko2 dc (sdim hs)) (fun ov2 =>
       match visible hs ks2 with
       | Some (c2, lv2) => Ok (Some (c2, lv2 ++ ov2))
       | None => Err EAttr
       end))) = Ok ks' /\ slice_law hs hs' ho j nT nV (Some (GConst, lv)) ko2 ks'.
  Proof.
    intros X Hgs Hgo Hw Hsl Hok Hm1. destruct X.
    assert (Hwd : widens (Some GConst) dc) by (right; rewrite allowedb_Some; destruct dc; try discriminate Hsl; reflexivity).
    assert (Hb : has_base hs (base_of dc) = true) by (rewrite sx_base0; exact Hok).
    destruct (change_class_k_ok vnone hs _ dc sx_hs0 Hgs Hok (fun _ => sx_sd0) Hb Hwd) as [ks2 E2].
    rewrite E2. cbn [bind].
    destruct (change_class_k_den vnone hs _ _ ks2 sx_hs0 Hgs Hok (fun _ => sx_sd0) E2) as [[lv2 ->] [Hg2 Hd2]].
    assert (Hoko : class_ok (shape ho) dc = true) by (rewrite sx_oko0; exact Hok).
    assert (Hsdo : sdim ho <> None) by (rewrite sx_sdo0; exact sx_sd0).
    destruct (changed_class_ok vnone ho ko2 dc (sdim hs) sx_ho0 Hgo Hoko (fun _ => Hsdo)
                (widens_trans _ _ _ Hw Hwd)) as [ov2 Eo].
    rewrite Eo. cbn [bind]. rewrite (visible_good _ _ Hg2).
    eexists. split; [reflexivity|].
    pose proof (changed_class_den vnone ho ko2 dc (sdim hs) ov2 sx_ho0 Hgo Hoko (fun _ => Hsdo) Eo) as Hro.
    assert (Hrs : repr hs (Some (GConst, lv)) dc lv2).
    { destruct Hg2 as [_ [_ Hl2]]. split; [exact Hl2|]. intros p Hp. rewrite <- Hd2 by exact Hp.
      rewrite den_k_good by exact Hok. reflexivity. }
    assert (Hl1 : length lv2 = j).
    { destruct Hrs as [Hl _]. rewrite sx_d0 in Hl. rewrite Hl. destruct dc; try discriminate Hsl; cbn [mult_spec] in *; nia. }
    assert (Hl2 : length ov2 = 1).
    { destruct Hro as [Hl _]. rewrite sx_do0 in Hl. rewrite Hl. exact Hm1. }
    rewrite <- (interleave_one j 1 lv2 ov2) by (symmetry; assumption).
    apply (finish_slice hs hs' ho _ ko2 dc j nT nV lv2 ov2 1); try assumption.
    - rewrite sx_ok'0. exact Hok.
    - rewrite sx_sd'0. exact sx_sd0.
    - symmetry. exact Hm1.
  Qed.

  Lemma insert_slice_k_den hs hs' ho c1 lv ko2 j nT nV :
    slice_ctx hs hs' ho j nT nV ->
    good_k hs (Some (c1, lv)) -> good_k ho ko2 -> widens (kst_class ko2) c1 ->
    exists ks', insert_slice_k veqb vnone hs ho (Some (c1, lv)) ko2 = Ok ks' /\
                slice_law hs hs' ho j nT nV (Some (c1, lv)) ko2 ks'.
  Proof.
    intros X Hgs Hgo Hw. pose proof X as X0. destruct X.
    pose proof Hgs as [Hok1 [Hsl1 Hlen1]].
    assert (Hoko : class_ok (shape ho) c1 = true) by (rewrite sx_oko0; exact Hok1).
    assert (Hsdo : sdim ho <> None) by (rewrite sx_sdo0; exact sx_sd0).
    assert (Hsd' : sdim hs' <> None) by (rewrite sx_sd'0; exact sx_sd0).
    unfold insert_slice_k. rewrite (visible_good _ _ Hgs).
    destruct (changed_class_ok vnone ho ko2 c1 (sdim hs) sx_ho0 Hgo Hoko (fun _ => Hsdo) Hw) as [ov Eov].
    rewrite Eov. cbn [bind].
    pose proof (changed_class_den vnone ho ko2 c1 (sdim hs) ov sx_ho0 Hgo Hoko (fun _ => Hsdo) Eov) as Hro.
    (* the general path: everything in ('global','slices'), per-volume interleave *)
    assert (G : exists ks',
      (bind (to_global_slices vnone hs ho (Some (c1, lv)) ko2 c1 lv ov) (fun lo =>
       match n_slices hs, n_slices ho with
       | Some n, Some m => Ok (Some (GSlices, interleave n m (prod_list (skipn 3 (shape hs))) (fst lo) (snd lo)))
       | _, _ => Err EType
       end)) = Ok ks' /\ slice_law hs hs' ho j nT nV (Some (c1, lv)) ko2 ks').
    { destruct (to_global_slices_repr hs ho c1 lv ko2 ov sx_hs0 sx_ho0 sx_sd0 Hsdo Hgs Hgo)
        as [lv2 [ov2 [E [Hr1 Hr2]]]]; [intros ->; exact Hro|].
      rewrite E. cbn [bind fst snd].
      rewrite (n_slices_dims hs _ _ _ sx_hs0 sx_sd0 sx_d0), (n_slices_dims ho _ _ _ sx_ho0 Hsdo sx_do0).
      rewrite (prod_skip3 hs _ _ _ sx_hs0 sx_d0).
      eexists. split; [reflexivity|].
      apply (finish_slice hs hs' ho _ ko2 GSlices j nT nV lv2 ov2 (nT * nV)); try assumption.
      - apply class_ok_gslices; assumption.
      - reflexivity.
      - cbn [mult_spec]. lia. }
    destruct c1; try exact G.
    - (* ('global','const') *)
      destruct (list_eqb_spec veqb veqb_spec lv ov) as [Heq|Hne]; cbn [negb].
      + eexists. split; [reflexivity|].
        destruct (finish_const hs hs' ho lv ov ko2 sx_hs'0 Hgs Hro Heq) as [F1 [F2 F3]].
        split; [exact F1|]. split; [exact F2|]. intros s t v Hs Ht Hv. apply F3.
        rewrite sx_do0. cbn [in_dims]. lia.
      + destruct copy_dests_eq as [_ [_ [_ ->]]]. cbn [find].
        change (has_base hs BTime) with (has_base hs (base_of TSlices)).
        change (has_base hs BVector) with (has_base hs (base_of VSlices)).
        rewrite !sx_base0.
        destruct (class_ok (shape hs) TSlices) eqn:Et.
        { cbn [slices_of_base]. apply (slice_const_branch hs hs' ho j nT nV lv ko2 TSlices); auto. }
        pose proof (no_tslices_T1 hs _ _ _ sx_hs0 sx_d0 Et) as ->.
        destruct (class_ok (shape hs) VSlices) eqn:Ev.
        { cbn [slices_of_base]. apply (slice_const_branch hs hs' ho j 1 nV lv ko2 VSlices); auto. }
        pose proof (no_vslices_V1 hs _ _ _ sx_hs0 sx_d0 Ev) as ->.
        cbn [has_base slices_of_base].
        apply (slice_const_branch hs hs' ho j 1 1 lv ko2 GSlices); auto; try (apply class_ok_gslices; assumption).
    - (* ('time','slices') *)
      eexists. split; [reflexivity|].
      assert (Hl2 : length ov = 1) by (destruct Hro as [Hl _]; rewrite sx_do0 in Hl; exact Hl).
      assert (Hl1 : length lv = j) by (rewrite Hlen1, sx_d0; reflexivity).
      rewrite <- (interleave_one j 1 lv ov) by (symmetry; assumption).
      apply (finish_slice hs hs' ho _ ko2 TSlices j nT nV lv ov 1); try assumption; try reflexivity.
      + rewrite sx_ok'0. exact Hok1.
      + apply repr_self. exact Hgs.
  Qed.

  (** * Time axis *)
  Definition time_law (hs hs' ho : hdr) (j nS nV : nat) (ks1 ko2 : kst V) (ks' : kst V) : Prop :=
    good_k hs' ks' /\ nondeg_k hs' ks' /\
    forall s t v, s < nS -> t < S j -> v < nV ->
      den_k hs' ks' (s, t, v) = if t <? j then den_k hs ks1 (s, t, v) else den_k ho ko2 (s, 0, v).

  Record time_ctx (hs hs' ho : hdr) (j nS nV : nat) : Prop := {
    tx_hs : hdr_ok hs; tx_hs' : hdr_ok hs'; tx_ho : hdr_ok ho; tx_j : 1 <= j;
    tx_d : dims hs = (nS, j, nV); tx_do : dims ho = (nS, 1, nV); tx_d' : dims hs' = (nS, S j, nV);
    tx_oko : forall c, class_ok (shape ho) c = true -> class_ok (shape hs) c = true;
    tx_ok' : forall c, class_ok (shape hs) c = true -> class_ok (shape hs') c = true;
    tx_base : forall c, class_ok (shape hs) c = true -> has_base hs (base_of c) = true;
    tx_sd : sdim hs <> None; tx_sdo : sdim ho = sdim hs; tx_sd' : sdim hs' = sdim hs }.

  Lemma sample_const_eq hs hs' ho lv ov ko2 (P : kst V -> Prop) :
    hdr_ok hs' -> good_k hs (Some (GConst, lv)) -> repr ho ko2 GConst ov -> lv = ov ->
    (good_k hs' (Some (GConst, lv)) -> nondeg_k hs' (Some (GConst, lv)) ->
     (forall p p' p'' (b : bool), in_dims (dims ho) p'' ->
        den_k hs' (Some (GConst, lv)) p = if b then den_k hs (Some (GConst, lv)) p' else den_k ho ko2 p'') ->
     P (Some (GConst, lv))) -> P (Some (GConst, lv)).
  Proof. intros H1 H2 H3 H4 K. destruct (finish_const hs hs' ho lv ov ko2 H1 H2 H3 H4) as [F1 [F2 F3]]. auto. Qed.

  (** 4-D result: the time axis is the slowest one *)
  Lemma insert_time4_k_den hs hs' ho c1 lv ko2 j nS :
    time_ctx hs hs' ho j nS 1 -> ndim hs = 4 ->
    class_ok (shape hs) TSamples = true -> class_ok (shape hs) VSamples = false -> class_ok (shape hs) VSlices = false ->
    good_k hs (Some (c1, lv)) -> good_k ho ko2 -> widens (kst_class ko2) c1 ->
    exists ks', insert_sample_k veqb vnone hs ho (Some (c1, lv)) ko2 BTime = Ok ks' /\
                time_law hs hs' ho j nS 1 (Some (c1, lv)) ko2 ks'.
  Proof.
    intros X Hnd HokT HnoV HnoVS Hgs Hgo Hw. destruct X.
    pose proof Hgs as [Hok1 [Hsl1 Hlen1]].
    assert (Hsdo : sdim ho <> None) by (rewrite tx_sdo0; exact tx_sd0).
    assert (Hsd' : sdim hs' <> None) by (rewrite tx_sd'0; exact tx_sd0).
    assert (HnoVo : class_ok (shape ho) VSamples = false).
    { destruct (class_ok (shape ho) VSamples) eqn:E; [|reflexivity]. apply tx_oko0 in E. congruence. }
    unfold insert_sample_k. rewrite (visible_good _ _ Hgs). cbn [samples_of_base].
    destruct (changed_class_total ho ko2 c1 (sdim hs) tx_ho0 Hgo Hw (fun _ _ => Hsdo)) as [ov Eov].
    rewrite Eov. cbn [bind]. rewrite Hnd. cbn [cbase_eqb Nat.eqb andb negb].
    (* representation of other in ('time','samples') *)
    assert (HreprT : forall ovx, widens (kst_class ko2) TSamples ->
                     changed_class vnone ho ko2 TSamples (sdim hs) = Ok ovx -> repr ho ko2 TSamples ovx).
    { intros ovx Hwx Ex. apply (changed_class_repr ho ko2 TSamples (sdim hs) ovx tx_ho0 Hgo Hwx (fun _ => Hsdo)); [|exact Ex].
      intros Hno. split; [rewrite tx_do0; reflexivity|].
      destruct ko2 as [[oc ovs]|]; [right | left; reflexivity]. cbn [kst_class] in *.
      destruct Hgo as [Hoko _]. destruct Hwx as [Hwx|Hwx].
      - injection Hwx as ->. congruence.
      - rewrite allowedb_Some in Hwx. destruct oc; try discriminate Hwx; try reflexivity. congruence. }
    assert (G : exists ks',
      (bind (to_global_slices vnone hs ho (Some (c1, lv)) ko2 c1 lv ov) (fun lo =>
         Ok (Some (GSlices, fst lo ++ snd lo)))) = Ok ks' /\ time_law hs hs' ho j nS 1 (Some (c1, lv)) ko2 ks').
    { destruct (to_global_slices_repr hs ho c1 lv ko2 ov tx_hs0 tx_ho0 tx_sd0 Hsdo Hgs Hgo)
        as [lv2 [ov2 [E [Hr1 Hr2]]]].
      { intros ->. apply (changed_class_den vnone ho ko2 GSlices (sdim hs) ov tx_ho0 Hgo
                            (class_ok_gslices ho tx_ho0) (fun _ => Hsdo) Eov). }
      rewrite E. cbn [bind fst snd]. eexists. split; [reflexivity|].
      apply (finish_time4 hs hs' ho _ ko2 GSlices j nS lv2 ov2); auto.
      apply class_ok_gslices; assumption. }
    destruct c1; try exact G; try congruence.
    - (* ('global','const') *)
      cbn [cls_eqb andb].
      assert (Hro : repr ho ko2 GConst ov)
        by (apply (changed_class_den vnone ho ko2 GConst (sdim hs) ov tx_ho0 Hgo (class_ok_const ho tx_ho0)
                     (fun H => ltac:(discriminate H)) Eov)).
      destruct (list_eqb_spec veqb veqb_spec lv ov) as [Heq|Hne]; cbn [negb].
      + eexists. split; [reflexivity|].
        destruct (finish_const hs hs' ho lv ov ko2 tx_hs'0 Hgs Hro Heq) as [F1 [F2 F3]].
        split; [exact F1|]. split; [exact F2|]. intros s t v Hs Ht Hv. apply F3.
        rewrite tx_do0. cbn [in_dims]. lia.
      + assert (Hwd : widens (Some GConst) TSamples) by (right; reflexivity).
        destruct (change_class_k_ok vnone hs _ TSamples tx_hs0 Hgs HokT (fun H => ltac:(discriminate H))
                    (tx_base0 _ HokT) Hwd) as [ks2 E2].
        rewrite E2. cbn [bind].
        destruct (change_class_k_den vnone hs _ _ ks2 tx_hs0 Hgs HokT (fun H => ltac:(discriminate H)) E2)
          as [[lv2 ->] [Hg2 Hd2]].
        pose proof (widens_trans _ _ _ Hw Hwd) as Hwo.
        destruct (changed_class_total ho ko2 TSamples (sdim hs) tx_ho0 Hgo Hwo (fun _ _ => Hsdo)) as [ov2 Eo].
        rewrite Eo. cbn [bind]. rewrite (visible_good _ _ Hg2). eexists. split; [reflexivity|].
        apply (finish_time4 hs hs' ho _ ko2 TSamples j nS lv2 ov2); auto.
        destruct Hg2 as [_ [_ Hl2]]. split; [exact Hl2|]. intros p Hp. rewrite <- Hd2 by exact Hp.
        rewrite den_k_good by exact HokT. reflexivity.
    - (* ('time','samples') *)
      cbn [cls_eqb andb]. eexists. split; [reflexivity|].
      apply (finish_time4 hs hs' ho _ ko2 TSamples j nS lv ov); auto.
      apply repr_self. exact Hgs.
  Qed.

  Lemma shape_at_3 h nS nT nV : hdr_ok h -> 4 <= ndim h -> dims h = (nS, nT, nV) -> shape_at h 3 = Some nT.
  Proof.
    intros [Hn _] H4 Hd. unfold dims, ndim, shape_at in *. injection Hd as _ <- _.
    destruct (shape h) as [|a [|b [|c [|t r]]]]; cbn [length] in H4; try lia. reflexivity.
  Qed.

  Lemma shape_at_4 h nS nT nV : hdr_ok h -> 5 <= ndim h -> dims h = (nS, nT, nV) -> shape_at h 4 = Some nV.
  Proof.
    intros [Hn _] H4 Hd. unfold dims, ndim, shape_at in *. injection Hd as _ _ <-.
    destruct (shape h) as [|a [|b [|c [|t [|v r]]]]]; cbn [length] in H4; try lia. reflexivity.
  Qed.

  (** 5-D result: per-vector interleave *)
  Lemma insert_time5_k_den hs hs' ho c1 lv ko2 j nS nV :
    time_ctx hs hs' ho j nS nV -> ndim hs = 5 -> ndim ho = 5 ->
    good_k hs (Some (c1, lv)) -> good_k ho ko2 -> widens (kst_class ko2) c1 ->
    exists ks', insert_sample_k veqb vnone hs ho (Some (c1, lv)) ko2 BTime = Ok ks' /\
                time_law hs hs' ho j nS nV (Some (c1, lv)) ko2 ks'.
  Proof.
    intros X Hnd Hndo Hgs Hgo Hw. destruct X.
    pose proof Hgs as [Hok1 [Hsl1 Hlen1]].
    assert (Hsdo : sdim ho <> None) by (rewrite tx_sdo0; exact tx_sd0).
    assert (Hsd' : sdim hs' <> None) by (rewrite tx_sd'0; exact tx_sd0).
    unfold insert_sample_k. rewrite (visible_good _ _ Hgs). cbn [samples_of_base].
    destruct (changed_class_total ho ko2 c1 (sdim hs) tx_ho0 Hgo Hw (fun _ _ => Hsdo)) as [ov Eov].
    rewrite Eov. cbn [bind]. rewrite Hnd. cbn [cbase_eqb Nat.eqb andb negb]. rewrite !andb_false_r.
    assert (G : exists ks',
      (bind (to_global_slices vnone hs ho (Some (c1, lv)) ko2 c1 lv ov) (fun lo =>
         match n_slices hs with
         | None => Err EType
         | Some n =>
             match shape_at hs 3, shape_at ho 3, shape_at hs 4 with
             | Some t, Some ot, Some v => Ok (Some (GSlices, interleave (n * t) (n * ot) v (fst lo) (snd lo)))
             | _, _, _ => Err EIndex
             end
         end)) = Ok ks' /\ time_law hs hs' ho j nS nV (Some (c1, lv)) ko2 ks').
    { destruct (to_global_slices_repr hs ho c1 lv ko2 ov tx_hs0 tx_ho0 tx_sd0 Hsdo Hgs Hgo)
        as [lv2 [ov2 [E [Hr1 Hr2]]]].
      { intros ->. apply (changed_class_den vnone ho ko2 GSlices (sdim hs) ov tx_ho0 Hgo
                            (class_ok_gslices ho tx_ho0) (fun _ => Hsdo) Eov). }
      rewrite E. cbn [bind fst snd].
      rewrite (n_slices_dims hs _ _ _ tx_hs0 tx_sd0 tx_d0).
      rewrite (shape_at_3 hs _ _ _ tx_hs0 ltac:(lia) tx_d0), (shape_at_3 ho _ _ _ tx_ho0 ltac:(lia) tx_do0),
              (shape_at_4 hs _ _ _ tx_hs0 ltac:(lia) tx_d0).
      eexists. split; [reflexivity|].
      apply (finish_time5 hs hs' ho _ ko2 j nS nV lv2 ov2); auto. }
    destruct (cls_eqb_spec c1 GConst) as [->|Hnc]; cbn [andb]; [|exact G].
    assert (Hro : repr ho ko2 GConst ov)
      by (apply (changed_class_den vnone ho ko2 GConst (sdim hs) ov tx_ho0 Hgo (class_ok_const ho tx_ho0)
                   (fun H => ltac:(discriminate H)) Eov)).
    destruct (list_eqb_spec veqb veqb_spec lv ov) as [Heq|Hne]; [|exact G].
    eexists. split; [reflexivity|].
    destruct (finish_const hs hs' ho lv ov ko2 tx_hs'0 Hgs Hro Heq) as [F1 [F2 F3]].
    split; [exact F1|]. split; [exact F2|]. intros s t v Hs Ht Hv. apply F3.
    rewrite tx_do0. cbn [in_dims]. lia.
  Qed.

  (** * Vector axis *)
  Definition vec_law (hs hs' ho : hdr) (j nS nT : nat) (ks1 ko2 : kst V) (ks' : kst V) : Prop :=
    good_k hs' ks' /\ nondeg_k hs' ks' /\
    forall s t v, s < nS -> t < nT -> v < S j ->
      den_k hs' ks' (s, t, v) = if v <? j then den_k hs ks1 (s, t, v) else den_k ho ko2 (s, t, 0).

  Record vec_ctx (hs hs' ho : hdr) (j nS nT : nat) : Prop := {
    vx_hs : hdr_ok hs; vx_hs' : hdr_ok hs'; vx_ho : hdr_ok ho; vx_j : 1 <= j;
    vx_d : dims hs = (nS, nT, j); vx_do : dims ho = (nS, nT, 1); vx_d' : dims hs' = (nS, nT, S j);
    vx_ok' : forall c, class_ok (shape hs) c = true -> class_ok (shape hs') c = true;
    vx_base : forall c, class_ok (shape hs) c = true -> has_base hs (base_of c) = true;
    vx_okV : class_ok (shape hs) VSamples = true;
    vx_sd : sdim hs <> None; vx_sdo : sdim ho = sdim hs; vx_sd' : sdim hs' = sdim hs }.

  Lemma insert_vec_k_den hs hs' ho c1 lv ko2 j nS nT :
    vec_ctx hs hs' ho j nS nT ->
    good_k hs (Some (c1, lv)) -> good_k ho ko2 -> widens (kst_class ko2) c1 ->
    exists ks', insert_sample_k veqb vnone hs ho (Some (c1, lv)) ko2 BVector = Ok ks' /\
                vec_law hs hs' ho j nS nT (Some (c1, lv)) ko2 ks'.
  Proof.
    intros X Hgs Hgo Hw. destruct X.
    pose proof Hgs as [Hok1 [Hsl1 Hlen1]].
    assert (Hsdo : sdim ho <> None) by (rewrite vx_sdo0; exact vx_sd0).
    assert (Hsd' : sdim hs' <> None) by (rewrite vx_sd'0; exact vx_sd0).
    unfold insert_sample_k. rewrite (visible_good _ _ Hgs). cbn [samples_of_base].
    destruct (changed_class_total ho ko2 c1 (sdim hs) vx_ho0 Hgo Hw (fun _ _ => Hsdo)) as [ov Eov].
    rewrite Eov. cbn [bind]. cbn [cbase_eqb andb negb]. rewrite !andb_true_r.
    assert (HreprV : forall ovx, widens (kst_class ko2) VSamples ->
                     changed_class vnone ho ko2 VSamples (sdim hs) = Ok ovx -> repr ho ko2 VSamples ovx).
    { intros ovx Hwx Ex. apply (changed_class_repr ho ko2 VSamples (sdim hs) ovx vx_ho0 Hgo Hwx (fun _ => Hsdo)); [|exact Ex].
      intros Hno. split; [rewrite vx_do0; reflexivity|].
      destruct ko2 as [[oc ovs]|]; [right | left; reflexivity]. cbn [kst_class] in *.
      destruct Hgo as [Hoko _]. destruct Hwx as [Hwx|Hwx].
      - injection Hwx as ->. congruence.
      - rewrite allowedb_Some in Hwx. destruct oc; try discriminate Hwx; reflexivity. }
    assert (G : exists ks',
      (bind (to_global_slices vnone hs ho (Some (c1, lv)) ko2 c1 lv ov) (fun lo =>
         Ok (Some (GSlices, fst lo ++ snd lo)))) = Ok ks' /\ vec_law hs hs' ho j nS nT (Some (c1, lv)) ko2 ks').
    { destruct (to_global_slices_repr hs ho c1 lv ko2 ov vx_hs0 vx_ho0 vx_sd0 Hsdo Hgs Hgo)
        as [lv2 [ov2 [E [Hr1 Hr2]]]].
      { intros ->. apply (changed_class_den vnone ho ko2 GSlices (sdim hs) ov vx_ho0 Hgo
                            (class_ok_gslices ho vx_ho0) (fun _ => Hsdo) Eov). }
      rewrite E. cbn [bind fst snd]. eexists. split; [reflexivity|].
      apply (finish_vec hs hs' ho _ ko2 GSlices j nS nT lv2 ov2); auto.
      apply class_ok_gslices; assumption. }
    destruct c1; try exact G.
    - (* ('global','const') *)
      cbn [cls_eqb].
      assert (Hro : repr ho ko2 GConst ov)
        by (apply (changed_class_den vnone ho ko2 GConst (sdim hs) ov vx_ho0 Hgo (class_ok_const ho vx_ho0)
                     (fun H => ltac:(discriminate H)) Eov)).
      destruct (list_eqb_spec veqb veqb_spec lv ov) as [Heq|Hne]; cbn [negb].
      + eexists. split; [reflexivity|].
        destruct (finish_const hs hs' ho lv ov ko2 vx_hs'0 Hgs Hro Heq) as [F1 [F2 F3]].
        split; [exact F1|]. split; [exact F2|]. intros s t v Hs Ht Hv. apply F3.
        rewrite vx_do0. cbn [in_dims]. lia.
      + assert (Hwd : widens (Some GConst) VSamples) by (right; reflexivity).
        destruct (change_class_k_ok vnone hs _ VSamples vx_hs0 Hgs vx_okV0 (fun H => ltac:(discriminate H))
                    (vx_base0 _ vx_okV0) Hwd) as [ks2 E2].
        rewrite E2. cbn [bind].
        destruct (change_class_k_den vnone hs _ _ ks2 vx_hs0 Hgs vx_okV0 (fun H => ltac:(discriminate H)) E2)
          as [[lv2 ->] [Hg2 Hd2]].
        pose proof (widens_trans _ _ _ Hw Hwd) as Hwo.
        destruct (changed_class_total ho ko2 VSamples (sdim hs) vx_ho0 Hgo Hwo (fun _ _ => Hsdo)) as [ov2 Eo].
        rewrite Eo. cbn [bind]. rewrite (visible_good _ _ Hg2). eexists. split; [reflexivity|].
        apply (finish_vec hs hs' ho _ ko2 VSamples j nS nT lv2 ov2); auto.
        destruct Hg2 as [_ [_ Hl2]]. split; [exact Hl2|]. intros p Hp. rewrite <- Hd2 by exact Hp.
        rewrite den_k_good by exact vx_okV0. reflexivity.
    - (* ('vector','samples') *)
      cbn [cls_eqb]. eexists. split; [reflexivity|].
      apply (finish_vec hs hs' ho _ ko2 VSamples j nS nT lv ov); auto.
      apply repr_self. exact Hgs.
  Qed.

  (** * Non-slice spatial axis: keep the key iff both sides agree everywhere *)
  Lemma repr_eq_iff hs ho ks1 ko2 c lv ov :
    hdr_ok hs -> dims ho = dims hs -> repr hs ks1 c lv -> repr ho ko2 c ov ->
    (lv = ov <-> forall p, in_dims (dims hs) p -> den_k hs ks1 p = den_k ho ko2 p).
  Proof.
    intros Hh Hd [Hl1 Hn1] [Hl2 Hn2]. rewrite Hd in Hl2, Hn2. split.
    - intros <- p Hp. rewrite <- Hn1, <- Hn2 by exact Hp. reflexivity.
    - intros H. apply (list_eq_nth lv ov vnone); [congruence|].
      intros i Hi. rewrite Hl1 in Hi.
      destruct (dims hs) as [[nS nT] nV] eqn:Ed.
      destruct (cidx_onto (nS, nT, nV) c i (dims_pos hs _ _ _ Hh Ed) Hi) as [p [Hp <-]].
      rewrite Hn1, Hn2 by exact Hp. apply H. exact Hp.
  Qed.

  Lemma insert_non_slice_k_den hs ho c1 lv ko2 :
    hdr_ok hs -> hdr_ok ho -> dims ho = dims hs -> sdim ho = sdim hs ->
    (forall c, class_ok (shape ho) c = class_ok (shape hs) c) ->
    good_k hs (Some (c1, lv)) -> good_k ho ko2 -> widens (kst_class ko2) c1 ->
    ((forall p, in_dims (dims hs) p -> den_k hs (Some (c1, lv)) p = den_k ho ko2 p) /\
     insert_non_slice_k veqb vnone hs ho (Some (c1, lv)) ko2 = Ok (Some (c1, lv))) \/
    (~ (forall p, in_dims (dims hs) p -> den_k hs (Some (c1, lv)) p = den_k ho ko2 p) /\
     insert_non_slice_k veqb vnone hs ho (Some (c1, lv)) ko2 = Ok None).
  Proof.
    intros Hhs Hho Hd Hsd Hoko Hgs Hgo Hw. pose proof Hgs as [Hok1 [Hsl1 Hlen1]].
    assert (Hok1o : class_ok (shape ho) c1 = true) by (rewrite Hoko; exact Hok1).
    assert (Hslo : is_slices c1 = true -> sdim ho <> None) by (rewrite Hsd; exact Hsl1).
    unfold insert_non_slice_k. rewrite (visible_good _ _ Hgs).
    destruct (changed_class_ok vnone ho ko2 c1 (sdim hs) Hho Hgo Hok1o Hslo Hw) as [ov Eov].
    rewrite Eov. cbn [bind].
    pose proof (changed_class_den vnone ho ko2 c1 (sdim hs) ov Hho Hgo Hok1o Hslo Eov) as Hro.
    pose proof (repr_eq_iff hs ho _ ko2 c1 lv ov Hhs Hd (repr_self _ _ _ Hgs) Hro) as Hiff.
    destruct (list_eqb_spec veqb veqb_spec lv ov) as [Heq|Hne].
    - left. split; [apply Hiff; exact Heq | reflexivity].
    - right. split; [intros H; apply Hne; apply Hiff; exact H | reflexivity].
  Qed.
End WithV.
