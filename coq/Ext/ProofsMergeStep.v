(** C03, one merge step: [reclassify_k] and the three insertion routines of [_insert], each in an abstract
    "step context" (what the headers of self / other / the grown self have to satisfy); the contexts are
    discharged for the headers that [from_sequence] really builds in Ext/ProofsMergeFrame.v. *)
From Coq Require Import List Bool Arith Lia.
From DV Require Import Common.Res Common.Str Ext.Types Ext.Classes Ext.Seq Ext.Model Ext.Spec Ext.TableFacts
     Ext.ValidFacts Ext.ProofsMergeSeq Ext.ProofsMergeDen.
Import ListNotations.
Local Open Scope nat_scope.

(** * The widening order, explicitly *)

Definition pres (c : cls) : list cls :=
  match c with
  | GConst => [VSamples; TSamples; TSlices; VSlices; GSlices]
  | VSamples => [TSamples; GSlices]
  | TSamples => [GSlices]
  | TSlices => [VSlices; GSlices]
  | VSlices => [GSlices]
  | GSlices => []
  end.

Lemma preserving_Some c : preserving (Some c) = Some (pres c).
Proof. destruct c; vm_compute; reflexivity. Qed.

Lemma allowedb_Some c new : allowedb (Some c) new = mem_cls new (pres c).
Proof. unfold allowedb. rewrite preserving_Some. reflexivity. Qed.

Lemma allowed_to_gslices c : c <> GSlices -> allowedb (Some c) GSlices = true.
Proof. rewrite allowedb_Some. destruct c; intros H; try reflexivity. congruence. Qed.

Lemma allowed_trans a b c : allowedb (Some a) b = true -> allowedb (Some b) c = true -> allowedb (Some a) c = true.
Proof. rewrite !allowedb_Some. destruct a, b, c; cbn; intros H1 H2; try reflexivity; discriminate. Qed.

Lemma widens_trans oa b c : widens oa b -> widens (Some b) c -> widens oa c.
Proof.
  intros [H1|H1] [H2|H2].
  - injection H2 as ->. left; exact H1.
  - subst oa. right; exact H2.
  - injection H2 as ->. right; exact H1.
  - destruct oa as [a|]; [right; eapply allowed_trans; eassumption | right; apply allowed_from_none].
Qed.

Lemma widens_gslices oc : widens oc GSlices.
Proof.
  destruct oc as [c|]; [|right; apply allowed_from_none].
  destruct (cls_eqb_spec c GSlices) as [->|Hn]; [left; reflexivity | right; apply allowed_to_gslices; exact Hn].
Qed.

Lemma widens_const_inv oc : widens oc GConst -> oc = None \/ oc = Some GConst.
Proof.
  intros [H|H]; [right; exact H|]. destruct oc as [c|]; [|left; reflexivity].
  rewrite allowedb_Some in H. destruct c; discriminate H.
Qed.

(** [c] is at least [oc] in the widening order *)
Definition geb (c oc : cls) : bool := cls_eqb c oc || mem_cls c (pres oc).

Lemma geb_widens c oc : geb c oc = true -> widens (Some oc) c.
Proof.
  unfold geb. intros H. apply orb_true_iff in H as [H|H].
  - apply cls_eqb_eq in H. subst. left; reflexivity.
  - right. rewrite allowedb_Some. exact H.
Qed.

(** where [_insert] moves a key of class [c] when the other extension has it in class [oc] *)
Definition rtarget (c oc : cls) : cls := if mem_cls oc (pres c) then oc else GSlices.

Lemma rtarget_widens c oc : geb c oc = false -> widens (Some c) (rtarget c oc) /\ widens (Some oc) (rtarget c oc).
Proof.
  unfold geb, rtarget. destruct c, oc; cbn; intros H; try discriminate H; split;
    solve [left; reflexivity | right; reflexivity].
Qed.

(** the incomparable pairs always involve a per-slice class *)
Lemma rtarget_slices c oc :
  geb c oc = false -> is_slices (rtarget c oc) = true -> is_slices c = true \/ is_slices oc = true.
Proof. unfold geb, rtarget. destruct c, oc; cbn; intros H1 H2; try discriminate; auto. Qed.

(** * Header facts (any well-formed header) *)

Lemma class_ok_gslices h : hdr_ok h -> class_ok (shape h) GSlices = true.
Proof.
  intros [Hn _]. unfold class_ok, ndim in *. destruct (length (shape h)) as [|[|[|[|[|[|n]]]]]]; try lia; reflexivity.
Qed.

Lemma n_slices_dims h nS nT nV : hdr_ok h -> sdim h <> None -> dims h = (nS, nT, nV) -> n_slices h = Some nS.
Proof.
  intros [Hn [_ Hsd]] Hs Hd. unfold n_slices, dims, ndim in *. destruct (sdim h) as [d|]; [|congruence].
  specialize (Hsd d eq_refl). injection Hd as <- _ _. f_equal. apply nth_indep. lia.
Qed.

Lemma prod_skip3 h nS nT nV : hdr_ok h -> dims h = (nS, nT, nV) -> prod_list (skipn 3 (shape h)) = nT * nV.
Proof.
  intros [Hn _] Hd. unfold dims, ndim in *. injection Hd as _ <- <-.
  destruct (shape h) as [|a [|b [|c [|t [|v [|x r]]]]]]; cbn [length] in Hn; try lia;
    cbn [skipn prod_list fold_left nth]; lia.
Qed.

Lemma no_tslices_T1 h nS nT nV : hdr_ok h -> dims h = (nS, nT, nV) -> class_ok (shape h) TSlices = false -> nT = 1.
Proof.
  intros [Hn _] Hd. unfold dims, ndim, class_ok in *. injection Hd as _ <- _.
  destruct (shape h) as [|a [|b [|c [|t [|v [|x r]]]]]]; cbn [length] in Hn; try lia;
    cbn [length base_of nth]; try discriminate; try reflexivity.
  destruct (Nat.eqb_spec t 1); [auto | discriminate].
Qed.

Lemma no_vslices_V1 h nS nT nV : hdr_ok h -> dims h = (nS, nT, nV) -> class_ok (shape h) VSlices = false -> nV = 1.
Proof.
  intros [Hn _] Hd. unfold dims, ndim, class_ok in *. injection Hd as _ _ <-.
  destruct (shape h) as [|a [|b [|c [|t [|v [|x r]]]]]]; cbn [length] in Hn; try lia;
    cbn [length base_of nth]; try discriminate; reflexivity.
Qed.

(** * Two list laws: append along the slowest axis, interleave along a faster one *)

Lemma app_block_nth {A} (lv ov : list A) K j x low (d : A) :
  length lv = K * j -> low < K ->
  nth (low + K * x) (lv ++ ov) d = if x <? j then nth (low + K * x) lv d else nth (low + K * (x - j)) ov d.
Proof.
  intros Hl Hlow. destruct (Nat.ltb_spec x j) as [Hlt|Hge].
  - apply app_nth1. nia.
  - rewrite app_nth2 by nia. f_equal. nia.
Qed.

Section WithV.
  Context {V : Type} (veqb : V -> V -> bool) (vnone : V).
  Hypothesis veqb_spec : forall a b, reflect (a = b) (veqb a b).

  Notation den_k := (den_k vnone).

  (** other's per-slice meta data is ignored when the slice normals differ *)
  Definition drop_k (u : bool) (s : kst V) : kst V :=
    match s with
    | Some (c, vs) => if is_slices c && negb u then None else Some (c, vs)
    | None => None
    end.

  Lemma drop_k_good h u s : good_k h s -> good_k h (drop_k u s).
  Proof. destruct s as [[c vs]|]; [|trivial]. cbn [drop_k]. destruct (is_slices c && negb u); [trivial | auto]. Qed.

  Lemma drop_k_nondeg h u s : nondeg_k h s -> nondeg_k h (drop_k u s).
  Proof. destruct s as [[c vs]|]; [|trivial]. cbn [drop_k]. destruct (is_slices c && negb u); [trivial | auto]. Qed.

  (** * [reclassify_k] *)

  Lemma reclassify_k_eq hs ks oc :
    good_k hs ks ->
    reclassify_k vnone hs ks oc =
    match kst_class ks with
    | Some c => if geb c oc then Ok ks else change_class_k vnone hs ks (rtarget c oc)
    | None => change_class_k vnone hs ks oc
    end.
  Proof.
    intros Hg. unfold reclassify_k. rewrite (visible_good _ _ Hg).
    destruct ks as [[c vs]|]; cbn [kst_class ocls_eqb].
    - rewrite !preserving_Some. unfold geb, rtarget.
      destruct c, oc; cbn [cls_eqb pres mem_cls existsb orb negb find base_of has_base andb];
        rewrite ?andb_false_r; cbn [find mem_cls existsb cls_eqb orb andb has_base base_of]; reflexivity.
    - rewrite preserving_None, preserving_Some. replace (mem_cls oc _) with true by (destruct oc; reflexivity).
      reflexivity.
  Qed.

  Lemma reclassify_k_den hs ks oc ks1 :
    hdr_ok hs -> good_k hs ks ->
    class_ok (shape hs) oc = true -> (is_slices oc = true -> sdim hs <> None) ->
    reclassify_k vnone hs ks oc = Ok ks1 ->
    good_k hs ks1 /\ (forall p, in_dims (dims hs) p -> den_k hs ks1 p = den_k hs ks p) /\
    exists c1 vs1, ks1 = Some (c1, vs1) /\ widens (Some oc) c1 /\ widens (kst_class ks) c1.
  Proof.
    intros Hh Hg Hok Hsl Hr. rewrite (reclassify_k_eq _ _ _ Hg) in Hr.
    destruct ks as [[c vs]|]; cbn [kst_class] in Hr.
    - destruct (geb c oc) eqn:Eg.
      + injection Hr as <-. split; [exact Hg|]. split; [reflexivity|].
        exists c, vs. split; [reflexivity|]. split; [apply geb_widens; exact Eg | left; reflexivity].
      + destruct (rtarget_widens c oc Eg) as [Hw1 Hw2].
        assert (Hok' : class_ok (shape hs) (rtarget c oc) = true).
        { unfold rtarget. destruct (mem_cls oc (pres c)); [exact Hok | apply class_ok_gslices; exact Hh]. }
        assert (Hsl' : is_slices (rtarget c oc) = true -> sdim hs <> None).
        { intros Hs. destruct (rtarget_slices c oc Eg Hs) as [H|H]; [|auto]. destruct Hg as [_ [Hg _]]. auto. }
        destruct (change_class_k_den vnone hs _ _ ks1 Hh Hg Hok' Hsl' Hr) as [[vs1 ->] [Hg1 Hd1]].
        split; [exact Hg1|]. split; [exact Hd1|]. exists (rtarget c oc), vs1. auto.
    - destruct (change_class_k_den vnone hs _ _ ks1 Hh Hg Hok Hsl Hr) as [[vs1 ->] [Hg1 Hd1]].
      split; [exact Hg1|]. split; [exact Hd1|]. exists oc, vs1. split; [reflexivity|].
      split; [left; reflexivity | right; apply allowed_from_none].
  Qed.

  Lemma reclassify_k_ok hs ks oc :
    hdr_ok hs -> good_k hs ks ->
    class_ok (shape hs) oc = true -> (is_slices oc = true -> sdim hs <> None) ->
    has_base hs (base_of oc) = true ->
    exists ks1, reclassify_k vnone hs ks oc = Ok ks1.
  Proof.
    intros Hh Hg Hok Hsl Hb. rewrite (reclassify_k_eq _ _ _ Hg).
    destruct ks as [[c vs]|]; cbn [kst_class].
    - destruct (geb c oc) eqn:Eg; [eauto|].
      destruct (rtarget_widens c oc Eg) as [Hw1 Hw2].
      apply change_class_k_ok; try assumption.
      + unfold rtarget. destruct (mem_cls oc (pres c)); [exact Hok | apply class_ok_gslices; exact Hh].
      + intros Hs. destruct (rtarget_slices c oc Eg Hs) as [H|H]; [|auto]. destruct Hg as [_ [Hg _]]. auto.
      + unfold rtarget. destruct (mem_cls oc (pres c)); [exact Hb | reflexivity].
    - apply change_class_k_ok; try assumption. right; apply allowed_from_none.
  Qed.
End WithV.
