(** C05 with the existence of the pieces PROVED ([get_subset_total], Ext/ProofsTotal.v): splitting never fails on
    the round-trip domain, so split-then-merge and every chain of round trips run to completion and return the
    starting extension.  Discharges the hypothesis "every [get_subset] of the start succeeds" of
    [split_all_ok] / [step_law] / [chain_law] (Ext/ProofsRoundtrip.v). *)
From Coq Require Import List Bool Arith NArith ZArith QArith Lia.
From DV Require Import Common.Res Common.Str Common.Jv Ext.Types Ext.Classes Ext.Seq Ext.Model Ext.Spec Ext.ValidFacts
     Ext.ProofsSimplifyCanon Ext.ProofsSubset Ext.ProofsCanonSubset Ext.ProofsMergeFrame Ext.ProofsMerge
     Ext.ProofsCanonMerge Ext.ProofsUnique Ext.ProofsRoundtrip Ext.ProofsRoundtripEx Ext.ProofsTotal.
Import ListNotations.
Local Open Scope nat_scope.

Section WithV.
  Context {V : Type} (veqb : V -> V -> bool) (vnone : V).
  Hypothesis veqb_spec : forall a b, reflect (a = b) (veqb a b).

  Notation ext := (ext V).
  Notation get_subset := (get_subset veqb vnone).
  Notation from_sequence := (from_sequence veqb vnone).
  Notation split_all := (split_all veqb vnone).
  Notation roundtrip := (roundtrip veqb vnone).
  Notation run_chain := (run_chain veqb vnone).
  Notation canonical := (canonical vnone).
  Notation canonical_mod_none := (canonical_mod_none vnone).
  Notation equiv_mod_none := (equiv_mod_none vnone).
  Notation den := (den vnone).

  (** all pieces along an axis exist: one per index, in order, each with the facts of C04 / C07 *)
  Theorem split_all_total (e : ext) dim :
    valid e -> no_trailing1 (shape (hdr_of e)) = true -> dim < ndim (hdr_of e) ->
    exists ps, split_all e dim = Ok ps /\ length ps = nth dim (shape (hdr_of e)) 0 /\
      forall i d, i < length ps -> get_subset e dim i = Ok (nth i ps d).
  Proof.
    intros Hv Hnt Hdim.
    destruct (split_all_ok veqb vnone e dim) as [ps Hps].
    { intros i Hi. apply (get_subset_total veqb vnone veqb_spec e dim i Hv Hnt Hdim Hi). }
    exists ps. split; [exact Hps|]. unfold ProofsRoundtrip.split_all in Hps.
    destruct (mapM_inv _ _ _ Hps) as [Hl Hn]. rewrite seq_length in Hl, Hn. split; [exact Hl|].
    intros i d Hi. rewrite Hl in Hi. specialize (Hn i 0 d Hi). rewrite seq_nth in Hn by exact Hi. exact Hn.
  Qed.

  (** split then merge, no hypothesis on the pieces: they exist, the merge succeeds and returns the parent *)
  Theorem split_merge_total (e : ext) dim a sd :
    rt_dom e -> canonical e -> hdr_tight (hdr_of e) -> rt_axis e dim ->
    arg_same a (aff (hdr_of e)) -> sd_same sd (sdim (hdr_of e)) ->
    exists ps e', split_all e dim = Ok ps /\ length ps = nth dim (shape (hdr_of e)) 0 /\
                  from_sequence ps dim a sd = Ok e' /\ roundtrip e dim a sd = Ok e' /\
                  ext_equiv e e' /\ rt_dom e' /\ canonical e'.
  Proof.
    intros Hdom Hcan Ht Hax Ha Hsd. pose proof Hdom as [Hv [_ [Hnt _]]]. pose proof Hax as [_ [Hdim _]].
    destruct (split_all_total e dim Hv Hnt Hdim) as [ps [Hps [Hlen _]]].
    destruct (split_merge_strict veqb vnone veqb_spec e dim a sd ps Hdom Hcan Ht Hax Ha Hsd Hps)
      as [e' [Hm [Heq [Hdom' Hcan']]]].
    exists ps, e'. split; [exact Hps|]. split; [exact Hlen|]. split; [exact Hm|].
    split; [unfold ProofsRoundtrip.roundtrip; rewrite Hps; exact Hm|].
    split; [exact Heq|]. split; assumption.
  Qed.

  (** the same for extensions that store all-None keys as the global constant None *)
  Theorem split_merge_mod_none_total (e : ext) dim a sd :
    rt_dom e -> canonical_mod_none e -> rt_axis e dim ->
    arg_same a (aff (hdr_of e)) -> sd_same sd (sdim (hdr_of e)) ->
    exists ps e', split_all e dim = Ok ps /\ from_sequence ps dim a sd = Ok e' /\
      shape (hdr_of e') = shape (hdr_of e) /\ sdim (hdr_of e') = sdim (hdr_of e) /\ aff (hdr_of e') = aff (hdr_of e) /\
      rt_dom e' /\ canonical_mod_none e' /\
      (forall k p, in_dims (dims (hdr_of e)) p -> den e' k p = den e k p) /\
      equiv_mod_none e e'.
  Proof.
    intros Hdom Hcan Hax Ha Hsd. pose proof Hdom as [Hv [_ [Hnt _]]]. pose proof Hax as [_ [Hdim _]].
    destruct (split_all_total e dim Hv Hnt Hdim) as [ps [Hps _]].
    destruct (split_merge_law veqb vnone veqb_spec e dim a sd ps Hdom Hcan Hax Ha Hsd Hps)
      as [e' [Hm [Hsh [Hsd' [Haff [_ [Hdom' [Hcan' [Hden [_ Heq]]]]]]]]]].
    exists ps, e'. repeat (split; [assumption|]). exact Heq.
  Qed.

  (** every chain of round trips over admissible axes runs to completion; every intermediate merged result is the
      starting extension (as an unordered map) and is again in the domain *)
  Theorem chain_total (steps : list step) (e : ext) :
    rt_dom e -> canonical e -> hdr_tight (hdr_of e) ->
    (forall s, In s steps -> rt_axis e (step_dim s)) ->
    exists l, run_chain e steps = Ok l /\ length l = length steps /\
              forall e', In e' l -> ext_equiv e e' /\ rt_dom e' /\ canonical e'.
  Proof.
    intros Hdom Hcan Ht Hax. pose proof Hdom as [Hv [_ [Hnt _]]].
    apply (chain_law veqb vnone veqb_spec steps e Hdom Hcan Ht Hax).
    intros s i Hs Hi. destruct (Hax s Hs) as [_ [Hdim _]].
    apply (get_subset_total veqb vnone veqb_spec e (step_dim s) i Hv Hnt Hdim Hi).
  Qed.
End WithV.

(** * Non-vacuity on [c05_ex] (Ext/ProofsRoundtripEx.v) *)

Lemma ex_split_all_total :
  valid c05_ex /\ no_trailing1 (shape (hdr_of c05_ex)) = true /\
  (exists ps, split_all jv_eqb JNull c05_ex 0 = Ok ps /\ length ps = 2) /\
  (exists ps, split_all jv_eqb JNull c05_ex 1 = Ok ps /\ length ps = 2 /\
              map (fun p => shape (hdr_of p)) ps = [[2; 1; 2; 3; 2]; [2; 1; 2; 3; 2]]) /\
  (exists ps, split_all jv_eqb JNull c05_ex 3 = Ok ps /\ length ps = 3) /\
  (exists ps, split_all jv_eqb JNull c05_ex 4 = Ok ps /\ length ps = 2).
Proof.
  destruct c05_ex_dom as [Hv [_ [Ht _]]]. split; [exact Hv|]. split; [exact Ht|].
  split; [eexists; split; [vm_compute; reflexivity | reflexivity]|].
  split; [eexists; split; [vm_compute; reflexivity | split; reflexivity]|].
  split; eexists; (split; [vm_compute; reflexivity | reflexivity]).
Qed.

Lemma ex_split_merge_total :
  rt_dom c05_ex /\ canonical JNull c05_ex /\ hdr_tight (hdr_of c05_ex) /\ rt_axis c05_ex 3 /\
  arg_same (@None (list (list Q))) (aff (hdr_of c05_ex)) /\ sd_same (Some 1) (sdim (hdr_of c05_ex)) /\
  roundtrip jv_eqb JNull c05_ex 3 None (Some 1) = Ok c05_ex.
Proof.
  split; [exact c05_ex_dom|]. split; [exact c05_ex_canonical|]. split; [exact c05_ex_tight|].
  split; [split; [right; left; reflexivity | split; cbn; auto]|].
  split; [left; reflexivity|]. split; [right; reflexivity|]. vm_compute. reflexivity.
Qed.

Lemma ex_chain_total :
  let steps := [Step 4 true true; Step 1 false false; Step 3 true true; Step 4 false true] in
  rt_dom c05_ex /\ canonical JNull c05_ex /\ hdr_tight (hdr_of c05_ex) /\
  (forall s, In s steps -> rt_axis c05_ex (step_dim s)) /\
  run_chain jv_eqb JNull c05_ex steps = Ok [c05_ex; c05_ex; c05_ex; c05_ex].
Proof.
  cbn zeta. split; [exact c05_ex_dom|]. split; [exact c05_ex_canonical|]. split; [exact c05_ex_tight|].
  split; [|vm_compute; reflexivity].
  intros s [<-|[<-|[<-|[<-|[]]]]]; cbn [step_dim].
  - split; [right; right; reflexivity | split; cbn; auto].
  - split; [left; reflexivity | split; cbn; auto].
  - split; [right; left; reflexivity | split; cbn; auto].
  - split; [right; right; reflexivity | split; cbn; auto].
Qed.
