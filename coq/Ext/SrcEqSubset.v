(** Stage C of the source equality for the extension algebra (first part): DcmMetaExtension._copy_slice, translated in
    state-passing style with two instances (Generated/T_src_state.v: [copy_slice_st]; `self` = the result, changed;
    `other` = the source, read), refines the per-key model Ext.Model.copy_slice_k iterated over the source class
    dictionary in dictionary order. *)
From Coq Require Import List Bool Arith NArith ZArith Lia.
From DV Require Import Common.Res Common.Str Common.Jv Common.PyOps2 Common.PyOps2Dyn Generated.T_classes Generated.T_src_ext
     Generated.T_src_state Ext.Types Ext.Classes Ext.Seq Ext.SeqFacts Ext.Model Ext.TableFacts Ext.SrcEq Ext.SrcEqAlg Ext.SrcEqState.
Import ListNotations.
Local Open Scope nat_scope.

(** * Lists *)

Lemma every_fuel_indep {A} (s : nat) : 1 <= s -> forall (f1 : nat) (l : list A) (f2 : nat),
  length l <= f1 -> length l <= f2 -> every_nth_fuel f1 s l = every_nth_fuel f2 s l.
Proof.
  intros Hs f1. induction f1 as [|fu IH]; intros l f2 H1 H2.
  - destruct l; [destruct f2; reflexivity | cbn in H1; lia].
  - destruct l as [|x r]; [destruct f2; reflexivity|].
    destruct f2 as [|f2']; [cbn in H2; lia|]. cbn [every_nth_fuel]. f_equal.
    assert (Hlen : length (skipn s (x :: r)) <= length r) by (rewrite skipn_length; cbn [length]; lia).
    cbn [length] in H1, H2. apply IH; lia.
Qed.

Lemma every_fuel_enough {A} (s : nat) : 1 <= s -> forall (fuel : nat) (l : list A), length l <= fuel ->
  every_nth_fuel fuel s l = every_nth_fuel (length l) s l.
Proof. intros Hs fuel l Hl. apply every_fuel_indep; [exact Hs | exact Hl | apply Nat.le_refl]. Qed.

Lemma py_every_skip {A} (s idx : nat) (l : list A) : 1 <= s ->
  py_every s (pslice (Some (BPos idx)) None l) = every_nth idx s l.
Proof.
  intros Hs. rewrite pslice_from. unfold py_every, every_nth.
  replace (py_every_fuel (length (skipn idx l)) s (skipn idx l)) with (every_nth_fuel (length (skipn idx l)) s (skipn idx l)).
  - symmetry. apply every_fuel_enough; [exact Hs|]. rewrite skipn_length. lia.
  - generalize (length (skipn idx l)) as fuel. generalize (skipn idx l) as m. intros m fuel. revert m.
    induction fuel as [|fu IH]; intros m; [reflexivity|]. cbn [py_every_fuel every_nth_fuel]. destruct m; [reflexivity|]. rewrite IH. reflexivity.
Qed.

Lemma rep_list_loop {R} (sub : list jv) (n : nat) :
  py_for (py_range 0 n) (@nil jv) (fun _ full => bind (dyn_iter (JArr sub)) (fun t => Ok (Next (full ++ t))))
  = Ok (@Next R _ (rep_list n sub)).
Proof.
  rewrite (py_for_app (py_range 0 n) (fun _ => sub)); [|reflexivity]. cbn [app]. f_equal. f_equal.
  unfold rep_list, py_range. rewrite Nat.sub_0_r. generalize 0 as a. induction n as [|n IH]; intros a; [reflexivity|].
  cbn [seq flat_map repeat concat]. rewrite IH. reflexivity.
Qed.

(** * _copy_slice *)

(** the destination class: the first valid one of the list for the base of the source class *)
Definition slice_dest (hr : hdr) (c : cls) : res cls :=
  match base_of c with
  | BGlobal => match first_valid hr copy_slice_global_dests_c with Some d => Ok d | None => Err ECrash end
  | BVector => match first_valid hr copy_slice_vector_dests_c with Some d => Ok d | None => Err ECrash end
  | BTime => Ok GConst
  end.

(** the values written for one key *)
Definition slice_subset (ns_o : option nat) (dm idx : nat) (vs : list jv) : res (list jv) :=
  bind (match ns_o with Some 0 => Err EValue | Some n => Ok n | None => Ok 1 end) (fun stride =>
  let subset := every_nth idx stride vs in
  if length subset <? dm then
    if length subset =? 0 then Err ECrash else Ok (rep_list (dm / length subset) subset)
  else Ok subset).

Lemma copy_slice_k_unfold (ho hr : hdr) (c : cls) (vs : list jv) (idx : nat) :
  copy_slice_k jv_eqb JNull ho hr c vs idx =
  bind (slice_dest hr c) (fun dest =>
  if negb (has_base hr (base_of dest)) then Err EKey else
  bind (multiplicity hr dest) (fun dm =>
  bind (slice_subset (n_slices ho) dm idx vs) (fun sub => simplify_k jv_eqb JNull hr (Some (dest, sub))))).
Proof.
  unfold copy_slice_k, slice_dest, slice_subset.
  match goal with |- bind ?x _ = _ => destruct x as [dest|] end; [|reflexivity]. cbn [bind].
  destruct (negb (has_base hr (base_of dest))); [reflexivity|].
  destruct (multiplicity hr dest) as [dm|]; [|reflexivity]. cbn [bind].
  destruct (n_slices ho) as [[|n]|]; cbn [bind]; try reflexivity;
    (destruct (_ <? _); [destruct (_ =? 0)|]; reflexivity).
Qed.

(** the whole loop of the model: the source dictionary in its order *)
Fixpoint slice_fold (hr : hdr) (ns_o : option nat) (dest : cls) (dm idx : nat) (d : list (key * list jv)) (f : key -> kst jv)
  : res (key -> kst jv) :=
  match d with
  | [] => Ok f
  | (k, vs) :: r => bind (bind (slice_subset ns_o dm idx vs) (fun sub => simplify_k jv_eqb JNull hr (Some (dest, sub))))
                         (fun s' => slice_fold hr ns_o dest dm idx r (upd f k s'))
  end.

Definition copy_slice_all (hr : hdr) (ns_o : option nat) (c : cls) (idx : nat) (d : list (key * list jv)) (f : key -> kst jv)
  : res (key -> kst jv) :=
  bind (slice_dest hr c) (fun dest =>
  if negb (has_base hr (base_of dest)) then Err EKey else
  bind (multiplicity hr dest) (fun dm => slice_fold hr ns_o dest dm idx d f)).

(** what the content can store faithfully: one value exactly for a constant, a non-degenerate valid class otherwise *)
Definition slice_ok (hr : hdr) (dest : cls) (sub : list jv) : Prop :=
  (length sub = 1 <-> dest = GConst) /\ class_valid hr dest = true /\
  (dest <> GConst -> multiplicity hr dest <> Ok 1) /\ (is_slices dest = true -> n_slices hr <> None).

Lemma upd_upd (f : key -> kst jv) (k : key) (a b : kst jv) (o : list (str * jv)) (h : hdr) :
  Holds o h (upd (upd f k a) k b) -> Holds o h (upd f k b).
Proof.
  apply HoldsW_ext. intros c k' _. unfold stored, upd, key_eqb. destruct (str_eqb k' k); reflexivity.
Qed.

Lemma Holds_fresh_set (o1 : list (str * jv)) (h : hdr) (f : key -> kst jv) (k : key) (d : cls) (vals : list jv) :
  f k = None -> HoldsW o1 h (after_set f k d vals) -> Holds o1 h (upd f k (Some (d, vals))).
Proof.
  intros Hf. apply HoldsW_ext. intros c' k' _. unfold after_set, stored, upd, key_eqb.
  destruct (str_eqb k' k) eqn:E; [|rewrite andb_false_r; reflexivity].
  apply str_eqb_eq in E. subst k'. rewrite andb_true_r, Hf.
  destruct (cls_eqb_spec c' d) as [->|Hn]; [rewrite cls_eqb_refl; reflexivity|].
  destruct (cls_eqb_spec d c') as [Hx|_]; [exfalso; apply Hn; symmetry; exact Hx | reflexivity].
Qed.

Section SliceLoop.
  Variables (hr : hdr) (ns_o : option nat) (dest : cls) (dm idx : nat).
  Hypothesis Hok : ndim_ok hr = true.
  Hypothesis Hbases : bases_ok hr.
  Hypothesis Hbd : has_base hr (base_of dest) = true.

  (** after `dest_dict[key] = values; self._simplify(key)` for a key that the result does not hold yet *)
  Lemma store_simplify (o : list (str * jv)) (f : key -> kst jv) (k : key) (sub : list jv) :
    Holds o hr f -> f k = None -> slice_ok hr dest sub ->
    match simplify_k jv_eqb JNull hr (Some (dest, sub)) with
    | Ok s' => exists o1 b o', dyn_set2 (JObj o) (@fst str str (name_of_cls dest)) (@snd str str (name_of_cls dest)) k (render dest sub) = Ok (JObj o1)
                               /\ simplify_run hr o1 k = Ok (b, JObj o') /\ Holds o' hr (upd f k s')
    | Err e => exists o1, dyn_set2 (JObj o) (@fst str str (name_of_cls dest)) (@snd str str (name_of_cls dest)) k (render dest sub) = Ok (JObj o1)
                          /\ simplify_run hr o1 k = Err e
    end.
  Proof.
    intros HH Hf [Hlen [Hcv [Hnd Hsl]]].
    destruct (HoldsW_setkey o hr (stored f) dest k (render dest sub) HH Hbd) as [o1 [E1 H1]].
    assert (H1' : Holds o1 hr (upd f k (Some (dest, sub)))) by (apply Holds_fresh_set; [exact Hf | exact H1]).
    set (f1 := upd f k (Some (dest, sub))) in *.
    assert (Hf1 : f1 k = Some (dest, sub)) by (unfold f1, upd, key_eqb; rewrite str_eqb_refl; reflexivity).
    pose proof (simplify_st_ref o1 hr f1 k H1' Hok Hbases) as Hs. rewrite Hf1 in Hs.
    assert (Hvis : visible hr (Some (dest, sub)) = Some (dest, sub)) by (unfold visible; rewrite Hcv; reflexivity).
    specialize (Hs ltac:(unfold kst_storable; rewrite Hvis; destruct dest; try (apply Hnd; discriminate); apply Hlen; reflexivity) Hvis).
    specialize (Hs ltac:(intros c0 vs0 Hx; injection Hx as <- <-; exact Hsl)).
    destruct (simplify_k jv_eqb JNull hr (Some (dest, sub))) as [s'|e].
    - destruct Hs as [b [o' [E2 H2]]]. exists o1, b, o'. split; [exact E1|]. split; [exact E2|]. apply (upd_upd f k (Some (dest, sub))). exact H2.
    - exists o1. split; [exact E1 | exact Hs].
  Qed.

  (** the loop over the source dictionary, for a body that does per key what the code does *)
  Definition key_spec (body : str * jv -> jv -> res (ctl (unit * jv) jv)) : Prop :=
    forall (o : list (str * jv)) (k : key) (vs : list jv),
      (forall sub, slice_subset ns_o dm idx vs = Ok sub -> (length sub = 1 <-> dest = GConst)) ->
      body (k, JArr vs) (JObj o) =
      bind (slice_subset ns_o dm idx vs) (fun sub =>
      bind (dyn_set2 (JObj o) (@fst str str (name_of_cls dest)) (@snd str str (name_of_cls dest)) k (render dest sub)) (fun st1 =>
      bind (simplify_st classifications (shape hr) (n_slices hr) (okeys const_tests) (okeys repeat_tests) st1 k) (fun p => Ok (Next (snd p))))).

  Lemma slice_loop (body : str * jv -> jv -> res (ctl (unit * jv) jv)) (d : list (key * list jv)) :
    key_spec body -> forall (o : list (str * jv)) (f : key -> kst jv),
    Holds o hr f -> NoDup (map fst d) -> (forall k, In k (map fst d) -> f k = None) ->
    (forall k vs sub, In (k, vs) d -> slice_subset ns_o dm idx vs = Ok sub -> slice_ok hr dest sub) ->
    match slice_fold hr ns_o dest dm idx d f with
    | Ok f' => exists o', py_for (map (fun kv => (fst kv, JArr (snd kv))) d) (JObj o) body = Ok (Next (JObj o')) /\ Holds o' hr f'
    | Err e => py_for (map (fun kv => (fst kv, JArr (snd kv))) d) (JObj o) body = Err e
    end.
  Proof.
    intros Hb. induction d as [|[k vs] r IH]; intros o f HH Hnd Hfresh Hgood.
    - cbn [slice_fold map py_for]. exists o. split; [reflexivity | exact HH].
    - cbn [slice_fold map py_for fst snd].
      rewrite Hb by (intros sub Hs; exact (proj1 (Hgood k vs sub (or_introl eq_refl) Hs))).
      destruct (slice_subset ns_o dm idx vs) as [sub|e] eqn:Esub; [|reflexivity]. cbn [bind].
      assert (Hfk : f k = None) by (apply Hfresh; left; reflexivity).
      pose proof (store_simplify o f k sub HH Hfk (Hgood k vs sub (or_introl eq_refl) Esub)) as Hss.
      destruct (simplify_k jv_eqb JNull hr (Some (dest, sub))) as [s'|e].
      + destruct Hss as [o1 [b [o' [E1 [E2 H2]]]]]. rewrite E1. cbn [bind]. unfold simplify_run in E2. rewrite E2. cbn [bind snd].
        inversion Hnd as [|? ? Hni Hnd']; subst.
        refine (IH o' (upd f k s') H2 Hnd' _ _).
        * intros k' Hk'. unfold upd, key_eqb. destruct (str_eqb k' k) eqn:E.
          -- apply str_eqb_eq in E. subst k'. contradiction.
          -- apply Hfresh. right. exact Hk'.
        * intros k' vs' sub' Hin Hs. apply (Hgood k' vs' sub'); [right; exact Hin | exact Hs].
      + destruct Hss as [o1 [E1 E2]]. rewrite E1. cbn [bind]. unfold simplify_run in E2. rewrite E2. reflexivity.
  Qed.
End SliceLoop.

(** the search of the destination class: `for classes in (...): if classes in self.get_valid_classes(): dest_class = classes; break` *)
Lemma dest_loop {R} (hr : hdr) (l : list cls) : ndim_ok hr = true ->
  py_for_b (map name_of_cls l) (@None (str * str))
    (fun classes dest_class__o =>
       bind (get_valid_classes_src classifications (shape hr)) (fun t =>
       if py_in (py_pair_eqb str_eqb str_eqb) classes t then Ok (BrkB (Some classes)) else Ok (NextB dest_class__o)))
  = Ok (match first_valid hr l with Some d => @BrkB R _ (Some (name_of_cls d)) | None => NextB None end).
Proof.
  intros Hok. unfold first_valid.
  match goal with |- py_for_b _ _ ?b = _ => set (body := b) end.
  assert (Hb : forall d s, body (name_of_cls d) s = Ok (if class_valid hr d then BrkB (Some (name_of_cls d)) else NextB s)).
  { intros d s. unfold body. rewrite get_valid_classes_src_eq, Hok. cbn [bind]. rewrite py_in_names. fold (class_valid hr d).
    destruct (class_valid hr d); reflexivity. }
  clearbody body. induction l as [|d r IH]; [reflexivity|].
  cbn [map py_for_b find]. rewrite Hb. destruct (class_valid hr d); cbn [bind]; [reflexivity | exact IH].
Qed.

Lemma global_dests_names : [([116; 105; 109; 101]%N, [115; 97; 109; 112; 108; 101; 115]%N);
                            ([118; 101; 99; 116; 111; 114]%N, [115; 97; 109; 112; 108; 101; 115]%N);
                            ([103; 108; 111; 98; 97; 108]%N, [99; 111; 110; 115; 116]%N)] = map name_of_cls copy_slice_global_dests_c.
Proof. reflexivity. Qed.
Lemma vector_dests_names : [([116; 105; 109; 101]%N, [115; 97; 109; 112; 108; 101; 115]%N);
                            ([103; 108; 111; 98; 97; 108]%N, [99; 111; 110; 115; 116]%N)] = map name_of_cls copy_slice_vector_dests_c.
Proof. reflexivity. Qed.

(** the body of the loop over the source dictionary, as the translation writes it (the main theorem checks by conversion
    that this IS the generated body) *)
Local Open Scope res_scope.
Definition slice_body (hr : hdr) (stride : option nat) (dcn : (str * str)%type) (dm idx : nat)
  : str * jv -> jv -> res (ctl (unit * jv) jv) :=
  fun '(key, vals) st__ =>
          do t__57 <- dyn_slice_step (Some (BPos idx)) None (match stride with Some n__ => n__ | None => 1%nat end) vals;
          let subset_vals := t__57 in
          do t__58 <- dyn_len subset_vals;
          if (Nat.ltb t__58 dm) then
            let full_vals := (@nil _) in
            do t__59 <- dyn_len subset_vals;
            do t__60 <- py_floordiv dm t__59;
            do c__62 <- py_for (py_range 0 t__60) full_vals (fun val_idx full_vals =>
                do t__61 <- dyn_iter subset_vals;
                let full_vals := (full_vals ++ t__61) in
                Ok (Next full_vals)
              );
            match c__62 with
            | Ret rv__66 => Ok (Ret rv__66)
            | Next full_vals =>
              let subset_vals := full_vals in
              if (Nat.eqb (List.length subset_vals) 1%nat) then
                do t__63 <- py_index subset_vals (BPos 0%nat);
                let subset_vals := t__63 in
                do st__ <- dyn_set2 st__ (fst dcn) (snd dcn) key subset_vals;
                do p__64 <- simplify_st classifications (shape hr) (n_slices hr) (okeys const_tests) (okeys repeat_tests) st__ key;
                let st__ := (snd p__64) in
                Ok (Next st__)
              else
                do st__ <- dyn_set2 st__ (fst dcn) (snd dcn) key (JArr subset_vals);
                do p__65 <- simplify_st classifications (shape hr) (n_slices hr) (okeys const_tests) (okeys repeat_tests) st__ key;
                let st__ := (snd p__65) in
                Ok (Next st__)
            end
          else
            do t__67 <- dyn_len subset_vals;
            if (Nat.eqb t__67 1%nat) then
              do t__68 <- dyn_getidx subset_vals (BPos 0%nat);
              let subset_vals := t__68 in
              do st__ <- dyn_set2 st__ (fst dcn) (snd dcn) key subset_vals;
              do p__69 <- simplify_st classifications (shape hr) (n_slices hr) (okeys const_tests) (okeys repeat_tests) st__ key;
              let st__ := (snd p__69) in
              Ok (Next st__)
            else
              do st__ <- dyn_set2 st__ (fst dcn) (snd dcn) key subset_vals;
              do p__70 <- simplify_st classifications (shape hr) (n_slices hr) (okeys const_tests) (okeys repeat_tests) st__ key;
              let st__ := (snd p__70) in
              Ok (Next st__).
Local Close Scope res_scope.

Lemma render_one (dest : cls) (v : jv) : dest = GConst -> render dest [v] = v.
Proof. intros ->. reflexivity. Qed.
Lemma render_many (dest : cls) (sub : list jv) : dest <> GConst -> render dest sub = JArr sub.
Proof. intros H. destruct dest; try reflexivity. contradiction. Qed.

Lemma slice_body_spec (hr : hdr) (ns_o : option nat) (dest : cls) (dm idx : nat) :
  key_spec hr ns_o dest dm idx (slice_body hr ns_o (name_of_cls dest) dm idx).
Proof.
  intros o k vs Hl. unfold slice_body. cbv beta iota. unfold slice_subset in *.
  destruct ns_o as [[|n]|]; cbn [dyn_slice_step Nat.eqb bind]; try reflexivity.
  - (* stride n+1 *)
    rewrite py_every_skip by lia. cbv zeta. cbn [dyn_len bind]. cbn [bind] in Hl.
    set (subset := every_nth idx (S n) vs) in *.
    destruct (Nat.ltb (length subset) dm) eqn:Elt.
    + cbn [dyn_len bind]. unfold py_floordiv. destruct (Nat.eqb (length subset) 0) eqn:E0; [reflexivity|].
      cbn [bind]. rewrite rep_list_loop. cbn [bind]. cbv zeta.
      set (full := rep_list (dm / length subset) subset) in *.
      specialize (Hl full eq_refl).
      destruct (Nat.eqb (length full) 1) eqn:E1.
      * apply Nat.eqb_eq in E1. pose proof (proj1 Hl E1) as Hd.
        destruct full as [|v [|w r]]; try discriminate E1. cbn [PyOps2.py_index nth_error bind]. rewrite (render_one dest v Hd). reflexivity.
      * apply Nat.eqb_neq in E1. rewrite (render_many dest full); [reflexivity|]. intros Hd. apply E1. apply (proj2 Hl). exact Hd.
    + cbn [dyn_len bind]. cbv zeta. specialize (Hl subset eq_refl).
      destruct (Nat.eqb (length subset) 1) eqn:E1.
      * apply Nat.eqb_eq in E1. pose proof (proj1 Hl E1) as Hd.
        destruct subset as [|v [|w r]]; try discriminate E1. cbn [dyn_getidx PyOps2.py_index nth_error bind]. rewrite (render_one dest v Hd). reflexivity.
      * apply Nat.eqb_neq in E1. rewrite (render_many dest subset); [reflexivity|]. intros Hd. apply E1. apply (proj2 Hl). exact Hd.
  - (* no slice dimension on the source: stride 1 *)
    rewrite py_every_skip by lia. cbv zeta. cbn [dyn_len bind]. cbn [bind] in Hl.
    set (subset := every_nth idx 1 vs) in *.
    destruct (Nat.ltb (length subset) dm) eqn:Elt.
    + cbn [dyn_len bind]. unfold py_floordiv. destruct (Nat.eqb (length subset) 0) eqn:E0; [reflexivity|].
      cbn [bind]. rewrite rep_list_loop. cbn [bind]. cbv zeta.
      set (full := rep_list (dm / length subset) subset) in *.
      specialize (Hl full eq_refl).
      destruct (Nat.eqb (length full) 1) eqn:E1.
      * apply Nat.eqb_eq in E1. pose proof (proj1 Hl E1) as Hd.
        destruct full as [|v [|w r]]; try discriminate E1. cbn [PyOps2.py_index nth_error bind]. rewrite (render_one dest v Hd). reflexivity.
      * apply Nat.eqb_neq in E1. rewrite (render_many dest full); [reflexivity|]. intros Hd. apply E1. apply (proj2 Hl). exact Hd.
    + cbn [dyn_len bind]. cbv zeta. specialize (Hl subset eq_refl).
      destruct (Nat.eqb (length subset) 1) eqn:E1.
      * apply Nat.eqb_eq in E1. pose proof (proj1 Hl E1) as Hd.
        destruct subset as [|v [|w r]]; try discriminate E1. cbn [dyn_getidx PyOps2.py_index nth_error bind]. rewrite (render_one dest v Hd). reflexivity.
      * apply Nat.eqb_neq in E1. rewrite (render_many dest subset); [reflexivity|]. intros Hd. apply E1. apply (proj2 Hl). exact Hd.
Qed.

(** what follows the choice of the destination class, as the translation writes it *)
Local Open Scope res_scope.
Definition slice_tail (hr : hdr) (ns_o : option nat) (ost : jv) (srcn destn : (str * str)%type) (idx : nat) (st : jv) : res (unit * jv) :=
  do t1 <- get_class_dict_st ost srcn;
  do t2 <- get_class_dict_st st destn;
  do dm <- get_multiplicity_src classifications (shape hr) (n_slices hr) destn;
  do items <- dyn_items t1;
  do c <- py_for items st (slice_body hr ns_o destn dm idx);
  match c with Ret rv => Ok rv | Next st' => Ok (tt, st') end.
Local Close Scope res_scope.

Lemma get_class_dict_st_nobase (o : list (str * jv)) (h : hdr) (g : cls -> key -> option jv) (c : cls) :
  HoldsW o h g -> has_base h (base_of c) = false -> get_class_dict_st (JObj o) (name_of_cls c) = Err EKey.
Proof.
  intros HH Hb. unfold get_class_dict_st. cbn [name_of_cls]. cbv iota beta. cbn [dyn_getitem].
  rewrite (hw_nobase _ _ _ HH _ Hb). reflexivity.
Qed.

Lemma slice_tail_ref (o : list (str * jv)) (hr : hdr) (f : key -> kst jv) (ns_o : option nat) (ost : jv) (c dest : cls) (idx : nat)
      (d : list (key * list jv)) :
  Holds o hr f -> ndim_ok hr = true -> bases_ok hr ->
  get_class_dict_st ost (name_of_cls c) = Ok (JObj (map (fun kv => (fst kv, JArr (snd kv))) d)) ->
  NoDup (map fst d) -> (forall k, In k (map fst d) -> f k = None) ->
  (forall dm k vs sub, multiplicity hr dest = Ok dm -> In (k, vs) d -> slice_subset ns_o dm idx vs = Ok sub -> slice_ok hr dest sub) ->
  match (if negb (has_base hr (base_of dest)) then Err EKey
         else bind (multiplicity hr dest) (fun dm => slice_fold hr ns_o dest dm idx d f)) with
  | Ok f' => exists o', slice_tail hr ns_o ost (name_of_cls c) (name_of_cls dest) idx (JObj o) = Ok (tt, JObj o') /\ Holds o' hr f'
  | Err e => slice_tail hr ns_o ost (name_of_cls c) (name_of_cls dest) idx (JObj o) = Err e
  end.
Proof.
  intros HH Hok Hbases Hsrc Hnd Hfresh Hgood. unfold slice_tail. rewrite Hsrc. cbn [bind].
  destruct (has_base hr (base_of dest)) eqn:Hbd; cbn [negb].
  2:{ rewrite (get_class_dict_st_nobase o hr _ dest HH Hbd). reflexivity. }
  destruct (hw_dict _ _ _ HH dest Hbd) as [dd [Hdd _]].
  rewrite (get_class_dict_st_ok o dest dd Hdd). cbn [bind]. rewrite get_multiplicity_src_eq.
  destruct (multiplicity hr dest) as [dm|e] eqn:Em; [|reflexivity]. cbn [bind dyn_items].
  pose proof (slice_loop hr ns_o dest dm idx Hok Hbases Hbd _ d (slice_body_spec hr ns_o dest dm idx) o f HH Hnd Hfresh
                         (fun k vs sub => Hgood dm k vs sub eq_refl)) as Hloop.
  destruct (slice_fold hr ns_o dest dm idx d f) as [f'|e].
  - destruct Hloop as [o' [E H]]. exists o'. split; [|exact H]. unfold key in *. rewrite E. reflexivity.
  - unfold key in *. rewrite Hloop. reflexivity.
Qed.

Theorem copy_slice_st_ref (o : list (str * jv)) (hr : hdr) (f : key -> kst jv) (ns_o : option nat) (ost : jv) (c : cls) (idx : nat)
        (d : list (key * list jv)) :
  Holds o hr f -> ndim_ok hr = true -> bases_ok hr ->
  get_class_dict_st ost (name_of_cls c) = Ok (JObj (map (fun kv => (fst kv, JArr (snd kv))) d)) ->
  NoDup (map fst d) -> (forall k, In k (map fst d) -> f k = None) ->
  (forall dest dm k vs sub, slice_dest hr c = Ok dest -> multiplicity hr dest = Ok dm -> In (k, vs) d ->
                            slice_subset ns_o dm idx vs = Ok sub -> slice_ok hr dest sub) ->
  match copy_slice_all hr ns_o c idx d f with
  | Ok f' => exists o', copy_slice_st classifications (shape hr) (n_slices hr) (okeys const_tests) (okeys repeat_tests) (JObj o)
                                      ns_o ost (name_of_cls c) idx = Ok (tt, JObj o') /\ Holds o' hr f'
  | Err e => copy_slice_st classifications (shape hr) (n_slices hr) (okeys const_tests) (okeys repeat_tests) (JObj o)
                           ns_o ost (name_of_cls c) idx = Err e
  end.
Proof.
  intros HH Hok Hbases Hsrc Hnd Hfresh Hgood. unfold copy_slice_all.
  assert (Htail : forall dest, slice_dest hr c = Ok dest ->
     match (if negb (has_base hr (base_of dest)) then Err EKey
            else bind (multiplicity hr dest) (fun dm => slice_fold hr ns_o dest dm idx d f)) with
     | Ok f' => exists o', slice_tail hr ns_o ost (name_of_cls c) (name_of_cls dest) idx (JObj o) = Ok (tt, JObj o') /\ Holds o' hr f'
     | Err e => slice_tail hr ns_o ost (name_of_cls c) (name_of_cls dest) idx (JObj o) = Err e
     end).
  { intros dest Hd. apply (slice_tail_ref o hr f ns_o ost c dest idx d HH Hok Hbases Hsrc Hnd Hfresh).
    intros dm k vs sub. apply Hgood. exact Hd. }
  unfold slice_dest in *.
  destruct (base_of c) eqn:Ebase.
  - (* global: search among time samples / vector samples / global const *)
    assert (Hcode : copy_slice_st classifications (shape hr) (n_slices hr) (okeys const_tests) (okeys repeat_tests) (JObj o)
                                  ns_o ost (name_of_cls c) idx
                    = match first_valid hr copy_slice_global_dests_c with
                      | Some dest => slice_tail hr ns_o ost (name_of_cls c) (name_of_cls dest) idx (JObj o)
                      | None => bind (get_class_dict_st ost (name_of_cls c)) (fun _ => Err ECrash)
                      end).
    { unfold copy_slice_st. destruct c; try discriminate Ebase;
        cbn [name_of_cls base_of sub_of name_of_base fst str_eqb s_global s_time s_vector N.eqb Pos.eqb andb];
        rewrite global_dests_names, (dest_loop hr _ Hok); destruct (first_valid hr copy_slice_global_dests_c); reflexivity. }
    rewrite Hcode. destruct (first_valid hr copy_slice_global_dests_c) as [dest|]; cbn [bind].
    + exact (Htail dest eq_refl).
    + rewrite Hsrc. reflexivity.
  - (* time: global const *)
    assert (Hcode : copy_slice_st classifications (shape hr) (n_slices hr) (okeys const_tests) (okeys repeat_tests) (JObj o)
                                  ns_o ost (name_of_cls c) idx
                    = slice_tail hr ns_o ost (name_of_cls c) (name_of_cls GConst) idx (JObj o)).
    { unfold copy_slice_st. destruct c; try discriminate Ebase; reflexivity. }
    rewrite Hcode. cbn [bind]. exact (Htail GConst eq_refl).
  - (* vector: search among time samples / global const *)
    assert (Hcode : copy_slice_st classifications (shape hr) (n_slices hr) (okeys const_tests) (okeys repeat_tests) (JObj o)
                                  ns_o ost (name_of_cls c) idx
                    = match first_valid hr copy_slice_vector_dests_c with
                      | Some dest => slice_tail hr ns_o ost (name_of_cls c) (name_of_cls dest) idx (JObj o)
                      | None => bind (get_class_dict_st ost (name_of_cls c)) (fun _ => Err ECrash)
                      end).
    { unfold copy_slice_st. destruct c; try discriminate Ebase;
        cbn [name_of_cls base_of sub_of name_of_base fst str_eqb s_global s_time s_vector N.eqb Pos.eqb andb];
        rewrite vector_dests_names, (dest_loop hr _ Hok); destruct (first_valid hr copy_slice_vector_dests_c); reflexivity. }
    rewrite Hcode. destruct (first_valid hr copy_slice_vector_dests_c) as [dest|]; cbn [bind].
    + exact (Htail dest eq_refl).
    + rewrite Hsrc. reflexivity.
Qed.
