(** Stage C of the source equality for the extension algebra (third part): DcmMetaExtension.get_subset, translated in
    state-passing style ([get_subset_st]: the result object is built by make_empty and filled class by class), returns, when
    the hand model's key-by-key [get_subset] succeeds, a content that holds exactly the model's result.

    The code is CLASS-major (for each valid class, for each key of its dictionary), the model is KEY-major (map_keys); the
    per-class theorems (SRC_copy_slice, SRC_copy_sample and the plain copies, all instances of [put_loop]) are chained by an
    induction over the valid classes whose invariant says: the result holds the model's per-key result for every key whose
    class was already processed, and nothing else. *)
From Coq Require Import List Bool Arith NArith ZArith Lia.
From DV Require Import Common.Res Common.Str Common.Jv Common.PyOps2 Common.PyOps2Dyn Generated.T_classes Generated.T_src_ext
     Generated.T_src_state Ext.Types Ext.Classes Ext.Seq Ext.SeqFacts Ext.Model Ext.TableFacts Ext.SrcEq Ext.SrcEqAlg Ext.SrcEqState
     Ext.SrcEqSubset Ext.SrcEqSample.
Import ListNotations.
Local Open Scope nat_scope.

(** * The header of the result *)

Lemma list_set_nth_eq {A} (i : nat) (v : A) (l : list A) : list_set_nth i v l = set_nth i v l.
Proof. reflexivity. Qed.

Lemma py_index_last (l : list nat) : l <> [] -> py_index l (BNeg 1) = Ok (last l 0).
Proof.
  intros Hne. destruct (exists_last Hne) as [l' [a ->]]. unfold py_index. rewrite app_length. cbn [length].
  replace ((1 <=? 1) && (1 <=? length l' + 1)) with true by (symmetry; apply andb_true_iff; split; apply Nat.leb_le; lia).
  replace (length l' + 1 - 1) with (length l') by lia. rewrite nth_error_app2 by lia. rewrite Nat.sub_diag. cbn [nth_error].
  rewrite last_last. reflexivity.
Qed.

Lemma pslice_drop_last {A} (l : list A) : pslice None (Some (BNeg 1)) l = removelast l.
Proof.
  unfold pslice, norm_bound. cbn [skipn]. rewrite Nat.sub_0_r. rewrite removelast_firstn_len.
  destruct l as [|x r]; [reflexivity|]. cbn [length]. f_equal. lia.
Qed.

Lemma while_trim (fuel : nat) : forall l : list nat, l <> [] -> length l <= fuel + 3 ->
  py_while fuel l (fun rs => bind (py_index rs (BNeg 1)) (fun t => Ok (andb (Nat.eqb t 1) (Nat.ltb 3 (length rs)))))
           (fun rs => Ok (@Next jv _ (pslice None (Some (BNeg 1)) rs)))
  = Ok (Next (trim_fuel fuel l)).
Proof.
  induction fuel as [|fu IH]; intros l Hne Hlen; cbn [py_while trim_fuel]; rewrite (py_index_last l Hne); cbn [bind].
  - replace (3 <? length l) with false by (symmetry; apply Nat.ltb_ge; lia). rewrite andb_false_r. reflexivity.
  - rewrite andb_comm. destruct ((3 <? length l) && (last l 0 =? 1)) eqn:E; [|reflexivity].
    cbn [bind]. rewrite pslice_drop_last. apply andb_true_iff in E. destruct E as [E _]. apply Nat.ltb_lt in E.
    assert (Hl : length (removelast l) = length l - 1).
    { rewrite removelast_firstn_len, firstn_length. lia. }
    apply IH; [intros H0; rewrite H0 in Hl; cbn in Hl; lia | lia].
Qed.

(** * The loop over the valid classes *)

(** the body of `for src_class in valid_classes` as the translation writes it (the main theorem checks by conversion that this
    IS the generated body) *)
Local Open Scope res_scope.
Definition subset_body (st__ : jv) (self_classifications : list (str * str)) (self_shape : list nat) (self_slice_dim self_n_slices : option nat)
    (result__classifications : list (str * str)) (result__shape : list nat) (result__n_slices : option nat)
    (result___preserving_changes result___const_tests result___repeat_tests : list (option (str * str) * list (str * str)))
    (dim idx : nat) : (str * str) -> jv -> res (ctl jv jv) :=
  fun src_class result__st =>
    if ((py_pair_eqb str_eqb str_eqb) src_class ([103; 108; 111; 98; 97; 108]%N, [99; 111; 110; 115; 116]%N)) then
      do t__5 <- get_class_dict_st st__ src_class;
      do t__6 <- dyn_items t__5;
      do c__7 <- py_for t__6 result__st (fun '(key, val) result__st =>
          do result__st <- dyn_set2 result__st (fst src_class) (snd src_class) key val;
          Ok (Next result__st)
        );
      match c__7 with
      | Ret rv__8 => Ok (Ret rv__8)
      | Next result__st =>
        Ok (Next result__st)
      end
    else
      if ((py_option_eqb Nat.eqb) (Some dim) self_slice_dim) then
        if (negb (str_eqb (snd src_class) [115; 108; 105; 99; 101; 115]%N)) then
          do t__9 <- get_class_dict_st st__ src_class;
          do t__10 <- dyn_items t__9;
          do c__11 <- py_for t__10 result__st (fun '(key, vals) result__st =>
              do result__st <- dyn_set2 result__st (fst src_class) (snd src_class) key vals;
              Ok (Next result__st)
            );
          match c__11 with
          | Ret rv__12 => Ok (Ret rv__12)
          | Next result__st =>
            Ok (Next result__st)
          end
        else
          do p__13 <- copy_slice_st result__classifications result__shape result__n_slices result___const_tests result___repeat_tests result__st self_n_slices st__ src_class idx;
          let result__st := (snd p__13) in
          Ok (Next result__st)
      else
        if (Nat.ltb dim 3%nat) then
          do t__14 <- get_class_dict_st st__ src_class;
          do t__15 <- dyn_items t__14;
          do c__16 <- py_for t__15 result__st (fun '(key, vals) result__st =>
              do result__st <- dyn_set2 result__st (fst src_class) (snd src_class) key vals;
              Ok (Next result__st)
            );
          match c__16 with
          | Ret rv__17 => Ok (Ret rv__17)
          | Next result__st =>
            Ok (Next result__st)
          end
        else
          if (Nat.eqb dim 3%nat) then
            do p__18 <- copy_sample_st result__classifications result__shape result__n_slices result___preserving_changes result___const_tests result___repeat_tests result__st self_classifications self_shape self_n_slices st__ src_class [116; 105; 109; 101]%N idx;
            let result__st := (snd p__18) in
            Ok (Next result__st)
          else
            do p__19 <- copy_sample_st result__classifications result__shape result__n_slices result___preserving_changes result___const_tests result___repeat_tests result__st self_classifications self_shape self_n_slices st__ src_class [118; 101; 99; 116; 111; 114]%N idx;
            let result__st := (snd p__19) in
            Ok (Next result__st).
Local Close Scope res_scope.

(** * Folds of a per-key function over a class dictionary *)

Fixpoint kfold (S : key -> list jv -> res (kst jv)) (d : list (key * list jv)) (f : key -> kst jv) : res (key -> kst jv) :=
  match d with
  | [] => Ok f
  | (k, vs) :: r => bind (S k vs) (fun s' => kfold S r (upd f k s'))
  end.

Lemma fold_plan_kfold (hr : hdr) (P : key -> list jv -> res plan) (d : list (key * list jv)) :
  forall f, fold_plan hr P d f = kfold (fun k vs => bind (P k vs) (run_plan hr)) d f.
Proof.
  induction d as [|[k vs] r IH]; intros f; [reflexivity|]. cbn [fold_plan kfold].
  destruct (bind (P k vs) (run_plan hr)); [|reflexivity]. cbn [bind]. apply IH.
Qed.

Lemma slice_fold_kfold (hr : hdr) (ns_o : option nat) (dest : cls) (dm idx : nat) (d : list (key * list jv)) :
  forall f, slice_fold hr ns_o dest dm idx d f
            = kfold (fun _ vs => bind (slice_subset ns_o dm idx vs) (fun sub => simplify_k jv_eqb JNull hr (Some (dest, sub)))) d f.
Proof.
  induction d as [|[k vs] r IH]; intros f; [reflexivity|]. cbn [slice_fold kfold].
  match goal with |- bind ?x _ = _ => destruct x end; [|reflexivity]. cbn [bind]. apply IH.
Qed.

Lemma kfold_ext (S S' : key -> list jv -> res (kst jv)) (d : list (key * list jv)) :
  (forall k vs, In (k, vs) d -> S k vs = S' k vs) -> forall f, kfold S d f = kfold S' d f.
Proof.
  induction d as [|[k vs] r IH]; intros E f; [reflexivity|]. cbn [kfold]. rewrite (E k vs (or_introl eq_refl)).
  destruct (S' k vs); [|reflexivity]. cbn [bind]. apply IH. intros k0 vs0 Hin. apply E. right. exact Hin.
Qed.

Lemma mem_key_In (k : key) (l : list key) : mem_key k l = true <-> In k l.
Proof.
  unfold mem_key. rewrite existsb_exists. split.
  - intros [x [Hin E]]. unfold key_eqb in E. apply str_eqb_eq in E. subst x. exact Hin.
  - intros Hin. exists k. split; [exact Hin|]. unfold key_eqb. apply str_eqb_refl.
Qed.

Lemma kfold_ok (S : key -> list jv -> res (kst jv)) (R : key -> kst jv) (d : list (key * list jv)) :
  NoDup (map fst d) -> (forall k vs, In (k, vs) d -> S k vs = Ok (R k)) ->
  forall f, exists f', kfold S d f = Ok f' /\ forall k, f' k = if mem_key k (map fst d) then R k else f k.
Proof.
  induction d as [|[k vs] r IH]; intros Hnd HS f.
  - exists f. split; [reflexivity|]. intros k. reflexivity.
  - inversion Hnd as [|? ? Hni Hnd']; subst. cbn [kfold]. rewrite (HS k vs (or_introl eq_refl)). cbn [bind].
    destruct (IH Hnd' (fun k0 vs0 Hin => HS k0 vs0 (or_intror Hin)) (upd f k (R k))) as [f' [E Hf']].
    exists f'. split; [exact E|]. intros k'. rewrite Hf'. cbn [map fst mem_key existsb]. fold (mem_key k' (map fst r)).
    unfold upd. destruct (key_eqb k' k) eqn:Ek.
    + unfold key_eqb in Ek. apply str_eqb_eq in Ek. subst k'. cbn [orb].
      destruct (mem_key k (map fst r)) eqn:Em; [reflexivity|]. reflexivity.
    + cbn [orb]. reflexivity.
Qed.

(** * Facts about valid classes *)

Lemma ndim_cases (h : hdr) : ndim_ok h = true -> ndim h = 3 \/ ndim h = 4 \/ ndim h = 5.
Proof. unfold ndim_ok. intros H. apply andb_true_iff in H. destruct H as [H1 H2]. apply Nat.leb_le in H1. apply Nat.ltb_lt in H2. lia. Qed.

Lemma valid_gconst (h : hdr) : ndim_ok h = true -> class_valid h GConst = true.
Proof.
  intros H. unfold class_valid. destruct (ndim_cases h H) as [E|[E|E]].
  - rewrite (valid_classes_3 h E). reflexivity.
  - rewrite (valid_classes_4 h E). reflexivity.
  - rewrite (valid_classes_5 h E). destruct (_ =? 1); reflexivity.
Qed.

Lemma valid_nonglobal_dim (h : hdr) (c : cls) : class_valid h c = true -> base_of c <> BGlobal -> 4 <= ndim h.
Proof.
  intros Hv Hb. unfold class_valid, valid_classes in Hv.
  destruct (ndim h) as [|[|[|[|n]]]] eqn:E; try (vm_compute in Hv; discriminate Hv); try lia.
  exfalso. destruct c; try (apply Hb; reflexivity); vm_compute in Hv; discriminate Hv.
Qed.

Lemma odim_eq (sd : option nat) (dim : nat) : py_option_eqb Nat.eqb (Some dim) sd = odim_is sd dim.
Proof. destruct sd as [x|]; cbn; [apply Nat.eqb_sym | reflexivity]. Qed.

Lemma sample_dest_ok (hr : hdr) (c : cls) : ndim_ok hr = true ->
  exists dest, sample_dest hr c = Ok dest /\ class_valid hr dest = true.
Proof.
  intros Hok. unfold sample_dest. change copy_sample_dests_c with [VSamples; GConst]. cbn [find rev app].
  pose proof (valid_gconst hr Hok) as Hg.
  destruct (negb (cls_eqb VSamples c) && class_valid hr VSamples) eqn:E1.
  - exists VSamples. split; [reflexivity|]. apply andb_true_iff in E1. apply E1.
  - destruct (negb (cls_eqb GConst c) && class_valid hr GConst); exists GConst; split; try reflexivity; exact Hg.
Qed.

Lemma sample_prelude_ok (h hr : hdr) (dim : nat) (c : cls) :
  ndim_ok hr = true -> class_valid h c = true -> c <> GConst -> odim_is (sdim h) dim = false -> (dim <? 3) = false ->
  subset_prelude h hr dim c = Ok tt ->
  sample_prelude h hr c (if dim =? 3 then BTime else BVector) = Ok tt.
Proof.
  intros Hokr Hv Hc Hod Hd3 Hp. unfold subset_prelude in Hp. rewrite Hod, Hd3 in Hp.
  replace (cls_eqb c GConst) with false in Hp by (destruct c; try reflexivity; exfalso; apply Hc; reflexivity). cbn [orb] in Hp.
  unfold sample_prelude. set (sb := if dim =? 3 then BTime else BVector) in *.
  assert (Hsb : sb <> BGlobal) by (unfold sb; destruct (dim =? 3); discriminate).
  destruct (is_samples c) eqn:Hs.
  - destruct (cbase_eqb (base_of c) sb) eqn:Hb.
    + destruct (sample_dest_ok hr c Hokr) as [dest [Hd Hdv]]. rewrite Hd. cbn [bind]. unfold multiplicity. rewrite Hdv. cbn [negb bind].
      match goal with |- (if ?x then _ else _) = _ => destruct x end; [reflexivity|].
      assert (Hbg : base_of c <> BGlobal) by (intros E; rewrite E in Hb; destruct sb; try discriminate Hb; apply Hsb; reflexivity).
      pose proof (valid_nonglobal_dim h c Hv Hbg) as Hn. unfold shape_at, ndim in *.
      destruct (nth_error (shape h) 3) eqn:E3; [reflexivity|]. apply nth_error_None in E3. lia.
    + cbn [negb andb] in Hp. destruct (cls_eqb c TSamples); [|reflexivity].
      destruct (multiplicity hr c); [reflexivity | discriminate Hp].
  - destruct (cbase_eqb (base_of c) sb); [|reflexivity]. destruct c; try discriminate Hs; try reflexivity.
Qed.

(** * One class *)

Definition ritems (c : cls) (d : list (key * list jv)) : list (str * jv) := map (fun kv => (fst kv, render c (snd kv))) d.

Section Subset.
  Variables (h hr : hdr) (dim idx : nat) (os : obj).
  Hypothesis Hokh : ndim_ok h = true.
  Hypothesis Hokr : ndim_ok hr = true.
  Hypothesis Hbr : bases_ok hr.
  Hypothesis Hdim : dim < ndim h.

  (** the model for one key of class c (subset_k after the visibility test) *)
  Definition step (c : cls) (vs : list jv) : res (kst jv) :=
    if cls_eqb c GConst then put hr c vs
    else if odim_is (sdim h) dim then
      if negb (is_slices c) then put hr c vs else copy_slice_k jv_eqb JNull h hr c vs idx
    else if dim <? 3 then put hr c vs
    else if dim =? 3 then copy_sample_k jv_eqb JNull h hr c vs BTime idx
    else copy_sample_k jv_eqb JNull h hr c vs BVector idx.

  Lemma subset_k_step (c : cls) (vs : list jv) : class_valid h c = true ->
    subset_k jv_eqb JNull h hr dim idx (Some (c, vs)) = step c vs.
  Proof. intros Hv. unfold subset_k, visible, step. rewrite Hv. reflexivity. Qed.

  (** what the refinement theorems of _copy_slice / _copy_sample / _simplify ask of the values of one key *)
  Definition side (c : cls) (vs : list jv) : Prop :=
    c <> GConst ->
    (odim_is (sdim h) dim = true -> is_slices c = true ->
     forall dest dm sub, slice_dest hr c = Ok dest -> multiplicity hr dest = Ok dm ->
                         slice_subset (n_slices h) dm idx vs = Ok sub -> slice_ok hr dest sub) /\
    (odim_is (sdim h) dim = false -> (dim <? 3) = false ->
     forall dd vals, sample_plan h hr c (if dim =? 3 then BTime else BVector) idx vs = Ok (dd, vals, true) -> st_ok hr dd vals).

  (** no multiplicity-1 varying class is written by the same-base samples case (DESIGN 3.2) *)
  Definition deg_ok (c : cls) : Prop :=
    odim_is (sdim h) dim = false -> (dim <? 3) = false ->
    is_samples c = true -> base_of c = (if dim =? 3 then BTime else BVector) ->
    forall dest, sample_dest hr c = Ok dest -> multiplicity hr dest = Ok 1 -> dest = GConst.

  Notation body := (subset_body (JObj os) classifications (shape h) (sdim h) (n_slices h)
                                classifications (shape hr) (n_slices hr) preserving_changes (okeys const_tests) (okeys repeat_tests)
                                dim idx).

  (** a class that is copied as it is *)
  Lemma copy_class (c : cls) (d : list (key * list jv)) (o : obj) (f : key -> kst jv) :
    get_class_dict_st (JObj os) (name_of_cls c) = Ok (JObj (ritems c d)) ->
    NoDup (map fst d) -> (forall k, In k (map fst d) -> f k = None) -> Holds o hr f ->
    match kfold (fun _ vs => put hr c vs) d f with
    | Ok f' => exists o',
        bind (get_class_dict_st (JObj os) (name_of_cls c)) (fun t5 => bind (dyn_items t5) (fun t6 =>
        bind (py_for t6 (JObj o) (fun '(key, val) result__st =>
                bind (dyn_set2 result__st (fst (name_of_cls c)) (snd (name_of_cls c)) key val) (fun result__st => Ok (@Next jv _ result__st))))
             (fun c7 => match c7 with Ret rv => Ok (Ret rv) | Next result__st => Ok (@Next jv _ result__st) end)))
        = Ok (Next (JObj o')) /\ Holds o' hr f'
    | Err e =>
        bind (get_class_dict_st (JObj os) (name_of_cls c)) (fun t5 => bind (dyn_items t5) (fun t6 =>
        bind (py_for t6 (JObj o) (fun '(key, val) result__st =>
                bind (dyn_set2 result__st (fst (name_of_cls c)) (snd (name_of_cls c)) key val) (fun result__st => Ok (@Next jv _ result__st))))
             (fun c7 => match c7 with Ret rv => Ok (Ret rv) | Next result__st => Ok (@Next jv _ result__st) end)))
        = Err e
    end.
  Proof.
    intros Hsrc Hnd Hfr HH. rewrite Hsrc. cbn [bind dyn_items].
    pose proof (put_loop_enc hr Hokr Hbr (render c)
                  (fun '(key, val) result__st =>
                     bind (dyn_set2 result__st (fst (name_of_cls c)) (snd (name_of_cls c)) key val) (fun result__st => Ok (@Next jv _ result__st)))
                  (fun _ vs => Ok (c, vs, false)) d
                  ltac:(intros o0 k vs Hin; reflexivity) ltac:(intros k vs dd vals Hin Hp; discriminate Hp) o f HH Hnd Hfr) as H.
    rewrite fold_plan_kfold in H.
    rewrite (kfold_ext _ (fun _ vs => put hr c vs) d) in H.
    2:{ intros k vs Hin. cbn [bind run_plan]. destruct (put hr c vs); reflexivity. }
    unfold ritems. destruct (kfold (fun _ vs => put hr c vs) d f) as [f'|e]; unfold Types.key in *.
    - destruct H as [o' [E H]]. exists o'. rewrite E. split; [reflexivity | exact H].
    - rewrite H. reflexivity.
  Qed.

  Lemma slice_prelude_ok (c : cls) :
    exists dest dm, slice_dest hr c = Ok dest /\ has_base hr (base_of dest) = true /\ multiplicity hr dest = Ok dm.
  Proof.
    pose proof (valid_gconst hr Hokr) as Hg.
    assert (H : exists dest, slice_dest hr c = Ok dest /\ class_valid hr dest = true).
    { unfold slice_dest, first_valid.
      change copy_slice_global_dests_c with [TSamples; VSamples; GConst]. change copy_slice_vector_dests_c with [TSamples; GConst].
      cbn [find]. rewrite Hg.
      destruct (base_of c); [| exists GConst; split; [reflexivity | exact Hg] |];
        destruct (class_valid hr TSamples) eqn:E1; try (eexists; split; [reflexivity | assumption]);
        destruct (class_valid hr VSamples) eqn:E2; eexists; (split; [reflexivity | assumption]). }
    destruct H as [dest [Hd Hv]]. exists dest. unfold multiplicity. rewrite Hv. cbn [negb]. eexists. split; [exact Hd|].
    split; [apply Hbr; exact Hv | reflexivity].
  Qed.

  Lemma class_step (c : cls) (d : list (key * list jv)) (o : obj) (f : key -> kst jv) :
    class_valid h c = true ->
    get_class_dict_st (JObj os) (name_of_cls c) = Ok (JObj (ritems c d)) ->
    NoDup (map fst d) -> (forall k, In k (map fst d) -> f k = None) -> Holds o hr f ->
    subset_prelude h hr dim c = Ok tt -> deg_ok c -> (forall k vs, In (k, vs) d -> side c vs) ->
    match kfold (fun _ vs => step c vs) d f with
    | Ok f' => exists o', body (name_of_cls c) (JObj o) = Ok (Next (JObj o')) /\ Holds o' hr f'
    | Err e => body (name_of_cls c) (JObj o) = Err e
    end.
  Proof.
    intros Hv Hsrc Hnd Hfr HH Hpre Hdeg Hside. unfold subset_body.
    change ([103; 108; 111; 98; 97; 108]%N, [99; 111; 110; 115; 116]%N) with (name_of_cls GConst).
    rewrite cname_eq_cls, odim_eq, is_slices_name. unfold step.
    destruct (cls_eqb c GConst) eqn:Ec; [exact (copy_class c d o f Hsrc Hnd Hfr HH)|].
    assert (Hc : c <> GConst) by (intros ->; discriminate Ec).
    assert (Hitems : get_class_dict_st (JObj os) (name_of_cls c) = Ok (JObj (items d))).
    { rewrite Hsrc. destruct c; try reflexivity. exfalso. apply Hc. reflexivity. }
    destruct (odim_is (sdim h) dim) eqn:Eo.
    - destruct (is_slices c) eqn:Es; cbn [negb]; [|exact (copy_class c d o f Hsrc Hnd Hfr HH)].
      destruct (slice_prelude_ok c) as (dest & dm & Hd & Hb & Hm).
      pose proof (copy_slice_st_ref o hr f (n_slices h) (JObj os) c idx d HH Hokr Hbr Hitems Hnd Hfr) as H.
      specialize (H ltac:(intros dest0 dm0 k vs sub H1 H2 Hin H3; exact (proj1 (Hside k vs Hin Hc) Eo Es dest0 dm0 sub H1 H2 H3))).
      unfold copy_slice_all in H. rewrite Hd in H. cbn [bind] in H. rewrite Hb, Hm in H. cbn [negb bind] in H.
      rewrite slice_fold_kfold in H.
      rewrite (kfold_ext _ (fun _ vs => copy_slice_k jv_eqb JNull h hr c vs idx) d) in H.
      2:{ intros k vs Hin. rewrite copy_slice_k_unfold, Hd. cbn [bind]. rewrite Hb, Hm. reflexivity. }
      destruct (kfold (fun _ vs => copy_slice_k jv_eqb JNull h hr c vs idx) d f) as [f'|e].
      + destruct H as [o' [E H]]. exists o'. rewrite E. split; [reflexivity | exact H].
      + rewrite H. reflexivity.
    - destruct (dim <? 3) eqn:E3; [exact (copy_class c d o f Hsrc Hnd Hfr HH)|].
      assert (Hcase : forall sb, sb = (if dim =? 3 then BTime else BVector) ->
        match kfold (fun _ vs => copy_sample_k jv_eqb JNull h hr c vs sb idx) d f with
        | Ok f' => exists o', bind (copy_sample_st classifications (shape hr) (n_slices hr) preserving_changes (okeys const_tests)
                                      (okeys repeat_tests) (JObj o) classifications (shape h) (n_slices h) (JObj os) (name_of_cls c)
                                      (name_of_base sb) idx) (fun p => Ok (@Next jv _ (snd p))) = Ok (Next (JObj o')) /\ Holds o' hr f'
        | Err e => bind (copy_sample_st classifications (shape hr) (n_slices hr) preserving_changes (okeys const_tests)
                                      (okeys repeat_tests) (JObj o) classifications (shape h) (n_slices h) (JObj os) (name_of_cls c)
                                      (name_of_base sb) idx) (fun p => Ok (@Next jv _ (snd p))) = Err e
        end).
      { intros sb Hsb. subst sb.
        assert (Hsbg : (if dim =? 3 then BTime else BVector) <> BGlobal) by (destruct (dim =? 3); discriminate).
        pose proof (copy_sample_st_ref o h hr f (JObj os) c (if dim =? 3 then BTime else BVector) idx d HH Hokr Hbr Hokh
                      ltac:(intros _ Hv4 _; destruct (dim =? 3) eqn:E; [discriminate Hv4|];
                            apply Nat.eqb_neq in E; apply Nat.ltb_ge in E3; lia)
                      Hc Hsbg Hitems Hnd Hfr
                      ltac:(intros k vs dd vals Hin; exact (proj2 (Hside k vs Hin Hc) Eo E3 dd vals))
                      ltac:(intros His Hbs; exact (Hdeg Eo E3 His Hbs))) as H.
        unfold copy_sample_all in H. rewrite (sample_prelude_ok h hr dim c Hokr Hv Hc Eo E3 Hpre) in H.
        cbn [bind] in H. rewrite fold_plan_kfold in H.
        rewrite (kfold_ext _ (fun _ vs => copy_sample_k jv_eqb JNull h hr c vs (if dim =? 3 then BTime else BVector) idx) d) in H.
        2:{ intros k vs Hin. rewrite copy_sample_k_plan. reflexivity. }
        unfold sample_code in H.
        destruct (kfold (fun _ vs => copy_sample_k jv_eqb JNull h hr c vs (if dim =? 3 then BTime else BVector) idx) d f) as [f'|e].
        + destruct H as [o' [E H]]. exists o'. rewrite E. split; [reflexivity | exact H].
        + rewrite H. reflexivity. }
      destruct (dim =? 3); [exact (Hcase BTime eq_refl) | exact (Hcase BVector eq_refl)].
  Qed.
End Subset.

(** * The class dictionaries of a content that holds [fs] *)

Lemma jassoc_nodup_in (d : obj) (k : str) (v : jv) : NoDup (map fst d) -> In (k, v) d -> jassoc k d = Some v.
Proof.
  induction d as [|[k0 v0] r IH]; intros Hnd Hin; [destruct Hin|]. cbn [jassoc].
  inversion Hnd as [|? ? Hni Hnd']; subst. destruct Hin as [Hin|Hin].
  - injection Hin as -> ->. rewrite str_eqb_refl. reflexivity.
  - destruct (str_eqb k k0) eqn:E; [|apply IH; assumption].
    apply str_eqb_eq in E. subst k0. exfalso. apply Hni. apply in_map_iff. exists (k, v). split; [reflexivity | exact Hin].
Qed.

Lemma class_dict_decode (os : obj) (h : hdr) (fs : key -> kst jv) (c : cls) :
  Holds os h fs -> has_base h (base_of c) = true ->
  exists d, get_class_dict_st (JObj os) (name_of_cls c) = Ok (JObj (ritems c d)) /\ NoDup (map fst d) /\
            (forall k vs, In (k, vs) d -> fs k = Some (c, vs)) /\
            (forall k, mem_key k (map fst d) = match fs k with Some (c', _) => cls_eqb c' c | None => false end).
Proof.
  intros HH Hb. destruct (hw_dict _ _ _ HH c Hb) as [dobj [Hd [Hnd Hj]]].
  set (dec := fun kv : str * jv => (fst kv, match fs (fst kv) with Some (_, vs) => vs | None => [] end)).
  assert (Hent : forall k v, In (k, v) dobj -> exists vs, fs k = Some (c, vs) /\ v = render c vs).
  { intros k v Hin. pose proof (jassoc_nodup_in dobj k v Hnd Hin) as E. rewrite Hj in E. unfold stored in E.
    destruct (fs k) as [[c' vs]|]; [|discriminate E]. destruct (cls_eqb_spec c' c) as [->|Hn]; [|discriminate E].
    injection E as <-. exists vs. split; reflexivity. }
  exists (map dec dobj). split; [|split; [|split]].
  - rewrite (get_class_dict_st_ok os c dobj Hd). f_equal. f_equal. unfold ritems. rewrite map_map.
    rewrite <- (map_id dobj) at 1. apply map_ext_in. intros [k v] Hin. unfold dec. cbn [fst snd].
    destruct (Hent k v Hin) as [vs [E1 E2]]. rewrite E1, E2. reflexivity.
  - rewrite map_map. exact Hnd.
  - intros k vs Hin. apply in_map_iff in Hin. destruct Hin as [[k0 v] [E Hin]]. unfold dec in E. cbn [fst snd] in E.
    injection E as -> <-. destruct (Hent k v Hin) as [vs [E1 _]]. rewrite E1. reflexivity.
  - intros k. rewrite map_map. unfold dec. cbn [fst].
    change (map (fun x : str * jv => fst x) dobj) with (map fst dobj).
    pose proof (jassoc_in k dobj) as Hi. rewrite Hj in Hi. unfold stored in Hi.
    destruct (mem_key k (map fst dobj)) eqn:Em.
    + apply mem_key_In in Em. apply Hi in Em. destruct (fs k) as [[c' vs]|]; [|exfalso; apply Em; reflexivity].
      destruct (cls_eqb c' c); [reflexivity | exfalso; apply Em; reflexivity].
    + destruct (fs k) as [[c' vs]|]; [|reflexivity]. destruct (cls_eqb c' c) eqn:Ec; [|reflexivity].
      assert (Hin : In k (map fst dobj)) by (apply Hi; discriminate). apply mem_key_In in Hin. rewrite Hin in Em. discriminate Em.
Qed.

(** * The loop over the classes *)

Section ClassLoop.
  Variables (h hr : hdr) (dim idx : nat) (os : obj) (fs R : key -> kst jv).
  Hypothesis Hs : Holds os h fs.
  Hypothesis Hokh : ndim_ok h = true.
  Hypothesis Hbh : bases_ok h.
  Hypothesis Hokr : ndim_ok hr = true.
  Hypothesis Hbr : bases_ok hr.
  Hypothesis Hdim : dim < ndim h.
  Hypothesis HR : forall k, subset_k jv_eqb JNull h hr dim idx (fs k) = Ok (R k).
  Hypothesis Hpre : forall c, class_valid h c = true -> subset_prelude h hr dim c = Ok tt.
  Hypothesis Hdeg : forall c, class_valid h c = true -> deg_ok h hr dim c.
  Hypothesis Hside : forall k c vs, fs k = Some (c, vs) -> class_valid h c = true -> side h hr dim idx c vs.

  (** the result holds the model's result for the keys of the classes already processed, and nothing else *)
  Definition Inv (done : list cls) (f : key -> kst jv) : Prop :=
    forall k, f k = match fs k with Some (c, _) => if mem_cls c done then R k else None | None => None end.

  Notation body := (subset_body (JObj os) classifications (shape h) (sdim h) (n_slices h)
                                classifications (shape hr) (n_slices hr) preserving_changes (okeys const_tests) (okeys repeat_tests)
                                dim idx).

  Lemma class_loop (cl : list cls) : forall (done : list cls) (o : obj) (f : key -> kst jv),
    (forall c, In c cl -> class_valid h c = true) -> NoDup cl -> (forall c, In c cl -> ~ In c done) ->
    Holds o hr f -> Inv done f ->
    exists o' f', py_for (map name_of_cls cl) (JObj o) body = Ok (Next (JObj o')) /\ Holds o' hr f' /\ Inv (rev cl ++ done) f'.
  Proof.
    induction cl as [|c r IH]; intros done o f Hval Hnd Hfresh HH Hinv.
    - exists o, f. split; [reflexivity|]. split; assumption.
    - inversion Hnd as [|? ? Hni Hnd']; subst.
      assert (Hv : class_valid h c = true) by (apply Hval; left; reflexivity).
      destruct (class_dict_decode os h fs c Hs (Hbh c Hv)) as [d [Hsrc [Hdn [Hin Hmem]]]].
      assert (Hcd : mem_cls c done = false).
      { destruct (mem_cls c done) eqn:E; [|reflexivity]. apply mem_cls_In in E. exfalso. exact (Hfresh c (or_introl eq_refl) E). }
      assert (Hfr : forall k, In k (map fst d) -> f k = None).
      { intros k Hk. apply mem_key_In in Hk. rewrite Hmem in Hk. rewrite Hinv.
        destruct (fs k) as [[c' vs]|]; [|reflexivity]. apply cls_eqb_eq in Hk. subst c'. rewrite Hcd. reflexivity. }
      pose proof (class_step h hr dim idx os Hokh Hokr Hbr Hdim c d o f Hv Hsrc Hdn Hfr HH (Hpre c Hv) (Hdeg c Hv)) as Hst.
      specialize (Hst ltac:(intros k vs Hk; exact (Hside k c vs (Hin k vs Hk) Hv))).
      destruct (kfold_ok (fun _ vs => step h hr dim idx c vs) R d Hdn) with (f := f) as [f1 [E1 Hf1]].
      { intros k vs Hk. rewrite <- (subset_k_step h hr dim idx c vs Hv), <- (Hin k vs Hk). apply HR. }
      rewrite E1 in Hst. destruct Hst as [o1 [Eb H1]].
      assert (Hinv1 : Inv (c :: done) f1).
      { intros k. rewrite Hf1, Hmem, Hinv. destruct (fs k) as [[c' vs]|]; [|reflexivity].
        unfold mem_cls. cbn [existsb]. fold (mem_cls c' done). destruct (cls_eqb c' c); reflexivity. }
      destruct (IH (c :: done) o1 f1 (fun c0 H0 => Hval c0 (or_intror H0)) Hnd') with (3 := Hinv1) as [o' [f' [E' [H' I']]]].
      { intros c0 H0 [->|H1']; [contradiction | exact (Hfresh c0 (or_intror H0) H1')]. }
      { exact H1. }
      exists o', f'. split; [|split; [exact H'|]].
      + cbn [map py_for]. rewrite Eb. cbn [bind]. exact E'.
      + cbn [rev]. rewrite <- app_assoc. exact I'.
  Qed.
End ClassLoop.

(** * The whole method *)

Lemma set_nth_length {A} (i : nat) (v : A) : forall (l l' : list A), set_nth i v l = Some l' -> length l' = length l /\ i < length l.
Proof.
  induction i as [|i IH]; intros [|x r] l' H; cbn [set_nth] in H; try discriminate H.
  - injection H as <-. cbn [length]. split; [reflexivity | lia].
  - destruct (set_nth i v r) as [r'|] eqn:E; [|discriminate H]. cbn [option_map] in H. injection H as <-.
    destruct (IH r r' E) as [H1 H2]. cbn [length]. split; lia.
Qed.

Lemma valid_classes_nodup (h : hdr) : NoDup (valid_classes h).
Proof.
  unfold valid_classes.
  assert (H6 : NoDup [GConst; GSlices; TSamples; TSlices; VSamples; VSlices]) by (repeat constructor; cbn; intuition discriminate).
  assert (H4 : NoDup [GConst; GSlices; TSamples; TSlices]) by (repeat constructor; cbn; intuition discriminate).
  assert (H4' : NoDup [GConst; GSlices; VSamples; VSlices]) by (repeat constructor; cbn; intuition discriminate).
  assert (H2 : NoDup [GConst; GSlices]) by (repeat constructor; cbn; intuition discriminate).
  destruct (ndim h) as [|[|[|[|[|[|n]]]]]]; [constructor|constructor|constructor|exact H2|exact H4| |constructor].
  destruct (nth 3 (shape h) 0 =? 1); [exact H4' | exact H6].
Qed.

Theorem get_subset_st_ref (mk : list nat -> option nat -> res jv) (h hr : hdr) (dim idx : nat) (os o0 : obj) (fs R : key -> kst jv) :
  subset_hdr h dim = Ok hr ->
  Holds os h fs -> bases_ok h -> bases_ok hr ->
  mk (shape hr) (sdim hr) = Ok (JObj o0) -> Holds o0 hr (fun _ => None) ->
  (forall k, subset_k jv_eqb JNull h hr dim idx (fs k) = Ok (R k)) ->
  (forall c, class_valid h c = true -> subset_prelude h hr dim c = Ok tt) ->
  (forall c, class_valid h c = true -> deg_ok h hr dim c) ->
  (forall k c vs, fs k = Some (c, vs) -> class_valid h c = true -> side h hr dim idx c vs) ->
  exists o', get_subset_st mk classifications (shape h) (sdim h) (n_slices h) tt tt preserving_changes (okeys const_tests)
                           (okeys repeat_tests) (JObj os) dim idx = Ok (JObj o') /\ Holds o' hr R.
Proof.
  intros Hh Hs Hbh Hbr Hmk H0 HR Hpre Hdeg Hside.
  unfold subset_hdr in Hh. destruct (5 <=? dim) eqn:E5; [discriminate Hh|]. apply Nat.leb_gt in E5.
  destruct (ndim_ok h) eqn:Hokh; [|discriminate Hh]. cbn [negb] in Hh.
  destruct (set_nth dim 1 (shape h)) as [sh|] eqn:Eset; [|discriminate Hh].
  destruct (set_nth_length dim 1 (shape h) sh Eset) as [Hlen Hdim].
  unfold make_empty_hdr in Hh.
  destruct ((3 <=? length (trim_ones sh)) && (length (trim_ones sh) <? 6)) eqn:Hn; [|discriminate Hh]. cbn [negb] in Hh.
  destruct ((length (aff h) =? 4) && forallb (fun r => length r =? 4) (aff h)); [|discriminate Hh]. cbn [negb] in Hh.
  destruct (match sdim h with Some d => d <? 3 | None => true end) eqn:Esd; [|discriminate Hh]. cbn [negb] in Hh.
  injection Hh as Hhr.
  assert (Hshape : shape hr = trim_ones sh) by (rewrite <- Hhr; reflexivity).
  assert (Hsdim : sdim hr = sdim h) by (rewrite <- Hhr; reflexivity).
  assert (Hokr : ndim_ok hr = true) by (unfold ndim_ok, ndim; rewrite Hshape; exact Hn).
  assert (Hns : n_slices_src (trim_ones sh) (sdim h) = Ok (n_slices hr)).
  { rewrite <- Hshape, <- Hsdim, n_slices_src_eq. rewrite Hsdim. destruct (sdim h) as [sd|]; [|unfold n_slices; rewrite Hsdim; reflexivity].
    apply Nat.ltb_lt in Esd. apply andb_true_iff in Hn. destruct Hn as [Hn _]. apply Nat.leb_le in Hn.
    unfold ndim. rewrite Hshape. replace (sd <? length (trim_ones sh)) with true by (symmetry; apply Nat.ltb_lt; lia). reflexivity. }
  destruct (class_loop h hr dim idx os fs R Hs Hokh Hbh Hokr Hbr Hdim HR Hpre Hdeg Hside (valid_classes h) [] o0 (fun _ => None))
    as [o' [f' [Eloop [H' Hinv]]]].
  { intros c Hc. apply mem_cls_In. exact Hc. }
  { apply valid_classes_nodup. }
  { intros c _ []. }
  { exact H0. }
  { intros k. destruct (fs k) as [[c vs]|]; reflexivity. }
  exists o'. split.
  - unfold get_subset_st.
    replace (negb ((0 <=? dim) && (dim <? 5))) with false by (symmetry; apply negb_false_iff, andb_true_iff; split; [reflexivity | apply Nat.ltb_lt; lia]).
    rewrite get_valid_classes_src_eq, Hokh. cbv zeta. cbn [bind]. unfold py_list_set. rewrite list_set_nth_eq, Eset. cbn [bind].
    rewrite (while_trim (length sh) sh) by (try lia; intros ->; cbn in Hlen; unfold ndim in Hdim; lia).
    fold (trim_ones sh). cbn [bind]. rewrite <- Hshape, <- Hsdim, Hmk. cbn [bind]. rewrite Hshape, Hsdim, Hns. cbn [bind].
    match goal with |- context [py_for (map name_of_cls (valid_classes h)) (JObj o0) ?b] =>
      change (py_for (map name_of_cls (valid_classes h)) (JObj o0) b)
        with (py_for (map name_of_cls (valid_classes h)) (JObj o0)
                (subset_body (JObj os) classifications (shape h) (sdim h) (n_slices h)
                             classifications (trim_ones sh) (n_slices hr) preserving_changes (okeys const_tests) (okeys repeat_tests) dim idx)) end.
    rewrite <- Hshape, Eloop. reflexivity.
  - apply (Holds_feq o' hr f' R); [|exact H']. intros k. rewrite Hinv. rewrite app_nil_r.
    pose proof (HR k) as Hk. destruct (fs k) as [[c vs]|] eqn:Ef.
    + destruct (mem_cls c (rev (valid_classes h))) eqn:Em; [reflexivity|].
      unfold subset_k, visible in Hk. 
      assert (Hcv : class_valid h c = false).
      { destruct (class_valid h c) eqn:Ev; [|reflexivity]. unfold class_valid in Ev. apply mem_cls_In in Ev.
        apply in_rev in Ev. apply mem_cls_In in Ev. rewrite Ev in Em. discriminate Em. }
      rewrite Hcv in Hk. injection Hk as <-. reflexivity.
    + cbn in Hk. injection Hk as <-. reflexivity.
Qed.
