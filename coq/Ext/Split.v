(** Model of [NiftiWrapper.split] (dcmmeta.py:1439-1512, with the F5 fix): data hyperplanes, cumulative
    translation update of the affine for spatial splits, trailing-singleton trimming, extension subset.
    The image is (shape, slice dim_info, best affine, voxel data as a C-order flat list). *)
From Coq Require Import List Bool Arith NArith ZArith QArith Lia.
From DV Require Import Common.Res Common.Str Ext.Types Ext.Classes Ext.Seq Ext.Model.
Import ListNotations.
Local Open Scope nat_scope.
Local Open Scope res_scope.

Record wimg := mk_wimg { wi_shape : list nat; wi_slice : option nat; wi_aff : list (list Q); wi_data : list Z }.
Definition to_img (w : wimg) : img := mk_img (wi_shape w) (wi_slice w) (wi_aff w).

(** [data[..., idx, ...]] on axis [dim] of a C-order array: [outer] = product of the extents before [dim],
    [n] = extent of [dim], [inner] = product of the extents after it *)
Definition take_axis {A} (outer n inner idx : nat) (data : list A) : list A :=
  flat_map (fun o => py_slice (o * n * inner + idx * inner) (o * n * inner + idx * inner + inner) data) (seq 0 outer).

(** "if dim is None, choose the vector/time/slice dim in that order" *)
Definition split_dim (w : wimg) (dim : option nat) : res nat :=
  match dim with
  | Some d => Ok d
  | None => let d := length (wi_shape w) - 1 in
            if d =? 2 then match wi_slice w with None => Err EValue | Some sd => Ok sd end else Ok d
  end.

(** shape of the split data: the axis is dropped when it is the last non-spatial one, kept (extent 1) otherwise;
    then trailing singular dimensions beyond the third are removed *)
Definition piece_shape (sh : list nat) (dim : nat) : list nat :=
  trim_ones (if (3 <=? dim) && (dim =? length sh - 1) then removelast sh
             else match set_nth dim 1 sh with Some s => s | None => sh end).

(** translation after [idx] cumulative updates [qform/sform[:3, 3] += affine[:3, dim]] *)
Definition add_trans (a : list (list Q)) (dim idx : nat) : list (list Q) :=
  if dim <? 3 then
    map (fun r => match set_nth 3 (nth 3 r 0 + inject_Z (Z.of_nat idx) * nth dim r 0)%Q r with Some r' => r' | None => r end)
        (firstn 3 a) ++ skipn 3 a
  else a.

Section WithV.
  Context {V : Type} (veqb : V -> V -> bool) (vnone : V).

  Definition split_piece (w : wimg) (e : ext V) (dim idx : nat) : res (wimg * ext V) :=
    let sh := wi_shape w in
    let img_i := mk_wimg (piece_shape sh dim) (wi_slice w) (add_trans (wi_aff w) dim idx)
                         (take_axis (prod_list (firstn dim sh)) (nth dim sh 0) (prod_list (skipn (S dim) sh)) idx (wi_data w)) in
    do meta_dim <- (if odim_is (wi_slice w) dim
                    then match sdim (hdr_of e) with Some d => Ok d | None => Err EType end
                    else Ok dim);
    do r <- get_subset veqb vnone e meta_dim idx;
    Ok (img_i, r).

  Definition split (w : wimg) (e : ext V) (dim : option nat) : res (list (wimg * ext V)) :=
    do d <- split_dim w dim;
    match nth_error (wi_shape w) d with
    | None => Err EIndex
    | Some n => mapM (split_piece w e d) (seq 0 n)
    end.
End WithV.
