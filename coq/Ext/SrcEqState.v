(** Stage B of the source equality for the extension algebra: the single-key MUTATORS DcmMetaExtension._change_class
    and _simplify, translated in state-passing style (coq/Generated/T_src_state.v; state = the content dictionary),
    compute on the content what Ext.Model.change_class_k / simplify_k compute on the per-key state.

    [Holds o h f]: the content [JObj o] holds, class dictionary by class dictionary, the per-key states [f k] of the
    model (a key of class c with values vs is stored as [render c vs] in the dictionary of c and nowhere else), the
    base dictionaries that exist are those of the header.  [to_content e] holds [lookup_e e] (Ext/SrcEqStateLink.v).
    The theorems are refinement statements: the translated mutator fails exactly when the model does (same error class),
    and otherwise returns a content that holds the states with the key at hand updated as the model says. *)
From Coq Require Import List Bool Arith NArith ZArith Lia.
From DV Require Import Common.Res Common.Str Common.Jv Common.PyOps2 Common.PyOps2Dyn Generated.T_classes Generated.T_src_ext
     Generated.T_src_state Ext.Types Ext.Classes Ext.Seq Ext.Model Ext.TableFacts Ext.SrcEq Ext.SrcEqAlg.
Import ListNotations.
Local Open Scope nat_scope.

Notation obj := (list (str * jv)).

(** * Dictionaries *)

Lemma str_eqb_sym (a b : str) : str_eqb a b = str_eqb b a.
Proof. destruct (str_eqb_spec a b) as [E|H], (str_eqb_spec b a) as [E'|H']; try reflexivity; congruence. Qed.

Lemma jassoc_jset (k k' : str) (v : jv) (d : obj) :
  jassoc k' (jset k v d) = if str_eqb k' k then Some v else jassoc k' d.
Proof.
  induction d as [|[k0 v0] r IH]; cbn [jset jassoc].
  - destruct (str_eqb k' k); reflexivity.
  - destruct (str_eqb k k0) eqn:E0; cbn [jassoc].
    + apply str_eqb_eq in E0. subst k0. destruct (str_eqb k' k); reflexivity.
    + rewrite IH. destruct (str_eqb k' k0) eqn:E1; [|reflexivity].
      apply str_eqb_eq in E1. subst k0. destruct (str_eqb k' k) eqn:E2; [|reflexivity].
      apply str_eqb_eq in E2. subst k'. rewrite str_eqb_refl in E0. discriminate E0.
Qed.

Lemma jset_keys (k : str) (v : jv) (d : obj) :
  NoDup (map fst d) -> NoDup (map fst (jset k v d)) /\ (forall x, In x (map fst (jset k v d)) <-> x = k \/ In x (map fst d)).
Proof.
  induction d as [|[k0 v0] r IH]; cbn [jset map fst]; intros Hn.
  - split; [constructor; [intros []|constructor]|]. intros x. cbn. intuition congruence.
  - inversion Hn as [|? ? Hni Hn']; subst. destruct (str_eqb k k0) eqn:E0.
    + apply str_eqb_eq in E0. subst k0. cbn [map fst]. split; [exact Hn|]. intros x. cbn. intuition congruence.
    + destruct (IH Hn') as [IH1 IH2]. cbn [map fst]. split.
      * constructor; [|exact IH1]. intros Hin. apply IH2 in Hin. destruct Hin as [->|Hin]; [|contradiction].
        rewrite str_eqb_refl in E0. discriminate E0.
      * intros x. cbn. rewrite IH2. intuition congruence.
Qed.

Lemma jassoc_in (k : str) (d : obj) : jassoc k d <> None <-> In k (map fst d).
Proof.
  induction d as [|[k0 v0] r IH]; cbn [jassoc map fst].
  - split; [intros H; contradiction | intros []].
  - destruct (str_eqb k k0) eqn:E.
    + apply str_eqb_eq in E. subst. split; [intros _; left; reflexivity | intros _; discriminate].
    + rewrite IH. split; [intros H; right; exact H|]. intros [H|H]; [|exact H].
      subst k0. rewrite str_eqb_refl in E. discriminate E.
Qed.

Lemma jdel_spec (k : str) (d : obj) : NoDup (map fst d) ->
  match jdel k d with
  | Some d' => jassoc k d <> None /\ NoDup (map fst d') /\
               forall k', jassoc k' d' = if str_eqb k' k then None else jassoc k' d
  | None => jassoc k d = None
  end.
Proof.
  induction d as [|[k0 v0] r IH]; cbn [jdel jassoc map fst]; intros Hn; [reflexivity|].
  inversion Hn as [|? ? Hni Hn']; subst. destruct (str_eqb k k0) eqn:E0.
  - apply str_eqb_eq in E0. subst k0. split; [discriminate|]. split; [exact Hn'|].
    intros k'. destruct (str_eqb k' k) eqn:E1; [|reflexivity].
    apply str_eqb_eq in E1. subst k'.
    destruct (jassoc k r) eqn:Ej; [|reflexivity]. exfalso. apply Hni. apply jassoc_in. rewrite Ej. discriminate.
  - specialize (IH Hn'). destruct (jdel k r) as [d'|]; cbn [option_map].
    + destruct IH as [I1 [I2 I3]]. split; [exact I1|]. split.
      * cbn [map fst]. constructor; [|exact I2]. intros Hin. apply jassoc_in in Hin. rewrite I3 in Hin.
        destruct (str_eqb k0 k); [contradiction|]. apply jassoc_in in Hin. contradiction.
      * intros k'. cbn [jassoc]. rewrite I3. destruct (str_eqb k' k0) eqn:E1; [|reflexivity].
        apply str_eqb_eq in E1. subst k'. rewrite str_eqb_sym, E0. reflexivity.
    + exact IH.
Qed.

(** * The invariant *)

Notation nb c := (name_of_base (base_of c)).
Notation nsb c := (name_of_sub (sub_of c)).

Definition class_dict_of (o : obj) (c : cls) : option obj :=
  match jassoc (nb c) o with
  | Some (JObj bo) => match jassoc (nsb c) bo with Some (JObj d) => Some d | _ => None end
  | _ => None
  end.

(** what the dictionary of class c stores under key k *)
Definition stored (f : key -> kst jv) (c : cls) (k : key) : option jv :=
  match f k with Some (c', vs) => if cls_eqb c' c then Some (render c vs) else None | None => None end.

(** [g c k]: what the dictionary of class c is expected to store under key k *)
Record HoldsW (o : obj) (h : hdr) (g : cls -> key -> option jv) : Prop := mk_HoldsW {
  hw_nobase : forall b, has_base h b = false -> jassoc (name_of_base b) o = None;
  hw_dict : forall c, has_base h (base_of c) = true ->
            exists d, class_dict_of o c = Some d /\ NoDup (map fst d) /\ forall k, jassoc k d = g c k }.

Definition Holds (o : obj) (h : hdr) (f : key -> kst jv) : Prop := HoldsW o h (stored f).

Definition upd (f : key -> kst jv) (k : key) (s : kst jv) : key -> kst jv := fun k' => if key_eqb k' k then s else f k'.

Lemma HoldsW_ext (o : obj) (h : hdr) (g g' : cls -> key -> option jv) :
  (forall c k, has_base h (base_of c) = true -> g c k = g' c k) -> HoldsW o h g -> HoldsW o h g'.
Proof.
  intros E [Hn Hd]. constructor; [exact Hn|]. intros c Hc. destruct (Hd c Hc) as [d [H1 [H2 H3]]].
  exists d. split; [exact H1|]. split; [exact H2|]. intros k. rewrite H3. apply E. exact Hc.
Qed.

Lemma names_eq (c' c : cls) : str_eqb (nb c') (nb c) && str_eqb (nsb c') (nsb c) = cls_eqb c' c.
Proof. destruct c', c; reflexivity. Qed.

(** replacing the dictionary of one class inside the content *)
Definition set_class (o : obj) (c : cls) (bo d' : obj) : obj := jset (nb c) (JObj (jset (nsb c) (JObj d') bo)) o.

Lemma class_dict_set (o : obj) (c : cls) (bo d' : obj) : jassoc (nb c) o = Some (JObj bo) ->
  forall c', class_dict_of (set_class o c bo d') c' = if cls_eqb c' c then Some d' else class_dict_of o c'.
Proof.
  intros Hb c'. unfold class_dict_of, set_class. rewrite jassoc_jset. rewrite <- (names_eq c' c).
  destruct (str_eqb (nb c') (nb c)) eqn:Eb; cbn [andb]; [|reflexivity].
  rewrite jassoc_jset. destruct (str_eqb (nsb c') (nsb c)) eqn:Es; [reflexivity|].
  apply str_eqb_eq in Eb. rewrite Eb, Hb. reflexivity.
Qed.

Lemma base_set (o : obj) (c : cls) (bo d' : obj) (b : cbase) : jassoc (nb c) o = Some (JObj bo) ->
  jassoc (name_of_base b) (set_class o c bo d') = None <-> jassoc (name_of_base b) o = None.
Proof.
  intros Hb. unfold set_class. rewrite jassoc_jset. destruct (str_eqb (name_of_base b) (nb c)) eqn:E; [|tauto].
  apply str_eqb_eq in E. rewrite E, Hb. split; discriminate.
Qed.

(** replacing the dictionary of class c by d' *)
Lemma HoldsW_set (o : obj) (h : hdr) (g : cls -> key -> option jv) (c : cls) (bo d' : obj) :
  HoldsW o h g -> jassoc (nb c) o = Some (JObj bo) -> NoDup (map fst d') ->
  HoldsW (set_class o c bo d') h (fun c' k' => if cls_eqb c' c then jassoc k' d' else g c' k').
Proof.
  intros [Hn Hd] Hb Hnd. constructor.
  - intros b Hbf. apply (base_set o c bo d' b Hb). apply Hn. exact Hbf.
  - intros c' Hc'. rewrite (class_dict_set o c bo d' Hb c').
    destruct (cls_eqb c' c).
    + exists d'. split; [reflexivity|]. split; [exact Hnd|]. reflexivity.
    + exact (Hd c' Hc').
Qed.

(** * The readers of the state *)

Lemma py_for_find {A R} (l : list A) (body : A -> unit -> res (ctl R unit)) (P : A -> bool) (g : A -> R) :
  (forall x, In x l -> body x tt = Ok (if P x then Ret (g x) else Next tt)) ->
  py_for l tt body = Ok (match find P l with Some x => Ret (g x) | None => Next tt end).
Proof.
  induction l as [|x r IH]; intros H; [reflexivity|].
  cbn [py_for find]. rewrite (H x (or_introl eq_refl)). cbn [bind].
  destruct (P x); [reflexivity|]. apply IH. intros y Hy. apply H. right. exact Hy.
Qed.

Lemma find_map_names (Q : cls -> bool) (P : cname -> bool) (l : list cls) :
  (forall c, P (name_of_cls c) = Q c) -> find P (map name_of_cls l) = option_map name_of_cls (find Q l).
Proof.
  intros H. induction l as [|c r IH]; [reflexivity|]. cbn [map find]. rewrite H. destruct (Q c); [reflexivity|exact IH].
Qed.

Lemma find_cls (c0 : cls) (l : list cls) : find (cls_eqb c0) l = if mem_cls c0 l then Some c0 else None.
Proof.
  unfold mem_cls. induction l as [|c r IH]; [reflexivity|]. cbn [find existsb].
  destruct (cls_eqb_spec c0 c) as [<-|Hn]; [reflexivity|exact IH].
Qed.

(** every class that is valid for the shape has its base dictionary *)
Definition bases_ok (h : hdr) : Prop := forall c, class_valid h c = true -> has_base h (base_of c) = true.

Lemma class_dict_parts (o : obj) (c : cls) (d : obj) : class_dict_of o c = Some d ->
  exists bo, jassoc (nb c) o = Some (JObj bo) /\ jassoc (nsb c) bo = Some (JObj d).
Proof.
  unfold class_dict_of. destruct (jassoc (nb c) o) as [[]|]; try discriminate.
  destruct (jassoc (nsb c) l) as [[]|] eqn:E; try discriminate. intros H. injection H as <-. eexists. split; [reflexivity|exact E].
Qed.

Definition is_some {A} (o : option A) : bool := match o with Some _ => true | None => false end.

Section Readers.
  Variables (o : obj) (h : hdr) (f : key -> kst jv).
  Hypothesis HH : Holds o h f.
  Hypothesis Hok : ndim_ok h = true.
  Hypothesis Hbases : bases_ok h.

  Lemma get_class_dict_st_ok (c : cls) (d : obj) : class_dict_of o c = Some d ->
    get_class_dict_st (JObj o) (name_of_cls c) = Ok (JObj d).
  Proof.
    intros Hc. destruct (class_dict_parts o c d Hc) as [bo [H1 H2]].
    unfold get_class_dict_st. cbn [name_of_cls]. cbv iota beta. cbn [dyn_getitem]. rewrite H1. cbn [bind dyn_getitem]. rewrite H2. reflexivity.
  Qed.

  Lemma get_classification_st_eq (k : key) :
    get_classification_st classifications (shape h) (JObj o) k
    = Ok (option_map name_of_cls (kst_class (visible h (f k)))).
  Proof.
    unfold get_classification_st. rewrite get_valid_classes_src_eq, Hok. cbn [bind].
    rewrite (py_for_find _ _ (fun n => match cls_of_name n with Some c => is_some (stored f c k) | None => false end) (fun n => Some n)).
    - cbn [bind]. rewrite (find_map_names (fun c => is_some (stored f c k))); [|intros c; rewrite cls_of_name_of_cls; reflexivity].
      unfold stored, visible, class_valid. destruct (f k) as [[c0 vs]|].
      + replace (find _ (valid_classes h)) with (find (cls_eqb c0) (valid_classes h)).
        * rewrite find_cls. destruct (mem_cls c0 (valid_classes h)); reflexivity.
        * clear. induction (valid_classes h) as [|c r IH]; [reflexivity|]. cbn [find]. rewrite IH. destruct (cls_eqb c0 c); reflexivity.
      + replace (find _ (valid_classes h)) with (@None cls); [reflexivity|].
        clear. induction (valid_classes h) as [|c r IH]; [reflexivity|]. exact IH.
    - intros n Hin. apply in_map_iff in Hin. destruct Hin as [c [<- Hc]].
      rewrite cls_of_name_of_cls. cbn [name_of_cls]. cbv iota beta.
      assert (Hcv : class_valid h c = true) by (apply mem_cls_In; exact Hc).
      destruct (hw_dict _ _ _ HH c (Hbases c Hcv)) as [d [Hd [_ Hk]]].
      destruct (class_dict_parts o c d Hd) as [bo [H1 H2]].
      cbn [dyn_getitem]. rewrite H1. cbn [bind dyn_getitem]. rewrite H2. cbn [bind dyn_contains]. rewrite Hk.
      destruct (stored f c k); reflexivity.
  Qed.

  Lemma get_values_and_class_st_eq (k : key) :
    get_values_and_class_st classifications (shape h) (JObj o) k = Ok (values_and_class_of h (f k)).
  Proof.
    unfold get_values_and_class_st. rewrite get_classification_st_eq. cbn [bind]. cbv zeta.
    unfold values_and_class_of. destruct (visible h (f k)) as [[c vs]|] eqn:Ev; cbn [kst_class option_map]; [|reflexivity].
    assert (Hf : f k = Some (c, vs) /\ class_valid h c = true).
    { unfold visible in Ev. destruct (f k) as [[c1 v1]|]; [|discriminate Ev]. destruct (class_valid h c1) eqn:E1; [|discriminate Ev].
      injection Ev as -> ->. split; [reflexivity|exact E1]. }
    destruct Hf as [Hf Hcv].
    destruct (hw_dict _ _ _ HH c (Hbases c Hcv)) as [d [Hd [_ Hk]]].
    rewrite (get_class_dict_st_ok c d Hd). cbn [bind dyn_getitem]. rewrite Hk. unfold stored. rewrite Hf, cls_eqb_refl. reflexivity.
  Qed.

  (** the state-reading translation of _get_changed_class is the parametric one of T_src_ext.v *)
  Lemma get_changed_class_st_src (k : key) (new : cname) (sd : option nat) :
    get_changed_class_st classifications (shape h) (n_slices h) preserving_changes (JObj o) k new sd
    = get_changed_class_src (fun _ => values_and_class_of h (f k)) classifications (shape h) (n_slices h) preserving_changes k new sd.
  Proof. unfold get_changed_class_st. rewrite get_values_and_class_st_eq. reflexivity. Qed.
End Readers.

(** * Stores into the state *)

Lemma dyn_set2_ok (o : obj) (c : cls) (bo d : obj) (k : key) (v : jv) :
  jassoc (nb c) o = Some (JObj bo) -> jassoc (nsb c) bo = Some (JObj d) ->
  dyn_set2 (JObj o) (@fst str str (name_of_cls c)) (@snd str str (name_of_cls c)) k v = Ok (JObj (set_class o c bo (jset k v d))).
Proof. intros H1 H2. unfold dyn_set2. cbn [name_of_cls fst snd dyn_getitem]. rewrite H1. cbn [bind dyn_getitem]. rewrite H2. reflexivity. Qed.

Lemma dyn_set2_nobase (o : obj) (c : cls) (k : key) (v : jv) :
  jassoc (nb c) o = None -> dyn_set2 (JObj o) (@fst str str (name_of_cls c)) (@snd str str (name_of_cls c)) k v = Err EKey.
Proof. intros H1. unfold dyn_set2. cbn [name_of_cls fst snd dyn_getitem]. rewrite H1. reflexivity. Qed.

Lemma dyn_del2_ok (o : obj) (c : cls) (bo d d' : obj) (k : key) :
  jassoc (nb c) o = Some (JObj bo) -> jassoc (nsb c) bo = Some (JObj d) -> jdel k d = Some d' ->
  dyn_del2 (JObj o) (@fst str str (name_of_cls c)) (@snd str str (name_of_cls c)) k = Ok (JObj (set_class o c bo d')).
Proof.
  intros H1 H2 H3. unfold dyn_del2. cbn [name_of_cls fst snd dyn_getitem]. rewrite H1. cbn [bind dyn_getitem]. rewrite H2.
  cbn [bind]. rewrite H3. reflexivity.
Qed.

(** setting key k in the dictionary of class c *)
Lemma HoldsW_setkey (o : obj) (h : hdr) (g : cls -> key -> option jv) (c : cls) (k : key) (v : jv) :
  HoldsW o h g -> has_base h (base_of c) = true ->
  exists o', dyn_set2 (JObj o) (@fst str str (name_of_cls c)) (@snd str str (name_of_cls c)) k v = Ok (JObj o') /\
             HoldsW o' h (fun c' k' => if cls_eqb c' c && str_eqb k' k then Some v else g c' k').
Proof.
  intros HH Hb. destruct (hw_dict _ _ _ HH c Hb) as [d [Hd [Hnd Hk]]].
  destruct (class_dict_parts o c d Hd) as [bo [H1 H2]].
  exists (set_class o c bo (jset k v d)). split; [apply dyn_set2_ok; assumption|].
  apply (HoldsW_ext _ _ (fun c' k' => if cls_eqb c' c then jassoc k' (jset k v d) else g c' k')).
  - intros c' k' _. destruct (cls_eqb_spec c' c) as [->|]; cbn [andb]; [|reflexivity].
    rewrite jassoc_jset, Hk. destruct (str_eqb k' k); reflexivity.
  - apply HoldsW_set; [exact HH | exact H1 | apply jset_keys; exact Hnd].
Qed.

(** deleting key k from the dictionary of class c, where it is present *)
Lemma HoldsW_delkey (o : obj) (h : hdr) (g : cls -> key -> option jv) (c : cls) (k : key) :
  HoldsW o h g -> has_base h (base_of c) = true -> g c k <> None ->
  exists o', dyn_del2 (JObj o) (@fst str str (name_of_cls c)) (@snd str str (name_of_cls c)) k = Ok (JObj o') /\
             HoldsW o' h (fun c' k' => if cls_eqb c' c && str_eqb k' k then None else g c' k').
Proof.
  intros HH Hb Hpres. destruct (hw_dict _ _ _ HH c Hb) as [d [Hd [Hnd Hk]]].
  destruct (class_dict_parts o c d Hd) as [bo [H1 H2]].
  pose proof (jdel_spec k d Hnd) as Hj. destruct (jdel k d) as [d'|] eqn:Ej.
  - destruct Hj as [_ [Hnd' Hl]]. exists (set_class o c bo d'). split; [apply (dyn_del2_ok o c bo d d'); assumption|].
    apply (HoldsW_ext _ _ (fun c' k' => if cls_eqb c' c then jassoc k' d' else g c' k')).
    + intros c' k' _. destruct (cls_eqb_spec c' c) as [->|]; cbn [andb]; [|reflexivity].
      rewrite Hl, Hk. destruct (str_eqb k' k); reflexivity.
    + apply HoldsW_set; assumption.
  - exfalso. apply Hpres. rewrite <- Hk. exact Hj.
Qed.

Lemma visible_inv (h : hdr) (s : kst jv) (c : cls) (vs : list jv) :
  visible h s = Some (c, vs) -> s = Some (c, vs) /\ class_valid h c = true.
Proof.
  unfold visible. destruct s as [[c1 v1]|]; [|discriminate]. destruct (class_valid h c1) eqn:E1; [|discriminate].
  intros H. injection H as -> ->. split; [reflexivity|exact E1].
Qed.

(** * _change_class *)

Theorem change_class_st_ref (o : obj) (h : hdr) (f : key -> kst jv) (k : key) (new : cls) :
  Holds o h f -> ndim_ok h = true -> bases_ok h -> kst_storable h (f k) -> visible h (f k) = f k ->
  match change_class_k JNull h (f k) new with
  | Ok s' => exists o', change_class_st classifications (shape h) (n_slices h) preserving_changes (JObj o) k (name_of_cls new)
                        = Ok (tt, JObj o') /\ Holds o' h (upd f k s')
  | Err e => change_class_st classifications (shape h) (n_slices h) preserving_changes (JObj o) k (name_of_cls new) = Err e
  end.
Proof.
  intros HH Hok Hbases Hst Hvis. unfold change_class_st, change_class_k.
  rewrite (get_values_and_class_st_eq o h f HH Hok Hbases k). cbn [bind].
  rewrite (get_changed_class_st_src o h f HH Hok Hbases k), (get_changed_class_src_eq h (f k) k new None Hok Hst).
  unfold values_and_class_of. destruct (visible h (f k)) as [[c vs]|] eqn:Ev; cbv beta iota; cbn [kst_class ocls_eqb py_option_eqb].
  - destruct (visible_inv _ _ _ _ Ev) as [Hf Hcv]. rewrite cname_eq_cls.
    destruct (cls_eqb_spec c new) as [->|Hne].
    + cbn [py_the bind]. exists o. split; [reflexivity|].
      apply (HoldsW_ext _ _ (stored f)); [|exact HH]. intros c' k' _. unfold stored, upd, key_eqb.
      destruct (str_eqb k' k) eqn:E; [|reflexivity]. apply str_eqb_eq in E. subst k'. reflexivity.
    + destruct (changed_class JNull h (f k) new None) as [vals|e]; [|reflexivity]. cbn [rmap bind put].
      unfold put. destruct (has_base h (base_of new)) eqn:Hbn.
      * destruct (HoldsW_setkey o h (stored f) new k (render new vals) HH Hbn) as [o1 [E1 H1]].
        assert (Hbc : has_base h (base_of c) = true) by (apply Hbases; exact Hcv).
        destruct (HoldsW_delkey o1 h _ c k H1 Hbc) as [o2 [E2 H2]].
        { cbn beta. destruct (cls_eqb_spec c new) as [->|_]; [contradiction|]. cbn [andb]. unfold stored. rewrite Hf, cls_eqb_refl. discriminate. }
        exists o2. split; [rewrite E1; cbn [bind]; rewrite E2; reflexivity|].
        unfold Holds. eapply HoldsW_ext; [|exact H2].
        cbn beta. unfold stored, upd, key_eqb. intros c' k' _. destruct (str_eqb k' k) eqn:E.
        -- apply str_eqb_eq in E. subst k'. rewrite !andb_true_r. rewrite Hf.
           destruct (cls_eqb_spec c' c) as [->|Hc1].
           ++ destruct (cls_eqb_spec new c) as [Hx|_]; [exfalso; apply Hne; symmetry; exact Hx|reflexivity].
           ++ destruct (cls_eqb_spec c' new) as [->|Hc2]; [rewrite cls_eqb_refl; reflexivity|].
              destruct (cls_eqb_spec c c') as [Hx|_]; [exfalso; apply Hc1; symmetry; exact Hx|].
              destruct (cls_eqb_spec new c') as [Hx|_]; [exfalso; apply Hc2; symmetry; exact Hx|reflexivity].
        -- rewrite !andb_false_r. reflexivity.
      * rewrite (dyn_set2_nobase o new k _ (hw_nobase _ _ _ HH _ Hbn)). reflexivity.
  - (* the key is absent *)
    assert (Hf : f k = None) by (rewrite <- Hvis; reflexivity).
    destruct (changed_class JNull h (f k) new None) as [vals|e]; [|reflexivity]. cbn [rmap bind put].
    unfold put. destruct (has_base h (base_of new)) eqn:Hbn.
    + destruct (HoldsW_setkey o h (stored f) new k (render new vals) HH Hbn) as [o1 [E1 H1]].
      exists o1. split; [rewrite E1; reflexivity|].
      unfold Holds. eapply HoldsW_ext; [|exact H1].
      cbn beta. unfold stored, upd, key_eqb. intros c' k' _. destruct (str_eqb k' k) eqn:E.
      * apply str_eqb_eq in E. subst k'. rewrite andb_true_r, Hf.
        destruct (cls_eqb_spec c' new) as [->|Hc2]; [rewrite cls_eqb_refl; reflexivity|].
        destruct (cls_eqb_spec new c') as [Hx|_]; [exfalso; apply Hc2; symmetry; exact Hx|reflexivity].
      * rewrite andb_false_r. reflexivity.
    + rewrite (dyn_set2_nobase o new k _ (hw_nobase _ _ _ HH _ Hbn)). reflexivity.
Qed.

(** * _simplify *)

Lemma py_every_eq {A} (p : nat) (l : list A) : py_every p l = every_nth 0 p l.
Proof.
  unfold py_every, every_nth. cbn [skipn]. generalize (length l) as fuel. intros fuel. revert l.
  induction fuel as [|fu IH]; intros l; [reflexivity|]. cbn [py_every_fuel every_nth_fuel].
  destruct l as [|x r]; [reflexivity|]. rewrite IH. reflexivity.
Qed.

Lemma const_period_o_eq (h : hdr) (c d : cls) :
  get_const_period_o classifications (shape h) (n_slices h) (Some (name_of_cls c)) (name_of_cls d) = const_period h c d.
Proof.
  rewrite <- get_const_period_src_eq. unfold get_const_period_o, get_const_period_src. cbn [py_option_eqb].
  repeat match goal with |- context [if ?b then _ else _] => destruct b; cbn [py_the bind]; try reflexivity end.
Qed.

(** the tables _const_tests / _repeat_tests as the code reads them (keys may be None as far as the types know) *)
Definition okeys (t : list (cname * list cname)) : list (option (str * str) * list (str * str)) :=
  map (fun kv => (Some (fst kv), snd kv)) t.

Lemma const_read (c : cls) :
  @py_dict_get (option (str * str)%type) (list (str * str)%type) (py_option_eqb cname_eq) (okeys const_tests) (@Some cname (name_of_cls c))
  = match const_dests c with Some dests => Ok (map name_of_cls dests) | None => Err EKey end.
Proof. destruct c; vm_compute; reflexivity. Qed.

Lemma const_read_none :
  @py_dict_get (option (str * str)%type) (list (str * str)%type) (py_option_eqb cname_eq) (okeys const_tests) (@None cname) = Err EKey.
Proof. vm_compute. reflexivity. Qed.

Lemma repeat_read (c : cls) :
  @py_dict_has (option (str * str)%type) (list (str * str)%type) (py_option_eqb cname_eq) (okeys repeat_tests) (@Some cname (name_of_cls c))
  = is_some (repeat_dests c) /\
  match repeat_dests c with
  | Some rd => @py_dict_get (option (str * str)%type) (list (str * str)%type) (py_option_eqb cname_eq) (okeys repeat_tests) (@Some cname (name_of_cls c))
               = Ok (map name_of_cls rd)
  | None => True
  end.
Proof. destruct c; vm_compute; split; reflexivity || exact I. Qed.

Lemma py_for_b_map {A B R S} (g : A -> B) (l : list A) (s : S) (body : B -> S -> res (ctlb R S)) :
  py_for_b (map g l) s body = py_for_b l s (fun x => body (g x)).
Proof.
  revert s. induction l as [|x r IH]; intros s; [reflexivity|]. cbn [map py_for_b].
  destruct (body (g x) s) as [[rv|s'|s']|e]; cbn [bind]; try reflexivity. apply IH.
Qed.

Lemma const_period_none (h : hdr) (c d : cls) :
  const_period h c d = Ok None -> (is_slices c = true -> n_slices h <> None) -> d = GConst.
Proof.
  intros H Hs. destruct d; [reflexivity|..]; exfalso; destruct c; cbn [const_period] in H; try discriminate H;
    try (destruct (multiplicity h GSlices); cbn [bind] in H; [|discriminate H];
         match type of H with context [multiplicity h ?x] => destruct (multiplicity h x) end; cbn [bind] in H; [|discriminate H];
         match type of H with context [if ?b then _ else _] => destruct b end; discriminate H);
    try (destruct (multiplicity h GSlices); cbn [bind] in H; [|discriminate H];
         match type of H with context [if ?b then _ else _] => destruct b end; discriminate H);
    try (apply (Hs eq_refl); injection H as H; exact H);
    try (unfold shape_at in H; destruct (nth_error (shape h) 3); discriminate H).
Qed.

Section Simplify.
  Variables (o : obj) (h : hdr) (f : key -> kst jv) (k : key) (c : cls) (vs : list jv).
  Hypothesis HH : Holds o h f.
  Hypothesis Hok : ndim_ok h = true.
  Hypothesis Hf : f k = Some (c, vs).
  Hypothesis Hsl : is_slices c = true -> n_slices h <> None.

  (** one iteration of the loop over _const_tests[curr_class], at the unchanged state *)
  Definition const_step {R} (d : cls) : res (ctlb R jv) :=
    if has_base h (base_of d) then
      bind (const_period h c d) (fun period =>
      bind (match period with Some 1 => Ok true | _ => is_constant jv_eqb vs period end) (fun isc =>
      if isc then
        match period with
        | None => bind (hd_res vs) (fun v =>
                  bind (dyn_set2 (JObj o) (@fst str str (name_of_cls d)) (@snd str str (name_of_cls d)) k v) (fun st => Ok (BrkB st)))
        | Some p => bind (dyn_set2 (JObj o) (@fst str str (name_of_cls d)) (@snd str str (name_of_cls d)) k (JArr (every_nth 0 p vs)))
                         (fun st => Ok (BrkB st))
        end
      else Ok (NextB (JObj o))))
    else Ok (NextB (JObj o)).

  (** the dictionaries after `dest[key] = new values` *)
  Definition after_set (d : cls) (vals : list jv) : cls -> key -> option jv :=
    fun c' k' => if cls_eqb c' d && str_eqb k' k then Some (render d vals) else stored f c' k'.

  Lemma const_loop {R} (body : cls -> jv -> res (ctlb R jv)) (dests : list cls) :
    (forall d, body d (JObj o) = const_step d) ->
    match simplify_const jv_eqb h c vs dests with
    | Err e => py_for_b dests (JObj o) body = Err e
    | Ok None => py_for_b dests (JObj o) body = Ok (NextB (JObj o))
    | Ok (Some (d, vals)) => exists o1, py_for_b dests (JObj o) body = Ok (BrkB (JObj o1)) /\ HoldsW o1 h (after_set d vals)
    end.
  Proof.
    intros Hb. induction dests as [|d ds IH]; [reflexivity|].
    cbn [simplify_const py_for_b]. rewrite Hb. unfold const_step.
    destruct (has_base h (base_of d)) eqn:Hbd; [|cbn [bind]; exact IH].
    destruct (const_period h c d) as [period|e] eqn:Ep; [|reflexivity]. cbn [bind].
    destruct (match period with Some 1 => Ok true | _ => is_constant jv_eqb vs period end) as [isc|e]; [|reflexivity]. cbn [bind].
    destruct isc; [|cbn [bind]; exact IH].
    destruct period as [p|].
    - destruct (HoldsW_setkey o h (stored f) d k (JArr (every_nth 0 p vs)) HH Hbd) as [o1 [E1 H1]].
      rewrite E1. cbn [bind]. exists o1. split; [reflexivity|].
      assert (Hd : d <> GConst).
      { intros ->. unfold const_period in Ep. discriminate Ep. }
      unfold after_set. destruct d; try (exfalso; apply Hd; reflexivity); exact H1.
    - destruct (hd_res vs) as [v|e]; [|reflexivity]. cbn [bind].
      destruct (HoldsW_setkey o h (stored f) d k v HH Hbd) as [o1 [E1 H1]].
      rewrite E1. cbn [bind]. exists o1. split; [reflexivity|].
      assert (Hd : d = GConst) by (exact (const_period_none h c d Ep Hsl)).
      subst d. exact H1.
  Qed.

  (** one iteration of the loop over _repeat_tests[curr_class] *)
  Definition repeat_step {R} (d : cls) : res (ctlb R jv) :=
    if has_base h (base_of d) then
      bind (multiplicity h d) (fun dm =>
      bind (is_repeating jv_eqb vs dm) (fun rep =>
      if rep then bind (dyn_set2 (JObj o) (@fst str str (name_of_cls d)) (@snd str str (name_of_cls d)) k (JArr (firstn dm vs)))
                       (fun st => Ok (BrkB st))
      else Ok (NextB (JObj o))))
    else Ok (NextB (JObj o)).

  Lemma repeat_loop {R} (body : cls -> jv -> res (ctlb R jv)) (dests : list cls) :
    (forall d, body d (JObj o) = repeat_step d) -> ~ In GConst dests ->
    match simplify_repeat jv_eqb h vs dests with
    | Err e => py_for_b dests (JObj o) body = Err e
    | Ok None => py_for_b dests (JObj o) body = Ok (NextB (JObj o))
    | Ok (Some (d, vals)) => exists o1, py_for_b dests (JObj o) body = Ok (BrkB (JObj o1)) /\ HoldsW o1 h (after_set d vals)
    end.
  Proof.
    intros Hb Hng. induction dests as [|d ds IH]; [reflexivity|].
    assert (IH' := IH (fun Hx => Hng (or_intror Hx))).
    cbn [simplify_repeat py_for_b]. rewrite Hb. unfold repeat_step.
    destruct (has_base h (base_of d)) eqn:Hbd; [|cbn [bind]; exact IH'].
    destruct (multiplicity h d) as [dm|e]; [|reflexivity]. cbn [bind].
    destruct (is_repeating jv_eqb vs dm) as [rep|e]; [|reflexivity]. cbn [bind].
    destruct rep; [|cbn [bind]; exact IH'].
    destruct (HoldsW_setkey o h (stored f) d k (JArr (firstn dm vs)) HH Hbd) as [o1 [E1 H1]].
    rewrite E1. cbn [bind]. exists o1. split; [reflexivity|].
    unfold after_set. destruct d; try exact H1. exfalso. apply Hng. left. reflexivity.
  Qed.
End Simplify.

Lemma has_base_contains (o : obj) (h : hdr) (g : cls -> key -> option jv) (d : cls) : HoldsW o h g ->
  dyn_contains (JObj o) (JStr (@fst str str (name_of_cls d))) = Ok (has_base h (base_of d)).
Proof.
  intros HH. cbn [dyn_contains name_of_cls fst]. destruct (has_base h (base_of d)) eqn:Hb.
  - destruct (hw_dict _ _ _ HH d Hb) as [dd [Hd _]]. destruct (class_dict_parts o d dd Hd) as [bo [H1 _]]. rewrite H1. reflexivity.
  - rewrite (hw_nobase _ _ _ HH _ Hb). reflexivity.
Qed.

Lemma dyn_is_none_eq (v : jv) : dyn_is_none v = jv_eqb v JNull.
Proof. destruct v; reflexivity. Qed.

Lemma pslice_all {A} (l : list A) : pslice None None l = l.
Proof. unfold pslice. cbn [skipn]. rewrite Nat.sub_0_r. apply firstn_all. Qed.

Lemma simplify_const_in (h : hdr) (c : cls) (vs : list jv) (dests : list cls) d vals :
  simplify_const jv_eqb h c vs dests = Ok (Some (d, vals)) -> In d dests.
Proof.
  induction dests as [|x r IH]; cbn [simplify_const]; [discriminate|].
  destruct (has_base h (base_of x)); [|intros H; right; apply IH; exact H].
  destruct (const_period h c x) as [period|]; [|discriminate]. cbn [bind].
  destruct (match period with Some 1 => Ok true | _ => is_constant jv_eqb vs period end) as [[]|]; cbn [bind]; try discriminate.
  - destruct period as [p|]; [|destruct (hd_res vs); cbn [bind]; [|discriminate]]; intros H; injection H as <- _; left; reflexivity.
  - intros H. right. apply IH. exact H.
Qed.

Lemma simplify_repeat_in (h : hdr) (vs : list jv) (dests : list cls) d vals :
  simplify_repeat jv_eqb h vs dests = Ok (Some (d, vals)) -> In d dests.
Proof.
  induction dests as [|x r IH]; cbn [simplify_repeat]; [discriminate|].
  destruct (has_base h (base_of x)); [|intros H; right; apply IH; exact H].
  destruct (multiplicity h x) as [dm|]; [|discriminate]. cbn [bind].
  destruct (is_repeating jv_eqb vs dm) as [[]|]; cbn [bind]; try discriminate.
  - intros H. injection H as <- _. left. reflexivity.
  - intros H. right. apply IH. exact H.
Qed.

Lemma dests_not_self (c : cls) :
  (forall l, const_dests c = Some l -> ~ In c l) /\ (forall l, repeat_dests c = Some l -> ~ In c l /\ ~ In GConst l).
Proof.
  destruct c; split; intros l H; vm_compute in H; try discriminate H; injection H as <-; cbn; intuition discriminate.
Qed.

(** after `dest[key] = values`, `del cur[key]`: the content holds the key in its new class *)
Lemma set_then_del (o1 : obj) (h : hdr) (f : key -> kst jv) (k : key) (c d : cls) (vs vals : list jv) :
  f k = Some (c, vs) -> d <> c -> has_base h (base_of c) = true ->
  HoldsW o1 h (after_set f k d vals) ->
  exists o2, dyn_del2 (JObj o1) (@fst str str (name_of_cls c)) (@snd str str (name_of_cls c)) k = Ok (JObj o2) /\
             Holds o2 h (upd f k (Some (d, vals))).
Proof.
  intros Hf Hne Hbc H1.
  destruct (HoldsW_delkey o1 h _ c k H1 Hbc) as [o2 [E2 H2]].
  { unfold after_set. destruct (cls_eqb_spec c d) as [Hx|_]; [exfalso; apply Hne; symmetry; exact Hx|]. cbn [andb].
    unfold stored. rewrite Hf, cls_eqb_refl. discriminate. }
  exists o2. split; [exact E2|]. unfold Holds. eapply HoldsW_ext; [|exact H2].
  cbn beta. unfold after_set, stored, upd, key_eqb. intros c' k' _. destruct (str_eqb k' k) eqn:E.
  - apply str_eqb_eq in E. subst k'. rewrite !andb_true_r, Hf.
    destruct (cls_eqb_spec c' c) as [->|Hc1].
    + destruct (cls_eqb_spec d c) as [Hx|_]; [contradiction|reflexivity].
    + destruct (cls_eqb_spec c' d) as [->|Hc2]; [rewrite cls_eqb_refl; reflexivity|].
      destruct (cls_eqb_spec c c') as [Hx|_]; [exfalso; apply Hc1; symmetry; exact Hx|].
      destruct (cls_eqb_spec d c') as [Hx|_]; [exfalso; apply Hc2; symmetry; exact Hx|reflexivity].
  - rewrite !andb_false_r. reflexivity.
Qed.

Definition simplify_run (h : hdr) (o : obj) (k : key) : res (bool * jv) :=
  simplify_st classifications (shape h) (n_slices h) (okeys const_tests) (okeys repeat_tests) (JObj o) k.

Theorem simplify_st_ref (o : obj) (h : hdr) (f : key -> kst jv) (k : key) :
  Holds o h f -> ndim_ok h = true -> bases_ok h -> kst_storable h (f k) -> visible h (f k) = f k ->
  (forall c vs, f k = Some (c, vs) -> is_slices c = true -> n_slices h <> None) ->
  match simplify_k jv_eqb JNull h (f k) with
  | Ok s' => exists b o', simplify_run h o k = Ok (b, JObj o') /\ Holds o' h (upd f k s')
  | Err e => simplify_run h o k = Err e
  end.
Proof.
  intros HH Hok Hbases Hst Hvis Hsl. unfold simplify_run, simplify_st, simplify_k.
  rewrite (get_values_and_class_st_eq o h f HH Hok Hbases k). cbn [bind].
  assert (Hsame : Holds o h (upd f k (f k))).
  { apply (HoldsW_ext _ _ (stored f)); [|exact HH]. intros c' k' _. unfold stored, upd, key_eqb.
    destruct (str_eqb k' k) eqn:E; [|reflexivity]. apply str_eqb_eq in E. subst k'. reflexivity. }
  unfold values_and_class_of, kst_storable in *.
  destruct (visible h (f k)) as [[c vs]|] eqn:Ev; cbv beta iota.
  2:{ change (py_option_eqb cname_eq None (Some _)) with false. cbv iota. rewrite const_read_none. reflexivity. }
  destruct (visible_inv _ _ _ _ Ev) as [Hf Hcv].
  change (py_option_eqb cname_eq (Some (name_of_cls c)) (Some ?x)) with (cname_eq (name_of_cls c) x).
  rewrite lit_gconst, cname_eq_cls.
  assert (Hbc : has_base h (base_of c) = true) by (apply Hbases; exact Hcv).
  destruct (cls_eqb_spec c GConst) as [->|Hng].
  - (* a constant: deleted when its value is None *)
    cbn [py_the bind render]. destruct vs as [|v [|w r]]; try discriminate Hst. cbn [hd]. rewrite dyn_is_none_eq.
    destruct (jv_eqb v JNull).
    + destruct (HoldsW_delkey o h (stored f) GConst k HH Hbc) as [o2 [E2 H2]].
      { unfold stored. rewrite Hf. discriminate. }
      exists true, o2. split; [rewrite E2; reflexivity|].
      unfold Holds. eapply HoldsW_ext; [|exact H2]. cbn beta. unfold stored, upd, key_eqb. intros c' k' _.
      destruct (str_eqb k' k) eqn:E; [|rewrite andb_false_r; reflexivity].
      apply str_eqb_eq in E. subst k'. rewrite andb_true_r, Hf.
      destruct (cls_eqb_spec c' GConst) as [->|Hc1]; [reflexivity|].
      destruct (cls_eqb_spec GConst c') as [Hx|_]; [exfalso; apply Hc1; symmetry; exact Hx|reflexivity].
    + exists false, o. split; [reflexivity | exact Hsame].
  - (* a varying class *)
    assert (Hrender : render c vs = JArr vs) by (destruct c; try reflexivity; contradiction).
    rewrite Hrender. rewrite const_read.
    replace (match c with GConst => _ | _ => _ end) with
      (match const_dests c with
       | Some dests => bind (simplify_const jv_eqb h c vs dests) (fun r => match r with
           | Some x => Ok (Some x)
           | None => match repeat_dests c with
                     | Some rd => bind (simplify_repeat jv_eqb h vs rd) (fun r2 => match r2 with Some x => Ok (Some x) | None => Ok (f k) end)
                     | None => Ok (f k) end end)
       | None => Err EKey end)
      by (rewrite Hf; destruct c; try reflexivity; contradiction).
    destruct (const_dests c) as [dests|] eqn:Ecd; [|reflexivity]. cbn [bind]. cbv zeta.
    destruct (dests_not_self c) as [Hns1 Hns2].
    rewrite py_for_b_map.
    match goal with |- context [py_for_b dests (JObj o) ?b] => pose proof (const_loop o h f k c vs HH (Hsl c vs Hf) b dests) as Hloop end.
    cbv beta in Hloop.
    match type of Hloop with ?P -> _ => assert (Hb : P) end.
    { intros d. unfold const_step. rewrite (has_base_contains o h _ d HH). cbn [bind].
      destruct (has_base h (base_of d)); [|reflexivity].
      rewrite const_period_o_eq. destruct (const_period h c d) as [period|]; [|reflexivity]. cbn [bind]. cbv zeta.
      cbn [dyn_seq bind]. rewrite is_constant_src_eq.
      destruct period as [[|[|p]]|]; cbn [py_option_eqb Nat.eqb bind].
      - unfold is_constant. cbn [Nat.leb]. reflexivity.
      - cbn [dyn_slice_step Nat.eqb]. rewrite pslice_all, py_every_eq. reflexivity.
      - destruct (is_constant jv_eqb vs (Some (S (S p)))) as [[]|]; cbn [bind]; try reflexivity.
        cbn [dyn_slice_step Nat.eqb]. rewrite pslice_all, py_every_eq. reflexivity.
      - destruct (is_constant jv_eqb vs None) as [[]|]; cbn [bind]; try reflexivity.
        cbn [dyn_getidx]. rewrite hd_index. reflexivity. }
    specialize (Hloop Hb). clear Hb.
    destruct (simplify_const jv_eqb h c vs dests) as [[[d vals]|]|e] eqn:Esc.
    + destruct Hloop as [o1 [E1 H1]]. rewrite E1. cbn [bind py_some].
      assert (Hdc : d <> c) by (intros ->; exact (Hns1 dests Ecd (simplify_const_in _ _ _ _ _ _ Esc))).
      destruct (set_then_del o1 h f k c d vs vals Hf Hdc Hbc H1) as [o2 [E2 H2]].
      exists true, o2. split; [rewrite E2; reflexivity | exact H2].
    + rewrite Hloop. cbn [bind]. destruct (repeat_read c) as [Hhas Hget]. rewrite Hhas.
      destruct (repeat_dests c) as [rd|] eqn:Erd; cbn [is_some].
      2:{ exists false, o. split; [reflexivity | exact Hsame]. }
      rewrite Hget. cbn [bind]. rewrite py_for_b_map.
      destruct (Hns2 rd eq_refl) as [Hnself Hngc].
      match goal with |- context [py_for_b rd (JObj o) ?b] => pose proof (repeat_loop o h f k vs HH b rd) as Hloop2 end.
      cbv beta in Hloop2.
      match type of Hloop2 with ?P -> _ => assert (Hb : P) end.
      { intros d. unfold repeat_step. rewrite (has_base_contains o h _ d HH). cbn [bind].
        destruct (has_base h (base_of d)); [|reflexivity].
        rewrite get_multiplicity_src_eq. destruct (multiplicity h d) as [dm|]; [|reflexivity]. cbn [bind]. cbv zeta.
        cbn [dyn_seq bind]. rewrite is_repeating_src_eq.
        destruct (is_repeating jv_eqb vs dm) as [[]|]; cbn [bind]; try reflexivity.
        cbn [dyn_slice bind]. rewrite pslice_to. reflexivity. }
      specialize (Hloop2 Hb Hngc). clear Hb.
      destruct (simplify_repeat jv_eqb h vs rd) as [[[d vals]|]|e] eqn:Esr.
      * destruct Hloop2 as [o1 [E1 H1]]. rewrite E1. cbn [bind py_some].
        assert (Hdc : d <> c) by (intros ->; exact (Hnself (simplify_repeat_in _ _ _ _ _ Esr))).
        destruct (set_then_del o1 h f k c d vs vals Hf Hdc Hbc H1) as [o2 [E2 H2]].
        exists true, o2. split; [rewrite E2; reflexivity | exact H2].
      * rewrite Hloop2. cbn [bind]. exists false, o. split; [reflexivity | exact Hsame].
      * rewrite Hloop2. reflexivity.
    + rewrite Hloop. reflexivity.
Qed.
