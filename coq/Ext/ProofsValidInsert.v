(** C07: one [_insert] step of a merge keeps every key's value count right.
    The step is described abstractly by [step_facts]: [hs] is the header of the accumulating result
    before the step, [hs'] after it (the merge coordinate grows by one), [ho] the header of the input
    being inserted.  Ext/ProofsValidMerge.v instantiates it for [from_sequence]. *)
From Coq Require Import List Bool Arith Lia.
From DV Require Import Common.Res Common.Str Ext.Types Ext.Classes Ext.Seq Ext.Model Ext.Spec
     Ext.TableFacts Ext.ValidFacts Ext.ProofsValidBase Ext.ProofsValidSimplify.
Import ListNotations.
Local Open Scope nat_scope.

(** the four kinds of merge axis, in terms of (slices, time points, vector components) *)
Definition step_mode (hs hs' ho : hdr) (dim : nat) (nS nT nV : nat) : Prop :=
  (* the slice dimension *)
  (odim_is (sdim hs) dim = true /\ dims ho = (1, nT, nV) /\ dims hs' = (nS + 1, nT, nV) /\
   (forall c, class_ok (shape hs) c = class_ok (shape ho) c)) \/
  (* a spatial dimension that is not the slice dimension *)
  (odim_is (sdim hs) dim = false /\ dim < 3 /\ dims ho = (nS, nT, nV) /\ dims hs' = (nS, nT, nV) /\
   (forall c, class_ok (shape hs) c = class_ok (shape ho) c)) \/
  (* time *)
  (odim_is (sdim hs) dim = false /\ dim = 3 /\ dims ho = (nS, 1, nV) /\ dims hs' = (nS, nT + 1, nV) /\
   ((ndim hs = 5 /\ ndim ho = 5) \/ (ndim hs = 4 /\ nV = 1 /\ ndim ho <= 4))) \/
  (* vector *)
  (odim_is (sdim hs) dim = false /\ dim = 4 /\ dims ho = (nS, nT, 1) /\ dims hs' = (nS, nT, nV + 1) /\ ndim hs = 5).

Record step_facts (hs hs' ho : hdr) (dim : nat) : Prop := {
  sf_wf_s : shape_wf hs;
  sf_wf_s' : shape_wf hs';
  sf_wf_o : shape_wf ho;
  sf_sd_o : sdim ho = sdim hs;
  sf_sd' : sdim hs' = sdim hs;
  sf_sub : forall c, class_ok (shape ho) c = true -> class_ok (shape hs) c = true;
  sf_mono : forall c, class_ok (shape hs) c = true -> class_ok (shape hs') c = true;
  sf_mode : exists nS nT nV, dims hs = (nS, nT, nV) /\ step_mode hs hs' ho dim nS nT nV }.

Lemma mult_spec_mono (a b : pos) c :
  (let '(s1, t1, v1) := a in let '(s2, t2, v2) := b in s1 <= s2 /\ t1 <= t2 /\ v1 <= v2) ->
  mult_spec a c <= mult_spec b c.
Proof.
  destruct a as [[s1 t1] v1], b as [[s2 t2] v2]. intros [H1 [H2 H3]].
  destruct c; cbn [mult_spec]; try lia; try (apply Nat.mul_le_mono; try lia); try (apply Nat.mul_le_mono; lia).
Qed.

Section WithV.
  Context {V : Type} (veqb : V -> V -> bool) (vnone : V).

  Notation kst := (kst V).
  Notation kvalid := (@kvalid V).
  Notation knondeg := (@knondeg V).

  (** no varying class of multiplicity one, except possibly ('global','slices'), which the final
      simplification pass of [from_sequence] takes care of *)
  Definition knd (h : hdr) (s : kst) : Prop :=
    match s with
    | None => True
    | Some (c, _) => c <> GConst -> c <> GSlices -> mult_spec (dims h) c <> 1
    end.

  (** class of a key of the other input; a missing key counts as ('global','const') *)
  Definition oclass (ko : kst) : cls := match ko with Some (c, _) => c | None => GConst end.

  Lemma knondeg_knd h s : knondeg h s -> knd h s.
  Proof. destruct s as [[c vs]|]; cbn; auto. Qed.

  Section Step.
    Variables (hs hs' ho : hdr) (dim : nat).
    Hypothesis SF : step_facts hs hs' ho dim.

    Let Hwfs := sf_wf_s _ _ _ _ SF.
    Let Hwfs' := sf_wf_s' _ _ _ _ SF.
    Let Hwfo := sf_wf_o _ _ _ _ SF.

    Lemma sdarg_ok : sdim ho = None -> sdim hs = None.
    Proof. intros H. rewrite <- (sf_sd_o _ _ _ _ SF). exact H. Qed.

    (** coordinate-wise order of the three headers *)
    Lemma dims_order :
      (let '(s1, t1, v1) := dims ho in let '(s2, t2, v2) := dims hs in s1 <= s2 /\ t1 <= t2 /\ v1 <= v2) /\
      (let '(s1, t1, v1) := dims hs in let '(s2, t2, v2) := dims hs' in s1 <= s2 /\ t1 <= t2 /\ v1 <= v2).
    Proof.
      destruct (sf_mode _ _ _ _ SF) as [nS [nT [nV [Hd Hm]]]].
      pose proof (dims_pos hs Hwfs) as Hp. rewrite Hd in *. destruct Hp as [HS [HT HV]].
      destruct Hm as [[_ [Ho [Hs' _]]] | [[_ [_ [Ho [Hs' _]]]] | [[_ [_ [Ho [Hs' _]]]] | [_ [_ [Ho [Hs' _]]]]]]];
        rewrite Ho, Hs'; repeat split; lia.
    Qed.

    Lemma kvalid_next (s : kst) : kvalid hs s -> knd hs s ->
      (forall c vs, s = Some (c, vs) -> mult_spec (dims hs') c = mult_spec (dims hs) c) ->
      kvalid hs' s /\ knd hs' s.
    Proof.
      intros Hk Hn Hm. destruct s as [[c vs]|]; [|split; exact I].
      specialize (Hm c vs eq_refl). destruct Hk as [Hok [Hs Hl]]. split.
      - split; [apply (sf_mono _ _ _ _ SF); exact Hok|]. split; [rewrite (sf_sd' _ _ _ _ SF); exact Hs | rewrite Hm; exact Hl].
      - cbn [knd] in *. rewrite Hm. exact Hn.
    Qed.

    (** * reclassification *)
    Lemma reclassify_k_inv (oc : cls) (ks ks1 : kst) :
      kvalid hs ks -> knd hs ks ->
      class_ok (shape hs) oc = true -> (is_slices oc = true -> sdim hs <> None) ->
      (oc <> GConst -> mult_spec (dims hs) oc <> 1) ->
      reclassify_k vnone hs ks oc = Ok ks1 ->
      exists c1 vs1, ks1 = Some (c1, vs1) /\ kvalid hs ks1 /\ knd hs ks1 /\
                     (c1 = oc \/ In c1 (preserving_f (Some oc))).
    Proof.
      intros Hk Hn Hoc Hocs Hocm H. unfold reclassify_k in H.
      assert (Hvis : visible hs ks = ks).
      { destruct ks as [[c vs]|]; [apply visible_kvalid; exact Hk | reflexivity]. }
      rewrite Hvis in H.
      destruct (ocls_eqb (kst_class ks) (Some oc)) eqn:Esame.
      - injection H as <-. destruct ks as [[c vs]|]; cbn [kst_class ocls_eqb] in Esame; [|discriminate].
        apply cls_eqb_eq in Esame. subst c. exists oc, vs. split; [reflexivity|]. split; [exact Hk|]. split; [exact Hn|]. left; reflexivity.
      - rewrite !preserving_is in H.
        destruct (mem_cls oc (preserving_f (kst_class ks))) eqn:Emem.
        + destruct (change_class_k_valid vnone hs ks ks1 oc Hwfs Hk H) as [vs' [-> Hkv]].
          exists oc, vs'. split; [reflexivity|]. split; [apply Hkv; exact Hoc|]. split; [|left; reflexivity].
          intros Hc _. apply Hocm. exact Hc.
        + destruct ks as [[c vs]|]; cbn [kst_class] in *.
          2:{ exfalso. destruct oc; discriminate Emem. }
          destruct (mem_cls c (preserving_f (Some oc))) eqn:Emem2; cbn [negb] in H.
          * injection H as <-. exists c, vs. split; [reflexivity|]. split; [exact Hk|]. split; [exact Hn|].
            right. apply mem_cls_In. exact Emem2.
          * assert (Hfind : find (fun d => has_base hs (base_of d) && mem_cls d (preserving_f (Some oc)))
                                 (preserving_f (Some c)) = Some GSlices \/
                            find (fun d => has_base hs (base_of d) && mem_cls d (preserving_f (Some oc)))
                                 (preserving_f (Some c)) = None).
            { destruct c, oc; cbn in Esame, Emem, Emem2; try discriminate;
                cbn [preserving_f find mem_cls existsb cls_eqb orb base_of has_base];
                destruct (has_time hs), (has_vec hs); cbn [andb]; auto. }
            destruct Hfind as [Hf|Hf]; rewrite Hf in H; [|discriminate].
            destruct (change_class_k_valid vnone hs _ ks1 GSlices Hwfs Hk H) as [vs' [-> Hkv]].
            exists GSlices, vs'. split; [reflexivity|].
            split; [apply Hkv; apply class_ok_global; [apply Hwfs | reflexivity]|].
            split; [intros _ Hx; contradiction|].
            right. destruct c, oc; cbn in Esame, Emem, Emem2; try discriminate; cbn [preserving_f In]; auto.
    Qed.

    (** the value count of the other input's values, widened to class [new] *)
    Lemma other_len (ko : kst) new r :
      kvalid ho ko -> changed_class vnone ho ko new (sdim hs) = Ok r ->
      class_ok (shape ho) new = true ->
      length r = mult_spec (dims ho) new /\ (is_slices new = true -> sdim hs <> None).
    Proof.
      intros Hk H Hok.
      destruct (changed_class_len vnone ho ko new (sdim hs) r Hwfo Hk sdarg_ok H) as [H1 _].
      destruct (H1 Hok) as [Hl Hs]. split; [exact Hl|]. rewrite <- (sf_sd_o _ _ _ _ SF). exact Hs.
    Qed.

    Lemma to_global_slices_len (ks1 ko : kst) c1 lv ov lo :
      ks1 = Some (c1, lv) -> kvalid hs ks1 -> kvalid ho ko ->
      (c1 = GSlices -> length ov = mult_spec (dims ho) GSlices) ->
      to_global_slices vnone hs ho ks1 ko c1 lv ov = Ok lo ->
      length (fst lo) = mult_spec (dims hs) GSlices /\ length (snd lo) = mult_spec (dims ho) GSlices /\
      sdim hs <> None.
    Proof.
      intros -> Hk Hko Hov H. unfold to_global_slices in H.
      destruct (cls_eqb_spec c1 GSlices) as [->|Hne].
      - injection H as <-. cbn [fst snd]. destruct Hk as [_ [Hs Hl]]. repeat split; auto.
      - apply bind_ok in H as [ks2 [Hks2 H]].
        destruct (change_class_k_valid vnone hs _ ks2 GSlices Hwfs Hk Hks2) as [vs' [-> Hkv]].
        assert (Hg : class_ok (shape hs) GSlices = true) by (apply class_ok_global; [apply Hwfs | reflexivity]).
        specialize (Hkv Hg). rewrite (visible_kvalid _ _ _ Hkv) in H.
        apply bind_ok in H as [ov2 [Hov2 H]]. injection H as <-. cbn [fst snd].
        assert (Hgo : class_ok (shape ho) GSlices = true) by (apply class_ok_global; [apply Hwfo | reflexivity]).
        destruct (other_len ko GSlices ov2 Hko Hov2 Hgo) as [Hl Hs].
        destruct Hkv as [_ [_ Hl2]]. repeat split; auto.
    Qed.

    (** * along the slice dimension *)
    Lemma insert_slice_k_inv nS nT nV (ks1 ko : kst) c1 lv r :
      dims hs = (nS, nT, nV) ->
      odim_is (sdim hs) dim = true -> dims ho = (1, nT, nV) -> dims hs' = (nS + 1, nT, nV) ->
      (forall c, class_ok (shape hs) c = class_ok (shape ho) c) ->
      ks1 = Some (c1, lv) -> kvalid hs ks1 -> knd hs ks1 -> kvalid ho ko ->
      insert_slice_k veqb vnone hs ho ks1 ko = Ok r -> kvalid hs' r /\ knd hs' r.
    Proof.
      intros Hd Hod Hdo Hd' Hcls -> Hk Hn Hko H.
      pose proof (dims_pos hs Hwfs) as Hp. rewrite Hd in Hp. destruct Hp as [HS [HT HV]].
      assert (Hsd : exists d, sdim hs = Some d).
      { unfold odim_is in Hod. destruct (sdim hs); [eauto | discriminate]. }
      destruct Hsd as [sd Hsd].
      assert (Hsd'' : sdim hs' <> None) by (rewrite (sf_sd' _ _ _ _ SF), Hsd; discriminate).
      unfold insert_slice_k in H. rewrite (visible_kvalid _ _ _ Hk) in H.
      apply bind_ok in H as [ov [Hov H]].
      pose proof Hk as [Hok1 [Hs1 Hl1]]. rewrite Hd in Hl1.
      assert (Hoko : class_ok (shape ho) c1 = true) by (rewrite <- Hcls; exact Hok1).
      destruct (other_len ko c1 ov Hko Hov Hoko) as [Hlov _]. rewrite Hdo in Hlov.
      assert (Hgen : forall lo, to_global_slices vnone hs ho (Some (c1, lv)) ko c1 lv ov = Ok lo ->
                match n_slices hs, n_slices ho with
                | Some n, Some m => Ok (Some (GSlices, interleave n m (prod_list (skipn 3 (shape hs))) (fst lo) (snd lo)))
                | _, _ => Err EType
                end = Ok r -> kvalid hs' r /\ knd hs' r).
      { intros lo Hlo Hr.
        destruct (to_global_slices_len _ ko c1 lv ov lo eq_refl Hk Hko) as [Hl1' [Hl2' _]]; [intros Hc1; rewrite Hdo, <- Hc1; exact Hlov | exact Hlo |].
        rewrite Hd in Hl1'. rewrite Hdo in Hl2'. cbn [mult_spec] in Hl1', Hl2'.
        rewrite (n_slices_dims hs sd Hwfs Hsd), Hd in Hr. cbn [fst] in Hr.
        rewrite (n_slices_dims ho sd Hwfo) in Hr by (rewrite (sf_sd_o _ _ _ _ SF); exact Hsd).
        rewrite Hdo in Hr. cbn [fst] in Hr. rewrite (prod_skip3_dims hs Hwfs), Hd in Hr. cbn [fst snd] in Hr.
        injection Hr as <-. split; [|intros _ Hx; contradiction].
        split; [apply class_ok_global; [apply Hwfs' | reflexivity]|]. split; [intros _; exact Hsd''|].
        rewrite Hd'. cbn [mult_spec]. rewrite interleave_len; nia. }
      destruct c1.
      - (* GConst *)
        destruct (negb (list_eqb veqb lv ov)).
        + rewrite insert_slice_bases_is in H.
          assert (Hb : exists b, find (has_base hs) [BTime; BVector; BGlobal] = Some b).
          { cbn [find has_base]. destruct (has_time hs); [eauto|]. destruct (has_vec hs); eauto. }
          destruct Hb as [b Hb]. rewrite Hb in H.
          apply bind_ok in H as [ks2 [Hks2 H]]. apply bind_ok in H as [ov2 [Hov2 H]].
          destruct (change_class_k_valid vnone hs _ ks2 (slices_of_base b) Hwfs Hk Hks2) as [lv2 [-> Hkv2]].
          destruct (visible hs (Some (slices_of_base b, lv2))) as [[c2 lv2']|] eqn:Evis; [|discriminate].
          apply visible_some in Evis as [Heq Hokb]. injection Heq as <- <-. injection H as <-.
          specialize (Hkv2 Hokb). destruct Hkv2 as [_ [_ Hl2]]. rewrite Hd in Hl2.
          assert (Hokbo : class_ok (shape ho) (slices_of_base b) = true) by (rewrite <- Hcls; exact Hokb).
          destruct (other_len ko _ ov2 Hko Hov2 Hokbo) as [Hlov2 _]. rewrite Hdo in Hlov2.
          split.
          * split; [apply (sf_mono _ _ _ _ SF); exact Hokb|]. split; [intros _; exact Hsd''|].
            rewrite app_length, Hl2, Hlov2, Hd'. destruct b; cbn [slices_of_base mult_spec]; nia.
          * cbn [knd]. intros _ _. rewrite Hd'. destruct b; cbn [slices_of_base mult_spec]; nia.
        + injection H as <-. apply kvalid_next; [exact Hk | exact Hn|].
          intros c vs Heq. injection Heq as <- <-. destruct (dims hs') as [[? ?] ?], (dims hs) as [[? ?] ?]. reflexivity.
      - apply bind_ok in H as [lo [Hlo H]]. apply (Hgen lo Hlo H).
      - apply bind_ok in H as [lo [Hlo H]]. apply (Hgen lo Hlo H).
      - (* TSlices *)
        injection H as <-. cbn [mult_spec] in *. split.
        + split; [apply (sf_mono _ _ _ _ SF); exact Hok1|]. split; [intros _; exact Hsd''|].
          rewrite app_length, Hl1, Hlov, Hd'. cbn [mult_spec]. lia.
        + cbn [knd]. intros _ _. rewrite Hd'. cbn [mult_spec]. lia.
      - apply bind_ok in H as [lo [Hlo H]]. apply (Hgen lo Hlo H).
      - apply bind_ok in H as [lo [Hlo H]]. apply (Hgen lo Hlo H).
    Qed.

    (** * along a spatial dimension that is not the slice dimension *)
    Lemma insert_non_slice_k_inv (ks1 ko : kst) r :
      dims hs' = dims hs ->
      kvalid hs ks1 -> knd hs ks1 ->
      insert_non_slice_k veqb vnone hs ho ks1 ko = Ok r -> kvalid hs' r /\ knd hs' r.
    Proof.
      intros Hd' Hk Hn H. unfold insert_non_slice_k in H.
      destruct (visible hs ks1) as [[c lv]|]; [|discriminate].
      apply bind_ok in H as [ov [_ H]].
      destruct (list_eqb veqb lv ov); injection H as <-; [|split; exact I].
      apply kvalid_next; [exact Hk | exact Hn|]. intros c0 vs0 _. rewrite Hd'. reflexivity.
    Qed.

    (** * along time or vector *)
    Lemma insert_sample_k_inv nS nT nV (sb : cbase) (sc : cls) (ks1 ko : kst) c1 lv r :
      dims hs = (nS, nT, nV) ->
      samples_of_base sb = Some sc ->
      (sb = BTime /\ dims ho = (nS, 1, nV) /\ dims hs' = (nS, nT + 1, nV) /\
       ((ndim hs = 5 /\ ndim ho = 5) \/ (ndim hs = 4 /\ nV = 1 /\ ndim ho <= 4))) \/
      (sb = BVector /\ dims ho = (nS, nT, 1) /\ dims hs' = (nS, nT, nV + 1) /\ ndim hs = 5) ->
      ks1 = Some (c1, lv) -> kvalid hs ks1 -> knd hs ks1 -> kvalid ho ko ->
      (c1 = oclass ko \/ In c1 (preserving_f (Some (oclass ko)))) ->
      insert_sample_k veqb vnone hs ho ks1 ko sb = Ok r -> kvalid hs' r /\ knd hs' r.
    Proof.
      intros Hd Hsc Hmode -> Hk Hn Hko Hrel H.
      pose proof (dims_pos hs Hwfs) as Hp. rewrite Hd in Hp. destruct Hp as [HS [HT HV]].
      unfold insert_sample_k in H. rewrite (visible_kvalid _ _ _ Hk), Hsc in H.
      apply bind_ok in H as [ov [Hov H]].
      pose proof Hk as [Hok1 [Hs1 Hl1]]. rewrite Hd in Hl1.
      set (t5d := cbase_eqb sb BTime && (ndim hs =? 5)) in *.
      assert (Hscns : is_slices sc = false).
      { destruct sb; cbn [samples_of_base] in Hsc; try discriminate; injection Hsc as <-; reflexivity. }
      (* the other input contributes exactly one value under the sample class *)
      assert (HA : t5d = false -> forall ov', changed_class vnone ho ko sc (sdim hs) = Ok ov' ->
                   (sc = oclass ko \/ In sc (preserving_f (Some (oclass ko)))) -> length ov' = 1).
      { intros Ht ov' Hov' Hr.
        destruct (class_ok (shape ho) sc) eqn:Eok.
        - destruct (other_len ko sc ov' Hko Hov' Eok) as [Hl _]. rewrite Hl.
          destruct Hmode as [[-> [Hdo [_ Hnd]]] | [-> [Hdo _]]]; cbn [samples_of_base] in Hsc; injection Hsc as <-;
            rewrite Hdo; cbn [mult_spec]; [|reflexivity].
          destruct Hnd as [[E5 _]|[_ [-> _]]]; [|reflexivity].
          subst t5d. rewrite E5 in Ht. discriminate Ht.
        - destruct (changed_class_len vnone ho ko sc (sdim hs) ov' Hwfo Hko sdarg_ok Hov') as [_ H2].
          apply (H2 Eok).
          destruct ko as [[c vs]|]; [right | left; reflexivity]. cbn [oclass] in Hr.
          destruct Hko as [Hokc _].
          destruct Hr as [->|Hin]; [congruence|].
          destruct Hmode as [[-> [Hdo [_ Hnd]]] | [-> [Hdo _]]]; cbn [samples_of_base] in Hsc; injection Hsc as <-.
          + destruct c; cbn [preserving_f In] in Hin; try (exfalso; intuition discriminate); [eauto|].
            exfalso. rewrite (class_ok_ndim ho VSamples Hwfo) in Hokc. cbn [base_of] in Hokc. apply Nat.eqb_eq in Hokc.
            destruct Hnd as [[E5 _]|[_ [_ Hle]]]; [|lia]. subst t5d. rewrite E5 in Ht. discriminate Ht.
          + destruct c; cbn [preserving_f In] in Hin; try (exfalso; intuition discriminate). eauto. }
      assert (Hsd'' : sdim hs <> None -> sdim hs' <> None) by (rewrite (sf_sd' _ _ _ _ SF); auto).
      (* arithmetic of the sample class *)
      assert (Hsample : t5d = false -> mult_spec (dims hs) sc + 1 = mult_spec (dims hs') sc /\ mult_spec (dims hs') sc <> 1).
      { intros Ht. rewrite Hd. destruct Hmode as [[-> [_ [Hd' Hnd]]] | [-> [_ [Hd' _]]]]; cbn [samples_of_base] in Hsc; injection Hsc as <-;
          rewrite Hd'; cbn [mult_spec]; [|split; lia].
        destruct Hnd as [[E5 _]|[_ [-> _]]]; [|split; lia].
        subst t5d. rewrite E5 in Ht. discriminate Ht. }
      destruct (cls_eqb c1 GConst && negb t5d) eqn:Ea.
      { (* (a) a constant that starts to vary *)
        apply andb_true_iff in Ea as [Ec Et]. apply cls_eqb_eq in Ec. subst c1. apply negb_true_iff in Et.
        assert (Hrelsc : sc = oclass ko \/ In sc (preserving_f (Some (oclass ko)))).
        { destruct Hrel as [<-|Hin].
          - right. destruct sb; cbn [samples_of_base] in Hsc; try discriminate; injection Hsc as <-; cbn; auto.
          - exfalso. destruct (oclass ko); cbn [preserving_f In] in Hin; intuition discriminate. }
        destruct (negb (list_eqb veqb lv ov)).
        - apply bind_ok in H as [ks2 [Hks2 H]]. apply bind_ok in H as [ov2 [Hov2 H]].
          destruct (change_class_k_valid vnone hs _ ks2 sc Hwfs Hk Hks2) as [lv2 [-> Hkv2]].
          destruct (visible hs (Some (sc, lv2))) as [[c2 lv2']|] eqn:Evis; [|discriminate].
          apply visible_some in Evis as [Heq Hoks]. injection Heq as <- <-. injection H as <-.
          specialize (Hkv2 Hoks). destruct Hkv2 as [_ [_ Hl2]].
          pose proof (HA Et ov2 Hov2 Hrelsc) as Hl3. destruct (Hsample Et) as [Hs1' Hs2'].
          split.
          + split; [apply (sf_mono _ _ _ _ SF); exact Hoks|]. split; [intros Hx; congruence|].
            rewrite app_length, Hl2, Hl3. exact Hs1'.
          + cbn [knd]. intros _ _. exact Hs2'.
        - injection H as <-. apply kvalid_next; [exact Hk | exact Hn|].
          intros c vs Heq. injection Heq as <- <-. destruct (dims hs') as [[? ?] ?], (dims hs) as [[? ?] ?]. reflexivity. }
      destruct (cls_eqb c1 sc && negb t5d) eqn:Eb.
      { (* (b) already under the sample class *)
        apply andb_true_iff in Eb as [Ec Et]. apply cls_eqb_eq in Ec. subst c1. apply negb_true_iff in Et.
        injection H as <-. pose proof (HA Et ov Hov Hrel) as Hl3. destruct (Hsample Et) as [Hs1' Hs2'].
        split.
        - split; [apply (sf_mono _ _ _ _ SF); exact Hok1|]. split; [intros Hx; congruence|].
          rewrite app_length, Hl3. destruct Hk as [_ [_ Hl]]. rewrite Hl. exact Hs1'.
        - cbn [knd]. intros _ _. exact Hs2'. }
      destruct (cls_eqb c1 GConst && list_eqb veqb lv ov) eqn:Ecc.
      { (* (c) an unchanged constant *)
        apply andb_true_iff in Ecc as [Ec _]. apply cls_eqb_eq in Ec. subst c1.
        injection H as <-. apply kvalid_next; [exact Hk | exact Hn|].
        intros c vs Heq. injection Heq as <- <-. destruct (dims hs') as [[? ?] ?], (dims hs) as [[? ?] ?]. reflexivity. }
      (* (d) the general path through ('global','slices') *)
      apply bind_ok in H as [lo [Hlo H]].
      assert (Hgo : class_ok (shape ho) GSlices = true) by (apply class_ok_global; [apply Hwfo | reflexivity]).
      destruct (to_global_slices_len _ ko c1 lv ov lo eq_refl Hk Hko) as [Hl1' [Hl2' Hsdn]]; [|exact Hlo|].
      { intros Hc1. rewrite Hc1 in Hov. apply (other_len ko GSlices ov Hko Hov Hgo). }
      rewrite Hd in Hl1'. cbn [mult_spec] in Hl1'.
      assert (Hres : forall vs, length vs = mult_spec (dims hs') GSlices -> kvalid hs' (Some (GSlices, vs)) /\ knd hs' (Some (GSlices, vs))).
      { intros vs Hvs. split; [|intros _ Hx; contradiction].
        split; [apply class_ok_global; [apply Hwfs' | reflexivity]|]. split; [intros _; apply Hsd''; exact Hsdn | exact Hvs]. }
      destruct (sdim hs) as [sd|] eqn:Esd; [|contradiction].
      fold t5d in H. destruct t5d eqn:Et.
      - subst t5d. apply andb_true_iff in Et as [Eb5 E5]. apply Nat.eqb_eq in E5.
        destruct Hmode as [[-> [Hdo [Hd' Hnd]]] | [-> _]]; [|discriminate Eb5].
        destruct Hnd as [[_ E5o]|[E4 _]]; [|lia].
        rewrite (n_slices_dims hs sd Hwfs Esd), Hd in H. cbn [fst] in H.
        destruct (ndim5_dims hs Hwfs E5) as [_ [H3 [_ H4]]]. rewrite Hd in H3, H4. cbn [fst snd] in H3, H4.
        destruct (ndim5_dims ho Hwfo E5o) as [_ [H3o _]]. rewrite Hdo in H3o. cbn [fst snd] in H3o.
        rewrite H3, H3o, H4 in H. injection H as <-.
        rewrite Hdo in Hl2'. cbn [mult_spec] in Hl2'.
        apply Hres. rewrite Hd'. cbn [mult_spec]. rewrite interleave_len; nia.
      - injection H as <-. apply Hres. rewrite app_length, Hl1', Hl2'.
        destruct Hmode as [[-> [Hdo [Hd' _]]] | [-> [Hdo [Hd' _]]]]; rewrite Hdo, Hd'; cbn [mult_spec]; nia.
    Qed.

    (** * one [_insert] for one key *)
    Lemma insert_k_inv (ks ko r : kst) :
      kvalid hs ks -> knd hs ks -> kvalid ho ko -> knondeg ho ko ->
      insert_k veqb vnone hs ho dim ks ko = Ok r -> kvalid hs' r /\ knd hs' r.
    Proof.
      intros Hk Hn Hko Hndo H. unfold insert_k in H.
      set (ko2 := match visible ho ko with
                  | Some (c, vs) => if is_slices c && negb (use_slices hs ho) then None else Some (c, vs)
                  | None => None
                  end) in *.
      assert (Hko2 : kvalid ho ko2 /\ knondeg ho ko2).
      { subst ko2. destruct ko as [[c vs]|]; [|split; exact I]. rewrite (visible_kvalid _ _ _ Hko).
        destruct (is_slices c && negb (use_slices hs ho)); [split; exact I | split; assumption]. }
      destruct Hko2 as [Hko2 Hnd2].
      destruct (sf_mode _ _ _ _ SF) as [nS [nT [nV [Hd Hm]]]].
      pose proof dims_order as [Hord1 Hord2].
      assert (Hnone : ks = None -> ko2 = None -> r = None -> kvalid hs' r /\ knd hs' r).
      { intros _ _ ->. split; exact I. }
      assert (Hmain : forall ks1, reclassify_k vnone hs ks (oclass ko2) = Ok ks1 ->
                (if odim_is (sdim hs) dim then insert_slice_k veqb vnone hs ho ks1 ko2
                 else if dim <? 3 then insert_non_slice_k veqb vnone hs ho ks1 ko2
                 else if dim =? 3 then insert_sample_k veqb vnone hs ho ks1 ko2 BTime
                 else if dim =? 4 then insert_sample_k veqb vnone hs ho ks1 ko2 BVector
                 else Ok ks1) = Ok r -> kvalid hs' r /\ knd hs' r).
      { intros ks1 Hre Hins.
        assert (Hoc : class_ok (shape hs) (oclass ko2) = true /\ (is_slices (oclass ko2) = true -> sdim hs <> None) /\
                      (oclass ko2 <> GConst -> mult_spec (dims hs) (oclass ko2) <> 1)).
        { destruct ko2 as [[c vs]|]; cbn [oclass].
          - destruct Hko2 as [Hokc [Hsc _]]. split; [apply (sf_sub _ _ _ _ SF); exact Hokc|].
            split; [rewrite <- (sf_sd_o _ _ _ _ SF); exact Hsc|].
            intros Hc. specialize (Hnd2 Hc).
            pose proof (mult_spec_mono (dims ho) (dims hs) c Hord1) as Hle.
            pose proof (mult_spec_pos ho c Hwfo). lia.
          - split; [apply class_ok_global; [apply Hwfs | reflexivity]|]. split; [discriminate | intros Hx; contradiction]. }
        destruct Hoc as [Hoc1 [Hoc2 Hoc3]].
        destruct (reclassify_k_inv (oclass ko2) ks ks1 Hk Hn Hoc1 Hoc2 Hoc3 Hre) as [c1 [vs1 [-> [Hk1 [Hn1 Hrel]]]]].
        destruct Hm as [[Hod [Hdo [Hd' Hcls]]] | [[Hod [Hlt [Hdo [Hd' Hcls]]]] | [[Hod [Hdim [Hdo [Hd' Hnd]]]] | [Hod [Hdim [Hdo [Hd' Hnd]]]]]]];
          rewrite Hod in Hins; try rewrite Hdim in Hins.
        - apply (insert_slice_k_inv nS nT nV (Some (c1, vs1)) ko2 c1 vs1 r Hd Hod Hdo Hd' Hcls eq_refl Hk1 Hn1 Hko2 Hins).
        - apply Nat.ltb_lt in Hlt. rewrite Hlt in Hins.
          apply (insert_non_slice_k_inv (Some (c1, vs1)) ko2 r); [rewrite Hd', Hd; reflexivity | exact Hk1 | exact Hn1 | exact Hins].
        - cbn [Nat.ltb Nat.leb Nat.eqb] in Hins.
          apply (insert_sample_k_inv nS nT nV BTime TSamples (Some (c1, vs1)) ko2 c1 vs1 r Hd eq_refl); try assumption; try reflexivity.
          left. repeat split; assumption.
        - cbn [Nat.ltb Nat.leb Nat.eqb] in Hins.
          apply (insert_sample_k_inv nS nT nV BVector VSamples (Some (c1, vs1)) ko2 c1 vs1 r Hd eq_refl); try assumption; try reflexivity.
          right. repeat split; assumption. }
      destruct ko2 as [[c vs]|] eqn:Eko2.
      - apply bind_ok in H as [ks1 [Hre Hins]]. apply (Hmain ks1 Hre Hins).
      - destruct (visible hs ks) as [[c vs]|] eqn:Evis.
        + apply bind_ok in H as [ks1 [Hre Hins]]. apply (Hmain ks1 Hre Hins).
        + injection H as <-. destruct ks as [[c vs]|]; [|split; exact I].
          rewrite (visible_kvalid _ _ _ Hk) in Evis. discriminate.
    Qed.
  End Step.
End WithV.
